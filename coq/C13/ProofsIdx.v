(* C13 - proofs for (a) index normalisation, (c) rep/reverse/upper/lower/classes, (g) math integers *)
From C13 Require Import Model.
Local Open Scope Z_scope.

(* case analysis on the integer tests of the goal, innermost tests first so that no [if] is ever
   moved into a hypothesis *)
Ltac noif t := lazymatch t with context [if _ then _ else _] => fail | _ => idtac end.
Ltac zb1 :=
  match goal with
  | |- context [?a <? ?b] => noif a; noif b; destruct (Z.ltb_spec a b)
  | |- context [?a <=? ?b] => noif a; noif b; destruct (Z.leb_spec a b)
  | |- context [?a =? ?b] => noif a; noif b; destruct (Z.eqb_spec a b)
  end.
Ltac zb := repeat (zb1; cbn [andb orb negb]).
Ltac unf64 := unfold in_i64, minint, maxint, two63, two64 in *.

(* ---------------------------------------------------------------- (a) *)

Lemma slen_nonneg s : 0 <= slen s.
Proof. unfold slen. lia. Qed.

Lemma slice_all s : slice s 0 (slen s) = s.
Proof.
  unfold slice, slen. cbn [Z.to_nat skipn]. rewrite Nat2Z.id. apply firstn_all.
Qed.

Lemma posrelatI_eq pos len : in_i64 pos -> 0 <= len <= maxint ->
  posrelatI pos len =
  if 0 <? pos then pos else if pos =? 0 then 1 else if pos <? - len then 1 else len + pos + 1.
Proof.
  intros Hp Hl. unfold posrelatI, u64. unf64. zb; try reflexivity; lia.
Qed.

Lemma getendpos_eq pos len : in_i64 pos -> 0 <= len <= maxint ->
  getendpos pos len =
  if len <? pos then len else if 0 <=? pos then pos else if pos <? - len then 0 else len + pos + 1.
Proof.
  intros Hp Hl. unfold getendpos, u64. unf64. zb; try reflexivity; lia.
Qed.

Lemma nl_relstart_eq size i : in_i64 i -> 0 <= size <= maxint ->
  nl_relstart size i = if i <? 0 then size + i + 1 else i.
Proof.
  intros Hi Hs. unfold nl_relstart, ladd, wrap64. unf64. zb; try reflexivity; lia.
Qed.

Lemma u64_small x : 0 <= x < two64 -> u64 x = x.
Proof. intros H. unfold u64. apply Z.mod_small. exact H. Qed.

Lemma subsize_eq i j : 1 <= i -> i <= j -> j <= maxint -> u64 (ladd (lsub j i) 1) = j - i + 1.
Proof.
  intros H1 H2 H3. rewrite lsub_exact by (unf64; lia). rewrite ladd_exact by (unf64; lia).
  apply u64_small. unf64. lia.
Qed.

Lemma sub_eq_lua s i j : in_i64 i -> in_i64 j -> slen s <= maxint ->
  nl_sub s i j = lua_sub s i j.
Proof.
  intros Hi Hj Hs. pose proof (slen_nonneg s) as H0.
  unfold nl_sub, lua_sub.
  rewrite posrelatI_eq, getendpos_eq by (auto; lia).
  rewrite !nl_relstart_eq by (auto; lia).
  set (l := slen s) in *.
  destruct (Z.eqb_spec l 0) as [E|E].
  { (* empty subject *) unf64. zb; try reflexivity; lia. }
  set (i2 := if (if i <? 0 then l + i + 1 else i) <=? 0 then 1 else (if i <? 0 then l + i + 1 else i)).
  set (j2 := if l <? (if j <? 0 then l + j + 1 else j) then l else (if j <? 0 then l + j + 1 else j)).
  assert (Hi2 : 1 <= i2 <= maxint) by (subst i2; unf64; zb; lia).
  assert (Hj2 : j2 <= l) by (subst j2; zb; lia).
  assert (Hst : (if 0 <? i then i else if i =? 0 then 1 else if i <? - l then 1 else l + i + 1) = i2)
    by (subst i2; zb; lia).
  assert (Hen : (if l <? j then l else if 0 <=? j then j else if j <? - l then 0 else l + j + 1)
                = Z.max 0 j2) by (subst j2; zb; lia).
  rewrite Hst, Hen. clearbody i2 j2. clear Hst Hen.
  destruct (Z.eqb_spec i2 1) as [E1|E1]; cbn [andb].
  - destruct (Z.eqb_spec j2 l) as [E2|E2].
    + subst. replace (Z.max 0 l) with l by lia.
      destruct (Z.leb_spec 1 l); [|lia].
      replace (1 - 1) with 0 by lia. replace (l - 1 + 1) with l by lia.
      subst l. symmetry. apply slice_all.
    + destruct (Z.ltb_spec j2 i2).
      * destruct (Z.leb_spec i2 (Z.max 0 j2)); [lia|reflexivity].
      * rewrite subsize_eq by lia.
        destruct (Z.eqb_spec (j2 - i2 + 1) 0); [lia|].
        destruct (Z.leb_spec i2 (Z.max 0 j2)); [|lia].
        replace (Z.max 0 j2) with j2 by lia. reflexivity.
  - destruct (Z.ltb_spec j2 i2).
    + destruct (Z.leb_spec i2 (Z.max 0 j2)); [lia|reflexivity].
    + rewrite subsize_eq by lia.
      destruct (Z.eqb_spec (j2 - i2 + 1) 0); [lia|].
      destruct (Z.leb_spec i2 (Z.max 0 j2)); [|lia].
      replace (Z.max 0 j2) with j2 by lia. reflexivity.
Qed.

Lemma find_init_eq_lua init len : in_i64 init -> 0 <= len <= maxint ->
  nl_find_init init len = lua_find_init init len.
Proof.
  intros Hi Hl. unfold nl_find_init, lua_find_init.
  rewrite posrelatI_eq, nl_relstart_eq by auto.
  set (i2 := if (if init <? 0 then len + init + 1 else init) <=? 0 then 1
             else (if init <? 0 then len + init + 1 else init)).
  assert (Hi2 : 1 <= i2 <= maxint) by (subst i2; unf64; zb; lia).
  assert (Hst : (if 0 <? init then init else if init =? 0 then 1 else if init <? - len then 1
                 else len + init + 1) = i2) by (subst i2; zb; lia).
  rewrite Hst. clearbody i2. clear Hst.
  rewrite lsub_exact by (unf64; lia). rewrite u64_small by (unf64; lia). reflexivity.
Qed.

Lemma byte_at_some s i : 0 <= i < slen s -> exists b, byte_at s i = Some b.
Proof.
  intros H. unfold byte_at. destruct (Z.ltb_spec i 0); [lia|].
  destruct (nth_error s (Z.to_nat i)) eqn:E; [eauto|].
  apply nth_error_None in E. unfold slen in H. lia.
Qed.

(* string.byte: never unsafe; when it returns on a non-empty subject it returns Lua's byte; it
   stops exactly when Lua has "no value"; on the empty subject it returns 0 where Lua has no value *)
Lemma byte_eq_lua s i : in_i64 i -> slen s <= maxint ->
  match nl_byte s i with
  | Val b => if slen s =? 0 then b = 0 /\ lua_byte s i = None else lua_byte s i = Some b
  | Trap => lua_byte s i = None
  | Unsafe => False
  end.
Proof.
  intros Hi Hs. pose proof (slen_nonneg s) as H0.
  unfold nl_byte, lua_byte.
  rewrite posrelatI_eq, getendpos_eq by (auto; lia).
  rewrite nl_relstart_eq by (auto; lia).
  set (l := slen s) in *.
  destruct (Z.eqb_spec l 0) as [E|E].
  { split; [reflexivity|]. unf64. zb; try reflexivity; lia. }
  set (i1 := if i <? 0 then l + i + 1 else i).
  assert (Hi1 : in_i64 i1) by (subst i1; unf64; zb; lia).
  assert (Hd : (i < 0 /\ i1 = l + i + 1) \/ (0 <= i /\ i1 = i)) by (subst i1; zb; lia).
  clearbody i1.
  destruct (Z.leb_spec 1 i1) as [H1|H1]; cbn [andb].
  - rewrite u64_small by (unf64; lia).
    destruct (Z.leb_spec i1 l) as [H2|H2].
    + destruct (byte_at_some s (i1 - 1)) as [b Hb]; [fold l; lia|]. rewrite Hb.
      assert (Hp : (if 0 <? i then i else if i =? 0 then 1 else if i <? - l then 1 else l + i + 1) = i1)
        by (zb; lia).
      assert (He : (if l <? i then l else if 0 <=? i then i else if i <? - l then 0 else l + i + 1) = i1)
        by (zb; lia).
      rewrite Hp, He. rewrite Z.ltb_irrefl. exact Hb.
    + assert (Hlt : (if l <? i then l else if 0 <=? i then i else if i <? - l then 0 else l + i + 1)
               <? (if 0 <? i then i else if i =? 0 then 1 else if i <? - l then 1 else l + i + 1) = true)
        by (zb; lia).
      rewrite Hlt. reflexivity.
  - assert (Hlt : (if l <? i then l else if 0 <=? i then i else if i <? - l then 0 else l + i + 1)
             <? (if 0 <? i then i else if i =? 0 then 1 else if i <? - l then 1 else l + i + 1) = true)
      by (zb; lia).
    rewrite Hlt. reflexivity.
Qed.

(* ---------------------------------------------------------------- (c) *)

Lemma repeat_sep_nil n s : repeat_sep n s [] = repeat_bytes n s.
Proof.
  induction n as [|n IH]; [reflexivity|].
  destruct n as [|n]; [cbn; now rewrite app_nil_r|].
  change (repeat_sep (S (S n)) s []) with (s ++ [] ++ repeat_sep (S n) s []).
  rewrite IH. reflexivity.
Qed.

(* wherever reference Lua returns a string, the port returns the same string *)
Lemma rep_eq_lua s n r : in_i64 n -> slen s <= maxint ->
  lua_rep s n [] = LVal r -> nl_rep s n = Val r.
Proof.
  intros Hn Hs. pose proof (slen_nonneg s) as H0.
  unfold lua_rep, nl_rep. change (slen []) with 0. rewrite Z.add_0_r.
  destruct (Z.leb_spec n 0); [intros [= <-]; reflexivity|].
  destruct (Z.ltb_spec (LUA_MAXSIZE / n) (slen s)); [discriminate|].
  intros [= <-]. rewrite repeat_sep_nil.
  destruct (Z.eqb_spec n 1) as [->|Hn1]; [change (Z.to_nat 1) with 1%nat; cbn [repeat_bytes]; now rewrite app_nil_r|].
  assert (Hprod : n * slen s <= LUA_MAXSIZE).
  { pose proof (Z.mul_div_le LUA_MAXSIZE n ltac:(lia)). nia. }
  destruct (Z.eqb_spec (slen s) 0) as [E|E].
  { unfold slen in E. destruct s; [|cbn in E; lia].
    clear. induction (Z.to_nat n) as [|k IH]; [reflexivity|]. cbn. exact IH. }
  assert (Hu : u64 (n * slen s) = n * slen s).
  { unfold u64. apply Z.mod_small. unfold LUA_MAXSIZE, two64 in *. nia. }
  destruct (Z.ltb_spec ((two64 - 1) / n) (slen s)) as [Hbig|_].
  { exfalso. assert (slen s * n <= two64 - 1) by (unfold LUA_MAXSIZE, two64 in *; nia).
    pose proof (Z.div_le_lower_bound (two64 - 1) n (slen s) ltac:(lia) ltac:(lia)). lia. }
  rewrite Hu. unfold nl_create.
  assert (Hlim : LUA_MAXSIZE < ALLOC_LIMIT) by (vm_compute; reflexivity).
  unfold u64. unfold LUA_MAXSIZE, two64 in *.
  destruct (Z.eqb_spec (n * slen s) 0); [nia|].
  destruct (Z.ltb_spec (n * slen s) ((n * slen s + 1) mod 18446744073709551616)); cbn [negb]; [|lia].
  destruct (Z.eqb_spec ((n * slen s + 1) mod 18446744073709551616) 0); [lia|].
  destruct (Z.ltb_spec ALLOC_LIMIT (n * slen s)); [lia|].
  destruct (Z.ltb_spec (n * slen s) (n * slen s)); [lia|]. reflexivity.
Qed.

Lemma rep_sep_eq_lua s n sep r : in_i64 n -> slen s <= maxint -> slen sep <= maxint ->
  lua_rep s n sep = LVal r -> nl_rep_sep s n sep = Val r.
Proof.
  intros Hn Hs Hp. pose proof (slen_nonneg s) as H0. pose proof (slen_nonneg sep) as H1.
  unfold lua_rep, nl_rep_sep.
  destruct (Z.leb_spec n 0); [intros [= <-]; reflexivity|].
  destruct (Z.ltb_spec (LUA_MAXSIZE / n) (slen s + slen sep)); [discriminate|].
  intros [= <-].
  destruct (Z.eqb_spec n 1) as [->|Hn1]; [reflexivity|].
  assert (Hprod : n * (slen s + slen sep) <= LUA_MAXSIZE).
  { pose proof (Z.mul_div_le LUA_MAXSIZE n ltac:(lia)). nia. }
  assert (Hps : u64 (slen s + slen sep) = slen s + slen sep).
  { unfold u64. apply Z.mod_small. unfold LUA_MAXSIZE, two64 in *. nia. }
  rewrite Hps.
  destruct (Z.leb_spec (slen s + slen sep) 0) as [E|E].
  { assert (slen s = 0) by lia. assert (slen sep = 0) by lia.
    unfold slen in *. destruct s; [|cbn in *; lia]. destruct sep; [|cbn in *; lia].
    clear. f_equal. induction (Z.to_nat n) as [|k IH]; [reflexivity|].
    destruct k; [reflexivity|]. exact IH. }
  assert (Hge : slen sep < n * (slen s + slen sep)) by nia.
  destruct (Z.leb_spec (slen s) (slen s + slen sep)) as [_|?]; [|lia].
  destruct (Z.leb_spec (slen s + slen sep) ((two64 - 1) / n)) as [_|Hbig]; cbn [andb negb].
  2:{ exfalso. assert ((slen s + slen sep) * n <= two64 - 1) by (unfold LUA_MAXSIZE, two64 in *; nia).
      pose proof (Z.div_le_lower_bound (two64 - 1) n (slen s + slen sep) ltac:(lia) ltac:(lia)). lia. }
  set (P := n * (slen s + slen sep)) in *.
  assert (Hlim : LUA_MAXSIZE < ALLOC_LIMIT) by (vm_compute; reflexivity).
  rewrite (u64_small P) by (unfold LUA_MAXSIZE, two64 in *; lia).
  rewrite (u64_small (P - slen sep)) by (unfold LUA_MAXSIZE, two64 in *; lia).
  unfold nl_create.
  rewrite (u64_small (P - slen sep + 1)) by (unfold LUA_MAXSIZE, two64 in *; lia).
  destruct (Z.eqb_spec (P - slen sep) 0); [lia|].
  destruct (Z.ltb_spec (P - slen sep) (P - slen sep + 1)); cbn [negb]; [|lia].
  destruct (Z.eqb_spec (P - slen sep + 1) 0); [lia|].
  destruct (Z.ltb_spec ALLOC_LIMIT (P - slen sep)); [lia|].
  rewrite Z.ltb_irrefl. reflexivity.
Qed.

(* memory safety of string.rep (after b10c461 and c3dc3fb): the multiplication cannot wrap any more, and
   string.create rejects the one size whose terminator would not fit *)
Lemma create_never_unsafe size : 0 <= size -> nl_create size <> Unsafe.
Proof.
  intros H. unfold nl_create, u64, two64.
  destruct (size =? 0); [discriminate|].
  destruct (Z.ltb_spec size ((size + 1) mod 18446744073709551616)); cbn [negb]; [|discriminate].
  destruct (Z.eqb_spec ((size + 1) mod 18446744073709551616) 0); [lia|].
  destruct (ALLOC_LIMIT <? size); discriminate.
Qed.

Lemma rep_memory_safe s n : nl_rep s n <> Unsafe.
Proof.
  pose proof (slen_nonneg s) as H0. unfold nl_rep.
  destruct (Z.leb_spec n 0); [discriminate|]. destruct (n =? 1); [discriminate|].
  destruct (slen s =? 0); [discriminate|].
  destruct (Z.ltb_spec ((two64 - 1) / n) (slen s)) as [|Hle]; [discriminate|].
  assert (Hprod : n * slen s <= two64 - 1).
  { pose proof (Z.mul_div_le (two64 - 1) n ltac:(lia)). nia. }
  assert (Hu : u64 (n * slen s) = n * slen s) by (unfold u64; apply Z.mod_small; nia).
  rewrite Hu.
  pose proof (create_never_unsafe (n * slen s) ltac:(nia)) as Hc.
  destruct (nl_create (n * slen s)); [|discriminate|contradiction].
  rewrite Z.ltb_irrefl. discriminate.
Qed.

Lemma rep_sep_memory_safe s n sep : slen s <= maxint -> slen sep <= maxint -> nl_rep_sep s n sep <> Unsafe.
Proof.
  intros Hs Hp. pose proof (slen_nonneg s) as H0. pose proof (slen_nonneg sep) as H1. unfold nl_rep_sep.
  destruct (Z.leb_spec n 0); [discriminate|]. destruct (Z.eqb_spec n 1); [discriminate|].
  assert (Hps : u64 (slen s + slen sep) = slen s + slen sep).
  { unfold u64. apply Z.mod_small. unfold maxint, two63, two64 in *. lia. }
  rewrite Hps. destruct (Z.leb_spec (slen s + slen sep) 0); [discriminate|].
  destruct (Z.leb_spec (slen s) (slen s + slen sep)); [|lia].
  destruct (Z.leb_spec (slen s + slen sep) ((two64 - 1) / n)) as [Hle|]; cbn [andb negb]; [|discriminate].
  assert (Hprod : n * (slen s + slen sep) <= two64 - 1).
  { pose proof (Z.mul_div_le (two64 - 1) n ltac:(lia)). nia. }
  set (P := n * (slen s + slen sep)) in *.
  assert (HP : slen sep <= P) by (subst P; nia).
  rewrite (u64_small P) by (unfold two64 in *; lia).
  rewrite (u64_small (P - slen sep)) by (unfold two64 in *; lia).
  pose proof (create_never_unsafe (P - slen sep) ltac:(lia)) as Hc.
  destruct (nl_create (P - slen sep)); [|discriminate|contradiction].
  rewrite Z.ltb_irrefl. discriminate.
Qed.

Lemma nth_map_seq (f : nat -> Z) len n d : (n < len)%nat -> nth n (map f (seq 0 len)) d = f n.
Proof.
  intros H. rewrite (nth_indep _ d (f 0%nat)) by (rewrite map_length, seq_length; exact H).
  rewrite map_nth. rewrite seq_nth by exact H. reflexivity.
Qed.

Lemma reverse_eq_lua s : nl_reverse s = lua_reverse s.
Proof.
  unfold nl_reverse, lua_reverse.
  apply nth_ext with (d := 0) (d' := 0).
  - rewrite map_length, seq_length, rev_length. reflexivity.
  - intros n Hn. rewrite map_length, seq_length in Hn.
    rewrite nth_map_seq by exact Hn.
    rewrite rev_nth by exact Hn. f_equal. lia.
Qed.

(* the port's character functions against the C locale, for all 256 bytes *)
Definition classes_agree (c : Z) : bool :=
  (sc_toupper c mod 256 =? c_toupper c) && (sc_tolower c mod 256 =? c_tolower c) &&
  Bool.eqb (sc_isalpha c) (c_isalpha c) && Bool.eqb (sc_islower c) (c_islower c) &&
  Bool.eqb (sc_isupper c) (c_isupper c) && Bool.eqb (sc_isdigit c) (c_isdigit c) &&
  Bool.eqb (sc_isxdigit c) (c_isxdigit c) && Bool.eqb (sc_iscntrl c) (c_iscntrl c) &&
  Bool.eqb (sc_isgraph c) (c_isgraph c) && Bool.eqb (sc_isspace c) (c_isspace c) &&
  Bool.eqb (sc_isalnum c) (c_isalnum c) && Bool.eqb (sc_ispunct c) (c_ispunct c).

Lemma classes_agree_all : forallb classes_agree all_bytes = true.
Proof. vm_compute. reflexivity. Qed.

Lemma strchar_eq_clocale c : 0 <= c < 256 ->
  sc_toupper c mod 256 = c_toupper c /\ sc_tolower c mod 256 = c_tolower c /\
  sc_isalpha c = c_isalpha c /\ sc_islower c = c_islower c /\ sc_isupper c = c_isupper c /\
  sc_isdigit c = c_isdigit c /\ sc_isxdigit c = c_isxdigit c /\ sc_iscntrl c = c_iscntrl c /\
  sc_isgraph c = c_isgraph c /\ sc_isspace c = c_isspace c /\ sc_isalnum c = c_isalnum c /\
  sc_ispunct c = c_ispunct c.
Proof.
  intros Hc. pose proof (forall_bytes _ classes_agree_all c Hc) as H.
  unfold classes_agree in H. rewrite !andb_true_iff in H.
  repeat match goal with H : _ /\ _ |- _ => destruct H end.
  repeat match goal with
         | H : (_ =? _) = true |- _ => apply Z.eqb_eq in H
         | H : Bool.eqb _ _ = true |- _ => apply Bool.eqb_prop in H
         end.
  repeat split; assumption.
Qed.

Lemma is_bytes_forall s : is_bytes s = true -> forall c, In c s -> 0 <= c < 256.
Proof.
  unfold is_bytes. rewrite forallb_forall. intros H c Hc. specialize (H c Hc).
  unfold is_byte in H. lia.
Qed.

Lemma upper_eq_lua s : is_bytes s = true -> nl_upper s = lua_upper s.
Proof.
  intros H. unfold nl_upper, lua_upper. apply map_ext_in. intros c Hc.
  apply strchar_eq_clocale. eapply is_bytes_forall; eauto.
Qed.

Lemma lower_eq_lua s : is_bytes s = true -> nl_lower s = lua_lower s.
Proof.
  intros H. unfold nl_lower, lua_lower. apply map_ext_in. intros c Hc.
  apply strchar_eq_clocale. eapply is_bytes_forall; eauto.
Qed.

(* ---------------------------------------------------------------- (g) *)

Lemma abs_eq_lua n : in_i64 n -> nl_abs n = lua_abs n.
Proof.
  intros H. unfold nl_abs, lua_abs, lneg, u64, wrap64. unf64. zb; try reflexivity. lia.
Qed.

Lemma abs_minint : nl_abs minint = minint.
Proof. vm_compute. reflexivity. Qed.

Lemma ult_eq_lua a b : nl_ult a b = lua_ult a b.
Proof. reflexivity. Qed.

Lemma max_eq_lua x l : nl_max_l x l = lua_max_l x l.
Proof. revert x. induction l as [|v l IH]; intros x; [reflexivity|]. cbn. apply IH. Qed.

Lemma min_eq_lua x l : nl_min_l x l = lua_min_l x l.
Proof. revert x. induction l as [|v l IH]; intros x; [reflexivity|]. cbn. apply IH. Qed.

Lemma max2_eq_lua x y : nl_max2 x y = lua_max_l x [y].
Proof. unfold nl_max2. cbn. zb; lia. Qed.

Lemma min2_eq_lua x y : nl_min2 x y = lua_min_l x [y].
Proof. unfold nl_min2. cbn. zb; lia. Qed.

(* fmod on integers (after 5a6ed3d): the port returns Lua's value wherever Lua returns one, stops
   exactly where Lua raises "zero", and never reaches C's undefined  x % y *)
Lemma fmod_eq_lua x y : in_i64 x -> in_i64 y ->
  match lua_fmod x y with
  | LVal v => nl_fmod x y = Val v
  | LErr => nl_fmod x y = Trap
  end.
Proof.
  intros Hx Hy. unfold nl_fmod, lua_fmod, c_rem, u64. unf64.
  destruct (Z.eqb_spec y 0) as [->|Hy0]; [reflexivity|].
  destruct (Z.eqb_spec y (-1)) as [->|Hy1]; [reflexivity|].
  destruct (Z.leb_spec ((y mod 18446744073709551616 + 1) mod 18446744073709551616) 1); [lia|].
  rewrite andb_false_r. reflexivity.
Qed.

Lemma fmod_never_unsafe x y : nl_fmod x y <> Unsafe.
Proof.
  unfold nl_fmod, c_rem. destruct (Z.eqb_spec y 0); [discriminate|].
  destruct (Z.eqb_spec y (-1)); [discriminate|]. rewrite andb_false_r. discriminate.
Qed.

Lemma repeat_bytes_nil n : repeat_bytes n [] = [].
Proof. induction n as [|n IH]; [reflexivity|exact IH]. Qed.

(* whatever string.rep returns is the n-fold repetition *)
Lemma rep_val_is_repetition s n r : nl_rep s n = Val r -> r = repeat_bytes (Z.to_nat n) s.
Proof.
  unfold nl_rep. destruct (Z.leb_spec n 0).
  - intros [= <-]. replace (Z.to_nat n) with O by lia. reflexivity.
  - destruct (Z.eqb_spec n 1) as [->|].
    + intros [= <-]. cbn. symmetry. apply app_nil_r.
    + destruct (Z.eqb_spec (slen s) 0) as [E0|].
      * intros [= <-]. destruct s; [symmetry; apply repeat_bytes_nil|unfold slen in E0; cbn in E0; lia].
      * destruct ((two64 - 1) / n <? slen s); [discriminate|].
        destruct (nl_create (u64 (n * slen s))); try discriminate.
        destruct (u64 (n * slen s) <? n * slen s); [discriminate|]. intros [= <-]. reflexivity.
Qed.

Lemma gen_facts : NL_GMATCH_HAS_LASTMATCH = true /\ GMATCH_MAX_CAPTURES = 8.
Proof. split; reflexivity. Qed.
