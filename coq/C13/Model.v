(* C13 - executable models.  Naming: [lua_*] is the reference (Lua 5.4's lstrlib.c / lutf8lib.c /
   lmathlib.c / lvm.c written as the SPEC); [nl_*] is Nelua's port (lib/string.nelua, lib/utf8.nelua,
   lib/math.nelua, lib/detail/*.nelua written as the MODEL, as the code is today).
   No proofs in this file. *)
From C13 Require Export Defs Gen.
Local Open Scope Z_scope.

(* ================================================================================================
   (a) index normalisation
   ================================================================================================ *)

(* lstrlib.c posrelatI: size_t result; 'len + (size_t)pos + 1' is computed modulo 2^64 *)
Definition posrelatI (pos len : Z) : Z :=
  if 0 <? pos then pos
  else if pos =? 0 then 1
  else if pos <? - len then 1
  else (len + u64 pos + 1) mod two64.

(* lstrlib.c getendpos (argument already fetched) *)
Definition getendpos (pos len : Z) : Z :=
  if len <? pos then len
  else if 0 <=? pos then pos
  else if pos <? - len then 0
  else (len + u64 pos + 1) mod two64.

(* str_sub *)
Definition lua_sub (s : bytes) (i j : Z) : bytes :=
  let l := slen s in
  let st := posrelatI i l in
  let en := getendpos j l in
  if st <=? en then slice s (st - 1) (en - st + 1) else [].

(* str_byte with one index: None = "no value" *)
Definition lua_byte (s : bytes) (i : Z) : option Z :=
  let l := slen s in
  let posi := posrelatI i l in
  let pose := getendpos i l in
  if pose <? posi then None else byte_at s (posi - 1).

(* str_find_aux / str_match / gmatch: 0-based start position, None = "init > ls: fail" *)
Definition lua_find_init (init len : Z) : option Z :=
  let i := posrelatI init len - 1 in
  if len <? i then None else Some i.

(* string.nelua: the chain  if i < 0 then i = size + i + 1 end  on isize (wraps) *)
Definition nl_relstart (size i : Z) : Z := if i <? 0 then ladd (ladd size i) 1 else i.

(* string.sub (string.subview computes the same indices) *)
Definition nl_sub (s : bytes) (i j : Z) : bytes :=
  let size := slen s in
  if size =? 0 then [] else
  let i := nl_relstart size i in
  let i := if i <=? 0 then 1 else i in
  let j := nl_relstart size j in
  let j := if size <? j then size else j in
  if (i =? 1) && (j =? size) then s else
  if j <? i then [] else
  let subsize := u64 (ladd (lsub j i) 1) in
  if subsize =? 0 then [] else slice s (i - 1) subsize.

(* string.byte *)
Definition nl_byte (s : bytes) (i : Z) : res Z :=
  let size := slen s in
  if size =? 0 then Val 0 else
  let i := nl_relstart size i in
  if (1 <=? i) && (u64 i <=? size) then
    match byte_at s (i - 1) with Some b => Val b | None => Unsafe end
  else Trap.

(* string.find / string_match / gmatch: init chain, then StrPatt.match's  (@usize)(s) > size  test *)
Definition nl_find_init (init len : Z) : option Z :=
  let i := nl_relstart len init in
  let i := if i <=? 0 then 1 else i in
  let s0 := lsub i 1 in
  if len <? u64 s0 then None else Some s0.

(* ================================================================================================
   (b) string order
   ================================================================================================ *)

(* lexicographic order on byte strings: the mathematical reference *)
Fixpoint lex_cmp (a b : bytes) : comparison :=
  match a, b with
  | [], [] => Eq
  | [], _ :: _ => Lt
  | _ :: _, [] => Gt
  | x :: a', y :: b' => match x ?= y with Eq => lex_cmp a' b' | c => c end
  end.

(* C strcmp/strcoll in the "C" locale on the NUL-terminated strings that start at [a] and [b]
   (each list is followed in memory by a terminating 0) *)
Fixpoint c_strcmp (a b : bytes) : comparison :=
  match a, b with
  | [], [] => Eq
  | [], y :: _ => if y =? 0 then Eq else Lt
  | x :: _, [] => if x =? 0 then Eq else Gt
  | x :: a', y :: b' =>
      if (x =? 0) && (y =? 0) then Eq
      else match x ?= y with Eq => c_strcmp a' b' | c => c end
  end.

(* strlen: index of the first 0 (or the end of the list, where the terminator sits) *)
Fixpoint c_strlen (a : bytes) : Z :=
  match a with
  | [] => 0
  | x :: a' => if x =? 0 then 0 else 1 + c_strlen a'
  end.

(* lvm.c l_strcmp: compares chunk by chunk between embedded NULs. None = out of fuel. *)
Fixpoint l_strcmp (fuel : nat) (a b : bytes) : option comparison :=
  match fuel with
  | O => None
  | S f =>
      match c_strcmp a b with
      | Eq =>
          let zl1 := c_strlen a in
          let zl2 := c_strlen b in
          if zl2 =? slen b then Some (if zl1 =? slen a then Eq else Gt)
          else if zl1 =? slen a then Some Lt
          else l_strcmp f (skipn (Z.to_nat (zl1 + 1)) a) (skipn (Z.to_nat (zl2 + 1)) b)
      | c => Some c
      end
  end.

Definition lua_strlt (a b : bytes) : option bool :=
  match l_strcmp (S (length a)) a b with Some Lt => Some true | Some _ => Some false | None => None end.
Definition lua_strle (a b : bytes) : option bool :=
  match l_strcmp (S (length a)) a b with Some Gt => Some false | Some _ => Some true | None => None end.

(* memcmp over n bytes (libc, trusted): lexicographic comparison of the two prefixes *)
Definition memcmp (a b : bytes) (n : Z) : comparison :=
  lex_cmp (firstn (Z.to_nat n) a) (firstn (Z.to_nat n) b).
Definition cmp_le0 (c : comparison) : bool := match c with Gt => false | _ => true end.
Definition cmp_lt0 (c : comparison) : bool := match c with Lt => true | _ => false end.

(* string.__lt *)
Definition nl_strlt (a b : bytes) : bool :=
  if (slen a =? 0) || (slen b =? 0) then slen a <? slen b
  else if slen a <? slen b then cmp_le0 (memcmp a b (slen a))
  else cmp_lt0 (memcmp a b (slen b)).

(* string.__le *)
Definition nl_strle (a b : bytes) : bool :=
  if (slen a =? 0) || (slen b =? 0) then slen a <=? slen b
  else if slen a <=? slen b then cmp_le0 (memcmp a b (slen a))
  else cmp_lt0 (memcmp a b (slen b)).

(* string.__eq (the pointer-equality shortcut is subsumed by memory.equals) *)
Definition nl_streq (a b : bytes) : bool :=
  (slen a =? slen b) && ((slen a =? 0) || match memcmp a b (slen a) with Eq => true | _ => false end).

(* ================================================================================================
   (c) rep / reverse / upper / lower / character classes
   ================================================================================================ *)

Fixpoint repeat_bytes (n : nat) (s : bytes) : bytes :=
  match n with O => [] | S n' => s ++ repeat_bytes n' s end.
Fixpoint repeat_sep (n : nat) (s sep : bytes) : bytes :=      (* n >= 1 copies, sep between *)
  match n with O => [] | S O => s | S n' => s ++ sep ++ repeat_sep n' s sep end.

(* str_rep *)
Definition lua_rep (s : bytes) (n : Z) (sep : bytes) : lres bytes :=
  let l := slen s in let lsep := slen sep in
  if n <=? 0 then LVal []
  else if LUA_MAXSIZE / n <? l + lsep then LErr       (* "resulting string too large" *)
  else LVal (repeat_sep (Z.to_nat n) s sep).

(* Platform assumption (not scraped): a single allocation of more than 2^47 bytes fails on x86-64
   (user address space), so xalloc panics with "out of memory". *)
Definition ALLOC_LIMIT : Z := 2 ^ 47.

(* string.create(size) (after c3dc3fb): check(size > 0); assert(size + 1 > size) in usize, so the one size whose
   size + 1 wraps to 0 is rejected; then xalloc(size+1), which panics ("out of memory") when it fails.
   The model keeps the outcome "allocation of 0 bytes, terminator written through nilptr" to prove it unreachable. *)
Definition nl_create (size : Z) : res unit :=
  if size =? 0 then Trap
  else if negb (size <? u64 (size + 1)) then Trap          (* 'string size too large' *)
  else if u64 (size + 1) =? 0 then Unsafe
  else if ALLOC_LIMIT <? size then Trap
  else Val tt.

(* string.rep without separator (after b10c461):  assert(s.size <= (@usize)(-1) // n) ; then
   string.create(n * s.size) and the loop writes n * s.size bytes *)
Definition nl_rep (s : bytes) (n : Z) : res bytes :=
  if n <=? 0 then Val []
  else if n =? 1 then Val s
  else
    let size := slen s in
    if size =? 0 then Val [] else
    if (two64 - 1) / n <? size then Trap                  (* 'resulting string too large' *)
    else
    let alloc := u64 (n * size) in
    match nl_create alloc with
    | Trap => Trap
    | Unsafe => Unsafe
    | Val _ =>
        if alloc <? n * size then Unsafe                  (* the copy loop would run past the buffer *)
        else Val (repeat_bytes (Z.to_nat n) s)
    end.

(* string.rep with separator:  assert(partsize >= s.size and partsize <= (@usize)(-1) // n) *)
Definition nl_rep_sep (s : bytes) (n : Z) (sep : bytes) : res bytes :=
  if n <=? 0 then Val []
  else if n =? 1 then Val s
  else
    let partsize := u64 (slen s + slen sep) in
    if partsize <=? 0 then Val [] else
    if negb ((slen s <=? partsize) && (partsize <=? (two64 - 1) / n)) then Trap
    else
    let alloc := u64 (u64 (n * partsize) - slen sep) in
    match nl_create alloc with
    | Trap => Trap
    | Unsafe => Unsafe
    | Val _ =>
        if alloc <? n * partsize - slen sep then Unsafe
        else Val (repeat_sep (Z.to_nat n) s sep)
    end.

Definition lua_reverse (s : bytes) : bytes := rev s.
(* string.reverse: ret[i] = s[size - i - 1] *)
Definition nl_reverse (s : bytes) : bytes :=
  map (fun i => nth (length s - i - 1) s 0) (seq 0 (length s)).

(* C locale: toupper / tolower / is* of <ctype.h> (ISO C 7.4, "C" locale) *)
Definition between (lo hi c : Z) : bool := (lo <=? c) && (c <=? hi).
Definition c_toupper (c : Z) : Z := if between 97 122 c then c - 32 else c.
Definition c_tolower (c : Z) : Z := if between 65 90 c then c + 32 else c.
Definition c_isupper (c : Z) := between 65 90 c.
Definition c_islower (c : Z) := between 97 122 c.
Definition c_isalpha (c : Z) := c_isupper c || c_islower c.
Definition c_isdigit (c : Z) := between 48 57 c.
Definition c_isxdigit (c : Z) := c_isdigit c || between 65 70 c || between 97 102 c.
Definition c_isalnum (c : Z) := c_isalpha c || c_isdigit c.
Definition c_isspace (c : Z) := (c =? 32) || between 9 13 c.
Definition c_iscntrl (c : Z) := between 0 31 c || (c =? 127).
Definition c_isgraph (c : Z) := between 33 126 c.
Definition c_ispunct (c : Z) := c_isgraph c && negb (c_isalnum c).

Definition lua_upper (s : bytes) : bytes := map c_toupper s.
Definition lua_lower (s : bytes) : bytes := map c_tolower s.
(* string.upper / lower: (@byte)(strchar.toupper(s.data[i])) *)
Definition nl_upper (s : bytes) : bytes := map (fun c => sc_toupper c mod 256) s.
Definition nl_lower (s : bytes) : bytes := map (fun c => sc_tolower c mod 256) s.

(* ================================================================================================
   (g) math: integer cases
   ================================================================================================ *)

(* lmathlib.c math_abs:  if (n < 0) n = (lua_Integer)(0u - (lua_Unsigned)n) *)
Definition lua_abs (n : Z) : Z := if n <? 0 then wrap64 (0 - u64 n) else n.
(* math.abs:  x < 0 and -x or x  on int64 (compiled with wrapping negation) *)
Definition nl_abs (n : Z) : Z := if n <? 0 then lneg n else n.

(* math_fmod, integer case *)
Definition lua_fmod (m d : Z) : lres Z :=
  if u64 (u64 d + 1) <=? 1 then                (* (lua_Unsigned)d + 1u <= 1u, unsigned wrap: d is 0 or -1 *)
    (if d =? 0 then LErr else LVal 0)
  else LVal (Z.rem m d).
(* C:  x % y  on int64: division by zero and INT64_MIN % -1 are undefined *)
Definition c_rem (x y : Z) : res Z :=
  if y =? 0 then Unsafe
  else if (x =? minint) && (y =? -1) then Unsafe
  else Val (Z.rem x y).
(* math.fmod, integer case (after 5a6ed3d):  assert(y ~= 0);  if y == -1 then return 0 end;  z = x % y *)
Definition nl_fmod (x y : Z) : res Z :=
  if y =? 0 then Trap
  else if y =? -1 then Val 0
  else c_rem x y.

(* math_ult *)
Definition lua_ult (a b : Z) : bool := u64 a <? u64 b.
Definition nl_ult (a b : Z) : bool := u64 a <? u64 b.

(* math_max / math_min over integers (at least one argument) *)
Fixpoint lua_max_l (acc : Z) (l : list Z) : Z :=
  match l with [] => acc | x :: r => lua_max_l (if acc <? x then x else acc) r end.
Fixpoint lua_min_l (acc : Z) (l : list Z) : Z :=
  match l with [] => acc | x :: r => lua_min_l (if x <? acc then x else acc) r end.
(* math.max: two arguments (after 873f3b9)  x < y and y or x ; more:  if res < v then res = v *)
Definition nl_max2 (x y : Z) : Z := if x <? y then y else x.
Definition nl_min2 (x y : Z) : Z := if y <? x then y else x.
Fixpoint nl_max_l (acc : Z) (l : list Z) : Z :=
  match l with [] => acc | v :: r => nl_max_l (if acc <? v then v else acc) r end.
Fixpoint nl_min_l (acc : Z) (l : list Z) : Z :=
  match l with [] => acc | v :: r => nl_min_l (if v <? acc then v else acc) r end.

(* math.floor / ceil / tointeger on an integer argument are the identity in both *)
Definition lua_floor_int (n : Z) : Z := n.
Definition nl_floor_int (n : Z) : Z := n.
