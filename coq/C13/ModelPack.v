(* C13 (f) - string.pack / string.unpack of sized integers: lstrlib.c packint / unpackint (the SPEC)
   and lib/detail/strpack.nelua packint / unpackint (the MODEL).  Bytes are listed in memory order. *)
From C13 Require Export Model.
Local Open Scope Z_scope.

(* the loop shared by both sources:  buff[0] = n & 0xff; for i = 1..size-1: n >>= 8; buff[i] = n & 0xff
   (little-endian order; big endian stores the same bytes at size-1-i) *)
Fixpoint pack_bytes (k : nat) (n : Z) : bytes :=
  match k with O => [] | S k' => Z.land n 255 :: pack_bytes k' (Z.shiftr n 8) end.

Definition sign_extend_tail (le : bytes) (size : Z) (neg : bool) : bytes :=
  if (8 <? size) && neg then firstn 8 le ++ repeat 255 (Z.to_nat (size - 8)) else le.

Definition pack_core (n : Z) (size : Z) (neg little : bool) : bytes :=
  let le := sign_extend_tail (pack_bytes (Z.to_nat size) n) size neg in
  if little then le else rev le.

(* Lua: str_pack, options Kint / Kuint (size already validated to 1..16) *)
Definition lua_pack_int (a size : Z) (little : bool) : lres bytes :=
  if (size <? 8) && negb ((- 2 ^ (8 * size - 1) <=? a) && (a <? 2 ^ (8 * size - 1))) then LErr  (* "integer overflow" *)
  else LVal (pack_core (u64 a) size (a <? 0) little).
Definition lua_pack_uint (a size : Z) (little : bool) : lres bytes :=
  if (size <? 8) && negb (u64 a <? 2 ^ (8 * size)) then LErr                                  (* "unsigned overflow" *)
  else LVal (pack_core (u64 a) size false little).

(* Nelua packint (after 333c294): takes [issigned]; neg = issigned and a < 0; for sizes below 8
     lim = 1 << (size*8 - 1)  (uint64)
     assert(not issigned or n + lim < 2*lim, 'integer overflow')      -- n + lim wraps in uint64
     assert(issigned or n < 2*lim, 'unsigned overflow') *)
Definition nl_packint (a size : Z) (little issigned : bool) : res bytes :=
  let n := u64 a in
  let neg := issigned && (a <? 0) in
  if size <? 8 then
    let lim := u64 (Z.shiftl 1 (size * 8 - 1)) in
    if issigned && negb (u64 (n + lim) <? u64 (2 * lim)) then Trap
    else if negb issigned && negb (n <? u64 (2 * lim)) then Trap
    else Val (pack_core n size neg little)
  else Val (pack_core n size neg little).
Definition nl_pack_int (a size : Z) (little : bool) : res bytes := nl_packint a size little true.
Definition nl_pack_uint (a size : Z) (little : bool) : res bytes := nl_packint a size little false.

(* unpackint, identical control flow in both sources.  [data]: the size bytes in memory order.
   Result: the uint64 accumulator reinterpreted as int64; None = "does not fit" error/assert *)
Definition unpack_core (data : bytes) (size : Z) (little signed : bool) : option Z :=
  let le := if little then data else rev data in
  let limit := if size <=? 8 then size else 8 in
  let n := fold_left (fun n b => u64 (Z.lor (u64 (Z.shiftl n 8)) b)) (rev (firstn (Z.to_nat limit) le)) 0 in
  if size <? 8 then
    if signed then
      let mask := Z.shiftl 1 (size * 8 - 1) in
      Some (wrap64 (u64 (Z.lxor n mask - mask)))
    else Some (wrap64 n)
  else if 8 <? size then
    let mask := if negb signed || (0 <=? wrap64 n) then 0 else 255 in
    if forallb (fun b => b =? mask) (skipn 8 le) then Some (wrap64 n) else None
  else Some (wrap64 n).
Definition lua_unpack_int := unpack_core.
Definition nl_unpack_int := unpack_core.

(* the value a byte string denotes: little-endian base-256 number *)
Fixpoint le_value (bs : bytes) : Z :=
  match bs with [] => 0 | b :: r => b + 256 * le_value r end.
