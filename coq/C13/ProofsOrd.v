(* C13 - proofs for (b): string order.  Lua's l_strcmp (chunks between embedded NULs, strcoll in the C
   locale) = lexicographic byte order = Nelua's __lt/__le/__eq built on memcmp. *)
From C13 Require Import Model ProofsIdx.
Local Open Scope Z_scope.

Lemma c_strlen_nonneg a : 0 <= c_strlen a.
Proof. induction a as [|x a IH]; cbn [c_strlen]; [lia|]. destruct (x =? 0); lia. Qed.

Lemma slen_cons x (a : bytes) : slen (x :: a) = 1 + slen a.
Proof. unfold slen. cbn [length]. lia. Qed.

Lemma skipn_succ_cons (x : Z) a z : 0 <= z ->
  skipn (Z.to_nat (1 + z + 1)) (x :: a) = skipn (Z.to_nat (z + 1)) a.
Proof.
  intros Hz. replace (Z.to_nat (1 + z + 1)) with (S (Z.to_nat (z + 1))) by lia. reflexivity.
Qed.

(* what one strcmp of two NUL-terminated chunks tells about the lexicographic order of the whole
   strings *)
Definition chunk_spec (a b : bytes) : Prop :=
  match c_strcmp a b with
  | Lt => lex_cmp a b = Lt
  | Gt => lex_cmp a b = Gt
  | Eq =>
      c_strlen a = c_strlen b /\
      let z := c_strlen a in
      if z =? slen b then (if z =? slen a then lex_cmp a b = Eq else lex_cmp a b = Gt)
      else if z =? slen a then lex_cmp a b = Lt
      else lex_cmp a b = lex_cmp (skipn (Z.to_nat (z + 1)) a) (skipn (Z.to_nat (z + 1)) b)
  end.

Lemma c_strcmp_spec a : forall b, chunk_spec a b.
Proof.
  induction a as [|x a IH]; intros [|y b]; unfold chunk_spec.
  - cbn. split; reflexivity.
  - cbn [c_strcmp]. destruct (Z.eqb_spec y 0) as [->|Hy].
    + cbn [c_strlen lex_cmp]. rewrite Z.eqb_refl. split; [reflexivity|].
      cbn zeta. rewrite slen_cons. pose proof (slen_nonneg b).
      destruct (Z.eqb_spec 0 (1 + slen b)); [lia|]. reflexivity.
    + reflexivity.
  - cbn [c_strcmp]. destruct (Z.eqb_spec x 0) as [->|Hx].
    + cbn [c_strlen lex_cmp]. rewrite Z.eqb_refl. split; [reflexivity|].
      cbn zeta. change (slen []) with 0. rewrite Z.eqb_refl. rewrite slen_cons. pose proof (slen_nonneg a).
      destruct (Z.eqb_spec 0 (1 + slen a)); [lia|]. reflexivity.
    + reflexivity.
  - cbn [c_strcmp lex_cmp].
    destruct (Z.eqb_spec x 0) as [->|Hx]; destruct (Z.eqb_spec y 0) as [->|Hy]; cbn [andb].
    + (* both chunks end here *)
      cbn [c_strlen]. rewrite Z.eqb_refl. split; [reflexivity|]. cbn zeta.
      rewrite !slen_cons. pose proof (slen_nonneg a). pose proof (slen_nonneg b).
      destruct (Z.eqb_spec 0 (1 + slen b)); [lia|]. destruct (Z.eqb_spec 0 (1 + slen a)); [lia|].
      rewrite Z.compare_refl. reflexivity.
    + destruct (0 ?= y) eqn:E; try reflexivity. apply Z.compare_eq in E. lia.
    + destruct (x ?= 0) eqn:E; try reflexivity. apply Z.compare_eq in E. lia.
    + destruct (x ?= y) eqn:E; try reflexivity.
      apply Z.compare_eq in E. subst y.
      specialize (IH b). unfold chunk_spec in IH.
      destruct (c_strcmp a b); try exact IH.
      destruct IH as [Hl IH]. cbn [c_strlen].
      destruct (Z.eqb_spec x 0); [lia|]. split; [lia|]. cbn zeta in *.
      rewrite !slen_cons. pose proof (c_strlen_nonneg a) as Hz.
      replace (1 + c_strlen a =? 1 + slen b) with (c_strlen a =? slen b) by (zb; lia).
      replace (1 + c_strlen a =? 1 + slen a) with (c_strlen a =? slen a) by (zb; lia).
      destruct (c_strlen a =? slen b); destruct (c_strlen a =? slen a); try exact IH.
      rewrite !skipn_succ_cons by exact Hz. exact IH.
Qed.

Lemma skipn_length_lt (a : bytes) z : 0 <= z -> z <> slen a -> z <= slen a ->
  (length (skipn (Z.to_nat (z + 1)) a) < length a)%nat.
Proof. intros H1 H2 H3. rewrite skipn_length. unfold slen in *. lia. Qed.

Lemma c_strlen_le a : c_strlen a <= slen a.
Proof.
  induction a as [|x a IH]; cbn [c_strlen]; [unfold slen; cbn; lia|].
  rewrite slen_cons. pose proof (slen_nonneg a). destruct (x =? 0); lia.
Qed.

Lemma l_strcmp_lex n : forall a b, (length a < n)%nat -> l_strcmp n a b = Some (lex_cmp a b).
Proof.
  induction n as [|n IH]; intros a b Hn; [lia|].
  cbn [l_strcmp]. pose proof (c_strcmp_spec a b) as H. unfold chunk_spec in H.
  destruct (c_strcmp a b); try (rewrite H; reflexivity).
  destruct H as [Hl H]. cbn zeta in H. rewrite <- Hl.
  destruct (Z.eqb_spec (c_strlen a) (slen b)).
  - destruct (c_strlen a =? slen a); rewrite H; reflexivity.
  - destruct (Z.eqb_spec (c_strlen a) (slen a)).
    + rewrite H. reflexivity.
    + rewrite H. apply IH.
      pose proof (skipn_length_lt a (c_strlen a) (c_strlen_nonneg a) n1 (c_strlen_le a)). lia.
Qed.

(* Lua's comparison = lexicographic byte order *)
Lemma lua_strcmp_eq_lex a b : l_strcmp (S (length a)) a b = Some (lex_cmp a b).
Proof. apply l_strcmp_lex. lia. Qed.

(* ---- lexicographic order facts ---- *)
Lemma lex_cmp_refl a : lex_cmp a a = Eq.
Proof. induction a as [|x a IH]; [reflexivity|]. cbn. rewrite Z.compare_refl. exact IH. Qed.

Lemma lex_cmp_eq a : forall b, lex_cmp a b = Eq -> a = b.
Proof.
  induction a as [|x a IH]; intros [|y b]; cbn; try discriminate; [reflexivity|].
  destruct (x ?= y) eqn:E; try discriminate. intros H. apply Z.compare_eq in E. f_equal; auto.
Qed.

Lemma lex_cmp_antisym a : forall b, lex_cmp b a = CompOpp (lex_cmp a b).
Proof.
  induction a as [|x a IH]; intros [|y b]; cbn; try reflexivity.
  rewrite (Z.compare_antisym x y). destruct (x ?= y); cbn; auto.
Qed.

Lemma lex_cmp_trans_lt a : forall b c, lex_cmp a b <> Gt -> lex_cmp b c <> Gt -> lex_cmp a c <> Gt.
Proof.
  induction a as [|x a IH]; intros [|y b] [|z c]; cbn; try congruence.
  destruct (x ?= y) eqn:E1; destruct (y ?= z) eqn:E2; try congruence; intros H1 H2.
  - apply Z.compare_eq in E1. apply Z.compare_eq in E2. subst. rewrite Z.compare_refl. eapply IH; eauto.
  - apply Z.compare_eq in E1. subst. rewrite E2. congruence.
  - apply Z.compare_eq in E2. subst. rewrite E1. congruence.
  - assert (x ?= z = Lt) as -> by (rewrite Z.compare_lt_iff in *; lia). congruence.
Qed.

(* prefixes: comparing min(len) bytes decides everything except the tie, which the lengths break *)
Lemma lex_cmp_firstn a : forall b,
  lex_cmp a b =
  match lex_cmp (firstn (Nat.min (length a) (length b)) a) (firstn (Nat.min (length a) (length b)) b) with
  | Eq => Nat.compare (length a) (length b)
  | c => c
  end.
Proof.
  induction a as [|x a IH]; intros [|y b]; cbn [length Nat.min firstn lex_cmp Nat.compare]; try reflexivity.
  destruct (x ?= y); try reflexivity. apply IH.
Qed.

Lemma nat_compare_Z (n m : nat) : Nat.compare n m = (Z.of_nat n ?= Z.of_nat m).
Proof. symmetry. apply Nat2Z.inj_compare. Qed.

Lemma memcmp_min a b : slen a <= slen b ->
  memcmp a b (slen a) = lex_cmp (firstn (Nat.min (length a) (length b)) a) (firstn (Nat.min (length a) (length b)) b).
Proof.
  intros H. unfold memcmp, slen in *. rewrite Nat2Z.id.
  replace (Nat.min (length a) (length b)) with (length a) by lia. reflexivity.
Qed.

Lemma memcmp_min' a b : slen b <= slen a ->
  memcmp a b (slen b) = lex_cmp (firstn (Nat.min (length a) (length b)) a) (firstn (Nat.min (length a) (length b)) b).
Proof.
  intros H. unfold memcmp, slen in *. rewrite Nat2Z.id.
  replace (Nat.min (length a) (length b)) with (length b) by lia. reflexivity.
Qed.

Lemma slen0_nil (a : bytes) : slen a = 0 -> a = [].
Proof. destruct a; [reflexivity|]. rewrite slen_cons. pose proof (slen_nonneg a). lia. Qed.

Lemma strlt_eq_lex a b : nl_strlt a b = match lex_cmp a b with Lt => true | _ => false end.
Proof.
  unfold nl_strlt. rewrite (lex_cmp_firstn a b). rewrite nat_compare_Z. fold (slen a) (slen b).
  pose proof (slen_nonneg a). pose proof (slen_nonneg b).
  destruct (Z.eqb_spec (slen a) 0) as [Ea|Ea]; cbn [orb].
  - apply slen0_nil in Ea. subst a. cbn [length Nat.min firstn lex_cmp]. reflexivity.
  - destruct (Z.eqb_spec (slen b) 0) as [Eb|Eb]; cbn [orb].
    + apply slen0_nil in Eb. subst b. rewrite Nat.min_0_r. cbn [firstn lex_cmp]. reflexivity.
    + destruct (Z.ltb_spec (slen a) (slen b)).
      * rewrite memcmp_min by lia.
        destruct (lex_cmp _ _); cbn; try reflexivity.
        assert (slen a ?= slen b = Lt) as -> by (apply Z.compare_lt_iff; lia). reflexivity.
      * rewrite memcmp_min' by lia.
        destruct (lex_cmp _ _); cbn; try reflexivity.
        destruct (slen a ?= slen b) eqn:E; rewrite ?Z.compare_lt_iff in E; try lia; reflexivity.
Qed.

Lemma strle_eq_lex a b : nl_strle a b = match lex_cmp a b with Gt => false | _ => true end.
Proof.
  unfold nl_strle. rewrite (lex_cmp_firstn a b). rewrite nat_compare_Z. fold (slen a) (slen b).
  pose proof (slen_nonneg a). pose proof (slen_nonneg b).
  destruct (Z.eqb_spec (slen a) 0) as [Ea|Ea]; cbn [orb].
  - apply slen0_nil in Ea. subst a. cbn [length Nat.min firstn lex_cmp]. reflexivity.
  - destruct (Z.eqb_spec (slen b) 0) as [Eb|Eb]; cbn [orb].
    + apply slen0_nil in Eb. subst b. rewrite Nat.min_0_r. cbn [firstn lex_cmp]. reflexivity.
    + destruct (Z.leb_spec (slen a) (slen b)).
      * rewrite memcmp_min by lia.
        destruct (lex_cmp _ _); cbn; try reflexivity.
        destruct (slen a ?= slen b) eqn:E; rewrite ?Z.compare_gt_iff in E; try lia; reflexivity.
      * rewrite memcmp_min' by lia.
        destruct (lex_cmp _ _); cbn; try reflexivity.
        assert (slen a ?= slen b = Gt) as -> by (apply Z.compare_gt_iff; lia). reflexivity.
Qed.

Lemma streq_eq_lex a b : nl_streq a b = match lex_cmp a b with Eq => true | _ => false end.
Proof.
  unfold nl_streq. rewrite (lex_cmp_firstn a b). rewrite nat_compare_Z. fold (slen a) (slen b).
  pose proof (slen_nonneg a). pose proof (slen_nonneg b).
  destruct (Z.eqb_spec (slen a) (slen b)) as [E|E]; cbn [andb].
  - rewrite memcmp_min by lia. rewrite E, Z.compare_refl.
    destruct (Z.eqb_spec (slen b) 0) as [E0|E0]; cbn [orb].
    + assert (Ha : slen a = 0) by lia. apply slen0_nil in Ha. apply slen0_nil in E0. subst a b. reflexivity.
    + destruct (lex_cmp _ _); reflexivity.
  - destruct (lex_cmp _ _); try reflexivity.
    destruct (slen a ?= slen b) eqn:E2; try reflexivity. apply Z.compare_eq in E2. lia.
Qed.

(* the port's operators = Lua's operators, for all byte strings (embedded NULs included) *)
Lemma strlt_eq_lua a b : lua_strlt a b = Some (nl_strlt a b).
Proof. unfold lua_strlt. rewrite lua_strcmp_eq_lex, strlt_eq_lex. destruct (lex_cmp a b); reflexivity. Qed.

Lemma strle_eq_lua a b : lua_strle a b = Some (nl_strle a b).
Proof. unfold lua_strle. rewrite lua_strcmp_eq_lex, strle_eq_lex. destruct (lex_cmp a b); reflexivity. Qed.

Lemma streq_iff a b : nl_streq a b = true <-> a = b.
Proof.
  rewrite streq_eq_lex. split.
  - destruct (lex_cmp a b) eqn:E; try discriminate. intros _. apply lex_cmp_eq. exact E.
  - intros ->. rewrite lex_cmp_refl. reflexivity.
Qed.

(* total preorder laws of <= , and < as its strict part *)
Lemma strle_refl a : nl_strle a a = true.
Proof. rewrite strle_eq_lex, lex_cmp_refl. reflexivity. Qed.

Lemma strle_trans a b c : nl_strle a b = true -> nl_strle b c = true -> nl_strle a c = true.
Proof.
  rewrite !strle_eq_lex. intros H1 H2.
  pose proof (lex_cmp_trans_lt a b c) as H.
  destruct (lex_cmp a b); destruct (lex_cmp b c); destruct (lex_cmp a c); try reflexivity; try discriminate;
    exfalso; apply H; congruence.
Qed.

Lemma strle_total a b : nl_strle a b = true \/ nl_strle b a = true.
Proof.
  rewrite !strle_eq_lex. rewrite (lex_cmp_antisym a b). destruct (lex_cmp a b); cbn; auto.
Qed.

Lemma strle_antisym a b : nl_strle a b = true -> nl_strle b a = true -> a = b.
Proof.
  rewrite !strle_eq_lex. rewrite (lex_cmp_antisym a b). destruct (lex_cmp a b) eqn:E; cbn; try discriminate.
  intros _ _. apply lex_cmp_eq. exact E.
Qed.

Lemma strlt_strict a b : nl_strlt a b = negb (nl_strle b a).
Proof.
  rewrite strlt_eq_lex, strle_eq_lex. rewrite (lex_cmp_antisym a b). destruct (lex_cmp a b); reflexivity.
Qed.

(* non-vacuity: an embedded NUL does not end the comparison *)
Example strlt_embedded_nul : nl_strlt [97; 0; 97] [97; 0; 98] = true /\ lua_strlt [97; 0; 97] [97; 0; 98] = Some true.
Proof. vm_compute. split; reflexivity. Qed.
