From C13 Require Import Model ModelDrv ModelPack ModelUtf8 ModelPat ModelPackFmt ModelFmt ModelPackDrv.
Require Extraction.
Require Import ExtrOcamlBasic.
Extraction "model.ml" slen nl_sub lua_sub nl_byte lua_byte nl_find_init lua_find_init
  nl_strlt nl_strle nl_streq lua_strlt lua_strle lex_cmp
  nl_rep nl_rep_sep lua_rep nl_reverse nl_upper nl_lower lua_upper lua_lower
  nl_pack_opts nl_unpack_opts nl_format nl_format_b lua_format nl_packsize lua_packsize nl_utf8len lua_utf8len nl_utf8offset lua_utf8offset offset_default nl_codes_step nl_utf8codepoint lua_utf8codepoint nl_utf8char lua_utf8char nl_utf8decode nl_pack_int nl_pack_uint nl_unpack_int lua_pack_int lua_pack_uint
  run_match nl_cfg lua_cfg nl_ms_match lua_do_search nl_gmatch_next nl_gsub lua_gsub has_specials nl_use_plain lua_use_plain plain_find onecapture
  nl_abs lua_abs nl_fmod lua_fmod nl_ult nl_max2 nl_min2 nl_max_l nl_min_l.
