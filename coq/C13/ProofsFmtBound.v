(* C13 (g, continued) - no snprintf call of string.format is ever truncated: at every call site of formatarg the length the
   full output would have is below the size bound handed to snprintf (MAX_ITEM for the numeric and character sites, the
   prepared max(#s + 1, MAX_ITEM) for a modified %s; both scraped from stringbuilder.nelua into Gen.v).  So the item with
   the bound taken into account (nl_item_b: C99's "writes at most n-1 bytes, returns the full length", which formatarg
   commits) is the item of the unbounded model the other theorems are about.  The floats' formatter is a parameter: its
   outputs are assumed shorter than MAX_ITEM (true of %.99f of any integer; a float item that is longer makes the port
   stop with 'formatted item too long'). *)
From C13 Require Import Model ModelFmt ProofsIdx ProofsFmt ProofsFmtDef.
Local Open Scope Z_scope.

Local Definition nof : bytes -> Z -> bytes := fun _ _ => [].

Lemma slen_app' (a b : bytes) : slen (a ++ b) = slen a + slen b.
Proof. unfold slen. rewrite app_length. lia. Qed.
Lemma slen_repeat x n : slen (repeat x (Z.to_nat n)) = Z.max 0 n.
Proof. unfold slen. rewrite repeat_length. lia. Qed.

Lemma dec2 w : forallb c_isdigit w = true -> (length w <= 2)%nat -> 0 <= dec_value 0 w <= 99.
Proof.
  intros Hd Hl. destruct w as [|a [|b [|c w']]]; cbn [length] in Hl; try lia; cbn [forallb] in Hd; cbn [dec_value];
    unfold c_isdigit, between in Hd; lia.
Qed.

Lemma digits_fuel_len f base upper : forall n acc, (length (digits_fuel f base upper n acc) <= f + length acc)%nat.
Proof.
  induction f as [|f IH]; intros n acc; cbn [digits_fuel]; [lia|]. destruct (n <=? 0); [lia|].
  specialize (IH (n / base) (digit_char upper (n mod base) :: acc)). cbn [length] in IH. lia.
Qed.

Lemma c99_pad_len sp lead digs z : slen (c99_pad sp lead digs z) = Z.max (c_width sp) (slen lead + slen digs).
Proof.
  unfold c99_pad, spaces, zeros. pose proof (slen_nonneg lead). pose proof (slen_nonneg digs).
  destruct (f_minus sp); [|destruct (f_zero sp && z)]; rewrite !slen_app', slen_repeat; lia.
Qed.

Lemma c99_int_len sp w : 0 <= c_width sp <= 99 -> (forall p, c_prec sp = Some p -> 0 <= p <= 99) -> slen (c99_int sp w) <= 104.
Proof.
  intros Hw Hp. unfold c99_int. rewrite c99_pad_len.
  set (c := c_conv sp). set (signed := (c =? 100) || (c =? 105)). set (v := if signed then wrap64 w else u64 w).
  set (digs := digits (if c =? 111 then 8 else if (c =? 120) || (c =? 88) then 16 else 10) (c =? 88) (Z.abs v)).
  assert (Hd : 0 <= slen digs <= 64).
  { split; [apply slen_nonneg|]. unfold digs, digits, slen. pose proof (digits_fuel_len 64 (if c =? 111 then 8 else if (c =? 120) || (c =? 88) then 16 else 10) (c =? 88) (Z.abs v) []). cbn [length] in H. lia. }
  set (prec := match c_prec sp with Some p => p | None => 1 end).
  assert (Hpr : 0 <= prec <= 99) by (subst prec; destruct (c_prec sp) as [p|] eqn:E; [apply Hp; reflexivity|lia]).
  set (digs1 := zeros (prec - slen digs) ++ digs).
  assert (H1 : slen digs1 <= 99) by (subst digs1; unfold zeros; rewrite slen_app', slen_repeat; lia).
  assert (H2 : forall l, slen (48 :: l) = 1 + slen l) by (intros l; unfold slen; cbn [length]; lia).
  assert (Hs : forall l : bytes, slen l = Z.of_nat (length l)) by reflexivity.
  match goal with |- Z.max _ (slen ?lead + slen ?d2) <= _ =>
    assert (Hl : slen lead <= 3); [|assert (Hd2 : slen d2 <= 100)] end.
  - rewrite slen_app'. destruct signed; [destruct (v <? 0); [|destruct (f_plus sp); [|destruct (f_space sp)]]|];
      (destruct (((c =? 120) || (c =? 88)) && f_hash sp && negb (Z.abs v =? 0)); cbn; lia).
  - destruct ((c =? 111) && f_hash sp && negb (hd0 digs1 =? 48)); [rewrite H2|]; lia.
  - lia.
Qed.

Lemma c99_chr_len sp v : 0 <= c_width sp <= 99 -> 1 <= slen (c99_chr sp v) <= 99.
Proof.
  intros Hw. unfold c99_chr, spaces. destruct (f_minus sp).
  - change ((v mod 256) :: repeat 32 (Z.to_nat (c_width sp - 1))) with ([v mod 256] ++ repeat 32 (Z.to_nat (c_width sp - 1))).
    rewrite slen_app', slen_repeat. change (slen [v mod 256]) with 1. lia.
  - rewrite slen_app', slen_repeat. change (slen [v mod 256]) with 1. lia.
Qed.

Lemma c_str_len s : slen (c_str s) <= slen s.
Proof. unfold slen. induction s as [|c r IH]; cbn [c_str length]; [lia|]. destruct (c =? 0); cbn [length]; lia. Qed.

Lemma c99_str_len sp s : 0 <= c_width sp <= 99 -> slen (c99_str sp s) <= Z.max 99 (slen s).
Proof.
  intros Hw. unfold c99_str, spaces. pose proof (c_str_len s) as Hc.
  set (s1 := match c_prec sp with Some p => firstn (Z.to_nat p) (c_str s) | None => c_str s end).
  assert (H1 : 0 <= slen s1 <= slen s).
  { split; [apply slen_nonneg|]. subst s1. destruct (c_prec sp); [|exact Hc]. unfold slen in *. rewrite firstn_length. lia. }
  destruct (f_minus sp); rewrite slen_app', slen_repeat; lia.
Qed.

Section Bound.
Variable cfloat : bytes -> Z -> bytes.
Hypothesis Hshort : forall form v, slen (cfloat form v) < NL_MAX_ITEM.

Ltac fmt_red := cbn [is_intconv is_fltconv Z.eqb Pos.eqb orb andb negb].

(* the length of what one call of the C function would write in full *)
Lemma snprintf_len form sp arg b : c99_parse form = Some sp -> 0 <= c_width sp <= 99 ->
  (forall p, c_prec sp = Some p -> 0 <= p <= 99) -> c99_snprintf cfloat form arg = Some b ->
  match arg with AInt _ => slen b < NL_MAX_ITEM | AStr s => slen b <= Z.max 99 (slen s) end.
Proof.
  intros Ep Hw Hp. unfold c99_snprintf. rewrite Ep. destruct arg as [v|s].
  - destruct (is_intconv (c_conv sp)).
    + destruct (negb (c_ll sp)); [discriminate|]. destruct (f_hash sp && _); [discriminate|].
      intros [= <-]. pose proof (c99_int_len sp v Hw Hp). unfold NL_MAX_ITEM. lia.
    + destruct (c_conv sp =? 99).
      * destruct (c_ll sp || f_hash sp || f_zero sp || _); [discriminate|]. intros [= <-].
        pose proof (c99_chr_len sp v Hw). unfold NL_MAX_ITEM. lia.
      * destruct (is_fltconv (c_conv sp)); [|discriminate]. destruct (c_ll sp); [discriminate|]. intros [= <-]. apply Hshort.
  - destruct ((c_conv sp =? 115) && negb (c_ll sp) && negb (f_hash sp) && negb (f_zero sp)); [|discriminate].
    intros [= <-]. apply c99_str_len. exact Hw.
Qed.

(* the parse of a checked specification, with or without the ll modifier, and its width / precision *)
Lemma checked_parse rest form conv rest' (flags : Z -> bool) prec ll :
  nl_scanformat rest = Val (form, conv, rest') -> c_isalpha conv = true -> conv <> 108 ->
  (forall x, flags x = true -> isflagF x = true) ->
  (let '(_, _, rem) := scan flags prec true (tl form) in hd0 rem =? conv) = true ->
  (ll = [] \/ ll = LL) ->
  exists sp, c99_parse (if match ll with [] => true | _ => false end then form else addlenmod form LL) = Some sp /\
             0 <= c_width sp <= 99 /\ (forall p, c_prec sp = Some p -> 0 <= p <= 99).
Proof.
  intros S Ha Hl Sub K Hll.
  destruct (checked_form _ _ _ _ _ _ S Ha K) as (fl & w & dotp & Ef & Hfl & Hw & Hw0 & Hd & Hlw).
  assert (Hd' : dotp = [] \/ exists p, dotp = 46 :: p /\ forallb c_isdigit p = true /\ (length p <= 2)%nat)
    by (destruct Hd as [Hd|[_ Hd]]; [left|right]; exact Hd).
  destruct (c99_parse_ok fl w dotp ll conv (forallb_impl _ _ _ Sub Hfl) Hw Hw0 Hd' Hll Ha Hl)
    as (sp & Ep & _ & _ & _ & _ & Epn & Ewd & Epr).
  exists sp. split.
  - destruct Hll as [-> | ->]; cbn [app] in Ep.
    + rewrite Ef. exact Ep.
    + rewrite Ef. replace (37 :: fl ++ w ++ dotp ++ [conv]) with (37 :: (fl ++ w ++ dotp) ++ [conv]) by (rewrite <- !app_assoc; reflexivity).
      rewrite addlenmod_shape. rewrite <- !app_assoc. exact Ep.
  - split; [rewrite Ewd; apply dec2; assumption|].
    intros p Hp. destruct Hd' as [Hn|(p0 & E0 & Hd0 & Hl0)].
    + rewrite (Epn Hn) in Hp. discriminate.
    + rewrite (Epr p0 E0) in Hp. inversion Hp. subst p. apply dec2; assumption.
Qed.

Lemma item_b_eq rest a : nl_item_b cfloat rest a = nl_item cfloat rest a.
Proof.
  unfold nl_item_b, nl_item_b_pol. fold nl_site_bound. destruct (nl_scanformat rest) as [[[form conv] rest']| |] eqn:S;
    [|unfold nl_item; rewrite S; reflexivity|unfold nl_item; rewrite S; reflexivity].
  destruct (nl_item cfloat rest a) as [[b r']| |] eqn:E; try reflexivity.
  assert (Hfit : match nl_site_bound conv form a with None => True | Some n => slen b < n end).
  2:{ destruct (nl_site_bound conv form a) as [n|]; [|reflexivity]. destruct (Z.ltb_spec (slen b) n); [reflexivity|lia]. }
  unfold nl_item in E. rewrite S in E. destruct (nl_checkformat form conv) eqn:K; cbn [negb] in E; [|discriminate E].
  destruct flags_sub_F as (SC & SI & SU & SX).
  assert (SF : forall c, isflagF c = true -> isflagF c = true) by (intros c H; exact H).
  unfold nl_checkformat in K.
  (* a numeric / character site: bound MAX_ITEM *)
  assert (Hnum : forall (flags : Z -> bool) prec ll c F v, conv = c -> c <> 115 -> c_isalpha c = true -> c <> 108 ->
            (forall x, flags x = true -> isflagF x = true) ->
            (let '(_, _, rem) := scan flags prec true (tl form) in hd0 rem =? c) = true ->
            (ll = [] \/ ll = LL) -> F = (if match ll with [] => true | _ => false end then form else addlenmod form LL) ->
            match c99_snprintf cfloat F (AInt v) with Some b0 => Val (b0, rest') | None => @Unsafe (bytes * bytes) end = Val (b, r') ->
            match nl_site_bound c form a with None => True | Some n => slen b < n end).
  { intros flags prec ll c F v -> N115 Ha Hl Sub K' Hll -> Ec.
    destruct (c99_snprintf cfloat _ (AInt v)) as [b0|] eqn:Eo; [|discriminate Ec]. inversion Ec. subst b0 r'.
    destruct (checked_parse _ _ _ _ flags prec ll S Ha Hl Sub K' Hll) as (sp & Ep & Hw & Hp).
    pose proof (snprintf_len _ sp (AInt v) b Ep Hw Hp Eo) as L. cbn iota in L.
    unfold nl_site_bound, nl_site_bound_pol. destruct (Z.eqb_spec c 115); [contradiction|]. exact L. }
  (* the %s site: the buffer prepared for it *)
  assert (Hstr : forall s, conv = 115 ->
            (if Nat.eqb (length form) 2 then Val (s, rest') else if has_zero s then Trap
             else match c99_snprintf cfloat form (AStr s) with Some b0 => Val (b0, rest') | None => @Unsafe (bytes * bytes) end) = Val (b, r') ->
            (s = match a with AStr s0 => s0 | AInt v => decimal_of v end) ->
            match nl_site_bound 115 form a with None => True | Some n => slen b < n end).
  { intros s -> Ec Es. unfold nl_site_bound, nl_site_bound_pol. cbn [Z.eqb Pos.eqb]. destruct (Nat.eqb (length form) 2); [exact I|].
    destruct (has_zero s); [discriminate Ec|].
    destruct (c99_snprintf cfloat form (AStr s)) as [b0|] eqn:Eo; [|discriminate Ec]. inversion Ec. subst b0 r'.
    revert K. fmt_red. intros K.
    destruct (checked_parse _ _ _ _ isflagC true [] S eq_refl ltac:(discriminate) SC K (or_introl eq_refl)) as (sp & Ep & Hw & Hp).
    pose proof (snprintf_len _ sp (AStr s) b Ep Hw Hp Eo) as L. cbn iota in L. rewrite <- Es.
    change FMT_S_SITE_BOUND_IS_BUF_SIZE with true. cbv iota. unfold NL_MAX_ITEM. lia. }
  destruct a as [v|s].
  - destruct (Z.eqb_spec conv 99) as [E99|N1].
    { subst conv. revert K E. fmt_red. intros K E. apply (Hnum isflagC false [] 99 form (wrap32 v) eq_refl ltac:(discriminate) eq_refl ltac:(discriminate) SC K (or_introl eq_refl) eq_refl E). }
    destruct (Z.eqb_spec conv 100) as [E1|N2].
    { subst conv. revert K E. fmt_red. intros K E. apply (Hnum isflagI true LL 100 _ (u64 v) eq_refl ltac:(discriminate) eq_refl ltac:(discriminate) SI K (or_intror eq_refl) eq_refl E). }
    destruct (Z.eqb_spec conv 105) as [E1|N3].
    { subst conv. revert K E. fmt_red. intros K E. apply (Hnum isflagI true LL 105 _ (u64 v) eq_refl ltac:(discriminate) eq_refl ltac:(discriminate) SI K (or_intror eq_refl) eq_refl E). }
    destruct (Z.eqb_spec conv 111) as [E1|N5].
    { subst conv. revert K E. fmt_red. intros K E. apply (Hnum isflagX true LL 111 _ (u64 v) eq_refl ltac:(discriminate) eq_refl ltac:(discriminate) SX K (or_intror eq_refl) eq_refl E). }
    destruct (Z.eqb_spec conv 117) as [E1|N4].
    { subst conv. revert K E. fmt_red. intros K E. apply (Hnum isflagU true LL 117 _ (u64 v) eq_refl ltac:(discriminate) eq_refl ltac:(discriminate) SU K (or_intror eq_refl) eq_refl E). }
    destruct (Z.eqb_spec conv 120) as [E1|N6].
    { subst conv. revert K E. fmt_red. intros K E. apply (Hnum isflagX true LL 120 _ (u64 v) eq_refl ltac:(discriminate) eq_refl ltac:(discriminate) SX K (or_intror eq_refl) eq_refl E). }
    destruct (Z.eqb_spec conv 88) as [E1|N7].
    { subst conv. revert K E. fmt_red. intros K E. apply (Hnum isflagX true LL 88 _ (u64 v) eq_refl ltac:(discriminate) eq_refl ltac:(discriminate) SX K (or_intror eq_refl) eq_refl E). }
    assert (Hflt : forall c, In c [97; 65; 102; 101; 69; 103; 71] -> conv = c ->
              match c99_snprintf cfloat form (AInt v) with Some b0 => Val (b0, rest') | None => @Unsafe (bytes * bytes) end = Val (b, r') ->
              match nl_site_bound conv form (AInt v) with None => True | Some n => slen b < n end).
    { intros c Hin Ecv Ec. subst conv.
      assert (Ea : c_isalpha c = true) by (cbn in Hin; repeat (destruct Hin as [<-|Hin]; [reflexivity|]); contradiction).
      assert (Ef : is_fltconv c = true) by (cbn in Hin; repeat (destruct Hin as [<-|Hin]; [reflexivity|]); contradiction).
      assert (E112 : (c =? 112) = false) by (cbn in Hin; repeat (destruct Hin as [<-|Hin]; [reflexivity|]); contradiction).
      assert (E5 : c <> 108 /\ c <> 115) by (cbn in Hin; repeat (destruct Hin as [<-|Hin]; [split; discriminate|]); contradiction).
      cbn [orb] in K. rewrite Ef, E112 in K. cbn [negb orb] in K.
      apply (Hnum isflagF true [] c form v eq_refl (proj2 E5) Ea (proj1 E5) SF K (or_introl eq_refl) eq_refl Ec). }
    destruct (Z.eqb_spec conv 97) as [E1|N8]. { revert E. rewrite E1. fmt_red. rewrite <- E1. apply (Hflt 97); [cbn; tauto|exact E1]. }
    destruct (Z.eqb_spec conv 65) as [E1|N9]. { revert E. rewrite E1. fmt_red. rewrite <- E1. apply (Hflt 65); [cbn; tauto|exact E1]. }
    destruct (Z.eqb_spec conv 102) as [E1|N10]. { revert E. rewrite E1. fmt_red. rewrite <- E1. apply (Hflt 102); [cbn; tauto|exact E1]. }
    destruct (Z.eqb_spec conv 101) as [E1|N11]. { revert E. rewrite E1. fmt_red. rewrite <- E1. apply (Hflt 101); [cbn; tauto|exact E1]. }
    destruct (Z.eqb_spec conv 69) as [E1|N12]. { revert E. rewrite E1. fmt_red. rewrite <- E1. apply (Hflt 69); [cbn; tauto|exact E1]. }
    destruct (Z.eqb_spec conv 103) as [E1|N13]. { revert E. rewrite E1. fmt_red. rewrite <- E1. apply (Hflt 103); [cbn; tauto|exact E1]. }
    destruct (Z.eqb_spec conv 71) as [E1|N14]. { revert E. rewrite E1. fmt_red. rewrite <- E1. apply (Hflt 71); [cbn; tauto|exact E1]. }
    revert E. unfold is_fltconv.
    repeat match goal with |- context [conv =? ?k] => replace (conv =? k) with false by (symmetry; apply Z.eqb_neq; assumption) end.
    cbn [orb].
    destruct (Z.eqb_spec conv 115) as [E1|N15]; [|discriminate].
    intros E. rewrite E1. apply (Hstr (decimal_of v) E1 E eq_refl).
  - destruct (Z.eqb_spec conv 115) as [E1|N15]; [|discriminate E].
    rewrite E1. apply (Hstr s E1 E eq_refl).
Qed.

Theorem format_loop_b_eq : forall k fmt args, nl_format_loop_b cfloat k fmt args = nl_format_loop cfloat k fmt args.
Proof.
  induction k as [|k IH]; intros fmt args; [reflexivity|]. cbn [nl_format_loop_b nl_format_loop].
  destruct fmt as [|c r]; [reflexivity|].
  destruct (negb (c =? 37)); [rewrite IH; reflexivity|]. destruct (hd0 r =? 37); [rewrite IH; reflexivity|].
  destruct (nl_scanformat r) as [x0| |]; try reflexivity. destruct args as [|a0 args']; [reflexivity|].
  rewrite item_b_eq. destruct (nl_item cfloat r a0) as [[o r']| |]; try reflexivity. rewrite IH. reflexivity.
Qed.

(* no snprintf call of string.format is ever truncated: the format with every size bound taken into account is the
   format of the unbounded model *)
Theorem format_never_truncated fmt args : nl_format_b cfloat fmt args = nl_format cfloat fmt args.
Proof. apply format_loop_b_eq. Qed.

(* the %s site NEEDS the size of the buffer prepared for it: were it given MAX_ITEM (the other scraped policy; the seeded
   change C13-D), string.format('%5s', <600 bytes>) would commit bytes snprintf never wrote - outcome Unsafe - where the
   unbounded item is the 600 bytes *)
Lemma format_s_bound_needed :
  nl_item_b_pol cfloat false true [53; 115] (AStr (repeat 120 600)) = Unsafe /\
  nl_item_b_pol cfloat true true [53; 115] (AStr (repeat 120 600)) = Val (repeat 120 600, []).
Proof. split; vm_compute; reflexivity. Qed.

(* likewise the numeric sites need a bound at all: with none every item is cut *)
Lemma format_num_bound_needed : nl_item_b_pol cfloat true false [100] (AInt 7) = Trap.
Proof. vm_compute. reflexivity. Qed.
End Bound.
