(* C13 (f, continued) - string.pack and string.unpack as drivers over a whole format: lib/detail/strpack.nelua
   strpack.pack / packarg / packint and strpack.unpack / unpackint (MODEL).  The format is taken after parsing, as
   the list of its options (the parser itself is ModelPackFmt.v); the integer codec is ModelPack.v; the padding
   is [nl_alignforward].  Options: sized integers (i I b B h H l L j J T with their sizes), strings s[n] z c[n],
   x, X[align], < > = (as the resulting endianness), ![n]. *)
From C13 Require Export Model ModelPack ModelPackFmt.
Local Open Scope Z_scope.

Inductive popt :=
| OInt (size : Z) (sg : bool)
| OStrS (n : Z)
| OStrZ
| OStrC (n : Z)
| OPad
| OAlign (a : Z)
| OLittle (b : bool)
| OMaxAlign (n : Z).
Inductive pval := VInt (v : Z) | VStr (s : bytes).

Definition zeros0 (n : Z) : bytes := repeat 0 (Z.to_nat n).
Definition has_nul (s : bytes) : bool := existsb (Z.eqb 0) s.

(* pads to the alignment of an item of size [size], then appends [item] *)
Definition append_aligned (buf : bytes) (size ma : Z) (item : bytes) : res bytes :=
  match nl_alignforward (slen buf) size ma with
  | Val l => Val (buf ++ zeros0 (l - slen buf) ++ item)
  | Trap => Trap | Unsafe => Unsafe
  end.

(* strpack.pack: the bytes written so far, the values not yet consumed *)
Fixpoint nl_pack_opts (opts : list popt) (vals : list pval) (little : bool) (ma : Z) (buf : bytes) : res (bytes * list pval) :=
  match opts with
  | [] => Val (buf, vals)
  | o :: r =>
      match o with
      | OLittle b => nl_pack_opts r vals b ma buf
      | OMaxAlign n => nl_pack_opts r vals little n buf
      | OPad => nl_pack_opts r vals little ma (buf ++ [0])
      | OAlign a =>
          match append_aligned buf a ma [] with
          | Val b => nl_pack_opts r vals little ma b
          | Trap => Trap | Unsafe => Unsafe
          end
      | OInt size sg =>
          match vals with
          | VInt v :: vals' =>
              match nl_packint v size little sg with                 (* the overflow checks come before the padding *)
              | Val bs => match append_aligned buf size ma bs with
                          | Val b => nl_pack_opts r vals' little ma b
                          | Trap => Trap | Unsafe => Unsafe
                          end
              | Trap => Trap | Unsafe => Unsafe
              end
          | _ => Trap                                                  (* missing argument / not an integer *)
          end
      | OStrS n =>
          match vals with
          | VStr s :: vals' =>
              if (n <? 8) && negb (slen s <? 2 ^ (8 * n)) then Trap    (* 'length does not fit in given size' *)
              else match nl_packint (slen s) n little false with
                   | Val bs => match append_aligned buf n ma bs with
                               | Val b => nl_pack_opts r vals' little ma (b ++ s)
                               | Trap => Trap | Unsafe => Unsafe
                               end
                   | Trap => Trap | Unsafe => Unsafe
                   end
          | _ => Trap
          end
      | OStrZ =>
          match vals with
          | VStr s :: vals' => if has_nul s then Trap else nl_pack_opts r vals' little ma (buf ++ s ++ [0])
          | _ => Trap
          end
      | OStrC n =>
          match vals with
          | VStr s :: vals' => if n <? slen s then Trap else nl_pack_opts r vals' little ma (buf ++ s ++ zeros0 (n - slen s))
          | _ => Trap
          end
      end
  end.

(* the first zero byte at or after the start of [s]: its offset *)
Fixpoint find_nul (s : bytes) : option Z :=
  match s with
  | c :: r => if c =? 0 then Some 0 else match find_nul r with Some k => Some (k + 1) | None => None end
  | [] => None
  end.

(* strpack.unpack (the code its preprocessor generates for the option list): values read, the final position + 1 *)
Fixpoint nl_unpack_opts (opts : list popt) (data : bytes) (pos : Z) (little : bool) (ma : Z) : res (list pval * Z) :=
  match opts with
  | [] => Val ([], pos + 1)
  | o :: r =>
      let cons (v : pval) (x : res (list pval * Z)) :=
        match x with Val (vs, e) => Val (v :: vs, e) | Trap => Trap | Unsafe => Unsafe end in
      let readint (size : Z) (sg : bool) (k : Z -> Z -> res (list pval * Z)) :=
        match nl_alignforward pos size ma with
        | Val l =>
            if slen data <? l + size then Trap                         (* 'data string too short' *)
            else match nl_unpack_int (slice data l size) size little sg with
                 | Some v => k v (l + size)
                 | None => Trap                                        (* 'integer does not fit into int64' *)
                 end
        | Trap => Trap | Unsafe => Unsafe
        end in
      match o with
      | OLittle b => nl_unpack_opts r data pos b ma
      | OMaxAlign n => nl_unpack_opts r data pos little n
      | OPad => if slen data <? pos + 1 then Trap else nl_unpack_opts r data (pos + 1) little ma
      | OAlign a =>
          match nl_alignforward pos a ma with
          | Val l => nl_unpack_opts r data l little ma
          | Trap => Trap | Unsafe => Unsafe
          end
      | OInt size sg => readint size sg (fun v p' => cons (VInt v) (nl_unpack_opts r data p' little ma))
      | OStrS n =>
          readint n false (fun v p' =>
            let len := u64 v in
            (* pos + len <= s.size in usize; a wrapped sum passes the test and then the copy of len bytes cannot
               be allocated: both ways the program stops *)
            if slen data <? p' + len then Trap
            else cons (VStr (slice data p' len)) (nl_unpack_opts r data (p' + len) little ma))
      | OStrZ =>
          match find_nul (skipn (Z.to_nat pos) data) with
          | Some len => cons (VStr (slice data pos len)) (nl_unpack_opts r data (pos + len + 1) little ma)
          | None => Trap                                               (* 'string zero termination not found' *)
          end
      | OStrC n =>
          if slen data <? pos + n then Trap
          else cons (VStr (slice data pos n)) (nl_unpack_opts r data (pos + n) little ma)
      end
  end.

(* what comes back for a value: a c[n] string comes back padded to n bytes *)
Definition expect (o : popt) (v : pval) : pval :=
  match o, v with
  | OStrC n, VStr s => VStr (s ++ zeros0 (n - slen s))
  | _, _ => v
  end.
Fixpoint expected (opts : list popt) (vals : list pval) : list pval :=
  match opts with
  | [] => []
  | o :: r =>
      match o with
      | OInt _ _ | OStrS _ | OStrZ | OStrC _ =>
          match vals with v :: vals' => expect o v :: expected r vals' | [] => [] end
      | _ => expected r vals
      end
  end.

Definition opt_ok (o : popt) : bool :=
  match o with
  | OInt size _ => (1 <=? size) && (size <=? 16)
  | OStrS n => (1 <=? n) && (n <=? 16)
  | OStrC n => 0 <=? n
  | OAlign a => (0 <=? a) && (a <=? 16)
  | OMaxAlign n => (1 <=? n) && (n <=? 16)
  | _ => true
  end.
Definition val_ok (v : pval) : bool :=
  match v with VInt a => in_i64b a | VStr s => is_bytes s end.
