(* C13 (f) - proofs: packint/unpackint round trip for every size 1..16, both endiannesses; the port's
   pack against Lua's *)
From C13 Require Import Model ModelPack ProofsIdx.
Local Open Scope Z_scope.

Lemma land_255 n : Z.land n 255 = n mod 256.
Proof. change 255 with (Z.ones 8). rewrite Z.land_ones by lia. reflexivity. Qed.

Lemma shiftr_8 n : Z.shiftr n 8 = n / 256.
Proof. rewrite Z.shiftr_div_pow2 by lia. reflexivity. Qed.

Lemma testbit_small b i : 0 <= b < 2 ^ i -> 0 <= i -> forall j, i <= j -> Z.testbit b j = false.
Proof.
  intros Hb Hi j Hj. apply Z.testbit_false; [lia|].
  rewrite Z.div_small; [reflexivity|]. split; [lia|].
  apply Z.lt_le_trans with (2 ^ i); [lia|]. apply Z.pow_le_mono_r; lia.
Qed.

(* or-ing disjoint bit ranges is adding *)
Lemma lor_disjoint n b k : 0 <= n -> 0 <= k -> 0 <= b < 2 ^ k -> Z.lor (n * 2 ^ k) b = n * 2 ^ k + b.
Proof.
  intros Hn Hk Hb.
  assert (Hland : Z.land (n * 2 ^ k) b = 0).
  { apply Z.bits_inj'. intros i Hi. rewrite Z.land_spec, Z.bits_0.
    destruct (Z.lt_ge_cases i k).
    - rewrite Z.mul_pow2_bits_low by lia. reflexivity.
    - rewrite (testbit_small b k) by lia. apply andb_false_r. }
  rewrite <- Z.lxor_lor by exact Hland. symmetry. apply Z.add_nocarry_lxor. exact Hland.
Qed.

Lemma lor_shl8 n b : 0 <= n -> 0 <= b < 256 -> Z.lor (Z.shiftl n 8) b = n * 256 + b.
Proof.
  intros Hn Hb. rewrite Z.shiftl_mul_pow2 by lia. apply (lor_disjoint n b 8); try lia.
Qed.

(* ---- pack_bytes: the k low bytes of n ---- *)
Lemma pack_bytes_length k : forall n, length (pack_bytes k n) = k.
Proof. induction k; intros; cbn [pack_bytes length]; auto. Qed.

Lemma pack_bytes_bytes k : forall n, Forall (fun b => 0 <= b < 256) (pack_bytes k n).
Proof.
  induction k as [|k IH]; intros n; cbn [pack_bytes]; constructor; [|apply IH].
  rewrite land_255. lia.
Qed.

Lemma pack_bytes_value k : forall n, 0 <= n -> le_value (pack_bytes k n) = n mod 256 ^ Z.of_nat k.
Proof.
  induction k as [|k IH]; intros n Hn.
  - cbn. rewrite Z.mod_1_r. reflexivity.
  - cbn [pack_bytes le_value]. rewrite land_255, shiftr_8, IH by (apply Z.div_pos; lia).
    rewrite Nat2Z.inj_succ, Z.pow_succ_r by lia.
    rewrite Z.rem_mul_r by (try apply Z.pow_nonzero; lia). reflexivity.
Qed.

(* ---- reading back ---- *)
Definition acc_step (n b : Z) : Z := u64 (Z.lor (u64 (Z.shiftl n 8)) b).

Lemma acc_step_eq n b : 0 <= n < 72057594037927936 -> 0 <= b < 256 -> acc_step n b = n * 256 + b.
Proof.
  intros Hn Hb. unfold acc_step. rewrite Z.shiftl_mul_pow2 by lia.
  rewrite (u64_small (n * 2 ^ 8)) by (change (2 ^ 8) with 256; unfold two64; lia).
  rewrite (lor_disjoint n b 8) by lia. change (2 ^ 8) with 256.
  apply u64_small. unfold two64. lia.
Qed.

Lemma acc_read_gen bs : Forall (fun b => 0 <= b < 256) bs -> (length bs <= 8)%nat ->
  fold_left acc_step (rev bs) 0 = le_value bs /\ 0 <= le_value bs < 256 ^ Z.of_nat (length bs).
Proof.
  induction bs as [|b r IH]; intros Hb Hl.
  - cbn. split; [reflexivity|lia].
  - inversion Hb as [|? ? Hb1 Hb2]; subst. cbn [length] in Hl.
    destruct (IH Hb2 ltac:(lia)) as [E R].
    cbn [rev]. rewrite fold_left_app. cbn [fold_left]. rewrite E. cbn [le_value length].
    rewrite Nat2Z.inj_succ, Z.pow_succ_r by lia.
    assert (Hp : 256 ^ Z.of_nat (length r) <= 256 ^ 7) by (apply Z.pow_le_mono_r; lia).
    change (256 ^ 7) with 72057594037927936 in Hp.
    rewrite acc_step_eq by lia. split; lia.
Qed.

Lemma acc_read bs : Forall (fun b => 0 <= b < 256) bs -> (length bs <= 8)%nat ->
  fold_left acc_step (rev bs) 0 = le_value bs.
Proof. intros. apply acc_read_gen; assumption. Qed.

Lemma firstn_pack_bytes j k n : (j <= k)%nat -> firstn j (pack_bytes k n) = pack_bytes j n.
Proof.
  revert k n. induction j as [|j IH]; intros k n H; [reflexivity|].
  destruct k as [|k]; [lia|]. cbn [pack_bytes firstn]. f_equal. apply IH. lia.
Qed.

(* the full-strength round trip for the sizes that fit in a Lua integer: every size 1..8, both
   endiannesses, signed and unsigned, every value that Lua accepts for that size *)
Lemma sign_extend_small k n : 0 < k < 64 -> 0 <= n < 2 ^ k ->
  wrap64 (u64 (Z.lxor n (Z.shiftl 1 (k - 1)) - Z.shiftl 1 (k - 1))) = if n <? 2 ^ (k - 1) then n else n - 2 ^ k.
Proof.
  intros Hk Hn. rewrite Z.shiftl_1_l.
  assert (Hpk : 2 ^ k = 2 * 2 ^ (k - 1)).
  { replace k with (1 + (k - 1)) at 1 by lia. rewrite Z.pow_add_r by lia. reflexivity. }
  assert (Hp0 : 0 < 2 ^ (k - 1)) by (apply Z.pow_pos_nonneg; lia).
  assert (Hp63 : 2 ^ k <= 2 ^ 63) by (apply Z.pow_le_mono_r; lia).
  change (2 ^ 63) with 9223372036854775808 in Hp63.
  set (P := 2 ^ (k - 1)) in *.
  destruct (Z.ltb_spec n P) as [Hlt|Hge].
  - (* bit k-1 clear: xor adds it *)
    assert (Hx : Z.lxor n P = n + P).
    { rewrite Z.lxor_comm. replace P with (1 * 2 ^ (k - 1)) at 1 by (subst P; lia).
      rewrite Z.lxor_lor.
      - subst P. rewrite (lor_disjoint 1 n (k - 1)) by lia. lia.
      - apply Z.bits_inj'. intros i Hi. rewrite Z.land_spec, Z.bits_0.
        destruct (Z.lt_ge_cases i (k - 1)).
        + rewrite Z.mul_pow2_bits_low by lia. reflexivity.
        + rewrite (testbit_small n (k - 1)) by (subst P; lia). apply andb_false_r. }
    rewrite Hx. replace (n + P - P) with n by lia.
    rewrite u64_small by (unfold two64; lia). apply wrap64_id. unfold in_i64, minint, maxint, two63. lia.
  - (* bit k-1 set: xor removes it *)
    set (lo := n - P). assert (Hlo : 0 <= lo < P) by (subst lo; lia).
    assert (Hn2 : n = Z.lxor P lo).
    { replace P with (1 * 2 ^ (k - 1)) at 1 by (subst P; lia). rewrite Z.lxor_lor.
      - subst P. rewrite (lor_disjoint 1 lo (k - 1)) by lia. subst lo. lia.
      - apply Z.bits_inj'. intros i Hi. rewrite Z.land_spec, Z.bits_0.
        destruct (Z.lt_ge_cases i (k - 1)).
        + rewrite Z.mul_pow2_bits_low by lia. reflexivity.
        + rewrite (testbit_small lo (k - 1)) by (subst P; lia). apply andb_false_r. }
    rewrite Hn2 at 1. rewrite (Z.lxor_comm P lo), Z.lxor_assoc, Z.lxor_nilpotent, Z.lxor_0_r.
    unfold u64, wrap64, two64, two63. subst lo. lia.
Qed.

(* ---- structure of the packed bytes ---- *)
Lemma pack_bytes_zero k : pack_bytes k 0 = repeat 0 k.
Proof.
  induction k as [|k IH]; [reflexivity|]. cbn [pack_bytes repeat].
  change (Z.land 0 255) with 0. change (Z.shiftr 0 8) with 0. rewrite IH. reflexivity.
Qed.

Lemma skipn_pack_bytes j : forall k n, 0 <= n ->
  skipn j (pack_bytes k n) = pack_bytes (k - j) (n / 256 ^ Z.of_nat j).
Proof.
  induction j as [|j IH]; intros k n Hn.
  - cbn [skipn]. rewrite Nat.sub_0_r. cbn. rewrite Z.div_1_r. reflexivity.
  - destruct k as [|k]; [reflexivity|]. cbn [pack_bytes skipn Nat.sub].
    rewrite IH by (rewrite shiftr_8; apply Z.div_pos; lia). rewrite shiftr_8.
    rewrite Nat2Z.inj_succ, Z.pow_succ_r by lia. rewrite Z.div_div by (try apply Z.pow_pos_nonneg; lia).
    reflexivity.
Qed.

Lemma u64_range x : 0 <= u64 x < two64.
Proof. unfold u64, two64. lia. Qed.

Lemma wrap64_u64 a : in_i64 a -> wrap64 (u64 a) = a.
Proof. unfold in_i64, wrap64, u64, minint, maxint, two63, two64. lia. Qed.

Lemma unpack_le_rev (data : bytes) (little : bool) : (if little then (if little then data else rev data) else rev (if little then data else rev data)) = data.
Proof. destruct little; [reflexivity|apply rev_involutive]. Qed.

Lemma unpack_core_endianness n size neg little signed :
  unpack_core (pack_core n size neg little) size little signed =
  unpack_core (pack_core n size neg true) size true signed.
Proof.
  unfold unpack_core, pack_core. destruct little; [reflexivity|]. cbn zeta. rewrite rev_involutive. reflexivity.
Qed.

(* what unpack sees of a packed integer *)
Lemma unpack_of_pack n size neg little signed : 1 <= size <= 16 -> 0 <= n < two64 ->
  unpack_core (pack_core n size neg little) size little signed =
  let le := sign_extend_tail (pack_bytes (Z.to_nat size) n) size neg in
  if size <? 8 then
    (if signed then Some (wrap64 (u64 (Z.lxor (n mod 256 ^ size) (Z.shiftl 1 (size * 8 - 1)) - Z.shiftl 1 (size * 8 - 1))))
     else Some (wrap64 (n mod 256 ^ size)))
  else if 8 <? size then
    (if forallb (fun b => b =? (if negb signed || (0 <=? wrap64 n) then 0 else 255)) (skipn 8 le) then Some (wrap64 n) else None)
  else Some (wrap64 n).
Proof.
  intros Hs Hn. rewrite unpack_core_endianness. unfold unpack_core, pack_core. cbn zeta iota.
  set (le := sign_extend_tail (pack_bytes (Z.to_nat size) n) size neg).
  assert (Hfirst : firstn (Z.to_nat (if size <=? 8 then size else 8)) le = pack_bytes (Z.to_nat (if size <=? 8 then size else 8)) n).
  { subst le. unfold sign_extend_tail.
    destruct (Z.leb_spec size 8).
    - destruct (Z.ltb_spec 8 size); [lia|]. cbn [andb]. rewrite firstn_pack_bytes by lia. reflexivity.
    - destruct ((8 <? size) && neg).
      + rewrite firstn_app. rewrite firstn_firstn. rewrite firstn_length, pack_bytes_length.
        replace (Nat.min (Z.to_nat 8) 8) with 8%nat by lia.
        replace (Z.to_nat 8 - Nat.min 8 (Z.to_nat size))%nat with 0%nat by lia.
        rewrite firstn_O, app_nil_r. apply firstn_pack_bytes. lia.
      + apply firstn_pack_bytes. lia. }
  rewrite Hfirst.
  change (fun n0 b => u64 (Z.lor (u64 (Z.shiftl n0 8)) b)) with acc_step.
  rewrite acc_read by (try apply pack_bytes_bytes; rewrite pack_bytes_length; destruct (Z.leb_spec size 8); lia).
  rewrite pack_bytes_value by lia.
  destruct (Z.leb_spec size 8) as [H8|H8].
  - rewrite Z2Nat.id by lia.
    destruct (Z.ltb_spec size 8) as [Hlt|Hge]; [reflexivity|].
    assert (size = 8) by lia. subst size. destruct (Z.ltb_spec 8 8); [lia|].
    change (256 ^ 8) with two64. rewrite Z.mod_small by exact Hn. reflexivity.
  - destruct (Z.ltb_spec size 8); [lia|]. destruct (Z.ltb_spec 8 size); [|lia].
    change (256 ^ Z.of_nat (Z.to_nat 8)) with two64. rewrite Z.mod_small by exact Hn. reflexivity.
Qed.

(* round trip, signed: every size 1..16, both endiannesses, every value Lua accepts for the size *)
Lemma core_unpack_int_roundtrip a size little : 1 <= size <= 16 -> in_i64 a ->
  (size < 8 -> - 2 ^ (8 * size - 1) <= a < 2 ^ (8 * size - 1)) ->
  nl_unpack_int (pack_core (u64 a) size (a <? 0) little) size little true = Some a.
Proof.
  intros Hs Ha Hfit. unfold nl_unpack_int.
  rewrite unpack_of_pack by (try apply u64_range; lia). cbn zeta.
  destruct (Z.ltb_spec size 8) as [Hlt|Hge].
  - specialize (Hfit Hlt). f_equal.
    replace (256 ^ size) with (2 ^ (size * 8)) by (rewrite Z.mul_comm, Z.pow_mul_r by lia; reflexivity).
    rewrite sign_extend_small by (try lia; apply Z.mod_pos_bound; apply Z.pow_pos_nonneg; lia).
    assert (Hk : 2 ^ (size * 8) = 2 * 2 ^ (size * 8 - 1)).
    { replace (size * 8) with (1 + (size * 8 - 1)) at 1 by lia. rewrite Z.pow_add_r by lia. reflexivity. }
    replace (8 * size - 1) with (size * 8 - 1) in Hfit by lia.
    assert (Hdiv : two64 = 2 ^ (size * 8) * 2 ^ (64 - size * 8)).
    { rewrite <- Z.pow_add_r by lia. replace (size * 8 + (64 - size * 8)) with 64 by lia. reflexivity. }
    assert (Hm : u64 a mod 2 ^ (size * 8) = a mod 2 ^ (size * 8)).
    { unfold u64. rewrite Hdiv.
      set (P2 := 2 ^ (size * 8)). set (Q2 := 2 ^ (64 - size * 8)).
      assert (0 < P2) by (subst P2; apply Z.pow_pos_nonneg; lia).
      assert (0 < Q2) by (subst Q2; apply Z.pow_pos_nonneg; lia).
      rewrite Z.rem_mul_r by lia.
      rewrite (Z.mul_comm P2 ((a / P2) mod Q2)), Z.mod_add by lia. apply Z.mod_mod. lia. }
    rewrite Hm. set (P := 2 ^ (size * 8 - 1)) in *. rewrite Hk.
    assert (0 < P) by (subst P; apply Z.pow_pos_nonneg; lia).
    destruct (Z.ltb_spec (a mod (2 * P)) P).
    + destruct (Z.lt_ge_cases a 0).
      * rewrite <- (Z.mod_add a 1 (2 * P)) in * by lia. rewrite Z.mod_small in * by lia. lia.
      * rewrite Z.mod_small in * by lia. lia.
    + destruct (Z.lt_ge_cases a 0).
      * rewrite <- (Z.mod_add a 1 (2 * P)) by lia. rewrite Z.mod_small by lia. lia.
      * rewrite Z.mod_small in * by lia. lia.
  - rewrite wrap64_u64 by exact Ha.
    destruct (Z.ltb_spec 8 size) as [H9|H9]; [|reflexivity].
    cbn [negb orb].
    assert (Htail : skipn 8 (sign_extend_tail (pack_bytes (Z.to_nat size) (u64 a)) size (a <? 0)) =
                    repeat (if 0 <=? a then 0 else 255) (Z.to_nat (size - 8))).
    { unfold sign_extend_tail. destruct (Z.ltb_spec 8 size); [|lia]. cbn [andb].
      destruct (Z.ltb_spec a 0); destruct (Z.leb_spec 0 a); try lia.
      - rewrite skipn_app. rewrite firstn_length, pack_bytes_length.
        replace (Nat.min 8 (Z.to_nat size)) with 8%nat by lia. rewrite Nat.sub_diag, skipn_O.
        rewrite skipn_all2 by (rewrite firstn_length, pack_bytes_length; lia). reflexivity.
      - rewrite (skipn_pack_bytes 8) by (pose proof (u64_range a); lia).
        change (256 ^ Z.of_nat 8) with two64. rewrite Z.div_small by apply u64_range.
        rewrite pack_bytes_zero. f_equal. lia. }
    rewrite Htail.
    assert (Hall : forall x k, forallb (fun b => b =? x) (repeat x k) = true).
    { intros x k. induction k; cbn; [reflexivity|]. rewrite Z.eqb_refl. assumption. }
    rewrite Hall. reflexivity.
Qed.

(* round trip, unsigned, for the values both libraries accept *)
Lemma core_unpack_uint_roundtrip a size little : 1 <= size <= 16 -> in_i64 a ->
  (size < 8 -> 0 <= a < 2 ^ (8 * size)) ->
  nl_unpack_int (pack_core (u64 a) size false little) size little false = Some a.
Proof.
  intros Hs Ha Hfit. unfold nl_unpack_int.
  rewrite unpack_of_pack by (try apply u64_range; lia). cbn zeta.
  destruct (Z.ltb_spec size 8) as [Hlt|Hge].
  - specialize (Hfit Hlt). f_equal.
    assert (Hp : 2 ^ (8 * size) <= 2 ^ 56) by (apply Z.pow_le_mono_r; lia).
    change (2 ^ 56) with 72057594037927936 in Hp.
    rewrite (u64_small a) by (unfold two64; lia).
    replace (256 ^ size) with (2 ^ (8 * size)) by (rewrite Z.pow_mul_r by lia; reflexivity).
    rewrite Z.mod_small by lia. apply wrap64_id. unfold in_i64, minint, maxint, two63. lia.
  - rewrite wrap64_u64 by exact Ha.
    destruct (Z.ltb_spec 8 size) as [H9|H9]; [|reflexivity].
    cbn [negb orb].
    assert (Htail : skipn 8 (sign_extend_tail (pack_bytes (Z.to_nat size) (u64 a)) size false) =
                    repeat 0 (Z.to_nat (size - 8))).
    { unfold sign_extend_tail. rewrite andb_false_r.
      rewrite (skipn_pack_bytes 8) by (pose proof (u64_range a); lia).
      change (256 ^ Z.of_nat 8) with two64. rewrite Z.div_small by apply u64_range.
      rewrite pack_bytes_zero. f_equal. lia. }
    rewrite Htail.
    assert (Hall : forall k, forallb (fun b => b =? 0) (repeat 0 k) = true).
    { intros k. induction k; cbn; [reflexivity|assumption]. }
    rewrite Hall. reflexivity.
Qed.

(* ---- the port's pack against Lua's (after 333c294): same bytes, same errors ---- *)
Lemma lim_facts size : 1 <= size -> size < 8 ->
  let L := 2 ^ (size * 8 - 1) in 1 <= L <= 36028797018963968 /\ 2 ^ (8 * size) = 2 * L /\ 2 ^ (8 * size - 1) = L.
Proof.
  intros H1 H8. cbn zeta. replace (8 * size - 1) with (size * 8 - 1) by lia.
  split; [|split; [|reflexivity]].
  - split; [change 1 with (2 ^ 0); apply Z.pow_le_mono_r; lia|].
    change 36028797018963968 with (2 ^ 55). apply Z.pow_le_mono_r; lia.
  - replace (8 * size) with (1 + (size * 8 - 1)) by lia. rewrite Z.pow_add_r by lia. reflexivity.
Qed.

Lemma pack_int_eq_lua a size little : in_i64 a -> 1 <= size <= 16 ->
  match lua_pack_int a size little with
  | LVal r => nl_pack_int a size little = Val r
  | LErr => nl_pack_int a size little = Trap
  end.
Proof.
  intros Ha Hs. unfold lua_pack_int, nl_pack_int, nl_packint. cbn [andb negb].
  destruct (Z.ltb_spec size 8) as [Hlt|Hge]; cbn [andb]; [|reflexivity].
  rewrite Z.shiftl_1_l. destruct (lim_facts size ltac:(lia) Hlt) as (HL & H2 & H1). cbn zeta in *.
  rewrite H1. set (L := 2 ^ (size * 8 - 1)) in *. clearbody L.
  unfold u64. unfold in_i64, minint, maxint, two63, two64 in *.
  destruct (Z.leb_spec (- L) a); destruct (Z.ltb_spec a L); cbn [andb negb];
    destruct (Z.ltb_spec ((a mod 18446744073709551616 + L mod 18446744073709551616) mod 18446744073709551616)
                         ((2 * (L mod 18446744073709551616)) mod 18446744073709551616)); cbn [negb]; try reflexivity; lia.
Qed.

Lemma pack_uint_eq_lua a size little : in_i64 a -> 1 <= size <= 16 ->
  match lua_pack_uint a size little with
  | LVal r => nl_pack_uint a size little = Val r
  | LErr => nl_pack_uint a size little = Trap
  end.
Proof.
  intros Ha Hs. unfold lua_pack_uint, nl_pack_uint, nl_packint. cbn [andb negb].
  destruct (Z.ltb_spec size 8) as [Hlt|Hge]; cbn [andb]; [|reflexivity].
  rewrite Z.shiftl_1_l. destruct (lim_facts size ltac:(lia) Hlt) as (HL & H2 & H1). cbn zeta in *.
  rewrite H2. set (L := 2 ^ (size * 8 - 1)) in *. clearbody L.
  unfold u64. unfold in_i64, minint, maxint, two63, two64 in *.
  destruct (Z.ltb_spec (a mod 18446744073709551616) (2 * L));
    destruct (Z.ltb_spec (a mod 18446744073709551616) ((2 * (L mod 18446744073709551616)) mod 18446744073709551616));
    cbn [negb]; try reflexivity; lia.
Qed.

(* round trips through the port's pack: whatever Lua accepts comes back *)
Lemma pack_unpack_int_roundtrip a size little : 1 <= size <= 16 -> in_i64 a ->
  (size < 8 -> - 2 ^ (8 * size - 1) <= a < 2 ^ (8 * size - 1)) ->
  exists bs, nl_pack_int a size little = Val bs /\ nl_unpack_int bs size little true = Some a.
Proof.
  intros Hs Ha Hfit. exists (pack_core (u64 a) size (a <? 0) little). split; [|apply core_unpack_int_roundtrip; assumption].
  pose proof (pack_int_eq_lua a size little Ha Hs) as H. unfold lua_pack_int in H.
  destruct (Z.ltb_spec size 8) as [Hlt|Hge]; cbn [andb] in H; [|exact H].
  specialize (Hfit Hlt).
  destruct (Z.leb_spec (- 2 ^ (8 * size - 1)) a); [|lia]. destruct (Z.ltb_spec a (2 ^ (8 * size - 1))); [|lia].
  cbn [andb negb] in H. exact H.
Qed.

Lemma pack_unpack_uint_roundtrip a size little : 1 <= size <= 16 -> in_i64 a ->
  (size < 8 -> 0 <= a < 2 ^ (8 * size)) ->
  exists bs, nl_pack_uint a size little = Val bs /\ nl_unpack_int bs size little false = Some a.
Proof.
  intros Hs Ha Hfit. exists (pack_core (u64 a) size false little). split; [|apply core_unpack_uint_roundtrip; assumption].
  pose proof (pack_uint_eq_lua a size little Ha Hs) as H. unfold lua_pack_uint in H.
  destruct (Z.ltb_spec size 8) as [Hlt|Hge]; cbn [andb] in H; [|exact H].
  specialize (Hfit Hlt).
  assert (Hu : u64 a = a).
  { assert (2 ^ (8 * size) <= 2 ^ 56) by (apply Z.pow_le_mono_r; lia). change (2 ^ 56) with 72057594037927936 in *.
    apply u64_small. unfold two64. lia. }
  rewrite Hu in *. destruct (Z.ltb_spec a (2 ^ (8 * size))); [|lia]. cbn [negb] in H. exact H.
Qed.
