(* C13 (d) - the drivers around the pattern matcher: find's search loop, gsub, gmatch, and the
   expansion of the replacement string.  Both sides are generic in an abstract ANCHORED matcher
     m : position -> option (end, captures)
   (Lua's [match(ms, src, p)] / Nelua's [ms:_match(s, p)] after the captures have been reset).
   [lua_*]: lstrlib.c str_find_aux / str_gsub / add_s / gmatch_aux.
   [nl_*] : lib/detail/strpatt.nelua StrPatt.match and lib/string.nelua find / gsub / gmatch.
   Loops carry fuel; [None] = out of fuel (every theorem excludes it). No proofs in this file. *)
From C13 Require Export Model.
Local Open Scope Z_scope.

Definition cap := (Z * Z)%type.                    (* init, len; len = CAP_POSITION marks a position capture *)
Definition matcher := Z -> option (Z * list cap).

(* result of a call: a value or a raised error (Lua) / a stop in an assert (Nelua) *)
Inductive out (A : Type) : Type := Ok (a : A) | Err.
Arguments Ok {A} a.
Arguments Err {A}.

(* ---------- decimal rendering of a position (lua_pushinteger + tostring / Nelua tostring) ---------- *)
Fixpoint dec_digits (fuel : nat) (n : Z) (acc : bytes) : bytes :=
  match fuel with
  | O => acc
  | S f => if n <? 10 then (48 + n) :: acc else dec_digits f (n / 10) ((48 + n mod 10) :: acc)
  end.
Definition dec_of_pos (n : Z) : bytes := dec_digits 20 n [].

(* ---------- captures as the replacement sees them (get_onecapture / StrPatt.get_capture) ---------- *)
Definition onecapture (s : bytes) (st e : Z) (caps : list cap) (l : Z) : out bytes :=
  if Z.of_nat (length caps) <=? l then
    (if l =? 0 then Ok (slice s st (e - st)) else Err)            (* "invalid capture index" *)
  else
    match nth_error caps (Z.to_nat l) with
    | None => Err
    | Some (ci, cl) =>
        if cl =? CAP_UNFINISHED then Err                           (* "unfinished capture" *)
        else if cl =? CAP_POSITION then Ok (dec_of_pos (ci + 1))
        else Ok (slice s ci cl)
    end.

(* add_s (Lua) and the "replace captures" loop of string.gsub (Nelua): the same algorithm in both
   sources - scan for '%', then %% / %0 / %1-%9, anything else (including the terminator after a
   trailing '%') is an error *)
Fixpoint expand (s : bytes) (st e : Z) (caps : list cap) (r : bytes) : out bytes :=
  match r with
  | [] => Ok []
  | c :: r' =>
      if c =? 37 then
        match r' with
        | [] => Err
        | d :: r'' =>
            let rest := expand s st e caps r'' in
            let piece :=
              if d =? 37 then Ok [37]
              else if d =? 48 then Ok (slice s st (e - st))
              else if (49 <=? d) && (d <=? 57) then onecapture s st e caps (d - 49)
              else Err in
            match piece, rest with
            | Ok p, Ok q => Ok (p ++ q)
            | _, _ => Err
            end
        end
      else
        match expand s st e caps r' with
        | Ok q => Ok (c :: q)
        | Err => Err
        end
  end.

(* ---------- find: the search loops ---------- *)
(* Lua str_find_aux:  do { if match(s1) return } while (s1++ < src_end && !anchor)
   k = number of further iterations the do-while may still take *)
Fixpoint lua_search (k : nat) (m : matcher) (anchor : bool) (len s1 : Z) : option (Z * Z * list cap) :=
  match m s1 with
  | Some (e, c) => Some (s1, e, c)
  | None =>
      if (s1 <? len) && negb anchor then
        match k with O => None | S k' => lua_search k' m anchor len (s1 + 1) end
      else None
  end.

(* Nelua StrPatt.match, pattern branch:  repeat e = _match(s) ... s = s + 1 until s > #source or anchor *)
Fixpoint nl_search (k : nat) (m : matcher) (anchor : bool) (len s0 : Z) : option (Z * Z * list cap) :=
  match m s0 with
  | Some (e, c) => Some (s0, e, c)
  | None =>
      if (len <? s0 + 1) || anchor then None
      else match k with O => None | S k' => nl_search k' m anchor len (s0 + 1) end
  end.

(* ms:match(pos) with its guard  (@usize)(s) > source.size  *)
Definition nl_ms_match (s : bytes) (m : matcher) (anchor : bool) (pos : Z) : option (Z * Z * list cap) :=
  if slen s <? pos then None else nl_search (Z.to_nat (slen s - pos)) m anchor (slen s) pos.
Definition lua_do_search (s : bytes) (m : matcher) (anchor : bool) (init : Z) : option (Z * Z * list cap) :=
  lua_search (Z.to_nat (slen s - init)) m anchor (slen s) init.

(* ---------- gsub ---------- *)
Definition gsub_fuel (s : bytes) : nat := S (S (S (2 * length s))).
Definition gsub_finish (s : bytes) (pos n : Z) (acc : bytes) : option (out (bytes * Z)) :=
  Some (Ok (acc ++ slice s pos (slen s - pos), n)).

(* str_gsub *)
Fixpoint lua_gsub_loop (fuel : nat) (m : matcher) (s repl : bytes) (anchor : bool) (maxn : Z)
         (src last n : Z) (acc : bytes) : option (out (bytes * Z)) :=
  match fuel with
  | O => None
  | S f =>
      if n <? maxn then
        let skip :=
          if src <? slen s then
            let acc' := acc ++ slice s src 1 in
            if anchor then gsub_finish s (src + 1) n acc'
            else lua_gsub_loop f m s repl anchor maxn (src + 1) last n acc'
          else gsub_finish s src n acc in
        match m src with
        | Some (e, caps) =>
            if negb (e =? last) then
              match expand s src e caps repl with
              | Err => Some Err
              | Ok r =>
                  if anchor then gsub_finish s e (n + 1) (acc ++ r)
                  else lua_gsub_loop f m s repl anchor maxn e e (n + 1) (acc ++ r)
              end
            else skip
        | None => skip
        end
      else gsub_finish s src n acc
  end.
Definition lua_gsub (m : matcher) (s repl : bytes) (anchor : bool) (maxn : Z) : option (out (bytes * Z)) :=
  lua_gsub_loop (gsub_fuel s) m s repl anchor maxn 0 (-1) 0 [].

(* string.gsub with a string replacement *)
Fixpoint nl_gsub_loop (fuel : nat) (m : matcher) (s repl : bytes) (anchor : bool) (maxn : Z)
         (pos last n : Z) (acc : bytes) : option (out (bytes * Z)) :=
  match fuel with
  | O => None
  | S f =>
      if n <? maxn then
        let skip :=
          if pos <? slen s then
            let acc' := acc ++ slice s pos 1 in
            if anchor then gsub_finish s (pos + 1) n acc'
            else nl_gsub_loop f m s repl anchor maxn (pos + 1) last n acc'
          else gsub_finish s pos n acc in
        match nl_ms_match s m anchor pos with
        | Some (st, e, caps) =>
            if negb (e =? last) then
              match expand s st e caps repl with
              | Err => Some Err
              | Ok r =>
                  let acc' := acc ++ slice s pos (st - pos) ++ r in
                  if anchor then gsub_finish s e (n + 1) acc'
                  else nl_gsub_loop f m s repl anchor maxn e e (n + 1) acc'
              end
            else skip
        | None => skip
        end
      else gsub_finish s pos n acc
  end.
Definition nl_gsub (m : matcher) (s repl : bytes) (anchor : bool) (maxn : Z) : option (out (bytes * Z)) :=
  nl_gsub_loop (gsub_fuel s) m s repl anchor maxn 0 (-1) 0 [].

(* ---------- gmatch: the list of (start, end, captures) produced until exhaustion ---------- *)
(* one call of gmatch_aux:  for (src = gm->src; src <= src_end; src++) if (e = match) && e != lastmatch *)
Fixpoint lua_gmatch_next (k : nat) (m : matcher) (len src last : Z) : option (Z * Z * list cap) :=
  if len <? src then None else
  match m src with
  | Some (e, c) =>
      if negb (e =? last) then Some (src, e, c)
      else match k with O => None | S k' => lua_gmatch_next k' m len (src + 1) last end
  | None => match k with O => None | S k' => lua_gmatch_next k' m len (src + 1) last end
  end.

Fixpoint lua_gmatch_all (fuel : nat) (m : matcher) (s : bytes) (src last : Z) : option (list (Z * Z * list cap)) :=
  match fuel with
  | O => None
  | S f =>
      match lua_gmatch_next (Z.to_nat (slen s - src)) m (slen s) src last with
      | None => Some []
      | Some (st, e, c) =>
          match lua_gmatch_all f m s e e with
          | None => None
          | Some l => Some ((st, e, c) :: l)
          end
      end
  end.
(* Lua's gmatch does not treat '^' as an anchor: the matcher it runs includes the '^' as a literal *)
Definition lua_gmatch (m : matcher) (s : bytes) (init : Z) : option (list (Z * Z * list cap)) :=
  lua_gmatch_all (S (S (length s))) m s init (-1).

(* string.gmatch (after 0222fe3 / 893bab4): the state keeps [lastend] = end of the last match + 1 (0: none);
   gmatch_next calls ms:match(state.init) and, while the match found ends where the last one ended,
   calls ms:match(startpos + 1) again; a leading '^' is no anchor (ms.anchor = false).
   [k] bounds the retries. *)
Fixpoint nl_gmatch_next (k : nat) (m : matcher) (s : bytes) (pos lastend : Z) : option (Z * Z * list cap) :=
  match nl_ms_match s m false pos with
  | None => None
  | Some (st, e, c) =>
      if e + 1 =? lastend then
        match k with O => None | S k' => nl_gmatch_next k' m s (st + 1) lastend end
      else Some (st, e, c)
  end.

Fixpoint nl_gmatch_all (fuel : nat) (m : matcher) (s : bytes) (init lastend : Z) : option (list (Z * Z * list cap)) :=
  match fuel with
  | O => None
  | S f =>
      match nl_gmatch_next (S (length s)) m s init lastend with
      | None => Some []
      | Some (st, e, c) =>
          match nl_gmatch_all f m s e (e + 1) with
          | None => None
          | Some l => Some ((st, e, c) :: l)
          end
      end
  end.
Definition nl_gmatch (m : matcher) (s : bytes) (init : Z) : option (list (Z * Z * list cap)) :=
  nl_gmatch_all (S (S (length s))) m s init 0.

(* ---------- max / min over a domain whose order may be partial (floats: NaN, signed zeros) ---------- *)
Section MinMax.
  Variable A : Type.
  Variable lt : A -> A -> bool.
  (* lmathlib.c math_max / math_min with two arguments *)
  Definition lua_max2_gen (x y : A) : A := if lt x y then y else x.
  Definition lua_min2_gen (x y : A) : A := if lt y x then y else x.
  (* math.nelua (after 873f3b9):  x < y and y or x   /   y < x and y or x *)
  Definition nl_max2_gen (x y : A) : A := if lt x y then y else x.
  Definition nl_min2_gen (x y : A) : A := if lt y x then y else x.
End MinMax.
