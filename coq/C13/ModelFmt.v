(* C13 (g) - string.format: the integer, character and string conversions.
   SPEC   lstrlib.c str_format / getformat / checkformat / addlenmod (Lua 5.4.6), which hands each conversion
          specification to the C library's snprintf;
   MODEL  lib/stringbuilder.nelua writef / scanformat / checkformat / formatarg / addlenmod, which hands each conversion
          specification to strprintf.snprintf - by default the same C library function.
   [c99_snprintf] is that function for the directives both sides produce: ISO C99 7.21.6.1 for
   d i u o x X (with the ll length modifier), c and s, flags "-+ #0", width, precision.
   The conversions of floats (a A e E f g G) go through an abstract formatter [cfloat] (the theorems hold for
   every such function; the correspondence runs them differentially only). *)
From C13 Require Export Model.
Local Open Scope Z_scope.

Inductive farg := AInt (v : Z) | AStr (s : bytes).

Fixpoint span (P : Z -> bool) (s : bytes) : bytes * bytes :=
  match s with
  | c :: r => if P c then let '(a, b) := span P r in (c :: a, b) else ([], s)
  | [] => ([], [])
  end.
Definition hd0 (s : bytes) : Z := match s with c :: _ => c | [] => 0 end.   (* reading the terminator *)

Definition isflagF (c : Z) : bool := (c =? 45) || (c =? 43) || (c =? 35) || (c =? 48) || (c =? 32).   (* "-+#0 " *)
Definition isflagX (c : Z) : bool := (c =? 45) || (c =? 35) || (c =? 48).                              (* "-#0" *)
Definition isflagI (c : Z) : bool := (c =? 45) || (c =? 43) || (c =? 48) || (c =? 32).                 (* "-+0 " *)
Definition isflagU (c : Z) : bool := (c =? 45) || (c =? 48).                                            (* "-0" *)
Definition isflagC (c : Z) : bool := (c =? 45).                                                         (* "-" *)

(* ------------------------------------------------------------------ C99 snprintf, one directive *)
Fixpoint dec_value (acc : Z) (ds : bytes) : Z :=
  match ds with d :: r => dec_value (acc * 10 + (d - 48)) r | [] => acc end.

Record cspec := { f_minus : bool; f_plus : bool; f_space : bool; f_hash : bool; f_zero : bool;
                  c_width : Z; c_prec : option Z; c_ll : bool; c_conv : Z }.

Definition mem (c : Z) (s : bytes) : bool := existsb (Z.eqb c) s.

Definition c99_parse (form : bytes) : option cspec :=
  if negb (hd0 form =? 37) then None
  else
    let '(fl, r1) := span isflagF (tl form) in
    let '(w, r2) := span c_isdigit r1 in
    let '(p, r3) := if hd0 r2 =? 46 then let '(pd, r'') := span c_isdigit (tl r2) in (Some (dec_value 0 pd), r'')
                    else (None, r2) in
    let '(ll, r4) := if (hd0 r3 =? 108) && (hd0 (tl r3) =? 108) then (true, tl (tl r3)) else (false, r3) in
    match r4 with
    | [c] => Some {| f_minus := mem 45 fl; f_plus := mem 43 fl; f_space := mem 32 fl; f_hash := mem 35 fl;
                     f_zero := mem 48 fl; c_width := dec_value 0 w; c_prec := p; c_ll := ll; c_conv := c |}
    | _ => None
    end.

Definition digit_char (upper : bool) (d : Z) : Z := if d <? 10 then 48 + d else (if upper then 55 else 87) + d.
Fixpoint digits_fuel (fuel : nat) (base : Z) (upper : bool) (n : Z) (acc : bytes) : bytes :=
  match fuel with
  | O => acc
  | S k => if n <=? 0 then acc else digits_fuel k base upper (n / base) (digit_char upper (n mod base) :: acc)
  end.
(* the digits of n > 0 (none for 0), n < 2^64 *)
Definition digits (base : Z) (upper : bool) (n : Z) : bytes := digits_fuel 64 base upper n [].
Definition zeros (n : Z) : bytes := repeat 48 (Z.to_nat n).
Definition spaces (n : Z) : bytes := repeat 32 (Z.to_nat n).

(* sign/prefix, digits, padded to the width *)
Definition c99_pad (sp : cspec) (lead digs : bytes) (zero_ok : bool) : bytes :=
  let pad := c_width sp - slen lead - slen digs in
  if f_minus sp then lead ++ digs ++ spaces pad
  else if f_zero sp && zero_ok then lead ++ zeros pad ++ digs
  else spaces pad ++ lead ++ digs.

(* v is the 64-bit argument word (a long long and an unsigned long long of the same bits are the same
   variadic argument): d and i read it as signed, the others as unsigned *)
Definition c99_int (sp : cspec) (w : Z) : bytes :=
  let c := c_conv sp in
  let signed := (c =? 100) || (c =? 105) in
  let v := if signed then wrap64 w else u64 w in
  let mag := Z.abs v in
  let base := if c =? 111 then 8 else if (c =? 120) || (c =? 88) then 16 else 10 in
  let digs := digits base (c =? 88) mag in
  let prec := match c_prec sp with Some p => p | None => 1 end in
  let digs1 := zeros (prec - slen digs) ++ digs in
  let digs2 := if (c =? 111) && f_hash sp && negb (hd0 digs1 =? 48) then 48 :: digs1 else digs1 in
  let sign := if signed then (if v <? 0 then [45] else if f_plus sp then [43] else if f_space sp then [32] else []) else [] in
  let prefix := if ((c =? 120) || (c =? 88)) && f_hash sp && negb (mag =? 0) then [48; c] else [] in
  c99_pad sp (sign ++ prefix) digs2 (match c_prec sp with None => true | Some _ => false end).

Fixpoint c_str (s : bytes) : bytes :=       (* the C string that starts at s *)
  match s with c :: r => if c =? 0 then [] else c :: c_str r | [] => [] end.

Definition c99_str (sp : cspec) (s : bytes) : bytes :=
  let s0 := c_str s in
  let s1 := match c_prec sp with Some p => firstn (Z.to_nat p) s0 | None => s0 end in
  let pad := c_width sp - slen s1 in
  if f_minus sp then s1 ++ spaces pad else spaces pad ++ s1.

Definition c99_chr (sp : cspec) (v : Z) : bytes :=
  let pad := c_width sp - 1 in
  if f_minus sp then (v mod 256) :: spaces pad else spaces pad ++ [v mod 256].

Definition is_intconv (c : Z) : bool := (c =? 100) || (c =? 105) || (c =? 117) || (c =? 111) || (c =? 120) || (c =? 88).
Definition is_fltconv (c : Z) : bool :=
  (c =? 97) || (c =? 65) || (c =? 102) || (c =? 101) || (c =? 69) || (c =? 103) || (c =? 71).

Section Fmt.
(* the C library's conversion of a double (here: of the integer argument converted to double) *)
Variable cfloat : bytes -> Z -> bytes.

(* None = outside the defined behaviour of ISO C (7.21.6.1 p6, p4: '#' with d i u c s, '0' with c s, a precision
   with c are undefined) or outside what this model covers (a form that is not flags-width-precision-conversion,
   a length modifier other than the ll of the integer conversions) *)
Definition c99_snprintf (form : bytes) (a : farg) : option bytes :=
  match c99_parse form with
  | None => None
  | Some sp =>
      let c := c_conv sp in
      match a with
      | AInt v =>
          if is_intconv c then
            if negb (c_ll sp) then None
            else if f_hash sp && negb ((c =? 111) || (c =? 120) || (c =? 88)) then None
            else Some (c99_int sp v)
          else if c =? 99 then
            if c_ll sp || f_hash sp || f_zero sp || match c_prec sp with Some _ => true | None => false end then None
            else Some (c99_chr sp v)
          else if is_fltconv c then (if c_ll sp then None else Some (cfloat form v))
          else None
      | AStr s =>
          if (c =? 115) && negb (c_ll sp) && negb (f_hash sp) && negb (f_zero sp) then Some (c99_str sp s) else None
      end
  end.

(* ------------------------------------------------------------------ what both parsers share *)
(* at most two digits *)
Definition take2 (s : bytes) : bytes * bytes :=
  match s with
  | c :: r => if c_isdigit c then
                match r with
                | d :: r' => if c_isdigit d then ([c; d], r') else ([c], r)
                | [] => ([c], r)
                end
              else ([], s)
  | [] => ([], s)
  end.
(* flags among [allowed], then (unless a '0' follows when chk0) up to two digits of width, then, if prec, a '.'
   and up to two digits: (flags, what was consumed after them, the rest) *)
Definition scan (allowed : Z -> bool) (prec chk0 : bool) (s : bytes) : bytes * bytes * bytes :=
  let '(fl, s1) := span allowed s in
  if chk0 && (hd0 s1 =? 48) then (fl, [], s1)
  else
    let '(w, s2) := take2 s1 in
    match s2 with
    | c :: s3 => if (c =? 46) && prec then let '(p, s4) := take2 s3 in (fl, w ++ 46 :: p, s4) else (fl, w, s2)
    | [] => (fl, w, s2)
    end.

(* addlenmod: the length modifier goes before the conversion character *)
Definition addlenmod (form lenmod : bytes) : bytes := removelast form ++ lenmod ++ [last form 0].
Definition LL : bytes := [108; 108].

Definition wrap32 (v : Z) : Z := let m := v mod two32 in if m <? 2147483648 then m else m - two32.
Definition decimal_of (v : Z) : bytes :=                      (* "%d" of a lua_Integer / int2str base 10 *)
  let d := digits 10 false (Z.abs v) in
  (if v <? 0 then [45] else []) ++ (match d with [] => [48] | _ => d end).

(* ------------------------------------------------------------------ Lua *)
Definition spanset (c : Z) : bool := isflagF c || between 49 57 c || (c =? 46).   (* L_FMTFLAGSF "123456789." *)

(* getformat: the specification copied to 'form' (with its '%'), the conversion character, what follows it *)
Definition lua_getformat (rest : bytes) : lres (bytes * Z * bytes) :=
  let '(sp, r) := span spanset rest in
  if 22 <=? slen sp + 1 then LErr                                  (* "invalid format (too long)" *)
  else LVal (37 :: sp ++ [hd0 r], hd0 r, tl r).

(* checkformat; [cap] bounds the number of flag characters (Lua itself: only by the length test above) *)
Definition lua_checkformat (cap : Z) (form : bytes) (flags : Z -> bool) (precision : bool) : bool :=
  let '(fl, _, rem) := scan flags precision true (tl form) in
  (slen fl <=? cap) && match rem with c :: _ => c_isalpha c | [] => false end.

Definition has_zero (s : bytes) : bool := mem 0 s.

Definition lua_item (cap : Z) (pq : bool) (rest : bytes) (a : farg) : lres (bytes * bytes) :=
  match lua_getformat rest with
  | LErr => LErr
  | LVal (form, conv, rest') =>
      let out (o : option bytes) := match o with Some b => LVal (b, rest') | None => LErr end in
      match a with
      | AInt v =>
          if conv =? 99 then
            if lua_checkformat cap form isflagC false then out (c99_snprintf form (AInt (wrap32 v))) else LErr
          else if is_intconv conv then
            let flags := if (conv =? 100) || (conv =? 105) then isflagI else if conv =? 117 then isflagU else isflagX in
            if lua_checkformat cap form flags true then out (c99_snprintf (addlenmod form LL) (AInt (u64 v))) else LErr   (* (LUAI_UACINT)n *)
          else if is_fltconv conv then
            if lua_checkformat cap form isflagF true then out (c99_snprintf form (AInt v)) else LErr
          else if conv =? 115 then
            let s := decimal_of v in
            if Nat.eqb (length form) 2 then LVal (s, rest')
            else if lua_checkformat cap form isflagC true then out (c99_snprintf form (AStr s)) else LErr
          else if negb pq then LErr                   (* [pq = false]: Lua without its conversions p and q *)
          else if conv =? 112 then                    (* 'p' of a value that is no pointer: "(null)" formatted as a string *)
            if lua_checkformat cap form isflagC false
            then out (c99_snprintf (removelast form ++ [115]) (AStr [40; 110; 117; 108; 108; 41])) else LErr
          else if conv =? 113 then                    (* 'q' of an integer: %lld, or 0x%llx for mininteger *)
            if Nat.eqb (length form) 2
            then LVal ((if v =? minint then [48; 120] ++ digits 16 false (u64 v) else decimal_of v), rest')
            else LErr
          else LErr
      | AStr s =>
          if conv =? 115 then
            if Nat.eqb (length form) 2 then LVal (s, rest')        (* no modifiers: keep the entire string *)
            else if has_zero s then LErr                           (* "string contains zeros" *)
            else if lua_checkformat cap form isflagC true then
              if negb (mem 46 form) && (100 <=? slen s) then LVal (s, rest')
              else out (c99_snprintf form (AStr s))
            else LErr
          else LErr                                  (* numeric conversions of strings (Lua coerces), 'q' and 'p' of strings: not modelled *)
      end
  end.

Fixpoint lua_format_loop (cap : Z) (pq : bool) (fuel : nat) (fmt : bytes) (args : list farg) : lres bytes :=
  match fuel with
  | O => LErr
  | S k =>
      match fmt with
      | [] => LVal []
      | c :: r =>
          if negb (c =? 37) then
            match lua_format_loop cap pq k r args with LVal o => LVal (c :: o) | LErr => LErr end
          else
            if hd0 r =? 37 then match lua_format_loop cap pq k (tl r) args with LVal o => LVal (37 :: o) | LErr => LErr end
            else
                match args with
                | [] => LErr                                       (* "no value" *)
                | a :: args' =>
                    match lua_item cap pq r a with
                    | LErr => LErr
                    | LVal (out, r') =>
                        match lua_format_loop cap pq k r' args' with LVal o => LVal (out ++ o) | LErr => LErr end
                    end
                end
      end
  end.
(* Lua restricted to at most [cap] flag characters per item and, when [pq] is false, without the conversions
   p and q: what the port documents as unsupported *)
Definition lua_format_cap (cap : Z) (pq : bool) (fmt : bytes) (args : list farg) : lres bytes :=
  lua_format_loop cap pq (S (length fmt)) fmt args.
(* Lua itself: the length test of getformat already keeps the flags under 21 characters *)
Definition lua_format := lua_format_cap 21 true.

(* ------------------------------------------------------------------ Nelua *)
Definition NL_MAXFLAGS : Z := 5.       (* assert(p < L_FMTFLAGS.size + 1) *)

(* scanformat: form, conversion character, what follows *)
Definition nl_scanformat (rest : bytes) : res (bytes * Z * bytes) :=
  let '(fl, wp, rem) := scan isflagF true false rest in
  if NL_MAXFLAGS <? slen fl then Trap                              (* "invalid format (repeated flags)" *)
  else if c_isdigit (hd0 rem) then Trap                            (* "invalid format (width or precision too long)" *)
  else Val (37 :: fl ++ wp ++ [hd0 rem], hd0 rem, tl rem).

(* checkformat (768ceb2): each conversion takes its own flags, c and p take no precision; the specification must
   end at the conversion character *)
Definition nl_checkformat (form : bytes) (c : Z) : bool :=
  let flags := if (c =? 100) || (c =? 105) then isflagI else if c =? 117 then isflagU
               else if (c =? 111) || (c =? 120) || (c =? 88) then isflagX
               else if is_fltconv c then isflagF else isflagC in
  let precision := negb ((c =? 99) || (c =? 112)) in
  let '(_, _, rem) := scan flags precision true (tl form) in
  hd0 rem =? c.

Definition nl_item (rest : bytes) (a : farg) : res (bytes * bytes) :=
  match nl_scanformat rest with
  | Trap => Trap | Unsafe => Unsafe
  | Val (form, conv, rest') =>
      let out (o : option bytes) := match o with Some b => Val (b, rest') | None => Unsafe end in
      let str (s : bytes) :=
        if Nat.eqb (length form) 2 then Val (s, rest')
        else if has_zero s then Trap                               (* 'string contains zeros' (53b4816) *)
        else out (c99_snprintf form (AStr s)) in
      if negb (nl_checkformat form conv) then Trap                 (* 'invalid conversion specification' *)
      else
      match a with
      | AInt v =>
          if conv =? 99 then out (c99_snprintf form (AInt (wrap32 v)))
          else if (conv =? 100) || (conv =? 105) then out (c99_snprintf (addlenmod form LL) (AInt (u64 v)))   (* (@clonglong)(arg1) *)
          else if (conv =? 111) || (conv =? 117) || (conv =? 120) || (conv =? 88) then
            out (c99_snprintf (addlenmod form LL) (AInt (u64 v)))                                              (* (@culonglong)(arg1) *)
          else if is_fltconv conv then out (c99_snprintf form (AInt v))
          else if conv =? 115 then str (decimal_of v)
          else Trap                                                (* 'invalid format for argument' *)
      | AStr s => if conv =? 115 then str s else Trap
      end
  end.

Fixpoint nl_format_loop (fuel : nat) (fmt : bytes) (args : list farg) : res bytes :=
  match fuel with
  | O => Trap
  | S k =>
      match fmt with
      | [] => Val []
      | c :: r =>
          if negb (c =? 37) then
            match nl_format_loop k r args with Val o => Val (c :: o) | x => x end
          else if hd0 r =? 37 then
            match nl_format_loop k (tl r) args with Val o => Val (37 :: o) | x => x end
          else
            match nl_scanformat r with                            (* the format is scanned before the argument is looked up *)
            | Trap => Trap | Unsafe => Unsafe
            | Val _ =>
                match args with
                | [] => Trap                                       (* 'bad format argument (no value)' *)
                | a :: args' =>
                    match nl_item r a with
                    | Trap => Trap | Unsafe => Unsafe
                    | Val (out, r') =>
                        match nl_format_loop k r' args' with Val o => Val (out ++ o) | x => x end
                    end
                end
            end
      end
  end.
Definition nl_format (fmt : bytes) (args : list farg) : res bytes := nl_format_loop (S (length fmt)) fmt args.
End Fmt.

(* ------------------------------------------------------------------ the size bound of every snprintf call *)
(* C99 snprintf(buf, n, ...) writes at most n-1 bytes and returns the length the full output would have; formatarg
   commits that returned length.  [nl_site_bound]: the n of the call site that formats the item, from the scraped
   facts of Gen.v (None: the plain "%s" copy, which calls nothing): MAX_ITEM for the numeric, character and pointer
   sites; for the modified %s the size of the buffer prepared for it, max(#s + 1, MAX_ITEM). *)
(* [s_buf]: the %s site is given the size of the buffer prepared for it (as scraped) rather than MAX_ITEM;
   [num_max]: the other sites are given MAX_ITEM *)
Definition nl_site_bound_pol (s_buf num_max : bool) (conv : Z) (form : bytes) (a : farg) : option Z :=
  if conv =? 115 then
    if Nat.eqb (length form) 2 then None
    else
      let s := match a with AStr s => s | AInt v => decimal_of v end in
      Some (if s_buf then Z.max (slen s + 1) NL_MAX_ITEM else NL_MAX_ITEM)
  else Some (if num_max then NL_MAX_ITEM else 0).
Definition nl_site_bound := nl_site_bound_pol FMT_S_SITE_BOUND_IS_BUF_SIZE FMT_NUM_SITES_BOUND_IS_MAX_ITEM.

Section FmtBounded.
Variable cfloat : bytes -> Z -> bytes.

(* the item with the bound taken into account: an output that does not fit is cut by snprintf; for the numeric sites
   formatarg then stops ('formatted item too long', 38f86f9); for %s it commits bytes that were never written *)
Definition nl_item_b_pol (s_buf num_max : bool) (rest : bytes) (a : farg) : res (bytes * bytes) :=
  match nl_scanformat rest with
  | Trap => Trap | Unsafe => Unsafe
  | Val (form, conv, _) =>
      match nl_item cfloat rest a with
      | Val (b, r') =>
          match nl_site_bound_pol s_buf num_max conv form a with
          | None => Val (b, r')
          | Some n => if slen b <? n then Val (b, r') else if conv =? 115 then Unsafe else Trap
          end
      | x => x
      end
  end.

Definition nl_item_b := nl_item_b_pol FMT_S_SITE_BOUND_IS_BUF_SIZE FMT_NUM_SITES_BOUND_IS_MAX_ITEM.

Fixpoint nl_format_loop_b (fuel : nat) (fmt : bytes) (args : list farg) : res bytes :=
  match fuel with
  | O => Trap
  | S k =>
      match fmt with
      | [] => Val []
      | c :: r =>
          if negb (c =? 37) then
            match nl_format_loop_b k r args with Val o => Val (c :: o) | x => x end
          else if hd0 r =? 37 then
            match nl_format_loop_b k (tl r) args with Val o => Val (37 :: o) | x => x end
          else
            match nl_scanformat r with
            | Trap => Trap | Unsafe => Unsafe
            | Val _ =>
                match args with
                | [] => Trap
                | a :: args' =>
                    match nl_item_b r a with
                    | Trap => Trap | Unsafe => Unsafe
                    | Val (out, r') =>
                        match nl_format_loop_b k r' args' with Val o => Val (out ++ o) | x => x end
                    end
                end
            end
      end
  end.
Definition nl_format_b (fmt : bytes) (args : list farg) : res bytes := nl_format_loop_b (S (length fmt)) fmt args.
End FmtBounded.
