(* C13 (h, continued) - the matcher with its memory reads abstracted.  This file is GENERATED TEXT: the Section Matcher
   of ModelPat.v, verbatim, except that the two read functions [P] (pattern.data[i]) and [S_] (source.data[i]) are
   section VARIABLES instead of the definitions "nth i pat 0" / "nth i src 0".  ProofsPatReads.v shows (1) that
   instantiated with those definitions it is ModelPat's matcher, and (2) that it returns the same result for ANY two
   pairs of read functions that agree on the pattern indices 0..#pattern (the terminator included) and on the subject
   indices 0..#subject-1: no byte outside the arguments is ever consulted. *)
From C13 Require Export Model ModelDrv ModelPat.
Local Open Scope Z_scope.

Module G.
Section Matcher.
  Variable cfg : mcfg.
  Variable src pat : bytes.

  Definition slen_ := slen src.
  Definition plen := slen pat.
  (* pattern bytes; index plen is the terminator *)
  (* every read of a pattern byte goes through [P], every read of a subject byte through [S_] (but the memory.compare
     of a back reference, which reads the two ranges [slice src ...] names): here they are PARAMETERS *)
  Variable P : Z -> Z.
  Variable S_ : Z -> Z.

  Definition match_class (c cl : Z) : bool :=
    if cl =? 97 then cfg_alpha cfg c else if cl =? 65 then negb (cfg_alpha cfg c)
    else if cl =? 99 then cfg_cntrl cfg c else if cl =? 67 then negb (cfg_cntrl cfg c)
    else if cl =? 100 then cfg_digit cfg c else if cl =? 68 then negb (cfg_digit cfg c)
    else if cl =? 103 then cfg_graph cfg c else if cl =? 71 then negb (cfg_graph cfg c)
    else if cl =? 108 then cfg_lower cfg c else if cl =? 76 then negb (cfg_lower cfg c)
    else if cl =? 112 then cfg_punct cfg c else if cl =? 80 then negb (cfg_punct cfg c)
    else if cl =? 115 then cfg_space cfg c else if cl =? 83 then negb (cfg_space cfg c)
    else if cl =? 117 then cfg_upper cfg c else if cl =? 85 then negb (cfg_upper cfg c)
    else if cl =? 119 then cfg_alnum cfg c else if cl =? 87 then negb (cfg_alnum cfg c)
    else if cl =? 120 then cfg_xdigit cfg c else if cl =? 88 then negb (cfg_xdigit cfg c)
    else if cl =? 122 then c =? 0 else if cl =? 90 then negb (c =? 0)
    else cl =? c.

  (* classEnd / match_class_end: Some ep, or None = malformed pattern *)
  Fixpoint set_end (fuel : nat) (p : Z) : option Z :=       (* the do-while looking for ']' *)
    match fuel with
    | O => None
    | S f =>
        if p =? plen then None else
        let c := P p in
        let p := p + 1 in
        let p := if (c =? 37) && (p <? plen) then p + 1 else p in
        if P p =? 93 then Some (p + 1) else set_end f p
    end.
  Definition class_end (p : Z) : option Z :=
    let c := P p in
    let p := p + 1 in
    if c =? 37 then (if p =? plen then None else Some (p + 1))
    else if c =? 91 then set_end (S (length pat)) (if P p =? 94 then p + 1 else p)
    else Some p.

  (* matchbracketclass(c, p, ec): p at '[', ec at the closing ']' *)
  Fixpoint bracket_loop (fuel : nat) (c p ec : Z) (sig : bool) : bool :=
    match fuel with
    | O => negb sig
    | S f =>
        let p := p + 1 in
        if negb (p <? ec) then negb sig
        else if P p =? 37 then
          let p := p + 1 in
          if match_class c (P p) then sig else bracket_loop f c p ec sig
        else if (P (p + 1) =? 45) && (p + 2 <? ec) then
          let p := p + 2 in
          if (P (p - 2) <=? c) && (c <=? P p) then sig else bracket_loop f c p ec sig
        else if P p =? c then sig
        else bracket_loop f c p ec sig
    end.
  Definition match_bracket_class (c p ec : Z) : bool :=
    if P (p + 1) =? 94 then bracket_loop (S (length pat)) c (p + 1) ec false
    else bracket_loop (S (length pat)) c p ec true.

  Definition single_match (s p ep : Z) : bool :=
    if slen_ <=? s then false
    else
      let c := S_ s in
      let pc := P p in
      if pc =? 46 then true
      else if pc =? 37 then match_class c (P (p + 1))
      else if pc =? 91 then match_bracket_class c p (ep - 1)
      else pc =? c.

  (* matchbalance: None = malformed, Some None = no match *)
  Fixpoint balance_loop (fuel : nat) (s b e cont : Z) : option Z :=
    match fuel with
    | O => None
    | S f =>
        if negb (s <? slen_) then None
        else if S_ s =? e then
          (if cont - 1 =? 0 then Some (s + 1) else balance_loop f (s + 1) b e (cont - 1))
        else if S_ s =? b then balance_loop f (s + 1) b e (cont + 1)
        else balance_loop f (s + 1) b e cont
    end.

  (* counts the maximum expansion of a single-char item *)
  Fixpoint count_max (fuel : nat) (s p ep i : Z) : Z :=
    match fuel with
    | O => i
    | S f => if single_match (s + i) p ep then count_max f s p ep (i + 1) else i
    end.

  (* capture_to_close *)
  Fixpoint to_close (caps : list cap) (level : nat) : option nat :=
    match level with
    | O => None
    | S l =>
        match nth_error caps l with
        | Some (_, len) => if len =? CAP_UNFINISHED then Some l else to_close caps l
        | None => None
        end
    end.

  Definition set_len (caps : list cap) (l : nat) (len : Z) : list cap :=
    firstn l caps ++ match nth_error caps l with Some (i, _) => [(i, len)] | None => [] end ++ skipn (S l) caps.

  Definition enter (depth : Z) : option Z := cfg_enter cfg depth.

  (* the body of match()/_match().  [call]: a C-level recursive call (budget check on entry);
     [again]: `goto init` / `continue` with a new position *)
  Definition match_body (call : list cap -> Z -> Z -> mres) (again : Z -> Z -> mres)
             (caps : list cap) (s p : Z) : mres :=
    if negb (p <? plen) then MFound s caps
    else
      let c := P p in
      let dflt := fun (_ : unit) =>
        match class_end p with
        | None => MError
        | Some ep =>
            let epc := P ep in
            if negb (single_match s p ep) then
              (if (epc =? 42) || (epc =? 63) || (epc =? 45) then again s (ep + 1) else MFail)
            else if epc =? 63 then
              match call caps (s + 1) (ep + 1) with
              | MFail => again s (ep + 1)
              | r => r
              end
            else if (epc =? 43) || (epc =? 42) then
              let s0 := if epc =? 43 then s + 1 else s in
              let i := count_max (S (length src)) s0 p ep 0 in
              max_down call caps s0 ep (S (length src)) i
            else if epc =? 45 then
              min_up (fun s1 => single_match s1 p ep) call caps ep (S (length src)) s
            else again (s + 1) ep
        end in
      if c =? 40 then                                  (* '(' *)
        (if Z.of_nat (length caps) <? cfg_maxcap cfg then
           if P (p + 1) =? 41 then call (caps ++ [(s, CAP_POSITION)]) s (p + 2)
           else call (caps ++ [(s, CAP_UNFINISHED)]) s (p + 1)
         else MError)                                   (* "too many captures" *)
      else if c =? 41 then                             (* ')' *)
        match to_close caps (length caps) with
        | None => MError                                (* "invalid pattern capture" *)
        | Some l =>
            match nth_error caps l with
            | Some (ci, _) => call (set_len caps l (s - ci)) s (p + 1)
            | None => MError
            end
        end
      else if (c =? 36) && (p + 1 =? plen) then        (* '$' at the end *)
        (if s =? slen_ then MFound s caps else MFail)
      else if c =? 37 then                             (* '%' *)
        let n := P (p + 1) in
        if n =? 98 then                                (* %b *)
          (if negb (p + 2 <? plen - 1) then MError
           else if (slen_ <=? s) || negb (S_ s =? P (p + 2)) then MFail
           else match balance_loop (S (length src)) (s + 1) (P (p + 2)) (P (p + 3)) 1 with
                | Some s' => again s' (p + 4)
                | None => MFail
                end)
        else if n =? 102 then                          (* %f *)
          let p2 := p + 2 in
          if negb (P p2 =? 91) then MError
          else match class_end p2 with
               | None => MError
               | Some ep =>
                   if cfg_front_prev_unsafe_on_empty cfg && (s =? 0) && negb (s <? slen_) then MUnsafe
                   else
                     let prev := if s =? 0 then 0 else S_ (s - 1) in
                     let next := if s =? slen_ then 0 else S_ s in
                     if negb (match_bracket_class prev p2 (ep - 1)) && match_bracket_class next p2 (ep - 1)
                     then again s ep else MFail
               end
        else if (48 <=? n) && (n <=? 57) then          (* back reference *)
          let l := n - 49 in
          if (l <? 0) || (Z.of_nat (length caps) <=? l) then MError
          else match nth_error caps (Z.to_nat l) with
               | None => MError
               | Some (ci, cl) =>
                   if cl =? CAP_UNFINISHED then MError
                   else
                     (* (size_t)len: a position capture (-2) becomes huge and never fits *)
                     if (0 <=? cl) && (cl <=? slen_ - s) && bytes_eqb (slice src ci cl) (slice src s cl)
                     then again (s + cl) (p + 2) else MFail
               end
        else dflt tt
      else dflt tt.

  (* [fuel] bounds every recursive call AND every `goto init` along one path *)
  Fixpoint do_match (fuel : nat) (depth : Z) (caps : list cap) (s p : Z) {struct fuel} : mres :=
    match fuel with
    | O => MFuel
    | S f =>
        match_body
          (fun caps s p => match enter depth with
                           | None => MTooComplex
                           | Some d => do_match f d caps s p
                           end)
          (fun s p => do_match f depth caps s p)
          caps s p
    end.
End Matcher.
End G.
