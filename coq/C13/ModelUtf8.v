(* C13 (e) - UTF-8: lobject.c luaO_utf8esc / lutf8lib.c utf8_decode (SPEC) and lib/utf8.nelua
   utf8esc / utf8decode (MODEL).  The two decoders are the same algorithm over tables and limits that
   are scraped separately from the two sources (LUA_* and NL_* in Gen.v). *)
From C13 Require Export Model.
Local Open Scope Z_scope.

(* ---- encoder: the same loop in both sources ---- *)
Definition cont_byte (x : Z) : Z := Z.lor 128 (Z.land x 63).
(* (@byte)((~mfb << 1) | x) *)
Definition lead_byte (mfb x : Z) : Z := Z.land (Z.lor (Z.shiftl (Z.lnot mfb) 1) x) 255.

Fixpoint esc_loop (fuel : nat) (x mfb : Z) (acc : bytes) : option bytes :=
  match fuel with
  | O => None
  | S f =>
      let acc' := cont_byte x :: acc in
      let x' := Z.shiftr x 6 in
      let mfb' := Z.shiftr mfb 1 in
      if x' <=? mfb' then Some (lead_byte mfb' x' :: acc') else esc_loop f x' mfb' acc'
  end.

(* utf8esc for 0 <= x <= 0x7FFFFFFF; None = out of fuel (unreachable) *)
Definition utf8esc (x : Z) : option bytes :=
  if x <? 128 then Some [x] else esc_loop 8 x 63 [].

(* utf8.char on one argument (after e5d4eb9): the range of the integer is checked, then it is narrowed to
   uint32 and handed to utf8esc (which checks its own bound again) *)
Definition nl_utf8char (v : Z) : res bytes :=
  if negb ((0 <=? v) && (v <=? NL_UTF8CHAR_MAX)) then Trap else
  let x := v mod two32 in
  if NL_UTF8ESC_MAX <? x then Trap else
  match utf8esc x with Some b => Val b | None => Unsafe end.
(* lutf8lib.c utfchar / pushutfchar: the check is on the full lua_Unsigned *)
Definition lua_utf8char (v : Z) : lres bytes :=
  if LUA_MAXUTF <? u64 v then LErr else
  match utf8esc (u64 v) with Some b => LVal b | None => LErr end.

(* ---- decoder ---- *)
Inductive dec_state := Dec (c res count : Z) | DecInvalid | DecFuel.

(* the loop  for (; c & 0x40; c <<= 1) { cc = s[++count]; if not continuation fail; res = (res << 6) | (cc & 0x3F) }
   over uint32 / unsigned int; bytes beyond the string read the terminator 0 *)
Fixpoint dec_loop (fuel : nat) (s : bytes) (c res count : Z) : dec_state :=
  match fuel with
  | O => DecFuel
  | S f =>
      if Z.land c 64 =? 0 then Dec c res count
      else
        let count := count + 1 in
        let cc := nth (Z.to_nat count) s 0 in
        if negb (Z.land cc 192 =? 128) then DecInvalid
        else dec_loop f s (u32 (Z.shiftl c 1)) (u32 (Z.lor (u32 (Z.shiftl res 6)) (Z.land cc 63))) count
  end.

(* -> Some (code, number of bytes) or None (invalid sequence) *)
Definition utf8_decode_gen (limits : list Z) (maxutf maxuni surlo surhi : Z) (s : bytes) (strict : bool) : option (Z * Z) :=
  let c := nth 0 s 0 in
  let r :=
    if c <? 128 then Some (c, 0)
    else
      match dec_loop 9 s c 0 0 with
      | Dec c' res count =>
          let res := Z.lor res (u32 (Z.shiftl (Z.land c' 127) (count * 5))) in
          if (5 <? count) || (maxutf <? res) || (res <? nth (Z.to_nat count) limits 0) then None
          else Some (res, count)
      | _ => None
      end in
  match r with
  | None => None
  | Some (code, count) =>
      if strict && ((maxuni <? code) || ((surlo <=? code) && (code <=? surhi))) then None
      else Some (code, count + 1)
  end.

Definition lua_utf8decode := utf8_decode_gen LUA_UTF8_LIMITS LUA_MAXUTF LUA_MAXUNICODE 55296 57343.
Definition nl_utf8decode := utf8_decode_gen NL_UTF8_LIMITS NL_MAXUTF NL_MAXUNICODE NL_SURR_LO NL_SURR_HI.

(* ---- position arguments ---- *)
(* lutf8lib.c u_posrelat: 1-based position, 0 = before the string *)
Definition lua_u_posrelat (pos len : Z) : Z :=
  if 0 <=? pos then pos
  else if len <? (0 - u64 pos) mod two64 then 0
  else len + pos + 1.
(* utf8.nelua utf8relpos: 0-based position, negative = invalid; isize negation wraps *)
Definition nl_utf8relpos (pos len : Z) : Z :=
  if 0 <=? pos then pos - 1
  else if len <? lneg pos then -1
  else ladd len pos.

(* ---- utf8.codepoint(s, i [, lax]) with a single position ---- *)
(* lutf8lib.c codepoint with i = j *)
Definition lua_utf8codepoint (s : bytes) (i : Z) (strict : bool) : lres Z :=
  let len := slen s in
  let posi := lua_u_posrelat i len in
  if posi <? 1 then LErr                                  (* "out of bounds" *)
  else if len <? posi then LErr
  else match lua_utf8decode (skipn (Z.to_nat (posi - 1)) s) strict with
       | None => LErr                                     (* "invalid UTF-8 code" *)
       | Some (code, _) => LVal code
       end.

(* utf8.nelua codepoint (after 6fefee4): decodes from the START of the string while p <= i; returns at
   p == i; leaving the loop means i was inside a character: assert(false, 'out of bounds').
   The model keeps the check "this decode starts outside the string -> Unsafe" to prove it unreachable. *)
Fixpoint nl_cp_loop (k : nat) (s : bytes) (len i p : Z) (strict : bool) : res Z :=
  match k with
  | O => Trap
  | S k' =>
      if i <? p then Trap                                  (* loop left: assert(false, 'out of bounds') *)
      else if len <? p then Unsafe
      else match nl_utf8decode (skipn (Z.to_nat p) s) strict with
           | None => Trap                                 (* 'invalid UTF-8 code' *)
           | Some (code, adv) => if p =? i then Val code else nl_cp_loop k' s len i (p + adv) strict
           end
  end.
Definition nl_utf8codepoint (s : bytes) (i : Z) (strict : bool) : res Z :=
  let len := slen s in
  let i0 := nl_utf8relpos i len in
  if (0 <=? i0) && (i0 <? len) then nl_cp_loop (S (Z.to_nat len)) s len i0 0 strict else Trap.

(* ---- utf8.len(s, i, j, lax) ---- *)
Inductive lenres := LenOk (n : Z) | LenFail (pos : Z) | LenFuel.

(* while (i <= j) { decode at i; on failure return (fail, i+1); i = next; n++ }   (0-based i, j) *)
Fixpoint len_loop (dec : bytes -> option (Z * Z)) (fuel : nat) (s : bytes) (i j n : Z) : lenres :=
  match fuel with
  | O => LenFuel
  | S f =>
      if j <? i then LenOk n
      else match dec (skipn (Z.to_nat i) s) with
           | None => LenFail (i + 1)
           | Some (_, adv) => len_loop dec f s (i + adv) j (n + 1)
           end
  end.

(* lutf8lib.c utflen *)
Definition lua_utf8len (s : bytes) (i j : Z) (strict : bool) : lres lenres :=
  let len := slen s in
  let posi := lua_u_posrelat i len in
  let posj := lua_u_posrelat j len in
  if negb ((1 <=? posi) && (posi - 1 <=? len)) then LErr            (* "initial position out of bounds" *)
  else if negb (posj - 1 <? len) then LErr                         (* "final position out of bounds" *)
  else LVal (len_loop (fun b => lua_utf8decode b strict) (S (S (length s))) s (posi - 1) (posj - 1) 0).

(* utf8.nelua utf8.len *)
Definition nl_utf8len (s : bytes) (i j : Z) (strict : bool) : res lenres :=
  let len := slen s in
  let i0 := nl_utf8relpos i len in
  if negb ((0 <=? i0) && (i0 <=? len)) then Trap
  else
    let j0 := nl_utf8relpos j len in
    if negb (j0 <? len) then Trap
    else Val (len_loop (fun b => nl_utf8decode b strict) (S (S (length s))) s i0 j0 0).

(* ---- utf8.codes: one step of the iterator, from the previous 1-based position (0 at the start) ---- *)
Definition iscont (c : Z) : bool := Z.land c 192 =? 128.
Definition rd (s : bytes) (k : Z) : Z := nth (Z.to_nat k) s 0.      (* the terminator reads as 0 *)

Fixpoint skip_cont (fuel : nat) (s : bytes) (n : Z) : Z :=
  match fuel with O => n | S f => if iscont (rd s n) then skip_cont f s (n + 1) else n end.

Inductive stepres := StepEnd | StepVal (pos code : Z) | StepErr.

(* lutf8lib.c iter_aux (5.4.6): n = (lua_Unsigned)i; if (n < len) skip continuation bytes; if (n >= len) end;
   decode; error if invalid or followed by a continuation byte *)
Definition lua_codes_step (s : bytes) (i : Z) (strict : bool) : stepres :=
  let len := slen s in
  let n := u64 i in
  let n := if n <? len then skip_cont (S (length s)) s n else n in
  if len <=? n then StepEnd
  else match lua_utf8decode (skipn (Z.to_nat n) s) strict with
       | None => StepErr
       | Some (code, adv) => if iscont (rd s (n + adv)) then StepErr else StepVal (n + 1) code
       end.

(* utf8.nelua utf8next (after 6daceda): n = i - 1; if n < 0 then n = 0 elseif n < len then n = n + 1 and skip
   continuation bytes; if n >= len then end; decode; assert valid and (n + advance >= len or not continuation) *)
Definition nl_codes_step (s : bytes) (i : Z) (strict : bool) : stepres :=
  let len := slen s in
  let n := i - 1 in
  let n := if n <? 0 then 0 else if n <? len then skip_cont (S (length s)) s (n + 1) else n in
  if len <=? n then StepEnd
  else match nl_utf8decode (skipn (Z.to_nat n) s) strict with
       | None => StepErr
       | Some (code, adv) =>
           if negb ((len <=? n + adv) || negb (iscont (rd s (n + adv)))) then StepErr else StepVal (n + 1) code
       end.

(* ---- utf8.offset(s, n, i) ---- *)
(* the loops are textually the same in lutf8lib.c byteoffset and utf8.nelua utf8.offset; p is 0-based *)
Fixpoint off_start (f : nat) (s : bytes) (p : Z) : Z :=            (* while p > 0 and iscont(s[p]) do p-- *)
  match f with O => p | S f' => if (0 <? p) && iscont (rd s p) then off_start f' s (p - 1) else p end.
Fixpoint off_back1 (f : nat) (s : bytes) (p : Z) : Z :=            (* do p-- while p > 0 and iscont(s[p]) *)
  match f with O => p | S f' => let p := p - 1 in if (0 <? p) && iscont (rd s p) then off_back1 f' s p else p end.
Fixpoint off_fwd1 (f : nat) (s : bytes) (p : Z) : Z :=             (* do p++ while iscont(s[p]) *)
  match f with O => p | S f' => let p := p + 1 in if iscont (rd s p) then off_fwd1 f' s p else p end.
Fixpoint off_back (f : nat) (F : nat) (s : bytes) (p n : Z) : Z * Z :=
  match f with O => (p, n) | S f' => if (n <? 0) && (0 <? p) then off_back f' F s (off_back1 F s p) (n + 1) else (p, n) end.
Fixpoint off_fwd (f : nat) (F : nat) (s : bytes) (len p n : Z) : Z * Z :=
  match f with O => (p, n) | S f' => if (0 <? n) && (p <? len) then off_fwd f' F s len (off_fwd1 F s p) (n - 1) else (p, n) end.

(* from a valid 0-based position p: Some (Some pos) / Some None (no such character) / None (continuation byte) *)
Definition offset_core (guard_at_len : bool) (s : bytes) (len p n : Z) : option (option Z) :=
  let F := S (length s) in
  if n =? 0 then Some (Some (off_start F s p + 1))
  else if (if guard_at_len then negb (p =? len) else true) && iscont (rd s p) then None
  else
    let '(p', n') := if n <? 0 then off_back F F s p n else off_fwd F F s len p (n - 1) in
    if n' =? 0 then Some (Some (p' + 1)) else Some None.

Definition lua_utf8offset (s : bytes) (n i : Z) : lres (option Z) :=
  let len := slen s in
  let posi := lua_u_posrelat i len in
  if negb ((1 <=? posi) && (posi - 1 <=? len)) then LErr            (* "position out of bounds" *)
  else match offset_core false s len (posi - 1) n with
       | None => LErr                                               (* "initial position is a continuation byte" *)
       | Some r => LVal r
       end.
(* utf8.nelua utf8.offset (after 8181f7c: the continuation test is skipped at i == #s); -1 = no such character *)
Definition nl_utf8offset (s : bytes) (n i : Z) : res Z :=
  let len := slen s in
  let i0 := nl_utf8relpos i len in
  if negb ((0 <=? i0) && (i0 <=? len)) then Trap
  else match offset_core true s len i0 n with
       | None => Trap
       | Some (Some v) => Val v
       | Some None => Val (-1)
       end.
Definition offset_default (s : bytes) (n : Z) : Z := if 0 <=? n then 1 else slen s + 1.
