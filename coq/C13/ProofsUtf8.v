(* C13 (e) - proofs: utf8esc / utf8decode round trip for every code point up to 0x7FFFFFFF, strict-mode
   rejections, the port's tables against Lua's *)
From C13 Require Import Model ModelUtf8 ModelPack ProofsIdx ProofsPack.
Local Open Scope Z_scope.

(* ---- bit operations as arithmetic ---- *)
Lemma land63 z : Z.land z 63 = z mod 64.
Proof. change 63 with (Z.ones 6). rewrite Z.land_ones by lia. reflexivity. Qed.
Lemma land127 z : Z.land z 127 = z mod 128.
Proof. change 127 with (Z.ones 7). rewrite Z.land_ones by lia. reflexivity. Qed.
Lemma shiftr6 z : Z.shiftr z 6 = z / 64.
Proof. rewrite Z.shiftr_div_pow2 by lia. reflexivity. Qed.
Lemma shiftr1 z : Z.shiftr z 1 = z / 2.
Proof. rewrite Z.shiftr_div_pow2 by lia. reflexivity. Qed.

Lemma land64_test z : 0 <= z -> (Z.land z 64 =? 0) = ((z / 64) mod 2 =? 0).
Proof.
  intros Hz.
  assert (E : Z.land z 64 = Z.b2z (Z.testbit z 6) * 64).
  { apply Z.bits_inj'. intros i Hi. rewrite Z.land_spec. change 64 with (2 ^ 6).
    rewrite Z.pow2_bits_eqb by lia.
    destruct (Z.testbit z 6) eqn:E6; cbn [Z.b2z].
    - rewrite Z.mul_1_l. rewrite Z.pow2_bits_eqb by lia.
      destruct (Z.eqb_spec 6 i) as [<-|]; [rewrite E6; reflexivity|apply andb_false_r].
    - rewrite Z.mul_0_l, Z.bits_0. destruct (Z.eqb_spec 6 i) as [<-|]; [rewrite E6; reflexivity|apply andb_false_r]. }
  rewrite E. change ((z / 64) mod 2) with ((z / 2 ^ 6) mod 2). rewrite <- (Z.testbit_spec' z 6) by lia.
  destruct (Z.testbit z 6); reflexivity.
Qed.

Lemma cont_byte_val x : 0 <= x -> cont_byte x = 128 + x mod 64.
Proof.
  intros Hx. unfold cont_byte. rewrite land63.
  change 128 with (2 * 2 ^ 6). apply lor_disjoint; try lia; change (2 ^ 6) with 64; lia.
Qed.

Definition lead_ok (mfb : Z) : bool :=
  forallb (fun x => lead_byte mfb x =? 254 - 2 * mfb + x) (map Z.of_nat (seq 0 (Z.to_nat mfb + 1))).

Lemma lead_byte_val mfb x : In mfb [31; 15; 7; 3; 1] -> 0 <= x <= mfb -> lead_byte mfb x = 254 - 2 * mfb + x.
Proof.
  intros Hin Hx.
  assert (H : lead_ok mfb = true).
  { cbn [In] in Hin. destruct Hin as [<-|[<-|[<-|[<-|[<-|[]]]]]]; vm_compute; reflexivity. }
  unfold lead_ok in H. rewrite forallb_forall in H.
  specialize (H x). apply Z.eqb_eq. apply H. apply in_map_iff. exists (Z.to_nat x). split; [lia|].
  apply in_seq. lia.
Qed.

(* continuation bytes: test and payload *)
Definition cont_ok (v : Z) : bool := (Z.land (128 + v) 192 =? 128).
Lemma cont_test v : 0 <= v < 64 -> Z.land (128 + v) 192 = 128 /\ Z.land (128 + v) 63 = v.
Proof.
  intros Hv. split.
  - assert (H : forallb cont_ok (map Z.of_nat (seq 0 64)) = true) by (vm_compute; reflexivity).
    rewrite forallb_forall in H. apply Z.eqb_eq. apply (H v).
    apply in_map_iff. exists (Z.to_nat v). split; [lia|]. apply in_seq. lia.
  - rewrite land63. lia.
Qed.

Lemma acc6 res v : 0 <= res -> 0 <= v < 64 -> res * 64 + v < two32 ->
  u32 (Z.lor (u32 (Z.shiftl res 6)) v) = res * 64 + v.
Proof.
  intros Hr Hv Hb. rewrite Z.shiftl_mul_pow2 by lia. change (2 ^ 6) with 64 in *.
  unfold u32 at 2. rewrite Z.mod_small by (unfold two32 in *; lia).
  change 64 with (2 ^ 6). rewrite lor_disjoint by (try lia; change (2 ^ 6) with 64; lia).
  change (2 ^ 6) with 64. unfold u32. apply Z.mod_small. unfold two32 in *. lia.
Qed.

(* ---- one step of each loop ---- *)
Lemma esc_step f x mfb acc : 0 <= x ->
  esc_loop (S f) x mfb acc =
  if x / 64 <=? mfb / 2 then Some (lead_byte (mfb / 2) (x / 64) :: (128 + x mod 64) :: acc)
  else esc_loop f (x / 64) (mfb / 2) ((128 + x mod 64) :: acc).
Proof. intros Hx. cbn [esc_loop]. rewrite shiftr6, shiftr1, cont_byte_val by exact Hx. reflexivity. Qed.

Lemma dec_step_go f s c res count v : 0 <= c < two32 / 2 -> (c / 64) mod 2 = 1 ->
  nth (Z.to_nat (count + 1)) s 0 = 128 + v -> 0 <= v < 64 -> 0 <= res -> res * 64 + v < two32 ->
  dec_loop (S f) s c res count = dec_loop f s (c * 2) (res * 64 + v) (count + 1).
Proof.
  intros Hc Hbit Hnth Hv Hr Hb. cbn [dec_loop].
  rewrite land64_test by lia. rewrite Hbit. cbn [Z.eqb]. rewrite Hnth.
  destruct (cont_test v Hv) as [E1 E2]. rewrite E1, E2. cbn [Z.eqb Pos.eqb negb].
  rewrite acc6 by assumption.
  rewrite Z.shiftl_mul_pow2 by lia. change (2 ^ 1) with 2. unfold u32. rewrite Z.mod_small by (unfold two32 in *; lia).
  reflexivity.
Qed.

Lemma dec_step_stop f s c res count : 0 <= c -> (c / 64) mod 2 = 0 ->
  dec_loop (S f) s c res count = Dec c res count.
Proof. intros Hc Hbit. cbn [dec_loop]. rewrite land64_test by lia. rewrite Hbit. reflexivity. Qed.

(* final combination  res | ((c & 0x7F) << (count*5)):  after count shifts the low count bits of c are
   zero, so the lead payload y lands exactly above the 6*count bits of res *)
Lemma final_or res c k y k6 : 0 <= res < 2 ^ k6 -> 0 <= k -> 0 <= k6 -> 0 <= y ->
  (c mod 128) * 2 ^ k = y * 2 ^ k6 -> y * 2 ^ k6 < two32 ->
  Z.lor res (u32 (Z.shiftl (Z.land c 127) k)) = y * 2 ^ k6 + res.
Proof.
  intros Hr Hk Hk6 Hy He Hb. rewrite land127, Z.shiftl_mul_pow2 by lia. rewrite He.
  unfold u32. rewrite Z.mod_small by (split; [apply Z.mul_nonneg_nonneg; [lia|apply Z.pow_nonneg; lia]|exact Hb]).
  rewrite Z.lor_comm. apply lor_disjoint; lia.
Qed.

(* ---- the encoder, by number of bytes ---- *)
Lemma esc1 x : 0 <= x < 128 -> utf8esc x = Some [x].
Proof. intros H. unfold utf8esc. destruct (Z.ltb_spec x 128); [reflexivity|lia]. Qed.

Ltac esc_go :=
  rewrite esc_step by lia;
  match goal with |- context [?a <=? ?b] => let v := eval vm_compute in b in change b with v end;
  match goal with |- context [?a <=? ?b] => destruct (Z.leb_spec a b); [try lia|try lia] end.

Lemma esc2 x : 128 <= x < 2048 -> utf8esc x = Some [192 + x / 64; 128 + x mod 64].
Proof.
  intros H. unfold utf8esc. destruct (Z.ltb_spec x 128); [lia|].
  esc_go. change (63 / 2) with 31. rewrite lead_byte_val by (cbn; auto || lia). f_equal.
Qed.

Lemma esc3 x : 2048 <= x < 65536 ->
  utf8esc x = Some [224 + x / 64 / 64; 128 + (x / 64) mod 64; 128 + x mod 64].
Proof.
  intros H. unfold utf8esc. destruct (Z.ltb_spec x 128); [lia|].
  esc_go. esc_go. change (63 / 2 / 2) with 15. rewrite lead_byte_val by (cbn; auto || lia). f_equal.
Qed.

Lemma esc4 x : 65536 <= x < 2097152 ->
  utf8esc x = Some [240 + x / 64 / 64 / 64; 128 + (x / 64 / 64) mod 64; 128 + (x / 64) mod 64; 128 + x mod 64].
Proof.
  intros H. unfold utf8esc. destruct (Z.ltb_spec x 128); [lia|].
  esc_go. esc_go. esc_go. change (63 / 2 / 2 / 2) with 7. rewrite lead_byte_val by (cbn; auto || lia). f_equal.
Qed.

Lemma esc5 x : 2097152 <= x < 67108864 ->
  utf8esc x = Some [248 + x / 64 / 64 / 64 / 64; 128 + (x / 64 / 64 / 64) mod 64; 128 + (x / 64 / 64) mod 64;
                    128 + (x / 64) mod 64; 128 + x mod 64].
Proof.
  intros H. unfold utf8esc. destruct (Z.ltb_spec x 128); [lia|].
  esc_go. esc_go. esc_go. esc_go. change (63 / 2 / 2 / 2 / 2) with 3. rewrite lead_byte_val by (cbn; auto || lia). f_equal.
Qed.

Lemma esc6 x : 67108864 <= x <= 2147483647 ->
  utf8esc x = Some [252 + x / 64 / 64 / 64 / 64 / 64; 128 + (x / 64 / 64 / 64 / 64) mod 64; 128 + (x / 64 / 64 / 64) mod 64;
                    128 + (x / 64 / 64) mod 64; 128 + (x / 64) mod 64; 128 + x mod 64].
Proof.
  intros H. unfold utf8esc. destruct (Z.ltb_spec x 128); [lia|].
  esc_go. esc_go. esc_go. esc_go. esc_go. change (63 / 2 / 2 / 2 / 2 / 2) with 1.
  rewrite lead_byte_val by (cbn; auto || lia). f_equal.
Qed.

(* ---- the decoder on an encoded code point followed by anything ---- *)
Lemma limits_facts :
  nth 1 NL_UTF8_LIMITS 0 = 128 /\ nth 2 NL_UTF8_LIMITS 0 = 2048 /\ nth 3 NL_UTF8_LIMITS 0 = 65536 /\
  nth 4 NL_UTF8_LIMITS 0 = 2097152 /\ nth 5 NL_UTF8_LIMITS 0 = 67108864 /\ NL_MAXUTF = 2147483647.
Proof. vm_compute. repeat split; reflexivity. Qed.

Ltac dec_go v :=
  rewrite (dec_step_go _ _ _ _ _ v) by (first [reflexivity | unfold two32; lia]).
Ltac dec_stop :=
  rewrite dec_step_stop by lia.

Definition lax_decode (s : bytes) : option (Z * Z) := nl_utf8decode s false.

Lemma rt1 x rest : 0 <= x < 128 -> lax_decode ([x] ++ rest) = Some (x, 1).
Proof.
  intros H. unfold lax_decode, nl_utf8decode, utf8_decode_gen. cbn [app nth].
  destruct (Z.ltb_spec x 128); [|lia]. cbn [andb]. reflexivity.
Qed.

Lemma rt2 x rest : 128 <= x < 2048 -> lax_decode ([192 + x / 64; 128 + x mod 64] ++ rest) = Some (x, 2).
Proof.
  intros H. destruct limits_facts as (L1 & L2 & L3 & L4 & L5 & LM).
  unfold lax_decode, nl_utf8decode, utf8_decode_gen. cbn [app nth].
  destruct (Z.ltb_spec (192 + x / 64) 128); [lia|].
  dec_go (x mod 64). dec_stop.
  change (0 + 1) with 1. change (1 * 5) with 5.
  rewrite (final_or _ _ 5 (x / 64) 6) by (change (2 ^ 5) with 32; change (2 ^ 6) with 64; unfold two32; lia).
  change (Z.to_nat 1) with 1%nat. rewrite L1, LM. change (2 ^ 6) with 64.
  replace (x / 64 * 64 + (0 * 64 + x mod 64)) with x by lia.
  destruct (Z.ltb_spec 5 1); [lia|]. destruct (Z.ltb_spec 2147483647 x); [lia|]. destruct (Z.ltb_spec x 128); [lia|].
  reflexivity.
Qed.

Lemma rt3 x rest : 2048 <= x < 65536 ->
  lax_decode ([224 + x / 64 / 64; 128 + (x / 64) mod 64; 128 + x mod 64] ++ rest) = Some (x, 3).
Proof.
  intros H. destruct limits_facts as (L1 & L2 & L3 & L4 & L5 & LM).
  unfold lax_decode, nl_utf8decode, utf8_decode_gen. cbn [app nth].
  destruct (Z.ltb_spec (224 + x / 64 / 64) 128); [lia|].
  dec_go ((x / 64) mod 64). dec_go (x mod 64). dec_stop.
  change (0 + 1 + 1) with 2. change (2 * 5) with 10.
  rewrite (final_or _ _ 10 (x / 64 / 64) 12) by (change (2 ^ 10) with 1024; change (2 ^ 12) with 4096; unfold two32; lia).
  change (Z.to_nat 2) with 2%nat. rewrite L2, LM. change (2 ^ 12) with 4096.
  replace (x / 64 / 64 * 4096 + ((0 * 64 + (x / 64) mod 64) * 64 + x mod 64)) with x by lia.
  destruct (Z.ltb_spec 5 2); [lia|]. destruct (Z.ltb_spec 2147483647 x); [lia|]. destruct (Z.ltb_spec x 2048); [lia|].
  reflexivity.
Qed.

Lemma rt4 x rest : 65536 <= x < 2097152 ->
  lax_decode ([240 + x / 64 / 64 / 64; 128 + (x / 64 / 64) mod 64; 128 + (x / 64) mod 64; 128 + x mod 64] ++ rest) = Some (x, 4).
Proof.
  intros H. destruct limits_facts as (L1 & L2 & L3 & L4 & L5 & LM).
  unfold lax_decode, nl_utf8decode, utf8_decode_gen. cbn [app nth].
  destruct (Z.ltb_spec (240 + x / 64 / 64 / 64) 128); [lia|].
  dec_go ((x / 64 / 64) mod 64). dec_go ((x / 64) mod 64). dec_go (x mod 64). dec_stop.
  change (0 + 1 + 1 + 1) with 3. change (3 * 5) with 15.
  rewrite (final_or _ _ 15 (x / 64 / 64 / 64) 18) by (change (2 ^ 15) with 32768; change (2 ^ 18) with 262144; unfold two32; lia).
  change (Z.to_nat 3) with 3%nat. rewrite L3, LM. change (2 ^ 18) with 262144.
  replace (x / 64 / 64 / 64 * 262144 + (((0 * 64 + (x / 64 / 64) mod 64) * 64 + (x / 64) mod 64) * 64 + x mod 64)) with x by lia.
  destruct (Z.ltb_spec 5 3); [lia|]. destruct (Z.ltb_spec 2147483647 x); [lia|]. destruct (Z.ltb_spec x 65536); [lia|].
  reflexivity.
Qed.

Lemma rt5 x rest : 2097152 <= x < 67108864 ->
  lax_decode ([248 + x / 64 / 64 / 64 / 64; 128 + (x / 64 / 64 / 64) mod 64; 128 + (x / 64 / 64) mod 64;
               128 + (x / 64) mod 64; 128 + x mod 64] ++ rest) = Some (x, 5).
Proof.
  intros H. destruct limits_facts as (L1 & L2 & L3 & L4 & L5 & LM).
  unfold lax_decode, nl_utf8decode, utf8_decode_gen. cbn [app nth].
  destruct (Z.ltb_spec (248 + x / 64 / 64 / 64 / 64) 128); [lia|].
  dec_go ((x / 64 / 64 / 64) mod 64). dec_go ((x / 64 / 64) mod 64). dec_go ((x / 64) mod 64). dec_go (x mod 64). dec_stop.
  change (0 + 1 + 1 + 1 + 1) with 4. change (4 * 5) with 20.
  rewrite (final_or _ _ 20 (x / 64 / 64 / 64 / 64) 24) by (change (2 ^ 20) with 1048576; change (2 ^ 24) with 16777216; unfold two32; lia).
  change (Z.to_nat 4) with 4%nat. rewrite L4, LM. change (2 ^ 24) with 16777216.
  replace (x / 64 / 64 / 64 / 64 * 16777216 +
           ((((0 * 64 + (x / 64 / 64 / 64) mod 64) * 64 + (x / 64 / 64) mod 64) * 64 + (x / 64) mod 64) * 64 + x mod 64)) with x by lia.
  destruct (Z.ltb_spec 5 4); [lia|]. destruct (Z.ltb_spec 2147483647 x); [lia|]. destruct (Z.ltb_spec x 2097152); [lia|].
  reflexivity.
Qed.

Lemma rt6 x rest : 67108864 <= x <= 2147483647 ->
  lax_decode ([252 + x / 64 / 64 / 64 / 64 / 64; 128 + (x / 64 / 64 / 64 / 64) mod 64; 128 + (x / 64 / 64 / 64) mod 64;
               128 + (x / 64 / 64) mod 64; 128 + (x / 64) mod 64; 128 + x mod 64] ++ rest) = Some (x, 6).
Proof.
  intros H. destruct limits_facts as (L1 & L2 & L3 & L4 & L5 & LM).
  unfold lax_decode, nl_utf8decode, utf8_decode_gen. cbn [app nth].
  destruct (Z.ltb_spec (252 + x / 64 / 64 / 64 / 64 / 64) 128); [lia|].
  dec_go ((x / 64 / 64 / 64 / 64) mod 64). dec_go ((x / 64 / 64 / 64) mod 64). dec_go ((x / 64 / 64) mod 64).
  dec_go ((x / 64) mod 64). dec_go (x mod 64). dec_stop.
  change (0 + 1 + 1 + 1 + 1 + 1) with 5. change (5 * 5) with 25.
  rewrite (final_or _ _ 25 (x / 64 / 64 / 64 / 64 / 64) 30) by (change (2 ^ 25) with 33554432; change (2 ^ 30) with 1073741824; unfold two32; lia).
  change (Z.to_nat 5) with 5%nat. rewrite L5, LM. change (2 ^ 30) with 1073741824.
  replace (x / 64 / 64 / 64 / 64 / 64 * 1073741824 +
           (((((0 * 64 + (x / 64 / 64 / 64 / 64) mod 64) * 64 + (x / 64 / 64 / 64) mod 64) * 64 + (x / 64 / 64) mod 64) * 64 +
             (x / 64) mod 64) * 64 + x mod 64)) with x by lia.
  destruct (Z.ltb_spec 5 5); [lia|]. destruct (Z.ltb_spec 2147483647 x); [lia|]. destruct (Z.ltb_spec x 67108864); [lia|].
  reflexivity.
Qed.

(* ---- the round trip: every code point of the original UTF-8 range ---- *)
Theorem utf8_roundtrip x : 0 <= x <= 2147483647 ->
  exists bs, utf8esc x = Some bs /\ 1 <= slen bs <= 6 /\
             forall rest, nl_utf8decode (bs ++ rest) false = Some (x, slen bs).
Proof.
  intros H.
  destruct (Z.lt_ge_cases x 128); [eexists; split; [apply esc1; lia|split; [cbv; intuition congruence|intros; apply rt1; lia]]|].
  destruct (Z.lt_ge_cases x 2048); [eexists; split; [apply esc2; lia|split; [cbv; intuition congruence|intros; apply rt2; lia]]|].
  destruct (Z.lt_ge_cases x 65536); [eexists; split; [apply esc3; lia|split; [cbv; intuition congruence|intros; apply rt3; lia]]|].
  destruct (Z.lt_ge_cases x 2097152); [eexists; split; [apply esc4; lia|split; [cbv; intuition congruence|intros; apply rt4; lia]]|].
  destruct (Z.lt_ge_cases x 67108864); [eexists; split; [apply esc5; lia|split; [cbv; intuition congruence|intros; apply rt5; lia]]|].
  eexists; split; [apply esc6; lia|split; [cbv; intuition congruence|intros; apply rt6; lia]].
Qed.

(* strict mode rejects exactly the surrogates and the values above 0x10FFFF among what lax accepts *)
Lemma strict_decode_spec s :
  nl_utf8decode s true =
  match nl_utf8decode s false with
  | Some (code, n) => if (NL_MAXUNICODE <? code) || ((NL_SURR_LO <=? code) && (code <=? NL_SURR_HI)) then None else Some (code, n)
  | None => None
  end.
Proof.
  unfold nl_utf8decode, utf8_decode_gen. cbn zeta.
  destruct (if nth 0 s 0 <? 128 then _ else _) as [[code count]|]; [|reflexivity].
  cbn [andb]. destruct ((NL_MAXUNICODE <? code) || (NL_SURR_LO <=? code) && (code <=? NL_SURR_HI)); reflexivity.
Qed.

(* the port's decoder is Lua's decoder: the scraped tables and limits coincide *)
Lemma decode_eq_lua s strict : nl_utf8decode s strict = lua_utf8decode s strict.
Proof.
  (* holds by computation as long as the constants and tables scraped from lib/utf8.nelua equal those
     scraped from lutf8lib.c *)
  unfold nl_utf8decode, lua_utf8decode. reflexivity.
Qed.

(* overlong forms are rejected: the 2-byte spelling of '/' and the 3-byte spelling of 0x7F *)
Example overlong_rejected : nl_utf8decode [192; 175] false = None /\ nl_utf8decode [224; 129; 191] false = None.
Proof. vm_compute. split; reflexivity. Qed.

(* utf8.char: the port's early cast makes it accept arguments that Lua rejects *)
(* utf8.char (after e5d4eb9): same bytes where Lua returns, a stop exactly where Lua raises *)
Lemma utf8char_eq_lua v : in_i64 v ->
  match lua_utf8char v with LVal b => nl_utf8char v = Val b | LErr => nl_utf8char v = Trap end.
Proof.
  intros Hv. unfold lua_utf8char, nl_utf8char.
  change NL_UTF8CHAR_MAX with 2147483647. change NL_UTF8ESC_MAX with 2147483647. change LUA_MAXUTF with 2147483647.
  unfold u64, in_i64, minint, maxint, two63, two64, two32 in *.
  destruct (Z.leb_spec 0 v); destruct (Z.leb_spec v 2147483647); cbn [andb negb].
  - rewrite !Z.mod_small by lia. destruct (Z.ltb_spec 2147483647 v); [lia|].
    destruct (utf8_roundtrip v ltac:(lia)) as (bs & -> & _). reflexivity.
  - destruct (Z.ltb_spec 2147483647 (v mod 18446744073709551616)); [reflexivity|lia].
  - destruct (Z.ltb_spec 2147483647 (v mod 18446744073709551616)); [reflexivity|lia].
  - lia.
Qed.

(* ---- position arguments: utf8relpos = u_posrelat - 1 wherever either is valid ---- *)
Lemma utf8relpos_eq_lua pos len : in_i64 pos -> 0 <= len <= maxint ->
  (0 <= nl_utf8relpos pos len <-> 1 <= lua_u_posrelat pos len) /\
  (0 <= nl_utf8relpos pos len -> nl_utf8relpos pos len = lua_u_posrelat pos len - 1).
Proof.
  intros Hp Hl. unfold nl_utf8relpos, lua_u_posrelat, lneg, ladd, wrap64, u64.
  unfold in_i64, minint, maxint, two63, two64 in *.
  destruct (Z.leb_spec 0 pos); [lia|].
  destruct (Z.ltb_spec len ((- pos + 9223372036854775808) mod 18446744073709551616 - 9223372036854775808));
    destruct (Z.ltb_spec len ((0 - pos mod 18446744073709551616) mod 18446744073709551616)); lia.
Qed.

(* ---- utf8.codepoint ---- *)
Lemma cp_loop_val k : forall s len i p strict c,
  nl_cp_loop k s len i p strict = Val c ->
  exists n, nl_utf8decode (skipn (Z.to_nat i) s) strict = Some (c, n).
Proof.
  induction k as [|k IH]; intros s len i p strict c; cbn [nl_cp_loop]; [discriminate|].
  destruct (i <? p); [discriminate|]. destruct (len <? p); [discriminate|].
  destruct (nl_utf8decode (skipn (Z.to_nat p) s) strict) as [[code adv]|] eqn:E; [|discriminate].
  destruct (Z.eqb_spec p i) as [->|Hne].
  - intros [= <-]. exists adv. exact E.
  - apply IH.
Qed.

(* wherever the port returns a code point, it is the one Lua returns (the port decodes from the start of
   the string and therefore stops on malformed bytes BEFORE position i, where Lua still answers) *)
Lemma codepoint_eq_lua_partial s i strict c : in_i64 i -> slen s <= maxint ->
  nl_utf8codepoint s i strict = Val c -> lua_utf8codepoint s i strict = LVal c.
Proof.
  intros Hi Hs. pose proof (slen_nonneg s) as H0.
  unfold nl_utf8codepoint, lua_utf8codepoint.
  destruct (utf8relpos_eq_lua i (slen s) Hi ltac:(lia)) as [Hiff Heq].
  destruct (Z.leb_spec 0 (nl_utf8relpos i (slen s))) as [Hge|Hlt]; cbn [andb]; [|discriminate].
  destruct (Z.ltb_spec (nl_utf8relpos i (slen s)) (slen s)) as [Hlt|Hge2]; [|discriminate].
  intros H. apply cp_loop_val in H. destruct H as (n & Hd).
  specialize (Heq Hge). apply Hiff in Hge.
  destruct (Z.ltb_spec (lua_u_posrelat i (slen s)) 1); [lia|].
  destruct (Z.ltb_spec (slen s) (lua_u_posrelat i (slen s))); [lia|].
  rewrite <- decode_eq_lua. rewrite <- Heq. rewrite Hd. reflexivity.
Qed.

(* memory safety (after 6fefee4): every decode starts inside the string *)
Lemma cp_loop_safe k : forall s len i p strict, i < len -> nl_cp_loop k s len i p strict <> Unsafe.
Proof.
  induction k as [|k IH]; intros s len i p strict Hi; cbn [nl_cp_loop]; [discriminate|].
  destruct (Z.ltb_spec i p); [discriminate|]. destruct (Z.ltb_spec len p); [lia|].
  destruct (nl_utf8decode (skipn (Z.to_nat p) s) strict) as [[code adv]|]; [|discriminate].
  destruct (p =? i); [discriminate|]. apply IH. exact Hi.
Qed.

Lemma codepoint_memory_safe s i strict : nl_utf8codepoint s i strict <> Unsafe.
Proof.
  unfold nl_utf8codepoint.
  destruct (Z.leb_spec 0 (nl_utf8relpos i (slen s))); cbn [andb]; [|discriminate].
  destruct (Z.ltb_spec (nl_utf8relpos i (slen s)) (slen s)); [|discriminate].
  apply cp_loop_safe. assumption.
Qed.

(* ---- utf8.len ---- *)
Lemma posrelat_nonneg pos len : in_i64 pos -> 0 <= len -> 0 <= lua_u_posrelat pos len.
Proof.
  intros Hp Hl. unfold lua_u_posrelat, u64, two64, in_i64, minint, maxint, two63 in *.
  destruct (Z.leb_spec 0 pos); [lia|].
  destruct (Z.ltb_spec len ((0 - pos mod 18446744073709551616) mod 18446744073709551616)); lia.
Qed.

Lemma len_loop_ext d1 d2 : (forall b, d1 b = d2 b) ->
  forall f s i j n, len_loop d1 f s i j n = len_loop d2 f s i j n.
Proof.
  intros He. induction f as [|f IH]; intros s i j n; [reflexivity|]. cbn [len_loop].
  destruct (j <? i); [reflexivity|]. rewrite He. destruct (d2 (skipn (Z.to_nat i) s)) as [[c a]|]; [apply IH|reflexivity].
Qed.

Lemma len_loop_empty d f s i j j' n : j < i -> j' < i -> len_loop d (S f) s i j n = len_loop d (S f) s i j' n.
Proof.
  intros H1 H2. cbn [len_loop]. destruct (Z.ltb_spec j i); [|lia]. destruct (Z.ltb_spec j' i); [|lia]. reflexivity.
Qed.

(* utf8.len: the same count / the same failing position where Lua returns, a stop where Lua raises *)
Lemma utf8len_eq_lua s i j strict : in_i64 i -> in_i64 j -> slen s <= maxint ->
  match lua_utf8len s i j strict with
  | LVal r => nl_utf8len s i j strict = Val r
  | LErr => nl_utf8len s i j strict = Trap
  end.
Proof.
  intros Hi Hj Hs. pose proof (slen_nonneg s) as H0.
  unfold lua_utf8len, nl_utf8len.
  destruct (utf8relpos_eq_lua i (slen s) Hi ltac:(lia)) as [Hiffi Heqi].
  destruct (utf8relpos_eq_lua j (slen s) Hj ltac:(lia)) as [Hiffj Heqj].
  set (pi := lua_u_posrelat i (slen s)) in *. set (pj := lua_u_posrelat j (slen s)) in *.
  set (ni := nl_utf8relpos i (slen s)) in *. set (nj := nl_utf8relpos j (slen s)) in *.
  assert (Hpj : 0 <= pj) by (subst pj; apply posrelat_nonneg; [exact Hj|lia]).
  destruct (Z.leb_spec 1 pi) as [H1|H1]; cbn [andb negb].
  - apply Hiffi in H1. specialize (Heqi H1).
    destruct (Z.leb_spec 0 ni); [|lia]. cbn [andb].
    rewrite <- Heqi. destruct (Z.leb_spec ni (slen s)); cbn [negb]; [|reflexivity].
    destruct (Z.leb_spec 0 nj) as [Hnj|Hnj].
    + specialize (Heqj Hnj). rewrite <- Heqj.
      destruct (Z.ltb_spec nj (slen s)); cbn [negb]; [|reflexivity].
      reflexivity.
    + assert (pj - 1 < 0) by (destruct (Z.le_gt_cases 1 pj) as [Hx|Hx]; [apply Hiffj in Hx; lia|lia]).
      destruct (Z.ltb_spec nj (slen s)); [|lia]. destruct (Z.ltb_spec (pj - 1) (slen s)); [|lia]. cbn [negb].
      f_equal. apply (len_loop_empty (fun b => lua_utf8decode b strict)); lia.
  - assert (Hni : ni < 0) by (destruct (Z.le_gt_cases 0 ni) as [Hx|Hx]; [apply Hiffi in Hx; lia|lia]).
    destruct (Z.leb_spec 0 ni); [lia|]. reflexivity.
Qed.


(* ---- utf8.codes ---- *)
Lemma dec_loop_count f : forall s c res count c' res' count',
  dec_loop f s c res count = Dec c' res' count' -> count <= count'.
Proof.
  induction f as [|f IH]; intros s c res count c' res' count'; cbn [dec_loop]; [discriminate|].
  destruct (Z.land c 64 =? 0); [intros [= <- <- <-]; lia|].
  destruct (negb _); [discriminate|]. intros H. apply IH in H. lia.
Qed.

Lemma decode_adv_pos s strict c a : nl_utf8decode s strict = Some (c, a) -> 1 <= a.
Proof.
  unfold nl_utf8decode, utf8_decode_gen. cbn zeta.
  destruct (nth 0 s 0 <? 128).
  - destruct (strict && _); [discriminate|]. intros [= <- <-]. lia.
  - destruct (dec_loop 9 s (nth 0 s 0) 0 0) as [c' res count| |] eqn:E; try discriminate.
    apply dec_loop_count in E.
    destruct (_ || _); [discriminate|]. destruct (strict && _); [discriminate|]. intros [= <- <-]. lia.
Qed.

Lemma rd_beyond s k : slen s <= k -> iscont (rd s k) = false.
Proof.
  intros H. unfold rd. rewrite nth_overflow by (unfold slen in H; lia). reflexivity.
Qed.

(* one step of the iterator (after 6daceda): same position and code point, same end, same error.
   For the first step (i = 0) the subject must not start with a continuation byte: Lua's iter_codes has
   already raised an error on such a subject, and the port's first step raises too (next lemma). *)
Lemma codes_step_eq_lua s i strict : 0 <= i <= slen s -> slen s <= maxint ->
  (i = 0 -> iscont (rd s 0) = false) ->
  nl_codes_step s i strict = lua_codes_step s i strict.
Proof.
  intros Hi Hs H0. unfold nl_codes_step, lua_codes_step.
  rewrite (u64_small i) by (unfold maxint, two63, two64 in *; lia).
  assert (Hn : (if i - 1 <? 0 then 0 else if i - 1 <? slen s then skip_cont (S (length s)) s (i - 1 + 1) else i - 1) =
               (if i <? slen s then skip_cont (S (length s)) s i else i) \/
               (i = slen s /\ 1 <= i)).
  { destruct (Z.ltb_spec (i - 1) 0).
    - assert (i = 0) by lia. subst i. left. destruct (Z.ltb_spec 0 (slen s)); [|reflexivity].
      cbn [skip_cont]. rewrite (H0 eq_refl). reflexivity.
    - destruct (Z.ltb_spec i (slen s)).
      + destruct (Z.ltb_spec (i - 1) (slen s)); [|lia]. left. f_equal. lia.
      + right. lia. }
  destruct Hn as [-> | [Hlen Hpos]].
  - set (n := if i <? slen s then skip_cont (S (length s)) s i else i).
    destruct (slen s <=? n); [reflexivity|].
    destruct (nl_utf8decode (skipn (Z.to_nat n) s) strict) as [[code adv]|] eqn:E;
      change (lua_utf8decode (skipn (Z.to_nat n) s) strict) with (nl_utf8decode (skipn (Z.to_nat n) s) strict); rewrite E; [|reflexivity].
    destruct (Z.leb_spec (slen s) (n + adv)); cbn [orb negb].
    + rewrite rd_beyond by assumption. reflexivity.
    + destruct (iscont (rd s (n + adv))); reflexivity.
  - (* i = #s: nothing left, in both *)
    destruct (Z.ltb_spec (i - 1) 0); [lia|]. destruct (Z.ltb_spec (i - 1) (slen s)); [|lia].
    destruct (Z.ltb_spec i (slen s)); [lia|].
    replace (i - 1 + 1) with i by lia.
    assert (Hsk : skip_cont (S (length s)) s i = i).
    { cbn [skip_cont]. rewrite rd_beyond by lia. reflexivity. }
    rewrite Hsk. destruct (Z.leb_spec (slen s) i); [reflexivity|lia].
Qed.

(* a subject that starts with a continuation byte: the port's first step raises (Lua raises in utf8.codes itself) *)
Definition cont_shape (c : Z) : bool := implb (Z.land c 192 =? 128) (negb (c <? 128) && (Z.land c 64 =? 0)).
Lemma cont_shape_all : forallb cont_shape all_bytes = true.
Proof. vm_compute. reflexivity. Qed.

Lemma codes_first_cont s strict : 0 < slen s -> 0 <= rd s 0 < 256 -> iscont (rd s 0) = true ->
  nl_codes_step s 0 strict = StepErr.
Proof.
  intros Hl Hb Hc. unfold nl_codes_step. change (0 - 1 <? 0) with true. cbn iota.
  destruct (Z.leb_spec (slen s) 0); [lia|]. change (Z.to_nat 0) with 0%nat. cbn [skipn].
  assert (E : nl_utf8decode s strict = None).
  { unfold nl_utf8decode, utf8_decode_gen. cbn zeta. unfold rd, iscont in *. change (Z.to_nat 0) with 0%nat in *.
    set (c := nth 0 s 0) in *.
    pose proof (forall_bytes _ cont_shape_all c Hb) as Hs. unfold cont_shape in Hs. rewrite Hc in Hs. cbn [implb] in Hs.
    apply andb_true_iff in Hs. destruct Hs as [E1 E2]. apply negb_true_iff in E1. apply Z.eqb_eq in E2.
    rewrite E1. cbn [dec_loop]. rewrite E2. cbn [Z.eqb].
    change (nth (Z.to_nat 0) NL_UTF8_LIMITS 0) with 4294967295.
    rewrite land127. change (0 * 5) with 0. rewrite Z.shiftl_0_r.
    assert (Hm : 0 <= c mod 128 < 128) by (apply Z.mod_pos_bound; lia).
    unfold u32. rewrite (Z.mod_small (c mod 128)) by (unfold two32; lia). rewrite Z.lor_0_l.
    destruct (5 <? 0); [reflexivity|]. cbn [orb].
    destruct (NL_MAXUTF <? c mod 128); [reflexivity|]. cbn [orb].
    destruct (Z.ltb_spec (c mod 128) 4294967295); [reflexivity|lia]. }
  rewrite E. reflexivity.
Qed.

(* ---- utf8.offset ---- *)
Lemma offset_core_guard s len p n : len = slen s -> 0 <= p <= len ->
  offset_core true s len p n = offset_core false s len p n.
Proof.
  intros -> Hp. unfold offset_core. destruct (n =? 0); [reflexivity|].
  destruct (Z.eqb_spec p (slen s)) as [->|]; [|reflexivity].
  cbn [negb andb]. rewrite rd_beyond by lia. reflexivity.
Qed.

(* same position, same "no such character" (-1 for nil), a stop exactly where Lua raises *)
Lemma utf8offset_eq_lua s n i : in_i64 i -> slen s <= maxint ->
  match lua_utf8offset s n i with
  | LVal (Some v) => nl_utf8offset s n i = Val v
  | LVal None => nl_utf8offset s n i = Val (-1)
  | LErr => nl_utf8offset s n i = Trap
  end.
Proof.
  intros Hi Hs. pose proof (slen_nonneg s) as H0. unfold lua_utf8offset, nl_utf8offset.
  destruct (utf8relpos_eq_lua i (slen s) Hi ltac:(lia)) as [Hiff Heq].
  set (pi := lua_u_posrelat i (slen s)) in *. set (ni := nl_utf8relpos i (slen s)) in *.
  destruct (Z.leb_spec 1 pi) as [H1|H1]; cbn [andb negb].
  - apply Hiff in H1. specialize (Heq H1). destruct (Z.leb_spec 0 ni); [|lia]. cbn [andb]. rewrite <- Heq.
    destruct (Z.leb_spec ni (slen s)); cbn [negb]; [|reflexivity].
    rewrite offset_core_guard by (auto; lia).
    destruct (offset_core false s (slen s) ni n) as [[v|]|]; reflexivity.
  - assert (ni < 0) by (destruct (Z.le_gt_cases 0 ni) as [Hx|Hx]; [apply Hiff in Hx; lia|lia]).
    destruct (Z.leb_spec 0 ni); [lia|]. reflexivity.
Qed.

(* ---- the fuel of utf8.len is never what ends it ---- *)
Lemma len_loop_no_fuel dec s : (forall b v adv, dec b = Some (v, adv) -> 1 <= adv) ->
  forall fuel i j n, j - i + 1 < Z.of_nat fuel -> (0 < fuel)%nat -> len_loop dec fuel s i j n <> LenFuel.
Proof.
  intros Hadv. induction fuel as [|f IH]; intros i j n Hf Hpos; [lia|]. cbn [len_loop].
  destruct (Z.ltb_spec j i); [discriminate|].
  destruct (dec (skipn (Z.to_nat i) s)) as [[v adv]|] eqn:E; [|discriminate].
  apply Hadv in E. apply IH; lia.
Qed.

Lemma utf8len_no_fuel s i j strict r : in_i64 i -> in_i64 j -> slen s <= maxint ->
  nl_utf8len s i j strict = Val r -> r <> LenFuel.
Proof.
  intros Hi Hj Hs. pose proof (slen_nonneg s) as H0. unfold nl_utf8len.
  set (i0 := nl_utf8relpos i (slen s)). set (j0 := nl_utf8relpos j (slen s)).
  assert (Hadv : forall b v adv, nl_utf8decode b strict = Some (v, adv) -> 1 <= adv)
    by (intros b v adv Hd; exact (decode_adv_pos b strict v adv Hd)).
  pose proof (len_loop_no_fuel (fun b => nl_utf8decode b strict) s Hadv (S (S (length s))) i0 j0 0) as NF.
  set (L := len_loop (fun b => nl_utf8decode b strict) (S (S (length s))) s i0 j0 0) in *.
  destruct (Z.leb_spec 0 i0); cbn [andb negb]; [|discriminate].
  destruct (Z.leb_spec i0 (slen s)); cbn [negb]; [|discriminate].
  destruct (Z.ltb_spec j0 (slen s)); cbn [negb]; [|discriminate].
  intros E. assert (R : r = L) by congruence. rewrite R. apply NF; unfold slen in *; lia.
Qed.
