(* C13 (e) - proofs: utf8esc / utf8decode round trip for every code point up to 0x7FFFFFFF, strict-mode
   rejections, the port's tables against Lua's *)
From C13 Require Import Model ModelUtf8 ModelPack ProofsIdx ProofsPack.
Local Open Scope Z_scope.

(* ---- bit operations as arithmetic ---- *)
Lemma land63 z : Z.land z 63 = z mod 64.
Proof. change 63 with (Z.ones 6). rewrite Z.land_ones by lia. reflexivity. Qed.
Lemma land127 z : Z.land z 127 = z mod 128.
Proof. change 127 with (Z.ones 7). rewrite Z.land_ones by lia. reflexivity. Qed.
Lemma shiftr6 z : Z.shiftr z 6 = z / 64.
Proof. rewrite Z.shiftr_div_pow2 by lia. reflexivity. Qed.
Lemma shiftr1 z : Z.shiftr z 1 = z / 2.
Proof. rewrite Z.shiftr_div_pow2 by lia. reflexivity. Qed.

Lemma land64_test z : 0 <= z -> (Z.land z 64 =? 0) = ((z / 64) mod 2 =? 0).
Proof.
  intros Hz.
  assert (E : Z.land z 64 = Z.b2z (Z.testbit z 6) * 64).
  { apply Z.bits_inj'. intros i Hi. rewrite Z.land_spec. change 64 with (2 ^ 6).
    rewrite Z.pow2_bits_eqb by lia.
    destruct (Z.testbit z 6) eqn:E6; cbn [Z.b2z].
    - rewrite Z.mul_1_l. rewrite Z.pow2_bits_eqb by lia.
      destruct (Z.eqb_spec 6 i) as [<-|]; [rewrite E6; reflexivity|apply andb_false_r].
    - rewrite Z.mul_0_l, Z.bits_0. destruct (Z.eqb_spec 6 i) as [<-|]; [rewrite E6; reflexivity|apply andb_false_r]. }
  rewrite E. rewrite <- (Z.testbit_spec' z 6) by lia. change (2 ^ 6) with 64.
  destruct (Z.testbit z 6); reflexivity.
Qed.

Lemma cont_byte_val x : 0 <= x -> cont_byte x = 128 + x mod 64.
Proof.
  intros Hx. unfold cont_byte. rewrite land63.
  change 128 with (2 * 2 ^ 6). apply lor_disjoint; try lia. change (2 ^ 6) with 64. lia.
Qed.

Definition lead_ok (mfb : Z) : bool :=
  forallb (fun x => lead_byte mfb x =? 254 - 2 * mfb + x) (map Z.of_nat (seq 0 (Z.to_nat mfb + 1))).

Lemma lead_byte_val mfb x : In mfb [31; 15; 7; 3; 1] -> 0 <= x <= mfb -> lead_byte mfb x = 254 - 2 * mfb + x.
Proof.
  intros Hin Hx.
  assert (H : lead_ok mfb = true).
  { cbn [In] in Hin. destruct Hin as [<-|[<-|[<-|[<-|[<-|[]]]]]]; vm_compute; reflexivity. }
  unfold lead_ok in H. rewrite forallb_forall in H.
  specialize (H x). apply Z.eqb_eq. apply H. apply in_map_iff. exists (Z.to_nat x). split; [lia|].
  apply in_seq. lia.
Qed.

(* continuation bytes: test and payload *)
Definition cont_ok (v : Z) : bool := (Z.land (128 + v) 192 =? 128).
Lemma cont_test v : 0 <= v < 64 -> Z.land (128 + v) 192 = 128 /\ Z.land (128 + v) 63 = v.
Proof.
  intros Hv. split.
  - assert (H : forallb cont_ok (map Z.of_nat (seq 0 64)) = true) by (vm_compute; reflexivity).
    rewrite forallb_forall in H. apply Z.eqb_eq. apply (H v).
    apply in_map_iff. exists (Z.to_nat v). split; [lia|]. apply in_seq. lia.
  - rewrite land63. lia.
Qed.

Lemma acc6 res v : 0 <= res -> 0 <= v < 64 -> res * 64 + v < two32 ->
  u32 (Z.lor (u32 (Z.shiftl res 6)) v) = res * 64 + v.
Proof.
  intros Hr Hv Hb. rewrite Z.shiftl_mul_pow2 by lia. change (2 ^ 6) with 64 in *.
  unfold u32 at 2. rewrite Z.mod_small by (unfold two32 in *; lia).
  change 64 with (2 ^ 6). rewrite lor_disjoint by (try lia; change (2 ^ 6) with 64; lia).
  change (2 ^ 6) with 64. unfold u32. apply Z.mod_small. unfold two32 in *. lia.
Qed.

(* ---- one step of each loop ---- *)
Lemma esc_step f x mfb acc : 0 <= x ->
  esc_loop (S f) x mfb acc =
  if x / 64 <=? mfb / 2 then Some (lead_byte (mfb / 2) (x / 64) :: (128 + x mod 64) :: acc)
  else esc_loop f (x / 64) (mfb / 2) ((128 + x mod 64) :: acc).
Proof. intros Hx. cbn [esc_loop]. rewrite shiftr6, shiftr1, cont_byte_val by exact Hx. reflexivity. Qed.

Lemma dec_step_go f s c res count v : 0 <= c < two32 / 2 -> (c / 64) mod 2 = 1 ->
  nth (Z.to_nat (count + 1)) s 0 = 128 + v -> 0 <= v < 64 -> 0 <= res -> res * 64 + v < two32 ->
  dec_loop (S f) s c res count = dec_loop f s (c * 2) (res * 64 + v) (count + 1).
Proof.
  intros Hc Hbit Hnth Hv Hr Hb. cbn [dec_loop].
  rewrite land64_test by lia. rewrite Hbit. cbn [Z.eqb]. rewrite Hnth.
  destruct (cont_test v Hv) as [E1 E2]. rewrite E1, E2. cbn [Z.eqb Pos.eqb negb].
  rewrite acc6 by assumption.
  rewrite Z.shiftl_mul_pow2 by lia. change (2 ^ 1) with 2. unfold u32. rewrite Z.mod_small by (unfold two32 in *; lia).
  reflexivity.
Qed.

Lemma dec_step_stop f s c res count : 0 <= c -> (c / 64) mod 2 = 0 ->
  dec_loop (S f) s c res count = Dec c res count.
Proof. intros Hc Hbit. cbn [dec_loop]. rewrite land64_test by lia. rewrite Hbit. reflexivity. Qed.

(* final combination  res | ((c & 0x7F) << (count*5)) *)
Lemma final_or res c k : 0 <= res < 2 ^ k -> 0 <= c -> 0 <= k -> (c mod 128) * 2 ^ k < two32 ->
  Z.lor res (u32 (Z.shiftl (Z.land c 127) k)) = (c mod 128) * 2 ^ k + res.
Proof.
  intros Hr Hc Hk Hb. rewrite land127, Z.shiftl_mul_pow2 by lia.
  unfold u32. rewrite Z.mod_small by (split; [apply Z.mul_nonneg_nonneg; [lia|apply Z.pow_nonneg; lia]|exact Hb]).
  rewrite Z.lor_comm. apply lor_disjoint; lia.
Qed.

(* ---- the encoder, by number of bytes ---- *)
Lemma esc1 x : 0 <= x < 128 -> utf8esc x = Some [x].
Proof. intros H. unfold utf8esc. destruct (Z.ltb_spec x 128); [reflexivity|lia]. Qed.

Ltac esc_go :=
  rewrite esc_step by lia;
  match goal with |- context [?a <=? ?b] => let v := eval vm_compute in b in change b with v end;
  match goal with |- context [?a <=? ?b] => destruct (Z.leb_spec a b); [try lia|try lia] end.

Lemma esc2 x : 128 <= x < 2048 -> utf8esc x = Some [192 + x / 64; 128 + x mod 64].
Proof.
  intros H. unfold utf8esc. destruct (Z.ltb_spec x 128); [lia|].
  esc_go. change (63 / 2) with 31. rewrite lead_byte_val by (cbn; auto || lia). f_equal.
Qed.

Lemma esc3 x : 2048 <= x < 65536 ->
  utf8esc x = Some [224 + x / 64 / 64; 128 + (x / 64) mod 64; 128 + x mod 64].
Proof.
  intros H. unfold utf8esc. destruct (Z.ltb_spec x 128); [lia|].
  esc_go. esc_go. change (63 / 2 / 2) with 15. rewrite lead_byte_val by (cbn; auto || lia). f_equal.
Qed.

Lemma esc4 x : 65536 <= x < 2097152 ->
  utf8esc x = Some [240 + x / 64 / 64 / 64; 128 + (x / 64 / 64) mod 64; 128 + (x / 64) mod 64; 128 + x mod 64].
Proof.
  intros H. unfold utf8esc. destruct (Z.ltb_spec x 128); [lia|].
  esc_go. esc_go. esc_go. change (63 / 2 / 2 / 2) with 7. rewrite lead_byte_val by (cbn; auto || lia). f_equal.
Qed.

Lemma esc5 x : 2097152 <= x < 67108864 ->
  utf8esc x = Some [248 + x / 64 / 64 / 64 / 64; 128 + (x / 64 / 64 / 64) mod 64; 128 + (x / 64 / 64) mod 64;
                    128 + (x / 64) mod 64; 128 + x mod 64].
Proof.
  intros H. unfold utf8esc. destruct (Z.ltb_spec x 128); [lia|].
  esc_go. esc_go. esc_go. esc_go. change (63 / 2 / 2 / 2 / 2) with 3. rewrite lead_byte_val by (cbn; auto || lia). f_equal.
Qed.

Lemma esc6 x : 67108864 <= x <= 2147483647 ->
  utf8esc x = Some [252 + x / 64 / 64 / 64 / 64 / 64; 128 + (x / 64 / 64 / 64 / 64) mod 64; 128 + (x / 64 / 64 / 64) mod 64;
                    128 + (x / 64 / 64) mod 64; 128 + (x / 64) mod 64; 128 + x mod 64].
Proof.
  intros H. unfold utf8esc. destruct (Z.ltb_spec x 128); [lia|].
  esc_go. esc_go. esc_go. esc_go. esc_go. change (63 / 2 / 2 / 2 / 2 / 2) with 1.
  rewrite lead_byte_val by (cbn; auto || lia). f_equal.
Qed.
