(* Property C13: the library functions that carry Lua names agree with Lua 5.4.
   Only the property theorems, each closed by [exact] of a lemma and followed by Print Assumptions.
   [lua_*] = reference (lstrlib.c / lutf8lib.c / lmathlib.c / lvm.c), [nl_*] = Nelua's port. *)
From C13 Require Import Model ModelDrv ModelPack ModelUtf8 ModelPat ModelPatG ModelPackFmt ModelFmt ModelPackDrv ProofsIdx ProofsOrd ProofsDrv ProofsPack ProofsUtf8 ProofsPat ProofsPatFuel ProofsPatReads ProofsPackFmt ProofsFmt ProofsFmtDef ProofsFmtBound ProofsFuel ProofsPackDrv.
Local Open Scope Z_scope.

(* ---- (a) index normalisation ---- *)
Theorem C13_sub_eq_lua : forall s i j, in_i64 i -> in_i64 j -> slen s <= maxint ->
  nl_sub s i j = lua_sub s i j.
Proof. exact sub_eq_lua. Qed.
Print Assumptions C13_sub_eq_lua.

Theorem C13_find_init_eq_lua : forall init len, in_i64 init -> 0 <= len <= maxint ->
  nl_find_init init len = lua_find_init init len.
Proof. exact find_init_eq_lua. Qed.
Print Assumptions C13_find_init_eq_lua.

Theorem C13_byte_eq_lua : forall s i, in_i64 i -> slen s <= maxint ->
  match nl_byte s i with
  | Val b => if slen s =? 0 then b = 0 /\ lua_byte s i = None else lua_byte s i = Some b
  | Trap => lua_byte s i = None
  | Unsafe => False
  end.
Proof. exact byte_eq_lua. Qed.
Print Assumptions C13_byte_eq_lua.

(* ---- (c) rep / reverse / upper / lower / classes ---- *)
Theorem C13_rep_eq_lua_partial : forall s n r, in_i64 n -> slen s <= maxint ->
  lua_rep s n [] = LVal r -> nl_rep s n = Val r.
Proof. exact rep_eq_lua. Qed.
Print Assumptions C13_rep_eq_lua_partial.

Theorem C13_rep_sep_eq_lua_partial : forall s n sep r, in_i64 n -> slen s <= maxint -> slen sep <= maxint ->
  lua_rep s n sep = LVal r -> nl_rep_sep s n sep = Val r.
Proof. exact rep_sep_eq_lua. Qed.
Print Assumptions C13_rep_sep_eq_lua_partial.

(* string.rep never writes outside its buffer (after b10c461, c3dc3fb): full strength, with and without separator *)
Theorem C13_rep_memory_safe : forall s n, nl_rep s n <> Unsafe.
Proof. exact rep_memory_safe. Qed.
Print Assumptions C13_rep_memory_safe.

Theorem C13_rep_sep_memory_safe : forall s n sep, slen s <= maxint -> slen sep <= maxint -> nl_rep_sep s n sep <> Unsafe.
Proof. exact rep_sep_memory_safe. Qed.
Print Assumptions C13_rep_sep_memory_safe.

Theorem C13_reverse_eq_lua : forall s, nl_reverse s = lua_reverse s.
Proof. exact reverse_eq_lua. Qed.
Print Assumptions C13_reverse_eq_lua.

Theorem C13_strchar_eq_clocale : forall c, 0 <= c < 256 ->
  sc_toupper c mod 256 = c_toupper c /\ sc_tolower c mod 256 = c_tolower c /\
  sc_isalpha c = c_isalpha c /\ sc_islower c = c_islower c /\ sc_isupper c = c_isupper c /\
  sc_isdigit c = c_isdigit c /\ sc_isxdigit c = c_isxdigit c /\ sc_iscntrl c = c_iscntrl c /\
  sc_isgraph c = c_isgraph c /\ sc_isspace c = c_isspace c /\ sc_isalnum c = c_isalnum c /\
  sc_ispunct c = c_ispunct c.
Proof. exact strchar_eq_clocale. Qed.
Print Assumptions C13_strchar_eq_clocale.

Theorem C13_upper_eq_lua : forall s, is_bytes s = true -> nl_upper s = lua_upper s.
Proof. exact upper_eq_lua. Qed.
Print Assumptions C13_upper_eq_lua.

Theorem C13_lower_eq_lua : forall s, is_bytes s = true -> nl_lower s = lua_lower s.
Proof. exact lower_eq_lua. Qed.
Print Assumptions C13_lower_eq_lua.

(* ---- (g) math, integer cases ---- *)
Theorem C13_abs_eq_lua : forall n, in_i64 n -> nl_abs n = lua_abs n.
Proof. exact abs_eq_lua. Qed.
Print Assumptions C13_abs_eq_lua.

Theorem C13_fmod_eq_lua : forall x y, in_i64 x -> in_i64 y ->
  match lua_fmod x y with
  | LVal v => nl_fmod x y = Val v
  | LErr => nl_fmod x y = Trap
  end.
Proof. exact fmod_eq_lua. Qed.
Print Assumptions C13_fmod_eq_lua.

Theorem C13_fmod_never_unsafe : forall x y, nl_fmod x y <> Unsafe.
Proof. exact fmod_never_unsafe. Qed.
Print Assumptions C13_fmod_never_unsafe.

(* ---- (b) string order: Lua's l_strcmp (strcoll chunks between embedded NULs, C locale) ---- *)
Theorem C13_lua_strcmp_eq_lex : forall a b, l_strcmp (S (length a)) a b = Some (lex_cmp a b).
Proof. exact lua_strcmp_eq_lex. Qed.
Print Assumptions C13_lua_strcmp_eq_lex.

Theorem C13_strlt_eq_lua : forall a b, lua_strlt a b = Some (nl_strlt a b).
Proof. exact strlt_eq_lua. Qed.
Print Assumptions C13_strlt_eq_lua.

Theorem C13_strle_eq_lua : forall a b, lua_strle a b = Some (nl_strle a b).
Proof. exact strle_eq_lua. Qed.
Print Assumptions C13_strle_eq_lua.

Theorem C13_streq_iff : forall a b, nl_streq a b = true <-> a = b.
Proof. exact streq_iff. Qed.
Print Assumptions C13_streq_iff.

Theorem C13_strle_total_preorder :
  (forall a, nl_strle a a = true) /\
  (forall a b c, nl_strle a b = true -> nl_strle b c = true -> nl_strle a c = true) /\
  (forall a b, nl_strle a b = true \/ nl_strle b a = true) /\
  (forall a b, nl_strle a b = true -> nl_strle b a = true -> a = b) /\
  (forall a b, nl_strlt a b = negb (nl_strle b a)).
Proof.
  exact (conj strle_refl (conj strle_trans (conj strle_total (conj strle_antisym strlt_strict)))).
Qed.
Print Assumptions C13_strle_total_preorder.

(* ---- (d) drivers around an arbitrary anchored matcher ---- *)
Theorem C13_find_search_eq_lua : forall s m anchor init, init <= slen s ->
  nl_ms_match s m anchor init = lua_do_search s m anchor init.
Proof. exact find_search_eq_lua. Qed.
Print Assumptions C13_find_search_eq_lua.

Theorem C13_gsub_eq_lua : forall (m : matcher) (s repl : bytes) (anchor : bool) (maxn : Z),
  (forall p e c, m p = Some (e, c) -> p <= e <= slen s) ->
  nl_gsub m s repl anchor maxn = lua_gsub m s repl anchor maxn /\ lua_gsub m s repl anchor maxn <> None.
Proof. exact gsub_eq_lua_gen. Qed.
Print Assumptions C13_gsub_eq_lua.

(* string.gmatch (after 0222fe3, 893bab4): the sequence of matches is Lua's, for every anchored matcher *)
Theorem C13_gmatch_eq_lua : forall (m : matcher) (s : bytes),
  (forall p e c, m p = Some (e, c) -> p <= e <= slen s) ->
  forall init, 0 <= init ->
  nl_gmatch m s init = lua_gmatch m s init /\ lua_gmatch m s init <> None.
Proof. exact gmatch_eq_lua_gen. Qed.
Print Assumptions C13_gmatch_eq_lua.

(* ---- (e) UTF-8 ---- *)
Theorem C13_utf8_roundtrip : forall x, 0 <= x <= 2147483647 ->
  exists bs, utf8esc x = Some bs /\ 1 <= slen bs <= 6 /\
             forall rest, nl_utf8decode (bs ++ rest) false = Some (x, slen bs).
Proof. exact utf8_roundtrip. Qed.
Print Assumptions C13_utf8_roundtrip.

Theorem C13_utf8_strict_spec : forall s,
  nl_utf8decode s true =
  match nl_utf8decode s false with
  | Some (code, n) => if (NL_MAXUNICODE <? code) || ((NL_SURR_LO <=? code) && (code <=? NL_SURR_HI)) then None else Some (code, n)
  | None => None
  end.
Proof. exact strict_decode_spec. Qed.
Print Assumptions C13_utf8_strict_spec.

Theorem C13_utf8_decode_eq_lua : forall s strict, nl_utf8decode s strict = lua_utf8decode s strict.
Proof. exact decode_eq_lua. Qed.
Print Assumptions C13_utf8_decode_eq_lua.

(* utf8.char (after e5d4eb9) *)
Theorem C13_utf8char_eq_lua : forall v, in_i64 v ->
  match lua_utf8char v with LVal b => nl_utf8char v = Val b | LErr => nl_utf8char v = Trap end.
Proof. exact utf8char_eq_lua. Qed.
Print Assumptions C13_utf8char_eq_lua.

Theorem C13_utf8relpos_eq_lua : forall pos len, in_i64 pos -> 0 <= len <= maxint ->
  (0 <= nl_utf8relpos pos len <-> 1 <= lua_u_posrelat pos len) /\
  (0 <= nl_utf8relpos pos len -> nl_utf8relpos pos len = lua_u_posrelat pos len - 1).
Proof. exact utf8relpos_eq_lua. Qed.
Print Assumptions C13_utf8relpos_eq_lua.

Theorem C13_codepoint_eq_lua_partial : forall s i strict c, in_i64 i -> slen s <= maxint ->
  nl_utf8codepoint s i strict = Val c -> lua_utf8codepoint s i strict = LVal c.
Proof. exact codepoint_eq_lua_partial. Qed.
Print Assumptions C13_codepoint_eq_lua_partial.

(* utf8.codepoint never reads outside the string (after 6fefee4) *)
Theorem C13_codepoint_memory_safe : forall s i strict, nl_utf8codepoint s i strict <> Unsafe.
Proof. exact codepoint_memory_safe. Qed.
Print Assumptions C13_codepoint_memory_safe.

(* utf8.len / utf8.offset / utf8.codes: the loops around the decoder *)
Theorem C13_utf8len_eq_lua : forall s i j strict, in_i64 i -> in_i64 j -> slen s <= maxint ->
  match lua_utf8len s i j strict with
  | LVal r => nl_utf8len s i j strict = Val r
  | LErr => nl_utf8len s i j strict = Trap
  end.
Proof. exact utf8len_eq_lua. Qed.
Print Assumptions C13_utf8len_eq_lua.

Theorem C13_utf8offset_eq_lua : forall s n i, in_i64 i -> slen s <= maxint ->
  match lua_utf8offset s n i with
  | LVal (Some v) => nl_utf8offset s n i = Val v
  | LVal None => nl_utf8offset s n i = Val (-1)
  | LErr => nl_utf8offset s n i = Trap
  end.
Proof. exact utf8offset_eq_lua. Qed.
Print Assumptions C13_utf8offset_eq_lua.

(* one step of the utf8.codes iterator; for the first step the subject must not start with a continuation
   byte (Lua has raised in utf8.codes itself on such a subject; the port raises in its first step) *)
Theorem C13_utf8codes_step_eq_lua : forall s i strict, 0 <= i <= slen s -> slen s <= maxint ->
  (i = 0 -> iscont (rd s 0) = false) ->
  nl_codes_step s i strict = lua_codes_step s i strict.
Proof. exact codes_step_eq_lua. Qed.
Print Assumptions C13_utf8codes_step_eq_lua.

Theorem C13_utf8codes_first_cont : forall s strict, 0 < slen s -> 0 <= rd s 0 < 256 -> iscont (rd s 0) = true ->
  nl_codes_step s 0 strict = StepErr.
Proof. exact codes_first_cont. Qed.
Print Assumptions C13_utf8codes_first_cont.

(* ---- (f) string.pack / unpack of sized integers ---- *)
Theorem C13_pack_unpack_int_roundtrip : forall a size little, 1 <= size <= 16 -> in_i64 a ->
  (size < 8 -> - 2 ^ (8 * size - 1) <= a < 2 ^ (8 * size - 1)) ->
  exists bs, nl_pack_int a size little = Val bs /\ nl_unpack_int bs size little true = Some a.
Proof. exact pack_unpack_int_roundtrip. Qed.
Print Assumptions C13_pack_unpack_int_roundtrip.

Theorem C13_pack_unpack_uint_roundtrip : forall a size little, 1 <= size <= 16 -> in_i64 a ->
  (size < 8 -> 0 <= a < 2 ^ (8 * size)) ->
  exists bs, nl_pack_uint a size little = Val bs /\ nl_unpack_int bs size little false = Some a.
Proof. exact pack_unpack_uint_roundtrip. Qed.
Print Assumptions C13_pack_unpack_uint_roundtrip.

(* string.pack of sized integers (after 333c294): Lua's bytes where Lua returns, a stop where Lua raises
   "integer overflow" / "unsigned overflow" *)
Theorem C13_pack_int_eq_lua : forall a size little, in_i64 a -> 1 <= size <= 16 ->
  match lua_pack_int a size little with
  | LVal r => nl_pack_int a size little = Val r
  | LErr => nl_pack_int a size little = Trap
  end.
Proof. exact pack_int_eq_lua. Qed.
Print Assumptions C13_pack_int_eq_lua.

Theorem C13_pack_uint_eq_lua : forall a size little, in_i64 a -> 1 <= size <= 16 ->
  match lua_pack_uint a size little with
  | LVal r => nl_pack_uint a size little = Val r
  | LErr => nl_pack_uint a size little = Trap
  end.
Proof. exact pack_uint_eq_lua. Qed.
Print Assumptions C13_pack_uint_eq_lua.

(* ---- (h) the pattern matcher itself ---- *)
(* [do_match] is ONE transcription of match() (lstrlib.c) / _match (strpatt.nelua), run under two configurations
   that differ in the recursion budget (MAXCCALLS = 200 / MAX_MATCH_CALLS = 32) and in the character classes
   (C locale <ctype.h> / strchar.nelua).  What is proved: with the port's classes and budget the transcription
   returns what it returns with Lua's (match and captures, no match, malformed-pattern error), or stops with the
   documented "pattern too complex" - never another value.  That both sources have the control flow of the
   transcription is NOT a theorem (no second, structurally separate model): it rests on the per-call
   correspondence with the compiled port and the real interpreter. *)
Theorem C13_match_eq_lua_within_budget : forall src pat p0 s, is_bytes src = true ->
  run_match nl_cfg src pat p0 s = MTooComplex \/ run_match nl_cfg src pat p0 s = run_match lua_cfg src pat p0 s.
Proof. exact match_eq_lua. Qed.
Print Assumptions C13_match_eq_lua_within_budget.

(* ... and it stops exactly when lstrlib.c's own algorithm would if MAXCCALLS were MAX_MATCH_CALLS: the port is
   Lua's matcher with the smaller budget, result for result *)
Theorem C13_match_is_lua_with_small_budget : forall src pat p0 s, is_bytes src = true ->
  run_match nl_cfg src pat p0 s = run_match lua_small_cfg src pat p0 s.
Proof. exact match_is_lua_with_small_budget. Qed.
Print Assumptions C13_match_is_lua_with_small_budget.

(* the budget is a DOCUMENTED LIMITATION of the port (MAX_MATCH_CALLS = 32 in strpatt.nelua, "pattern too complex"), not a
   defect: DESIGN 9.2.  That it really is narrower than Lua's: on 31 nested captures Lua's configuration finds the match,
   the port's stops.  (So the "= MTooComplex" disjunct of C13_match_eq_lua_within_budget cannot be dropped.) *)
Theorem C13_match_budget_is_a_limit :
  run_match nl_cfg [120] paren31 0 0 = MTooComplex /\
  exists caps, run_match lua_cfg [120] paren31 0 0 = MFound 1 caps.
Proof. exact match_budget_witness. Qed.
Print Assumptions C13_match_budget_is_a_limit.

(* a match that starts inside the subject ends at or after its start and inside the subject *)
Theorem C13_match_range : forall cfg src pat p0 pos e c,
  pat_matcher cfg src pat p0 pos = Some (e, c) -> pos <= e <= slen src.
Proof. exact pat_matcher_range. Qed.
Print Assumptions C13_match_range.

(* string.gsub on a real pattern (matcher + driver composed).  The drivers of ModelDrv.v take a matcher that can only
   say "match" or "no match here", so the statement is restricted (_partial) to patterns on which the port's matcher
   neither reports a malformed pattern nor exceeds its recursion budget at any position of the subject (fuel and
   MUnsafe are excluded by C13_match_fuel_never_exhausted / C13_match_never_unsafe).  Then: at every position both
   matchers give the same match or the same genuine failure, and gsub returns what Lua's gsub returns.  A malformed
   pattern is an error of gsub on both sides (C13_match_error_eq_lua; raised by the real code, by driver.ml in
   the model voice) and is outside this statement. *)
Theorem C13_gsub_pattern_eq_lua_partial : forall src pat repl anchor maxn p0, is_bytes src = true -> 0 <= p0 ->
  (forall pos, 0 <= pos <= slen src ->
     run_match nl_cfg src pat p0 pos <> MTooComplex /\ run_match nl_cfg src pat p0 pos <> MError) ->
  (forall pos, 0 <= pos <= slen src ->
     normal (run_match nl_cfg src pat p0 pos) /\ run_match lua_cfg src pat p0 pos = run_match nl_cfg src pat p0 pos) /\
  nl_gsub (pat_matcher nl_cfg src pat p0) src repl anchor maxn =
  lua_gsub (pat_matcher lua_cfg src pat p0) src repl anchor maxn /\
  lua_gsub (pat_matcher lua_cfg src pat p0) src repl anchor maxn <> None.
Proof. exact gsub_pattern_eq_lua_strict. Qed.
Print Assumptions C13_gsub_pattern_eq_lua_partial.

(* ---- (f) the pack format parser (string.packsize: options, sizes, '!' and 'X' alignment, the number reader) ----
   on every format (a byte string; Lua's own parser stops at a NUL, such formats are outside this statement
   because the reference gives an error on NUL): wherever lstrlib.c's parser returns a size, strpack.nelua
   returns the same size.  (The converse is false by design: the port also accepts 't'.) *)
Theorem C13_packsize_eq_lua_partial : forall fmt v, is_bytes fmt = true ->
  lua_packsize fmt = LVal v -> nl_packsize fmt = Val v.
Proof. exact packsize_eq_lua. Qed.
Print Assumptions C13_packsize_eq_lua_partial.

(* the padding: Nelua's (addr + align-1) & ~(align-1) in usize is Lua's total + ((align - (total & (align-1))) & (align-1)),
   with the same "not a power of 2" refusal *)
Theorem C13_pack_alignforward_eq_lua : forall total align maxalign,
  0 <= total <= LUA_MAXSIZE -> 1 <= maxalign <= 16 -> 0 <= align <= 16 ->
  let a := if maxalign <? align then maxalign else align in
  if align <=? 1 then nl_alignforward total align maxalign = Val total
  else if negb (Z.land a (a - 1) =? 0) then nl_alignforward total align maxalign = Trap
  else nl_alignforward total align maxalign = Val (total + Z.land (a - Z.land total (a - 1)) (a - 1)).
Proof. exact alignforward_eq_lua. Qed.
Print Assumptions C13_pack_alignforward_eq_lua.

(* ---- (g) string.format: integer, character and string conversions, %%, literal text ----
   [lua_format_cap NL_MAXFLAGS false] is lstrlib.c's str_format restricted to what the port documents: at most
   5 flag characters per item and no conversions p and q.  Wherever it returns a string, the port's
   string.format returns the same string: for every format, every list of integer and string arguments, every
   flag/width/precision combination Lua accepts, and every C formatter of floats [cfloat] (both sides hand the same
   specification and the same argument to the same C function; for d i u o x X c s that function is [c99_snprintf],
   ISO C99 7.21.6.1, which the correspondence runs against the real port and the real interpreter). *)
Theorem C13_format_eq_lua : forall cfloat fmt args out,
  lua_format_cap cfloat NL_MAXFLAGS false fmt args = LVal out -> nl_format cfloat fmt args = Val out.
Proof. exact format_eq_lua. Qed.
Print Assumptions C13_format_eq_lua.

(* ... and that restricted reference only ever returns what Lua's str_format returns *)
Theorem C13_format_restricted_is_lua : forall cfloat fmt args out,
  lua_format_cap cfloat NL_MAXFLAGS false fmt args = LVal out -> lua_format cfloat fmt args = LVal out.
Proof. exact format_cap_sub_lua. Qed.
Print Assumptions C13_format_restricted_is_lua.

(* the other direction: whatever the port's string.format returns, Lua's str_format returns the same string - the
   port never fabricates a value where Lua raises an error (after 768ceb2, 53b4816: the flags of each conversion,
   the precision, and zeros under a modified %s are checked as in Lua 5.4) *)
Theorem C13_format_val_is_lua : forall cfloat fmt args out,
  nl_format cfloat fmt args = Val out -> lua_format cfloat fmt args = LVal out.
Proof. exact format_val_is_lua. Qed.
Print Assumptions C13_format_val_is_lua.

(* both directions: the port returns a string exactly where Lua restricted to the port's documented limits does *)
Theorem C13_format_iff_restricted_lua : forall cfloat fmt args out,
  nl_format cfloat fmt args = Val out <-> lua_format_cap cfloat NL_MAXFLAGS false fmt args = LVal out.
Proof. exact format_iff_restricted_lua. Qed.
Print Assumptions C13_format_iff_restricted_lua.

(* the C model: "%lld" of an integer is its decimal text (the text %s and tostring give) *)
Theorem C13_c99_plain_d_is_decimal : forall v, in_i64 v ->
  c99_int {| f_minus := false; f_plus := false; f_space := false; f_hash := false; f_zero := false;
             c_width := 0; c_prec := None; c_ll := true; c_conv := 100 |} (u64 v) = decimal_of v.
Proof. exact c99_plain_d. Qed.
Print Assumptions C13_c99_plain_d_is_decimal.

(* ---- (h, continued) the matcher: fuel and positions ---- *)
(* the model's fuel is never the reason the matcher stops: every nested call and every `goto init` moves the
   pattern position forward, so the nesting never exceeds the pattern length; holds for Lua's and the port's
   configuration alike, whatever the recursion budget *)
Theorem C13_match_fuel_never_exhausted : forall cfg src pat p0 s, 0 <= s -> 0 <= p0 ->
  run_match cfg src pat p0 s <> MFuel.
Proof. exact run_match_no_fuel. Qed.
Print Assumptions C13_match_fuel_never_exhausted.

(* ... and the bounds of the six inner loops (class end, bracket class, %b, maximum expansion count, the two
   backtracking loops) are never what ends them: any larger bound gives the same result *)
Theorem C13_match_loop_bounds_adequate : forall cfg src pat,
  (forall n p, 0 <= p <= slen pat -> (length pat < n)%nat -> set_end pat (S (length pat)) p = set_end pat n p) /\
  (forall n c p ec sig, 0 <= p -> ec <= slen pat -> (length pat < n)%nat ->
     bracket_loop cfg pat (S (length pat)) c p ec sig = bracket_loop cfg pat n c p ec sig) /\
  (forall n s b e cont, 0 <= s -> (length src < n)%nat ->
     balance_loop src (S (length src)) s b e cont = balance_loop src n s b e cont) /\
  (forall n s p ep, 0 <= s -> (length src < n)%nat ->
     count_max cfg src pat (S (length src)) s p ep 0 = count_max cfg src pat n s p ep 0) /\
  (forall n call caps s0 ep p ep', 0 <= s0 -> (length src < n)%nat ->
     let i := count_max cfg src pat (S (length src)) s0 p ep' 0 in
     max_down call caps s0 ep (S (length src)) i = max_down call caps s0 ep n i) /\
  (forall n call caps ep p s1, 0 <= s1 -> (length src < n)%nat ->
     min_up (fun x => single_match cfg src pat x p ep) call caps ep (S (length src)) s1 =
     min_up (fun x => single_match cfg src pat x p ep) call caps ep n s1).
Proof. exact loop_bounds_adequate. Qed.
Print Assumptions C13_match_loop_bounds_adequate.

(* "never reads outside its arguments", at the granularity of match(): [do_match_inv] checks on EVERY entry of
   match() and every `goto init`, at any nesting depth, that the subject position is in [0, #subject], the
   pattern position in [0, #pattern] (the terminator), every capture starts at or before the current position
   and, once closed, ends inside the subject - and answers MUnsafe otherwise.  Started where find / match /
   gmatch / gsub start it, the check never fails: the checking matcher IS the matcher. *)
Theorem C13_match_positions_in_range : forall cfg src pat p0 s d, 0 <= s <= slen src -> 0 <= p0 <= slen pat ->
  do_match_inv cfg src pat (match_fuel src pat) d [] s p0 = do_match cfg src pat (match_fuel src pat) d [] s p0.
Proof. exact run_match_positions_in_range. Qed.
Print Assumptions C13_match_positions_in_range.

(* within one step: the byte after a single-character class (the optional suffix, pattern.data[ep]) is at most the
   terminator; the maximum expansion and %b stay inside the subject *)
Theorem C13_match_class_end_in_pattern : forall pat p ep, 0 <= p < plen pat -> class_end pat p = Some ep -> p < ep <= plen pat.
Proof. exact class_end_range. Qed.
Print Assumptions C13_match_class_end_in_pattern.

Theorem C13_match_expansion_in_subject : forall cfg src pat f s p ep i, s + i <= slen_ src ->
  s + count_max cfg src pat f s p ep i <= slen_ src.
Proof. exact count_max_le. Qed.
Print Assumptions C13_match_expansion_in_subject.

Theorem C13_match_balance_in_subject : forall src f s b e cont s', balance_loop src f s b e cont = Some s' -> s < s' <= slen_ src.
Proof. exact balance_range. Qed.
Print Assumptions C13_match_balance_in_subject.

(* ---- (f, continued) string.pack / string.unpack over a whole format ----
   for every list of options (sized integers i[n] I[n] b B h H l L j J T, strings s[n] z c[n], x, X, < > =, ![n]) and
   every list of values: whenever the port's pack succeeds (and the result is below 2 GiB), the port's unpack of the
   result with the same options, from position 1, returns the same values (a c[n] string padded with zeros to n
   bytes, as in Lua) and the position after the data + 1.  Covers the padding of pack against the padding of
   unpack, the length prefix of s[n], the terminator of z and the integer codec. *)
Theorem C13_pack_unpack_format_roundtrip : forall opts vals little out rest,
  forallb opt_ok opts = true -> forallb val_ok vals = true ->
  nl_pack_opts opts vals little 1 [] = Val (out, rest) -> slen out <= LUA_MAXSIZE ->
  nl_unpack_opts opts out 0 little 1 = Val (expected opts vals, slen out + 1).
Proof. exact pack_unpack_format_roundtrip0. Qed.
Print Assumptions C13_pack_unpack_format_roundtrip.

(* ---- string.find with plain = true: memory.find returns the first occurrence at or after the start, and
   reports none only when there is none in the range it scans (lstrlib.c lmemfind) ---- *)
Theorem C13_find_plain_first : forall s pat k pos st, plain_find k s pat pos = Some st ->
  pos <= st <= pos + Z.of_nat k /\ is_prefix pat (skipn (Z.to_nat st) s) = true /\
  forall j, pos <= j < st -> is_prefix pat (skipn (Z.to_nat j) s) = false.
Proof. exact plain_find_first. Qed.
Print Assumptions C13_find_plain_first.

Theorem C13_find_plain_none : forall s pat k pos, plain_find k s pat pos = None ->
  forall j, pos <= j <= pos + Z.of_nat k -> is_prefix pat (skipn (Z.to_nat j) s) = false.
Proof. exact plain_find_none. Qed.
Print Assumptions C13_find_plain_none.

(* a malformed pattern is reported by both matchers at the same position of the same subject *)
Theorem C13_match_error_eq_lua : forall src pat p0 s, is_bytes src = true ->
  run_match nl_cfg src pat p0 s = MError -> run_match lua_cfg src pat p0 s = MError.
Proof. exact match_error_eq_lua. Qed.
Print Assumptions C13_match_error_eq_lua.

(* the outcome "read outside the subject" is unreachable once the %f flag is off (as it is for Lua and, since
   ec5206d, for the port): no other branch of the matcher produces it *)
Theorem C13_match_never_unsafe : forall cfg src pat p0 s, cfg_front_prev_unsafe_on_empty cfg = false -> 0 <= s ->
  run_match cfg src pat p0 s <> MUnsafe.
Proof. exact run_match_no_unsafe. Qed.
Print Assumptions C13_match_never_unsafe.

(* utf8.len: the loop bound of the model is never what ends it *)
Theorem C13_utf8len_fuel_never_exhausted : forall s i j strict r, in_i64 i -> in_i64 j -> slen s <= maxint ->
  nl_utf8len s i j strict = Val r -> r <> LenFuel.
Proof. exact utf8len_no_fuel. Qed.
Print Assumptions C13_utf8len_fuel_never_exhausted.

(* string.rep: the Lua-side theorems above are one direction (Lua refuses results above INT_MAX, the port only what
   cannot be allocated); what the port returns is never anything but the n-fold repetition *)
Theorem C13_rep_val_is_repetition : forall s n r, nl_rep s n = Val r -> r = repeat_bytes (Z.to_nat n) s.
Proof. exact rep_val_is_repetition. Qed.
Print Assumptions C13_rep_val_is_repetition.

(* scraped facts the hand-written models rely on (trip-wires): gmatch keeps the end of the last match, and its
   capture limit is the 8 that driver.ml enforces *)
Theorem C13_gen_facts : NL_GMATCH_HAS_LASTMATCH = true /\ GMATCH_MAX_CAPTURES = 8.
Proof. exact gen_facts. Qed.
Print Assumptions C13_gen_facts.

(* string.find (after d52527d) takes the plain search exactly when Lua's str_find_aux does (plain requested, or no
   special character in the pattern); string.match never does - so find('A)A', ')') is 2 2 and match('A)A', ')') an
   error, on both sides *)
Theorem C13_find_plain_decision_eq_lua : forall pat plain,
  nl_use_plain pat plain true = lua_use_plain pat plain true /\ nl_use_plain pat false false = lua_use_plain pat plain false.
Proof. exact use_plain_eq_lua. Qed.
Print Assumptions C13_find_plain_decision_eq_lua.

(* string.format never hands snprintf a DIRECTIVE that ISO C99 7.21.6.1 leaves undefined: on every conversion
   specification that scanformat + checkformat accept and every integer or string argument, [c99_snprintf] is defined (no
   flag, precision or length modifier undefined for the conversion), for every format string and argument list.
   This is about the directive only.  Not covered: the writes into form[MAX_FORMAT] (at most 13 bytes by the shape
   scanformat accepts: measured, not proved), the long double / float128 and %p call sites, and the read of fmt.data[#fmt]
   as 0 (the terminator assumption).  The flag tables of the model are hand copies of the source (equal today, checked
   by the format stream on every run). *)
Theorem C13_format_never_unsafe : forall cfloat fmt args, nl_format cfloat fmt args <> Unsafe.
Proof. exact format_never_unsafe. Qed.
Print Assumptions C13_format_never_unsafe.

(* ---- the loop bounds of the drivers are never what ends them (same device as C13_match_loop_bounds_adequate): each
   bounded loop, with the bound its caller gives it, returns what it returns under ANY larger bound - so "no match",
   "end of iteration" or an error is never returned because the bound ran out ---- *)
Theorem C13_search_bounds_adequate : forall (m : matcher) (s : bytes),
  (forall anchor init n, 0 <= init -> (length s < n)%nat ->
     lua_do_search s m anchor init = lua_search n m anchor (slen s) init) /\
  (forall anchor pos n, 0 <= pos -> (length s < n)%nat ->
     nl_ms_match s m anchor pos = if slen s <? pos then None else nl_search n m anchor (slen s) pos) /\
  (forall src last n, 0 <= src -> (length s < n)%nat ->
     lua_gmatch_next (Z.to_nat (slen s - src)) m (slen s) src last = lua_gmatch_next n m (slen s) src last) /\
  (forall pos lastend n, 0 <= pos -> (length s < n)%nat ->
     nl_gmatch_next (S (length s)) m s pos lastend = nl_gmatch_next n m s pos lastend).
Proof. exact search_bounds_adequate. Qed.
Print Assumptions C13_search_bounds_adequate.

Theorem C13_format_bounds_adequate : forall cfloat,
  (forall fmt args n, (length fmt < n)%nat -> nl_format cfloat fmt args = nl_format_loop cfloat n fmt args) /\
  (forall fmt args n, (length fmt < n)%nat -> lua_format cfloat fmt args = lua_format_loop cfloat 21 true n fmt args) /\
  (forall base upper v n, 2 <= base -> 0 <= v < two64 -> (64 <= n)%nat ->
     digits base upper v = digits_fuel n base upper v []).
Proof. exact format_bounds_adequate. Qed.
Print Assumptions C13_format_bounds_adequate.

Theorem C13_packsize_bound_adequate : forall fmt n, (length fmt < n)%nat ->
  nl_packsize_loop (S (length fmt)) fmt 1 0 = nl_packsize_loop n fmt 1 0.
Proof. exact packsize_bound_adequate. Qed.
Print Assumptions C13_packsize_bound_adequate.

(* ---- "never reads outside its arguments", per byte ----
   [G.do_match] (ModelPatG.v, generated from ModelPat.v) is the matcher with its two memory reads - pattern.data[i] and
   source.data[i] - as parameters.  For ANY two memories that agree on the pattern indices 0..#pattern (the terminator
   included) and on the subject indices 0..#subject-1, and whatever they hold elsewhere, it returns the same result -
   which is the result of the matcher itself - from every state the matcher can be in (C13_match_positions_in_range).
   Every byte before or beyond the arguments is irrelevant to what every read site of match(), class_end, the bracket
   classes, %b, %f, single_match and the expansion loops computes.  (The memory.compare of a back reference reads
   [ci, ci+cl) and [s, s+cl): kept inside the subject by the capture invariant and the guard cl <= #subject - s.) *)
Theorem C13_match_reads_only_its_arguments : forall cfg src pat (rdP rdS rdP' rdS' : Z -> Z),
  (forall i, 0 <= i <= slen pat -> rdP i = rdP' i) -> (forall i, 0 <= i < slen src -> rdS i = rdS' i) ->
  (forall i, 0 <= i <= slen pat -> rdP i = P pat i) -> (forall i, 0 <= i < slen src -> rdS i = S_ src i) ->
  forall fuel d caps s p, inv_b src pat caps s p = true ->
  G.do_match cfg src pat rdP rdS fuel d caps s p = G.do_match cfg src pat rdP' rdS' fuel d caps s p /\
  G.do_match cfg src pat rdP rdS fuel d caps s p = do_match cfg src pat fuel d caps s p.
Proof. exact matcher_reads_only_its_arguments. Qed.
Print Assumptions C13_match_reads_only_its_arguments.

(* ... and with the real memory the parametrised matcher is the matcher, definitionally *)
Theorem C13_match_generic_instance : forall cfg src pat fuel d caps s p,
  G.do_match cfg src pat (P pat) (S_ src) fuel d caps s p = do_match cfg src pat fuel d caps s p.
Proof. exact inst_do_match. Qed.
Print Assumptions C13_match_generic_instance.

(* ---- the size bound of every snprintf call of string.format ----
   C99 snprintf(buf, n, ...) writes at most n-1 bytes and returns the length of the full output, which formatarg
   commits.  [nl_format_b] takes the n of every call site into account (scraped into Gen.v: MAX_ITEM for the numeric,
   character and pointer sites, buf.size of the max(#s + 1, MAX_ITEM) bytes prepared for a modified %s): an output that
   does not fit is cut, and then either the port stops (numeric sites) or bytes that were never written are committed
   (%s: outcome Unsafe).  Theorem: that never happens - at every call site the full length is below the bound, for every
   format, every integer and string argument, every width and precision - so nl_format_b IS the unbounded nl_format of the
   other theorems.  The floats' formatter is a parameter, assumed to stay below MAX_ITEM (a longer float item makes the
   port stop: 38f86f9). *)
Theorem C13_format_never_truncated : forall cfloat, (forall form v, slen (cfloat form v) < NL_MAX_ITEM) ->
  forall fmt args, nl_format_b cfloat fmt args = nl_format cfloat fmt args.
Proof. exact format_never_truncated. Qed.
Print Assumptions C13_format_never_truncated.

(* _needed companions of C13_format_never_truncated (which uses the scraped bounds through reflexivity): under the other
   policy of each scraped flag the statement is false, with a witness *)
Theorem C13_format_s_bound_needed : forall cfloat,
  nl_item_b_pol cfloat false true [53; 115] (AStr (repeat 120 600)) = Unsafe /\
  nl_item_b_pol cfloat true true [53; 115] (AStr (repeat 120 600)) = Val (repeat 120 600, []).
Proof. exact format_s_bound_needed. Qed.
Print Assumptions C13_format_s_bound_needed.

Theorem C13_format_num_bound_needed : forall cfloat, nl_item_b_pol cfloat true false [100] (AInt 7) = Trap.
Proof. exact format_num_bound_needed. Qed.
Print Assumptions C13_format_num_bound_needed.
