(* C13 (f, continued) - the pack format parser as string.packsize runs it: wherever lstrlib.c's parser returns a
   size, strpack.nelua returns the same size (packsize_eq_lua).  The two places where the codes compute
   differently are the padding (Lua: ntoalign = (align - (total & (align-1))) & (align-1); Nelua:
   (addr + align-1) & ~(align-1) in usize) and the number reader (Lua's int loop with its overflow cut, Nelua's
   usize loop); the rest is the option table, compared option by option (step_eq). *)
From C13 Require Import Model ModelPackFmt ProofsIdx.
Local Open Scope Z_scope.

Lemma pow2_small a : 1 < a <= 16 -> Z.land a (a - 1) = 0 -> a = 2 \/ a = 4 \/ a = 8 \/ a = 16.
Proof.
  intros H E.
  assert (C : a = 2 \/ a = 3 \/ a = 4 \/ a = 5 \/ a = 6 \/ a = 7 \/ a = 8 \/ a = 9 \/ a = 10 \/ a = 11 \/ a = 12 \/
              a = 13 \/ a = 14 \/ a = 15 \/ a = 16) by lia.
  repeat (destruct C as [->|C]; [try (vm_compute in E; discriminate); tauto|]). subst. tauto.
Qed.

(* masking with ~(2^k - 1) in usize rounds down to a multiple of 2^k *)
Lemma land_lnot_ones x k : 0 <= x < two64 -> 0 <= k < 64 ->
  u64 (Z.land x (u64 (Z.lnot (Z.ones k)))) = x / 2 ^ k * 2 ^ k.
Proof.
  intros Hx Hk.
  assert (E : Z.land x (u64 (Z.lnot (Z.ones k))) = Z.ldiff x (Z.ones k)).
  { apply Z.bits_inj'. intros n Hn. rewrite Z.land_spec, Z.ldiff_spec. unfold u64. change two64 with (2 ^ 64).
    rewrite <- Z.land_ones by lia. rewrite Z.land_spec, Z.lnot_spec by lia.
    destruct (Z.ltb_spec n 64) as [Hlt|Hge].
    - rewrite (Z.ones_spec_low 64 n) by lia. rewrite andb_true_r. reflexivity.
    - assert (Hx0 : Z.testbit x n = false).
      { rewrite <- (Z.mod_small x (2 ^ 64)) by exact Hx. apply Z.mod_pow2_bits_high. lia. }
      rewrite Hx0. reflexivity. }
  rewrite E. rewrite Z.ldiff_ones_r by lia. rewrite Z.shiftr_div_pow2, Z.shiftl_mul_pow2 by lia.
  apply u64_small. assert (0 < 2 ^ k) by (apply Z.pow_pos_nonneg; lia).
  split; [apply Z.mul_nonneg_nonneg; [apply Z.div_pos; lia|lia]|].
  pose proof (Z.mul_div_le x (2 ^ k) ltac:(lia)). lia.
Qed.

(* Nelua's packalignforward = Lua's total + ntoalign, for every alignment that passes the power-of-two test *)
Lemma alignforward_eq_lua total align maxalign : 0 <= total <= LUA_MAXSIZE -> 1 <= maxalign <= 16 -> 0 <= align <= 16 ->
  let a := if maxalign <? align then maxalign else align in
  if align <=? 1 then nl_alignforward total align maxalign = Val total
  else if negb (Z.land a (a - 1) =? 0) then nl_alignforward total align maxalign = Trap
  else nl_alignforward total align maxalign = Val (total + Z.land (a - Z.land total (a - 1)) (a - 1)).
Proof.
  intros Ht Hm Ha. cbn zeta. unfold nl_alignforward.
  set (a := if maxalign <? align then maxalign else align).
  destruct (Z.leb_spec align 1) as [H1|H1].
  - assert (a <= 1) by (subst a; destruct (Z.ltb_spec maxalign align); lia).
    destruct (Z.leb_spec a 1); [reflexivity|lia].
  - destruct (Z.leb_spec a 1) as [Ha1|Ha1].
    + (* clamped to maxalign = 1: Lua's formula gives 0 as well *)
      assert (a = 1) by (subst a; destruct (Z.ltb_spec maxalign align); lia).
      rewrite H. change (1 - 1) with 0. rewrite !Z.land_0_r. cbn. f_equal. lia.
    + destruct (Z.land a (a - 1) =? 0) eqn:Ep; cbn [negb]; [|reflexivity].
      apply Z.eqb_eq in Ep.
      assert (Ha16 : 1 < a <= 16) by (subst a; destruct (Z.ltb_spec maxalign align); lia).
      f_equal. unfold LUA_MAXSIZE in Ht.
      assert (K : exists k, 1 <= k <= 4 /\ a = 2 ^ k).
      { destruct (pow2_small a Ha16 Ep) as [E | [E | [E | E]]]; [exists 1|exists 2|exists 3|exists 4]; (split; [lia|exact E]). }
      destruct K as [k [Hk Ek]]. rewrite Ek.
      replace (2 ^ k - 1) with (Z.ones k) by (rewrite Z.ones_equiv; lia).
      assert (Ho : 0 <= Z.ones k <= 15).
      { rewrite Z.ones_equiv. assert (C : k = 1 \/ k = 2 \/ k = 3 \/ k = 4) by lia.
        destruct C as [-> | [-> | [-> | ->]]]; cbv; split; discriminate. }
      assert (T64 : two64 = 18446744073709551616) by reflexivity.
      rewrite (u64_small (total + Z.ones k)) by lia.
      rewrite land_lnot_ones by lia.
      rewrite !Z.land_ones by lia.
      assert (C : k = 1 \/ k = 2 \/ k = 3 \/ k = 4) by lia.
      destruct C as [-> | [-> | [-> | ->]]].
      * change (Z.ones 1) with 1. change (2 ^ 1) with 2. lia.
      * change (Z.ones 2) with 3. change (2 ^ 2) with 4. lia.
      * change (Z.ones 3) with 7. change (2 ^ 3) with 8. lia.
      * change (Z.ones 4) with 15. change (2 ^ 4) with 16. lia.
Qed.

Lemma alignforward_bound total al ma l : 0 <= total <= LUA_MAXSIZE -> 1 <= ma <= 16 -> 0 <= al <= 16 ->
  nl_alignforward total al ma = Val l -> 0 <= l <= total + 15.
Proof.
  intros Ht Hm Hal H. pose proof (alignforward_eq_lua total al ma Ht Hm Hal) as B. cbn zeta in B.
  destruct (Z.leb_spec al 1) as [Hal1|Hal1]; [rewrite B in H; inversion H; lia|].
  set (a := if ma <? al then ma else al) in *.
  assert (Ha : 1 <= a <= 16) by (subst a; destruct (Z.ltb_spec ma al); lia).
  destruct (Z.land a (a - 1) =? 0) eqn:Ep; cbn [negb] in B; [|rewrite B in H; discriminate H].
  rewrite B in H. inversion H. apply Z.eqb_eq in Ep.
  destruct (Z.eq_dec a 1) as [E1|N1].
  - rewrite E1. change (1 - 1) with 0. rewrite !Z.land_0_r. lia.
  - destruct (pow2_small a ltac:(lia) Ep) as [E | [E | [E | E]]]; rewrite E.
    + change (2 - 1) with (Z.ones 1). rewrite (Z.land_ones _ 1) by lia. pose proof (Z.mod_pos_bound (2 - Z.land total (Z.ones 1)) (2 ^ 1) ltac:(lia)). change (2 ^ 1) with 2 in *. lia.
    + change (4 - 1) with (Z.ones 2). rewrite (Z.land_ones _ 2) by lia. pose proof (Z.mod_pos_bound (4 - Z.land total (Z.ones 2)) (2 ^ 2) ltac:(lia)). change (2 ^ 2) with 4 in *. lia.
    + change (8 - 1) with (Z.ones 3). rewrite (Z.land_ones _ 3) by lia. pose proof (Z.mod_pos_bound (8 - Z.land total (Z.ones 3)) (2 ^ 3) ltac:(lia)). change (2 ^ 3) with 8 in *. lia.
    + change (16 - 1) with (Z.ones 4). rewrite (Z.land_ones _ 4) by lia. pose proof (Z.mod_pos_bound (16 - Z.land total (Z.ones 4)) (2 ^ 4) ltac:(lia)). change (2 ^ 4) with 16 in *. lia.
Qed.

(* the number readers: on a run of digits that Lua reads completely (no overflow cut: the rest does not start
   with a digit) both produce the same number and the same rest *)
Lemma getnum_loop_eq f : forall a, is_bytes f = true -> 0 <= a <= LUA_MAXSIZE ->
  let '(v, r) := lua_getnum_loop f a in
  (match r with c :: _ => isdig c = false | [] => True end) -> nl_getnum_loop f a = (v, r).
Proof.
  induction f as [|c r IH]; intros a Hb Ha; cbn [lua_getnum_loop nl_getnum_loop]; [intros _; reflexivity|].
  cbn [is_bytes forallb] in Hb. apply andb_true_iff in Hb. destruct Hb as [Hc Hb]. unfold is_byte in Hc.
  assert (Hd : isdig c = negb (10 <=? (c - 48) mod 256)).
  { unfold isdig. destruct (Z.leb_spec 48 c); destruct (Z.leb_spec c 57); destruct (Z.leb_spec 10 ((c - 48) mod 256)); cbn; try reflexivity; lia. }
  destruct (isdig c) eqn:Ed.
  - destruct (Z.leb_spec a ((LUA_MAXSIZE - 9) / 10)) as [Hle|Hgt]; cbn [andb].
    + symmetry in Hd. apply negb_true_iff in Hd. rewrite Hd.
      assert (Hv : (c - 48) mod 256 = c - 48) by (unfold isdig in Ed; apply Z.mod_small; lia).
      rewrite Hv. unfold LUA_MAXSIZE in *.
      rewrite (u64_small (a * 10 + (c - 48))) by (unfold isdig in Ed; unfold two64; lia).
      apply IH; [exact Hb|]. unfold isdig in Ed. change ((2147483647 - 9) / 10) with 214748363 in Hle. lia.
    + (* Lua cuts the number here: the rest starts with a digit *)
      intros Hrest. rewrite Ed in Hrest. discriminate.
  - cbn [andb]. symmetry in Hd. apply negb_false_iff in Hd. rewrite Hd. intros _. reflexivity.
Qed.

(* ------------------------------------------------------------------ the number reader, whole *)
Definition starts_digit (f : bytes) : bool := match f with c :: _ => isdig c | [] => false end.

Lemma is_bytes_tail c r : is_bytes (c :: r) = true -> is_bytes r = true.
Proof. unfold is_bytes. cbn [forallb]. intros H. apply andb_true_iff in H. tauto. Qed.

Lemma getnum_loop_bytes f : forall a v r', lua_getnum_loop f a = (v, r') -> is_bytes f = true -> is_bytes r' = true.
Proof.
  induction f as [|c r IH]; cbn [lua_getnum_loop]; intros a v r' E Hb.
  - inversion E. reflexivity.
  - destruct (isdig c && (a <=? (LUA_MAXSIZE - 9) / 10)).
    + eapply IH; [exact E|]. eapply is_bytes_tail; exact Hb.
    + inversion E. subst. exact Hb.
Qed.

Lemma getnum_loop_nocut f : forall a v r', lua_getnum_loop f a = (v, r') -> v <= 214748363 -> starts_digit r' = false.
Proof.
  induction f as [|c r IH]; cbn [lua_getnum_loop]; intros a v r' E Hv.
  - inversion E. reflexivity.
  - destruct (isdig c) eqn:Ed; cbn [andb] in E.
    + destruct (Z.leb_spec a ((LUA_MAXSIZE - 9) / 10)) as [Hle|Hgt].
      * eapply IH; eassumption.
      * inversion E. subst. change ((LUA_MAXSIZE - 9) / 10) with 214748363 in Hgt. lia.
    + inversion E. subst. exact Ed.
Qed.

Lemma getnum_loop_nonneg f : forall a v r', lua_getnum_loop f a = (v, r') -> 0 <= a -> 0 <= v.
Proof.
  induction f as [|c r IH]; cbn [lua_getnum_loop]; intros a v r' E Ha.
  - inversion E. lia.
  - destruct (isdig c) eqn:Ed; cbn [andb] in E.
    + destruct (a <=? (LUA_MAXSIZE - 9) / 10).
      * eapply IH; [exact E|]. unfold isdig in Ed. lia.
      * inversion E. lia.
    + inversion E. lia.
Qed.

Lemma nl_getnum_loop_len f : forall n v r, nl_getnum_loop f n = (v, r) -> (length r <= length f)%nat.
Proof.
  induction f as [|c r IH]; cbn [nl_getnum_loop]; intros n v r0 E.
  - inversion E. apply le_n.
  - destruct (10 <=? (c - 48) mod 256).
    + inversion E. apply le_n.
    + apply IH in E. cbn [length]. lia.
Qed.

Lemma lua_getnum_nodigit f df : starts_digit f = false -> lua_getnum f df = (df, f).
Proof. destruct f as [|c r]; cbn; intros H; [reflexivity|]. rewrite H. reflexivity. Qed.

Lemma getnum_eq f df def v r' : is_bytes f = true -> lua_getnum f df = (v, r') -> starts_digit r' = false ->
  nl_getnum f def = if starts_digit f then (v, r') else (def, f).
Proof.
  intros Hb E Hr. destruct f as [|c r].
  - reflexivity.
  - cbn [starts_digit]. unfold nl_getnum. cbn [nl_getnum_loop].
    pose proof Hb as Hb0. unfold is_bytes in Hb0. cbn [forallb] in Hb0. apply andb_true_iff in Hb0. destruct Hb0 as [Hc Hbr].
    unfold is_byte in Hc.
    assert (Hd : isdig c = negb (10 <=? (c - 48) mod 256)).
    { unfold isdig. destruct (Z.leb_spec 48 c); destruct (Z.leb_spec c 57); destruct (Z.leb_spec 10 ((c - 48) mod 256)); cbn; try reflexivity; lia. }
    destruct (isdig c) eqn:Ed.
    + symmetry in Hd. apply negb_true_iff in Hd. rewrite Hd.
      cbn [lua_getnum] in E. rewrite Ed in E.
      assert (Hv : (c - 48) mod 256 = c - 48) by (unfold isdig in Ed; apply Z.mod_small; lia).
      rewrite Hv. change (0 * 10) with 0. rewrite Z.add_0_l.
      rewrite (u64_small (c - 48)) by (unfold isdig in Ed; unfold two64; lia).
      pose proof (getnum_loop_eq r (c - 48) Hbr) as G. rewrite E in G.
      assert (G' : nl_getnum_loop r (c - 48) = (v, r')).
      { apply G; [unfold isdig in Ed; unfold LUA_MAXSIZE; lia|]. destruct r' as [|c' r'']; [exact I|exact Hr]. }
      rewrite G'. pose proof (nl_getnum_loop_len _ _ _ _ G') as L.
      destruct (Nat.eqb_spec (length r') (length (c :: r))) as [Eq|]; [cbn [length] in Eq; lia|reflexivity].
    + symmetry in Hd. apply negb_false_iff in Hd. rewrite Hd. rewrite Nat.eqb_refl. reflexivity.
Qed.

Lemma getnum_bytes f df v r' : lua_getnum f df = (v, r') -> is_bytes f = true -> is_bytes r' = true.
Proof.
  destruct f as [|c r]; cbn [lua_getnum]; intros E Hb.
  - inversion E. reflexivity.
  - destruct (isdig c).
    + eapply getnum_loop_bytes; [exact E|]. eapply is_bytes_tail; exact Hb.
    + inversion E. subst. exact Hb.
Qed.

Lemma getnumlimit_eq f df sz r' : is_bytes f = true -> 1 <= df <= 16 -> lua_getnumlimit f df = LVal (sz, r') ->
  nl_getnumlimit f df = Val (sz, r') /\ 1 <= sz <= 16 /\ is_bytes r' = true.
Proof.
  intros Hb Hdf. unfold lua_getnumlimit, nl_getnumlimit. destruct (lua_getnum f df) as [v r0] eqn:E.
  unfold MAXINTSIZE. destruct (Z.ltb_spec 16 v) as [|Hv1]; [discriminate|].
  destruct (Z.leb_spec v 0) as [|Hv0]; [discriminate|]. cbn [orb]. intros H. inversion H. subst v r0.
  assert (Hr : starts_digit r' = false).
  { destruct f as [|c r]; cbn [lua_getnum] in E.
    - inversion E. reflexivity.
    - destruct (isdig c) eqn:Ed.
      + eapply getnum_loop_nocut; [exact E|lia].
      + inversion E. subst. exact Ed. }
  rewrite (getnum_eq f df df sz r' Hb E Hr).
  assert (X : (if starts_digit f then (sz, r') else (df, f)) = (sz, r')).
  { destruct (starts_digit f) eqn:Es; [reflexivity|]. rewrite (lua_getnum_nodigit f df Es) in E. inversion E. reflexivity. }
  rewrite X. destruct (Z.ltb_spec 0 sz); [|lia]. destruct (Z.leb_spec sz 16); [|lia]. cbn [andb].
  split; [reflexivity|]. split; [lia|]. eapply getnum_bytes; eassumption.
Qed.

(* ------------------------------------------------------------------ the loop, option by option *)
Definition plain_opt (o : kopt) : bool := match o with Kint | Kuint | Kfloat | Knumber | Kdouble | Kpadding | Kpaddalign | Knop => true | _ => false end.

Lemma land_nonneg_r x y : 0 <= y -> 0 <= Z.land x y.
Proof. intros H. apply Z.land_nonneg. right. exact H. Qed.

(* the port returns the value v, and v is a size Lua can represent *)
Definition okv (v : Z) (x : res Z) : Prop := x = Val v /\ 0 <= v <= LUA_MAXSIZE.

(* an option of size sz aligned to al: Lua's details + accounting against Nelua's alignforward + add *)
Lemma aligned_step (contl : bytes -> Z -> Z -> lres Z) (contn : bytes -> Z -> Z -> res Z) opt sz al r ma total v :
  plain_opt opt = true -> 0 <= sz <= 16 -> 0 <= al <= 16 -> 1 <= ma <= 16 -> 0 <= total <= LUA_MAXSIZE ->
  (forall total', 0 <= total' <= LUA_MAXSIZE -> contl r ma total' = LVal v -> okv v (contn r ma total')) ->
  match lua_align_details opt sz al r ma total with LErr => LErr | LVal d => lua_account contl d total end = LVal v ->
  okv v (match nl_alignforward total al ma with Val l => contn r ma (u64 (l + sz)) | Trap => Trap | Unsafe => Unsafe end).
Proof.
  intros Hp Hsz Hal Hm Ht Hc. unfold lua_align_details.
  assert (Hk : is_kchar opt = false) by (destruct opt; try reflexivity; discriminate Hp).
  assert (Hs : match opt with Kstring | Kzstr => true | _ => false end = false) by (destruct opt; try reflexivity; discriminate Hp).
  rewrite Hk, orb_false_r.
  pose proof (alignforward_eq_lua total al ma Ht Hm Hal) as A. cbn zeta in A.
  assert (T64 : two64 = 18446744073709551616) by reflexivity. unfold LUA_MAXSIZE in *.
  destruct (Z.leb_spec al 1) as [Hal1|Hal1].
  - rewrite A. unfold lua_account, LUA_MAXSIZE. rewrite Hs. rewrite Z.add_0_r.
    destruct (Z.ltb_spec (2147483647 - sz) total) as [HL|HL]; [discriminate|]. intros H.
    rewrite u64_small by lia. apply Hc; [lia|exact H].
  - cbn zeta. set (a := if ma <? al then ma else al) in *.
    destruct (negb (Z.land a (a - 1) =? 0)); [discriminate|]. rewrite A.
    set (nt := Z.land (a - Z.land total (a - 1)) (a - 1)).
    assert (Hnt : 0 <= nt).
    { apply land_nonneg_r. subst a. destruct (Z.ltb_spec ma al); lia. }
    unfold lua_account, LUA_MAXSIZE. rewrite Hs.
    destruct (Z.ltb_spec (2147483647 - (sz + nt)) total) as [HL|HL]; [discriminate|]. intros H.
    rewrite u64_small by lia. replace (total + nt + sz) with (total + (sz + nt)) by lia.
    apply Hc; [lia|exact H].
Qed.

Definition IHk (k : nat) : Prop := forall f ma total v, is_bytes f = true -> 1 <= ma <= 16 -> 0 <= total <= LUA_MAXSIZE ->
  lua_packsize_loop k f ma total = LVal v -> okv v (nl_packsize_loop k f ma total).

Ltac open_case :=
  cbn [lua_packsize_loop nl_packsize_loop]; unfold lua_getdetails, lua_getoption; cbn [Z.eqb Pos.eqb orb].

(* a format option that is a digit is an error in Lua *)
Lemma lua_digit_fails k d r ma total : isdig d = true -> lua_packsize_loop k (d :: r) ma total = LErr.
Proof.
  intros Hd. destruct k; [reflexivity|]. cbn [lua_packsize_loop]. unfold lua_getdetails, lua_getoption.
  unfold isdig in Hd.
  repeat match goal with |- context [d =? ?K] => replace (d =? K) with false by (symmetry; apply Z.eqb_neq; lia) end.
  reflexivity.
Qed.

Lemma case_fixed k opt sz r ma total v : IHk k -> plain_opt opt = true -> 1 <= sz <= 16 ->
  is_bytes r = true -> 1 <= ma <= 16 -> 0 <= total <= LUA_MAXSIZE ->
  match lua_align_details opt sz sz r ma total with LErr => LErr | LVal d => lua_account (lua_packsize_loop k) d total end = LVal v ->
  okv v (nl_sized (nl_packsize_loop k) total sz ma r).
Proof.
  intros IH Hp Hsz Hb Hm Ht H. unfold nl_sized.
  eapply (aligned_step (lua_packsize_loop k) (nl_packsize_loop k)); try eassumption; try lia.
  intros total' Ht' H'. apply IH; assumption.
Qed.

Ltac oa_fixed Hr := cbn [Z.eqb Pos.eqb orb]; intros E Hk Hal; inversion E; subst; cbn;
                    repeat split; try discriminate; try reflexivity; try exact Hr.
Ltac oa_limit Hr Hm := cbn [Z.eqb Pos.eqb orb]; intros E Hk Hal;
  match type of E with match lua_getnumlimit ?r ?d with _ => _ end = _ =>
    let sz := fresh "sz" in let r' := fresh "r'" in let EL := fresh "EL" in
    destruct (lua_getnumlimit r d) as [[sz r']|] eqn:EL; [|discriminate E];
    apply getnumlimit_eq in EL; [|exact Hr|cbv; split; discriminate];
    let E1 := fresh "E1" in let E2 := fresh "E2" in let E3 := fresh "E3" in
    destruct EL as (E1 & E2 & E3); rewrite E1; inversion E; subst; cbv iota beta;
    match goal with |- context [0 <? ?x] => destruct (Z.ltb_spec 0 x); [|lia] end;
    repeat split; try lia; try exact E3 end.
(* the option that follows 'X' *)
Lemma getoptalign_eq r ma opt2 al r2 ma2 : is_bytes r = true -> 1 <= ma <= 16 ->
  lua_getoption r ma = LVal (opt2, al, r2, ma2) -> is_kchar opt2 = false -> al <> 0 ->
  nl_getoptalign r = Val (al, r2) /\ ma2 = ma /\ 1 <= al <= 16 /\ is_bytes r2 = true.
Proof.
  intros Hb Hm. destruct r as [|c r]; [discriminate|]. pose proof (is_bytes_tail _ _ Hb) as Hr.
  unfold lua_getoption, nl_getoptalign.
  destruct (Z.eqb_spec c 98) as [->|N1]; [oa_fixed Hr|].
  destruct (Z.eqb_spec c 66) as [->|N2]; [oa_fixed Hr|].
  destruct (Z.eqb_spec c 104) as [->|N3]; [oa_fixed Hr|].
  destruct (Z.eqb_spec c 72) as [->|N4]; [oa_fixed Hr|].
  destruct (Z.eqb_spec c 108) as [->|N5]; [oa_fixed Hr|].
  destruct (Z.eqb_spec c 76) as [->|N6]; [oa_fixed Hr|].
  destruct (Z.eqb_spec c 106) as [->|N7]; [oa_fixed Hr|].
  destruct (Z.eqb_spec c 74) as [->|N8]; [oa_fixed Hr|].
  destruct (Z.eqb_spec c 84) as [->|N9]; [oa_fixed Hr|].
  destruct (Z.eqb_spec c 102) as [->|N10]; [oa_fixed Hr|].
  destruct (Z.eqb_spec c 110) as [->|N11]; [oa_fixed Hr|].
  destruct (Z.eqb_spec c 100) as [->|N12]; [oa_fixed Hr|].
  destruct (Z.eqb_spec c 105) as [->|N13]; [oa_limit Hr Hm|].
  destruct (Z.eqb_spec c 73) as [->|N14]; [oa_limit Hr Hm|].
  destruct (Z.eqb_spec c 115) as [->|N15]; [oa_limit Hr Hm|].
  destruct (Z.eqb_spec c 99) as [->|N16].
  { cbn [Z.eqb Pos.eqb orb]. destruct (lua_getnum r (-1)) as [sz r']. destruct (sz =? -1); [discriminate|].
    intros E Hk. inversion E; subst. discriminate Hk. }
  destruct (Z.eqb_spec c 122) as [->|N17]; [cbn [Z.eqb Pos.eqb orb]; intros E Hk Hal; inversion E; subst; congruence|].
  destruct (Z.eqb_spec c 120) as [->|N18]; [oa_fixed Hr|].
  destruct (Z.eqb_spec c 88) as [->|N19]; [cbn [Z.eqb Pos.eqb orb]; intros E Hk Hal; inversion E; subst; congruence|].
  destruct (Z.eqb_spec c 32) as [->|N20]; [cbn [Z.eqb Pos.eqb orb]; intros E Hk Hal; inversion E; subst; congruence|].
  destruct (Z.eqb_spec c 60) as [->|N21]; [cbn [Z.eqb Pos.eqb orb]; intros E Hk Hal; inversion E; subst; congruence|].
  destruct (Z.eqb_spec c 62) as [->|N22]; [cbn [Z.eqb Pos.eqb orb]; intros E Hk Hal; inversion E; subst; congruence|].
  destruct (Z.eqb_spec c 61) as [->|N23]; [cbn [Z.eqb Pos.eqb orb]; intros E Hk Hal; inversion E; subst; congruence|].
  destruct (Z.eqb_spec c 33) as [->|N24].
  { cbn [Z.eqb Pos.eqb orb]. destruct (lua_getnumlimit r NATIVE_MAXALIGN) as [[sz r']|]; [|discriminate].
    intros E Hk Hal; inversion E; subst; congruence. }
  cbn [orb]. discriminate.
Qed.

Ltac st_fixed IH Hr Hm Ht := cbn [Z.eqb Pos.eqb orb]; cbv iota beta; intros H;
  eapply case_fixed; [exact IH| | |exact Hr|exact Hm|exact Ht|exact H]; [reflexivity|cbv; split; discriminate].
(* an unaligned option of constant size n (b B x: 1, the no-ops: 0) *)
Ltac st_plain IH Hr Hm Ht := cbn [Z.eqb Pos.eqb orb]; cbv iota beta; unfold lua_align_details;
  match goal with |- context [?n <=? 1] => change (n <=? 1) with true end; cbn [orb];
  unfold lua_account, LUA_MAXSIZE; cbv iota beta zeta;
  match goal with |- context [2147483647 - ?s <? ?t] => destruct (Z.ltb_spec (2147483647 - s) t) as [HL|HL]; [discriminate|] end;
  intros H; try rewrite u64_small by (unfold two64; unfold LUA_MAXSIZE in Ht; lia);
  apply IH; [exact Hr|exact Hm|unfold LUA_MAXSIZE in *; lia|];
  first [exact H |
    match type of H with lua_packsize_loop _ _ _ ?e = _ =>
      match goal with |- lua_packsize_loop _ _ _ ?g = _ => replace e with g in H by lia; exact H end end].
Ltac st_string := cbn [Z.eqb Pos.eqb orb]; cbv iota beta; intros H; exfalso; revert H;
  unfold lua_align_details, lua_account;
  repeat match goal with |- context [if ?b then _ else _] => destruct b end; discriminate.

Ltac st_limit IH Hr Hm Ht := cbn [Z.eqb Pos.eqb orb];
  match goal with |- context [lua_getnumlimit ?r ?d] =>
    let sz := fresh "sz" in let r' := fresh "r'" in let EL := fresh "EL" in
    destruct (lua_getnumlimit r d) as [[sz r']|] eqn:EL; [|discriminate];
    apply getnumlimit_eq in EL; [|exact Hr|cbv; split; discriminate];
    let E1 := fresh "E1" in let E2 := fresh "E2" in let E3 := fresh "E3" in
    destruct EL as (E1 & E2 & E3); rewrite E1; cbv iota beta; intros H;
    eapply case_fixed; [exact IH| | |exact E3|exact Hm|exact Ht|exact H]; [reflexivity|exact E2] end.

Lemma step_eq k c r ma total v : IHk k -> is_bytes (c :: r) = true -> 1 <= ma <= 16 -> 0 <= total <= LUA_MAXSIZE ->
  lua_packsize_loop (S k) (c :: r) ma total = LVal v -> okv v (nl_packsize_loop (S k) (c :: r) ma total).
Proof.
  intros IH Hb Hm Ht. pose proof (is_bytes_tail _ _ Hb) as Hr.
  cbn [lua_packsize_loop nl_packsize_loop]. unfold lua_getdetails, lua_getoption.
  destruct (Z.eqb_spec c 98) as [->|N1]; [st_plain IH Hr Hm Ht|].
  destruct (Z.eqb_spec c 66) as [->|N2]; [st_plain IH Hr Hm Ht|].
  destruct (Z.eqb_spec c 104) as [->|N3]; [st_fixed IH Hr Hm Ht|].
  destruct (Z.eqb_spec c 72) as [->|N4]; [st_fixed IH Hr Hm Ht|].
  destruct (Z.eqb_spec c 108) as [->|N5]; [st_fixed IH Hr Hm Ht|].
  destruct (Z.eqb_spec c 76) as [->|N6]; [st_fixed IH Hr Hm Ht|].
  destruct (Z.eqb_spec c 106) as [->|N7]; [st_fixed IH Hr Hm Ht|].
  destruct (Z.eqb_spec c 74) as [->|N8]; [st_fixed IH Hr Hm Ht|].
  destruct (Z.eqb_spec c 84) as [->|N9]; [st_fixed IH Hr Hm Ht|].
  destruct (Z.eqb_spec c 102) as [->|N10]; [st_fixed IH Hr Hm Ht|].
  destruct (Z.eqb_spec c 110) as [->|N11]; [st_fixed IH Hr Hm Ht|].
  destruct (Z.eqb_spec c 100) as [->|N12]; [st_fixed IH Hr Hm Ht|].
  destruct (Z.eqb_spec c 105) as [->|N13]; [st_limit IH Hr Hm Ht|].
  destruct (Z.eqb_spec c 73) as [->|N14]; [st_limit IH Hr Hm Ht|].
  destruct (Z.eqb_spec c 115) as [->|N15].
  { cbn [Z.eqb Pos.eqb orb]. destruct (lua_getnumlimit r SZ_SIZET) as [[sz r']|]; [|discriminate]. st_string. }
  destruct (Z.eqb_spec c 99) as [->|N16].
  { cbn [Z.eqb Pos.eqb orb]. destruct (lua_getnum r (-1)) as [sz r'] eqn:E.
    destruct (Z.eqb_spec sz (-1)) as [|Hsz]; [discriminate|]. cbv iota beta.
    unfold lua_align_details. cbn [is_kchar]. rewrite orb_true_r. unfold lua_account, LUA_MAXSIZE. cbv iota beta zeta.
    rewrite Z.add_0_r. destruct (Z.ltb_spec (2147483647 - sz) total) as [HL|HL]; [discriminate|]. intros H.
    destruct (starts_digit r) eqn:Sr; [|rewrite (lua_getnum_nodigit r (-1) Sr) in E; inversion E; lia].
    destruct r as [|d r0]; [discriminate Sr|]. cbn [starts_digit] in Sr.
    assert (Hd : (d - 48) mod 256 <? 10 = true).
    { unfold isdig in Sr. apply Z.ltb_lt. rewrite Z.mod_small; lia. }
    rewrite Hd.
    destruct (starts_digit r') eqn:Sr'.
    - destruct r' as [|d' r'']; [discriminate Sr'|]. cbn [starts_digit] in Sr'.
      rewrite (lua_digit_fails k d' r'' ma _ Sr') in H. discriminate H.
    - rewrite (getnum_eq (d :: r0) (-1) 0 sz r' Hr E Sr'). cbn [starts_digit]. rewrite Sr.
      assert (Hsz0 : 0 <= sz).
      { cbn [lua_getnum] in E. rewrite Sr in E. eapply getnum_loop_nonneg; [exact E|]. unfold isdig in Sr. lia. }
      unfold LUA_MAXSIZE in Ht. rewrite u64_small by (unfold two64; lia).
      apply IH; [eapply getnum_bytes; eassumption|exact Hm|unfold LUA_MAXSIZE; lia|exact H]. }
  destruct (Z.eqb_spec c 122) as [->|N17]; [st_string|].
  destruct (Z.eqb_spec c 120) as [->|N18]; [st_plain IH Hr Hm Ht|].
  destruct (Z.eqb_spec c 88) as [->|N19].
  { cbn [Z.eqb Pos.eqb orb]. cbv iota beta. unfold lua_paddalign.
    destruct r as [|c2 r0]; [discriminate|].
    destruct (lua_getoption (c2 :: r0) ma) as [[[[opt2 al] r2] ma2]|] eqn:E; [|discriminate].
    destruct (is_kchar opt2) eqn:Ek; [discriminate|]. destruct (Z.eqb_spec al 0) as [|Hal]; [discriminate|]. cbn [orb].
    destruct (getoptalign_eq _ _ _ _ _ _ Hr Hm E Ek Hal) as (G1 & G2 & G3 & G4). subst ma2. rewrite G1.
    intros H.
    pose proof (aligned_step (lua_packsize_loop k) (nl_packsize_loop k) Kpaddalign 0 al r2 ma total v) as A.
    assert (T64 : two64 = 18446744073709551616) by reflexivity.
    assert (X : okv v (match nl_alignforward total al ma with Val l => nl_packsize_loop k r2 ma (u64 (l + 0)) | Trap => Trap | Unsafe => Unsafe end)).
    { apply A; try reflexivity; try lia; try assumption. intros total' Ht' H'. apply IH; assumption. }
    destruct (nl_alignforward total al ma) as [l| |] eqn:B; try exact X.
    apply alignforward_bound in B; [|exact Ht|exact Hm|lia].
    rewrite Z.add_0_r in X. rewrite u64_small in X; [exact X|]. unfold LUA_MAXSIZE in Ht. lia. }
  destruct (Z.eqb_spec c 32) as [->|N20]; [st_plain IH Hr Hm Ht|].
  destruct (Z.eqb_spec c 60) as [->|N21]; [st_plain IH Hr Hm Ht|].
  destruct (Z.eqb_spec c 62) as [->|N22]; [st_plain IH Hr Hm Ht|].
  destruct (Z.eqb_spec c 61) as [->|N23]; [st_plain IH Hr Hm Ht|].
  destruct (Z.eqb_spec c 33) as [->|N24].
  { cbn [Z.eqb Pos.eqb orb]. destruct (lua_getnumlimit r NATIVE_MAXALIGN) as [[sz r']|] eqn:EL; [|discriminate].
    apply getnumlimit_eq in EL; [|exact Hr|cbv; split; discriminate]. destruct EL as (E1 & E2 & E3). rewrite E1.
    st_plain IH E3 E2 Ht. }
  cbn [orb]. discriminate.
Qed.

Theorem packsize_loop_eq : forall k, IHk k.
Proof.
  induction k as [|k IH]; intros f ma total v Hb Hm Ht H; [discriminate H|].
  destruct f as [|c r].
  - cbn in H |- *. inversion H. subst. split; [reflexivity|exact Ht].
  - apply step_eq; assumption.
Qed.

(* string.packsize: wherever Lua's parser returns a size, the port returns the same size *)
Theorem packsize_eq_lua fmt v : is_bytes fmt = true -> lua_packsize fmt = LVal v -> nl_packsize fmt = Val v.
Proof.
  intros Hb H. unfold lua_packsize in H. unfold nl_packsize.
  apply packsize_loop_eq in H; [|exact Hb|lia|unfold LUA_MAXSIZE; lia]. destruct H as [H Hv]. rewrite H.
  f_equal. unfold LUA_MAXSIZE in Hv. apply wrap64_id. unfold in_i64, minint, maxint, two63. lia.
Qed.
