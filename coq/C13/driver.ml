(* C13 model driver: reads the same "op arg..." case lines as harness/C13/driver.nelua and prints the
   result of the extracted model ([nl_*] = the port as modelled), one line per case.
   "!trap" = the port stops in a check, "!unsafe" = out-of-bounds access / C undefined behaviour,
   "?" = no model for this op. *)
open Model
open Zutil

let bytes_of_tok (t : string) : z list =
  if t = "e" then [] else zlist_of_hexbytes (String.sub t 1 (String.length t - 1))

(* decimal text -> extracted Z, wrapped to int64 like the harness parsers *)
let z_of_dec (s : string) : z =
  let neg = String.length s > 0 && s.[0] = '-' in
  let body = if neg then String.sub s 1 (String.length s - 1) else s in
  let ten = z_of_int 10 in
  let v = ref Z0 in
  String.iter (fun c -> v := Z.add (Z.mul !v ten) (z_of_int (Char.code c - 48))) body;
  wrap64 (if neg then Z.opp !v else !v)

let rec dec_of_pos_z (x : z) : string =
  (* x >= 0 *)
  let ten = z_of_int 10 in
  let q = Z.div x ten and r = Z.modulo x ten in
  let d = string_of_int (int_of_z r) in
  if q = Z0 then d else dec_of_pos_z q ^ d

let dec_of_z (x : z) : string =
  match x with Z0 -> "0" | Zpos _ -> dec_of_pos_z x | Zneg _ -> "-" ^ dec_of_pos_z (Z.opp x)

let hex (l : z list) = "x" ^ hexbytes_of_zlist l
let b2s b = if b then "true" else "false"
let res f = function Val v -> f v | Trap -> "!trap" | Unsafe -> "!unsafe"
let lres f = function LVal v -> f v | LErr -> "!error"

(* ---- the port's StrPatt around the extracted matcher ---- *)
exception PTrap of string
exception PUnsafe
exception PFuel
exception Decline

let zlen l = z_of_int (List.length l)
let zlt a b = Z.ltb a b
let zle a b = Z.leb a b
let zeq a b = Z.eqb a b

(* StrPatt.create + StrPatt.match: returns (start, end, captures) *)
let ms_match ?(find = false) (src : z list) (pat : z list) (plain : bool) (pos : z) : ((z * z) * (z * z) list) option =
  let plain = nl_use_plain pat plain find in
  let anchor = (not plain) && (match pat with c :: _ -> int_of_z c = 94 | [] -> false) in
  if zlt (zlen src) pos then None
  else if pat = [] then Some ((pos, pos), [])
  else if plain then
    (match plain_find (nat_of_int (List.length src - int_of_z pos)) src pat pos with
     | Some st -> Some ((st, Z.add st (zlen pat)), [])
     | None -> None)
  else begin
    let p0 = if anchor then z_of_int 1 else Z0 in
    let m p = match run_match nl_cfg src pat p0 p with
      | MFound (e, c) -> Some (e, c)
      | MFail -> None
      | MError -> raise (PTrap "error")
      | MTooComplex -> raise (PTrap "complex")
      | MUnsafe -> raise PUnsafe
      | MFuel -> raise PFuel in
    nl_ms_match src m anchor pos
  end

let sub_list (l : z list) (a : z) (n : z) : z list =
  let a = int_of_z a and n = int_of_z n in
  List.filteri (fun i _ -> i >= a && i < a + n) l

(* string_match's reading of the captures: position and unfinished captures stop the program *)
let cap_strings (src : z list) (caps : (z * z) list) : z list list =
  List.map (fun (ci, cl) ->
      if int_of_z cl = -2 then raise (PTrap "poscapture") else if int_of_z cl < 0 then raise (PTrap "unfinished") else sub_list src ci cl) caps

(* ---- the Coq transcription of Lua (str_find_aux / str_gsub around run_match lua_cfg): the SPEC side of the matcher
   theorems, printed after " || " and compared with the real interpreter by checks/C13.py ---- *)
exception LuaErr
let lua_matcher (src : z list) (pat : z list) (p0 : z) : z -> (z * (z * z) list) option =
  fun p -> match run_match lua_cfg src pat p0 p with
    | MFound (e, c) -> Some (e, c)
    | MFail -> None
    | MError | MTooComplex -> raise LuaErr
    | MUnsafe -> raise PUnsafe
    | MFuel -> raise PFuel

let lua_find_aux ?(find = true) (src : z list) (pat : z list) (init : z) (plain : bool) : ((z * z) * (z * z) list) option =
  match lua_find_init init (zlen src) with
  | None -> None
  | Some i0 ->
    (* str_find_aux: the plain search is taken by string.find only (explicit plain, or no special character) *)
    if lua_use_plain pat plain find then
      (match plain_find (nat_of_int (List.length src - int_of_z i0)) src pat i0 with
       | Some st -> Some ((st, Z.add st (zlen pat)), [])
       | None -> None)
    else begin
      let anchor = (match pat with c :: _ -> int_of_z c = 94 | [] -> false) in
      let p0 = if anchor then z_of_int 1 else Z0 in
      lua_do_search src (lua_matcher src pat p0) anchor i0
    end

(* get_onecapture / push_captures as ref.lua prints them: a position capture is 'p<pos>', an unfinished one an error *)
let lua_caps (src : z list) (st : z) (e : z) (caps : (z * z) list) : string list =
  if caps = [] then [hex (sub_list src st (Z.sub e st))]
  else List.map (fun (ci, cl) ->
      let l = int_of_z cl in
      if l = -1 then raise LuaErr
      else if l = -2 then "p" ^ dec_of_z (Z.add ci (z_of_int 1))
      else hex (sub_list src ci cl)) caps

let lua_pattern_spec (op : string) (s : int -> z list) (n : int -> z) : string =
  try
    (match op with
     | "find" ->
       (match lua_find_aux (s 0) (s 1) (n 2) (int_of_z (n 3) <> 0) with
        | None -> "nil"
        | Some ((st, e), caps) ->
          ignore (lua_caps (s 0) st e caps);        (* find pushes the captures too: an unfinished one is an error *)
          dec_of_z (Z.add st (z_of_int 1)) ^ " " ^ dec_of_z e)
     | "match" ->
       (match lua_find_aux ~find:false (s 0) (s 1) (n 2) false with
        | None -> "nil"
        | Some ((st, e), caps) -> "true " ^ String.concat " " (lua_caps (s 0) st e caps))
     | "gsub" | "gsub3" ->
       let src = s 0 and pat = s 1 and repl = s 2 in
       let maxn = if op = "gsub3" then Z.add (zlen src) (z_of_int 1) else n 3 in
       let anchor = (match pat with c :: _ -> int_of_z c = 94 | [] -> false) in
       let p0 = if anchor then z_of_int 1 else Z0 in
       (match lua_gsub (lua_matcher src pat p0) src repl anchor maxn with
        | Some (Ok (r, k)) -> hex r ^ " " ^ dec_of_z k
        | Some Err -> "!error"
        | None -> "!fuel")
     | _ -> "?")
  with LuaErr -> "!error" | PFuel -> "!fuel" | PUnsafe -> "!unsafe"

let pattern_op (op : string) (s : int -> z list) (n : int -> z) : string =
  match op with
  | "find" ->
    let src = s 0 and pat = s 1 in
    (match nl_find_init (n 2) (zlen src) with
     | None -> "0 0"
     | Some i0 ->
       (match ms_match ~find:true src pat (int_of_z (n 3) <> 0) i0 with
        | Some ((st, e), caps) ->
          (* after 55bba64: an unfinished capture stops the program *)
          if List.exists (fun (_, cl) -> int_of_z cl = -1) caps then raise (PTrap "unfinished");
          dec_of_z (Z.add st (z_of_int 1)) ^ " " ^ dec_of_z e
        | None -> "0 0"))
  | "match" ->
    let src = s 0 and pat = s 1 in
    (match nl_find_init (n 2) (zlen src) with
     | None -> "false"
     | Some i0 ->
       (match ms_match src pat false i0 with
        | None -> "false"
        | Some ((st, e), caps) ->
          let strs = if caps = [] then [sub_list src st (Z.sub e st)] else cap_strings src caps in
          "true" ^ String.concat "" (List.map (fun x -> " " ^ hex x) strs)))
  | "gmatch" ->
    (* after 0222fe3 / 893bab4: lastend rule, '^' is a literal; one iteration = extracted nl_gmatch_next *)
    let src = s 0 and pat = s 1 in
    let len = List.length src in
    let buf = Buffer.create 64 in
    let m p = match run_match nl_cfg src pat Z0 p with
      | MFound (e, c) -> Some (e, c)
      | MFail -> None
      | MError -> raise (PTrap "error")
      | MTooComplex -> raise (PTrap "complex")
      | MUnsafe -> raise PUnsafe
      | MFuel -> raise PFuel in
    let rec loop init lastend k first =
      match nl_gmatch_next (nat_of_int (len + 1)) m src init lastend with
      | None -> true
      | Some ((st, e), caps) ->
        if k + 1 > len + 1 then false
        else begin
          if List.length caps > 8 then raise (PTrap "caplimit");
          let strs = if caps = [] then [sub_list src st (Z.sub e st)] else cap_strings src caps in
          if not first then Buffer.add_char buf ' ';
          Buffer.add_string buf (String.concat "," (List.map hex strs));
          loop e (Z.add e (z_of_int 1)) (k + 1) false
        end in
    if loop Z0 Z0 0 true then "[" ^ Buffer.contents buf ^ "]" else "!loop"
  | "gsub" | "gsub3" ->
    let src = s 0 and pat = s 1 and repl = s 2 in
    let maxn = if op = "gsub3" then Z.add (zlen src) (z_of_int 1) else n 3 in
    let anchor = (match pat with c :: _ -> int_of_z c = 94 | [] -> false) in
    let p0 = if anchor then z_of_int 1 else Z0 in
    let m p =
      if pat = [] then Some (p, [])
      else match run_match nl_cfg src pat p0 p with
        | MFound (e, c) -> Some (e, c)
        | MFail -> None
        | MError -> raise (PTrap "error")
      | MTooComplex -> raise (PTrap "complex")
        | MUnsafe -> raise PUnsafe
        | MFuel -> raise PFuel in
    (match nl_gsub m src repl anchor maxn with
     | Some (Ok (r, k)) -> hex r ^ " " ^ dec_of_z k
     | Some Err -> "!trap"
     | None -> "!fuel")
  | _ -> "?"

(* ---- string.pack / string.unpack formats: the option list handed to the extracted drivers ----
   (this reading of the format is glue of the harness, exercised against the real parser on every case;
    native sizes of the LP64 platform; None = an option outside the modelled ones or a malformed format) *)
let parse_opts (f : string) : popt list option =
  let n = String.length f in
  let pos = ref 0 in
  let getnum () =
    let st = !pos in
    while !pos < n && f.[!pos] >= '0' && f.[!pos] <= '9' do incr pos done;
    if !pos = st || !pos - st > 6 then None else Some (int_of_string (String.sub f st (!pos - st))) in
  let numlimit def = match getnum () with None -> Some def | Some k -> if k >= 1 && k <= 16 then Some k else None in
  let native c = match c with
    | 'b' -> Some (1, true) | 'B' -> Some (1, false) | 'h' -> Some (2, true) | 'H' -> Some (2, false)
    | 'l' -> Some (8, true) | 'L' -> Some (8, false) | 'j' -> Some (8, true) | 'J' -> Some (8, false)
    | 'T' -> Some (8, false) | _ -> None in
  let out = ref [] in
  let ok = ref true in
  let zi k = z_of_int k in
  while !ok && !pos < n do
    let c = f.[!pos] in
    incr pos;
    (match c with
     | ' ' -> ()
     | '<' | '=' -> out := OLittle true :: !out
     | '>' -> out := OLittle false :: !out
     | '!' -> (match numlimit 8 with Some k -> out := OMaxAlign (zi k) :: !out | None -> ok := false)
     | 'x' -> out := OPad :: !out
     | 'X' ->
       if !pos >= n then ok := false
       else begin
         let c2 = f.[!pos] in
         incr pos;
         (match c2 with
          | 's' -> (match numlimit 8 with Some k -> out := OAlign (zi k) :: !out | None -> ok := false)
          | 'i' | 'I' -> (match numlimit 4 with Some k -> out := OAlign (zi k) :: !out | None -> ok := false)
          | 'x' -> out := OAlign (zi 1) :: !out
          | _ -> (match native c2 with Some (k, _) -> out := OAlign (zi k) :: !out | None -> ok := false))
       end
     | 'i' | 'I' -> (match numlimit 4 with Some k -> out := OInt (zi k, c = 'i') :: !out | None -> ok := false)
     | 's' -> (match numlimit 8 with Some k -> out := OStrS (zi k) :: !out | None -> ok := false)
     | 'z' -> out := OStrZ :: !out
     | 'c' -> (match getnum () with Some k -> out := OStrC (zi k) :: !out | None -> ok := false)
     | _ -> (match native c with Some (k, sg) -> out := OInt (zi k, sg) :: !out | None -> ok := false))
  done;
  if !ok then Some (List.rev !out) else None

let string_of_bytes (l : z list) = String.concat "" (List.map (fun c -> String.make 1 (Char.chr (int_of_z c))) l)

let unpack_formats : string list =
  let base = List.concat_map (fun e -> List.concat_map (fun k -> [e ^ "i" ^ string_of_int k; e ^ "I" ^ string_of_int k])
                                         (List.init 16 (fun i -> i + 1))) ["<"; ">"] in
  base @ ["<b"; "<B"; "<h"; ">h"; "<H"; ">H"; "<l"; ">l"; "<j"; ">j"; "<J"; ">J"; "<T"; ">T";
          "!4 <i1 i4"; "!8 >i1 i8"; "!2 <i1 i8"; "!<i1 i3"; "<i1 Xi4 i2"; "<s1"; ">s2"; "<s4"; "z"; "c3"; "<i2 x i2"]

let () =
  iter_lines (fun line ->
    match split_ws line with
    | [] -> ()
    | op :: args ->
      let s i = bytes_of_tok (List.nth args i) in
      let n i = z_of_dec (List.nth args i) in
      let out =
        try
          (match op with
           | "len" -> dec_of_z (slen (s 0))
           | "sub" -> hex (nl_sub (s 0) (n 1) (n 2)) ^ " || " ^ hex (lua_sub (s 0) (n 1) (n 2))
           | "subview" -> hex (nl_sub (s 0) (n 1) (n 2))
           | "sub1" -> hex (nl_sub (s 0) (n 1) (z_of_int (-1))) ^ " || " ^ hex (lua_sub (s 0) (n 1) (z_of_int (-1)))
           | "byte" -> res dec_of_z (nl_byte (s 0) (n 1)) ^ " || " ^ (match lua_byte (s 0) (n 1) with Some v -> dec_of_z v | None -> "nil")
           | "lt" -> b2s (nl_strlt (s 0) (s 1)) ^ " || " ^ (match lua_strlt (s 0) (s 1) with Some b -> b2s b | None -> "!fuel")
           | "le" -> b2s (nl_strle (s 0) (s 1)) ^ " || " ^ (match lua_strle (s 0) (s 1) with Some b -> b2s b | None -> "!fuel")
           | "eq" -> b2s (nl_streq (s 0) (s 1))
           | "rep" -> res hex (nl_rep (s 0) (n 1)) ^ " || " ^ lres hex (lua_rep (s 0) (n 1) [])
           | "repsep" -> res hex (nl_rep_sep (s 0) (n 1) (s 2)) ^ " || " ^ lres hex (lua_rep (s 0) (n 1) (s 2))
           | "reverse" -> hex (nl_reverse (s 0))
           | "upper" -> hex (nl_upper (s 0)) ^ " || " ^ hex (lua_upper (s 0))
           | "lower" -> hex (nl_lower (s 0)) ^ " || " ^ hex (lua_lower (s 0))
           | "utf8char" -> res hex (nl_utf8char (n 0)) ^ " || " ^ lres hex (lua_utf8char (n 0))
           | "fmt0" | "fmti" | "fmtii" | "fmts" | "fmtis" | "fmtsi" ->
             (* arguments: integers in decimal, strings as x-hex; float conversions are not modelled *)
             let cfloat _ _ = raise Decline in
             let fargs = List.map (fun t -> if t = "e" || (String.length t > 0 && t.[0] = 'x') then AStr (bytes_of_tok t) else AInt (z_of_dec t)) (List.tl args) in
             (* the bounded model: every snprintf call with the size bound of its call site *)
             let nlv = res hex (nl_format_b cfloat (s 0) fargs) in
             let luav = (match lua_format cfloat (s 0) fargs with LVal v -> hex v | LErr -> "!error") in
             nlv ^ " || " ^ luav
           | "packsize" ->
             (* the reference reads a C string: a format with a NUL byte is outside the transcription *)
             let spec = if List.exists (fun c -> int_of_z c = 0) (s 0) then "?" else lres dec_of_z (lua_packsize (s 0)) in
             res dec_of_z (nl_packsize (s 0)) ^ " || " ^ spec
           | "utf8len" ->
             let show = function LenOk k -> dec_of_z k | LenFail p -> "fail " ^ dec_of_z p | LenFuel -> "!fuel" in
             (match nl_utf8len (s 0) (n 1) (n 2) (int_of_z (n 3) = 0) with
              | Val r -> show r
              | Trap -> "!trap" | Unsafe -> "!unsafe")
             ^ " || " ^ lres show (lua_utf8len (s 0) (n 1) (n 2) (int_of_z (n 3) = 0))
           | "utf8offset" -> res dec_of_z (nl_utf8offset (s 0) (n 1) (n 2))
                             ^ " || " ^ lres (function Some v -> dec_of_z v | None -> "nil") (lua_utf8offset (s 0) (n 1) (n 2))
           | "utf8offset2" -> res dec_of_z (nl_utf8offset (s 0) (n 1) (offset_default (s 0) (n 1)))
           | "utf8codes" ->
             let src = s 0 in
             let strict = int_of_z (n 1) = 0 in
             let buf = Buffer.create 64 in
             let rec loop i k first =
               if k > List.length src + 1 then "!fuel"
               else match nl_codes_step src i strict with
                 | StepEnd -> "[" ^ Buffer.contents buf ^ "]"
                 | StepErr -> "!trap"
                 | StepVal (p, c) ->
                   if not first then Buffer.add_char buf ' ';
                   Buffer.add_string buf (dec_of_z p ^ ":" ^ dec_of_z c);
                   loop p (k + 1) false in
             loop Z0 0 true
           | "utf8codepoint" -> res dec_of_z (nl_utf8codepoint (s 0) (n 1) (int_of_z (n 2) = 0))
                                ^ " || " ^ lres dec_of_z (lua_utf8codepoint (s 0) (n 1) (int_of_z (n 2) = 0))
           | "pack1" | "pack2" | "packs" ->
             (match parse_opts (string_of_bytes (s 0)) with
              | None -> "?"
              | Some opts ->
                let vals = List.map (fun t -> if t = "e" || (String.length t > 0 && t.[0] = 'x') then VStr (bytes_of_tok t) else VInt (z_of_dec t)) (List.tl args) in
                (match nl_pack_opts opts vals true (z_of_int 1) [] with
                 | Val (o, _) -> hex o
                 | Trap -> "!trap" | Unsafe -> "!unsafe"))
           | "unpack" ->
             let k = int_of_z (n 0) in
             let data = s 1 in
             let init = int_of_z (n 2) in
             if k < 1 || k > List.length unpack_formats || init < 1 || init - 1 > List.length data then "?"
             else begin
               let fmt = List.nth unpack_formats (k - 1) in
               match parse_opts fmt with
               | None -> "?"
               | Some opts ->
                 let unsigned = List.exists (fun c -> String.contains fmt c) ['I'; 'B'; 'H'; 'L'; 'J'; 'T'] in
                 (match nl_unpack_opts opts data (z_of_int (init - 1)) true (z_of_int 1) with
                  | Val (vs, e) ->
                    String.concat " " (List.map (function VInt v -> dec_of_z (if unsigned then u64 v else v) | VStr b -> hex b) vs @ [dec_of_z e])
                  | Trap -> "!trap" | Unsafe -> "!unsafe")
             end
           | "find" | "match" | "gmatch" | "gsub" | "gsub3" ->
             (* the extracted matcher backtracks like the real one but on unary/binary-coded integers:
                no model voice for patterns with many quantifiers (exponential search) *)
             let quants = List.length (List.filter (fun c -> let c = int_of_z c in c = 63 || c = 42 || c = 43 || c = 45) (s 1)) in
             if quants > 10 || List.length (s 1) > 200 || List.length (s 0) > 64 then "?"
             else (try pattern_op op s n with PTrap r -> "!trap:" ^ r | PUnsafe -> "!unsafe" | PFuel -> "!fuel")
                  ^ (if op = "gmatch" then "" else " || " ^ lua_pattern_spec op s n)
           | "abs" -> dec_of_z (nl_abs (n 0)) ^ " || " ^ dec_of_z (lua_abs (n 0))
           | "fmod" -> res dec_of_z (nl_fmod (n 0) (n 1)) ^ " || " ^ lres dec_of_z (lua_fmod (n 0) (n 1))
           | "ult" -> b2s (nl_ult (n 0) (n 1))
           | "max2" -> dec_of_z (nl_max2 (n 0) (n 1))
           | "min2" -> dec_of_z (nl_min2 (n 0) (n 1))
           | "max3" -> dec_of_z (nl_max_l (n 0) [n 1; n 2])
           | "min3" -> dec_of_z (nl_min_l (n 0) [n 1; n 2])
           | "floor" | "ceil" | "tointeger" -> dec_of_z (n 0)
           | _ -> "?")
        with Decline -> "?" | e -> "!exn " ^ Printexc.to_string e
      in
      print_string out; print_newline ())
