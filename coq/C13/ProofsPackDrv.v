(* C13 (f, continued) - string.unpack(fmt, string.pack(fmt, ...)) returns the packed values (a c[n] string padded
   to n bytes, as in Lua) and the position after the packed data + 1: for every list of options made of sized
   integers, strings (s[n], z, c[n]), padding (x, X), endianness and maximum alignment, whenever pack succeeds and
   the result is below 2 GiB.  Composes the integer codec (ProofsPack.v), the padding (nl_alignforward,
   ProofsPackFmt.v) and the two drivers (ModelPackDrv.v). *)
From C13 Require Import Model ModelPack ModelPackFmt ModelPackDrv ProofsIdx ProofsDrv ProofsPack ProofsPackFmt.
Local Open Scope Z_scope.

Lemma slen_app (a b : bytes) : slen (a ++ b) = slen a + slen b.
Proof. unfold slen. rewrite app_length. lia. Qed.

Lemma slen_zeros0 n : slen (zeros0 n) = Z.max 0 n.
Proof. unfold slen, zeros0. rewrite repeat_length. lia. Qed.

Lemma slice_mid (a m t : bytes) : slice (a ++ m ++ t) (slen a) (slen m) = m.
Proof.
  unfold slice, slen. rewrite !Nat2Z.id. rewrite skipn_app, skipn_all, Nat.sub_diag. cbn [app skipn].
  rewrite firstn_app, firstn_all, Nat.sub_diag. cbn [firstn]. apply app_nil_r.
Qed.

Lemma pack_core_length n size neg little : 1 <= size <= 16 -> slen (pack_core n size neg little) = size.
Proof.
  intros Hs. unfold pack_core, slen.
  assert (L : length (sign_extend_tail (pack_bytes (Z.to_nat size) n) size neg) = Z.to_nat size).
  { unfold sign_extend_tail. destruct (Z.ltb_spec 8 size); cbn [andb]; [destruct neg|]; try apply pack_bytes_length.
    rewrite app_length, firstn_length, pack_bytes_length, repeat_length. lia. }
  destruct little; [|rewrite rev_length]; rewrite L; lia.
Qed.

(* the integer codec, from the success of the port's packint *)
Lemma packint_unpack v size little sg bs : in_i64 v -> 1 <= size <= 16 ->
  nl_packint v size little sg = Val bs -> nl_unpack_int bs size little sg = Some v /\ slen bs = size.
Proof.
  intros Hv Hs E. destruct sg.
  - pose proof (pack_int_eq_lua v size little Hv Hs) as H. unfold nl_pack_int in H. unfold lua_pack_int in H.
    destruct ((size <? 8) && negb ((- 2 ^ (8 * size - 1) <=? v) && (v <? 2 ^ (8 * size - 1)))) eqn:C; [congruence|].
    rewrite E in H. inversion H. subst bs. split; [|apply pack_core_length; exact Hs].
    apply core_unpack_int_roundtrip; [exact Hs|exact Hv|]. intros Hlt.
    destruct (Z.ltb_spec size 8); [|lia]. cbn [andb] in C. apply negb_false_iff in C. lia.
  - pose proof (pack_uint_eq_lua v size little Hv Hs) as H. unfold nl_pack_uint in H. unfold lua_pack_uint in H.
    destruct ((size <? 8) && negb (u64 v <? 2 ^ (8 * size))) eqn:C; [congruence|].
    rewrite E in H. inversion H. subst bs. split; [|apply pack_core_length; exact Hs].
    apply core_unpack_uint_roundtrip; [exact Hs|exact Hv|]. intros Hlt.
    destruct (Z.ltb_spec size 8); [|lia]. cbn [andb] in C. apply negb_false_iff in C. apply Z.ltb_lt in C.
    assert (2 ^ (8 * size) <= 2 ^ 56) by (apply Z.pow_le_mono_r; lia). change (2 ^ 56) with 72057594037927936 in *.
    destruct (Z.lt_ge_cases v 0) as [Hneg|Hpos].
    + exfalso. unfold in_i64, minint, two63 in Hv.
      assert (Hu : u64 v = v + two64).
      { unfold u64. rewrite <- (Z_mod_plus_full v 1 two64). rewrite Z.mul_1_l. apply Z.mod_small. unfold two64. lia. }
      rewrite Hu in C. unfold two64 in C. lia.
    + rewrite u64_small in C by (unfold in_i64, maxint, two63 in Hv; unfold two64; lia). lia.
Qed.

Lemma alignforward_ge total al ma l : 0 <= total <= LUA_MAXSIZE -> 1 <= ma <= 16 -> 0 <= al <= 16 ->
  nl_alignforward total al ma = Val l -> total <= l.
Proof.
  intros Ht Hm Hal H. pose proof (alignforward_eq_lua total al ma Ht Hm Hal) as B. cbn zeta in B.
  destruct (Z.leb_spec al 1); [rewrite B in H; inversion H; lia|].
  set (a := if ma <? al then ma else al) in *.
  assert (1 <= a) by (subst a; destruct (Z.ltb_spec ma al); lia).
  destruct (negb (Z.land a (a - 1) =? 0)); [rewrite B in H; discriminate H|].
  rewrite B in H. inversion H. pose proof (land_nonneg_r (a - Z.land total (a - 1)) (a - 1) ltac:(lia)). lia.
Qed.

Lemma find_nul_app s t : has_nul s = false -> find_nul (s ++ 0 :: t) = Some (slen s).
Proof.
  unfold has_nul. induction s as [|c r IH]; [reflexivity|]. cbn [existsb app find_nul]. intros H.
  apply orb_false_iff in H. destruct H as [Hc Hr]. apply Z.eqb_neq in Hc. destruct (Z.eqb_spec c 0); [lia|].
  rewrite (IH Hr). f_equal. unfold slen. cbn [length]. lia.
Qed.

Lemma append_aligned_shape buf size ma item b : append_aligned buf size ma item = Val b ->
  exists l, nl_alignforward (slen buf) size ma = Val l /\ b = buf ++ zeros0 (l - slen buf) ++ item.
Proof.
  unfold append_aligned. destruct (nl_alignforward (slen buf) size ma) as [l| |]; try discriminate.
  intros E. inversion E. exists l. split; reflexivity.
Qed.

Lemma in_i64b_true v : in_i64b v = true -> in_i64 v.
Proof. unfold in_i64b, in_i64. lia. Qed.

Theorem pack_unpack_format_roundtrip : forall opts vals little ma buf out rest,
  forallb opt_ok opts = true -> forallb val_ok vals = true -> 1 <= ma <= 16 ->
  nl_pack_opts opts vals little ma buf = Val (out, rest) -> slen out <= LUA_MAXSIZE ->
  (exists t, out = buf ++ t) /\
  nl_unpack_opts opts out (slen buf) little ma = Val (expected opts vals, slen out + 1).
Proof.
  induction opts as [|o r IH]; intros vals little ma buf out rest Hopts Hvals Hma Hp Hmax.
  - cbn in Hp. inversion Hp. subst. split; [exists []; symmetry; apply app_nil_r|reflexivity].
  - cbn [forallb] in Hopts. apply andb_true_iff in Hopts. destruct Hopts as [Ho Hr].
    pose proof (slen_nonneg buf) as Hb0.
    destruct o as [size sg|n| |n| |a|b|n]; cbn [nl_pack_opts] in Hp; cbn [nl_unpack_opts expected opt_ok] in *.
    + (* sized integer *)
      destruct vals as [|[v|s] vals']; try discriminate.
      cbn [forallb val_ok] in Hvals. apply andb_true_iff in Hvals. destruct Hvals as [Hv Hvals]. apply in_i64b_true in Hv.
      destruct (nl_packint v size little sg) as [bs| |] eqn:Epk; try discriminate.
      destruct (append_aligned buf size ma bs) as [b| |] eqn:Eap; try discriminate.
      destruct (append_aligned_shape _ _ _ _ _ Eap) as (l & El & Eb).
      destruct (IH vals' little ma b out rest Hr Hvals Hma Hp Hmax) as ((t & Et) & Hu).
      destruct (packint_unpack v size little sg bs Hv ltac:(lia) Epk) as (Hun & Hlen).
      assert (Hbl : slen buf <= slen out) by (rewrite Et, Eb, !slen_app; pose proof (slen_nonneg t); pose proof (slen_nonneg bs); pose proof (slen_nonneg (zeros0 (l - slen buf))); lia).
      pose proof (alignforward_ge (slen buf) size ma l ltac:(lia) Hma ltac:(lia) El) as Hge.
      assert (Hpre : slen (buf ++ zeros0 (l - slen buf)) = l) by (rewrite slen_app, slen_zeros0; lia).
      split; [exists (zeros0 (l - slen buf) ++ bs ++ t); rewrite Et, Eb; rewrite <- !app_assoc; reflexivity|].
      rewrite El.
      assert (Hout : out = (buf ++ zeros0 (l - slen buf)) ++ bs ++ t) by (rewrite Et, Eb; rewrite <- !app_assoc; reflexivity).
      assert (Hsl : slice out l size = bs).
      { rewrite Hout. set (pre := buf ++ zeros0 (l - slen buf)) in *. rewrite <- Hpre, <- Hlen. apply slice_mid. }
      assert (Hlo : slen out = l + size + slen t).
      { rewrite Hout. set (pre := buf ++ zeros0 (l - slen buf)) in *. rewrite !slen_app, Hpre, Hlen. lia. }
      pose proof (slen_nonneg t).
      destruct (Z.ltb_spec (slen out) (l + size)); [lia|]. rewrite Hsl, Hun.
      assert (Hbs : slen b = l + size) by (rewrite Eb, app_assoc, slen_app, Hpre, Hlen; reflexivity).
      rewrite <- Hbs. rewrite Hu. reflexivity.
    + (* s[n] *)
      destruct vals as [|[v|s] vals']; try discriminate.
      cbn [forallb val_ok] in Hvals. apply andb_true_iff in Hvals. destruct Hvals as [Hv Hvals].
      destruct ((n <? 8) && negb (slen s <? 2 ^ (8 * n))); [discriminate|].
      destruct (nl_packint (slen s) n little false) as [bs| |] eqn:Epk; try discriminate.
      destruct (append_aligned buf n ma bs) as [b| |] eqn:Eap; try discriminate.
      destruct (append_aligned_shape _ _ _ _ _ Eap) as (l & El & Eb).
      destruct (IH vals' little ma (b ++ s) out rest Hr Hvals Hma Hp Hmax) as ((t & Et) & Hu).
      pose proof (slen_nonneg s) as Hs0. pose proof (slen_nonneg t). pose proof (slen_nonneg bs).
      pose proof (slen_nonneg (zeros0 (l - slen buf))).
      assert (Hso : slen s <= slen out /\ slen buf <= slen out) by (rewrite Et, Eb, !slen_app; lia).
      assert (Hi : in_i64 (slen s)) by (unfold in_i64, minint, maxint, two63; unfold LUA_MAXSIZE in Hmax; lia).
      destruct (packint_unpack (slen s) n little false bs Hi ltac:(lia) Epk) as (Hun & Hlen).
      pose proof (alignforward_ge (slen buf) n ma l ltac:(lia) Hma ltac:(lia) El) as Hge.
      assert (Hpre : slen (buf ++ zeros0 (l - slen buf)) = l) by (rewrite slen_app, slen_zeros0; lia).
      split; [exists (zeros0 (l - slen buf) ++ bs ++ s ++ t); rewrite Et, Eb; rewrite <- !app_assoc; reflexivity|].
      rewrite El.
      assert (Hout : out = (buf ++ zeros0 (l - slen buf)) ++ bs ++ (s ++ t)) by (rewrite Et, Eb; rewrite <- !app_assoc; reflexivity).
      assert (Hsl : slice out l n = bs).
      { rewrite Hout. set (pre := buf ++ zeros0 (l - slen buf)) in *. rewrite <- Hpre, <- Hlen. apply slice_mid. }
      assert (Hlo : slen out = l + n + slen s + slen t).
      { rewrite Hout. set (pre := buf ++ zeros0 (l - slen buf)) in *. rewrite !slen_app, Hpre, Hlen. lia. }
      destruct (Z.ltb_spec (slen out) (l + n)); [lia|]. rewrite Hsl, Hun.
      assert (Hus : u64 (slen s) = slen s) by (apply u64_small; unfold two64; unfold LUA_MAXSIZE in Hmax; lia).
      rewrite Hus. destruct (Z.ltb_spec (slen out) (l + n + slen s)); [lia|].
      assert (Hout2 : out = ((buf ++ zeros0 (l - slen buf)) ++ bs) ++ s ++ t) by (rewrite Hout; rewrite <- !app_assoc; reflexivity).
      assert (Hpre2 : slen ((buf ++ zeros0 (l - slen buf)) ++ bs) = l + n) by (rewrite slen_app, Hpre, Hlen; reflexivity).
      assert (Hss : slice out (l + n) (slen s) = s).
      { rewrite Hout2 at 1. set (pre2 := (buf ++ zeros0 (l - slen buf)) ++ bs) in *. rewrite <- Hpre2. apply slice_mid. }
      rewrite Hss.
      assert (Hbs : slen (b ++ s) = l + n + slen s) by (rewrite Eb, !slen_app, slen_zeros0, Hlen; lia).
      rewrite <- Hbs. rewrite Hu. reflexivity.
    + (* z *)
      destruct vals as [|[v|s] vals']; try discriminate.
      cbn [forallb val_ok] in Hvals. apply andb_true_iff in Hvals. destruct Hvals as [Hv Hvals].
      destruct (has_nul s) eqn:Hz; [discriminate|].
      destruct (IH vals' little ma (buf ++ s ++ [0]) out rest Hr Hvals Hma Hp Hmax) as ((t & Et) & Hu).
      split; [exists (s ++ [0] ++ t); rewrite Et; rewrite <- !app_assoc; reflexivity|].
      assert (Hout : out = buf ++ s ++ 0 :: t) by (rewrite Et; rewrite <- !app_assoc; reflexivity).
      assert (Hsk : skipn (Z.to_nat (slen buf)) out = s ++ 0 :: t).
      { rewrite Hout. unfold slen. rewrite Nat2Z.id, skipn_app, skipn_all, Nat.sub_diag. reflexivity. }
      rewrite Hsk, (find_nul_app s t Hz).
      assert (Hss : slice out (slen buf) (slen s) = s) by (rewrite Hout; apply (slice_mid buf s (0 :: t))).
      rewrite Hss.
      assert (Hbs : slen (buf ++ s ++ [0]) = slen buf + slen s + 1) by (rewrite !slen_app; change (slen [0]) with 1; lia).
      rewrite <- Hbs. rewrite Hu. reflexivity.
    + (* c[n] *)
      destruct vals as [|[v|s] vals']; try discriminate.
      cbn [forallb val_ok] in Hvals. apply andb_true_iff in Hvals. destruct Hvals as [Hv Hvals].
      destruct (Z.ltb_spec n (slen s)); [discriminate|].
      destruct (IH vals' little ma (buf ++ s ++ zeros0 (n - slen s)) out rest Hr Hvals Hma Hp Hmax) as ((t & Et) & Hu).
      split; [exists (s ++ zeros0 (n - slen s) ++ t); rewrite Et; rewrite <- !app_assoc; reflexivity|].
      pose proof (slen_nonneg s). pose proof (slen_nonneg t).
      assert (Hm : slen (s ++ zeros0 (n - slen s)) = n) by (rewrite slen_app, slen_zeros0; lia).
      assert (Hout : out = buf ++ (s ++ zeros0 (n - slen s)) ++ t) by (rewrite Et; rewrite <- !app_assoc; reflexivity).
      assert (Hlo : slen out = slen buf + n + slen t) by (rewrite Hout, !slen_app; rewrite slen_app in Hm; lia).
      destruct (Z.ltb_spec (slen out) (slen buf + n)); [lia|].
      assert (Hss : slice out (slen buf) n = s ++ zeros0 (n - slen s)).
      { rewrite Hout at 1. set (mid := s ++ zeros0 (n - slen s)) in *. rewrite <- Hm. apply slice_mid. }
      rewrite Hss.
      assert (Hbs : slen (buf ++ s ++ zeros0 (n - slen s)) = slen buf + n) by (rewrite slen_app, Hm; reflexivity).
      rewrite <- Hbs. rewrite Hu. reflexivity.
    + (* x *)
      destruct (IH vals little ma (buf ++ [0]) out rest Hr Hvals Hma Hp Hmax) as ((t & Et) & Hu).
      split; [exists ([0] ++ t); rewrite Et; rewrite <- app_assoc; reflexivity|].
      assert (Hlo : slen out = slen buf + 1 + slen t) by (rewrite Et, !slen_app; change (slen [0]) with 1; lia).
      pose proof (slen_nonneg t). destruct (Z.ltb_spec (slen out) (slen buf + 1)); [lia|].
      assert (Hbs : slen (buf ++ [0]) = slen buf + 1) by (rewrite slen_app; change (slen [0]) with 1; lia).
      rewrite <- Hbs. exact Hu.
    + (* X *)
      destruct (append_aligned buf a ma []) as [b| |] eqn:Eap; try discriminate.
      destruct (append_aligned_shape _ _ _ _ _ Eap) as (l & El & Eb). rewrite app_nil_r in Eb.
      destruct (IH vals little ma b out rest Hr Hvals Hma Hp Hmax) as ((t & Et) & Hu).
      pose proof (slen_nonneg t). pose proof (slen_nonneg (zeros0 (l - slen buf))).
      assert (Hbl : slen buf <= slen out) by (rewrite Et, Eb, !slen_app; lia).
      pose proof (alignforward_ge (slen buf) a ma l ltac:(lia) Hma ltac:(lia) El) as Hge.
      split; [exists (zeros0 (l - slen buf) ++ t); rewrite Et, Eb; rewrite <- app_assoc; reflexivity|].
      rewrite El. assert (Hbs : slen b = l) by (rewrite Eb, slen_app, slen_zeros0; lia).
      rewrite <- Hbs. exact Hu.
    + (* < > = *)
      apply (IH vals b ma buf out rest Hr Hvals Hma Hp Hmax).
    + (* ! *)
      apply (IH vals little n buf out rest Hr Hvals ltac:(lia) Hp Hmax).
Qed.

(* from the empty buffer: string.unpack(fmt, string.pack(fmt, ...)) *)
Corollary pack_unpack_format_roundtrip0 opts vals little out rest :
  forallb opt_ok opts = true -> forallb val_ok vals = true ->
  nl_pack_opts opts vals little 1 [] = Val (out, rest) -> slen out <= LUA_MAXSIZE ->
  nl_unpack_opts opts out 0 little 1 = Val (expected opts vals, slen out + 1).
Proof.
  intros Ho Hv Hp Hm. apply (pack_unpack_format_roundtrip opts vals little 1 [] out rest Ho Hv ltac:(lia) Hp Hm).
Qed.
