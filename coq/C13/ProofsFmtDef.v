(* C13 (g, continued) - string.format never reaches undefined behaviour: on every conversion specification that the
   port's scanformat + checkformat accept, and every integer or string argument, the C function it calls is DEFINED
   ([c99_snprintf] is not None: no flag, precision or length modifier that ISO C99 7.21.6.1 leaves undefined for the
   conversion) - so nl_format never has the outcome Unsafe. *)
From C13 Require Import Model ModelFmt ProofsFmt.
Local Open Scope Z_scope.

(* some lemmas of ProofsFmt.v were closed inside a Section and carry its (unused) float formatter as a parameter *)
Local Definition nof : bytes -> Z -> bytes := fun _ _ => [].

(* what [scan] consumed after the flags: up to two digits not starting with '0', then - only when a precision is
   allowed - a dot and up to two digits *)
Lemma scan_struct al pr s fl wp rem : scan al pr true s = (fl, wp, rem) ->
  exists w dotp, wp = w ++ dotp /\ forallb c_isdigit w = true /\
    (dotp = [] \/ (pr = true /\ exists p, dotp = 46 :: p /\ forallb c_isdigit p = true /\ (length p <= 2)%nat)) /\
    (wp = [] \/ hd0 wp <> 48) /\ (length w <= 2)%nat.
Proof.
  unfold scan. destruct (span al s) as [f s1].
  destruct (Z.eqb_spec (hd0 s1) 48) as [H48|H48]; cbn [andb].
  { intros E. inversion E. subst. exists [], []. repeat split; try reflexivity; try (left; reflexivity). cbn; lia. }
  destruct (take2 s1) as [w s2] eqn:E2. pose proof (take2_app _ _ _ E2) as Ea. destruct (take2_digits nof _ _ _ E2) as [Hd Hl2].
  assert (Hw : w = [] \/ hd0 w <> 48).
  { destruct w as [|x w']; [left; reflexivity|right]. subst s1. exact H48. }
  destruct s2 as [|c s3].
  { intros E; inversion E; subst. exists wp, []. rewrite app_nil_r. repeat split; try assumption. left; reflexivity. }
  destruct (Z.eqb_spec c 46) as [->|N]; cbn [andb].
  2:{ intros E; inversion E; subst. exists wp, []. rewrite app_nil_r. repeat split; try assumption. left; reflexivity. }
  destruct pr.
  2:{ intros E; inversion E; subst. exists wp, []. rewrite app_nil_r. repeat split; try assumption. left; reflexivity. }
  destruct (take2 s3) as [p s4] eqn:E3. destruct (take2_digits nof _ _ _ E3) as [Hd3 Hl3].
  intros E; inversion E; subst. exists w, (46 :: p). split; [reflexivity|]. split; [exact Hd|].
  split; [right; split; [reflexivity|exists p; split; [reflexivity|split; [exact Hd3|exact Hl3]]]|].
  split; [|exact Hl2]. right. destruct Hw as [->|Hw]; [cbn; lia|]. destruct w; [cbn; lia|exact Hw].
Qed.

Lemma forallb_impl {A} (P Q : A -> bool) l : (forall x, P x = true -> Q x = true) -> forallb P l = true -> forallb Q l = true.
Proof. intros H. rewrite !forallb_forall. intros Hl x Hx. apply H, Hl, Hx. Qed.

(* the C library's reading of a well-formed specification *)
Lemma c99_parse_ok fl w dotp ll c :
  forallb isflagF fl = true -> forallb c_isdigit w = true -> (w = [] \/ hd0 w <> 48) ->
  (dotp = [] \/ exists p, dotp = 46 :: p /\ forallb c_isdigit p = true /\ (length p <= 2)%nat) ->
  (ll = [] \/ ll = LL) -> c_isalpha c = true -> c <> 108 ->
  exists sp, c99_parse (37 :: fl ++ w ++ dotp ++ ll ++ [c]) = Some sp /\
    c_conv sp = c /\ c_ll sp = (match ll with [] => false | _ => true end) /\
    f_hash sp = mem 35 fl /\ f_zero sp = mem 48 fl /\
    (dotp = [] -> c_prec sp = None) /\
    c_width sp = dec_value 0 w /\
    (forall p, dotp = 46 :: p -> c_prec sp = Some (dec_value 0 p)).
Proof.
  intros Hfl Hw Hw0 Hdot Hll Hc Hl.
  destruct (alpha_not_spanset c Hc) as (_ & HcF & Hcd & Hc46).
  unfold c99_parse. cbn [hd0 tl]. change (negb (37 =? 37)) with false. cbv iota.
  assert (Hlnd : c_isdigit 108 = false) by reflexivity.
  (* flags *)
  assert (St1 : stops isflagF (w ++ dotp ++ ll ++ [c])).
  { destruct w as [|x w']; cbn [app].
    - destruct Hdot as [-> | (p & -> & _ & _)]; [|reflexivity]. cbn [app].
      destruct Hll as [-> | ->]; [exact HcF|reflexivity].
    - cbn. cbn in Hw. apply andb_true_iff in Hw. destruct Hw as [Hx _]. destruct Hw0 as [Hw0|Hw0]; [discriminate|]. cbn in Hw0.
      unfold c_isdigit, between in Hx. unfold isflagF. lia. }
  rewrite (span_unique isflagF fl _ Hfl St1).
  (* width *)
  assert (St2 : stops c_isdigit (dotp ++ ll ++ [c])).
  { destruct Hdot as [-> | (p & -> & _ & _)]; [|reflexivity]. cbn [app]. destruct Hll as [-> | ->]; [exact Hcd|exact Hlnd]. }
  rewrite (span_unique c_isdigit w _ Hw St2).
  destruct Hdot as [-> | (p & -> & Hp & _)]; cbn [app].
  - (* no precision *)
    assert (H46 : hd0 (ll ++ [c]) =? 46 = false).
    { destruct Hll as [-> | ->]; cbn; [destruct (Z.eqb_spec c 46); [contradiction|reflexivity]|reflexivity]. }
    rewrite H46.
    destruct Hll as [-> | ->]; cbn [app hd0 tl LL].
    + destruct (Z.eqb_spec c 108); [contradiction|]. cbn [andb].
      eexists. split; [reflexivity|]. cbn. repeat split; try reflexivity; intros p0 Hp0; discriminate Hp0.
    + change (108 =? 108) with true. cbn [andb tl].
      eexists. split; [reflexivity|]. cbn. repeat split; try reflexivity; intros p0 Hp0; discriminate Hp0.
  - cbn [hd0 tl]. change (46 =? 46) with true.
    assert (St3 : stops c_isdigit (ll ++ [c])) by (destruct Hll as [-> | ->]; [exact Hcd|exact Hlnd]).
    rewrite (span_unique c_isdigit p _ Hp St3).
    destruct Hll as [-> | ->]; cbn [app hd0 tl LL].
    + destruct (Z.eqb_spec c 108); [contradiction|]. cbn [andb].
      eexists. split; [reflexivity|]. cbn. repeat split; try reflexivity; try discriminate; intros p0 Hp0; inversion Hp0; reflexivity.
    + change (108 =? 108) with true. cbn [andb tl].
      eexists. split; [reflexivity|]. cbn. repeat split; try reflexivity; try discriminate; intros p0 Hp0; inversion Hp0; reflexivity.
Qed.

Lemma mem_not_allowed (al : Z -> bool) c fl : forallb al fl = true -> al c = false -> mem c fl = false.
Proof.
  unfold mem. induction fl as [|x r IH]; [reflexivity|]. cbn [forallb existsb]. intros H Hc.
  apply andb_true_iff in H. destruct H as [Hx Hr]. destruct (Z.eqb_spec c x) as [->|]; [congruence|]. cbn [orb]. apply IH; assumption.
Qed.

Lemma addlenmod_shape X c : addlenmod (37 :: X ++ [c]) LL = 37 :: X ++ LL ++ [c].
Proof.
  unfold addlenmod. change (37 :: X ++ [c]) with ((37 :: X) ++ [c]). rewrite removelast_last, last_last. reflexivity.
Qed.

(* a specification that scanformat produced and checkformat accepted, taken apart *)
Lemma checked_form rest form conv rest' (flags : Z -> bool) prec :
  nl_scanformat rest = Val (form, conv, rest') -> c_isalpha conv = true ->
  (let '(_, _, rem) := scan flags prec true (tl form) in hd0 rem =? conv) = true ->
  exists fl w dotp, form = 37 :: fl ++ w ++ dotp ++ [conv] /\ forallb flags fl = true /\ forallb c_isdigit w = true /\
    (w = [] \/ hd0 w <> 48) /\ (dotp = [] \/ (prec = true /\ exists p, dotp = 46 :: p /\ forallb c_isdigit p = true /\ (length p <= 2)%nat)) /\
    (length w <= 2)%nat.
Proof.
  unfold nl_scanformat. destruct (scan isflagF true false rest) as [[flF wpF] remF] eqn:E.
  destruct (NL_MAXFLAGS <? slen flF); [discriminate|].
  destruct (c_isdigit (hd0 remF)); [discriminate|]. intros H Ha. inversion H. subst form conv rest'. clear H.
  pose proof (scan_flags _ _ _ _ _ _ _ E) as HflF.
  destruct (scan_shape nof _ _ _ _ _ _ _ E) as (_ & Hwp & _).
  assert (Hall : forallb spanset (flF ++ wpF) = true).
  { rewrite forallb_app, Hwp, andb_true_r. apply (forallb_impl isflagF spanset); [apply flagF_spanset|exact HflF]. }
  cbn [tl]. rewrite app_assoc.
  destruct (scan flags prec true ((flF ++ wpF) ++ [hd0 remF])) as [[fl wp] rem] eqn:Es. intros Hh. apply Z.eqb_eq in Hh.
  destruct rem as [|c0 t]; [cbn in Hh; rewrite <- Hh in Ha; discriminate Ha|]. cbn [hd0] in Hh. subst c0.
  pose proof (scan_app _ _ _ _ _ _ _ Es) as Eapp. rewrite app_assoc in Eapp.
  destruct (last_alpha _ _ _ _ _ Hall Ha Eapp) as (-> & _ & Esp).
  destruct (scan_struct _ _ _ _ _ _ Es) as (w & dotp & Ewp & Hw & Hdot & H48 & Hlw).
  exists fl, w, dotp. split.
  - rewrite Esp, Ewp. rewrite <- !app_assoc. reflexivity.
  - split; [exact (scan_flags _ _ _ _ _ _ _ Es)|]. split; [exact Hw|]. split; [|split; [exact Hdot|exact Hlw]].
    destruct w as [|x w']; [left; reflexivity|right]. destruct H48 as [H48|H48]; [rewrite Ewp in H48; discriminate|].
    rewrite Ewp in H48. exact H48.
Qed.

Section Defined.
Variable cfloat : bytes -> Z -> bytes.

Ltac fmt_red := cbn [is_intconv is_fltconv Z.eqb Pos.eqb orb andb negb].

(* the call of the C function is defined: [c99_snprintf] returns *)
Ltac call_defined Hc LLs :=
  match goal with
  | S : nl_scanformat _ = Val (_, ?c, _), K : nl_checkformat _ ?c = true |- _ =>
      let fl := fresh "fl" in let w := fresh "w" in let dotp := fresh "dotp" in
      let Ef := fresh "Ef" in let Hfl := fresh "Hfl" in let Hw := fresh "Hw" in let Hw0 := fresh "Hw0" in let Hd := fresh "Hd" in
      unfold nl_checkformat in K; revert K; fmt_red; intros K;
      destruct (checked_form _ _ _ _ _ _ S eq_refl K) as (fl & w & dotp & Ef & Hfl & Hw & Hw0 & Hd)
  end.

Lemma item_defined rest a : nl_item cfloat rest a <> Unsafe.
Proof.
  unfold nl_item. destruct (nl_scanformat rest) as [[[form conv] rest']| |] eqn:S; [|discriminate|].
  2:{ exfalso. unfold nl_scanformat in S. destruct (scan isflagF true false rest) as [[a0 b0] c0].
      destruct (NL_MAXFLAGS <? slen a0); [discriminate|]. destruct (c_isdigit (hd0 c0)); discriminate. }
  destruct (nl_checkformat form conv) eqn:K; cbn [negb]; [|discriminate].
  destruct flags_sub_F as (SC & SI & SU & SX).
  (* integer conversions with the ll modifier *)
  assert (Hint : forall (flags : Z -> bool) c v, nl_scanformat rest = Val (form, c, rest') -> c_isalpha c = true -> c <> 108 ->
            is_intconv c = true -> (forall x, flags x = true -> isflagF x = true) ->
            (flags 35 = false \/ (c =? 111) || (c =? 120) || (c =? 88) = true) ->
            (let '(_, _, rem) := scan flags true true (tl form) in hd0 rem =? c) = true ->
            c99_snprintf cfloat (addlenmod form LL) (AInt v) <> None).
  { intros flags c v S' Ha Hl Hi Sub Hh K'.
    destruct (checked_form _ _ _ _ _ _ S' Ha K') as (fl & w & dotp & Ef & Hfl & Hw & Hw0 & Hd & Hlw).
    assert (Hd' : dotp = [] \/ exists p, dotp = 46 :: p /\ forallb c_isdigit p = true /\ (length p <= 2)%nat) by (destruct Hd as [Hd|[_ Hd]]; [left|right]; exact Hd).
    destruct (c99_parse_ok fl w dotp LL c (forallb_impl _ _ _ Sub Hfl) Hw Hw0 Hd' (or_intror eq_refl) Ha Hl)
      as (sp & Ep & Ec & Ell & Eh & _ & _ & _ & _).
    subst form. replace (37 :: fl ++ w ++ dotp ++ [c]) with (37 :: (fl ++ w ++ dotp) ++ [c]) by (rewrite <- !app_assoc; reflexivity).
    rewrite addlenmod_shape. rewrite <- !app_assoc. unfold c99_snprintf. rewrite Ep, Ec, Hi, Ell, Eh. cbn [negb LL].
    destruct Hh as [Hh|Hh].
    - rewrite (mem_not_allowed flags 35 fl Hfl Hh). cbn [andb]. discriminate.
    - rewrite Hh. cbn [negb]. rewrite andb_false_r. discriminate. }
  (* conversions without a length modifier *)
  assert (Hplain : forall (flags : Z -> bool) prec c, nl_scanformat rest = Val (form, c, rest') -> c_isalpha c = true -> c <> 108 ->
            (forall x, flags x = true -> isflagF x = true) ->
            (let '(_, _, rem) := scan flags prec true (tl form) in hd0 rem =? c) = true ->
            exists sp, c99_parse form = Some sp /\ c_conv sp = c /\ c_ll sp = false /\
                       (flags 35 = false -> f_hash sp = false) /\ (flags 48 = false -> f_zero sp = false) /\ (prec = false -> c_prec sp = None)).
  { intros flags prec c S' Ha Hl Sub K'.
    destruct (checked_form _ _ _ _ _ _ S' Ha K') as (fl & w & dotp & Ef & Hfl & Hw & Hw0 & Hd & Hlw).
    assert (Hd' : dotp = [] \/ exists p, dotp = 46 :: p /\ forallb c_isdigit p = true /\ (length p <= 2)%nat) by (destruct Hd as [Hd|[_ Hd]]; [left|right]; exact Hd).
    destruct (c99_parse_ok fl w dotp [] c (forallb_impl _ _ _ Sub Hfl) Hw Hw0 Hd' (or_introl eq_refl) Ha Hl)
      as (sp & Ep & Ec & Ell & Eh & Ez & Epr & _ & _).
    exists sp. cbn [app] in Ep. rewrite Ef. split; [exact Ep|]. split; [exact Ec|]. split; [exact Ell|].
    split; [intros H; rewrite Eh; apply (mem_not_allowed flags 35 fl Hfl H)|].
    split; [intros H; rewrite Ez; apply (mem_not_allowed flags 48 fl Hfl H)|].
    intros ->. apply Epr. destruct Hd as [Hd|[Hd _]]; [exact Hd|discriminate Hd]. }
  assert (SF : forall c, isflagF c = true -> isflagF c = true) by (intros c H; exact H).
  Ltac out_some := match goal with |- (match ?o with Some b => Val (b, ?r) | None => Unsafe end) <> Unsafe => destruct o eqn:Eo; [discriminate|] end.
  unfold nl_checkformat in K.
  destruct a as [v|s].
  - destruct (Z.eqb_spec conv 99) as [->|N1].
    { revert K. fmt_red. intros K. out_some. exfalso.
      destruct (Hplain isflagC false 99 S eq_refl ltac:(discriminate) SC K) as (sp & Ep & Ec & Ell & Eh & Ez & Epr).
      unfold c99_snprintf in Eo. rewrite Ep, Ec in Eo. revert Eo. fmt_red. rewrite Ell, (Eh eq_refl), (Ez eq_refl), (Epr eq_refl). discriminate. }
    destruct (Z.eqb_spec conv 100) as [->|N2].
    { revert K. fmt_red. intros K. out_some. exfalso. apply (Hint isflagI 100 (u64 v) S eq_refl ltac:(discriminate) eq_refl SI (or_introl eq_refl) K Eo). }
    destruct (Z.eqb_spec conv 105) as [->|N3].
    { revert K. fmt_red. intros K. out_some. exfalso. apply (Hint isflagI 105 (u64 v) S eq_refl ltac:(discriminate) eq_refl SI (or_introl eq_refl) K Eo). }
    destruct (Z.eqb_spec conv 111) as [->|N5].
    { revert K. fmt_red. intros K. out_some. exfalso. apply (Hint isflagX 111 (u64 v) S eq_refl ltac:(discriminate) eq_refl SX (or_intror eq_refl) K Eo). }
    destruct (Z.eqb_spec conv 117) as [->|N4].
    { revert K. fmt_red. intros K. out_some. exfalso. apply (Hint isflagU 117 (u64 v) S eq_refl ltac:(discriminate) eq_refl SU (or_introl eq_refl) K Eo). }
    destruct (Z.eqb_spec conv 120) as [->|N6].
    { revert K. fmt_red. intros K. out_some. exfalso. apply (Hint isflagX 120 (u64 v) S eq_refl ltac:(discriminate) eq_refl SX (or_intror eq_refl) K Eo). }
    destruct (Z.eqb_spec conv 88) as [->|N7].
    { revert K. fmt_red. intros K. out_some. exfalso. apply (Hint isflagX 88 (u64 v) S eq_refl ltac:(discriminate) eq_refl SX (or_intror eq_refl) K Eo). }
    (* float conversions of an integer, %s of an integer, anything else *)
    assert (Hflt : forall c, In c [97; 65; 102; 101; 69; 103; 71] -> conv = c ->
              match c99_snprintf cfloat form (AInt v) with Some b => Val (b, rest') | None => @Unsafe (bytes * bytes) end <> Unsafe).
    { intros c Hin ->. out_some. exfalso.
      assert (Ea : c_isalpha c = true) by (cbn in Hin; repeat (destruct Hin as [<-|Hin]; [reflexivity|]); contradiction).
      assert (Ef : is_fltconv c = true) by (cbn in Hin; repeat (destruct Hin as [<-|Hin]; [reflexivity|]); contradiction).
      assert (Ei : is_intconv c = false) by (cbn in Hin; repeat (destruct Hin as [<-|Hin]; [reflexivity|]); contradiction).
      assert (E99 : (c =? 99) = false) by (cbn in Hin; repeat (destruct Hin as [<-|Hin]; [reflexivity|]); contradiction).
      assert (E112 : (c =? 112) = false) by (cbn in Hin; repeat (destruct Hin as [<-|Hin]; [reflexivity|]); contradiction).
      assert (E5 : c <> 108) by (cbn in Hin; repeat (destruct Hin as [<-|Hin]; [discriminate|]); contradiction).
      cbn [orb] in K. rewrite Ef, E112 in K. cbn [negb orb] in K.
      destruct (Hplain isflagF true c S Ea E5 SF K) as (sp & Ep & Ec & Ell & _).
      unfold c99_snprintf in Eo. rewrite Ep, Ec, Ei, E99, Ef, Ell in Eo. discriminate Eo. }
    destruct (Z.eqb_spec conv 97) as [E|N8]. { subst conv. fmt_red. apply (Hflt 97); [cbn; tauto|reflexivity]. }
    destruct (Z.eqb_spec conv 65) as [E|N9]. { subst conv. fmt_red. apply (Hflt 65); [cbn; tauto|reflexivity]. }
    destruct (Z.eqb_spec conv 102) as [E|N10]. { subst conv. fmt_red. apply (Hflt 102); [cbn; tauto|reflexivity]. }
    destruct (Z.eqb_spec conv 101) as [E|N11]. { subst conv. fmt_red. apply (Hflt 101); [cbn; tauto|reflexivity]. }
    destruct (Z.eqb_spec conv 69) as [E|N12]. { subst conv. fmt_red. apply (Hflt 69); [cbn; tauto|reflexivity]. }
    destruct (Z.eqb_spec conv 103) as [E|N13]. { subst conv. fmt_red. apply (Hflt 103); [cbn; tauto|reflexivity]. }
    destruct (Z.eqb_spec conv 71) as [E|N14]. { subst conv. fmt_red. apply (Hflt 71); [cbn; tauto|reflexivity]. }
    unfold is_fltconv.
    repeat match goal with |- context [conv =? ?k] => replace (conv =? k) with false by (symmetry; apply Z.eqb_neq; assumption) end.
    cbn [orb].
    destruct (Z.eqb_spec conv 115) as [->|N15]; [|discriminate].
    destruct (Nat.eqb (length form) 2); [discriminate|]. destruct (has_zero (decimal_of v)); [discriminate|].
    out_some. exfalso. revert K. fmt_red. intros K.
    destruct (Hplain isflagC true 115 S eq_refl ltac:(discriminate) SC K) as (sp & Ep & Ec & Ell & Eh & Ez & _).
    unfold c99_snprintf in Eo. rewrite Ep, Ec, Ell, (Eh eq_refl), (Ez eq_refl) in Eo. discriminate Eo.
  - destruct (Z.eqb_spec conv 115) as [->|N15]; [|discriminate].
    destruct (Nat.eqb (length form) 2); [discriminate|]. destruct (has_zero s); [discriminate|].
    out_some. exfalso. revert K. fmt_red. intros K.
    destruct (Hplain isflagC true 115 S eq_refl ltac:(discriminate) SC K) as (sp & Ep & Ec & Ell & Eh & Ez & _).
    unfold c99_snprintf in Eo. rewrite Ep, Ec, Ell, (Eh eq_refl), (Ez eq_refl) in Eo. discriminate Eo.
Qed.

Theorem format_loop_defined : forall k fmt args, nl_format_loop cfloat k fmt args <> Unsafe.
Proof.
  induction k as [|k IH]; intros fmt args; [discriminate|]. cbn [nl_format_loop].
  destruct fmt as [|c r]; [discriminate|].
  destruct (negb (c =? 37)).
  - specialize (IH r args). destruct (nl_format_loop cfloat k r args); [discriminate|discriminate|contradiction].
  - destruct (hd0 r =? 37).
    + specialize (IH (tl r) args). destruct (nl_format_loop cfloat k (tl r) args); [discriminate|discriminate|contradiction].
    + destruct (nl_scanformat r) as [x| |] eqn:Es; [|discriminate|].
      2:{ unfold nl_scanformat in Es. destruct (scan isflagF true false r) as [[a b] c0]. destruct (NL_MAXFLAGS <? slen a); [discriminate|].
          destruct (c_isdigit (hd0 c0)); discriminate. }
      destruct args as [|a args']; [discriminate|].
      pose proof (item_defined r a) as Hi. destruct (nl_item cfloat r a) as [[o1 r1]| |]; [|discriminate|contradiction].
      specialize (IH r1 args'). destruct (nl_format_loop cfloat k r1 args'); [discriminate|discriminate|contradiction].
Qed.

(* string.format never calls the C library outside its defined behaviour *)
Theorem format_never_unsafe fmt args : nl_format cfloat fmt args <> Unsafe.
Proof. apply format_loop_defined. Qed.
End Defined.
