(* C13 (h) - the matcher of the port against Lua's: wherever strpatt's _match neither exhausts its
   recursion budget (MAX_MATCH_CALLS) nor touches memory outside the subject, it returns exactly what
   lstrlib.c's match returns (end position, captures, failure, malformed-pattern error). *)
From C13 Require Import Model ModelDrv ModelPat ProofsIdx.
Local Open Scope Z_scope.

Definition good (r : mres) : Prop :=
  match r with MFound _ _ | MFail | MError => True | _ => False end.

Section Sim.
  Variable c1 c2 : mcfg.
  Variable src pat : bytes.
  (* the classes agree on every byte, the capture limits agree *)
  Hypothesis Hsrc : is_bytes src = true.
  Hypothesis Hcls : forall c, 0 <= c < 256 ->
    cfg_alpha c1 c = cfg_alpha c2 c /\ cfg_cntrl c1 c = cfg_cntrl c2 c /\ cfg_digit c1 c = cfg_digit c2 c /\
    cfg_graph c1 c = cfg_graph c2 c /\ cfg_lower c1 c = cfg_lower c2 c /\ cfg_punct c1 c = cfg_punct c2 c /\
    cfg_space c1 c = cfg_space c2 c /\ cfg_upper c1 c = cfg_upper c2 c /\ cfg_alnum c1 c = cfg_alnum c2 c /\
    cfg_xdigit c1 c = cfg_xdigit c2 c.
  Hypothesis Hcap : cfg_maxcap c1 = cfg_maxcap c2.
  Hypothesis Hflag2 : cfg_front_prev_unsafe_on_empty c2 = false.

  Lemma S_byte i : 0 <= S_ src i < 256.
  Proof.
    unfold S_. destruct (Nat.lt_ge_cases (Z.to_nat i) (length src)).
    - apply (is_bytes_forall src Hsrc). apply nth_In. assumption.
    - rewrite nth_overflow by assumption. lia.
  Qed.

  Lemma match_class_eq c cl : 0 <= c < 256 -> match_class c1 c cl = match_class c2 c cl.
  Proof.
    intros Hc. destruct (Hcls c Hc) as (E1 & E2 & E3 & E4 & E5 & E6 & E7 & E8 & E9 & E10).
    unfold match_class. rewrite E1, E2, E3, E4, E5, E6, E7, E8, E9, E10. reflexivity.
  Qed.

  Lemma bracket_loop_eq f : forall c p ec sig, 0 <= c < 256 ->
    bracket_loop c1 pat f c p ec sig = bracket_loop c2 pat f c p ec sig.
  Proof.
    induction f as [|f IH]; intros c p ec sig Hc; [reflexivity|].
    cbn [bracket_loop]. rewrite match_class_eq by exact Hc. rewrite !IH by exact Hc. reflexivity.
  Qed.

  Lemma match_bracket_class_eq c p ec : 0 <= c < 256 ->
    match_bracket_class c1 pat c p ec = match_bracket_class c2 pat c p ec.
  Proof. intros Hc. unfold match_bracket_class. rewrite !bracket_loop_eq by exact Hc. reflexivity. Qed.

  Lemma single_match_eq s p ep : single_match c1 src pat s p ep = single_match c2 src pat s p ep.
  Proof.
    unfold single_match. pose proof (S_byte s) as Hb.
    rewrite match_class_eq, match_bracket_class_eq by exact Hb. reflexivity.
  Qed.

  Lemma count_max_eq f : forall s p ep i, count_max c1 src pat f s p ep i = count_max c2 src pat f s p ep i.
  Proof.
    induction f as [|f IH]; intros; [reflexivity|]. cbn [count_max]. rewrite single_match_eq, IH. reflexivity.
  Qed.

  (* two pairs of continuations that agree on good results *)
  Definition sim_call (k1 k2 : list cap -> Z -> Z -> mres) : Prop :=
    forall caps s p r, k1 caps s p = r -> good r -> k2 caps s p = r.
  Definition sim_again (k1 k2 : Z -> Z -> mres) : Prop :=
    forall s p r, k1 s p = r -> good r -> k2 s p = r.

  Lemma max_down_sim call1 call2 caps s0 ep : sim_call call1 call2 ->
    forall k i r, max_down call1 caps s0 ep k i = r -> good r -> max_down call2 caps s0 ep k i = r.
  Proof.
    intros Hc. induction k as [|k IHk]; intros i r; cbn [max_down];
      destruct (call1 caps (s0 + i) (ep + 1)) eqn:E1; intros H G;
      try (subst r; contradiction); rewrite (Hc _ _ _ _ E1 I); try exact H.
    destruct (i - 1 <? 0); [exact H|]. apply IHk; assumption.
  Qed.

  Lemma min_up_sim sm call1 call2 caps ep : sim_call call1 call2 ->
    forall k s1 r, min_up sm call1 caps ep k s1 = r -> good r -> min_up sm call2 caps ep k s1 = r.
  Proof.
    intros Hc. induction k as [|k IHk]; intros s1 r; cbn [min_up];
      destruct (call1 caps s1 (ep + 1)) eqn:E1; intros H G;
      try (subst r; contradiction); rewrite (Hc _ _ _ _ E1 I); try exact H.
    destruct (sm s1); [|exact H]. apply IHk; assumption.
  Qed.

  Lemma body_sim call1 call2 again1 again2 caps s p r :
    sim_call call1 call2 -> sim_again again1 again2 ->
    match_body c1 src pat call1 again1 caps s p = r -> good r ->
    match_body c2 src pat call2 again2 caps s p = r.
  Proof.
    intros Hc Ha. unfold match_body.
    rewrite Hcap, Hflag2.
    destruct (negb (p <? plen pat)); [tauto|].
    (* the default case, shared by three branches *)
    assert (Hdflt : forall r,
      match class_end pat p with
      | Some ep =>
          if negb (single_match c1 src pat s p ep)
          then if (P pat ep =? 42) || (P pat ep =? 63) || (P pat ep =? 45) then again1 s (ep + 1) else MFail
          else if P pat ep =? 63
               then match call1 caps (s + 1) (ep + 1) with MFail => again1 s (ep + 1) | r0 => r0 end
               else if (P pat ep =? 43) || (P pat ep =? 42)
                    then max_down call1 caps (if P pat ep =? 43 then s + 1 else s) ep (S (length src))
                           (count_max c1 src pat (S (length src)) (if P pat ep =? 43 then s + 1 else s) p ep 0)
                    else if P pat ep =? 45
                         then min_up (fun s1 => single_match c1 src pat s1 p ep) call1 caps ep (S (length src)) s
                         else again1 (s + 1) ep
      | None => MError
      end = r -> good r ->
      match class_end pat p with
      | Some ep =>
          if negb (single_match c2 src pat s p ep)
          then if (P pat ep =? 42) || (P pat ep =? 63) || (P pat ep =? 45) then again2 s (ep + 1) else MFail
          else if P pat ep =? 63
               then match call2 caps (s + 1) (ep + 1) with MFail => again2 s (ep + 1) | r0 => r0 end
               else if (P pat ep =? 43) || (P pat ep =? 42)
                    then max_down call2 caps (if P pat ep =? 43 then s + 1 else s) ep (S (length src))
                           (count_max c2 src pat (S (length src)) (if P pat ep =? 43 then s + 1 else s) p ep 0)
                    else if P pat ep =? 45
                         then min_up (fun s1 => single_match c2 src pat s1 p ep) call2 caps ep (S (length src)) s
                         else again2 (s + 1) ep
      | None => MError
      end = r).
    { intros r0. destruct (class_end pat p) as [ep|]; [|tauto].
      rewrite <- single_match_eq, <- count_max_eq.
      assert (Hsm : (fun s1 => single_match c2 src pat s1 p ep) = (fun s1 => single_match c1 src pat s1 p ep) \/ True) by (right; exact I).
      destruct (negb (single_match c1 src pat s p ep)).
      { destruct ((P pat ep =? 42) || (P pat ep =? 63) || (P pat ep =? 45)); [apply Ha|tauto]. }
      destruct (P pat ep =? 63).
      { intros H G. destruct (call1 caps (s + 1) (ep + 1)) eqn:E1;
          try (subst r0; contradiction); rewrite (Hc _ _ _ _ E1 I); try exact H. apply Ha; assumption. }
      destruct ((P pat ep =? 43) || (P pat ep =? 42)); [apply max_down_sim; exact Hc|].
      destruct (P pat ep =? 45); [|apply Ha].
      intros H G. apply (min_up_sim _ call1 call2 caps ep Hc) in H; [|exact G].
      rewrite <- H. clear H G.
      (* the two single-match predicates agree pointwise *)
      generalize (S (length src)) as k. intros k. generalize s as s1. induction k as [|k IHk]; intros s1; cbn [min_up];
        destruct (call2 caps s1 (ep + 1)); try reflexivity; rewrite single_match_eq; [reflexivity|].
      destruct (single_match c2 src pat s1 p ep); [apply IHk|reflexivity]. }
    destruct (P pat p =? 40).
    { destruct (Z.of_nat (length caps) <? cfg_maxcap c2); [|tauto].
      destruct (P pat (p + 1) =? 41); apply Hc. }
    destruct (P pat p =? 41).
    { destruct (to_close caps (length caps)) as [l|]; [|tauto].
      destruct (nth_error caps l) as [[ci cl]|]; [apply Hc|tauto]. }
    destruct ((P pat p =? 36) && (p + 1 =? plen pat)); [tauto|].
    destruct (P pat p =? 37); [|apply Hdflt].
    destruct (P pat (p + 1) =? 98).
    { destruct (negb (p + 2 <? plen pat - 1)); [tauto|].
      destruct ((slen_ src <=? s) || negb (S_ src s =? P pat (p + 2))); [tauto|].
      destruct (balance_loop src (S (length src)) (s + 1) (P pat (p + 2)) (P pat (p + 3)) 1); [apply Ha|tauto]. }
    destruct (P pat (p + 1) =? 102).
    { destruct (negb (P pat (p + 2) =? 91)); [tauto|].
      destruct (class_end pat (p + 2)) as [ep|]; [|tauto].
      cbn [andb].
      destruct (cfg_front_prev_unsafe_on_empty c1 && (s =? 0) && negb (s <? slen_ src)).
      { intros <- G. contradiction. }
      assert (Hprev : 0 <= (if s =? 0 then 0 else S_ src (s - 1)) < 256)
        by (destruct (s =? 0); [lia|apply S_byte]).
      assert (Hnext : 0 <= (if s =? slen_ src then 0 else S_ src s) < 256)
        by (destruct (s =? slen_ src); [lia|apply S_byte]).
      rewrite !match_bracket_class_eq by assumption.
      destruct (negb _ && _); [apply Ha|tauto]. }
    destruct ((48 <=? P pat (p + 1)) && (P pat (p + 1) <=? 57)); [|apply Hdflt].
    destruct ((P pat (p + 1) - 49 <? 0) || (Z.of_nat (length caps) <=? P pat (p + 1) - 49)); [tauto|].
    destruct (nth_error caps (Z.to_nat (P pat (p + 1) - 49))) as [[ci cl]|]; [|tauto].
    destruct (cl =? CAP_UNFINISHED); [tauto|].
    destruct ((0 <=? cl) && (cl <=? slen_ src - s) && bytes_eqb (slice src ci cl) (slice src s cl)); [apply Ha|tauto].
  Qed.

  (* budgets: [Rd d1 d2] = the second matcher may still nest at least as deep as the first *)
  Variable Rd : Z -> Z -> Prop.
  Hypothesis Henter : forall d1 d2 d1', Rd d1 d2 -> cfg_enter c1 d1 = Some d1' ->
    exists d2', cfg_enter c2 d2 = Some d2' /\ Rd d1' d2'.

  Lemma do_match_sim fuel : forall d1 d2 caps s p r, Rd d1 d2 ->
    do_match c1 src pat fuel d1 caps s p = r -> good r -> do_match c2 src pat fuel d2 caps s p = r.
  Proof.
    induction fuel as [|f IH]; intros d1 d2 caps s p r HR; [intros <- G; contradiction|].
    cbn [do_match]. apply body_sim.
    - intros caps' s' p' r'. unfold enter.
      destruct (cfg_enter c1 d1) as [d1'|] eqn:E1; [|intros <- G; contradiction].
      destruct (Henter _ _ _ HR E1) as (d2' & -> & HR'). apply IH. exact HR'.
    - intros s' p' r'. apply IH. exact HR.
  Qed.
End Sim.

(* the relation between the two budgets: Nelua's counter d1 allows d1 - 1 more levels, Lua's d2 allows d2 *)
Definition budget_rel (d1 d2 : Z) : Prop := d1 - 1 <= d2.

Lemma budget_enter d1 d2 d1' : budget_rel d1 d2 -> cfg_enter nl_cfg d1 = Some d1' ->
  exists d2', cfg_enter lua_cfg d2 = Some d2' /\ budget_rel d1' d2'.
Proof.
  unfold budget_rel, nl_cfg, lua_cfg. cbn [cfg_enter].
  intros H. destruct (Z.ltb_spec 0 (d1 - 1)); [|discriminate]. intros [= <-].
  destruct (Z.eqb_spec d2 0); [lia|]. exists (d2 - 1). split; [reflexivity|lia].
Qed.

Lemma budget_init : budget_rel (cfg_depth0 nl_cfg) (cfg_depth0 lua_cfg).
Proof. unfold budget_rel. vm_compute. discriminate. Qed.

Lemma classes_nl_lua c : 0 <= c < 256 ->
  cfg_alpha nl_cfg c = cfg_alpha lua_cfg c /\ cfg_cntrl nl_cfg c = cfg_cntrl lua_cfg c /\ cfg_digit nl_cfg c = cfg_digit lua_cfg c /\
  cfg_graph nl_cfg c = cfg_graph lua_cfg c /\ cfg_lower nl_cfg c = cfg_lower lua_cfg c /\ cfg_punct nl_cfg c = cfg_punct lua_cfg c /\
  cfg_space nl_cfg c = cfg_space lua_cfg c /\ cfg_upper nl_cfg c = cfg_upper lua_cfg c /\ cfg_alnum nl_cfg c = cfg_alnum lua_cfg c /\
  cfg_xdigit nl_cfg c = cfg_xdigit lua_cfg c.
Proof.
  intros Hc. destruct (strchar_eq_clocale c Hc) as (_ & _ & E1 & E2 & E3 & E4 & E5 & E6 & E7 & E8 & E9 & E10).
  cbn [nl_cfg lua_cfg cfg_alpha cfg_cntrl cfg_digit cfg_graph cfg_lower cfg_punct cfg_space cfg_upper cfg_alnum cfg_xdigit].
  repeat split; assumption.
Qed.

(* the theorem: where the port's matcher stays within its budget and within memory, it is Lua's *)
Theorem match_eq_lua_partial src pat p0 s r : is_bytes src = true ->
  run_match nl_cfg src pat p0 s = r -> good r -> run_match lua_cfg src pat p0 s = r.
Proof.
  intros Hsrc. unfold run_match.
  destruct (cfg_enter nl_cfg (cfg_depth0 nl_cfg)) as [d1|] eqn:E1; [|intros <- G; contradiction].
  destruct (budget_enter _ _ _ budget_init E1) as (d2 & -> & HR).
  apply (do_match_sim nl_cfg lua_cfg src pat Hsrc classes_nl_lua eq_refl eq_refl budget_rel budget_enter).
  exact HR.
Qed.

(* full statement: the two matchers agree on every subject and pattern - false: the budget of the
   port is smaller (a pattern of 31 optional items is "too complex" for it), and %f on the empty
   subject reads outside the subject *)
Definition match_eq_lua : Prop :=
  forall src pat p0 s, is_bytes src = true -> run_match nl_cfg src pat p0 s = run_match lua_cfg src pat p0 s.

Definition a_opt_31_b : bytes := concat (repeat [97; 63] 31) ++ [98].
Lemma match_eq_lua_refuted : ~ match_eq_lua.
Proof.
  intros H. specialize (H [] [37; 102; 91; 37; 122; 93] 0 0 eq_refl). vm_compute in H. discriminate.
Qed.
Lemma match_budget_witness :
  run_match nl_cfg [97; 97; 97] a_opt_31_b 0 0 = MTooComplex /\ run_match lua_cfg [97; 97; 97] a_opt_31_b 0 0 = MFail.
Proof. vm_compute. split; reflexivity. Qed.
