(* C13 (h) - the matcher of the port against Lua's.  strpatt's _match IS lstrlib.c's match run with a smaller
   recursion budget (MAX_MATCH_CALLS = 32, a documented limit, against MAXCCALLS = 200): it returns exactly
   what Lua's matcher returns (end position, captures, failure, malformed-pattern error) or stops with
   "pattern too complex", and it does the latter exactly when Lua's algorithm with that budget would. *)
From C13 Require Import Model ModelDrv ModelPat ProofsIdx ProofsDrv.
Local Open Scope Z_scope.

Section Sim.
  Variable c1 c2 : mcfg.
  (* is "pattern too complex" one of the results that must carry over?  (yes when the budgets are the same) *)
  Variable tc_ok : Prop.
  Definition good (r : mres) : Prop := match r with MTooComplex => tc_ok | _ => True end.
  Variable src pat : bytes.
  (* the classes agree on every byte, the capture limits agree *)
  Hypothesis Hsrc : is_bytes src = true.
  Hypothesis Hcls : forall c, 0 <= c < 256 ->
    cfg_alpha c1 c = cfg_alpha c2 c /\ cfg_cntrl c1 c = cfg_cntrl c2 c /\ cfg_digit c1 c = cfg_digit c2 c /\
    cfg_graph c1 c = cfg_graph c2 c /\ cfg_lower c1 c = cfg_lower c2 c /\ cfg_punct c1 c = cfg_punct c2 c /\
    cfg_space c1 c = cfg_space c2 c /\ cfg_upper c1 c = cfg_upper c2 c /\ cfg_alnum c1 c = cfg_alnum c2 c /\
    cfg_xdigit c1 c = cfg_xdigit c2 c.
  Hypothesis Hcap : cfg_maxcap c1 = cfg_maxcap c2.
  Hypothesis Hflag1 : cfg_front_prev_unsafe_on_empty c1 = false.
  Hypothesis Hflag2 : cfg_front_prev_unsafe_on_empty c2 = false.

  Lemma S_byte i : 0 <= S_ src i < 256.
  Proof.
    unfold S_. destruct (Nat.lt_ge_cases (Z.to_nat i) (length src)).
    - apply (is_bytes_forall src Hsrc). apply nth_In. assumption.
    - rewrite nth_overflow by assumption. lia.
  Qed.

  Lemma match_class_eq c cl : 0 <= c < 256 -> match_class c1 c cl = match_class c2 c cl.
  Proof.
    intros Hc. destruct (Hcls c Hc) as (E1 & E2 & E3 & E4 & E5 & E6 & E7 & E8 & E9 & E10).
    unfold match_class. rewrite E1, E2, E3, E4, E5, E6, E7, E8, E9, E10. reflexivity.
  Qed.

  Lemma bracket_loop_eq f : forall c p ec sig, 0 <= c < 256 ->
    bracket_loop c1 pat f c p ec sig = bracket_loop c2 pat f c p ec sig.
  Proof.
    induction f as [|f IH]; intros c p ec sig Hc; [reflexivity|].
    cbn [bracket_loop]. rewrite match_class_eq by exact Hc. rewrite !IH by exact Hc. reflexivity.
  Qed.

  Lemma match_bracket_class_eq c p ec : 0 <= c < 256 ->
    match_bracket_class c1 pat c p ec = match_bracket_class c2 pat c p ec.
  Proof. intros Hc. unfold match_bracket_class. rewrite !bracket_loop_eq by exact Hc. reflexivity. Qed.

  Lemma single_match_eq s p ep : single_match c1 src pat s p ep = single_match c2 src pat s p ep.
  Proof.
    unfold single_match. pose proof (S_byte s) as Hb.
    rewrite match_class_eq, match_bracket_class_eq by exact Hb. reflexivity.
  Qed.

  Lemma count_max_eq f : forall s p ep i, count_max c1 src pat f s p ep i = count_max c2 src pat f s p ep i.
  Proof.
    induction f as [|f IH]; intros; [reflexivity|]. cbn [count_max]. rewrite single_match_eq, IH. reflexivity.
  Qed.

  (* two pairs of continuations that agree on good results *)
  Definition sim_call (k1 k2 : list cap -> Z -> Z -> mres) : Prop :=
    forall caps s p r, k1 caps s p = r -> good r -> k2 caps s p = r.
  Definition sim_again (k1 k2 : Z -> Z -> mres) : Prop :=
    forall s p r, k1 s p = r -> good r -> k2 s p = r.

  (* the result of a call carries over: directly for every constructor but MTooComplex, through [good] for it *)
  Ltac carry Hc E1 G := first [ rewrite (Hc _ _ _ _ E1 I) | (subst; rewrite (Hc _ _ _ _ E1 G)) ].

  Lemma max_down_sim call1 call2 caps s0 ep : sim_call call1 call2 ->
    forall k i r, max_down call1 caps s0 ep k i = r -> good r -> max_down call2 caps s0 ep k i = r.
  Proof.
    intros Hc. induction k as [|k IHk]; intros i r; cbn [max_down];
      destruct (call1 caps (s0 + i) (ep + 1)) eqn:E1; intros H G;
      carry Hc E1 G; try exact H; try reflexivity.
    destruct (i - 1 <? 0); [exact H|]. apply IHk; assumption.
  Qed.

  Lemma min_up_sim sm call1 call2 caps ep : sim_call call1 call2 ->
    forall k s1 r, min_up sm call1 caps ep k s1 = r -> good r -> min_up sm call2 caps ep k s1 = r.
  Proof.
    intros Hc. induction k as [|k IHk]; intros s1 r; cbn [min_up];
      destruct (call1 caps s1 (ep + 1)) eqn:E1; intros H G;
      carry Hc E1 G; try exact H; try reflexivity.
    destruct (sm s1); [|exact H]. apply IHk; assumption.
  Qed.

  Lemma min_up_ext sm1 sm2 call caps ep : (forall x, sm1 x = sm2 x) ->
    forall k s1, min_up sm1 call caps ep k s1 = min_up sm2 call caps ep k s1.
  Proof.
    intros He. induction k as [|k IHk]; intros s1; cbn [min_up]; rewrite He; [reflexivity|].
    destruct (call caps s1 (ep + 1)); try reflexivity. destruct (sm2 s1); [apply IHk|reflexivity].
  Qed.

  Lemma body_sim call1 call2 again1 again2 caps s p r :
    sim_call call1 call2 -> sim_again again1 again2 ->
    match_body c1 src pat call1 again1 caps s p = r -> good r ->
    match_body c2 src pat call2 again2 caps s p = r.
  Proof.
    intros Hc Ha. unfold match_body.
    rewrite Hcap, Hflag1, Hflag2.
    destruct (negb (p <? plen pat)); [tauto|].
    (* the default case, shared by three branches *)
    assert (Hdflt : forall r,
      match class_end pat p with
      | Some ep =>
          if negb (single_match c1 src pat s p ep)
          then if (P pat ep =? 42) || (P pat ep =? 63) || (P pat ep =? 45) then again1 s (ep + 1) else MFail
          else if P pat ep =? 63
               then match call1 caps (s + 1) (ep + 1) with MFail => again1 s (ep + 1) | r0 => r0 end
               else if (P pat ep =? 43) || (P pat ep =? 42)
                    then max_down call1 caps (if P pat ep =? 43 then s + 1 else s) ep (S (length src))
                           (count_max c1 src pat (S (length src)) (if P pat ep =? 43 then s + 1 else s) p ep 0)
                    else if P pat ep =? 45
                         then min_up (fun s1 => single_match c1 src pat s1 p ep) call1 caps ep (S (length src)) s
                         else again1 (s + 1) ep
      | None => MError
      end = r -> good r ->
      match class_end pat p with
      | Some ep =>
          if negb (single_match c2 src pat s p ep)
          then if (P pat ep =? 42) || (P pat ep =? 63) || (P pat ep =? 45) then again2 s (ep + 1) else MFail
          else if P pat ep =? 63
               then match call2 caps (s + 1) (ep + 1) with MFail => again2 s (ep + 1) | r0 => r0 end
               else if (P pat ep =? 43) || (P pat ep =? 42)
                    then max_down call2 caps (if P pat ep =? 43 then s + 1 else s) ep (S (length src))
                           (count_max c2 src pat (S (length src)) (if P pat ep =? 43 then s + 1 else s) p ep 0)
                    else if P pat ep =? 45
                         then min_up (fun s1 => single_match c2 src pat s1 p ep) call2 caps ep (S (length src)) s
                         else again2 (s + 1) ep
      | None => MError
      end = r).
    { intros r0. destruct (class_end pat p) as [ep|]; [|tauto].
      rewrite <- single_match_eq, <- count_max_eq.
      destruct (negb (single_match c1 src pat s p ep)).
      { destruct ((P pat ep =? 42) || (P pat ep =? 63) || (P pat ep =? 45)); [apply Ha|tauto]. }
      destruct (P pat ep =? 63).
      { intros H G. destruct (call1 caps (s + 1) (ep + 1)) eqn:E1;
          carry Hc E1 G; try exact H; try reflexivity. apply Ha; assumption. }
      destruct ((P pat ep =? 43) || (P pat ep =? 42)); [apply max_down_sim; exact Hc|].
      destruct (P pat ep =? 45); [|apply Ha].
      intros H G.
      rewrite (min_up_ext (fun s1 => single_match c2 src pat s1 p ep) (fun s1 => single_match c1 src pat s1 p ep))
        by (intros; symmetry; apply single_match_eq).
      apply (min_up_sim _ call1 call2 caps ep Hc); assumption. }
    destruct (P pat p =? 40).
    { destruct (Z.of_nat (length caps) <? cfg_maxcap c2); [|tauto].
      destruct (P pat (p + 1) =? 41); apply Hc. }
    destruct (P pat p =? 41).
    { destruct (to_close caps (length caps)) as [l|]; [|tauto].
      destruct (nth_error caps l) as [[ci cl]|]; [apply Hc|tauto]. }
    destruct ((P pat p =? 36) && (p + 1 =? plen pat)); [tauto|].
    destruct (P pat p =? 37); [|apply Hdflt].
    destruct (P pat (p + 1) =? 98).
    { destruct (negb (p + 2 <? plen pat - 1)); [tauto|].
      destruct ((slen_ src <=? s) || negb (S_ src s =? P pat (p + 2))); [tauto|].
      destruct (balance_loop src (S (length src)) (s + 1) (P pat (p + 2)) (P pat (p + 3)) 1); [apply Ha|tauto]. }
    destruct (P pat (p + 1) =? 102).
    { destruct (negb (P pat (p + 2) =? 91)); [tauto|].
      destruct (class_end pat (p + 2)) as [ep|]; [|tauto].
      cbn [andb].
      assert (Hprev : 0 <= (if s =? 0 then 0 else S_ src (s - 1)) < 256)
        by (destruct (s =? 0); [lia|apply S_byte]).
      assert (Hnext : 0 <= (if s =? slen_ src then 0 else S_ src s) < 256)
        by (destruct (s =? slen_ src); [lia|apply S_byte]).
      rewrite !match_bracket_class_eq by assumption.
      destruct (negb _ && _); [apply Ha|tauto]. }
    destruct ((48 <=? P pat (p + 1)) && (P pat (p + 1) <=? 57)); [|apply Hdflt].
    destruct ((P pat (p + 1) - 49 <? 0) || (Z.of_nat (length caps) <=? P pat (p + 1) - 49)); [tauto|].
    destruct (nth_error caps (Z.to_nat (P pat (p + 1) - 49))) as [[ci cl]|]; [|tauto].
    destruct (cl =? CAP_UNFINISHED); [tauto|].
    destruct ((0 <=? cl) && (cl <=? slen_ src - s) && bytes_eqb (slice src ci cl) (slice src s cl)); [apply Ha|tauto].
  Qed.

  (* budgets: [Rd d1 d2] = the second matcher may still nest at least as deep as the first *)
  Variable Rd : Z -> Z -> Prop.
  Hypothesis Henter : forall d1 d2 d1', Rd d1 d2 -> cfg_enter c1 d1 = Some d1' ->
    exists d2', cfg_enter c2 d2 = Some d2' /\ Rd d1' d2'.
  Hypothesis Henter_none : tc_ok -> forall d1 d2, Rd d1 d2 -> cfg_enter c1 d1 = None -> cfg_enter c2 d2 = None.

  Lemma do_match_sim fuel : forall d1 d2 caps s p r, Rd d1 d2 ->
    do_match c1 src pat fuel d1 caps s p = r -> good r -> do_match c2 src pat fuel d2 caps s p = r.
  Proof.
    induction fuel as [|f IH]; intros d1 d2 caps s p r HR; [intros <- G; reflexivity|].
    cbn [do_match]. apply body_sim.
    - intros caps' s' p' r'. unfold enter.
      destruct (cfg_enter c1 d1) as [d1'|] eqn:E1; [|intros <- G; rewrite (Henter_none G _ _ HR E1); reflexivity].
      destruct (Henter _ _ _ HR E1) as (d2' & -> & HR'). apply IH. exact HR'.
    - intros s' p' r'. apply IH. exact HR.
  Qed.
End Sim.

(* the relation between the two budgets: Nelua's counter d1 allows d1 - 1 more levels, Lua's d2 allows d2 *)
Definition budget_rel (d1 d2 : Z) : Prop := d1 - 1 <= d2.

Lemma budget_enter d1 d2 d1' : budget_rel d1 d2 -> cfg_enter nl_cfg d1 = Some d1' ->
  exists d2', cfg_enter lua_cfg d2 = Some d2' /\ budget_rel d1' d2'.
Proof.
  unfold budget_rel, nl_cfg, lua_cfg. cbn [cfg_enter].
  intros H. destruct (Z.ltb_spec 0 (d1 - 1)); [|discriminate]. intros [= <-].
  destruct (Z.eqb_spec d2 0); [lia|]. exists (d2 - 1). split; [reflexivity|lia].
Qed.

Lemma budget_init : budget_rel (cfg_depth0 nl_cfg) (cfg_depth0 lua_cfg).
Proof. unfold budget_rel. vm_compute. discriminate. Qed.

Lemma classes_nl_lua c : 0 <= c < 256 ->
  cfg_alpha nl_cfg c = cfg_alpha lua_cfg c /\ cfg_cntrl nl_cfg c = cfg_cntrl lua_cfg c /\ cfg_digit nl_cfg c = cfg_digit lua_cfg c /\
  cfg_graph nl_cfg c = cfg_graph lua_cfg c /\ cfg_lower nl_cfg c = cfg_lower lua_cfg c /\ cfg_punct nl_cfg c = cfg_punct lua_cfg c /\
  cfg_space nl_cfg c = cfg_space lua_cfg c /\ cfg_upper nl_cfg c = cfg_upper lua_cfg c /\ cfg_alnum nl_cfg c = cfg_alnum lua_cfg c /\
  cfg_xdigit nl_cfg c = cfg_xdigit lua_cfg c.
Proof.
  intros Hc. destruct (strchar_eq_clocale c Hc) as (_ & _ & E1 & E2 & E3 & E4 & E5 & E6 & E7 & E8 & E9 & E10).
  cbn [nl_cfg lua_cfg cfg_alpha cfg_cntrl cfg_digit cfg_graph cfg_lower cfg_punct cfg_space cfg_upper cfg_alnum cfg_xdigit].
  repeat split; assumption.
Qed.

(* where the port's matcher stays within its budget, it is Lua's *)
Theorem match_eq_lua_partial src pat p0 s r : is_bytes src = true ->
  run_match nl_cfg src pat p0 s = r -> r <> MTooComplex -> run_match lua_cfg src pat p0 s = r.
Proof.
  intros Hsrc. unfold run_match.
  destruct (cfg_enter nl_cfg (cfg_depth0 nl_cfg)) as [d1|] eqn:E1; [|intros <- G; contradiction].
  destruct (budget_enter _ _ _ budget_init E1) as (d2 & -> & HR).
  intros H G.
  apply (do_match_sim nl_cfg lua_cfg False src pat Hsrc classes_nl_lua eq_refl eq_refl eq_refl budget_rel budget_enter
           (fun F => match F with end) (match_fuel src pat) d1 d2 [] s p0 r HR H).
  destruct r; try exact I. contradiction.
Qed.

(* THE statement about the matcher: on every subject and pattern the port either returns exactly what Lua's
   matcher returns (a match with its captures, no match, or a malformed-pattern error) or it stops with its
   documented "pattern too complex" - never another value *)
Theorem match_eq_lua src pat p0 s : is_bytes src = true ->
  run_match nl_cfg src pat p0 s = MTooComplex \/ run_match nl_cfg src pat p0 s = run_match lua_cfg src pat p0 s.
Proof.
  intros Hsrc. destruct (run_match nl_cfg src pat p0 s) eqn:E; try (left; reflexivity); right; symmetry;
    apply (match_eq_lua_partial src pat p0 s _ Hsrc E); discriminate.
Qed.

(* ... and it stops exactly when Lua's own algorithm would, were it given the port's budget: the port is
   lstrlib.c's matcher with MAXCCALLS replaced by MAX_MATCH_CALLS (32 levels instead of 200) *)
Definition lua_small_cfg : mcfg :=
  mk_mcfg (cfg_enter nl_cfg) (cfg_depth0 nl_cfg) (cfg_maxcap lua_cfg)
          (cfg_alpha lua_cfg) (cfg_cntrl lua_cfg) (cfg_digit lua_cfg) (cfg_graph lua_cfg) (cfg_lower lua_cfg)
          (cfg_punct lua_cfg) (cfg_space lua_cfg) (cfg_upper lua_cfg) (cfg_alnum lua_cfg) (cfg_xdigit lua_cfg) false.

Theorem match_is_lua_with_small_budget src pat p0 s : is_bytes src = true ->
  run_match nl_cfg src pat p0 s = run_match lua_small_cfg src pat p0 s.
Proof.
  intros Hsrc. unfold run_match. change (cfg_enter lua_small_cfg) with (cfg_enter nl_cfg).
  change (cfg_depth0 lua_small_cfg) with (cfg_depth0 nl_cfg).
  destruct (cfg_enter nl_cfg (cfg_depth0 nl_cfg)) as [d|]; [|reflexivity].
  symmetry.
  apply (do_match_sim nl_cfg lua_small_cfg True src pat Hsrc classes_nl_lua eq_refl eq_refl eq_refl eq
           (fun d1 d2 d1' (E : d1 = d2) H => ex_intro _ d1' (conj (eq_ind d1 (fun x => cfg_enter nl_cfg x = Some d1') H d2 E) eq_refl))
           (fun _ d1 d2 (E : d1 = d2) H => eq_ind d1 (fun x => cfg_enter nl_cfg x = None) H d2 E)
           (match_fuel src pat) d d [] s p0 _ eq_refl eq_refl).
  destruct (do_match nl_cfg src pat (match_fuel src pat) d [] s p0); exact I.
Qed.

(* the budget is really smaller: 31 nested captures are within Lua's limits, beyond the port's *)
Definition paren31 : bytes := repeat 40 31 ++ [120] ++ repeat 41 31.
Lemma match_budget_witness :
  run_match nl_cfg [120] paren31 0 0 = MTooComplex /\
  exists caps, run_match lua_cfg [120] paren31 0 0 = MFound 1 caps.
Proof. vm_compute. split; [reflexivity|eexists; reflexivity]. Qed.

(* ------------------------------------------------------------------------------------------------
   a match that starts inside the subject ends at or after its start and inside the subject
   ------------------------------------------------------------------------------------------------ *)
Section Range.
  Variable cfg : mcfg.
  Variable src pat : bytes.
  Notation L := (slen_ src).

  Definition ok_call (k : list cap -> Z -> Z -> mres) : Prop :=
    forall caps s p e caps', 0 <= s <= L -> k caps s p = MFound e caps' -> s <= e <= L.
  Definition ok_again (k : Z -> Z -> mres) : Prop :=
    forall s p e caps', 0 <= s <= L -> k s p = MFound e caps' -> s <= e <= L.

  Lemma single_match_lt s p ep : single_match cfg src pat s p ep = true -> s < L.
  Proof. unfold single_match. destruct (Z.leb_spec (slen_ src) s); [discriminate|lia]. Qed.

  Lemma count_max_bound f : forall s0 p ep i, 0 <= i -> s0 + i <= L ->
    i <= count_max cfg src pat f s0 p ep i /\ s0 + count_max cfg src pat f s0 p ep i <= L.
  Proof.
    induction f as [|f IH]; intros s0 p ep i Hi Hb; cbn [count_max]; [lia|].
    destruct (single_match cfg src pat (s0 + i) p ep) eqn:E; [|lia].
    apply single_match_lt in E. destruct (IH s0 p ep (i + 1) ltac:(lia) ltac:(lia)). lia.
  Qed.

  Lemma max_down_range call caps s0 ep : ok_call call -> 0 <= s0 ->
    forall k i e caps', 0 <= i -> s0 + i <= L -> max_down call caps s0 ep k i = MFound e caps' -> s0 <= e <= L.
  Proof.
    intros Hc Hs0. induction k as [|k IHk]; intros i e caps' Hi Hb; cbn [max_down];
      destruct (call caps (s0 + i) (ep + 1)) eqn:E1; try discriminate.
    - intros [= <- <-]. apply Hc in E1; lia.
    - intros [= <- <-]. apply Hc in E1; lia.
    - destruct (Z.ltb_spec (i - 1) 0); [discriminate|]. apply IHk; lia.
  Qed.

  Lemma min_up_range call caps p ep : ok_call call ->
    forall k s1 e caps', 0 <= s1 <= L ->
      min_up (fun x => single_match cfg src pat x p ep) call caps ep k s1 = MFound e caps' -> s1 <= e <= L.
  Proof.
    intros Hc. induction k as [|k IHk]; intros s1 e caps' Hs; cbn [min_up];
      destruct (call caps s1 (ep + 1)) eqn:E1; try discriminate.
    - intros [= <- <-]. apply Hc in E1; lia.
    - destruct (single_match cfg src pat s1 p ep); discriminate.
    - intros [= <- <-]. apply Hc in E1; lia.
    - destruct (single_match cfg src pat s1 p ep) eqn:Es; [|discriminate].
      apply single_match_lt in Es. intros H. apply IHk in H; lia.
  Qed.

  Lemma balance_range f : forall s b e cont s', 0 <= s -> balance_loop src f s b e cont = Some s' -> s < s' <= L.
  Proof.
    induction f as [|f IH]; intros s b e cont s' Hs; cbn [balance_loop]; [discriminate|].
    destruct (Z.ltb_spec s (slen_ src)) as [Hlt|Hge]; cbn [negb]; [|discriminate].
    destruct (S_ src s =? e).
    - destruct (cont - 1 =? 0); [intros [= <-]; lia|]. intros Hb. apply IH in Hb; lia.
    - destruct (S_ src s =? b); intros Hb; apply IH in Hb; lia.
  Qed.

  Lemma body_range call again caps s p e caps' :
    ok_call call -> ok_again again -> 0 <= s <= L ->
    match_body cfg src pat call again caps s p = MFound e caps' -> s <= e <= L.
  Proof.
    intros Hc Ha Hs. unfold match_body.
    destruct (negb (p <? plen pat)); [intros [= <- <-]; lia|].
    assert (Hdflt :
      match class_end pat p with
      | Some ep =>
          if negb (single_match cfg src pat s p ep)
          then if (P pat ep =? 42) || (P pat ep =? 63) || (P pat ep =? 45) then again s (ep + 1) else MFail
          else if P pat ep =? 63
               then match call caps (s + 1) (ep + 1) with MFail => again s (ep + 1) | r0 => r0 end
               else if (P pat ep =? 43) || (P pat ep =? 42)
                    then max_down call caps (if P pat ep =? 43 then s + 1 else s) ep (S (length src))
                           (count_max cfg src pat (S (length src)) (if P pat ep =? 43 then s + 1 else s) p ep 0)
                    else if P pat ep =? 45
                         then min_up (fun s1 => single_match cfg src pat s1 p ep) call caps ep (S (length src)) s
                         else again (s + 1) ep
      | None => MError
      end = MFound e caps' -> s <= e <= L).
    { destruct (class_end pat p) as [ep|]; [|discriminate].
      destruct (single_match cfg src pat s p ep) eqn:Es; cbn [negb].
      2:{ destruct ((P pat ep =? 42) || (P pat ep =? 63) || (P pat ep =? 45)); [|discriminate]. apply Ha. exact Hs. }
      apply single_match_lt in Es.
      destruct (P pat ep =? 63).
      { destruct (call caps (s + 1) (ep + 1)) eqn:E1; try discriminate.
        - intros [= <- <-]. apply Hc in E1; lia.
        - apply Ha. exact Hs. }
      destruct ((P pat ep =? 43) || (P pat ep =? 42)).
      { set (s0 := if P pat ep =? 43 then s + 1 else s).
        assert (Hs0 : s <= s0 <= L) by (subst s0; destruct (P pat ep =? 43); lia).
        destruct (count_max_bound (S (length src)) s0 p ep 0 ltac:(lia) ltac:(lia)) as [Hi Hb].
        intros H. apply max_down_range in H; try assumption; lia. }
      destruct (P pat ep =? 45).
      { intros H. apply min_up_range in H; try assumption. }
      intros H. apply Ha in H; lia. }
    destruct (P pat p =? 40).
    { destruct (Z.of_nat (length caps) <? cfg_maxcap cfg); [|discriminate].
      destruct (P pat (p + 1) =? 41); apply Hc; exact Hs. }
    destruct (P pat p =? 41).
    { destruct (to_close caps (length caps)) as [l|]; [|discriminate].
      destruct (nth_error caps l) as [[ci cl]|]; [apply Hc; exact Hs|discriminate]. }
    destruct ((P pat p =? 36) && (p + 1 =? plen pat)).
    { destruct (s =? slen_ src); [intros [= <- <-]; lia|discriminate]. }
    destruct (P pat p =? 37); [|exact Hdflt].
    destruct (P pat (p + 1) =? 98).
    { destruct (negb (p + 2 <? plen pat - 1)); [discriminate|].
      destruct ((slen_ src <=? s) || negb (S_ src s =? P pat (p + 2))); [discriminate|].
      destruct (balance_loop src (S (length src)) (s + 1) (P pat (p + 2)) (P pat (p + 3)) 1) as [s'|] eqn:Eb; [|discriminate].
      apply balance_range in Eb; [|lia]. intros H. apply Ha in H; lia. }
    destruct (P pat (p + 1) =? 102).
    { destruct (negb (P pat (p + 2) =? 91)); [discriminate|].
      destruct (class_end pat (p + 2)) as [ep|]; [|discriminate].
      destruct (cfg_front_prev_unsafe_on_empty cfg && (s =? 0) && negb (s <? slen_ src)); [discriminate|].
      destruct (negb _ && _); [apply Ha; exact Hs|discriminate]. }
    destruct ((48 <=? P pat (p + 1)) && (P pat (p + 1) <=? 57)); [|exact Hdflt].
    destruct ((P pat (p + 1) - 49 <? 0) || (Z.of_nat (length caps) <=? P pat (p + 1) - 49)); [discriminate|].
    destruct (nth_error caps (Z.to_nat (P pat (p + 1) - 49))) as [[ci cl]|]; [|discriminate].
    destruct (cl =? CAP_UNFINISHED); [discriminate|].
    destruct (Z.leb_spec 0 cl); cbn [andb]; [|discriminate].
    destruct (Z.leb_spec cl (slen_ src - s)); cbn [andb]; [|discriminate].
    destruct (bytes_eqb (slice src ci cl) (slice src s cl)); [|discriminate].
    intros Hr. apply Ha in Hr; lia.
  Qed.

  Lemma do_match_range fuel : forall d caps s p e caps', 0 <= s <= L ->
    do_match cfg src pat fuel d caps s p = MFound e caps' -> s <= e <= L.
  Proof.
    induction fuel as [|f IH]; intros d caps s p e caps' Hs; [discriminate|].
    cbn [do_match]. apply body_range; [| |exact Hs].
    - intros caps0 s0 p0 e0 c0 Hs0. destruct (enter cfg d); [apply IH; exact Hs0|discriminate].
    - intros s0 p0 e0 c0 Hs0. apply IH. exact Hs0.
  Qed.
End Range.

(* the matcher as string.gsub / str_gsub call it: positions inside the subject, anything that is
   not a match counts as "no match here" *)
Definition pat_matcher (cfg : mcfg) (src pat : bytes) (p0 : Z) : matcher :=
  fun pos =>
    if (0 <=? pos) && (pos <=? slen src) then
      match run_match cfg src pat p0 pos with MFound e c => Some (e, c) | _ => None end
    else None.

Lemma pat_matcher_range cfg src pat p0 pos e c : pat_matcher cfg src pat p0 pos = Some (e, c) -> pos <= e <= slen src.
Proof.
  unfold pat_matcher, run_match.
  destruct (Z.leb_spec 0 pos); destruct (Z.leb_spec pos (slen src)); cbn [andb]; try discriminate.
  destruct (cfg_enter cfg (cfg_depth0 cfg)); [|discriminate].
  destruct (do_match cfg src pat (match_fuel src pat) z [] pos p0) eqn:E; try discriminate.
  intros [= <- <-]. apply do_match_range in E; [exact E|unfold slen_; lia].
Qed.

(* string.gsub only looks at its matcher pointwise *)
Lemma nl_gsub_ext (m1 m2 : matcher) s repl anchor maxn : (forall p, m1 p = m2 p) ->
  nl_gsub m1 s repl anchor maxn = nl_gsub m2 s repl anchor maxn.
Proof.
  intros Hext.
  assert (Hs : forall k a b, nl_search k m1 anchor a b = nl_search k m2 anchor a b).
  { induction k as [|k IHk]; intros a b; cbn [nl_search]; rewrite Hext; [reflexivity|].
    destruct (m2 b) as [[e c]|]; [reflexivity|].
    destruct ((a <? b + 1) || anchor); [reflexivity|apply IHk]. }
  unfold nl_gsub.
  assert (G : forall f pos last n acc, nl_gsub_loop f m1 s repl anchor maxn pos last n acc =
                                       nl_gsub_loop f m2 s repl anchor maxn pos last n acc); [|apply G].
  induction f as [|f IH]; intros pos last n acc; [reflexivity|].
  cbn [nl_gsub_loop]. unfold nl_ms_match. rewrite Hs.
  destruct (n <? maxn); [|reflexivity].
  destruct (slen s <? pos).
  - destruct (pos <? slen s); [|reflexivity]. destruct anchor; [reflexivity|apply IH].
  - destruct (nl_search (Z.to_nat (slen s - pos)) m2 anchor (slen s) pos) as [[[st e] caps]|].
    + destruct (negb (e =? last)).
      * destruct (expand s st e caps repl); [|reflexivity]. destruct anchor; [reflexivity|apply IH].
      * destruct (pos <? slen s); [|reflexivity]. destruct anchor; [reflexivity|apply IH].
    + destruct (pos <? slen s); [|reflexivity]. destruct anchor; [reflexivity|apply IH].
Qed.

(* string.gsub on a real pattern: if the port's matcher stays within its budget and within memory at
   every position of the subject, string.gsub returns what Lua's gsub returns *)
Theorem gsub_pattern_eq_lua src pat repl anchor maxn p0 : is_bytes src = true ->
  (forall pos, 0 <= pos <= slen src -> run_match nl_cfg src pat p0 pos <> MTooComplex) ->
  nl_gsub (pat_matcher nl_cfg src pat p0) src repl anchor maxn =
  lua_gsub (pat_matcher lua_cfg src pat p0) src repl anchor maxn /\
  lua_gsub (pat_matcher lua_cfg src pat p0) src repl anchor maxn <> None.
Proof.
  intros Hsrc Hgood.
  assert (Hext : forall pos, pat_matcher nl_cfg src pat p0 pos = pat_matcher lua_cfg src pat p0 pos).
  { intros pos. unfold pat_matcher.
    destruct (Z.leb_spec 0 pos); cbn [andb]; [|cbv iota; exact eq_refl].
    destruct (Z.leb_spec pos (slen src)); cbv iota; [|exact eq_refl].
    rewrite (match_eq_lua_partial src pat p0 pos _ Hsrc eq_refl (Hgood pos ltac:(lia))). reflexivity. }
  destruct (gsub_eq_lua_gen (pat_matcher lua_cfg src pat p0) src repl anchor maxn
              (pat_matcher_range lua_cfg src pat p0)) as [E Hne].
  split; [|exact Hne]. rewrite <- E.
  apply nl_gsub_ext. exact Hext.
Qed.
