(* C13 (h, continued) - the fuel of the matcher model is never what stops it.
   [do_match]'s fuel is consumed along one path of nested calls and `goto init`s; every one of them moves the
   pattern position forward, so a fuel above the pattern length is never exhausted (no_fuel); [match_fuel] is
   above it (run_match_no_fuel).  The inner loops carry their own bounds (the subject or pattern length + 1):
   each is shown to return the same result under ANY larger bound (the _stable lemmas), i.e. the bound is
   never the reason a loop ends. *)
From C13 Require Import Model ModelDrv ModelPat ProofsDrv ProofsPat.
Local Open Scope Z_scope.

Section Fuel.
  Variable cfg : mcfg.
  Variable src pat : bytes.
  Notation plen := (plen pat).
  Notation slen_ := (slen_ src).

  (* ---- the pattern position moves forward ---- *)
  Lemma set_end_gt f : forall p ep, set_end pat f p = Some ep -> p < ep.
  Proof.
    induction f as [|f IH]; intros p ep; cbn [set_end]; [discriminate|].
    destruct (p =? plen); [discriminate|].
    set (p1 := if (P pat p =? 37) && (p + 1 <? plen) then p + 1 + 1 else p + 1).
    assert (p < p1) by (subst p1; destruct ((P pat p =? 37) && (p + 1 <? plen)); lia).
    destruct (P pat p1 =? 93).
    - intros E. inversion E. lia.
    - intros E. apply IH in E. lia.
  Qed.

  Lemma class_end_gt p ep : class_end pat p = Some ep -> p < ep.
  Proof.
    unfold class_end. destruct (P pat p =? 37).
    - destruct (p + 1 =? plen); [discriminate|]. intros E. inversion E. lia.
    - destruct (P pat p =? 91).
      + intros E. apply set_end_gt in E. destruct (P pat (p + 1) =? 94); lia.
      + intros E. inversion E. lia.
  Qed.

  Lemma count_max_ge f : forall s p ep i, i <= count_max cfg src pat f s p ep i.
  Proof.
    induction f as [|f IH]; intros s p ep i; cbn [count_max]; [lia|].
    destruct (single_match cfg src pat (s + i) p ep); [|lia]. specialize (IH s p ep (i + 1)). lia.
  Qed.

  Lemma single_match_lt s p ep : single_match cfg src pat s p ep = true -> s < slen_.
  Proof. unfold single_match. destruct (Z.leb_spec slen_ s); [discriminate|]. intros _. assumption. Qed.

  Lemma balance_ge f : forall s b e cont s', balance_loop src f s b e cont = Some s' -> s < s'.
  Proof.
    induction f as [|f IH]; intros s b e cont s'; cbn [balance_loop]; [discriminate|].
    destruct (negb (s <? slen_)); [discriminate|].
    destruct (S_ src s =? e).
    - destruct (cont - 1 =? 0); [intros E; inversion E; lia|intros E; apply IH in E; lia].
    - destruct (S_ src s =? b); intros E; apply IH in E; lia.
  Qed.

  (* ---- the backtracking loops ---- *)
  Lemma max_down_nofuel call caps s0 ep : (forall i, 0 <= i -> call caps (s0 + i) (ep + 1) <> MFuel) ->
    forall k i, 0 <= i -> max_down call caps s0 ep k i <> MFuel.
  Proof.
    intros Hc. induction k as [|k IH]; intros i Hi; cbn [max_down]; specialize (Hc i Hi);
      destruct (call caps (s0 + i) (ep + 1)); try discriminate; try congruence.
    destruct (Z.ltb_spec (i - 1) 0); [discriminate|]. apply IH. lia.
  Qed.

  Lemma min_up_nofuel sm call caps ep : (forall s1, sm s1 = true -> s1 < slen_) ->
    (forall s1, 0 <= s1 -> call caps s1 (ep + 1) <> MFuel) ->
    forall k s1, 0 <= s1 -> slen_ - s1 < Z.of_nat k -> min_up sm call caps ep k s1 <> MFuel.
  Proof.
    intros Hsm Hc. induction k as [|k IH]; intros s1 H0 Hk; cbn [min_up]; specialize (Hc s1 H0);
      destruct (call caps s1 (ep + 1)); try discriminate; try congruence.
    - destruct (sm s1) eqn:E; [|discriminate]. apply Hsm in E. lia.
    - destruct (sm s1) eqn:E; [|discriminate]. apply Hsm in E. apply IH; lia.
  Qed.

  (* ---- one level of match(): no MFuel if the continuations, which are only entered further right in the
     pattern and at non-negative subject positions, give none ---- *)
  Lemma body_nofuel call again caps s p : 0 <= s ->
    (p < plen -> forall caps' s' p', 0 <= s' -> p < p' -> call caps' s' p' <> MFuel) ->
    (p < plen -> forall s' p', 0 <= s' -> p < p' -> again s' p' <> MFuel) ->
    match_body cfg src pat call again caps s p <> MFuel.
  Proof.
    intros Hs Hc0 Ha0. unfold match_body.
    destruct (Z.ltb_spec p plen) as [Hlt|]; cbn [negb]; [|discriminate].
    pose proof (Hc0 Hlt) as Hc. pose proof (Ha0 Hlt) as Ha.
    assert (Hdflt :
      match class_end pat p with
      | Some ep =>
          if negb (single_match cfg src pat s p ep)
          then if (P pat ep =? 42) || (P pat ep =? 63) || (P pat ep =? 45) then again s (ep + 1) else MFail
          else if P pat ep =? 63
               then match call caps (s + 1) (ep + 1) with MFail => again s (ep + 1) | r0 => r0 end
               else if (P pat ep =? 43) || (P pat ep =? 42)
                    then max_down call caps (if P pat ep =? 43 then s + 1 else s) ep (S (length src))
                           (count_max cfg src pat (S (length src)) (if P pat ep =? 43 then s + 1 else s) p ep 0)
                    else if P pat ep =? 45
                         then min_up (fun s1 => single_match cfg src pat s1 p ep) call caps ep (S (length src)) s
                         else again (s + 1) ep
      | None => MError
      end <> MFuel).
    { destruct (class_end pat p) as [ep|] eqn:Ece; [|discriminate]. apply class_end_gt in Ece.
      destruct (negb (single_match cfg src pat s p ep)).
      { destruct ((P pat ep =? 42) || (P pat ep =? 63) || (P pat ep =? 45)); [apply Ha; lia|discriminate]. }
      destruct (P pat ep =? 63).
      { pose proof (Hc caps (s + 1) (ep + 1) ltac:(lia) ltac:(lia)) as H1.
        destruct (call caps (s + 1) (ep + 1)); try discriminate; try congruence. apply Ha; lia. }
      destruct ((P pat ep =? 43) || (P pat ep =? 42)).
      { apply max_down_nofuel.
        - intros i Hi. apply Hc; [destruct (P pat ep =? 43); lia|lia].
        - apply count_max_ge. }
      destruct (P pat ep =? 45); [|apply Ha; lia].
      apply min_up_nofuel.
      - intros s1. apply single_match_lt.
      - intros s1 H1. apply Hc; lia.
      - exact Hs.
      - unfold ModelPat.slen_, slen. lia. }
    destruct (P pat p =? 40).
    { destruct (Z.of_nat (length caps) <? cfg_maxcap cfg); [|discriminate].
      destruct (P pat (p + 1) =? 41); apply Hc; lia. }
    destruct (P pat p =? 41).
    { destruct (to_close caps (length caps)) as [l|]; [|discriminate].
      destruct (nth_error caps l) as [[ci cl]|]; [apply Hc; lia|discriminate]. }
    destruct ((P pat p =? 36) && (p + 1 =? plen)).
    { destruct (s =? slen_); discriminate. }
    destruct (P pat p =? 37); [|exact Hdflt].
    destruct (P pat (p + 1) =? 98).
    { destruct (negb (p + 2 <? plen - 1)); [discriminate|].
      destruct ((slen_ <=? s) || negb (S_ src s =? P pat (p + 2))); [discriminate|].
      destruct (balance_loop src (S (length src)) (s + 1) (P pat (p + 2)) (P pat (p + 3)) 1) as [s'|] eqn:Eb; [|discriminate].
      apply balance_ge in Eb. apply Ha; lia. }
    destruct (P pat (p + 1) =? 102).
    { destruct (negb (P pat (p + 2) =? 91)); [discriminate|].
      destruct (class_end pat (p + 2)) as [ep|] eqn:Ece; [|discriminate]. apply class_end_gt in Ece.
      destruct (cfg_front_prev_unsafe_on_empty cfg && (s =? 0) && negb (s <? slen_)); [discriminate|].
      destruct (negb _ && _); [apply Ha; lia|discriminate]. }
    destruct ((48 <=? P pat (p + 1)) && (P pat (p + 1) <=? 57)); [|exact Hdflt].
    destruct ((P pat (p + 1) - 49 <? 0) || (Z.of_nat (length caps) <=? P pat (p + 1) - 49)); [discriminate|].
    destruct (nth_error caps (Z.to_nat (P pat (p + 1) - 49))) as [[ci cl]|]; [|discriminate].
    destruct (cl =? CAP_UNFINISHED); [discriminate|].
    destruct (Z.leb_spec 0 cl); cbn [andb]; [|discriminate].
    destruct ((cl <=? slen_ - s) && bytes_eqb (slice src ci cl) (slice src s cl)); [apply Ha; lia|discriminate].
  Qed.

  (* ---- the same walk for MUnsafe: with the %f flag off no branch produces it ---- *)
  Lemma max_down_nounsafe call caps s0 ep : (forall i, 0 <= i -> call caps (s0 + i) (ep + 1) <> MUnsafe) ->
    forall k i, 0 <= i -> max_down call caps s0 ep k i <> MUnsafe.
  Proof.
    intros Hc. induction k as [|k IH]; intros i Hi; cbn [max_down]; specialize (Hc i Hi);
      destruct (call caps (s0 + i) (ep + 1)); try discriminate; try congruence.
    destruct (Z.ltb_spec (i - 1) 0); [discriminate|]. apply IH. lia.
  Qed.

  Lemma min_up_nounsafe sm call caps ep :
    (forall s1, 0 <= s1 -> call caps s1 (ep + 1) <> MUnsafe) ->
    forall k s1, 0 <= s1 -> min_up sm call caps ep k s1 <> MUnsafe.
  Proof.
    intros Hc. induction k as [|k IH]; intros s1 H0; cbn [min_up]; specialize (Hc s1 H0);
      destruct (call caps s1 (ep + 1)); try discriminate; try congruence.
    - destruct (sm s1); discriminate.
    - destruct (sm s1); [|discriminate]. apply IH; lia.
  Qed.

  (* ---- one level of match(): no MUnsafe if the continuations, which are only entered further right in the
     pattern and at non-negative subject positions, give none ---- *)
  Lemma body_nounsafe call again caps s p : cfg_front_prev_unsafe_on_empty cfg = false -> 0 <= s ->
    (p < plen -> forall caps' s' p', 0 <= s' -> p < p' -> call caps' s' p' <> MUnsafe) ->
    (p < plen -> forall s' p', 0 <= s' -> p < p' -> again s' p' <> MUnsafe) ->
    match_body cfg src pat call again caps s p <> MUnsafe.
  Proof.
    intros Hflag Hs Hc0 Ha0. unfold match_body. rewrite Hflag.
    destruct (Z.ltb_spec p plen) as [Hlt|]; cbn [negb]; [|discriminate].
    pose proof (Hc0 Hlt) as Hc. pose proof (Ha0 Hlt) as Ha.
    assert (Hdflt :
      match class_end pat p with
      | Some ep =>
          if negb (single_match cfg src pat s p ep)
          then if (P pat ep =? 42) || (P pat ep =? 63) || (P pat ep =? 45) then again s (ep + 1) else MFail
          else if P pat ep =? 63
               then match call caps (s + 1) (ep + 1) with MFail => again s (ep + 1) | r0 => r0 end
               else if (P pat ep =? 43) || (P pat ep =? 42)
                    then max_down call caps (if P pat ep =? 43 then s + 1 else s) ep (S (length src))
                           (count_max cfg src pat (S (length src)) (if P pat ep =? 43 then s + 1 else s) p ep 0)
                    else if P pat ep =? 45
                         then min_up (fun s1 => single_match cfg src pat s1 p ep) call caps ep (S (length src)) s
                         else again (s + 1) ep
      | None => MError
      end <> MUnsafe).
    { destruct (class_end pat p) as [ep|] eqn:Ece; [|discriminate]. apply class_end_gt in Ece.
      destruct (negb (single_match cfg src pat s p ep)).
      { destruct ((P pat ep =? 42) || (P pat ep =? 63) || (P pat ep =? 45)); [apply Ha; lia|discriminate]. }
      destruct (P pat ep =? 63).
      { pose proof (Hc caps (s + 1) (ep + 1) ltac:(lia) ltac:(lia)) as H1.
        destruct (call caps (s + 1) (ep + 1)); try discriminate; try congruence. apply Ha; lia. }
      destruct ((P pat ep =? 43) || (P pat ep =? 42)).
      { apply max_down_nounsafe.
        - intros i Hi. apply Hc; [destruct (P pat ep =? 43); lia|lia].
        - apply count_max_ge. }
      destruct (P pat ep =? 45); [|apply Ha; lia].
      apply min_up_nounsafe.
      - intros s1 H1. apply Hc; lia.
      - exact Hs. }
    destruct (P pat p =? 40).
    { destruct (Z.of_nat (length caps) <? cfg_maxcap cfg); [|discriminate].
      destruct (P pat (p + 1) =? 41); apply Hc; lia. }
    destruct (P pat p =? 41).
    { destruct (to_close caps (length caps)) as [l|]; [|discriminate].
      destruct (nth_error caps l) as [[ci cl]|]; [apply Hc; lia|discriminate]. }
    destruct ((P pat p =? 36) && (p + 1 =? plen)).
    { destruct (s =? slen_); discriminate. }
    destruct (P pat p =? 37); [|exact Hdflt].
    destruct (P pat (p + 1) =? 98).
    { destruct (negb (p + 2 <? plen - 1)); [discriminate|].
      destruct ((slen_ <=? s) || negb (S_ src s =? P pat (p + 2))); [discriminate|].
      destruct (balance_loop src (S (length src)) (s + 1) (P pat (p + 2)) (P pat (p + 3)) 1) as [s'|] eqn:Eb; [|discriminate].
      apply balance_ge in Eb. apply Ha; lia. }
    destruct (P pat (p + 1) =? 102).
    { destruct (negb (P pat (p + 2) =? 91)); [discriminate|].
      destruct (class_end pat (p + 2)) as [ep|] eqn:Ece; [|discriminate]. apply class_end_gt in Ece.
      cbn [andb].
      destruct (negb _ && _); [apply Ha; lia|discriminate]. }
    destruct ((48 <=? P pat (p + 1)) && (P pat (p + 1) <=? 57)); [|exact Hdflt].
    destruct ((P pat (p + 1) - 49 <? 0) || (Z.of_nat (length caps) <=? P pat (p + 1) - 49)); [discriminate|].
    destruct (nth_error caps (Z.to_nat (P pat (p + 1) - 49))) as [[ci cl]|]; [|discriminate].
    destruct (cl =? CAP_UNFINISHED); [discriminate|].
    destruct (Z.leb_spec 0 cl); cbn [andb]; [|discriminate].
    destruct ((cl <=? slen_ - s) && bytes_eqb (slice src ci cl) (slice src s cl)); [apply Ha; lia|discriminate].
  Qed.

  (* ---- the inner loops: their bounds are never what ends them ---- *)
  Lemma set_end_stable : forall f1 f2 p, p <= plen -> plen - p < Z.of_nat f1 -> plen - p < Z.of_nat f2 ->
    set_end pat f1 p = set_end pat f2 p.
  Proof.
    induction f1 as [|f1 IH]; intros f2 p Hp H1 H2; [lia|]. destruct f2 as [|f2]; [lia|].
    cbn [set_end]. destruct (Z.eqb_spec p plen); [reflexivity|].
    set (p1 := if (P pat p =? 37) && (p + 1 <? plen) then p + 1 + 1 else p + 1).
    assert (p < p1 <= plen).
    { subst p1. destruct (P pat p =? 37); cbn [andb]; [|lia]. destruct (Z.ltb_spec (p + 1) plen); lia. }
    destruct (P pat p1 =? 93); [reflexivity|]. apply IH; lia.
  Qed.

  Lemma bracket_loop_stable : forall f1 f2 c p ec sig, ec - p <= Z.of_nat f1 -> ec - p <= Z.of_nat f2 ->
    bracket_loop cfg pat f1 c p ec sig = bracket_loop cfg pat f2 c p ec sig.
  Proof.
    induction f1 as [|f1 IH]; intros f2 c p ec sig H1 H2.
    - destruct f2 as [|f2]; [reflexivity|]. cbn [bracket_loop]. destruct (Z.ltb_spec (p + 1) ec); [lia|reflexivity].
    - destruct f2 as [|f2].
      + cbn [bracket_loop]. destruct (Z.ltb_spec (p + 1) ec); [lia|reflexivity].
      + cbn [bracket_loop]. destruct (Z.ltb_spec (p + 1) ec); cbn [negb]; [|reflexivity].
        destruct (P pat (p + 1) =? 37).
        { destruct (match_class cfg c (P pat (p + 1 + 1))); [reflexivity|]. apply IH; lia. }
        destruct ((P pat (p + 1 + 1) =? 45) && (p + 1 + 2 <? ec)).
        { destruct ((P pat (p + 1 + 2 - 2) <=? c) && (c <=? P pat (p + 1 + 2))); [reflexivity|]. apply IH; lia. }
        destruct (P pat (p + 1) =? c); [reflexivity|]. apply IH; lia.
  Qed.

  Lemma balance_loop_stable : forall f1 f2 s b e cont, slen_ - s <= Z.of_nat f1 -> slen_ - s <= Z.of_nat f2 ->
    balance_loop src f1 s b e cont = balance_loop src f2 s b e cont.
  Proof.
    induction f1 as [|f1 IH]; intros f2 s b e cont H1 H2.
    - destruct f2 as [|f2]; [reflexivity|]. cbn [balance_loop]. destruct (Z.ltb_spec s slen_); [lia|reflexivity].
    - destruct f2 as [|f2].
      + cbn [balance_loop]. destruct (Z.ltb_spec s slen_); [lia|reflexivity].
      + cbn [balance_loop]. destruct (Z.ltb_spec s slen_); cbn [negb]; [|reflexivity].
        destruct (S_ src s =? e).
        * destruct (cont - 1 =? 0); [reflexivity|]. apply IH; lia.
        * destruct (S_ src s =? b); apply IH; lia.
  Qed.

  Lemma count_max_stable : forall f1 f2 s p ep i, slen_ - (s + i) <= Z.of_nat f1 -> slen_ - (s + i) <= Z.of_nat f2 ->
    count_max cfg src pat f1 s p ep i = count_max cfg src pat f2 s p ep i.
  Proof.
    induction f1 as [|f1 IH]; intros f2 s p ep i H1 H2.
    - destruct f2 as [|f2]; [reflexivity|]. cbn [count_max].
      destruct (single_match cfg src pat (s + i) p ep) eqn:E; [apply single_match_lt in E; lia|reflexivity].
    - destruct f2 as [|f2].
      + cbn [count_max]. destruct (single_match cfg src pat (s + i) p ep) eqn:E; [apply single_match_lt in E; lia|reflexivity].
      + cbn [count_max]. destruct (single_match cfg src pat (s + i) p ep) eqn:E; [|reflexivity].
        apply single_match_lt in E. apply IH; lia.
  Qed.

  Lemma max_down_stable call caps s0 ep : forall k1 k2 i, i <= Z.of_nat k1 -> i <= Z.of_nat k2 ->
    max_down call caps s0 ep k1 i = max_down call caps s0 ep k2 i.
  Proof.
    induction k1 as [|k1 IH]; intros k2 i H1 H2.
    - destruct k2 as [|k2]; [reflexivity|]. cbn [max_down]. destruct (call caps (s0 + i) (ep + 1)); try reflexivity.
      destruct (Z.ltb_spec (i - 1) 0); [reflexivity|lia].
    - destruct k2 as [|k2].
      + cbn [max_down]. destruct (call caps (s0 + i) (ep + 1)); try reflexivity.
        destruct (Z.ltb_spec (i - 1) 0); [reflexivity|lia].
      + cbn [max_down]. destruct (call caps (s0 + i) (ep + 1)); try reflexivity.
        destruct (Z.ltb_spec (i - 1) 0); [reflexivity|]. apply IH; lia.
  Qed.

  Lemma min_up_stable sm call caps ep : (forall s1, sm s1 = true -> s1 < slen_) ->
    forall k1 k2 s1, slen_ - s1 <= Z.of_nat k1 -> slen_ - s1 <= Z.of_nat k2 ->
    min_up sm call caps ep k1 s1 = min_up sm call caps ep k2 s1.
  Proof.
    intros Hsm. induction k1 as [|k1 IH]; intros k2 s1 H1 H2.
    - destruct k2 as [|k2]; [reflexivity|]. cbn [min_up]. destruct (call caps s1 (ep + 1)); try reflexivity.
      destruct (sm s1) eqn:E; [apply Hsm in E; lia|reflexivity].
    - destruct k2 as [|k2].
      + cbn [min_up]. destruct (call caps s1 (ep + 1)); try reflexivity.
        destruct (sm s1) eqn:E; [apply Hsm in E; lia|reflexivity].
      + cbn [min_up]. destruct (call caps s1 (ep + 1)); try reflexivity.
        destruct (sm s1) eqn:E; [|reflexivity]. apply Hsm in E. apply IH; lia.
  Qed.

  Theorem no_fuel : forall fuel depth caps s p, 0 <= s -> plen - p < Z.of_nat fuel -> (0 < fuel)%nat ->
    do_match cfg src pat fuel depth caps s p <> MFuel.
  Proof.
    induction fuel as [|f IH]; intros depth caps s p Hs Hf Hpos; [lia|].
    cbn [do_match]. apply body_nofuel; [exact Hs| |].
    - intros Hlt caps' s' p' Hs' Hp. unfold enter. destruct (cfg_enter cfg depth); [|discriminate]. apply IH; lia.
    - intros Hlt s' p' Hs' Hp. apply IH; lia.
  Qed.
  Theorem no_unsafe : cfg_front_prev_unsafe_on_empty cfg = false -> forall fuel depth caps s p, 0 <= s ->
    do_match cfg src pat fuel depth caps s p <> MUnsafe.
  Proof.
    intros Hflag. induction fuel as [|f IH]; intros depth caps s p Hs; [discriminate|].
    cbn [do_match]. apply body_nounsafe; [exact Hflag|exact Hs| |].
    - intros Hlt caps' s' p' Hs' Hp. unfold enter. destruct (cfg_enter cfg depth); [|discriminate]. apply IH; lia.
    - intros Hlt s' p' Hs' Hp. apply IH; lia.
  Qed.
End Fuel.

Theorem run_match_no_fuel cfg src pat p0 s : 0 <= s -> 0 <= p0 -> run_match cfg src pat p0 s <> MFuel.
Proof.
  intros Hs Hp. unfold run_match. destruct (cfg_enter cfg (cfg_depth0 cfg)); [|discriminate].
  apply no_fuel; [exact Hs| |unfold match_fuel; lia].
  unfold match_fuel, plen, slen. nia.
Qed.

Theorem run_match_no_unsafe cfg src pat p0 s : cfg_front_prev_unsafe_on_empty cfg = false -> 0 <= s ->
  run_match cfg src pat p0 s <> MUnsafe.
Proof.
  intros Hflag Hs. unfold run_match. destruct (cfg_enter cfg (cfg_depth0 cfg)); [|discriminate]. apply no_unsafe; assumption.
Qed.

(* ------------------------------------------------------------------ positions stay inside the arguments *)
(* [do_match_inv] is [do_match] with a check on every entry of match() and every `goto init`: the subject
   position is within [0, #subject], the pattern position within [0, #pattern] (the terminator), every capture
   starts at or before the current position and, once closed, ends inside the subject.  A failed check gives
   MUnsafe.  The theorem below: the check never fails - [do_match_inv] IS [do_match]. *)
Section Inv.
  Variable cfg : mcfg.
  Variable src pat : bytes.
  Notation plen := (plen pat).
  Notation slen_ := (slen_ src).

  Definition cap_okb (s : Z) (c : cap) : bool :=
    let '(ci, cl) := c in
    (0 <=? ci) && (ci <=? s) && ((cl =? CAP_UNFINISHED) || (cl =? CAP_POSITION) || ((0 <=? cl) && (ci + cl <=? s))).
  Definition inv_b (caps : list cap) (s p : Z) : bool :=
    (0 <=? s) && (s <=? slen_) && (0 <=? p) && (p <=? plen) && forallb (cap_okb s) caps.

  Fixpoint do_match_inv (fuel : nat) (depth : Z) (caps : list cap) (s p : Z) {struct fuel} : mres :=
    match fuel with
    | O => MFuel
    | S f =>
        if negb (inv_b caps s p) then MUnsafe
        else
          match_body cfg src pat
            (fun caps s p => match enter cfg depth with
                             | None => MTooComplex
                             | Some d => do_match_inv f d caps s p
                             end)
            (fun s p => do_match_inv f depth caps s p)
            caps s p
    end.

  Lemma P_nonzero_lt i : 0 <= i -> P pat i <> 0 -> i < plen.
  Proof.
    intros Hi Hn. unfold P in Hn. unfold ModelPat.plen, slen.
    destruct (Nat.lt_ge_cases (Z.to_nat i) (length pat)) as [H|H]; [lia|].
    rewrite nth_overflow in Hn by exact H. congruence.
  Qed.

  Lemma set_end_le f : forall p ep, 0 <= p -> set_end pat f p = Some ep -> ep <= plen.
  Proof.
    induction f as [|f IH]; intros p ep Hp; cbn [set_end]; [discriminate|].
    destruct (p =? plen); [discriminate|].
    set (p1 := if (P pat p =? 37) && (p + 1 <? plen) then p + 1 + 1 else p + 1).
    assert (0 <= p1) by (subst p1; destruct ((P pat p =? 37) && (p + 1 <? plen)); lia).
    destruct (Z.eqb_spec (P pat p1) 93) as [E|].
    - intros H1. inversion H1. assert (p1 < plen) by (apply P_nonzero_lt; [assumption|rewrite E; discriminate]). lia.
    - apply IH. assumption.
  Qed.

  Lemma class_end_le p ep : 0 <= p < plen -> class_end pat p = Some ep -> ep <= plen.
  Proof.
    intros Hp. unfold class_end. destruct (P pat p =? 37).
    - destruct (Z.eqb_spec (p + 1) plen); [discriminate|]. intros E. inversion E. lia.
    - destruct (P pat p =? 91).
      + apply set_end_le. destruct (P pat (p + 1) =? 94); lia.
      + intros E. inversion E. lia.
  Qed.

  Lemma cap_ok_mono s s' c : s <= s' -> cap_okb s c = true -> cap_okb s' c = true.
  Proof. unfold cap_okb. destruct c as [ci cl]. intros H H1. lia. Qed.

  Lemma caps_mono s s' caps : s <= s' -> forallb (cap_okb s) caps = true -> forallb (cap_okb s') caps = true.
  Proof.
    intros H. rewrite !forallb_forall. intros Hc x Hx. eapply cap_ok_mono; [exact H|]. apply Hc. exact Hx.
  Qed.

  Lemma inv_intro caps s p : 0 <= s <= slen_ -> 0 <= p <= plen -> forallb (cap_okb s) caps = true -> inv_b caps s p = true.
  Proof. intros Hs Hp Hc. unfold inv_b. rewrite Hc. lia. Qed.

  Lemma inv_elim caps s p : inv_b caps s p = true -> 0 <= s <= slen_ /\ 0 <= p <= plen /\ forallb (cap_okb s) caps = true.
  Proof.
    unfold inv_b. intros H. apply andb_true_iff in H. destruct H as [H Hc]. split; [lia|]. split; [lia|exact Hc].
  Qed.

  Lemma count_max_le f : forall s p ep i, s + i <= slen_ -> s + count_max cfg src pat f s p ep i <= slen_.
  Proof.
    induction f as [|f IH]; intros s p ep i Hi; cbn [count_max]; [exact Hi|].
    destruct (single_match cfg src pat (s + i) p ep) eqn:E; [|exact Hi].
    apply single_match_lt in E. apply IH. lia.
  Qed.

  Lemma balance_le f : forall s b e cont s', balance_loop src f s b e cont = Some s' -> s' <= slen_.
  Proof.
    induction f as [|f IH]; intros s b e cont s'; cbn [balance_loop]; [discriminate|].
    destruct (Z.ltb_spec s slen_); cbn [negb]; [|discriminate].
    destruct (S_ src s =? e).
    - destruct (cont - 1 =? 0); [intros E; inversion E; lia|apply IH].
    - destruct (S_ src s =? b); apply IH.
  Qed.

  Lemma max_down_eq_on call1 call2 caps s0 ep : forall k i, 0 <= i ->
    (forall i', 0 <= i' <= i -> call1 caps (s0 + i') (ep + 1) = call2 caps (s0 + i') (ep + 1)) ->
    max_down call1 caps s0 ep k i = max_down call2 caps s0 ep k i.
  Proof.
    induction k as [|k IH]; intros i Hi Hc; cbn [max_down]; rewrite (Hc i ltac:(lia)); [reflexivity|].
    destruct (call2 caps (s0 + i) (ep + 1)); try reflexivity.
    destruct (Z.ltb_spec (i - 1) 0); [reflexivity|]. apply IH; [lia|]. intros i' Hi'. apply Hc. lia.
  Qed.

  Lemma min_up_eq_on sm call1 call2 caps ep : (forall s1, sm s1 = true -> s1 < slen_) -> forall k s1,
    (forall s1', s1 <= s1' <= slen_ -> call1 caps s1' (ep + 1) = call2 caps s1' (ep + 1)) -> s1 <= slen_ ->
    min_up sm call1 caps ep k s1 = min_up sm call2 caps ep k s1.
  Proof.
    intros Hsm. induction k as [|k IH]; intros s1 Hc Hs; cbn [min_up]; rewrite (Hc s1 ltac:(lia)); [reflexivity|].
    destruct (call2 caps s1 (ep + 1)); try reflexivity.
    destruct (sm s1) eqn:E; [|reflexivity]. apply Hsm in E. apply IH; [|lia]. intros s1' H'. apply Hc. lia.
  Qed.

  Lemma forallb_firstn {A} (f : A -> bool) n l : forallb f l = true -> forallb f (firstn n l) = true.
  Proof. rewrite !forallb_forall. intros H x Hx. apply H. rewrite <- (firstn_skipn n l). apply in_or_app. left. exact Hx. Qed.
  Lemma forallb_skipn {A} (f : A -> bool) n l : forallb f l = true -> forallb f (skipn n l) = true.
  Proof.
    rewrite !forallb_forall. intros H x Hx. apply H. rewrite <- (firstn_skipn n l). apply in_or_app. right. exact Hx.
  Qed.

  Lemma set_len_ok caps l s ci cl : forallb (cap_okb s) caps = true -> nth_error caps l = Some (ci, cl) ->
    forallb (cap_okb s) (set_len caps l (s - ci)) = true.
  Proof.
    intros Hc Hn. unfold set_len. rewrite Hn. rewrite forallb_app. cbn [app forallb].
    rewrite (forallb_firstn _ l caps Hc), (forallb_skipn _ (S l) caps Hc). cbn [andb]. rewrite andb_true_r.
    assert (Hx : cap_okb s (ci, cl) = true).
    { rewrite forallb_forall in Hc. apply Hc. eapply nth_error_In. exact Hn. }
    unfold cap_okb in *. unfold CAP_UNFINISHED, CAP_POSITION in *. lia.
  Qed.

  (* one level of match(): its continuations are only ever entered on states that pass the check *)
  Lemma body_eq_on_inv call1 call2 again1 again2 caps s p : inv_b caps s p = true ->
    (forall caps' s' p', inv_b caps' s' p' = true -> call1 caps' s' p' = call2 caps' s' p') ->
    (forall s' p', inv_b caps s' p' = true -> again1 s' p' = again2 s' p') ->
    match_body cfg src pat call1 again1 caps s p = match_body cfg src pat call2 again2 caps s p.
  Proof.
    intros Hinv Hc Ha. destruct (inv_elim _ _ _ Hinv) as (Hs & Hp & Hcaps).
    unfold match_body. destruct (Z.ltb_spec p plen) as [Hlt|]; cbn [negb]; [|reflexivity].
    assert (Hnz : forall i, 0 <= i -> P pat i <> 0 -> i < plen) by exact P_nonzero_lt.
    assert (Hdflt :
      match class_end pat p with
      | Some ep =>
          if negb (single_match cfg src pat s p ep)
          then if (P pat ep =? 42) || (P pat ep =? 63) || (P pat ep =? 45) then again1 s (ep + 1) else MFail
          else if P pat ep =? 63
               then match call1 caps (s + 1) (ep + 1) with MFail => again1 s (ep + 1) | r0 => r0 end
               else if (P pat ep =? 43) || (P pat ep =? 42)
                    then max_down call1 caps (if P pat ep =? 43 then s + 1 else s) ep (S (length src))
                           (count_max cfg src pat (S (length src)) (if P pat ep =? 43 then s + 1 else s) p ep 0)
                    else if P pat ep =? 45
                         then min_up (fun s1 => single_match cfg src pat s1 p ep) call1 caps ep (S (length src)) s
                         else again1 (s + 1) ep
      | None => MError
      end =
      match class_end pat p with
      | Some ep =>
          if negb (single_match cfg src pat s p ep)
          then if (P pat ep =? 42) || (P pat ep =? 63) || (P pat ep =? 45) then again2 s (ep + 1) else MFail
          else if P pat ep =? 63
               then match call2 caps (s + 1) (ep + 1) with MFail => again2 s (ep + 1) | r0 => r0 end
               else if (P pat ep =? 43) || (P pat ep =? 42)
                    then max_down call2 caps (if P pat ep =? 43 then s + 1 else s) ep (S (length src))
                           (count_max cfg src pat (S (length src)) (if P pat ep =? 43 then s + 1 else s) p ep 0)
                    else if P pat ep =? 45
                         then min_up (fun s1 => single_match cfg src pat s1 p ep) call2 caps ep (S (length src)) s
                         else again2 (s + 1) ep
      | None => MError
      end).
    { destruct (class_end pat p) as [ep|] eqn:Ece; [|reflexivity].
      pose proof (class_end_gt pat p ep Ece) as Hgt. pose proof (class_end_le p ep ltac:(lia) Ece) as Hle.
      (* a suffix character at ep means ep is inside the pattern *)
      assert (Hsuf : forall k, k <> 0 -> P pat ep = k -> ep + 1 <= plen).
      { intros k Hk E. assert (ep < plen) by (apply Hnz; [lia|rewrite E; exact Hk]). lia. }
      destruct (single_match cfg src pat s p ep) eqn:Esm; cbn [negb].
      2:{ destruct (Z.eqb_spec (P pat ep) 42) as [E|]; cbn [orb].
          { apply Ha. apply inv_intro; [lia| |exact Hcaps]. pose proof (Hsuf 42 ltac:(lia) E). lia. }
          destruct (Z.eqb_spec (P pat ep) 63) as [E|]; cbn [orb].
          { apply Ha. apply inv_intro; [lia| |exact Hcaps]. pose proof (Hsuf 63 ltac:(lia) E). lia. }
          destruct (Z.eqb_spec (P pat ep) 45) as [E|]; [|reflexivity].
          apply Ha. apply inv_intro; [lia| |exact Hcaps]. pose proof (Hsuf 45 ltac:(lia) E). lia. }
      apply single_match_lt in Esm.
      destruct (Z.eqb_spec (P pat ep) 63) as [E63|].
      { pose proof (Hsuf 63 ltac:(lia) E63).
        rewrite (Hc caps (s + 1) (ep + 1)) by (apply inv_intro; [lia|lia|apply (caps_mono s); [lia|exact Hcaps]]).
        destruct (call2 caps (s + 1) (ep + 1)); try reflexivity.
        apply Ha. apply inv_intro; [lia|lia|exact Hcaps]. }
      destruct ((P pat ep =? 43) || (P pat ep =? 42)) eqn:Epm.
      { assert (ep + 1 <= plen).
        { apply orb_true_iff in Epm. destruct Epm as [E|E]; apply Z.eqb_eq in E; [apply (Hsuf 43)|apply (Hsuf 42)]; (lia || exact E). }
        set (s0 := if P pat ep =? 43 then s + 1 else s).
        assert (Hs0 : s <= s0 <= slen_) by (subst s0; destruct (P pat ep =? 43); lia).
        apply max_down_eq_on.
        - pose proof (count_max_ge cfg src pat (S (length src)) s0 p ep 0). lia.
        - intros i' Hi'. pose proof (count_max_le (S (length src)) s0 p ep 0 ltac:(lia)).
          apply Hc. apply inv_intro; [lia|lia|apply (caps_mono s); [lia|exact Hcaps]]. }
      destruct (Z.eqb_spec (P pat ep) 45) as [E45|].
      { pose proof (Hsuf 45 ltac:(lia) E45).
        apply min_up_eq_on.
        - intros s1. apply single_match_lt.
        - intros s1' Hs1. apply Hc. apply inv_intro; [lia|lia|apply (caps_mono s); [lia|exact Hcaps]].
        - lia. }
      apply Ha. apply inv_intro; [lia|lia|apply (caps_mono s); [lia|exact Hcaps]]. }
    destruct (P pat p =? 40).
    { destruct (Z.of_nat (length caps) <? cfg_maxcap cfg); [|reflexivity].
      destruct (Z.eqb_spec (P pat (p + 1)) 41) as [E|].
      - assert (p + 1 < plen) by (apply Hnz; [lia|rewrite E; discriminate]).
        apply Hc. apply inv_intro; [lia|lia|]. rewrite forallb_app, Hcaps. cbn. unfold CAP_POSITION. lia.
      - apply Hc. apply inv_intro; [lia|lia|]. rewrite forallb_app, Hcaps. cbn. unfold CAP_UNFINISHED. lia. }
    destruct (P pat p =? 41).
    { destruct (to_close caps (length caps)) as [l|]; [|reflexivity].
      destruct (nth_error caps l) as [[ci cl]|] eqn:En; [|reflexivity].
      apply Hc. apply inv_intro; [lia|lia|]. eapply set_len_ok; eassumption. }
    destruct ((P pat p =? 36) && (p + 1 =? plen)); [reflexivity|].
    destruct (P pat p =? 37); [|exact Hdflt].
    destruct (P pat (p + 1) =? 98).
    { destruct (Z.ltb_spec (p + 2) (plen - 1)); cbn [negb]; [|reflexivity].
      destruct ((slen_ <=? s) || negb (S_ src s =? P pat (p + 2))); [reflexivity|].
      destruct (balance_loop src (S (length src)) (s + 1) (P pat (p + 2)) (P pat (p + 3)) 1) as [s'|] eqn:Eb; [|reflexivity].
      pose proof (balance_ge src _ _ _ _ _ _ Eb). pose proof (balance_le _ _ _ _ _ _ Eb).
      apply Ha. apply inv_intro; [lia|lia|apply (caps_mono s); [lia|exact Hcaps]]. }
    destruct (P pat (p + 1) =? 102).
    { destruct (Z.eqb_spec (P pat (p + 2)) 91) as [E|]; cbn [negb]; [|reflexivity].
      assert (p + 2 < plen) by (apply Hnz; [lia|rewrite E; discriminate]).
      destruct (class_end pat (p + 2)) as [ep|] eqn:Ece; [|reflexivity].
      pose proof (class_end_gt pat _ _ Ece). pose proof (class_end_le (p + 2) ep ltac:(lia) Ece).
      destruct (cfg_front_prev_unsafe_on_empty cfg && (s =? 0) && negb (s <? slen_)); [reflexivity|].
      destruct (negb _ && _); [|reflexivity]. apply Ha. apply inv_intro; [lia|lia|exact Hcaps]. }
    destruct ((48 <=? P pat (p + 1)) && (P pat (p + 1) <=? 57)) eqn:Edig; [|exact Hdflt].
    assert (p + 1 < plen) by (apply Hnz; [lia|lia]).
    destruct ((P pat (p + 1) - 49 <? 0) || (Z.of_nat (length caps) <=? P pat (p + 1) - 49)); [reflexivity|].
    destruct (nth_error caps (Z.to_nat (P pat (p + 1) - 49))) as [[ci cl]|]; [|reflexivity].
    destruct (cl =? CAP_UNFINISHED); [reflexivity|].
    destruct (Z.leb_spec 0 cl); cbn [andb]; [|reflexivity].
    destruct (Z.leb_spec cl (slen_ - s)); cbn [andb]; [|reflexivity].
    destruct (bytes_eqb (slice src ci cl) (slice src s cl)); [|reflexivity].
    apply Ha. apply inv_intro; [lia|lia|apply (caps_mono s); [lia|exact Hcaps]].
  Qed.

  Theorem do_match_inv_eq : forall fuel depth caps s p, inv_b caps s p = true ->
    do_match_inv fuel depth caps s p = do_match cfg src pat fuel depth caps s p.
  Proof.
    induction fuel as [|f IH]; intros depth caps s p Hinv; [reflexivity|].
    cbn [do_match_inv do_match]. rewrite Hinv. cbn [negb]. apply body_eq_on_inv; [exact Hinv| |].
    - intros caps' s' p' H'. destruct (enter cfg depth); [apply IH; exact H'|reflexivity].
    - intros s' p' H'. apply IH. exact H'.
  Qed.
End Inv.

(* from the positions string.find / match / gmatch / gsub start the matcher at: the check never fails *)
Theorem run_match_positions_in_range cfg src pat p0 s d : 0 <= s <= slen src -> 0 <= p0 <= slen pat ->
  do_match_inv cfg src pat (match_fuel src pat) d [] s p0 = do_match cfg src pat (match_fuel src pat) d [] s p0.
Proof.
  intros Hs Hp. apply do_match_inv_eq. apply inv_intro; [exact Hs|exact Hp|reflexivity].
Qed.

(* the bounds of the inner loops, as they are instantiated by the matcher ([S (length pat)] for the loops over
   the pattern, [S (length src)] for the loops over the subject), against any larger bound n *)
Lemma loop_bounds_adequate cfg src pat :
  (forall n p, 0 <= p <= slen pat -> (length pat < n)%nat -> set_end pat (S (length pat)) p = set_end pat n p) /\
  (forall n c p ec sig, 0 <= p -> ec <= slen pat -> (length pat < n)%nat ->
     bracket_loop cfg pat (S (length pat)) c p ec sig = bracket_loop cfg pat n c p ec sig) /\
  (forall n s b e cont, 0 <= s -> (length src < n)%nat ->
     balance_loop src (S (length src)) s b e cont = balance_loop src n s b e cont) /\
  (forall n s p ep, 0 <= s -> (length src < n)%nat ->
     count_max cfg src pat (S (length src)) s p ep 0 = count_max cfg src pat n s p ep 0) /\
  (forall n call caps s0 ep p ep', 0 <= s0 -> (length src < n)%nat ->
     let i := count_max cfg src pat (S (length src)) s0 p ep' 0 in
     max_down call caps s0 ep (S (length src)) i = max_down call caps s0 ep n i) /\
  (forall n call caps ep p s1, 0 <= s1 -> (length src < n)%nat ->
     min_up (fun x => single_match cfg src pat x p ep) call caps ep (S (length src)) s1 =
     min_up (fun x => single_match cfg src pat x p ep) call caps ep n s1).
Proof.
  repeat split.
  - intros n p Hp Hn. apply set_end_stable; unfold plen, slen in *; lia.
  - intros n c p ec sig Hp He Hn. apply bracket_loop_stable; unfold slen in *; lia.
  - intros n s b e cont Hs Hn. apply balance_loop_stable; unfold slen_, slen; lia.
  - intros n s p ep Hs Hn. apply count_max_stable; unfold slen_, slen; lia.
  - intros n call caps s0 ep p ep' Hs Hn i.
    assert (s0 + i <= slen_ src \/ slen_ src < s0).
    { destruct (Z.le_gt_cases s0 (slen_ src)); [left|right; lia]. apply count_max_le. lia. }
    assert (i <= Z.of_nat (length src) + 1).
    { destruct H as [H|H]; [unfold slen_, slen in H; lia|].
      subst i. cbn [count_max].
      destruct (single_match cfg src pat (s0 + 0) p ep') eqn:E; [apply single_match_lt in E; lia|lia]. }
    apply max_down_stable; lia.
  - intros n call caps ep p s1 Hs Hn. apply (min_up_stable src); [intros x; apply single_match_lt| |]; unfold slen_, slen; lia.
Qed.

Lemma class_end_range pat p ep : 0 <= p < plen pat -> class_end pat p = Some ep -> p < ep <= plen pat.
Proof. intros H E. split; [exact (class_end_gt pat p ep E)|exact (class_end_le pat p ep H E)]. Qed.

Lemma balance_range src f s b e cont s' : balance_loop src f s b e cont = Some s' -> s < s' <= slen_ src.
Proof. intros E. split; [exact (balance_ge src f s b e cont s' E)|exact (balance_le src f s b e cont s' E)]. Qed.

(* ------------------------------------------------------------------ string.find with plain = true *)
(* memory.find as StrPatt.match uses it: the FIRST occurrence at or after pos (what lstrlib.c's lmemfind returns),
   and no occurrence in the scanned range when it reports none *)
Lemma plain_find_first s pat : forall k pos st, plain_find k s pat pos = Some st ->
  pos <= st <= pos + Z.of_nat k /\ is_prefix pat (skipn (Z.to_nat st) s) = true /\
  forall j, pos <= j < st -> is_prefix pat (skipn (Z.to_nat j) s) = false.
Proof.
  induction k as [|k IH]; intros pos st; cbn [plain_find];
    destruct (is_prefix pat (skipn (Z.to_nat pos) s)) eqn:E.
  - intros H. inversion H. subst. repeat split; try lia. exact E.
  - discriminate.
  - intros H. inversion H. subst. repeat split; try lia. exact E.
  - intros H. apply IH in H. destruct H as (H1 & H2 & H3). repeat split; try lia; [exact H2|].
    intros j Hj. destruct (Z.eq_dec j pos) as [->|]; [exact E|]. apply H3. lia.
Qed.

Lemma plain_find_none s pat : forall k pos, plain_find k s pat pos = None ->
  forall j, pos <= j <= pos + Z.of_nat k -> is_prefix pat (skipn (Z.to_nat j) s) = false.
Proof.
  induction k as [|k IH]; intros pos; cbn [plain_find];
    destruct (is_prefix pat (skipn (Z.to_nat pos) s)) eqn:E; try discriminate.
  - intros _ j Hj. replace j with pos by lia. exact E.
  - intros H j Hj. destruct (Z.eq_dec j pos) as [->|]; [exact E|]. apply (IH (pos + 1) H). lia.
Qed.

(* ------------------------------------------------------------------ string.gsub on a real pattern *)
(* [pat_matcher] (ProofsPat.v) hands the drivers of ModelDrv.v "no match here" for everything that is not a match.
   The statement therefore requires that the port's matcher neither errs (malformed pattern) nor runs out of its
   budget at any position of the subject; fuel and MUnsafe are excluded by the theorems above; under these
   hypotheses "no match here" is a genuine failure to match, on both sides *)
Definition normal (r : mres) : Prop := match r with MFound _ _ | MFail => True | _ => False end.

Theorem gsub_pattern_eq_lua_strict src pat repl anchor maxn p0 : is_bytes src = true -> 0 <= p0 ->
  (forall pos, 0 <= pos <= slen src ->
     run_match nl_cfg src pat p0 pos <> MTooComplex /\ run_match nl_cfg src pat p0 pos <> MError) ->
  (forall pos, 0 <= pos <= slen src ->
     normal (run_match nl_cfg src pat p0 pos) /\ run_match lua_cfg src pat p0 pos = run_match nl_cfg src pat p0 pos) /\
  nl_gsub (pat_matcher nl_cfg src pat p0) src repl anchor maxn =
  lua_gsub (pat_matcher lua_cfg src pat p0) src repl anchor maxn /\
  lua_gsub (pat_matcher lua_cfg src pat p0) src repl anchor maxn <> None.
Proof.
  intros Hsrc Hp0 Hgood. split.
  - intros pos Hpos. destruct (Hgood pos Hpos) as [Htc Herr].
    pose proof (run_match_no_fuel nl_cfg src pat p0 pos ltac:(lia) Hp0) as Hf.
    pose proof (run_match_no_unsafe nl_cfg src pat p0 pos eq_refl ltac:(lia)) as Hu.
    split.
    + destruct (run_match nl_cfg src pat p0 pos); cbn; congruence || exact I.
    + destruct (match_eq_lua src pat p0 pos Hsrc) as [E|E]; [contradiction|symmetry; exact E].
  - apply gsub_pattern_eq_lua; [exact Hsrc|]. intros pos Hpos. apply (Hgood pos Hpos).
Qed.

(* a malformed pattern is reported by both matchers at the same place *)
Lemma match_error_eq_lua src pat p0 s : is_bytes src = true ->
  run_match nl_cfg src pat p0 s = MError -> run_match lua_cfg src pat p0 s = MError.
Proof.
  intros Hsrc E. destruct (match_eq_lua src pat p0 s Hsrc) as [H|H]; [congruence|]. rewrite <- H. exact E.
Qed.

(* the hypothesis of gsub_pattern_eq_lua_strict is satisfiable: subject "ab", pattern "a" *)
Example gsub_hypothesis_instance : forall pos, 0 <= pos <= slen [97; 98] ->
  run_match nl_cfg [97; 98] [97] 0 pos <> MTooComplex /\ run_match nl_cfg [97; 98] [97] 0 pos <> MError.
Proof.
  intros pos H. change (slen [97; 98]) with 2 in H.
  assert (C : pos = 0 \/ pos = 1 \/ pos = 2) by lia.
  destruct C as [-> | [-> | ->]]; vm_compute; split; discriminate.
Qed.

(* string.find takes the plain search exactly when Lua does; string.match (which passes plain = false and no find flag)
   never does, like Lua *)
Lemma use_plain_eq_lua pat plain : nl_use_plain pat plain true = lua_use_plain pat plain true /\
  nl_use_plain pat false false = lua_use_plain pat plain false.
Proof. unfold nl_use_plain, lua_use_plain. destruct (has_specials pat), plain; split; reflexivity. Qed.
