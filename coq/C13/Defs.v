(* C13 - basic vocabulary shared by the generated file, the models and the proofs.
   Strings are lists of bytes (Z in [0,256)); sizes and indices are Z. *)
From Base Require Export LuaInt.
Local Open Scope Z_scope.

Definition two32 : Z := 4294967296.
(* arithmetic in a C/Nelua uint32 *)
Definition u32 (x : Z) : Z := x mod two32.

Definition bytes := list Z.
Definition slen (s : bytes) : Z := Z.of_nat (length s).
Definition is_byte (c : Z) : bool := (0 <=? c) && (c <? 256).
Definition is_bytes (s : bytes) : bool := forallb is_byte s.

(* s[start, start+n) with 0-based start; out-of-range parts are silently dropped, so every use
   in a model is accompanied by a bounds fact in the theorems *)
Definition slice (s : bytes) (start n : Z) : bytes :=
  firstn (Z.to_nat n) (skipn (Z.to_nat start) s).
(* 0-based read; None = outside the string *)
Definition byte_at (s : bytes) (i : Z) : option Z :=
  if i <? 0 then None else nth_error s (Z.to_nat i).

(* Outcome of a library call in the port:
   Val v   - returns v
   Trap    - a check/assert/error of the library stops the program (abort)
   Unsafe  - the code reads or writes outside its arguments and buffers, or runs into C
             undefined behaviour (the property forbids this outcome) *)
Inductive res (A : Type) : Type :=
| Val (a : A)
| Trap
| Unsafe.
Arguments Val {A} a.
Arguments Trap {A}.
Arguments Unsafe {A}.

(* Outcome of a call in reference Lua: a value or a raised error *)
Inductive lres (A : Type) : Type :=
| LVal (a : A)
| LErr.
Arguments LVal {A} a.
Arguments LErr {A}.

Definition all_bytes : list Z := map Z.of_nat (seq 0 256).

Lemma all_bytes_complete c : 0 <= c < 256 -> In c all_bytes.
Proof.
  intros H. unfold all_bytes. apply in_map_iff. exists (Z.to_nat c). split; [lia|].
  apply in_seq. lia.
Qed.

(* lifting of a check computed over the 256 bytes *)
Lemma forall_bytes (P : Z -> bool) :
  forallb P all_bytes = true -> forall c, 0 <= c < 256 -> P c = true.
Proof.
  intros H c Hc. rewrite forallb_forall in H. apply H. apply all_bytes_complete; exact Hc.
Qed.
