(* C13 (f, continued) - the pack format parser as string.packsize runs it: lstrlib.c getnum / getnumlimit /
   getoption / getdetails / str_packsize (SPEC) and lib/detail/strpack.nelua packgetnum / packgetnumlimit /
   packgetoptalign / packalignforward / strpack.packsize (MODEL).  Native sizes are those of the LP64 platform
   (short 2, int 4, long 8, size_t 8, float 4, double 8, lua_Integer 8, maximum alignment 8).
   The format is a byte list without NUL bytes (Lua's parser stops at the first NUL of the C string). *)
From C13 Require Export Model.
Local Open Scope Z_scope.

Definition isdig (c : Z) : bool := (48 <=? c) && (c <=? 57).
Definition SZ_SHORT := 2.  Definition SZ_INT := 4.  Definition SZ_LONG := 8.  Definition SZ_SIZET := 8.
Definition SZ_FLOAT := 4.  Definition SZ_DOUBLE := 8. Definition SZ_INTEGER := 8. Definition SZ_NUMBER := 8.
Definition NATIVE_MAXALIGN := 8.
Definition MAXINTSIZE := 16.

(* ------------------------------------------------------------------ Lua *)
(* getnum: do { a = a*10 + digit } while (digit(next) && a <= (MAXSIZE - 9)/10) *)
Fixpoint lua_getnum_loop (f : bytes) (a : Z) : Z * bytes :=
  match f with
  | c :: r => if isdig c && (a <=? (LUA_MAXSIZE - 9) / 10) then lua_getnum_loop r (a * 10 + (c - 48)) else (a, f)
  | [] => (a, f)
  end.
Definition lua_getnum (f : bytes) (df : Z) : Z * bytes :=
  match f with
  | c :: r => if isdig c then lua_getnum_loop r (c - 48) else (df, f)
  | [] => (df, f)
  end.
Definition lua_getnumlimit (f : bytes) (df : Z) : lres (Z * bytes) :=
  let '(sz, r) := lua_getnum f df in
  if (MAXINTSIZE <? sz) || (sz <=? 0) then LErr else LVal (sz, r).

Inductive kopt := Kint | Kuint | Kfloat | Knumber | Kdouble | Kchar | Kstring | Kzstr | Kpadding | Kpaddalign | Knop.

(* getoption: option kind, size, rest of the format, new maxalign *)
Definition lua_getoption (f : bytes) (maxalign : Z) : lres (kopt * Z * bytes * Z) :=
  match f with
  | [] => LErr
  | c :: r =>
      if c =? 98 then LVal (Kint, 1, r, maxalign) else if c =? 66 then LVal (Kuint, 1, r, maxalign)
      else if c =? 104 then LVal (Kint, SZ_SHORT, r, maxalign) else if c =? 72 then LVal (Kuint, SZ_SHORT, r, maxalign)
      else if c =? 108 then LVal (Kint, SZ_LONG, r, maxalign) else if c =? 76 then LVal (Kuint, SZ_LONG, r, maxalign)
      else if c =? 106 then LVal (Kint, SZ_INTEGER, r, maxalign) else if c =? 74 then LVal (Kuint, SZ_INTEGER, r, maxalign)
      else if c =? 84 then LVal (Kuint, SZ_SIZET, r, maxalign)
      else if c =? 102 then LVal (Kfloat, SZ_FLOAT, r, maxalign)
      else if c =? 110 then LVal (Knumber, SZ_NUMBER, r, maxalign)
      else if c =? 100 then LVal (Kdouble, SZ_DOUBLE, r, maxalign)
      else if (c =? 105) || (c =? 73) then
        match lua_getnumlimit r SZ_INT with
        | LErr => LErr
        | LVal (sz, r') => LVal (if c =? 105 then Kint else Kuint, sz, r', maxalign)
        end
      else if c =? 115 then
        match lua_getnumlimit r SZ_SIZET with LErr => LErr | LVal (sz, r') => LVal (Kstring, sz, r', maxalign) end
      else if c =? 99 then
        let '(sz, r') := lua_getnum r (-1) in
        if sz =? -1 then LErr else LVal (Kchar, sz, r', maxalign)
      else if c =? 122 then LVal (Kzstr, 0, r, maxalign)
      else if c =? 120 then LVal (Kpadding, 1, r, maxalign)
      else if c =? 88 then LVal (Kpaddalign, 0, r, maxalign)
      else if (c =? 32) || (c =? 60) || (c =? 62) || (c =? 61) then LVal (Knop, 0, r, maxalign)
      else if c =? 33 then
        match lua_getnumlimit r NATIVE_MAXALIGN with LErr => LErr | LVal (sz, r') => LVal (Knop, 0, r', sz) end
      else LErr
  end.

(* getdetails: kind, size, padding needed before it, rest, maxalign *)
Definition is_kchar (o : kopt) : bool := match o with Kchar => true | _ => false end.
Definition lua_align_details (opt : kopt) (size align : Z) (r' : bytes) (ma' total : Z) : lres (kopt * Z * Z * bytes * Z) :=
  if (align <=? 1) || is_kchar opt then LVal (opt, size, 0, r', ma')
  else
    let align := if ma' <? align then ma' else align in
    if negb (Z.land align (align - 1) =? 0) then LErr
    else LVal (opt, size, Z.land (align - Z.land total (align - 1)) (align - 1), r', ma').
(* option 'X': the alignment comes from the option that follows *)
Definition lua_paddalign (opt : kopt) (size : Z) (r : bytes) (ma total : Z) : lres (kopt * Z * Z * bytes * Z) :=
  match r with
  | [] => LErr
  | _ => match lua_getoption r ma with
         | LErr => LErr
         | LVal (opt2, al, r2, ma2) =>
             if is_kchar opt2 || (al =? 0) then LErr else lua_align_details opt size al r2 ma2 total
         end
  end.
Definition lua_getdetails (f : bytes) (maxalign total : Z) : lres (kopt * Z * Z * bytes * Z) :=
  match lua_getoption f maxalign with
  | LErr => LErr
  | LVal (opt, size, r, ma) =>
      match opt with
      | Kpaddalign => lua_paddalign opt size r ma total
      | _ => lua_align_details opt size size r ma total
      end
  end.

(* str_packsize's loop body after getdetails *)
Definition lua_account (cont : bytes -> Z -> Z -> lres Z) (d : kopt * Z * Z * bytes * Z) (total : Z) : lres Z :=
  let '(opt, size, ntoalign, r, ma) := d in
  if match opt with Kstring | Kzstr => true | _ => false end then LErr
  else
    let size := size + ntoalign in
    if LUA_MAXSIZE - size <? total then LErr               (* "format result too large" *)
    else cont r ma (total + size).

Fixpoint lua_packsize_loop (fuel : nat) (f : bytes) (maxalign total : Z) : lres Z :=
  match fuel with
  | O => LErr
  | S k =>
      match f with
      | [] => LVal total
      | _ =>
          match lua_getdetails f maxalign total with
          | LErr => LErr
          | LVal d => lua_account (lua_packsize_loop k) d total
          end
      end
  end.
Definition lua_packsize (fmt : bytes) : lres Z := lua_packsize_loop (S (length fmt)) fmt 1 0.

(* ------------------------------------------------------------------ Nelua *)
(* packgetnum: n = n*10 + d in usize while d = (byte)(c - '0') < 10 *)
Fixpoint nl_getnum_loop (f : bytes) (n : Z) : Z * bytes :=
  match f with
  | c :: r => let d := (c - 48) mod 256 in if 10 <=? d then (n, f) else nl_getnum_loop r (u64 (n * 10 + d))
  | [] => (n, [])
  end.
Definition nl_getnum (f : bytes) (def : Z) : Z * bytes :=
  let '(n, r) := nl_getnum_loop f 0 in
  if Nat.eqb (length r) (length f) then (def, f) else (n, r).
Definition nl_getnumlimit (f : bytes) (def : Z) : res (Z * bytes) :=
  let '(n, r) := nl_getnum f def in
  if (0 <? n) && (n <=? 16) then Val (n, r) else Trap.

(* packalignforward *)
Definition nl_alignforward (addr align maxalign : Z) : res Z :=
  let align := if maxalign <? align then maxalign else align in
  if align <=? 1 then Val addr
  else if negb (Z.land align (align - 1) =? 0) then Trap
  else Val (u64 (Z.land (u64 (addr + (align - 1))) (u64 (Z.lnot (align - 1))))).

(* packgetoptalign *)
Definition nl_getoptalign (f : bytes) : res (Z * bytes) :=
  match f with
  | [] => Trap
  | c :: r =>
      let fixed := fun a => Val (a, r) in
      let got :=
        if c =? 115 then nl_getnumlimit r SZ_SIZET
        else if (c =? 105) || (c =? 73) then nl_getnumlimit r SZ_INT
        else if (c =? 98) || (c =? 66) || (c =? 120) then fixed 1
        else if (c =? 104) || (c =? 72) then fixed SZ_SHORT
        else if (c =? 108) || (c =? 76) then fixed SZ_LONG
        else if (c =? 106) || (c =? 74) then fixed SZ_INTEGER
        else if (c =? 116) || (c =? 84) then fixed SZ_SIZET
        else if c =? 102 then fixed SZ_FLOAT
        else if c =? 100 then fixed SZ_DOUBLE
        else if c =? 110 then fixed SZ_NUMBER
        else fixed 0 in
      match got with
      | Val (a, r') => if 0 <? a then Val (a, r') else Trap
      | Trap => Trap
      | Unsafe => Unsafe
      end
  end.

Definition nl_sized (cont : bytes -> Z -> Z -> res Z) (len sz maxalign : Z) (r : bytes) : res Z :=
  match nl_alignforward len sz maxalign with
  | Val l => cont r maxalign (u64 (l + sz))
  | Trap => Trap | Unsafe => Unsafe
  end.

Fixpoint nl_packsize_loop (fuel : nat) (f : bytes) (maxalign len : Z) : res Z :=
  match fuel with
  | O => Trap
  | S k =>
      match f with
      | [] => Val len
      | c :: r =>
          let sized := fun sz => nl_sized (nl_packsize_loop k) len sz maxalign r in
          if (c =? 32) || (c =? 60) || (c =? 62) || (c =? 61) then nl_packsize_loop k r maxalign len
          else if c =? 33 then
            match nl_getnumlimit r NATIVE_MAXALIGN with
            | Val (n, r') => nl_packsize_loop k r' n len
            | Trap => Trap | Unsafe => Unsafe
            end
          else if c =? 88 then
            match nl_getoptalign r with
            | Val (a, r') => match nl_alignforward len a maxalign with
                             | Val l => nl_packsize_loop k r' maxalign l
                             | Trap => Trap | Unsafe => Unsafe end
            | Trap => Trap | Unsafe => Unsafe
            end
          else if (c =? 120) || (c =? 98) || (c =? 66) then nl_packsize_loop k r maxalign (u64 (len + 1))
          else if c =? 99 then
            match r with
            | d :: _ => if (d - 48) mod 256 <? 10 then
                          let '(n, r') := nl_getnum r 0 in nl_packsize_loop k r' maxalign (u64 (len + n))
                        else Trap                                  (* "missing size for format option 'c'" *)
            | [] => Trap
            end
          else if (c =? 105) || (c =? 73) then
            match nl_getnumlimit r SZ_INT with
            | Val (n, r') => nl_sized (nl_packsize_loop k) len n maxalign r'
            | Trap => Trap | Unsafe => Unsafe
            end
          else if (c =? 104) || (c =? 72) then sized SZ_SHORT
          else if (c =? 108) || (c =? 76) then sized SZ_LONG
          else if (c =? 106) || (c =? 74) then sized SZ_INTEGER
          else if (c =? 116) || (c =? 84) then sized SZ_SIZET
          else if c =? 102 then sized SZ_FLOAT
          else if c =? 100 then sized SZ_DOUBLE
          else if c =? 110 then sized SZ_NUMBER
          else Trap
      end
  end.
(* the result is (@isize)(len) *)
Definition nl_packsize (fmt : bytes) : res Z :=
  match nl_packsize_loop (S (length fmt)) fmt 1 0 with Val l => Val (wrap64 l) | r => r end.
