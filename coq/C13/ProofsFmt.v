(* C13 (g) - string.format: wherever Lua's str_format (restricted to at most 5 flag characters per item, the
   port's documented limit) returns a string, the port's writef returns the same string.  Both sides hand their
   conversion specifications to the same C function; what is proved is that scanformat + formatarg build the
   same specification, the same argument word and consume the same part of the format as getformat +
   checkformat + addlenmod, whenever checkformat accepts. *)
From C13 Require Import Model ModelFmt.
Local Open Scope Z_scope.

(* ------------------------------------------------------------------ span, take2, scan *)
Lemma span_app P s : forall a b, span P s = (a, b) -> s = a ++ b.
Proof.
  induction s as [|c r IH]; cbn [span]; intros a b E.
  - inversion E. reflexivity.
  - destruct (P c).
    + destruct (span P r) as [a0 b0]. inversion E. subst. cbn. f_equal. apply IH. reflexivity.
    + inversion E. reflexivity.
Qed.

Lemma span_all P s : forall a b, span P s = (a, b) -> forallb P a = true.
Proof.
  induction s as [|c r IH]; cbn [span]; intros a b E.
  - inversion E. reflexivity.
  - destruct (P c) eqn:Ec.
    + destruct (span P r) as [a0 b0]. inversion E. subst. cbn. rewrite Ec. eapply IH. reflexivity.
    + inversion E. reflexivity.
Qed.

Definition stops (P : Z -> bool) (b : bytes) : Prop := match b with c :: _ => P c = false | [] => True end.

Lemma span_unique P a : forall b, forallb P a = true -> stops P b -> span P (a ++ b) = (a, b).
Proof.
  induction a as [|c r IH]; intros b Ha Hb.
  - cbn. destruct b as [|x t]; [reflexivity|]. cbn in Hb. cbn. rewrite Hb. reflexivity.
  - cbn in Ha. apply andb_true_iff in Ha. destruct Ha as [Hc Hr]. cbn. rewrite Hc. rewrite (IH b Hr Hb). reflexivity.
Qed.

Lemma span_stop P x t a : P x = false ->
  span P (a ++ x :: t) = let '(f, g) := span P a in (f, g ++ x :: t).
Proof.
  intros Hx. induction a as [|c r IH].
  - cbn. rewrite Hx. reflexivity.
  - cbn. destruct (P c); [|reflexivity]. rewrite IH. destruct (span P r). reflexivity.
Qed.

Lemma take2_app s w r : take2 s = (w, r) -> s = w ++ r.
Proof.
  unfold take2. destruct s as [|c s']; [intros E; inversion E; reflexivity|].
  destruct (c_isdigit c); [|intros E; inversion E; reflexivity].
  destruct s' as [|d s'']; [intros E; inversion E; reflexivity|].
  destruct (c_isdigit d); intros E; inversion E; reflexivity.
Qed.

Lemma take2_stop x t a : c_isdigit x = false ->
  take2 (a ++ x :: t) = let '(w, g) := take2 a in (w, g ++ x :: t).
Proof.
  intros Hx. unfold take2. destruct a as [|c a']; cbn [app].
  - rewrite Hx. reflexivity.
  - destruct (c_isdigit c); [|reflexivity].
    destruct a' as [|d a'']; cbn [app].
    + rewrite Hx. reflexivity.
    + destruct (c_isdigit d); reflexivity.
Qed.

Lemma hd0_app_cons a x t : hd0 (a ++ x :: t) = match a with [] => x | _ => hd0 a end.
Proof. destruct a; reflexivity. Qed.

(* a character that is neither a flag, a digit nor a dot does not change how the specification before it is read *)
Lemma scan_stop al pr c0 x t a : al x = false -> c_isdigit x = false -> x <> 46 ->
  scan al pr c0 (a ++ x :: t) = let '(fl, wp, rem) := scan al pr c0 a in (fl, wp, rem ++ x :: t).
Proof.
  intros Hal Hd H46. unfold scan. rewrite (span_stop al x t a Hal).
  destruct (span al a) as [fl s1].
  assert (H48 : x <> 48) by (intros ->; discriminate Hd).
  assert (Eh : (hd0 (s1 ++ x :: t) =? 48) = (hd0 s1 =? 48)).
  { rewrite hd0_app_cons. destruct s1; [|reflexivity]. cbn. destruct (Z.eqb_spec x 48); [contradiction|reflexivity]. }
  rewrite Eh. destruct (c0 && (hd0 s1 =? 48)); [reflexivity|].
  rewrite (take2_stop x t s1 Hd). destruct (take2 s1) as [w s2].
  destruct s2 as [|c s3]; cbn [app].
  - destruct (Z.eqb_spec x 46); [contradiction|]. reflexivity.
  - destruct ((c =? 46) && pr); [|reflexivity]. destruct (take2 s3) as [p s4] eqn:E3.
    (* the stop character comes after whatever follows the dot *)
    rewrite (take2_stop x t s3 Hd). rewrite E3. reflexivity.
Qed.

Lemma scan_app al pr c0 s fl wp rem : scan al pr c0 s = (fl, wp, rem) -> s = fl ++ wp ++ rem.
Proof.
  unfold scan. destruct (span al s) as [f s1] eqn:E1. apply span_app in E1. subst s.
  destruct (c0 && (hd0 s1 =? 48)); [intros E; inversion E; reflexivity|].
  destruct (take2 s1) as [w s2] eqn:E2. apply take2_app in E2. subst s1.
  destruct s2 as [|c s3]; [intros E; inversion E; reflexivity|].
  destruct (Z.eqb_spec c 46) as [->|]; cbn [andb]; [|intros E; inversion E; reflexivity].
  destruct pr; [|intros E; inversion E; reflexivity].
  destruct (take2 s3) as [p s4] eqn:E3. apply take2_app in E3. subst s3.
  intros E; inversion E. rewrite <- !app_assoc. reflexivity.
Qed.

Lemma scan_flags al pr c0 s fl wp rem : scan al pr c0 s = (fl, wp, rem) -> forallb al fl = true.
Proof.
  unfold scan. destruct (span al s) as [f s1] eqn:E1. apply span_all in E1.
  destruct (c0 && (hd0 s1 =? 48)); [intros E; inversion E; subst; exact E1|].
  destruct (take2 s1) as [w s2]. destruct s2 as [|c s3]; [intros E; inversion E; subst; exact E1|].
  destruct ((c =? 46) && pr); [|intros E; inversion E; subst; exact E1].
  destruct (take2 s3). intros E; inversion E; subst; exact E1.
Qed.

(* a specification read to its end with the flags of one conversion is read the same way with all flags
   and without the test for a leading '0' *)
Lemma scan_mono al pr s fl wp : scan al pr true s = (fl, wp, []) ->
  (forall c, al c = true -> isflagF c = true) -> scan isflagF true false s = (fl, wp, []).
Proof.
  intros E Hsub. pose proof (scan_flags _ _ _ _ _ _ _ E) as Hfl. revert E. unfold scan.
  destruct (span al s) as [f s1] eqn:E1. pose proof (span_app _ _ _ _ E1) as Es. subst s.
  destruct (Z.eqb_spec (hd0 s1) 48) as [H48|H48]; cbn [andb].
  { intros E. inversion E. subst. discriminate H48. }
  destruct (take2 s1) as [w s2] eqn:E2.
  intros E.
  assert (Hf : fl = f) by (destruct s2 as [|c s3]; [inversion E; reflexivity|];
                            destruct ((c =? 46) && pr); [destruct (take2 s3)|]; inversion E; reflexivity).
  subst f.
  assert (Hstop : stops isflagF s1).
  { destruct s1 as [|c s1']; [exact I|]. cbn. cbn in H48.
    unfold take2 in E2. destruct (c_isdigit c) eqn:Ed.
    - unfold c_isdigit, between in Ed. unfold isflagF.
      destruct (Z.eqb_spec c 45); [lia|]. destruct (Z.eqb_spec c 43); [lia|]. destruct (Z.eqb_spec c 35); [lia|].
      destruct (Z.eqb_spec c 48); [lia|]. destruct (Z.eqb_spec c 32); [lia|]. reflexivity.
    - inversion E2. subst w s2. destruct (Z.eqb_spec c 46) as [->|N]; [reflexivity|].
      cbn [andb] in E. inversion E. }
  assert (Hfl' : forallb isflagF fl = true).
  { rewrite forallb_forall in Hfl |- *. intros c Hc. apply Hsub. apply Hfl. exact Hc. }
  rewrite (span_unique isflagF fl s1 Hfl' Hstop). cbn [andb]. rewrite E2.
  destruct s2 as [|c s3]; [exact E|].
  destruct (Z.eqb_spec c 46) as [->|N]; cbn [andb] in E |- *; [|exact E].
  destruct pr; [exact E|inversion E].
Qed.

(* ------------------------------------------------------------------ getformat + checkformat against scanformat *)
Lemma alpha_not_spanset c : c_isalpha c = true -> spanset c = false /\ isflagF c = false /\ c_isdigit c = false /\ c <> 46.
Proof.
  unfold c_isalpha, c_isupper, c_islower, spanset, isflagF, c_isdigit, between. intros H.
  assert (65 <= c) by lia.
  repeat split; try lia.
Qed.

Lemma flags_sub_F : (forall c, isflagC c = true -> isflagF c = true) /\ (forall c, isflagI c = true -> isflagF c = true) /\
  (forall c, isflagU c = true -> isflagF c = true) /\ (forall c, isflagX c = true -> isflagF c = true).
Proof. unfold isflagC, isflagI, isflagU, isflagX, isflagF. repeat split; intros c H; lia. Qed.

(* the only alphabetic character of a span followed by one character is that last character *)
Lemma last_alpha sp x m c t : forallb spanset sp = true -> c_isalpha c = true ->
  sp ++ [x] = m ++ c :: t -> t = [] /\ x = c /\ sp = m.
Proof.
  intros Hsp Hc E. destruct (exists_last (l := c :: t)) as [l' [z Ez]]; [discriminate|].
  destruct t as [|y t'].
  - apply app_inj_tail in E. destruct E. subst. repeat split; reflexivity.
  - exfalso. destruct (exists_last (l := y :: t')) as [l2 [z2 Ez2]]; [discriminate|].
    rewrite Ez2 in E. change (m ++ c :: l2 ++ [z2]) with (m ++ (c :: l2) ++ [z2]) in E. rewrite app_assoc in E.
    apply app_inj_tail in E. destruct E as [E _]. subst sp.
    rewrite forallb_app in Hsp. apply andb_true_iff in Hsp. destruct Hsp as [_ Hsp]. cbn in Hsp.
    apply andb_true_iff in Hsp. destruct Hsp as [Hsp _].
    destruct (alpha_not_spanset c Hc) as [Hn _]. congruence.
Qed.

Lemma scanformat_eq rest form conv rest' flags prec :
  lua_getformat rest = LVal (form, conv, rest') -> lua_checkformat NL_MAXFLAGS form flags prec = true ->
  (forall c, flags c = true -> isflagF c = true) ->
  nl_scanformat rest = Val (form, conv, rest') /\ c_isalpha conv = true /\
  exists fl wp, form = 37 :: fl ++ wp ++ [conv] /\ scan flags prec true (fl ++ wp) = (fl, wp, []) /\ slen fl <= NL_MAXFLAGS /\
    scan flags prec true (tl form) = (fl, wp, [conv]).
Proof.
  unfold lua_getformat. destruct (span spanset rest) as [sp r] eqn:Es.
  destruct (22 <=? slen sp + 1); [discriminate|]. intros E. inversion E. subst form conv rest'. clear E.
  pose proof (span_app _ _ _ _ Es) as Er. pose proof (span_all _ _ _ _ Es) as Hsp.
  unfold lua_checkformat. cbn [tl].
  destruct (scan flags prec true (sp ++ [hd0 r])) as [[fl wp] rem] eqn:Esc.
  intros Hck Hsub. apply andb_true_iff in Hck. destruct Hck as [Hcap Hrem].
  destruct rem as [|c t]; [discriminate|].
  pose proof (scan_app _ _ _ _ _ _ _ Esc) as Eapp. rewrite app_assoc in Eapp.
  destruct (last_alpha sp (hd0 r) (fl ++ wp) c t Hsp Hrem Eapp) as (Et & Ex & Esp). subst t.
  destruct r as [|c' rest'].
  { cbn in Ex. subst c. discriminate Hrem. }
  cbn [hd0 tl] in *. subst c'.
  destruct (alpha_not_spanset c Hrem) as (_ & HnF & Hnd & Hn46).
  assert (Hnfl : flags c = false).
  { destruct (flags c) eqn:Ef; [|reflexivity]. apply Hsub in Ef. congruence. }
  (* Lua's reading of sp alone *)
  pose proof (scan_stop flags prec true c [] sp Hnfl Hnd Hn46) as S1. rewrite Esc in S1.
  destruct (scan flags prec true sp) as [[fl0 wp0] rem0] eqn:Esp0. inversion S1. subst fl0 wp0.
  assert (rem0 = []) by (destruct rem0 as [|y rem0]; [reflexivity|]; destruct rem0; discriminate). subst rem0.
  pose proof (scan_mono flags prec sp fl wp Esp0 Hsub) as S2.
  (* the port's reading of sp followed by the conversion character and the rest of the format *)
  pose proof (scan_stop isflagF true false c rest' sp HnF Hnd Hn46) as S3. rewrite S2 in S3. cbn [app] in S3.
  unfold nl_scanformat. rewrite Er. rewrite S3. cbn [hd0 tl].
  apply Z.leb_le in Hcap.
  destruct (Z.ltb_spec NL_MAXFLAGS (slen fl)); [lia|]. rewrite Hnd.
  split; [|split; [exact Hrem|]].
  - rewrite Esp. rewrite <- app_assoc. reflexivity.
  - exists fl, wp. split; [rewrite Esp; rewrite <- app_assoc; reflexivity|]. split; [rewrite <- Esp; exact Esp0|].
    split; [exact Hcap|]. reflexivity.
Qed.

(* ------------------------------------------------------------------ a long string under a modified %s *)
Lemma c_str_nozero s : has_zero s = false -> c_str s = s.
Proof.
  unfold has_zero, mem. induction s as [|c r IH]; [reflexivity|]. cbn [existsb c_str]. intros H. apply orb_false_iff in H.
  destruct H as [Hc Hr]. apply Z.eqb_neq in Hc. destruct (Z.eqb_spec c 0); [lia|]. f_equal. apply IH. exact Hr.
Qed.

Lemma mem_flagsC c fl : forallb isflagC fl = true -> c <> 45 -> mem c fl = false.
Proof.
  unfold mem, isflagC. induction fl as [|x r IH]; [reflexivity|]. cbn [existsb forallb]. intros H N. apply andb_true_iff in H.
  destruct H as [Hx Hr]. apply Z.eqb_eq in Hx. subst x. destruct (Z.eqb_spec c 45); [contradiction|]. cbn [orb]. apply IH; assumption.
Qed.

Lemma mem_app c a b : mem c (a ++ b) = mem c a || mem c b.
Proof. unfold mem. apply existsb_app. Qed.

Section FmtProofs.
Variable cfloat : bytes -> Z -> bytes.

Lemma c99_s_long fl wp s : scan isflagC true true (fl ++ wp) = (fl, wp, []) ->
  mem 46 wp = false -> has_zero s = false -> 100 <= slen s ->
  c99_snprintf cfloat (37 :: fl ++ wp ++ [115]) (AStr s) = Some s.
Proof.
  intros Esc Hdot Hz Hlen. pose proof (scan_flags _ _ _ _ _ _ _ Esc) as Hfl.
  (* the shape of the width *)
  assert (Hw : hd0 wp <> 48 /\ take2 wp = (wp, [])).
  { revert Esc. unfold scan. destruct (span isflagC (fl ++ wp)) as [f s1] eqn:E1.
    pose proof (span_app _ _ _ _ E1) as Ea.
    destruct (Z.eqb_spec (hd0 s1) 48) as [H48|H48]; cbn [andb].
    - intros E. inversion E. subst. discriminate H48.
    - destruct (take2 s1) as [w s2] eqn:E2. intros E.
      assert (f = fl) by (destruct s2 as [|c s3]; [inversion E; reflexivity|];
                          destruct ((c =? 46) && true); [destruct (take2 s3)|]; inversion E; reflexivity).
      subst f. apply app_inv_head in Ea. subst s1.
      destruct s2 as [|c s3]; [inversion E; subst; split; [exact H48|exact E2]|].
      destruct (Z.eqb_spec c 46) as [->|N]; cbn [andb] in E; [|inversion E].
      destruct (take2 s3) as [p s4]. inversion E. subst wp. rewrite mem_app in Hdot. cbn in Hdot.
      rewrite orb_true_r in Hdot. discriminate Hdot. }
  destruct Hw as [H48 Ht2].
  assert (Hshape : forallb c_isdigit wp = true /\ 0 <= dec_value 0 wp <= 99).
  { unfold take2 in Ht2. destruct wp as [|c wp']; [cbn; split; [reflexivity|lia]|].
    destruct (c_isdigit c) eqn:Ec; [|inversion Ht2].
    destruct wp' as [|d wp'']; [cbn; rewrite Ec; unfold c_isdigit, between in Ec; split; [reflexivity|lia]|].
    destruct (c_isdigit d) eqn:Ed; inversion Ht2. subst wp''. cbn. rewrite Ec, Ed.
    unfold c_isdigit, between in Ec, Ed. split; [reflexivity|lia]. }
  destruct Hshape as [Hdig Hwid].
  assert (HflF : forallb isflagF fl = true).
  { rewrite forallb_forall in Hfl |- *. intros c Hc. apply (proj1 flags_sub_F). apply Hfl. exact Hc. }
  assert (Hstop1 : stops isflagF (wp ++ [115])).
  { destruct wp as [|c wp']; [reflexivity|]. cbn. cbn in H48. cbn in Hdig. apply andb_true_iff in Hdig. destruct Hdig as [Hc _].
    unfold c_isdigit, between in Hc. unfold isflagF. lia. }
  unfold c99_snprintf, c99_parse. cbn [hd0 tl]. change (negb (37 =? 37)) with false. cbv iota.
  rewrite (span_unique isflagF fl (wp ++ [115]) HflF Hstop1).
  rewrite (span_unique c_isdigit wp [115] Hdig eq_refl).
  cbn [hd0 tl Z.eqb Pos.eqb andb negb]. cbv iota.
  rewrite (mem_flagsC 35 fl Hfl ltac:(lia)), (mem_flagsC 48 fl Hfl ltac:(lia)).
  cbn [c_conv c_ll f_hash f_zero Z.eqb Pos.eqb andb negb].
  unfold c99_str. cbn [c_prec c_width f_minus]. rewrite (c_str_nozero s Hz).
  assert (Hp : spaces (dec_value 0 wp - slen s) = []).
  { unfold spaces. replace (Z.to_nat (dec_value 0 wp - slen s)) with O by lia. reflexivity. }
  rewrite Hp. destruct (mem 45 fl); [rewrite app_nil_r|]; reflexivity.
Qed.
End FmtProofs.

Lemma digits_fuel_nonzero fuel : forall n acc, forallb (fun c => 1 <=? c) acc = true ->
  forallb (fun c => 1 <=? c) (digits_fuel fuel 10 false n acc) = true.
Proof.
  induction fuel as [|f IH]; intros n acc Ha; cbn [digits_fuel]; [exact Ha|].
  destruct (n <=? 0); [exact Ha|]. apply IH. cbn [forallb]. rewrite Ha, andb_true_r.
  unfold digit_char. pose proof (Z.mod_pos_bound n 10 ltac:(lia)). destruct (n mod 10 <? 10); lia.
Qed.

Lemma has_zero_decimal v : has_zero (decimal_of v) = false.
Proof.
  assert (H : forallb (fun c => 1 <=? c) (decimal_of v) = true).
  { unfold decimal_of. rewrite forallb_app. apply andb_true_iff. split; [destruct (v <? 0); reflexivity|].
    pose proof (digits_fuel_nonzero 64 (Z.abs v) [] eq_refl) as D. unfold digits.
    destruct (digits_fuel 64 10 false (Z.abs v) []); [reflexivity|exact D]. }
  unfold has_zero, mem. destruct (existsb (Z.eqb 0) (decimal_of v)) eqn:E; [|reflexivity].
  apply existsb_exists in E. destruct E as (x & Hx & E0). apply Z.eqb_eq in E0. subst x.
  rewrite forallb_forall in H. specialize (H 0 Hx). discriminate H.
Qed.

Lemma getformat_shape rest form conv rest' : lua_getformat rest = LVal (form, conv, rest') ->
  exists sp, form = 37 :: sp ++ [conv].
Proof.
  unfold lua_getformat. destruct (span spanset rest) as [sp r]. destruct (22 <=? slen sp + 1); [discriminate|].
  intros E. inversion E. exists sp. reflexivity.
Qed.

Lemma check_plain_s form : (exists sp, form = 37 :: sp ++ [115]) -> Nat.eqb (length form) 2 = true ->
  lua_checkformat NL_MAXFLAGS form isflagC true = true.
Proof.
  intros [sp ->] H. destruct sp as [|x sp]; [reflexivity|]. cbn [length app] in H. rewrite app_length in H. cbn in H.
  apply Nat.eqb_eq in H. lia.
Qed.

Section FmtMain.
Variable cfloat : bytes -> Z -> bytes.

Ltac fmt_red := cbn [is_intconv is_fltconv Z.eqb Pos.eqb orb andb negb].

(* both sides end with the same call of the C function *)
Ltac same_call :=
  match goal with
  | |- (match ?o with Some b => LVal (b, ?r) | None => LErr end) = _ -> _ =>
      destruct o; [intros HH; inversion HH; subst; reflexivity|discriminate]
  end.

Lemma item_eq rest a out r' : lua_item cfloat NL_MAXFLAGS false rest a = LVal (out, r') ->
  nl_item cfloat rest a = Val (out, r').
Proof.
  unfold lua_item. destruct (lua_getformat rest) as [[[form conv] rest']|] eqn:G; [|discriminate].
  destruct flags_sub_F as (SC & SI & SU & SX).
  assert (SF : forall c, isflagF c = true -> isflagF c = true) by (intros c H; exact H).
  Ltac pass_check Hx :=
    let fl := fresh "fl" in let wp := fresh "wp" in let Ef := fresh "Ef" in let Es := fresh "Es" in
    let Hc := fresh "Hc" in let Et := fresh "Et" in
    pose proof Hx as (fl & wp & Ef & Es & Hc & Et); unfold nl_checkformat; fmt_red; rewrite Et; cbn [hd0 Z.eqb Pos.eqb negb];
    clear fl wp Ef Es Hc Et.
  Ltac with_check G Sub :=
    match goal with
    | |- (if lua_checkformat ?cap ?form ?fl ?pr then _ else _) = _ -> _ =>
        let C := fresh "C" in destruct (lua_checkformat cap form fl pr) eqn:C; [|discriminate];
        let S := fresh "S" in let Ha := fresh "Ha" in let Hx := fresh "Hx" in
        destruct (scanformat_eq _ _ _ _ _ _ G C Sub) as (S & Ha & Hx); unfold nl_item; rewrite S; pass_check Hx
    end.
  destruct a as [v|s].
  - destruct (Z.eqb_spec conv 99) as [->|N1]. { fmt_red. with_check G SC. fmt_red. same_call. }
    destruct (Z.eqb_spec conv 100) as [->|N2]. { fmt_red. with_check G SI. fmt_red. same_call. }
    destruct (Z.eqb_spec conv 105) as [->|N3]. { fmt_red. with_check G SI. fmt_red. same_call. }
    destruct (Z.eqb_spec conv 117) as [->|N4]. { fmt_red. with_check G SU. fmt_red. same_call. }
    destruct (Z.eqb_spec conv 111) as [->|N5]. { fmt_red. with_check G SX. fmt_red. same_call. }
    destruct (Z.eqb_spec conv 120) as [->|N6]. { fmt_red. with_check G SX. fmt_red. same_call. }
    destruct (Z.eqb_spec conv 88) as [->|N7]. { fmt_red. with_check G SX. fmt_red. same_call. }
    destruct (Z.eqb_spec conv 97) as [->|N8]. { fmt_red. with_check G SF. fmt_red. same_call. }
    destruct (Z.eqb_spec conv 65) as [->|N9]. { fmt_red. with_check G SF. fmt_red. same_call. }
    destruct (Z.eqb_spec conv 102) as [->|N10]. { fmt_red. with_check G SF. fmt_red. same_call. }
    destruct (Z.eqb_spec conv 101) as [->|N11]. { fmt_red. with_check G SF. fmt_red. same_call. }
    destruct (Z.eqb_spec conv 69) as [->|N12]. { fmt_red. with_check G SF. fmt_red. same_call. }
    destruct (Z.eqb_spec conv 103) as [->|N13]. { fmt_red. with_check G SF. fmt_red. same_call. }
    destruct (Z.eqb_spec conv 71) as [->|N14]. { fmt_red. with_check G SF. fmt_red. same_call. }
    destruct (Z.eqb_spec conv 115) as [->|N15].
    { fmt_red. cbv zeta. pose proof (getformat_shape _ _ _ _ G) as Sh.
      destruct (Nat.eqb (length form) 2) eqn:L2.
      - pose proof (check_plain_s form Sh L2) as C.
        destruct (scanformat_eq _ _ _ _ _ _ G C SC) as (S & _ & Hx). unfold nl_item. rewrite S. pass_check Hx. fmt_red. rewrite L2.
        intros HH; inversion HH; reflexivity.
      - with_check G SC. fmt_red. rewrite L2, has_zero_decimal. same_call. }
    unfold is_intconv, is_fltconv.
    repeat match goal with |- context [conv =? ?K] => replace (conv =? K) with false by (symmetry; apply Z.eqb_neq; assumption) end.
    cbn [orb andb negb]. discriminate.
  - destruct (Z.eqb_spec conv 115) as [->|N]; [|discriminate].
    pose proof (getformat_shape _ _ _ _ G) as Sh.
    destruct (Nat.eqb (length form) 2) eqn:L2.
    + pose proof (check_plain_s form Sh L2) as C.
      destruct (scanformat_eq _ _ _ _ _ _ G C SC) as (S & _ & Hx). unfold nl_item. rewrite S. pass_check Hx. fmt_red. rewrite L2.
      intros HH; inversion HH; reflexivity.
    + destruct (has_zero s) eqn:Hz; [discriminate|].
      with_check G SC. fmt_red. rewrite L2, Hz.
      destruct (negb (mem 46 form) && (100 <=? slen s)) eqn:Long; [|same_call].
      intros HH. inversion HH. subst out r'. clear HH.
      apply andb_true_iff in Long. destruct Long as [Hdot Hlen]. apply negb_true_iff in Hdot. apply Z.leb_le in Hlen.
      destruct Hx as (fl & wp & Ef & Esc & _ & _). subst form.
      assert (Hdw : mem 46 wp = false).
      { change (37 :: fl ++ wp ++ [115]) with ([37] ++ fl ++ wp ++ [115]) in Hdot. rewrite !mem_app in Hdot.
        apply orb_false_iff in Hdot. destruct Hdot as [_ Hdot]. apply orb_false_iff in Hdot. destruct Hdot as [_ Hdot].
        apply orb_false_iff in Hdot. tauto. }
      rewrite (c99_s_long cfloat fl wp s Esc Hdw Hz Hlen). reflexivity.
Qed.

(* ------------------------------------------------------------------ the whole format string *)
Theorem format_loop_eq : forall k fmt args out,
  lua_format_loop cfloat NL_MAXFLAGS false k fmt args = LVal out -> nl_format_loop cfloat k fmt args = Val out.
Proof.
  induction k as [|k IH]; intros fmt args out; [discriminate|].
  cbn [lua_format_loop nl_format_loop]. destruct fmt as [|c r]; [intros H; inversion H; reflexivity|].
  destruct (negb (c =? 37)).
  - destruct (lua_format_loop cfloat NL_MAXFLAGS false k r args) as [o|] eqn:E; [|discriminate].
    intros H. inversion H. rewrite (IH _ _ _ E). reflexivity.
  - destruct (hd0 r =? 37).
    + destruct (lua_format_loop cfloat NL_MAXFLAGS false k (tl r) args) as [o|] eqn:E; [|discriminate].
      intros H. inversion H. rewrite (IH _ _ _ E). reflexivity.
    + destruct args as [|a args']; [discriminate|].
      destruct (lua_item cfloat NL_MAXFLAGS false r a) as [[o1 r1]|] eqn:Ei; [|discriminate].
      pose proof (item_eq _ _ _ _ Ei) as En.
      assert (Es : exists x, nl_scanformat r = Val x).
      { unfold nl_item in En. destruct (nl_scanformat r) as [x| |]; [exists x; reflexivity|discriminate|discriminate]. }
      destruct Es as [x Es]. rewrite Es. rewrite En.
      destruct (lua_format_loop cfloat NL_MAXFLAGS false k r1 args') as [o|] eqn:E; [|discriminate].
      intros H. inversion H. rewrite (IH _ _ _ E). reflexivity.
Qed.

Theorem format_eq_lua fmt args out :
  lua_format_cap cfloat NL_MAXFLAGS false fmt args = LVal out -> nl_format cfloat fmt args = Val out.
Proof. apply format_loop_eq. Qed.

(* the restricted reference is a restriction of Lua: raising the flag budget and allowing p and q only adds results *)
Lemma checkformat_mono cap cap' form flags prec : cap <= cap' ->
  lua_checkformat cap form flags prec = true -> lua_checkformat cap' form flags prec = true.
Proof.
  unfold lua_checkformat. destruct (scan flags prec true (tl form)) as [[fl wp] rem]. intros Hc H.
  apply andb_true_iff in H. destruct H as [H1 H2]. rewrite H2. apply Z.leb_le in H1.
  destruct (Z.leb_spec (slen fl) cap'); [reflexivity|lia].
Qed.

Lemma item_mono cap cap' pq rest a x : cap <= cap' ->
  lua_item cfloat cap false rest a = LVal x -> lua_item cfloat cap' pq rest a = LVal x.
Proof.
  intros Hc. unfold lua_item. destruct (lua_getformat rest) as [[[form conv] rest']|]; [|discriminate].
  pose proof (checkformat_mono cap cap' form) as M.
  destruct a as [v|s].
  - repeat match goal with
    | |- (if lua_checkformat cap form ?fl ?pr then _ else _) = _ -> _ =>
        let C := fresh "C" in destruct (lua_checkformat cap form fl pr) eqn:C; [rewrite (M _ _ Hc C); exact (fun h => h)|discriminate]
    | |- (if negb false then LErr else _) = _ -> _ => discriminate
    | |- (if ?b then _ else _) = _ -> _ => destruct b
    | |- (let s := _ in _) = _ -> _ => cbv zeta
    | |- _ => exact (fun h => h)
    end.
  - repeat match goal with
    | |- (if lua_checkformat cap form ?fl ?pr then _ else _) = _ -> _ =>
        let C := fresh "C" in destruct (lua_checkformat cap form fl pr) eqn:C; [rewrite (M _ _ Hc C); exact (fun h => h)|discriminate]
    | |- (if ?b then _ else _) = _ -> _ => destruct b
    | |- _ => exact (fun h => h)
    end.
Qed.

Theorem format_cap_sub_lua fmt args out :
  lua_format_cap cfloat NL_MAXFLAGS false fmt args = LVal out -> lua_format cfloat fmt args = LVal out.
Proof.
  unfold lua_format, lua_format_cap. generalize (S (length fmt)). intros k. revert fmt args out.
  induction k as [|k IH]; intros fmt args out; [discriminate|].
  cbn [lua_format_loop]. destruct fmt as [|c r]; [exact (fun h => h)|].
  destruct (negb (c =? 37)).
  - destruct (lua_format_loop cfloat NL_MAXFLAGS false k r args) as [o|] eqn:E; [|discriminate].
    rewrite (IH _ _ _ E). exact (fun h => h).
  - destruct (hd0 r =? 37).
    + destruct (lua_format_loop cfloat NL_MAXFLAGS false k (tl r) args) as [o|] eqn:E; [|discriminate].
      rewrite (IH _ _ _ E). exact (fun h => h).
    + destruct args as [|a args']; [discriminate|].
      destruct (lua_item cfloat NL_MAXFLAGS false r a) as [[o1 r1]|] eqn:Ei; [|discriminate].
      rewrite (item_mono NL_MAXFLAGS 21 true r a (o1, r1) ltac:(unfold NL_MAXFLAGS; lia) Ei).
      destruct (lua_format_loop cfloat NL_MAXFLAGS false k r1 args') as [o|] eqn:E; [|discriminate].
      rewrite (IH _ _ _ E). exact (fun h => h).
Qed.

(* ------------------------------------------------------------------ the converse: the port never fabricates *)
Lemma span_stops P s a b : span P s = (a, b) -> stops P b.
Proof.
  revert a b. induction s as [|c r IH]; cbn [span]; intros a b E.
  - inversion E. exact I.
  - destruct (P c) eqn:Ec.
    + destruct (span P r) as [a0 b0] eqn:Er. inversion E. subst. eapply IH. reflexivity.
    + inversion E. subst. cbn. exact Ec.
Qed.

Lemma take2_digits s w r : take2 s = (w, r) -> forallb c_isdigit w = true /\ (length w <= 2)%nat.
Proof.
  unfold take2. destruct s as [|c s']; [intros E; inversion E; split; [reflexivity|cbn; lia]|].
  destruct (c_isdigit c) eqn:Ec; [|intros E; inversion E; split; [reflexivity|cbn; lia]].
  destruct s' as [|d s'']; [intros E; inversion E; cbn; rewrite Ec; split; [reflexivity|lia]|].
  destruct (c_isdigit d) eqn:Ed; intros E; inversion E; cbn; rewrite Ec; try rewrite Ed; split; try reflexivity; lia.
Qed.

Lemma digit_spanset c : c_isdigit c = true -> spanset c = true.
Proof. unfold c_isdigit, spanset, isflagF, between. lia. Qed.

(* the shape of what [scan] returns *)
Lemma scan_shape al pr c0 s fl wp rem : scan al pr c0 s = (fl, wp, rem) ->
  span al s = (fl, wp ++ rem) /\ forallb spanset wp = true /\ (length wp <= 5)%nat.
Proof.
  unfold scan. destruct (span al s) as [f s1] eqn:E1.
  destruct (c0 && (hd0 s1 =? 48)); [intros E; inversion E; subst; split; [reflexivity|split; [reflexivity|cbn; lia]]|].
  destruct (take2 s1) as [w s2] eqn:E2. pose proof (take2_app _ _ _ E2) as Ea. destruct (take2_digits _ _ _ E2) as [Hd Hl].
  assert (Hw : forallb spanset w = true).
  { rewrite forallb_forall in Hd |- *. intros x Hx. apply digit_spanset. apply Hd. exact Hx. }
  destruct s2 as [|c s3].
  { intros E; inversion E; subst. rewrite app_nil_r. split; [reflexivity|split; [exact Hw|lia]]. }
  destruct (Z.eqb_spec c 46) as [->|N]; cbn [andb].
  2:{ intros E; inversion E; subst. split; [reflexivity|split; [exact Hw|lia]]. }
  destruct pr.
  2:{ intros E; inversion E; subst. split; [reflexivity|split; [exact Hw|lia]]. }
  destruct (take2 s3) as [p s4] eqn:E3. pose proof (take2_app _ _ _ E3) as Ea3. destruct (take2_digits _ _ _ E3) as [Hd3 Hl3].
  intros E; inversion E; subst. split; [rewrite <- !app_assoc; reflexivity|].
  split.
  - rewrite forallb_app, Hw. cbn [forallb andb]. change (spanset 46) with true. cbn [andb].
    rewrite forallb_forall in Hd3 |- *. intros x Hx. apply digit_spanset. apply Hd3. exact Hx.
  - rewrite app_length. cbn [length]. lia.
Qed.

Lemma span_prefix_len (P Q : Z -> bool) s : (forall c, P c = true -> Q c = true) ->
  (length (fst (span P s)) <= length (fst (span Q s)))%nat.
Proof.
  intros Hsub. induction s as [|c r IH]; cbn [span]; [cbn; lia|].
  destruct (P c) eqn:Ep.
  - rewrite (Hsub c Ep). destruct (span P r) as [a b]. destruct (span Q r) as [a' b']. cbn in *. lia.
  - cbn. lia.
Qed.

Lemma flagF_spanset c : isflagF c = true -> spanset c = true.
Proof. unfold spanset. intros ->. reflexivity. Qed.

(* what scanformat accepts, getformat reads the same way *)
Lemma getformat_of_scanformat rest form conv rest' : nl_scanformat rest = Val (form, conv, rest') ->
  c_isalpha conv = true ->
  lua_getformat rest = LVal (form, conv, rest') /\
  exists fl wp, form = 37 :: fl ++ wp ++ [conv] /\ span isflagF (fl ++ wp ++ [conv]) = (fl, wp ++ [conv]) /\ slen fl <= NL_MAXFLAGS.
Proof.
  unfold nl_scanformat. destruct (scan isflagF true false rest) as [[fl wp] rem] eqn:E.
  destruct (Z.ltb_spec NL_MAXFLAGS (slen fl)) as [|Hfl]; [discriminate|].
  destruct (c_isdigit (hd0 rem)); [discriminate|]. intros H Ha. inversion H. subst form conv rest'. clear H.
  destruct rem as [|c rest']; [discriminate Ha|]. cbn [hd0 tl] in *.
  pose proof (scan_app _ _ _ _ _ _ _ E) as Er. pose proof (scan_flags _ _ _ _ _ _ _ E) as HflF.
  destruct (scan_shape _ _ _ _ _ _ _ E) as (Hsp & Hwp & Hlen).
  destruct (alpha_not_spanset c Ha) as (Hns & HnF & _ & _).
  assert (Hall : forallb spanset (fl ++ wp) = true).
  { rewrite forallb_app, Hwp, andb_true_r. rewrite forallb_forall in HflF |- *. intros x Hx. apply flagF_spanset. apply HflF. exact Hx. }
  unfold lua_getformat. rewrite Er. rewrite app_assoc.
  rewrite (span_unique spanset (fl ++ wp) (c :: rest') Hall Hns).
  assert (Hl : slen (fl ++ wp) + 1 < 22).
  { unfold slen in *. rewrite app_length. unfold NL_MAXFLAGS in Hfl. lia. }
  destruct (Z.leb_spec 22 (slen (fl ++ wp) + 1)); [lia|]. cbn [hd0 tl]. rewrite <- app_assoc.
  split; [reflexivity|]. exists fl, wp. split; [reflexivity|]. split; [|exact Hfl].
  apply span_unique; [exact HflF|].
  pose proof (span_stops _ _ _ _ Hsp) as Hst. destruct wp as [|x wp']; [cbn; exact HnF|exact Hst].
Qed.

(* what checkformat accepts with the flags of a conversion, Lua's checkformat accepts with the same flags *)
Lemma lua_check_of_nl cap form conv flags prec fl wp : NL_MAXFLAGS <= cap -> c_isalpha conv = true ->
  form = 37 :: fl ++ wp ++ [conv] -> span isflagF (fl ++ wp ++ [conv]) = (fl, wp ++ [conv]) -> slen fl <= NL_MAXFLAGS ->
  (forall c, flags c = true -> isflagF c = true) ->
  (let '(_, _, rem) := scan flags prec true (tl form) in hd0 rem =? conv) = true ->
  lua_checkformat cap form flags prec = true.
Proof.
  intros Hcap Ha Ef Hsp Hfl Hsub. unfold lua_checkformat. subst form. cbn [tl].
  destruct (scan flags prec true (fl ++ wp ++ [conv])) as [[fl' wp'] rem] eqn:E. intros Hh. apply Z.eqb_eq in Hh.
  destruct (scan_shape _ _ _ _ _ _ _ E) as (Hs' & _ & _).
  pose proof (span_prefix_len flags isflagF (fl ++ wp ++ [conv]) Hsub) as Hlen. rewrite Hs', Hsp in Hlen. cbn [fst] in Hlen.
  destruct rem as [|c t]; [cbn in Hh; subst conv; discriminate Ha|]. cbn [hd0] in Hh. subst c. rewrite Ha, andb_true_r.
  apply Z.leb_le. unfold slen in *. lia.
Qed.

Lemma item_conv cap pq rest a out r' : NL_MAXFLAGS <= cap ->
  nl_item cfloat rest a = Val (out, r') -> lua_item cfloat cap pq rest a = LVal (out, r').
Proof.
  intros Hcap. unfold nl_item. destruct (nl_scanformat rest) as [[[form conv] rest']| |] eqn:S; try discriminate.
  destruct (nl_checkformat form conv) eqn:K; cbn [negb]; [|discriminate].
  destruct flags_sub_F as (SC & SI & SU & SX).
  assert (SF : forall c, isflagF c = true -> isflagF c = true) by (intros c H; exact H).
  (* with a concrete alphabetic conversion: Lua reads the same specification and accepts it *)
  Ltac lua_side S K Hcap Sub :=
    match type of S with nl_scanformat _ = Val (_, ?c, _) =>
      let G := fresh "G" in let fl := fresh "fl" in let wp := fresh "wp" in
      let Ef := fresh "Ef" in let Hsp := fresh "Hsp" in let Hfl := fresh "Hfl" in
      destruct (getformat_of_scanformat _ _ _ _ S eq_refl) as (G & fl & wp & Ef & Hsp & Hfl);
      unfold lua_item; rewrite G; fmt_red;
      unfold nl_checkformat in K; revert K; fmt_red; intros K;
      rewrite (lua_check_of_nl _ _ c _ _ fl wp Hcap eq_refl Ef Hsp Hfl Sub K)
    end.
  Ltac same_out :=
    match goal with
    | |- (match ?o with Some b => Val (b, ?r) | None => Unsafe end) = _ -> _ =>
        destruct o; [intros HH; inversion HH; subst; reflexivity|discriminate]
    end.
  destruct a as [v|s].
  - destruct (Z.eqb_spec conv 99) as [->|N1]. { fmt_red. lua_side S K Hcap SC. same_out. }
    destruct (Z.eqb_spec conv 100) as [->|N2]. { fmt_red. lua_side S K Hcap SI. same_out. }
    destruct (Z.eqb_spec conv 105) as [->|N3]. { fmt_red. lua_side S K Hcap SI. same_out. }
    destruct (Z.eqb_spec conv 111) as [->|N5]. { fmt_red. lua_side S K Hcap SX. same_out. }
    destruct (Z.eqb_spec conv 117) as [->|N4]. { fmt_red. lua_side S K Hcap SU. same_out. }
    destruct (Z.eqb_spec conv 120) as [->|N6]. { fmt_red. lua_side S K Hcap SX. same_out. }
    destruct (Z.eqb_spec conv 88) as [->|N7]. { fmt_red. lua_side S K Hcap SX. same_out. }
    destruct (Z.eqb_spec conv 97) as [->|N8]. { fmt_red. lua_side S K Hcap SF. same_out. }
    destruct (Z.eqb_spec conv 65) as [->|N9]. { fmt_red. lua_side S K Hcap SF. same_out. }
    destruct (Z.eqb_spec conv 102) as [->|N10]. { fmt_red. lua_side S K Hcap SF. same_out. }
    destruct (Z.eqb_spec conv 101) as [->|N11]. { fmt_red. lua_side S K Hcap SF. same_out. }
    destruct (Z.eqb_spec conv 69) as [->|N12]. { fmt_red. lua_side S K Hcap SF. same_out. }
    destruct (Z.eqb_spec conv 103) as [->|N13]. { fmt_red. lua_side S K Hcap SF. same_out. }
    destruct (Z.eqb_spec conv 71) as [->|N14]. { fmt_red. lua_side S K Hcap SF. same_out. }
    destruct (Z.eqb_spec conv 115) as [->|N15].
    { fmt_red. destruct (Nat.eqb (length form) 2) eqn:L2.
      - destruct (getformat_of_scanformat _ _ _ _ S eq_refl) as (G & _). unfold lua_item. rewrite G. fmt_red. cbv zeta. rewrite L2.
        intros HH; inversion HH; reflexivity.
      - rewrite has_zero_decimal. lua_side S K Hcap SC. cbv zeta. rewrite L2. same_out. }
    unfold is_fltconv.
    repeat match goal with |- context [conv =? ?K] => replace (conv =? K) with false by (symmetry; apply Z.eqb_neq; assumption) end.
    cbn [orb andb negb]. discriminate.
  - destruct (Z.eqb_spec conv 115) as [->|N]; [|discriminate].
    destruct (Nat.eqb (length form) 2) eqn:L2.
    + destruct (getformat_of_scanformat _ _ _ _ S eq_refl) as (G & _). unfold lua_item. rewrite G. fmt_red. rewrite L2.
      intros HH; inversion HH; reflexivity.
    + destruct (has_zero s) eqn:Hz; [discriminate|].
      lua_side S K Hcap SC. rewrite L2, Hz.
      destruct (negb (mem 46 form) && (100 <=? slen s)) eqn:Long; [|same_out].
      (* Lua keeps the whole string; the port formats it: the same bytes *)
      apply andb_true_iff in Long. destruct Long as [Hdot Hlen]. apply negb_true_iff in Hdot. apply Z.leb_le in Hlen.
      assert (C : lua_checkformat NL_MAXFLAGS form isflagC true = true)
        by exact (lua_check_of_nl _ _ 115 _ _ fl wp (Z.le_refl _) eq_refl Ef Hsp Hfl SC K).
      destruct (scanformat_eq _ _ _ _ _ _ G C SC) as (_ & _ & fl2 & wp2 & Ef2 & Esc2 & _ & _).
      assert (Hdw : mem 46 wp2 = false).
      { rewrite Ef2 in Hdot. change (37 :: fl2 ++ wp2 ++ [115]) with ([37] ++ fl2 ++ wp2 ++ [115]) in Hdot. rewrite !mem_app in Hdot.
        apply orb_false_iff in Hdot. destruct Hdot as [_ Hdot]. apply orb_false_iff in Hdot. destruct Hdot as [_ Hdot].
        apply orb_false_iff in Hdot. tauto. }
      rewrite Ef2. rewrite (c99_s_long cfloat fl2 wp2 s Esc2 Hdw Hz Hlen). intros HH. inversion HH. reflexivity.
Qed.

Theorem format_loop_conv cap pq : NL_MAXFLAGS <= cap -> forall k fmt args out,
  nl_format_loop cfloat k fmt args = Val out -> lua_format_loop cfloat cap pq k fmt args = LVal out.
Proof.
  intros Hcap. induction k as [|k IH]; intros fmt args out; [discriminate|].
  cbn [lua_format_loop nl_format_loop]. destruct fmt as [|c r]; [intros H; inversion H; reflexivity|].
  destruct (negb (c =? 37)).
  - destruct (nl_format_loop cfloat k r args) as [o| |] eqn:E; try discriminate.
    intros H. inversion H. rewrite (IH _ _ _ E). reflexivity.
  - destruct (hd0 r =? 37).
    + destruct (nl_format_loop cfloat k (tl r) args) as [o| |] eqn:E; try discriminate.
      intros H. inversion H. rewrite (IH _ _ _ E). reflexivity.
    + destruct (nl_scanformat r) as [x| |]; try discriminate.
      destruct args as [|a args']; [discriminate|].
      destruct (nl_item cfloat r a) as [[o1 r1]| |] eqn:Ei; try discriminate.
      rewrite (item_conv cap pq _ _ _ _ Hcap Ei).
      destruct (nl_format_loop cfloat k r1 args') as [o| |] eqn:E; try discriminate.
      intros H. inversion H. rewrite (IH _ _ _ E). reflexivity.
Qed.

(* whatever string.format returns is what Lua's str_format returns: it never fabricates a value *)
Theorem format_val_is_lua fmt args out : nl_format cfloat fmt args = Val out -> lua_format cfloat fmt args = LVal out.
Proof. apply format_loop_conv. unfold NL_MAXFLAGS. lia. Qed.

(* and it returns exactly where Lua restricted to the port's documented limits returns *)
Theorem format_iff_restricted_lua fmt args out :
  nl_format cfloat fmt args = Val out <-> lua_format_cap cfloat NL_MAXFLAGS false fmt args = LVal out.
Proof. split; [apply format_loop_conv; lia|apply format_eq_lua]. Qed.
End FmtMain.

(* ------------------------------------------------------------------ the C model, sanity *)
Lemma wrap64_u64' a : in_i64 a -> wrap64 (u64 a) = a.
Proof. intros H. rewrite <- (wrap64_id a H) at 2. apply wrap64_eqm. unfold u64. apply Z.mod_mod. unfold two64. lia. Qed.

(* "%lld" of the argument word of v is the decimal text of v (what %s and tostring give for an integer) *)
Lemma c99_plain_d v : in_i64 v ->
  c99_int {| f_minus := false; f_plus := false; f_space := false; f_hash := false; f_zero := false;
             c_width := 0; c_prec := None; c_ll := true; c_conv := 100 |} (u64 v) = decimal_of v.
Proof.
  intros Hv. unfold c99_int, decimal_of, c99_pad.
  cbn [c_conv c_prec c_width f_minus f_plus f_space f_hash f_zero Z.eqb Pos.eqb orb andb negb].
  rewrite (wrap64_u64' v Hv).
  set (d := digits 10 false (Z.abs v)).
  assert (Hz : zeros (1 - slen d) ++ d = match d with [] => [48] | _ => d end).
  { destruct d as [|x d']; [reflexivity|]. unfold zeros, slen. cbn [length].
    replace (Z.to_nat (1 - Z.of_nat (S (length d')))) with O by lia. reflexivity. }
  rewrite Hz. rewrite app_nil_r.
  match goal with |- spaces ?e ++ _ = _ => assert (Hs : spaces e = []) end.
  { unfold spaces. match goal with |- repeat 32 (Z.to_nat ?e) = [] => replace (Z.to_nat e) with O; [reflexivity|] end.
    unfold slen. lia. }
  rewrite Hs. reflexivity.
Qed.
