(* C13 (h, continued) - the matcher never consults a byte outside its arguments.
   G.do_match (ModelPatG.v) is ModelPat's matcher with the two read functions as parameters.
   (1) instantiated with the real reads it IS the matcher;
   (2) for any read functions that agree with the real ones on the pattern indices 0..#pattern (terminator included)
       and on the subject indices 0..#subject-1 it returns the same result, from every state the matcher can be in
       (positions inside the arguments, captures inside the subject: the invariant of C13_match_positions_in_range).
   So whatever lies beyond the terminator of the pattern, before or beyond the subject, is never read in a way that
   can matter - the per-byte form of "never reads outside its arguments".  (The memory.compare of a back reference
   reads the ranges [ci, ci+cl) and [s, s+cl), which that invariant and the guard cl <= #subject - s keep inside.) *)
From C13 Require Import Model ModelDrv ModelPat ModelPatG ProofsDrv ProofsPat ProofsPatFuel.
Local Open Scope Z_scope.

Section Inst.
  Variable cfg : mcfg.
  Variable src pat : bytes.
  Lemma inst_set_end f p : G.set_end pat (P pat) f p = set_end pat f p.
  Proof. reflexivity. Qed.
  Lemma inst_class_end p : G.class_end pat (P pat) p = class_end pat p.
  Proof. reflexivity. Qed.
  Lemma inst_single s p ep : G.single_match cfg src pat (P pat) (S_ src) s p ep = single_match cfg src pat s p ep.
  Proof. reflexivity. Qed.
  Lemma inst_body call again caps s p :
    G.match_body cfg src pat (P pat) (S_ src) call again caps s p = match_body cfg src pat call again caps s p.
  Proof. reflexivity. Qed.
  Lemma inst_do_match : forall fuel d caps s p,
    G.do_match cfg src pat (P pat) (S_ src) fuel d caps s p = do_match cfg src pat fuel d caps s p.
  Proof. reflexivity. Qed.
End Inst.

Section NI.
  Variable cfg : mcfg.
  Variable src pat : bytes.
  Variable rdP rdS : Z -> Z.
  Notation plen := (slen pat).
  Notation slen_ := (slen src).
  Ltac norm := unfold G.plen, G.slen_, ModelPat.plen, ModelPat.slen_ in *.
  (* the read functions agree with memory inside the arguments (the pattern's terminator included) *)
  Hypothesis HP : forall i, 0 <= i <= plen -> rdP i = P pat i.
  Hypothesis HS : forall i, 0 <= i < slen_ -> rdS i = S_ src i.

  Lemma mc_eq c cl : G.match_class cfg c cl = match_class cfg c cl.
  Proof. reflexivity. Qed.

  Lemma ni_set_end f : forall p, 0 <= p <= plen -> G.set_end pat rdP f p = set_end pat f p.
  Proof.
    induction f as [|f IH]; intros p Hp; [reflexivity|]. cbn [G.set_end set_end]. norm.
    destruct (Z.eqb_spec p plen); [reflexivity|]. rewrite (HP p) by lia.
    set (p1 := if (P pat p =? 37) && (p + 1 <? plen) then p + 1 + 1 else p + 1).
    assert (0 <= p1 <= plen).
    { subst p1. destruct (P pat p =? 37); cbn [andb]; [|lia]. destruct (Z.ltb_spec (p + 1) plen); lia. }
    rewrite (HP p1) by lia. destruct (P pat p1 =? 93); [reflexivity|]. apply IH. lia.
  Qed.

  Lemma ni_class_end p : 0 <= p < plen -> G.class_end pat rdP p = class_end pat p.
  Proof.
    intros Hp. unfold G.class_end, class_end. norm. rewrite (HP p) by lia.
    destruct (P pat p =? 37); [reflexivity|]. destruct (P pat p =? 91); [|reflexivity].
    rewrite (HP (p + 1)) by lia.
    destruct (Z.eqb_spec (P pat (p + 1)) 94) as [E|]; apply ni_set_end; [|lia].
    assert (p + 1 < plen) by (pose proof (P_nonzero_lt pat (p + 1)) as Hnz; norm; apply Hnz; [lia|rewrite E; discriminate]). lia.
  Qed.

  Lemma ni_bracket_loop f : forall c p ec sig, 0 <= p -> ec <= plen ->
    G.bracket_loop cfg rdP f c p ec sig = bracket_loop cfg pat f c p ec sig.
  Proof.
    induction f as [|f IH]; intros c p ec sig Hp He; [reflexivity|]. cbn [G.bracket_loop bracket_loop].
    destruct (Z.ltb_spec (p + 1) ec); cbn [negb]; [|reflexivity].
    rewrite (HP (p + 1)) by lia. destruct (P pat (p + 1) =? 37).
    { rewrite (HP (p + 1 + 1)) by lia. rewrite mc_eq. destruct (match_class cfg c (P pat (p + 1 + 1))); [reflexivity|]. apply IH; lia. }
    rewrite (HP (p + 1 + 1)) by lia.
    destruct (Z.ltb_spec (p + 1 + 2) ec); [|rewrite !andb_false_r; destruct (P pat (p + 1) =? c); [reflexivity|apply IH; lia]].
    destruct (P pat (p + 1 + 1) =? 45); cbn [andb].
    { rewrite (HP (p + 1 + 2 - 2)), (HP (p + 1 + 2)) by lia.
      destruct ((P pat (p + 1 + 2 - 2) <=? c) && (c <=? P pat (p + 1 + 2))); [reflexivity|]. apply IH; lia. }
    destruct (P pat (p + 1) =? c); [reflexivity|]. apply IH; lia.
  Qed.

  Lemma ni_bracket_class c p ec : 0 <= p < plen -> ec <= plen ->
    G.match_bracket_class cfg pat rdP c p ec = match_bracket_class cfg pat c p ec.
  Proof.
    intros Hp He. unfold G.match_bracket_class, match_bracket_class. rewrite (HP (p + 1)) by lia.
    destruct (P pat (p + 1) =? 94); apply ni_bracket_loop; lia.
  Qed.

  Lemma ni_single s p ep : 0 <= s -> 0 <= p < plen -> ep - 1 <= plen ->
    G.single_match cfg src pat rdP rdS s p ep = single_match cfg src pat s p ep.
  Proof.
    intros Hs Hp He. unfold G.single_match, single_match. norm.
    destruct (Z.leb_spec slen_ s); [reflexivity|]. rewrite (HS s), (HP p), (HP (p + 1)) by lia.
    rewrite ni_bracket_class by lia. rewrite mc_eq. reflexivity.
  Qed.

  Lemma ni_balance f : forall s b e cont, 0 <= s -> G.balance_loop src rdS f s b e cont = balance_loop src f s b e cont.
  Proof.
    induction f as [|f IH]; intros s b e cont Hs; [reflexivity|]. cbn [G.balance_loop balance_loop]. norm.
    destruct (Z.ltb_spec s slen_); cbn [negb]; [|reflexivity]. rewrite (HS s) by lia.
    destruct (S_ src s =? e); [destruct (cont - 1 =? 0); [reflexivity|apply IH; lia]|].
    destruct (S_ src s =? b); apply IH; lia.
  Qed.

  Lemma ni_count f : forall s p ep i, 0 <= s -> 0 <= i -> 0 <= p < plen -> ep - 1 <= plen ->
    G.count_max cfg src pat rdP rdS f s p ep i = count_max cfg src pat f s p ep i.
  Proof.
    induction f as [|f IH]; intros s p ep i Hs Hi Hp He; [reflexivity|]. cbn [G.count_max count_max].
    rewrite ni_single by lia. destruct (single_match cfg src pat (s + i) p ep); [apply IH; lia|reflexivity].
  Qed.

  Lemma min_up_ext_from sm1 sm2 call caps ep : forall k s1, (forall x, s1 <= x -> sm1 x = sm2 x) ->
    min_up sm1 call caps ep k s1 = min_up sm2 call caps ep k s1.
  Proof.
    induction k as [|k IH]; intros s1 He; cbn [min_up]; rewrite (He s1) by lia; [reflexivity|].
    destruct (call caps s1 (ep + 1)); try reflexivity. destruct (sm2 s1); [|reflexivity]. apply IH. intros x Hx. apply He. lia.
  Qed.
  (* one level of match(): with reads that agree inside the arguments it is the matcher's own step *)
  Lemma ni_body call again caps s p : inv_b src pat caps s p = true ->
    G.match_body cfg src pat rdP rdS call again caps s p = match_body cfg src pat call again caps s p.
  Proof.
    intros Hinv. destruct (inv_elim src pat _ _ _ Hinv) as (Hs & Hp & Hcaps). norm.
    unfold G.match_body, match_body. norm.
    destruct (Z.ltb_spec p plen) as [Hlt|]; cbn [negb]; [|reflexivity].
    assert (Hnz : forall i, 0 <= i -> P pat i <> 0 -> i < plen) by (intros i; pose proof (P_nonzero_lt pat i) as H; norm; exact H).
    rewrite (HP p) by lia. rewrite (HP (p + 1)) by lia.
    (* the default case *)
    assert (Hdflt :
      match G.class_end pat rdP p with
      | Some ep =>
          if negb (G.single_match cfg src pat rdP rdS s p ep)
          then if (rdP ep =? 42) || (rdP ep =? 63) || (rdP ep =? 45) then again s (ep + 1) else MFail
          else if rdP ep =? 63
               then match call caps (s + 1) (ep + 1) with MFail => again s (ep + 1) | r0 => r0 end
               else if (rdP ep =? 43) || (rdP ep =? 42)
                    then max_down call caps (if rdP ep =? 43 then s + 1 else s) ep (S (length src))
                           (G.count_max cfg src pat rdP rdS (S (length src)) (if rdP ep =? 43 then s + 1 else s) p ep 0)
                    else if rdP ep =? 45
                         then min_up (fun s1 => G.single_match cfg src pat rdP rdS s1 p ep) call caps ep (S (length src)) s
                         else again (s + 1) ep
      | None => MError
      end =
      match class_end pat p with
      | Some ep =>
          if negb (single_match cfg src pat s p ep)
          then if (P pat ep =? 42) || (P pat ep =? 63) || (P pat ep =? 45) then again s (ep + 1) else MFail
          else if P pat ep =? 63
               then match call caps (s + 1) (ep + 1) with MFail => again s (ep + 1) | r0 => r0 end
               else if (P pat ep =? 43) || (P pat ep =? 42)
                    then max_down call caps (if P pat ep =? 43 then s + 1 else s) ep (S (length src))
                           (count_max cfg src pat (S (length src)) (if P pat ep =? 43 then s + 1 else s) p ep 0)
                    else if P pat ep =? 45
                         then min_up (fun s1 => single_match cfg src pat s1 p ep) call caps ep (S (length src)) s
                         else again (s + 1) ep
      | None => MError
      end).
    { rewrite ni_class_end by lia. destruct (class_end pat p) as [ep|] eqn:Ece; [|reflexivity].
      pose proof (class_end_gt pat p ep Ece) as Hgt. pose proof (class_end_le pat p ep) as Hle. norm. specialize (Hle ltac:(lia) Ece).
      rewrite (HP ep) by lia. rewrite ni_single by lia.
      assert (Hc : forall s0, 0 <= s0 -> G.count_max cfg src pat rdP rdS (S (length src)) s0 p ep 0 = count_max cfg src pat (S (length src)) s0 p ep 0)
        by (intros s0 H0; apply ni_count; lia).
      rewrite (Hc (if P pat ep =? 43 then s + 1 else s)) by (destruct (P pat ep =? 43); lia).
      rewrite (min_up_ext_from (fun s1 => G.single_match cfg src pat rdP rdS s1 p ep) (fun s1 => single_match cfg src pat s1 p ep)
                 call caps ep (S (length src)) s) by (intros x Hx; apply ni_single; lia).
      reflexivity. }
    destruct (P pat p =? 40); [reflexivity|]. destruct (P pat p =? 41); [reflexivity|].
    destruct ((P pat p =? 36) && (p + 1 =? plen)); [reflexivity|].
    destruct (P pat p =? 37); [|exact Hdflt].
    destruct (P pat (p + 1) =? 98).
    { destruct (Z.ltb_spec (p + 2) (plen - 1)); cbn [negb]; [|reflexivity].
      rewrite (HP (p + 2)), (HP (p + 3)) by lia.
      destruct (Z.leb_spec slen_ s); cbn [orb]; [reflexivity|]. rewrite (HS s) by lia.
      rewrite ni_balance by lia. reflexivity. }
    destruct (Z.eqb_spec (P pat (p + 1)) 102) as [E102|].
    { assert (p + 1 < plen) by (apply Hnz; [lia|rewrite E102; discriminate]). rewrite (HP (p + 2)) by lia.
      destruct (Z.eqb_spec (P pat (p + 2)) 91) as [E|]; cbn [negb]; [|reflexivity].
      assert (p + 2 < plen) by (apply Hnz; [lia|rewrite E; discriminate]).
      rewrite ni_class_end by lia. destruct (class_end pat (p + 2)) as [ep|] eqn:Ece; [|reflexivity].
      pose proof (class_end_le pat (p + 2) ep) as Hle. norm. specialize (Hle ltac:(lia) Ece).
      destruct (cfg_front_prev_unsafe_on_empty cfg && (s =? 0) && negb (s <? slen_)); [reflexivity|].
      assert (Ep : (if s =? 0 then 0 else rdS (s - 1)) = (if s =? 0 then 0 else S_ src (s - 1)))
        by (destruct (Z.eqb_spec s 0); [reflexivity|apply HS; lia]).
      assert (En : (if s =? slen_ then 0 else rdS s) = (if s =? slen_ then 0 else S_ src s))
        by (destruct (Z.eqb_spec s slen_); [reflexivity|apply HS; lia]).
      rewrite Ep, En. rewrite !ni_bracket_class by lia. reflexivity. }
    destruct ((48 <=? P pat (p + 1)) && (P pat (p + 1) <=? 57)); [reflexivity|exact Hdflt].
  Qed.

  Theorem ni_do_match : forall fuel d caps s p, inv_b src pat caps s p = true ->
    G.do_match cfg src pat rdP rdS fuel d caps s p = do_match cfg src pat fuel d caps s p.
  Proof.
    induction fuel as [|f IH]; intros d caps s p Hinv; [reflexivity|].
    cbn [G.do_match do_match]. rewrite ni_body by exact Hinv.
    apply (body_eq_on_inv cfg src pat); [exact Hinv| |].
    - intros caps' s' p' H'. unfold G.enter, enter. destruct (cfg_enter cfg d); [apply IH; exact H'|reflexivity].
    - intros s' p' H'. apply IH. exact H'.
  Qed.
End NI.

(* no byte outside the arguments matters: any two memories that agree on the pattern (its terminator included) and on
   the subject give the same result, from every state of the matcher *)
Theorem matcher_reads_only_its_arguments cfg src pat (rdP rdS rdP' rdS' : Z -> Z) :
  (forall i, 0 <= i <= slen pat -> rdP i = rdP' i) -> (forall i, 0 <= i < slen src -> rdS i = rdS' i) ->
  (forall i, 0 <= i <= slen pat -> rdP i = P pat i) -> (forall i, 0 <= i < slen src -> rdS i = S_ src i) ->
  forall fuel d caps s p, inv_b src pat caps s p = true ->
  G.do_match cfg src pat rdP rdS fuel d caps s p = G.do_match cfg src pat rdP' rdS' fuel d caps s p /\
  G.do_match cfg src pat rdP rdS fuel d caps s p = do_match cfg src pat fuel d caps s p.
Proof.
  intros EP ES HP HS fuel d caps s p Hinv.
  rewrite (ni_do_match cfg src pat rdP rdS HP HS fuel d caps s p Hinv).
  rewrite (ni_do_match cfg src pat rdP' rdS' (fun i H => eq_trans (eq_sym (EP i H)) (HP i H))
             (fun i H => eq_trans (eq_sym (ES i H)) (HS i H)) fuel d caps s p Hinv).
  split; reflexivity.
Qed.
