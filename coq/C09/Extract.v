From C09 Require Import Model.
Require Extraction.
Require Import ExtrOcamlBasic.
Extraction "model.ml" is_used emitted graph_of idiv_helper imod_helper h_bounds h_deref h_narrow_int
  op_add op_sub op_mul op_unm op_tdiv generic_cc_wraps nochecks_of nodce_of cflags_of has_flag base_mode vd_effects src_effects vd_wf vardecl_policy CDefault CRelease CNochecks CNodce FWRAPV I8 I16 I32 I64 U8 U16 U32 U64.
