(* COPY of coq/C03/ProofsBase.v (kept in sync by checks/C09.py:gen) *)
From C09 Require Import Model.
Local Open Scope Z_scope.
Ltac Zify.zify_post_hook ::= Z.div_mod_to_equations.

Lemma arith_result_wrapv m t r : m_wrapv m = true -> arith_result m t r <> None.
Proof. unfold arith_result. intros ->. destruct (isigned t); [destruct (in_ityb t r)|]; discriminate. Qed.

Lemma arith_result_unsigned m t r : isigned t = false -> arith_result m t r <> None.
Proof. unfold arith_result. intros ->. discriminate. Qed.

Lemma ret_not_ub t e : e <> None -> ret t e <> OUB.
Proof. destruct e; [discriminate|congruence]. Qed.

Lemma c_arith_wrapv m f a b : m_wrapv m = true -> c_arith m f a b <> None.
Proof. intros. apply arith_result_wrapv; auto. Qed.

(* evaluate every closed [uac x y], and replace [cwrap t v] by v when v is known to be in range *)
Ltac eval_uac := repeat match goal with |- context [uac ?x ?y] => let u := eval vm_compute in (uac x y) in change (uac x y) with u end.
Ltac eval_promote := repeat match goal with |- context [promote ?x] => let u := eval vm_compute in (promote x) in change (promote x) with u end.
Ltac drop_cwrap v := repeat match goal with |- context [cwrap ?t v] => replace (cwrap t v) with v by (unfold cwrap; cbn; lia) end.

