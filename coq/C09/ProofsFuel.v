From C09 Require Import Model Proofs.
Local Open Scope Z_scope.

(* ---------- fuel adequacy: the out-of-fuel answer is unreachable ---------- *)
Section Fuel.
  Variable g : graph.
  Variable U : list nat.                       (* a finite set of symbols closed under usedby *)
  Hypothesis Uclosed : forall n, In n U -> forall u, In u (usedby g n) -> In u U.

  Definition cnt (vis : list nat) : nat := length (filter (fun n => negb (memb n vis)) U).

  Lemma filter_len_le {A} (P Q : A -> bool) (l : list A) : (forall x, P x = true -> Q x = true) ->
    (length (filter P l) <= length (filter Q l))%nat.
  Proof.
    intros H. induction l as [|a l IH]; [cbn; lia|]. cbn [filter].
    destruct (P a) eqn:EP; [rewrite (H a EP); cbn; lia|destruct (Q a); cbn; lia].
  Qed.

  Lemma cnt_mono vis vis' : (forall x, In x vis -> In x vis') -> (cnt vis' <= cnt vis)%nat.
  Proof.
    intros H. apply filter_len_le. intros x Hx. apply negb_true_iff in Hx. apply negb_true_iff.
    destruct (memb x vis) eqn:E; [|reflexivity]. apply memb_In, H, memb_In in E. congruence.
  Qed.

  Lemma filter_len_lt {A} (P Q : A -> bool) (l : list A) x : (forall y, P y = true -> Q y = true) ->
    In x l -> P x = false -> Q x = true -> (length (filter P l) < length (filter Q l))%nat.
  Proof.
    intros H Hin HP HQ. induction l as [|a l IH]; [destruct Hin|]. cbn [filter].
    destruct Hin as [->|Hin].
    - rewrite HP, HQ. cbn [length]. pose proof (filter_len_le P Q l H). lia.
    - specialize (IH Hin). destruct (P a) eqn:EP; [rewrite (H a EP); cbn; lia|destruct (Q a); cbn; lia].
  Qed.

  Lemma cnt_visit vis s : In s U -> ~ In s vis -> (cnt (s :: vis) < cnt vis)%nat.
  Proof.
    intros HU Hn. apply (filter_len_lt _ _ U s).
    - intros y Hy. apply negb_true_iff in Hy. apply negb_true_iff. unfold memb in *. cbn [existsb] in Hy.
      apply orb_false_iff in Hy. tauto.
    - exact HU.
    - apply negb_false_iff. unfold memb. cbn [existsb]. rewrite Nat.eqb_refl. reflexivity.
    - apply negb_true_iff. destruct (memb s vis) eqn:E; [apply memb_In in E; contradiction|reflexivity].
  Qed.

  Lemma is_used_total : forall fuel vis s, In s U -> ~ In s vis -> (cnt vis <= fuel)%nat ->
    exists r, is_used fuel g vis s = Some r.
  Proof.
    induction fuel as [|f IH]; intros vis s HU Hn Hc.
    - pose proof (cnt_visit vis s HU Hn). lia.
    - rewrite is_used_unfold. destruct (root g s); [eexists; reflexivity|].
      pose proof (cnt_visit vis s HU Hn) as Hlt.
      assert (L : forall l v, (forall u, In u l -> In u U) -> (cnt v <= f)%nat -> exists r, loop f g l v = Some r).
      { induction l as [|u r IHl]; intros v Hl Hv; [eexists; reflexivity|]. cbn [loop].
        destruct (memb u v) eqn:M; [apply IHl; auto; intros; apply Hl; right; auto|].
        assert (Hnu : ~ In u v) by (intros Hi; apply memb_In in Hi; congruence).
        destruct (IH v u (Hl u (or_introl eq_refl)) Hnu Hv) as ([b v1] & E). rewrite E.
        destruct b; [eexists; reflexivity|].
        apply IHl; [intros; apply Hl; right; auto|].
        destruct (is_used_complete g _ _ _ _ E) as ((Sub & _) & _).
        pose proof (cnt_mono v v1 Sub). lia. }
      apply L; [intros u Hu; eapply Uclosed; eauto|lia].
  Qed.
End Fuel.

(* with at least as much fuel as there are symbols, Symbol:is_used always answers *)
Theorem is_used_fuel_adequate g U s fuel :
  (forall n, In n U -> forall u, In u (usedby g n) -> In u U) -> In s U -> (length U <= fuel)%nat ->
  exists b v, is_used fuel g [] s = Some (b, v).
Proof.
  intros Hc Hs Hf.
  destruct (is_used_total g U Hc fuel [] s Hs (fun H => H)) as ([b v] & E).
  - unfold cnt. assert (H : forall l : list nat, (length (filter (fun n => negb (memb n [])) l) <= length l)%nat).
    { induction l as [|a l IHl]; [cbn; lia|]. unfold memb in *. cbn [filter existsb negb length] in *. lia. }
    specialize (H U). lia.
  - exists b, v. exact E.
Qed.

(* what cgenerator emits: with pragmas.nodce everything, otherwise exactly the definitions reachable from a root
   (the early `return` of visitors.FuncDef as scraped: funcdef_dce_condition_found) *)
Theorem emitted_iff_nodce_or_reachable g U s fuel nodce :
  (forall n, In n U -> forall u, In u (usedby g n) -> In u U) -> In s U -> (length U <= fuel)%nat ->
  exists b, emitted fuel g nodce s = Some b /\ (b = true <-> nodce = true \/ reach g s).
Proof.
  intros Hc Hs Hf. unfold emitted. change funcdef_dce_condition_found with true. cbn [negb].
  destruct nodce.
  - exists true. split; [reflexivity|]. split; auto.
  - destruct (is_used_fuel_adequate g U s fuel Hc Hs Hf) as (b & v & E). rewrite E. exists b. split; [reflexivity|].
    rewrite (is_used_iff _ _ _ _ _ E). split; [auto|]. intros [H|H]; [discriminate|exact H].
Qed.
