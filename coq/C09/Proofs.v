From C09 Require Import Model.
Local Open Scope Z_scope.

(* ---------- checked = unchecked when the check passes ---------- *)
Lemma idiv_checked_eq m t a b : h_idiv m t true a b <> OPanic -> h_idiv m t true a b = h_idiv m t false a b.
Proof.
  unfold h_idiv, h_idiv_rest. destruct (c_eq (t, b) (lit (-1))) as [c1|]; [|reflexivity].
  destruct (c_truth c1); [reflexivity|]. cbn [andb].
  destruct (b =? 0); [intros H; exfalso; apply H; reflexivity|reflexivity].
Qed.
Lemma imod_checked_eq m t a b : h_imod m t true a b <> OPanic -> h_imod m t true a b = h_imod m t false a b.
Proof.
  unfold h_imod, h_imod_rest. destruct (c_eq (t, b) (lit (-1))) as [c1|]; [|reflexivity].
  destruct (c_truth c1); [reflexivity|]. cbn [andb].
  destruct (b =? 0); [intros H; exfalso; apply H; reflexivity|reflexivity].
Qed.
(* over the helpers as emitted (guard position scraped): includes the b == -1 path *)
Lemma idiv_helper_checked_eq m t a b : idiv_helper m t true a b <> OPanic -> idiv_helper m t true a b = idiv_helper m t false a b.
Proof. unfold idiv_helper, emitted_idiv_helper. change idiv_guard_first with true. cbn [orb]. apply idiv_checked_eq. Qed.
Lemma imod_helper_checked_eq m t a b : imod_helper m t true a b <> OPanic -> imod_helper m t true a b = imod_helper m t false a b.
Proof. unfold imod_helper, emitted_imod_helper. change imod_guard_first with true. cbn [orb]. apply imod_checked_eq. Qed.
(* the b == -1 path of the unchecked variants: MIN // -1 wraps, MIN % -1 is 0, for every signed width *)
Lemma unchecked_min_neg1 : forall t, In t signed_types ->
  idiv_helper base_mode t false (imin t) (-1) = ORet (imin t) /\ imod_helper base_mode t false (imin t) (-1) = ORet 0 /\
  idiv_helper base_mode t true (imin t) (-1) = ORet (imin t) /\ imod_helper base_mode t true (imin t) (-1) = ORet 0.
Proof. intros t Ht. pattern t. apply signed_cases; [| | | |exact Ht]; vm_compute; repeat split; reflexivity. Qed.
(* without the guard the raw division is undefined there (what the guard is for) *)
Lemma rest_min_neg1_ub : h_idiv_rest base_mode I64 false minint (-1) = OUB /\ h_imod_rest base_mode I64 false minint (-1) = OUB.
Proof. vm_compute. split; reflexivity. Qed.

Lemma bounds_checked_eq it i len : h_bounds it true i len <> OPanic -> h_bounds it true i len = h_bounds it false i len.
Proof. unfold h_bounds. cbn [andb]. destruct (_ || _); [intros H; exfalso; apply H; reflexivity|reflexivity]. Qed.
Lemma deref_checked_eq p : h_deref true p <> OPanic -> h_deref true p = h_deref false p.
Proof. unfold h_deref. cbn [andb]. destruct (p =? 0); [intros H; exfalso; apply H; reflexivity|reflexivity]. Qed.
Lemma narrow_int_checked_eq st dt x : h_narrow_int st dt true x <> OPanic -> h_narrow_int st dt true x = h_narrow_int st dt false x.
Proof. unfold h_narrow_int. cbn [andb]. destruct (narrow_fails st dt x); [intros H; exfalso; apply H; reflexivity|reflexivity]. Qed.
Lemma narrow_f2i_checked_eq dt x : h_narrow_f2i dt true x <> OPanic -> h_narrow_f2i dt true x = h_narrow_f2i dt false x.
Proof.
  unfold h_narrow_f2i. destruct (c_f2i dt x) as [[? v]|]; [|reflexivity]. cbn [andb].
  destruct (negb _); [intros H; exfalso; apply H; reflexivity|reflexivity].
Qed.
Lemma check_checked_eq c : h_check true c <> OPanic -> h_check true c = h_check false c.
Proof. unfold h_check. cbn [andb]. destruct (negb c); [intros H; exfalso; apply H; reflexivity|reflexivity]. Qed.

(* the bounds check passes exactly on in-bounds indices (so the unchecked access is in bounds) *)
Lemma bounds_pass_iff it i len : in_ity it i -> ity_ok it -> 0 <= len < two64 ->
  h_bounds it true i len <> OPanic <-> 0 <= i < len.
Proof.
  intros Hi Ht Hl. unfold h_bounds. cbn [andb]. rewrite cwrap_U64. unfold u64.
  assert (Hr : - two63 <= i < two64).
  { revert Hi. pattern it. apply ity_cases; try exact Ht; unfold in_ity, imin, imax, two63, two64; cbn; lia. }
  assert (Hs : isigned it = false -> 0 <= i).
  { revert Hi. pattern it. apply ity_cases; try exact Ht; unfold in_ity, imin, imax; cbn; intros; try discriminate; lia. }
  destruct (isigned it) eqn:Es; cbn [andb].
  - destruct (i <? 0) eqn:E.
    + rewrite orb_true_r. split; [intros H; exfalso; apply H; reflexivity|lia].
    + rewrite orb_false_r. rewrite Z.mod_small by (unfold two63, two64 in *; lia).
      destruct (len <=? i) eqn:E2; split; try lia; try discriminate. intros H; exfalso; apply H; reflexivity.
  - rewrite orb_false_r. specialize (Hs eq_refl). rewrite Z.mod_small by lia.
    destruct (len <=? i) eqn:E2; split; try lia; try discriminate. intros H; exfalso; apply H; reflexivity.
Qed.

(* ---------- flags ---------- *)
Lemma base_flags_always : forall gcc c,
  has_flag F_fwrapv (cflags_of gcc c) = true /\ has_flag F_fno_strict_aliasing (cflags_of gcc c) = true.
Proof. intros [] []; vm_compute; split; reflexivity. Qed.
Lemma release_config : nochecks_of CRelease = true /\
  forall gcc, has_flag F_O2 (cflags_of gcc CRelease) = true /\ has_flag F_DNDEBUG (cflags_of gcc CRelease) = true.
Proof. split; [reflexivity|]. intros []; vm_compute; split; reflexivity. Qed.
Lemma base_mode_wrapv : m_wrapv base_mode = true.
Proof. reflexivity. Qed.
(* every entry of compilers_flags deriving from gcc passes -fwrapv in its effective base flags (scraped; an override
   of cflags_base in one entry - clang's, hence zig cc's - makes this false and with it base_mode_wrapv) *)
Lemma gcc_derived_entries_wrap : forallb (fun b => b) gcc_derived_base_has_fwrapv = true /\ m_wrapv base_mode = true.
Proof. split; reflexivity. Qed.
(* the remaining entry a C compiler can be selected through: a GNU C compiler named `cc` (--cc cc, CC=cc) wraps too.
   compilers_flags.cc has cflags_base = "" but, since /repo b8b86ad, ccompiler.get_compiler_cflags gives the generic
   entry gcc's base flags when the compiler identifies itself as GNU C or clang (scraped: generic_cc_gets_gnu_base;
   a revert makes this false: before, `nelua --cc cc --verbose` showed no -fwrapv and `x + 1 > x` on an int32 holding
   2147483647 was true) *)
Definition generic_cc_wraps_full : Prop := generic_cc_wraps = true.
Lemma generic_cc_wraps_ok : generic_cc_wraps_full.
Proof. reflexivity. Qed.
(* for every value of the three scraped facts: the generic entry wraps iff it has the flag itself or gets gcc's
   base flags and those have it *)
Lemma generic_cc_wraps_needed : generic_cc_base_has_fwrapv = false ->
  (generic_cc_wraps = true <-> generic_cc_gets_gnu_base = true /\ gcc_base_has_fwrapv = true).
Proof. unfold generic_cc_wraps. intros ->. cbn [orb]. split; [apply andb_prop|intros [-> ->]; reflexivity]. Qed.

(* plain + - * and unary - never execute UB in the dialect the base flags select ... *)
Lemma arith_result_base t r : arith_result base_mode t r <> None.
Proof. unfold arith_result. rewrite base_mode_wrapv. destruct (isigned t); [destruct (in_ityb t r)|]; discriminate. Qed.
Lemma ret_not_ub t e : e <> None -> ret t e <> OUB.
Proof. destruct e; [discriminate|congruence]. Qed.
Lemma plain_ops_defined t a b :
  op_add base_mode t a b <> OUB /\ op_sub base_mode t a b <> OUB /\ op_mul base_mode t a b <> OUB /\
  op_unm base_mode t a <> OUB.
Proof. repeat split; apply ret_not_ub, arith_result_base. Qed.
(* ... and they would without -fwrapv *)
Lemma plain_add_needs_fwrapv : op_add ISO I64 maxint 1 = OUB /\ op_mul ISO I32 65536 65536 = OUB /\ op_unm ISO I64 minint = OUB.
Proof. vm_compute. repeat split; reflexivity. Qed.

(* ---------- dead code elimination ---------- *)
Inductive reach (g : graph) : nat -> Prop :=
  | reach_root s : root g s = true -> reach g s
  | reach_step s u : In u (usedby g s) -> reach g u -> reach g s.

Lemma memb_In x l : memb x l = true <-> In x l.
Proof.
  unfold memb. rewrite existsb_exists. split.
  - intros (y & Hy & E). apply Nat.eqb_eq in E. subst. exact Hy.
  - intros H. exists x. split; [exact H|apply Nat.eqb_refl].
Qed.

(* the inner loop of is_used, as a named function *)
Fixpoint loop (f : nat) (g : graph) (l : list nat) (visited : list nat) : option (bool * list nat) :=
  match l with
  | [] => Some (false, visited)
  | u :: r =>
    if memb u visited then loop f g r visited
    else match is_used f g visited u with
         | None => None
         | Some (true, v') => Some (true, v')
         | Some (false, v') => loop f g r v'
         end
  end.

Lemma is_used_unfold f g visited s :
  is_used (S f) g visited s =
  if root g s then Some (true, visited) else loop f g (usedby g s) (s :: visited).
Proof.
  cbn [is_used]. destruct (root g s); [reflexivity|].
  generalize (s :: visited). induction (usedby g s) as [|u r IH]; intros v; [reflexivity|].
  cbn [loop]. destruct (memb u v); [apply IH|].
  destruct (is_used f g v u) as [[[] v']|]; try reflexivity. apply IH.
Qed.

(* soundness: a positive answer is witnessed by a path to a root *)
Lemma is_used_sound g : forall fuel visited s v', is_used fuel g visited s = Some (true, v') -> reach g s.
Proof.
  induction fuel as [|f IH]; intros visited s v' H; [discriminate|].
  rewrite is_used_unfold in H. destruct (root g s) eqn:R; [apply reach_root; exact R|].
  assert (L : forall l vis, (forall u, In u l -> In u (usedby g s)) -> loop f g l vis = Some (true, v') -> reach g s).
  { induction l as [|u r IHl]; intros vis Hsub Hl; [discriminate|].
    cbn [loop] in Hl. destruct (memb u vis).
    - apply (IHl vis); auto. intros; apply Hsub; right; auto.
    - destruct (is_used f g vis u) as [[[] v1]|] eqn:E; try discriminate.
      + apply (reach_step g s u); [apply Hsub; left; reflexivity|]. eapply IH; exact E.
      + apply (IHl v1); auto. intros; apply Hsub; right; auto. }
  apply (L _ _ (fun u H => H) H).
Qed.

(* completeness: invariant of a negative answer *)
Definition closed_new (g : graph) (V V' : list nat) : Prop :=
  (forall x, In x V -> In x V') /\
  (forall n, In n V' -> ~ In n V -> root g n = false /\ forall u, In u (usedby g n) -> In u V').

Lemma closed_new_trans g V1 V2 V3 : closed_new g V1 V2 -> closed_new g V2 V3 -> closed_new g V1 V3.
Proof.
  intros (S1 & C1) (S2 & C2). split; [auto|].
  intros n Hn Hnot. destruct (in_dec Nat.eq_dec n V2) as [H2|H2].
  - destruct (C1 n H2 Hnot) as (R & U). split; [exact R|]. intros u Hu. apply S2, U, Hu.
  - apply C2; auto.
Qed.

Lemma is_used_complete g : forall fuel visited s v',
  is_used fuel g visited s = Some (false, v') -> closed_new g visited v' /\ In s v'.
Proof.
  induction fuel as [|f IH]; intros visited s v' H; [discriminate|].
  rewrite is_used_unfold in H. destruct (root g s) eqn:R; [discriminate|].
  (* loop invariant *)
  assert (L : forall l vis vout, loop f g l vis = Some (false, vout) ->
              closed_new g vis vout /\ forall u, In u l -> In u vout).
  { induction l as [|u r IHl]; intros vis vout Hl.
    - cbn in Hl. inversion Hl; subst. split; [split; [auto|intros n Hn Hnot; contradiction]|intros u []].
    - cbn [loop] in Hl. destruct (memb u vis) eqn:M.
      + destruct (IHl _ _ Hl) as (C & A). split; [exact C|].
        intros x [<-|Hx]; [apply (proj1 C), memb_In, M|apply A, Hx].
      + destruct (is_used f g vis u) as [[[] v1]|] eqn:E; try discriminate.
        destruct (IH _ _ _ E) as (C1 & Hu). destruct (IHl _ _ Hl) as (C2 & A).
        split; [eapply closed_new_trans; eauto|].
        intros x [<-|Hx]; [apply (proj1 C2), Hu|apply A, Hx]. }
  destruct (L _ _ _ H) as ((Sub & Cl) & All).
  split; [|apply Sub; left; reflexivity].
  split; [intros x Hx; apply Sub; right; exact Hx|].
  intros n Hn Hnot. destruct (Nat.eq_dec n s) as [->|Hne].
  - split; [exact R|exact All].
  - apply Cl; [exact Hn|]. intros [E|Hv]; [apply Hne; symmetry; exact E|apply Hnot, Hv].
Qed.

Lemma closed_no_reach g V : (forall n, In n V -> root g n = false /\ forall u, In u (usedby g n) -> In u V) ->
  forall s, reach g s -> ~ In s V.
Proof.
  intros C s Hr. induction Hr as [s R|s u Hu Hr IH]; intros Hs.
  - destruct (C s Hs) as (R' & _). congruence.
  - destruct (C s Hs) as (_ & U). apply IH, U, Hu.
Qed.

Lemma is_used_false_unreachable g fuel s v' : is_used fuel g [] s = Some (false, v') -> ~ reach g s.
Proof.
  intros H Hr. destruct (is_used_complete g _ _ _ _ H) as ((_ & C) & Hs).
  apply (closed_no_reach g v') in Hr; [apply Hr, Hs|].
  intros n Hn. apply C; [exact Hn|intros []].
Qed.

Lemma is_used_iff g fuel s b v' : is_used fuel g [] s = Some (b, v') -> (b = true <-> reach g s).
Proof.
  intros H. destruct b.
  - split; [intros _; eapply is_used_sound; exact H|reflexivity].
  - split; [discriminate|]. intros Hr. exfalso. eapply is_used_false_unreachable; eauto.
Qed.

(* every definition referenced from an emitted definition is itself emitted *)
Lemma dce_sound g fuel1 fuel2 f d b1 b2 v1 v2 :
  In f (usedby g d) ->
  is_used fuel1 g [] f = Some (b1, v1) -> is_used fuel2 g [] d = Some (b2, v2) ->
  b1 = true -> b2 = true.
Proof.
  intros Hu H1 H2 ->. apply (is_used_iff _ _ _ _ _ H2).
  apply (reach_step g d f Hu). apply (is_used_iff _ _ _ _ _ H1). reflexivity.
Qed.

(* and a definition marked on the root scope (or exported, entry point, volatile, nodce) is kept *)
Lemma dce_keeps_roots g fuel s : root g s = true -> is_used (S fuel) g [] s = Some (true, []).
Proof. intros R. rewrite is_used_unfold, R. reflexivity. Qed.

(* ---------- the initializer of an eliminated variable ---------- *)
Lemma dead_init_atoms : dead_init_cond_atoms = [1%nat; 2%nat; 3%nat; 4%nat].
Proof. reflexivity. Qed.

Lemma init_always_evaluated nodce used i : needs_eval i = true -> init_evaluated nodce used i = true.
Proof.
  unfold needs_eval, init_evaluated, dead_init_emitted. rewrite dead_init_atoms. intros H.
  apply andb_prop in H. destruct H as (H & H3). apply andb_prop in H. destruct H as (H1 & H2).
  destruct (nodce || used); [reflexivity|]. destruct (ii_lastcall i) eqn:E; [reflexivity|].
  cbn [forallb atom_holds]. rewrite H1, H2, H3, E. reflexivity.
Qed.

(* tripwire: the scraped condition does not look at the analyzer's `sideeffect` attribute (an added conjunct
   5 = valnode.attr.sideeffect makes this false: field access, indexing and dereference do not propagate it) *)
Lemma dead_init_any_attr se : dead_init_emitted (info_rt se) = true.
Proof. unfold dead_init_emitted. rewrite dead_init_atoms. reflexivity. Qed.
Example attr_condition_drops_call :
  forallb (fun a => atom_holds a (info_rt false)) [1%nat; 2%nat; 5%nat; 3%nat; 4%nat] = false.
Proof. reflexivity. Qed.

Example ex_is_used : is_used 10 (graph_of [0%nat] [(1%nat, [0%nat]); (2%nat, [1%nat; 3%nat]); (3%nat, [2%nat])]) [] 3 = Some (true, [1%nat; 2%nat; 3%nat]).
Proof. reflexivity. Qed.
Example ex_is_used_dead : is_used 10 (graph_of [0%nat] [(2%nat, [3%nat]); (3%nat, [2%nat])]) [] 3 = Some (false, [2%nat; 3%nat]).
Proof. reflexivity. Qed.
