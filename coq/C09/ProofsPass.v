(* C09: a check that passes leaves the same VALUE in both build modes (not merely "the same outcome", which
   two undefined executions would satisfy as well); the order of the effects of a declaration; the order of
   unsequenced operands. *)
From C09 Require Import Model Proofs ProofsBase ProofsDiv.
Local Open Scope Z_scope.

Definition same_value (c u : outcome) : Prop := exists v, c = ORet v /\ u = ORet v.

Lemma pass_same (c u : outcome) : c <> OUB -> (c <> OPanic -> c = u) -> c <> OPanic -> same_value c u.
Proof.
  intros Hub He Hp. specialize (He Hp). destruct c as [| |v]; [contradiction|contradiction|].
  exists v. split; [reflexivity|symmetry; exact He].
Qed.

(* a passing checked division has b <> 0 *)
Lemma idiv_pass_nonzero m t a b : idiv_helper m t true a b <> OPanic -> m_wrapv m = true -> In t signed_types ->
  in_ity t a -> in_ity t b -> idiv_helper m t true a b <> OUB.
Proof.
  intros _ Hm Ht Ha Hb. unfold idiv_helper, emitted_idiv_helper. change idiv_guard_first with true. cbn [orb].
  apply h_idiv_no_ub; auto.
Qed.
Lemma imod_pass_nonzero m t a b : imod_helper m t true a b <> OPanic -> m_wrapv m = true -> In t signed_types ->
  in_ity t a -> in_ity t b -> imod_helper m t true a b <> OUB.
Proof.
  intros _ Hm Ht Ha Hb. unfold imod_helper, emitted_imod_helper. change imod_guard_first with true. cbn [orb].
  apply h_imod_no_ub; auto.
Qed.

Lemma idiv_pass_same t a b : In t signed_types -> in_ity t a -> in_ity t b ->
  idiv_helper base_mode t true a b <> OPanic -> same_value (idiv_helper base_mode t true a b) (idiv_helper base_mode t false a b).
Proof.
  intros Ht Ha Hb Hp. apply pass_same; [|apply idiv_helper_checked_eq|exact Hp].
  apply idiv_pass_nonzero; auto.
Qed.
Lemma imod_pass_same t a b : In t signed_types -> in_ity t a -> in_ity t b ->
  imod_helper base_mode t true a b <> OPanic -> same_value (imod_helper base_mode t true a b) (imod_helper base_mode t false a b).
Proof.
  intros Ht Ha Hb Hp. apply pass_same; [|apply imod_helper_checked_eq|exact Hp].
  apply imod_pass_nonzero; auto.
Qed.

Lemma bounds_pass_same it i len : h_bounds it true i len <> OPanic -> same_value (h_bounds it true i len) (h_bounds it false i len).
Proof. intro Hp. apply pass_same; [|apply bounds_checked_eq|exact Hp]. unfold h_bounds. destruct (_ && _); discriminate. Qed.
Lemma deref_pass_same p : h_deref true p <> OPanic -> same_value (h_deref true p) (h_deref false p).
Proof. intro Hp. apply pass_same; [|apply deref_checked_eq|exact Hp]. unfold h_deref. destruct (_ && _); discriminate. Qed.
Lemma check_pass_same c : h_check true c <> OPanic -> same_value (h_check true c) (h_check false c).
Proof. intro Hp. apply pass_same; [|apply check_checked_eq|exact Hp]. unfold h_check. destruct (_ && _); discriminate. Qed.
Lemma narrow_int_pass_same st dt x : h_narrow_int st dt true x <> OPanic -> same_value (h_narrow_int st dt true x) (h_narrow_int st dt false x).
Proof. intro Hp. apply pass_same; [|apply narrow_int_checked_eq|exact Hp]. unfold h_narrow_int. destruct (_ && _); discriminate. Qed.

Lemma checks_pass_same :
  (forall t a b, In t signed_types -> in_ity t a -> in_ity t b ->
     (idiv_helper base_mode t true a b <> OPanic -> same_value (idiv_helper base_mode t true a b) (idiv_helper base_mode t false a b)) /\
     (imod_helper base_mode t true a b <> OPanic -> same_value (imod_helper base_mode t true a b) (imod_helper base_mode t false a b))) /\
  (forall it i len, h_bounds it true i len <> OPanic -> same_value (h_bounds it true i len) (h_bounds it false i len)) /\
  (forall p, h_deref true p <> OPanic -> same_value (h_deref true p) (h_deref false p)) /\
  (forall st dt x, h_narrow_int st dt true x <> OPanic -> same_value (h_narrow_int st dt true x) (h_narrow_int st dt false x)) /\
  (forall c, h_check true c <> OPanic -> same_value (h_check true c) (h_check false c)).
Proof.
  repeat split; intros.
  - apply idiv_pass_same; auto.
  - apply imod_pass_same; auto.
  - apply bounds_pass_same; auto.
  - apply deref_pass_same; auto.
  - apply narrow_int_pass_same; auto.
  - apply check_pass_same; auto.
Qed.
(* not vacuous: a passing division and a failing one *)
Example ex_idiv_pass : idiv_helper base_mode I64 true 7 (-2) = ORet (-4) /\ idiv_helper base_mode I64 false 7 (-2) = ORet (-4).
Proof. vm_compute. split; reflexivity. Qed.
Example ex_idiv_stop : idiv_helper base_mode I64 true 7 0 = OPanic.
Proof. reflexivity. Qed.

(* float -> integer narrowing: the emitted helper casts first and tests afterwards (cbuiltins.lua
   nelua_assert_narrow for floats: `if((D)(x) != x) panic`), so for a float whose integral part is outside the
   target type BOTH variants are undefined: the check does not stop the program and no value is guaranteed *)
Definition narrow_f2i_pass_same_full : Prop :=
  forall dt f, h_narrow_f2i dt true f <> OPanic -> same_value (h_narrow_f2i dt true f) (h_narrow_f2i dt false f).
(* 2^63 as a float narrowed to int64 *)
Lemma narrow_f2i_pass_same_refuted : ~ narrow_f2i_pass_same_full.
Proof.
  intro F. specialize (F I64 (FFin 1 63)). vm_compute in F.
  destruct F as (v & E & _); [discriminate|discriminate E].
Qed.
Lemma narrow_f2i_pass_same_partial dt f : c_f2i dt f <> None ->
  h_narrow_f2i dt true f <> OPanic -> same_value (h_narrow_f2i dt true f) (h_narrow_f2i dt false f).
Proof.
  intros Hr Hp. apply pass_same; [|apply narrow_f2i_checked_eq|exact Hp].
  unfold h_narrow_f2i. destruct (c_f2i dt f) as [[? v]|]; [|contradiction]. destruct (_ && _); discriminate.
Qed.
Example ex_narrow_f2i_pass : h_narrow_f2i I8 true (FFin 5 2) = ORet 20 /\ h_narrow_f2i I8 true (FFin 5 (-1)) = OPanic.
Proof. vm_compute. split; reflexivity. Qed.

(* ---------- order of the effects of `local v1, .., vn = e1, .., em` (VarDecl.v) ---------- *)
(* since /repo d685d37 the initializer of a dropped variable goes to defemitter (scraped): dead code elimination no
   longer changes the order *)
Lemma vardecl_order_dce : vardecl_order_dce_full vardecl_policy.
Proof. apply vd_dce_iff. reflexivity. Qed.
(* the former witness, local a, b = f(), g() with b never read: f first in both modes *)
Example vardecl_witness : vd_effects vardecl_policy false wit_dead_later = [1%nat; 2%nat] /\
                          vd_effects vardecl_policy true wit_dead_later = [1%nat; 2%nat].
Proof. split; reflexivity. Qed.

(* ---------- unsequenced operands: the result may depend on the C compiler (Order.v, copy of coq/C01) ---------- *)
Definition compiler_independent_full (pol : se_policy) : Prop :=
  forall fe e st o1 o2, nelua_run pol fe e st o1 = nelua_run pol fe e st o2.
(* x + f() with f assigning the global x := 10 and returning 100: 101 or 110, whatever the analyzer's sideeffect
   rules are (the left operand is a plain variable: the operator is emitted unsequenced) *)
Definition fe_x : fenv := fun f =>
  match f with 1%nat => mk_fdef true [mk_w true 0 10 false] None 100 | _ => mk_fdef false [] None 0 end.
Definition e_x_plus_f : expr := EBin AAdd (EVar VGlobal 0) (ECall 1 []).
Lemma compiler_independent_refuted : forall pol, ~ compiler_independent_full pol.
Proof. intros [[] []] F; specialize (F fe_x e_x_plus_f ([1], []) [0%nat] [1%nat]); vm_compute in F; discriminate F. Qed.
Example ex_x_plus_f : forall pol, snd (nelua_run pol fe_x e_x_plus_f ([1], []) [0%nat]) = 101 /\ snd (nelua_run pol fe_x e_x_plus_f ([1], []) [1%nat]) = 110.
Proof. intros [[] []]; vm_compute; split; reflexivity. Qed.
