(* C09 - executable models.
   Part 1  checked / unchecked variants of the run-time helpers selected by pragmas.nochecks
           (Helpers.v, shared with C01/C03) plus the bounds / deref / narrowing checks.
   Part 2  dead code elimination: Symbol:is_used (symbol.lua) over the usedby graph and the emission
           condition of cgenerator.visitors.FuncDef / VarDecl (nodce or is_used).
   Part 3  build configuration: flags per configuration from the scraped cdefs.lua tables,
           release => nochecks from configer.lua.
   No proofs here. *)
From C09 Require Export Gen Helpers VarDecl Order.
Local Open Scope Z_scope.

(* ------------------------------------------------------------------ *)
(* Part 1: checks                                                      *)
(* ------------------------------------------------------------------ *)

(* the C dialect the emitted code is compiled in by both supported compilers, from the scraped base flags *)
(* -fwrapv in the effective base flags of every entry of cdefs.compilers_flags that derives from gcc (the family is
   computed from the inheritance chain by the scraper: Gen.gcc_derived_base_has_fwrapv) *)
Definition base_mode : cmode :=
  mk_mode (gcc_base_has_fwrapv && clang_base_has_fwrapv && forallb (fun b => b) gcc_derived_base_has_fwrapv) false.
(* the generic entry `cc` is NOT part of base_mode: does a GNU C compiler selected through it get -fwrapv? *)
Definition generic_cc_wraps : bool :=
  generic_cc_base_has_fwrapv || (generic_cc_gets_gnu_base && gcc_base_has_fwrapv).

(* the division helpers exactly as emitted: the position of the `b == -1` line comes from Gen.v *)
Definition idiv_helper := emitted_idiv_helper idiv_guard_first.
Definition imod_helper := emitted_imod_helper imod_guard_first.

(* nelua_assert_bounds_<T>(index, len):
     if((usize)index >= len || index < 0) panic;  return index;        unchecked: bare index *)
Definition h_bounds (it : ity) (checked : bool) (index len : Z) : outcome :=
  if checked && ((len <=? cwrap U64 index) || (isigned it && (index <? 0))) then OPanic else ORet index.

(* nelua_assert_deref(p): if(p == NULL) panic; return p;               unchecked: bare pointer *)
Definition h_deref (checked : bool) (p : Z) : outcome :=
  if checked && (p =? 0) then OPanic else ORet p.

(* integer narrowing, cbuiltins.nelua_assert_narrow_ vs plain cast *)
Definition narrow_fails (st dt : ity) (x : Z) : bool :=
  if isigned st && negb (isigned dt) then (x <? 0) || ((imax dt <? imax st) && (imax dt <? x))
  else if negb (isigned st) && isigned dt then imax dt <? x
  else (imax dt <? x) || (isigned st && (x <? imin dt)).
Definition h_narrow_int (st dt : ity) (checked : bool) (x : Z) : outcome :=
  if checked && narrow_fails st dt x then OPanic else ORet (cwrap dt x).

(* float -> integer narrowing: if((D)(x) != x) panic; return (D)x;     unchecked: (D)x *)
Definition h_narrow_f2i (dt : ity) (checked : bool) (x : fl) : outcome :=
  match c_f2i dt x with
  | None => OUB
  | Some (_, v) => if checked && negb (exact_eq_if (rne53 v) x) then OPanic else ORet v
  end.

(* library check(cond, msg): `if not cond then panic` unless nochecks (builtins `check`) *)
Definition h_check (checked : bool) (cond : bool) : outcome :=
  if checked && negb cond then OPanic else ORet 0.

(* ------------------------------------------------------------------ *)
(* Part 2: dead code elimination                                       *)
(* ------------------------------------------------------------------ *)

(* a symbol graph: [root s] = the symbol is marked used on the root scope or carries one of
   cexport / entrypoint / volatile / nodce / ctopinit; [usedby s] = the function symbols whose
   bodies reference s (Symbol:add_use_by) *)
Record graph := mk_graph { root : nat -> bool; usedby : nat -> list nat }.

Definition memb (x : nat) (l : list nat) : bool := existsb (Nat.eqb x) l.

(* Symbol:is_used(cache, checkedsyms): depth-first search along usedby with the shared visited
   table; None = out of fuel *)
Fixpoint is_used (fuel : nat) (g : graph) (visited : list nat) (s : nat) : option (bool * list nat) :=
  match fuel with
  | O => None
  | S f =>
    if root g s then Some (true, visited)
    else
      (fix loop (l : list nat) (visited : list nat) : option (bool * list nat) :=
         match l with
         | [] => Some (false, visited)
         | u :: r =>
           if memb u visited then loop r visited
           else match is_used f g visited u with
                | None => None
                | Some (true, v') => Some (true, v')
                | Some (false, v') => loop r v'
                end
         end) (usedby g s) (s :: visited)
  end.

(* cgenerator.visitors.FuncDef / VarDecl: emitted unless dead.  That FuncDef returns early exactly when
   `not nodce and not is_used(true)` is scraped (Gen.funcdef_dce_condition_found); if the condition is not
   found the model does not know what is emitted (None) and the theorems about [emitted] break *)
Definition emitted (fuel : nat) (g : graph) (nodce : bool) (s : nat) : option bool :=
  if negb funcdef_dce_condition_found then None
  else if nodce then Some true
  else match is_used fuel g [] s with Some (b, _) => Some b | None => None end.

(* ---- the initializer of a declaration `local x = e` (cgenerator.visitors.VarDecl) ----
   what the generator knows about it *)
Record initinfo := mk_ii {
  ii_vartype_comptime : bool;     (* the variable has a compile-time type *)
  ii_has_val : bool;              (* there is an initializer *)
  ii_val_comptime : bool;         (* the initializer is a compile-time constant *)
  ii_lastcall : bool;             (* the value comes out of a trailing multiple-return call *)
  ii_se_attr : bool }.            (* the analyzer's `sideeffect` attribute of the initializer node *)

(* one conjunct of the scraped condition (numbering: Gen.v); an unknown conjunct is taken to fail *)
Definition atom_holds (a : nat) (i : initinfo) : bool :=
  match a with
  | 1%nat => negb (ii_vartype_comptime i)
  | 2%nat => ii_has_val i
  | 3%nat => negb (ii_val_comptime i)
  | 4%nat => negb (ii_lastcall i)
  | 5%nat => ii_se_attr i
  | _ => false
  end.
(* the branch that re-emits the initializer of a variable dropped by dead code elimination, as scraped *)
Definition dead_init_emitted (i : initinfo) : bool := forallb (fun a => atom_holds a i) dead_init_cond_atoms.

(* is the initializer evaluated at run time?  kept variable: it initialises the variable; trailing
   multiple-return call: the `_asgnret` statement is emitted before the branch; otherwise the scraped branch *)
Definition init_evaluated (nodce used : bool) (i : initinfo) : bool :=
  if nodce || used then true else if ii_lastcall i then true else dead_init_emitted i.
(* it has to be, unless there is nothing to evaluate at run time *)
Definition needs_eval (i : initinfo) : bool :=
  ii_has_val i && negb (ii_val_comptime i) && negb (ii_vartype_comptime i).

(* a declaration with a run-time initializer whose variable has a run-time type, the analyzer's `sideeffect`
   attribute being whatever it is *)
Definition info_rt (se : bool) : initinfo := mk_ii false true false false se.

(* graphs given by association lists (driver) *)
Definition graph_of (roots : list nat) (edges : list (nat * list nat)) : graph :=
  mk_graph (fun s => memb s roots)
           (fun s => match find (fun e => Nat.eqb (fst e) s) edges with Some e => snd e | None => [] end).

(* ------------------------------------------------------------------ *)
(* Part 3: configurations                                              *)
(* ------------------------------------------------------------------ *)

Inductive config := CDefault | CRelease | CNochecks | CNodce.

(* configer.lua: release (or maximum_performance) sets pragmas.nochecks *)
Definition nochecks_of (c : config) : bool :=
  match c with CRelease => release_implies_nochecks | CNochecks => true | _ => false end.
Definition nodce_of (c : config) : bool := match c with CNodce => true | _ => false end.

(* ccompiler.get_compiler_cflags: base flags always, then the release or the devel flags *)
Definition cflags_of (gcc : bool) (c : config) : list nat :=
  (if gcc then gcc_cflags_base else clang_cflags_base) ++
  match c with
  | CRelease => if gcc then gcc_cflags_release else clang_cflags_release
  | _ => if gcc then gcc_cflags_devel else clang_cflags_devel
  end.

Definition has_flag (f : nat) (l : list nat) : bool := existsb (Nat.eqb f) l.
