(* Property C09: build modes and optimisation never change the meaning of a check-free program.
   Only the property theorems, each closed by [exact] and followed by Print Assumptions. *)
From C09 Require Import Model Proofs ProofsFuel.
Local Open Scope Z_scope.

(* ---- checked helper = unchecked helper whenever the checked one does not stop the program ---- *)
(* idiv_helper / imod_helper = the helper bodies with the `b == -1` line where cbuiltins.lua emits it
   (scraped into Gen.v): if the guard is moved into the checked branch these proofs break *)
Theorem C09_idiv_checked_eq_unchecked : forall m t a b,
  idiv_helper m t true a b <> OPanic -> idiv_helper m t true a b = idiv_helper m t false a b.
Proof. exact idiv_helper_checked_eq. Qed.
Print Assumptions C09_idiv_checked_eq_unchecked.

Theorem C09_imod_checked_eq_unchecked : forall m t a b,
  imod_helper m t true a b <> OPanic -> imod_helper m t true a b = imod_helper m t false a b.
Proof. exact imod_helper_checked_eq. Qed.
Print Assumptions C09_imod_checked_eq_unchecked.

(* the b == -1 path explicitly: every variant returns the wrapped quotient / 0 at MIN, -1 *)
Theorem C09_unchecked_min_neg1 : forall t, In t signed_types ->
  idiv_helper base_mode t false (imin t) (-1) = ORet (imin t) /\ imod_helper base_mode t false (imin t) (-1) = ORet 0 /\
  idiv_helper base_mode t true (imin t) (-1) = ORet (imin t) /\ imod_helper base_mode t true (imin t) (-1) = ORet 0.
Proof. exact unchecked_min_neg1. Qed.
Print Assumptions C09_unchecked_min_neg1.

Theorem C09_narrow_checked_eq_unchecked : forall st dt x f,
  (h_narrow_int st dt true x <> OPanic -> h_narrow_int st dt true x = h_narrow_int st dt false x) /\
  (h_narrow_f2i dt true f <> OPanic -> h_narrow_f2i dt true f = h_narrow_f2i dt false f).
Proof. intros. split; [apply narrow_int_checked_eq|apply narrow_f2i_checked_eq]. Qed.
Print Assumptions C09_narrow_checked_eq_unchecked.

Theorem C09_bounds_deref_check_eq_unchecked : forall it i len p c,
  (h_bounds it true i len <> OPanic -> h_bounds it true i len = h_bounds it false i len) /\
  (h_deref true p <> OPanic -> h_deref true p = h_deref false p) /\
  (h_check true c <> OPanic -> h_check true c = h_check false c).
Proof. intros. repeat split; [apply bounds_checked_eq|apply deref_checked_eq|apply check_checked_eq]. Qed.
Print Assumptions C09_bounds_deref_check_eq_unchecked.

(* a passing bounds check means the unchecked access is in bounds *)
Theorem C09_bounds_pass_iff_in_bounds : forall it i len, in_ity it i -> ity_ok it -> 0 <= len < two64 ->
  (h_bounds it true i len <> OPanic <-> 0 <= i < len).
Proof. exact bounds_pass_iff. Qed.
Print Assumptions C09_bounds_pass_iff_in_bounds.

(* ---- dead code elimination ---- *)
Theorem C09_is_used_is_reachability : forall g fuel s b v',
  is_used fuel g [] s = Some (b, v') -> (b = true <-> reach g s).
Proof. exact is_used_iff. Qed.
Print Assumptions C09_is_used_is_reachability.

(* the out-of-fuel answer is unreachable: over any finite set of symbols closed under usedby, fuel equal to
   its size suffices (so the theorems above never speak about an empty case) *)
Theorem C09_is_used_fuel_adequate : forall g U s fuel,
  (forall n, In n U -> forall u, In u (usedby g n) -> In u U) -> In s U -> (length U <= fuel)%nat ->
  exists b v, is_used fuel g [] s = Some (b, v).
Proof. exact is_used_fuel_adequate. Qed.
Print Assumptions C09_is_used_fuel_adequate.

Theorem C09_dce_sound : forall g fuel1 fuel2 f d b1 b2 v1 v2,
  In f (usedby g d) ->
  is_used fuel1 g [] f = Some (b1, v1) -> is_used fuel2 g [] d = Some (b2, v2) ->
  b1 = true -> b2 = true.
Proof. exact dce_sound. Qed.
Print Assumptions C09_dce_sound.

Theorem C09_dce_keeps_roots : forall g fuel s, root g s = true -> is_used (S fuel) g [] s = Some (true, []).
Proof. exact dce_keeps_roots. Qed.
Print Assumptions C09_dce_keeps_roots.

(* the initializer of a declared variable is evaluated in every build mode, used or not, whenever there is
   something to evaluate at run time: dead code elimination drops the variable, never its initializer.
   dead_init_emitted is the condition of visitors.VarDecl's branch for eliminated variables as scraped: an
   added conjunct (e.g. the analyzer's `sideeffect` attribute, which field access and indexing do not
   propagate) breaks these proofs *)
Theorem C09_unused_initializer_evaluated : forall nodce used i, needs_eval i = true -> init_evaluated nodce used i = true.
Proof. exact init_always_evaluated. Qed.
Print Assumptions C09_unused_initializer_evaluated.

Theorem C09_dead_initializer_kept_whatever_shape : forall e, dead_init_emitted (info_of e) = true.
Proof. exact dead_init_any_shape. Qed.
Print Assumptions C09_dead_initializer_kept_whatever_shape.

Theorem C09_sideeffect_attr_incomplete : exists e, effectful e = true /\ attr_se e = false.
Proof. exact se_attr_incomplete. Qed.
Print Assumptions C09_sideeffect_attr_incomplete.

(* ---- configurations (facts about the scraped tables) ---- *)
Theorem C09_base_flags_always : forall gcc c,
  has_flag F_fwrapv (cflags_of gcc c) = true /\ has_flag F_fno_strict_aliasing (cflags_of gcc c) = true.
Proof. exact base_flags_always. Qed.
Print Assumptions C09_base_flags_always.

Theorem C09_release_config : nochecks_of CRelease = true /\
  forall gcc, has_flag F_O2 (cflags_of gcc CRelease) = true /\ has_flag F_DNDEBUG (cflags_of gcc CRelease) = true.
Proof. exact release_config. Qed.
Print Assumptions C09_release_config.

(* the plain operators are UB-free in the dialect the base flags select; they are not without -fwrapv *)
Theorem C09_plain_ops_defined_with_base_flags : forall t a b,
  op_add base_mode t a b <> OUB /\ op_sub base_mode t a b <> OUB /\ op_mul base_mode t a b <> OUB /\
  op_unm base_mode t a <> OUB.
Proof. exact plain_ops_defined. Qed.
Print Assumptions C09_plain_ops_defined_with_base_flags.

Theorem C09_fwrapv_needed :
  op_add ISO I64 maxint 1 = OUB /\ op_mul ISO I32 65536 65536 = OUB /\ op_unm ISO I64 minint = OUB.
Proof. exact plain_add_needs_fwrapv. Qed.
Print Assumptions C09_fwrapv_needed.
