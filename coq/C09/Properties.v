(* Property C09: build modes and optimisation never change the meaning of a check-free program.
   Only the property theorems, each closed by [exact] and followed by Print Assumptions. *)
From C09 Require Import Model Proofs ProofsFuel ProofsPass.
From Coq Require Import Permutation.
Local Open Scope Z_scope.

(* ---- checked helper = unchecked helper whenever the checked one does not stop the program ---- *)
(* idiv_helper / imod_helper = the helper bodies with the `b == -1` line where cbuiltins.lua emits it
   (scraped into Gen.v): if the guard is moved into the checked branch these proofs break *)
Theorem C09_idiv_checked_eq_unchecked : forall m t a b,
  idiv_helper m t true a b <> OPanic -> idiv_helper m t true a b = idiv_helper m t false a b.
Proof. exact idiv_helper_checked_eq. Qed.
Print Assumptions C09_idiv_checked_eq_unchecked.

Theorem C09_imod_checked_eq_unchecked : forall m t a b,
  imod_helper m t true a b <> OPanic -> imod_helper m t true a b = imod_helper m t false a b.
Proof. exact imod_helper_checked_eq. Qed.
Print Assumptions C09_imod_checked_eq_unchecked.

(* the b == -1 path explicitly: every variant returns the wrapped quotient / 0 at MIN, -1 *)
Theorem C09_unchecked_min_neg1 : forall t, In t signed_types ->
  idiv_helper base_mode t false (imin t) (-1) = ORet (imin t) /\ imod_helper base_mode t false (imin t) (-1) = ORet 0 /\
  idiv_helper base_mode t true (imin t) (-1) = ORet (imin t) /\ imod_helper base_mode t true (imin t) (-1) = ORet 0.
Proof. exact unchecked_min_neg1. Qed.
Print Assumptions C09_unchecked_min_neg1.

(* a check that passes leaves the same VALUE in both build modes, in the dialect the base flags select and for
   operands of the operand type (the `checked = unchecked` statements around it are also satisfied by two
   undefined executions; this one is not).  [same_value c u] = exists v, c = ORet v /\ u = ORet v. *)
Theorem C09_checks_pass_same_value :
  (forall t a b, In t signed_types -> in_ity t a -> in_ity t b ->
     (idiv_helper base_mode t true a b <> OPanic -> same_value (idiv_helper base_mode t true a b) (idiv_helper base_mode t false a b)) /\
     (imod_helper base_mode t true a b <> OPanic -> same_value (imod_helper base_mode t true a b) (imod_helper base_mode t false a b))) /\
  (forall it i len, h_bounds it true i len <> OPanic -> same_value (h_bounds it true i len) (h_bounds it false i len)) /\
  (forall p, h_deref true p <> OPanic -> same_value (h_deref true p) (h_deref false p)) /\
  (forall st dt x, h_narrow_int st dt true x <> OPanic -> same_value (h_narrow_int st dt true x) (h_narrow_int st dt false x)) /\
  (forall c, h_check true c <> OPanic -> same_value (h_check true c) (h_check false c)).
Proof. exact checks_pass_same. Qed.
Print Assumptions C09_checks_pass_same_value.

(* float -> integer narrowing is the exception: the helper casts before it tests, so a float outside the target
   type is undefined in both modes (known finding of C03, replayed there under UBSan) *)
Theorem C09_narrow_f2i_pass_same_refuted : ~ narrow_f2i_pass_same_full.
Proof. exact narrow_f2i_pass_same_refuted. Qed.
Print Assumptions C09_narrow_f2i_pass_same_refuted.

Theorem C09_narrow_f2i_pass_same_partial : forall dt f, c_f2i dt f <> None ->
  h_narrow_f2i dt true f <> OPanic -> same_value (h_narrow_f2i dt true f) (h_narrow_f2i dt false f).
Proof. exact narrow_f2i_pass_same_partial. Qed.
Print Assumptions C09_narrow_f2i_pass_same_partial.

Theorem C09_narrow_checked_eq_unchecked : forall st dt x f,
  (h_narrow_int st dt true x <> OPanic -> h_narrow_int st dt true x = h_narrow_int st dt false x) /\
  (h_narrow_f2i dt true f <> OPanic -> h_narrow_f2i dt true f = h_narrow_f2i dt false f).
Proof. exact (fun st dt x f => conj (narrow_int_checked_eq st dt x) (narrow_f2i_checked_eq dt f)). Qed.
Print Assumptions C09_narrow_checked_eq_unchecked.

Theorem C09_bounds_deref_check_eq_unchecked : forall it i len p c,
  (h_bounds it true i len <> OPanic -> h_bounds it true i len = h_bounds it false i len) /\
  (h_deref true p <> OPanic -> h_deref true p = h_deref false p) /\
  (h_check true c <> OPanic -> h_check true c = h_check false c).
Proof. exact (fun it i len p c => conj (bounds_checked_eq it i len) (conj (deref_checked_eq p) (check_checked_eq c))). Qed.
Print Assumptions C09_bounds_deref_check_eq_unchecked.

(* a passing bounds check means the unchecked access is in bounds *)
Theorem C09_bounds_pass_iff_in_bounds : forall it i len, in_ity it i -> ity_ok it -> 0 <= len < two64 ->
  (h_bounds it true i len <> OPanic <-> 0 <= i < len).
Proof. exact bounds_pass_iff. Qed.
Print Assumptions C09_bounds_pass_iff_in_bounds.

(* ---- dead code elimination ---- *)
Theorem C09_is_used_is_reachability : forall g fuel s b v',
  is_used fuel g [] s = Some (b, v') -> (b = true <-> reach g s).
Proof. exact is_used_iff. Qed.
Print Assumptions C09_is_used_is_reachability.

(* the out-of-fuel answer is unreachable: over any finite set of symbols closed under usedby, fuel equal to
   its size suffices (so the theorems above never speak about an empty case) *)
Theorem C09_is_used_fuel_adequate : forall g U s fuel,
  (forall n, In n U -> forall u, In u (usedby g n) -> In u U) -> In s U -> (length U <= fuel)%nat ->
  exists b v, is_used fuel g [] s = Some (b, v).
Proof. exact is_used_fuel_adequate. Qed.
Print Assumptions C09_is_used_fuel_adequate.

Theorem C09_dce_sound : forall g fuel1 fuel2 f d b1 b2 v1 v2,
  In f (usedby g d) ->
  is_used fuel1 g [] f = Some (b1, v1) -> is_used fuel2 g [] d = Some (b2, v2) ->
  b1 = true -> b2 = true.
Proof. exact dce_sound. Qed.
Print Assumptions C09_dce_sound.

Theorem C09_dce_keeps_roots : forall g fuel s, root g s = true -> is_used (S fuel) g [] s = Some (true, []).
Proof. exact dce_keeps_roots. Qed.
Print Assumptions C09_dce_keeps_roots.

(* what is emitted: with pragmas.nodce everything, otherwise exactly what is reachable from a root; the early
   `return` of visitors.FuncDef is scraped (Gen.funcdef_dce_condition_found), a changed condition breaks this *)
Theorem C09_emitted_iff_nodce_or_reachable : forall g U s fuel nodce,
  (forall n, In n U -> forall u, In u (usedby g n) -> In u U) -> In s U -> (length U <= fuel)%nat ->
  exists b, emitted fuel g nodce s = Some b /\ (b = true <-> nodce = true \/ reach g s).
Proof. exact emitted_iff_nodce_or_reachable. Qed.
Print Assumptions C09_emitted_iff_nodce_or_reachable.

(* the initializer of a declared variable is evaluated in every build mode, used or not, whenever there is
   something to evaluate at run time: dead code elimination drops the variable, never its initializer.
   dead_init_emitted is the condition of visitors.VarDecl's branch for eliminated variables as scraped: an
   added conjunct (e.g. the analyzer's `sideeffect` attribute, which field access and indexing do not
   propagate) breaks these proofs *)
Theorem C09_unused_initializer_evaluated : forall nodce used i, needs_eval i = true -> init_evaluated nodce used i = true.
Proof. exact init_always_evaluated. Qed.
Print Assumptions C09_unused_initializer_evaluated.

(* tripwire for the scraped condition: it does not consult the analyzer's `sideeffect` attribute *)
Theorem C09_dead_initializer_kept_whatever_attr : forall se, dead_init_emitted (info_rt se) = true.
Proof. exact dead_init_any_attr. Qed.
Print Assumptions C09_dead_initializer_kept_whatever_attr.

(* ---- the ORDER of the effects of `local v1, .., vn = e1, .., em` (VarDecl.v) ----
   full strength: dead code elimination does not change the order in which the initializers run, for every
   well-formed declaration.  True since /repo d685d37 (the initializer of a dropped variable is written to
   `defemitter` like the definitions of the kept ones; the placement is scraped into Gen.vardecl_policy).  Before,
   `local a, b = f(), g()` with b never read ran g first in the default build and f first with -P nodce; the
   witness (corpus/C09/witness/vardecl_order.nelua) is still replayed on every run and must agree. *)
Theorem C09_vardecl_order : vardecl_order_dce_full vardecl_policy.
Proof. exact vardecl_order_dce. Qed.
Print Assumptions C09_vardecl_order.

(* for every placement of the two kinds of statements: the order is independent of dead code elimination
   exactly when dropped initializers go to defemitter (the proposed repair) *)
Theorem C09_vardecl_order_iff_policy : forall pol, vardecl_order_dce_full pol <-> p_dead_in_def pol = true.
Proof. exact vd_dce_iff. Qed.
Print Assumptions C09_vardecl_order_iff_policy.

(* for every placement and every declaration (also the unrepaired one): no effect is lost or duplicated by either
   build mode (both orders are permutations of the source order), and a declaration with at most one effectful
   value runs it in the same place *)
Theorem C09_vardecl_effects_partial : forall pol l,
  Permutation (vd_effects pol false l) (vd_effects pol true l) /\
  ((length (src_effects l) <= 1)%nat -> vd_effects pol false l = vd_effects pol true l).
Proof.
  exact (fun pol l => conj (Permutation_trans (vd_effects_perm pol false l) (Permutation_sym (vd_effects_perm pol true l)))
                           (fun H => eq_trans (vd_effects_single pol false l H) (eq_sym (vd_effects_single pol true l H)))).
Qed.
Print Assumptions C09_vardecl_effects_partial.

(* ---- "either supported C compiler": operands of a plain C operator are unsequenced, so the result of
   x + f() with f assigning x depends on the compiler (known finding; the sequencing model is coq/C01/Order.v,
   the positive statement for expressions whose functions write nothing is C01_order_preserved_partial) ---- *)
Theorem C09_compiler_independent_refuted : forall pol, ~ compiler_independent_full pol.
Proof. exact compiler_independent_refuted. Qed.
Print Assumptions C09_compiler_independent_refuted.

(* ---- configurations (facts about the scraped tables) ---- *)
Theorem C09_base_flags_always : forall gcc c,
  has_flag F_fwrapv (cflags_of gcc c) = true /\ has_flag F_fno_strict_aliasing (cflags_of gcc c) = true.
Proof. exact base_flags_always. Qed.
Print Assumptions C09_base_flags_always.

Theorem C09_release_config : nochecks_of CRelease = true /\
  forall gcc, has_flag F_O2 (cflags_of gcc CRelease) = true /\ has_flag F_DNDEBUG (cflags_of gcc CRelease) = true.
Proof. exact release_config. Qed.
Print Assumptions C09_release_config.

(* -fwrapv reaches every entry of cdefs.compilers_flags that derives from gcc (gcc, emcc, clang, g++, clang++, zig cc
   today; the family is computed from the inheritance chain, nvcc is exempt by name with the reason in Gen.v): the
   fact base_mode, and so the theorem after the next, depends on *)
Theorem C09_gcc_derived_entries_wrap : forallb (fun b => b) gcc_derived_base_has_fwrapv = true /\ m_wrapv base_mode = true.
Proof. exact gcc_derived_entries_wrap. Qed.
Print Assumptions C09_gcc_derived_entries_wrap.

(* ... and the generic entry `cc` (--cc cc, CC=cc): a gcc or clang installed under that name gets gcc's base flags
   since /repo b8b86ad (scraped from ccompiler.lua; before, it compiled without -fwrapv and the wrap idioms changed
   their value: the former witness is still replayed by the wrap stream with --cc cc and must agree) *)
Theorem C09_generic_cc_wraps : generic_cc_wraps_full.
Proof. exact generic_cc_wraps_ok. Qed.
Print Assumptions C09_generic_cc_wraps.

(* the entry's own flags are empty: it wraps exactly through that rule *)
Theorem C09_generic_cc_wraps_needed : generic_cc_base_has_fwrapv = false ->
  (generic_cc_wraps = true <-> generic_cc_gets_gnu_base = true /\ gcc_base_has_fwrapv = true).
Proof. exact generic_cc_wraps_needed. Qed.
Print Assumptions C09_generic_cc_wraps_needed.

(* the plain operators are UB-free in the dialect the base flags select; they are not without -fwrapv *)
Theorem C09_plain_ops_defined_with_base_flags : forall t a b,
  op_add base_mode t a b <> OUB /\ op_sub base_mode t a b <> OUB /\ op_mul base_mode t a b <> OUB /\
  op_unm base_mode t a <> OUB.
Proof. exact plain_ops_defined. Qed.
Print Assumptions C09_plain_ops_defined_with_base_flags.

Theorem C09_fwrapv_needed :
  op_add ISO I64 maxint 1 = OUB /\ op_mul ISO I32 65536 65536 = OUB /\ op_unm ISO I64 minint = OUB.
Proof. exact plain_add_needs_fwrapv. Qed.
Print Assumptions C09_fwrapv_needed.
