(* COPY of coq/C03/ProofsDiv.v (kept in sync by checks/C09.py:gen) *)
From C09 Require Import Model ProofsBase.
Local Open Scope Z_scope.
Ltac Zify.zify_post_hook ::= Z.div_mod_to_equations.

Ltac idiv_tac a b Ha Hb Hc Hm checked :=
  unfold in_ity, imin, imax in Ha, Hb; cbn in Ha, Hb;
  unfold h_idiv, h_idiv_rest; unfold c_eq, c_cmp, lit; cbn [fst snd isigned ibits];
  eval_uac; unfold c_truth; cbn [snd]; drop_cwrap b;
  match goal with |- context [cwrap ?t (-1)] => let u := eval vm_compute in (cwrap t (-1)) in change (cwrap t (-1)) with u end;
  destruct (b =? -1) eqn:E1; cbn [negb Z.eqb];
  [ apply ret_not_ub, c_arith_wrapv, Hm
  | destruct checked; cbn [andb];
    [ destruct (b =? 0) eqn:E0; [discriminate|] | destruct Hc as [Hc|Hc]; [discriminate|] ];
    unfold c_div, c_divlike; cbn [fst snd]; eval_uac; drop_cwrap a; drop_cwrap b;
    (replace (b =? 0) with false by lia); rewrite E1, andb_false_r;
    apply ret_not_ub; unfold obind;
    match goal with |- context [c_mul ?m ?x ?y] => destruct (c_mul m x y) eqn:Em; [|exfalso; revert Em; apply c_arith_wrapv, Hm] end;
    match goal with |- context [if negb ?x then _ else _] => destruct (negb x); [discriminate|] end;
    unfold c_lt, c_cmp, c_bxor, c_bitop; cbv beta iota; apply c_arith_wrapv, Hm ].

Lemma h_idiv_no_ub m t checked a b : m_wrapv m = true -> In t signed_types -> in_ity t a -> in_ity t b ->
  (checked = true \/ b <> 0) -> h_idiv m t checked a b <> OUB.
Proof.
  intros Hm Ht. revert a b. pattern t. apply signed_cases; [| | | |exact Ht];
  intros a b Ha Hb Hc; idiv_tac a b Ha Hb Hc Hm checked.
Qed.

Ltac imod_tac a b Ha Hb Hc Hm checked :=
  unfold in_ity, imin, imax in Ha, Hb; cbn in Ha, Hb;
  unfold h_imod, h_imod_rest; unfold c_eq, c_cmp, lit; cbn [fst snd isigned ibits];
  eval_uac; unfold c_truth; cbn [snd]; drop_cwrap b;
  match goal with |- context [cwrap ?t (-1)] => let u := eval vm_compute in (cwrap t (-1)) in change (cwrap t (-1)) with u end;
  destruct (b =? -1) eqn:E1; cbn [negb Z.eqb];
  [ discriminate
  | destruct checked; cbn [andb];
    [ destruct (b =? 0) eqn:E0; [discriminate|] | destruct Hc as [Hc|Hc]; [discriminate|] ];
    unfold c_rem, c_divlike; cbn [fst snd]; eval_uac; drop_cwrap a; drop_cwrap b;
    (replace (b =? 0) with false by lia); rewrite E1, andb_false_r;
    apply ret_not_ub; unfold c_ne, c_lt, c_cmp, c_bxor, c_bitop, obind; cbv beta iota;
    match goal with |- context [if negb ?x then _ else _] => destruct (negb x); [|discriminate] end;
    match goal with |- context [if negb ?x then _ else _] => destruct (negb x); [|discriminate] end;
    apply c_arith_wrapv, Hm ].

Lemma h_imod_no_ub m t checked a b : m_wrapv m = true -> In t signed_types -> in_ity t a -> in_ity t b ->
  (checked = true \/ b <> 0) -> h_imod m t checked a b <> OUB.
Proof.
  intros Hm Ht. revert a b. pattern t. apply signed_cases; [| | | |exact Ht];
  intros a b Ha Hb Hc; imod_tac a b Ha Hb Hc Hm checked.
Qed.
