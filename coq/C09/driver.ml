(* One case per line on stdin, one result line on stdout (extracted model of coq/C09).
     isused <fuel> <sym> r <root> <root> .. e <sym>:<u>,<u>,.. ..
        -> "1" | "0" | "fuel"      (Symbol:is_used on the graph: roots, usedby lists)
     pair <name> <type> <a> <b>      name: idiv imod ; -> "<checked outcome> <unchecked outcome>"
     bounds <type> <index> <len>     -> "<checked> <unchecked>"                                  *)
open Model
open Zutil

let out_s (o : outcome) = match o with OUB -> "ub" | OPanic -> "panic" | ORet v -> "v:" ^ hex_of_z v
let ity_of = function
  | "i8" -> i8 | "i16" -> i16 | "i32" -> i32 | "i64" -> i64
  | "u8" -> u8 | "u16" -> u16 | "u32" -> u32 | "u64" -> u64 | s -> failwith ("type " ^ s)
let nat s = nat_of_int (int_of_string s)

let () =
  iter_lines (fun line ->
    match split_ws line with
    | [] -> ()
    | kind :: args ->
      let out =
        try
          (match kind with
           | "isused" ->
             let fuel = nat (List.nth args 0) and s = nat (List.nth args 1) in
             let rest = List.tl (List.tl args) in
             let rec split_roots l acc = (match l with
               | "r" :: r -> split_roots r acc
               | "e" :: r -> (List.rev acc, r)
               | x :: r -> split_roots r (nat x :: acc)
               | [] -> (List.rev acc, [])) in
             let roots, edges = split_roots rest [] in
             let edges = List.map (fun e ->
               match String.split_on_char ':' e with
               | [ a; b ] -> (nat a, (if b = "" then [] else List.map nat (String.split_on_char ',' b)))
               | _ -> failwith "edge") edges in
             (match is_used fuel (graph_of roots edges) [] s with
              | None -> "fuel"
              | Some (b, _) -> if b then "1" else "0")
           | "pair" ->
             let t = ity_of (List.nth args 1) in
             let a = z_of_hex (List.nth args 2) and b = z_of_hex (List.nth args 3) in
             (match List.nth args 0 with
              | "idiv" -> out_s (idiv_helper base_mode t true a b) ^ " " ^ out_s (idiv_helper base_mode t false a b)
              | "imod" -> out_s (imod_helper base_mode t true a b) ^ " " ^ out_s (imod_helper base_mode t false a b)
              | s -> failwith s)
           | "bounds" ->
             let t = ity_of (List.nth args 0) in
             let i = z_of_hex (List.nth args 1) and l = z_of_hex (List.nth args 2) in
             out_s (h_bounds t true i l) ^ " " ^ out_s (h_bounds t false i l)
           | _ -> "?unknown")
        with e -> "!exn " ^ Printexc.to_string e
      in
      print_string out; print_newline ())
