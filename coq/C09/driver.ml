(* One case per line on stdin, one result line on stdout (extracted model of coq/C09).
     isused <fuel> <sym> r <root> <root> .. e <sym>:<u>,<u>,.. ..
        -> "1" | "0" | "fuel"      (Symbol:is_used on the graph: roots, usedby lists)
     pair <name> <type> <a> <b>      name: idiv imod ; -> "<checked outcome> <unchecked outcome>"
     bounds <type> <index> <len>     -> "<checked> <unchecked>"
     narrow <src type> <dst type> <x> -> "<checked> <unchecked>"
     vd <slot> ..                    slot = (u|d)(N | C<e> | P<e> | R<k>:<e>)  (used/dropped; no value, compile-time
                                     value, run-time value, k-th result of the trailing call)
        -> "wf=<0|1> dce=<e,e,..> nodce=<..> src=<..>"   (order of the effects, scraped emitter placement)
     cflags <gcc|clang> <default|release|nochecks|nodce>  -> "nochecks=<0|1> <flag code> .."          *)
open Model
open Zutil

let out_s (o : outcome) = match o with OUB -> "ub" | OPanic -> "panic" | ORet v -> "v:" ^ hex_of_z v
let ity_of = function
  | "i8" -> i8 | "i16" -> i16 | "i32" -> i32 | "i64" -> i64
  | "u8" -> u8 | "u16" -> u16 | "u32" -> u32 | "u64" -> u64 | s -> failwith ("type " ^ s)
let nat s = nat_of_int (int_of_string s)

let () =
  iter_lines (fun line ->
    match split_ws line with
    | [] -> ()
    | kind :: args ->
      let out =
        try
          (match kind with
           | "isused" ->
             let fuel = nat (List.nth args 0) and s = nat (List.nth args 1) in
             let rest = List.tl (List.tl args) in
             let rec split_roots l acc = (match l with
               | "r" :: r -> split_roots r acc
               | "e" :: r -> (List.rev acc, r)
               | x :: r -> split_roots r (nat x :: acc)
               | [] -> (List.rev acc, [])) in
             let roots, edges = split_roots rest [] in
             let edges = List.map (fun e ->
               match String.split_on_char ':' e with
               | [ a; b ] -> (nat a, (if b = "" then [] else List.map nat (String.split_on_char ',' b)))
               | _ -> failwith "edge") edges in
             (match is_used fuel (graph_of roots edges) [] s with
              | None -> "fuel"
              | Some (b, _) -> if b then "1" else "0")
           | "pair" ->
             let t = ity_of (List.nth args 1) in
             let a = z_of_hex (List.nth args 2) and b = z_of_hex (List.nth args 3) in
             (match List.nth args 0 with
              | "idiv" -> out_s (idiv_helper base_mode t true a b) ^ " " ^ out_s (idiv_helper base_mode t false a b)
              | "imod" -> out_s (imod_helper base_mode t true a b) ^ " " ^ out_s (imod_helper base_mode t false a b)
              | s -> failwith s)
           | "bounds" ->
             let t = ity_of (List.nth args 0) in
             let i = z_of_hex (List.nth args 1) and l = z_of_hex (List.nth args 2) in
             out_s (h_bounds t true i l) ^ " " ^ out_s (h_bounds t false i l)
           | "ccwraps" -> if generic_cc_wraps then "1" else "0"
           | "arith" ->
             (* arith <add|sub|mul|unm|tdiv> <type> <a> <b>: the plain operator in the dialect of the scraped base flags *)
             let t = ity_of (List.nth args 1) in
             let a = z_of_hex (List.nth args 2) and b = z_of_hex (List.nth args 3) in
             out_s (match List.nth args 0 with
                    | "add" -> op_add base_mode t a b | "sub" -> op_sub base_mode t a b | "mul" -> op_mul base_mode t a b
                    | "unm" -> op_unm base_mode t a | "tdiv" -> op_tdiv t a b | s -> failwith s)
           | "narrow" ->
             let st = ity_of (List.nth args 0) and dt = ity_of (List.nth args 1) in
             let x = z_of_hex (List.nth args 2) in
             out_s (h_narrow_int st dt true x) ^ " " ^ out_s (h_narrow_int st dt false x)
           | "vd" ->
             let slot a =
               let used = (a.[0] = 'u') in
               let rest = String.sub a 2 (String.length a - 2) in
               let src = (match a.[1] with
                 | 'N' -> VNone
                 | 'C' -> VPlain (nat rest, false)
                 | 'P' -> VPlain (nat rest, true)
                 | 'R' -> (match String.split_on_char ':' rest with
                           | [ k; e ] -> VRet (nat k, nat e) | _ -> failwith "slot")
                 | _ -> failwith "slot") in
               { s_used = used; s_src = src } in
             let l = List.map slot args in
             let show x = String.concat "," (List.map (fun n -> string_of_int (int_of_nat n)) x) in
             Printf.sprintf "wf=%d dce=%s nodce=%s src=%s" (if vd_wf l then 1 else 0)
               (show (vd_effects vardecl_policy false l)) (show (vd_effects vardecl_policy true l)) (show (src_effects l))
           | "cflags" ->
             let gcc = (List.nth args 0 = "gcc") in
             let c = (match List.nth args 1 with
               | "default" -> CDefault | "release" -> CRelease | "nochecks" -> CNochecks | "nodce" -> CNodce
               | s -> failwith s) in
             Printf.sprintf "nochecks=%d %s" (if nochecks_of c then 1 else 0)
               (String.concat " " (List.map (fun n -> string_of_int (int_of_nat n)) (cflags_of gcc c)))
           | _ -> "?unknown")
        with e -> "!exn " ^ Printexc.to_string e
      in
      print_string out; print_newline ())
