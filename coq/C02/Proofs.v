From Base Require Import CInt.
From C02 Require Import Gen Model Tactics.
Local Open Scope Z_scope.
