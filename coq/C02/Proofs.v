From Base Require Import CInt.
From C02 Require Import Gen Model Tactics ProofsHelpers ProofsHelpersAsr ProofsHelpersCmp ProofsHelpersEq ProofsDiv.
Local Open Scope Z_scope.

(* ---------------------------------------------------------------- wrap_value *)

(* IntegralType:wrap_value (as repaired by 59c538f) is the two's complement reduction, for every
   integer *)
Lemma wrap_value_correct t v : wf_ity t -> wrap_value t v = wrap t v.
Proof.
  intros Ht. unfold wrap_value, bwrap.
  ity_cases t Ht; ity_norm;
    repeat match goal with |- context [if ?c then _ else _] => destruct c eqn:? end; lia.
Qed.

Lemma wrap_value_range t v : wf_ity t -> in_range t (wrap_value t v).
Proof. intros Ht. rewrite wrap_value_correct by exact Ht. apply wrap_range; exact Ht. Qed.

(* ---------------------------------------------------------------- run-time side: + - * *)

(* reducing into a wider type first does not change the reduction into a narrower one *)
Lemma wrap_wrap_narrow t c x : wf_ity t -> wf_ity c -> bits t <= bits c -> wrap t (wrap c x) = wrap t x.
Proof.
  intros Ht Hc. ity_cases t Ht; ity_cases c Hc; ity_norm; intros Hb; try lia.
Qed.

Lemma bits_rt_le_arith lt rt : wf_ity lt -> wf_ity rt ->
  bits (promote_type lt rt) <= bits (c_arith_type lt rt) /\ wf_ity (promote_type lt rt).
Proof. intros Hl Hr. ity_cases lt Hl; ity_cases rt Hr; vm_compute; split; congruence. Qed.

Lemma rt_add_modular lt rt a b : wf_ity lt -> wf_ity rt ->
  rt_bin Badd lt rt a b = Rval (rt_type Badd lt rt) (wrap (rt_type Badd lt rt) (a + b)).
Proof.
  intros Hl Hr. unfold rt_bin, of_val. rewrite c_add_modular by (try assumption; reflexivity).
  cbn [obind]. destruct (bits_rt_le_arith lt rt Hl Hr) as [Hb Hw].
  change (rt_type Badd lt rt) with (promote_type lt rt).
  rewrite c_conv_gnu by exact Hw. rewrite wrap_wrap_narrow; auto using wf_arith_type.
Qed.
Lemma rt_sub_modular lt rt a b : wf_ity lt -> wf_ity rt ->
  rt_bin Bsub lt rt a b = Rval (rt_type Bsub lt rt) (wrap (rt_type Bsub lt rt) (a - b)).
Proof.
  intros Hl Hr. unfold rt_bin, of_val. rewrite c_sub_modular by (try assumption; reflexivity).
  cbn [obind]. destruct (bits_rt_le_arith lt rt Hl Hr) as [Hb Hw].
  change (rt_type Bsub lt rt) with (promote_type lt rt).
  rewrite c_conv_gnu by exact Hw. rewrite wrap_wrap_narrow; auto using wf_arith_type.
Qed.
Lemma rt_mul_modular lt rt a b : wf_ity lt -> wf_ity rt ->
  rt_bin Bmul lt rt a b = Rval (rt_type Bmul lt rt) (wrap (rt_type Bmul lt rt) (a * b)).
Proof.
  intros Hl Hr. unfold rt_bin, of_val. rewrite c_mul_modular by (try assumption; reflexivity).
  cbn [obind]. destruct (bits_rt_le_arith lt rt Hl Hr) as [Hb Hw].
  change (rt_type Bmul lt rt) with (promote_type lt rt).
  rewrite c_conv_gnu by exact Hw. rewrite wrap_wrap_narrow; auto using wf_arith_type.
Qed.
Lemma rt_unm_modular t a : wf_ity t -> rt_un Uunm t a = Rval t (wrap t (- a)).
Proof.
  intros Ht. unfold rt_un, of_val. rewrite c_neg_modular by (try assumption; reflexivity).
  cbn [obind]. rewrite c_conv_gnu by exact Ht. rewrite wrap_wrap_narrow; auto using wf_promote.
  ity_cases t Ht; vm_compute; congruence.
Qed.

(* ---------------------------------------------------------------- the property, full strength *)

(* folding `a o b` on typed constants representable in the run-time result type T agrees with the
   run time: the constant expression is rejected only where the run time is undefined; otherwise
   the folded value lies inside its type, is the exact result when T can represent it, and else
   is the exact result carried by a wider/signed type or bakes what the run time computes *)
Definition fold_agrees_at (o : binop) (lt rt : ity) (a b : Z) : Prop :=
  let T := rt_type o lt rt in
  forall e, exact_bin o lt a b = Some e -> in_range T a -> in_range T b ->
  match fold_bin o lt rt a b false false with
  | Ferr _ => rt_bin o lt rt a b = Rundef
  | Fbool _ => False
  | Fval t' v =>
      in_range t' v /\
      (in_range T e -> baked t' v = e) /\
      (~ in_range T e -> v = e \/ rt_bin o lt rt a b = Rval T (baked t' v))
  end.

Definition fold_agrees : Prop :=
  forall o lt rt a b, wf_ity lt -> wf_ity rt -> is_cmpop o = false ->
    in_range lt a -> in_range rt b -> fold_agrees_at o lt rt a b.

(* what is still false at run time after 2cffa35: a uint64 count >= 2^63 becomes negative in the
   helper (its count parameter is int64) *)
Lemma rt_shift_uint64_count :
  rt_bin Bshl U64 U64 82 18446744073709551615 = Rval U64 41 /\
  fold_bin Bshl U64 U64 82 18446744073709551615 false false = Fval U64 0 /\
  exact_bin Bshl U64 82 18446744073709551615 = Some 0.
Proof. repeat split. Qed.

(* ---------------------------------------------------------------- fold side: exactness *)

(* promote_type_for_value finds a type that holds the value whenever int64 (or, for a
   non-negative value of an unsigned type, uint64) can *)
Lemma promote_fits t v : wf_ity t ->
  (in_range I64 v \/ (sgn t = false /\ 0 <= v /\ in_range U64 v)) ->
  in_range (promote_type_for_value t v) v /\ wf_ity (promote_type_for_value t v).
Proof.
  intros Ht. unfold promote_type_for_value.
  ity_cases t Ht; cbv [promote_signed_types promote_unsigned_types first_fit]; ity_norm; intros Hv;
    repeat match goal with |- context [if ?c then _ else _] => destruct c eqn:? end;
    ity_norm; split; try reflexivity; try lia; try (destruct Hv as [Hv | (Hs & Hv)]; try discriminate Hs; lia).
Qed.

Lemma wrap_value_id t v : in_range t v -> wrap_value t v = v.
Proof. intros H. unfold wrap_value. apply in_rangeb_spec in H. rewrite H. reflexivity. Qed.

Lemma baked_id t v : wf_ity t -> in_range t v -> baked t v = v.
Proof.
  intros Ht H. unfold baked. pose proof H as H'. apply in_rangeb_spec in H'. rewrite H'.
  destruct (sgn t) eqn:S; cbn [negb andb orb]; [reflexivity|].
  assert (0 <= v). { revert H. ity_cases t Ht; try discriminate S; ity_norm; lia. }
  destruct (v <? 0) eqn:N; [lia|reflexivity].
Qed.

Definition exact_arith (o : binop) : bool :=
  match o with Badd | Bsub | Bmul | Bidiv | Bmod => true | _ => false end.

(* partial form of the property: + - * // % on typed constants fold to the exact result,
   carried by a type that holds it, whenever the exact result fits int64 (or uint64 when the
   operation type is unsigned and the result non-negative) *)
Lemma fold_agrees_partial o lt rt a b e : wf_ity lt -> wf_ity rt -> exact_arith o = true ->
  exact_bin o lt a b = Some e ->
  (in_range I64 e \/ (sgn (promote_type lt rt) = false /\ 0 <= e /\ in_range U64 e)) ->
  exists t', fold_bin o lt rt a b false false = Fval t' e /\ in_range t' e /\ baked t' e = e.
Proof.
  intros Hl Hr Ho He Hfit.
  assert (Hw : wf_ity (promote_type lt rt)) by (ity_cases lt Hl; ity_cases rt Hr; reflexivity).
  destruct (promote_fits (promote_type lt rt) e Hw Hfit) as [Hin Hwf].
  exists (promote_type_for_value (promote_type lt rt) e).
  assert (Hf : fold_bin o lt rt a b false false = Fval (promote_type_for_value (promote_type lt rt) e)
                 (wrap_value (promote_type_for_value (promote_type lt rt) e) e)).
  { unfold fold_bin, op_type, arith_op_type, attrs_type.
    destruct o; try discriminate Ho; cbn [is_cmpop is_divop is_shiftop is_bitop negb andb raw_value exact_bin] in *;
      try (injection He as <-; reflexivity);
      destruct (b =? 0); try discriminate He; injection He as <-; reflexivity. }
  rewrite Hf, wrap_value_id by exact Hin. split; [reflexivity|]. split; [exact Hin|]. apply baked_id; assumption.
Qed.

(* non-vacuity *)
Example ex_fold_add : fold_bin Badd U8 U8 200 100 false false = Fval U16 300. Proof. reflexivity. Qed.
Example ex_fold_sub : fold_bin Bsub U8 U8 3 5 false false = Fval I8 (-2). Proof. reflexivity. Qed.
Example ex_rt_sub : rt_bin Bsub U8 U8 3 5 = Rval U8 254. Proof. reflexivity. Qed.
Example ex_fold_idiv : fold_bin Bidiv I8 I8 (-128) (-1) false false = Fval I16 128. Proof. reflexivity. Qed.
Example ex_conv : conv_accepts I8 128 = false /\ conv_accepts I8 127 = true. Proof. split; reflexivity. Qed.
Example ex_baked : baked I64 (-9223372036854775811) = 9223372036854775805. Proof. reflexivity. Qed.
Example ex_fold_mul : fold_bin Bmul I64 I64 9223372036854775807 3 false false = Fval I64 9223372036854775805. Proof. reflexivity. Qed.
Example ex_fold_shl : fold_bin Bshl I8 I8 77 2 false false = Fval I8 52 /\ fold_bin Bshl I8 I8 (-1) (-8) false false = Fval I8 0.
Proof. split; reflexivity. Qed.
Example ex_fold_tdiv : fold_bin Btdiv I8 I8 (-128) (-1) false false = Fval I16 128 /\
  fold_bin Btdiv I64 I64 (-9223372036854775808) (-1) false false = Ferr ERR_DIVOVERFLOW /\
  rt_bin Btdiv I64 I64 (-9223372036854775808) (-1) = Rundef.
Proof. repeat split. Qed.


(* ---------------------------------------------------------------- fold_agrees for + - * *)

Lemma baked_correct t v : wf_ity t -> baked t v = wrap t v.
Proof.
  intros Ht. unfold baked.
  destruct ((negb (sgn t) && (v <? 0)) || negb (in_rangeb t v)) eqn:C.
  - apply wrap_value_correct; exact Ht.
  - apply orb_false_elim in C. destruct C as [_ C]. apply negb_false_iff in C.
    apply in_rangeb_spec in C. symmetry. apply wrap_id; assumption.
Qed.

(* the value-level core: for a result X of an operation on operands of type T *)
Definition result_bound (T : ity) (X : Z) : Prop :=
  if sgn T then - (thalf T * thalf T) <= X <= thalf T * thalf T
  else - tmod T < X < tmod T * tmod T.

Lemma pfv_wf t v : wf_ity t -> wf_ity (promote_type_for_value t v).
Proof.
  intros Ht. unfold promote_type_for_value.
  ity_cases t Ht; cbv [promote_signed_types promote_unsigned_types first_fit];
    repeat match goal with |- context [if ?c then _ else _] => destruct c end; reflexivity.
Qed.

Lemma in_rangeb_sub a b x : wf_ity a -> wf_ity b -> tmin b <= tmin a -> tmax a <= tmax b ->
  in_rangeb b x = false -> in_rangeb a x = false.
Proof. unfold in_rangeb. intros _ _ H1 H2. lia. Qed.

(* when neither int64 nor (for a non-negative value of an unsigned type) uint64 holds the value,
   the fallback type is returned *)
Lemma pfv_fallback t v : wf_ity t -> in_rangeb t v = false ->
  in_rangeb (if negb (sgn t) && (0 <=? v) then U64 else I64) v = false ->
  promote_type_for_value t v = if negb (sgn t) && (0 <=? v) then U64 else I64.
Proof.
  intros Ht Hr Hf. unfold promote_type_for_value. rewrite Hr.
  destruct (negb (sgn t) && (0 <=? v)); cbv [promote_signed_types promote_unsigned_types first_fit].
  - assert (E8 : in_rangeb U8 v = false) by (apply (in_rangeb_sub U8 U64); [reflexivity | reflexivity | vm_compute; congruence | vm_compute; congruence | exact Hf]).
    assert (E16 : in_rangeb U16 v = false) by (apply (in_rangeb_sub U16 U64); [reflexivity | reflexivity | vm_compute; congruence | vm_compute; congruence | exact Hf]).
    assert (E32 : in_rangeb U32 v = false) by (apply (in_rangeb_sub U32 U64); [reflexivity | reflexivity | vm_compute; congruence | vm_compute; congruence | exact Hf]).
    rewrite E8, E16, E32, Hf, !Bool.andb_false_r. reflexivity.
  - assert (E8 : in_rangeb I8 v = false) by (apply (in_rangeb_sub I8 I64); [reflexivity | reflexivity | vm_compute; congruence | vm_compute; congruence | exact Hf]).
    assert (E16 : in_rangeb I16 v = false) by (apply (in_rangeb_sub I16 I64); [reflexivity | reflexivity | vm_compute; congruence | vm_compute; congruence | exact Hf]).
    assert (E32 : in_rangeb I32 v = false) by (apply (in_rangeb_sub I32 I64); [reflexivity | reflexivity | vm_compute; congruence | vm_compute; congruence | exact Hf]).
    rewrite E8, E16, E32, Hf, !Bool.andb_false_r. reflexivity.
Qed.

Lemma fold_value_agrees T X : wf_ity T -> result_bound T X ->
  let t' := promote_type_for_value T X in
  let v := wrap_value t' X in
  wf_ity t' /\ in_range t' v /\ (in_range T X -> v = X) /\ (~ in_range T X -> v = X \/ wrap T X = v).
Proof.
  intros HT HB. cbv zeta. pose proof (pfv_wf T X HT) as Hw.
  rewrite wrap_value_correct by exact Hw.
  split; [exact Hw|]. split; [apply wrap_range; exact Hw|]. split.
  - intros Hin. unfold promote_type_for_value. apply in_rangeb_spec in Hin. rewrite Hin.
    apply wrap_id; [exact HT | apply in_rangeb_spec; exact Hin].
  - intros Hn. apply in_rangeb_false in Hn.
    destruct (in_rangeb (if negb (sgn T) && (0 <=? X) then U64 else I64) X) eqn:F.
    + (* some 64 bit type holds X: the ladder finds a type that does *)
      left. apply wrap_id; [exact Hw|]. apply promote_fits; [exact HT|].
      destruct (sgn T) eqn:S; cbn [negb andb] in F.
      * left. apply in_rangeb_spec. exact F.
      * destruct (0 <=? X) eqn:P; cbn [andb] in F.
        -- right. split; [reflexivity|]. split; [lia|]. apply in_rangeb_spec. exact F.
        -- left. apply in_rangeb_spec. exact F.
    + right. rewrite (pfv_fallback T X HT Hn F).
      (* X is beyond 64 bits: only possible for a 64 bit T, and then both reductions coincide *)
      revert HB Hn F. unfold result_bound.
      ity_cases T HT; ity_norm; intros HB Hn F;
        repeat match goal with |- context [if ?c then _ else _] => destruct c eqn:? end; ity_norm; lia.
Qed.

Lemma arith_result_bound o T a b e : wf_ity T -> (o = Badd \/ o = Bsub \/ o = Bmul) ->
  in_range T a -> in_range T b -> exact_bin o T a b = Some e -> result_bound T e.
Proof.
  intros HT Ho Ha Hb He. unfold result_bound.
  destruct Ho as [-> | [-> | ->]]; cbn [exact_bin] in He; injection He as <-;
    revert Ha Hb; ity_cases T HT; ity_norm; intros Ha Hb; nia.
Qed.

Lemma fold_agrees_arith o lt rt a b : wf_ity lt -> wf_ity rt -> (o = Badd \/ o = Bsub \/ o = Bmul) ->
  fold_agrees_at o lt rt a b.
Proof.
  intros Hl Hr Ho. unfold fold_agrees_at. intros e He Ha Hb.
  assert (HT : rt_type o lt rt = promote_type lt rt) by (destruct Ho as [-> | [-> | ->]]; reflexivity).
  rewrite HT in *.
  assert (Hw : wf_ity (promote_type lt rt)) by (ity_cases lt Hl; ity_cases rt Hr; reflexivity).
  set (T := promote_type lt rt) in *.
  assert (He' : exact_bin o T a b = Some e) by (destruct Ho as [-> | [-> | ->]]; exact He).
  pose proof (arith_result_bound o T a b e Hw Ho Ha Hb He') as HB.
  destruct (fold_value_agrees T e Hw HB) as (Hwt & Hin & Hex & Hnx).
  assert (Hf : fold_bin o lt rt a b false false =
               Fval (promote_type_for_value T e) (wrap_value (promote_type_for_value T e) e)).
  { destruct Ho as [-> | [-> | ->]]; cbn [exact_bin] in He; injection He as <-; reflexivity. }
  assert (Hrt : rt_bin o lt rt a b = Rval T (wrap T e)).
  { destruct Ho as [-> | [-> | ->]]; cbn [exact_bin] in He; injection He as <-;
      [apply rt_add_modular | apply rt_sub_modular | apply rt_mul_modular]; assumption. }
  rewrite Hf. split; [exact Hin|]. rewrite baked_correct by exact Hwt.
  rewrite wrap_id by assumption. split.
  - exact Hex.
  - intros Hn. destruct (Hnx Hn) as [E | E]; [left; exact E | right; rewrite Hrt, E; reflexivity].
Qed.
(* ---------------------------------------------------------------- run-time side: shifts, comparisons *)

Lemma rt_shl_partial lt rt a b : wf_ity lt -> in_range lt a -> in_range I64 b ->
  rt_bin Bshl lt rt a b = Rval lt (wrap lt (exact_shl lt a b)).
Proof.
  intros Hl Ha Hb. unfold rt_bin, of_call. change (rt_type Bshl lt rt) with lt.
  destruct (shift_tables_complete lt Hl) as ((f & Hf) & _). rewrite Hf.
  rewrite (shl_helper_correct lt f a b (lookup1_in _ _ _ Hf) Ha Hb). reflexivity.
Qed.
Lemma rt_shr_partial lt rt a b : wf_ity lt -> in_range lt a -> in_range I64 b ->
  rt_bin Bshr lt rt a b = Rval lt (wrap lt (exact_shr lt a b)).
Proof.
  intros Hl Ha Hb. unfold rt_bin, of_call. change (rt_type Bshr lt rt) with lt.
  destruct (shift_tables_complete lt Hl) as (_ & (f & Hf) & _). rewrite Hf.
  rewrite (shr_helper_correct lt f a b (lookup1_in _ _ _ Hf) Hl Ha Hb). reflexivity.
Qed.
Lemma rt_asr_partial lt rt a b : wf_ity lt -> in_range lt a -> in_range I64 b ->
  rt_bin Basr lt rt a b = Rval lt (wrap lt (exact_asr lt a b)).
Proof.
  intros Hl Ha Hb. unfold rt_bin, of_call. change (rt_type Basr lt rt) with lt.
  destruct (shift_tables_complete lt Hl) as (_ & _ & (f & Hf)). rewrite Hf.
  rewrite (asr_helper_correct lt f a b (lookup1_in _ _ _ Hf) Ha Hb). reflexivity.
Qed.

Lemma operands_same_sign lt rt a b : wf_ity lt -> wf_ity rt -> mixed lt rt = false ->
  in_range lt a -> in_range rt b -> c_operands lt rt a b = (c_arith_type lt rt, a, b).
Proof.
  intros Hl Hr Hm Ha Hb. unfold mixed in Hm. apply negb_false_iff in Hm. apply Bool.eqb_prop in Hm.
  destruct (sgn lt) eqn:Sl.
  - apply c_operands_exact_signed; try assumption. apply arith_type_signed_same_sign; congruence.
  - assert (0 <= a) by (revert Ha; ity_cases lt Hl; try discriminate Sl; ity_norm; lia).
    assert (0 <= b) by (revert Hb; ity_cases rt Hr; try discriminate Hm; ity_norm; lia).
    apply c_operands_exact_nonneg; assumption.
Qed.

(* all six comparisons are exact at run time, for every pair of types and values *)
Lemma rt_cmp_exact o lt rt a b : wf_ity lt -> wf_ity rt -> is_cmpop o = true ->
  in_range lt a -> in_range rt b -> rt_bin o lt rt a b = Rbool (cmp_value o a b).
Proof.
  intros Hl Hr Ho Ha Hb. destruct (mixed lt rt) eqn:M.
  - assert (M' : mixed rt lt = true) by (unfold mixed in *; destruct (sgn lt), (sgn rt); auto).
    destruct (cmp_tables_complete lt rt Hl Hr M) as ((f1 & F1) & E1).
    destruct (cmp_tables_complete rt lt Hr Hl M') as ((f2 & F2) & E2).
    pose proof (lt_helper_correct lt rt f1 a b (lookup2_in _ _ _ _ F1) Ha Hb) as L1.
    pose proof (lt_helper_correct rt lt f2 b a (lookup2_in _ _ _ _ F2) Hb Ha) as L2.
    destruct o; try discriminate Ho; unfold rt_bin, of_bool; rewrite M; cbn [cmp_value].
    + rewrite F1, L1. destruct (a <? b); reflexivity.
    + rewrite F2, L2. rewrite Z.leb_antisym. destruct (b <? a); reflexivity.
    + rewrite F2, L2. destruct (b <? a); reflexivity.
    + rewrite F1, L1. rewrite Z.leb_antisym. destruct (a <? b); reflexivity.
    + destruct (sgn lt) eqn:S.
      * destruct (E1 eq_refl) as (g & G). rewrite G.
        rewrite (eq_helper_correct lt rt g a b (lookup2_in _ _ _ _ G) Ha Hb). destruct (a =? b); reflexivity.
      * assert (S' : sgn rt = true) by (unfold mixed in M; rewrite S in M; destruct (sgn rt); [reflexivity | discriminate]).
        destruct (E2 S') as (g & G). rewrite G.
        rewrite (eq_helper_correct rt lt g b a (lookup2_in _ _ _ _ G) Hb Ha). rewrite (Z.eqb_sym b a).
        destruct (a =? b); reflexivity.
    + destruct (sgn lt) eqn:S.
      * destruct (E1 eq_refl) as (g & G). rewrite G.
        rewrite (eq_helper_correct lt rt g a b (lookup2_in _ _ _ _ G) Ha Hb). destruct (a =? b); reflexivity.
      * assert (S' : sgn rt = true) by (unfold mixed in M; rewrite S in M; destruct (sgn rt); [reflexivity | discriminate]).
        destruct (E2 S') as (g & G). rewrite G.
        rewrite (eq_helper_correct rt lt g b a (lookup2_in _ _ _ _ G) Hb Ha). rewrite (Z.eqb_sym b a).
        destruct (a =? b); reflexivity.
  - pose proof (operands_same_sign lt rt a b Hl Hr M Ha Hb) as Op.
    destruct o; try discriminate Ho; unfold rt_bin, of_cmp; rewrite M;
      unfold c_lt, c_le, c_gt, c_ge, c_eq, c_ne; rewrite Op; cbn [cmp_value];
      match goal with |- context [zb ?c] => destruct c end; reflexivity.
Qed.

(* the fold side of comparisons is the exact comparison by definition of fold_bin *)
Lemma fold_cmp_exact o lt rt a b lu ru : is_cmpop o = true ->
  fold_bin o lt rt a b lu ru = Fbool (cmp_value o a b).
Proof. intros Ho. unfold fold_bin. rewrite Ho. reflexivity. Qed.

(* ---------------------------------------------------------------- literal / conversion *)

Lemma baked_congruent t v : wf_ity t -> wrap t (baked t v) = wrap t v.
Proof. intros Ht. rewrite baked_correct by exact Ht. apply wrap_idem; exact Ht. Qed.

Lemma conv_rejected_iff d v : conv_accepts d v = false <-> ~ in_range d v.
Proof. unfold conv_accepts. apply in_rangeb_false. Qed.

(* ---------------------------------------------------------------- run-time side: // and % *)

Lemma div_tables_complete t : wf_ity t -> sgn t = true ->
  (exists f, lookup1 t idiv_table = Some f) /\ (exists f, lookup1 t imod_table = Some f).
Proof. intros Ht Hs. ity_cases t Ht; try discriminate Hs; split; eexists; vm_compute; reflexivity. Qed.

Lemma promote_type_signed lt rt : wf_ity lt -> wf_ity rt -> sgn lt || sgn rt = true ->
  wf_ity (promote_type lt rt) /\ sgn (promote_type lt rt) = true.
Proof. intros Hl Hr. ity_cases lt Hl; ity_cases rt Hr; vm_compute; intros H; try discriminate H; split; reflexivity. Qed.

(* `//` and `%` when an operand type is signed (checked helpers), operands representable in the
   result type: "division by zero" iff b = 0, Lua's floor division / modulo otherwise *)
Lemma rt_idiv_modular lt rt a b : wf_ity lt -> wf_ity rt -> sgn lt || sgn rt = true ->
  in_range (promote_type lt rt) a -> in_range (promote_type lt rt) b ->
  rt_bin Bidiv lt rt a b = (if b =? 0 then Rstop 4 else Rval (promote_type lt rt) (wrap (promote_type lt rt) (a / b))) /\
  rt_bin Bmod lt rt a b = (if b =? 0 then Rstop 4 else Rval (promote_type lt rt) (a mod b)).
Proof.
  intros Hl Hr Hs Ha Hb. destruct (promote_type_signed lt rt Hl Hr Hs) as [Hw HsT].
  destruct (div_tables_complete _ Hw HsT) as ((f & Hf) & (g & Hg)).
  unfold rt_bin, of_call. rewrite Hs. change (rt_type Bidiv lt rt) with (promote_type lt rt).
  change (rt_type Bmod lt rt) with (promote_type lt rt). rewrite Hf, Hg.
  rewrite (idiv_helper_correct _ f a b (lookup1_in _ _ _ Hf) Ha Hb).
  rewrite (imod_helper_correct _ g a b (lookup1_in _ _ _ Hg) Ha Hb).
  destruct (b =? 0); split; reflexivity.
Qed.

(* ---------------------------------------------------------------- bitwise operators *)

Lemma mod_pow2_testbit x k i : 0 <= k -> 0 <= i ->
  Z.testbit (x mod 2 ^ k) i = if i <? k then Z.testbit x i else false.
Proof.
  intros Hk Hi. destruct (i <? k) eqn:E.
  - apply Z.mod_pow2_bits_low. lia.
  - apply Z.mod_pow2_bits_high. lia.
Qed.

Section Bitop.
  Variable f : Z -> Z -> Z.
  Variable g : bool -> bool -> bool.
  Hypothesis fbits : forall a b i, 0 <= i -> Z.testbit (f a b) i = g (Z.testbit a i) (Z.testbit b i).

  Lemma bitop_mod_congr a a' b b' k : 0 <= k ->
    a mod 2 ^ k = a' mod 2 ^ k -> b mod 2 ^ k = b' mod 2 ^ k -> f a b mod 2 ^ k = f a' b' mod 2 ^ k.
  Proof.
    intros Hk Ea Eb. apply Z.bits_inj'. intros i Hi.
    rewrite !mod_pow2_testbit by assumption. destruct (i <? k) eqn:E; [|reflexivity].
    rewrite !fbits by assumption.
    assert (Z.testbit a i = Z.testbit a' i) as ->.
    { rewrite <- (Z.mod_pow2_bits_low a k i), <- (Z.mod_pow2_bits_low a' k i) by lia. rewrite Ea. reflexivity. }
    assert (Z.testbit b i = Z.testbit b' i) as ->.
    { rewrite <- (Z.mod_pow2_bits_low b k i), <- (Z.mod_pow2_bits_low b' k i) by lia. rewrite Eb. reflexivity. }
    reflexivity.
  Qed.

  Lemma bitop_wrap c t a b : wf_ity c -> wf_ity t -> bits t <= bits c ->
    wrap t (wrap c (f (wrap c a) (wrap c b))) = wrap t (f a b).
  Proof.
    intros Hc Ht Hb. rewrite wrap_wrap_narrow by assumption.
    apply wrap_eqm; [exact Ht|]. rewrite (tmod_eq t Ht).
    assert (0 <= bits t) by (ity_cases t Ht; cbn; lia).
    apply bitop_mod_congr; [assumption| |].
    - rewrite <- (tmod_eq t Ht). rewrite <- (wrap_mod t (wrap c a) Ht), <- (wrap_mod t a Ht).
      rewrite wrap_wrap_narrow by assumption. reflexivity.
    - rewrite <- (tmod_eq t Ht). rewrite <- (wrap_mod t (wrap c b) Ht), <- (wrap_mod t b Ht).
      rewrite wrap_wrap_narrow by assumption. reflexivity.
  Qed.
End Bitop.

Lemma bits_bitop_le_arith lt rt : wf_ity lt -> wf_ity rt ->
  let t := if bits lt <? bits rt then rt else lt in bits t <= bits (c_arith_type lt rt) /\ wf_ity t.
Proof. intros Hl Hr. ity_cases lt Hl; ity_cases rt Hr; vm_compute; split; congruence. Qed.

(* | ~ & at run time: the exact bitwise operation on the (infinite two's complement) operands,
   reduced into the result type - for every pair of types and ALL operand values *)
Lemma rt_bitops_modular lt rt a b : wf_ity lt -> wf_ity rt ->
  rt_bin Bbor lt rt a b = Rval (rt_type Bbor lt rt) (wrap (rt_type Bbor lt rt) (Z.lor a b)) /\
  rt_bin Bbxor lt rt a b = Rval (rt_type Bbxor lt rt) (wrap (rt_type Bbxor lt rt) (Z.lxor a b)) /\
  rt_bin Bband lt rt a b = Rval (rt_type Bband lt rt) (wrap (rt_type Bband lt rt) (Z.land a b)).
Proof.
  intros Hl Hr. destruct (bits_bitop_le_arith lt rt Hl Hr) as [Hb Hw].
  pose proof (wf_arith_type lt rt Hl Hr) as Hc.
  unfold rt_bin, of_val, c_or, c_xor, c_and, c_operands. cbn [obind].
  change (rt_type Bbor lt rt) with (if bits lt <? bits rt then rt else lt).
  change (rt_type Bbxor lt rt) with (if bits lt <? bits rt then rt else lt).
  change (rt_type Bband lt rt) with (if bits lt <? bits rt then rt else lt).
  rewrite !c_conv_gnu by exact Hw.
  repeat split; f_equal.
  - apply (bitop_wrap Z.lor orb); auto using Z.lor_spec.
  - apply (bitop_wrap Z.lxor xorb); auto using Z.lxor_spec.
  - apply (bitop_wrap Z.land andb); auto using Z.land_spec.
Qed.

(* ---------------------------------------------------------------- untyped literals *)

Lemma arith_op_type_wf lt rt a b lu ru : wf_ity lt -> wf_ity rt -> wf_ity (arith_op_type lt rt a b lu ru).
Proof.
  intros Hl Hr. unfold arith_op_type, attrs_type.
  destruct (negb lu && ru); [apply pfv_wf; exact Hl|].
  destruct (negb ru && lu); [apply pfv_wf; exact Hr|].
  ity_cases lt Hl; ity_cases rt Hr; reflexivity.
Qed.

(* + - * // % with an untyped literal on either side (types.promote_type_for_attrs: the operation
   type is the typed operand's type promoted for the literal's value): the fold is the exact result
   carried by a type that holds it whenever a 64 bit type can *)
Lemma fold_exact_any_flags o lt rt a b lu ru e : wf_ity lt -> wf_ity rt -> exact_arith o = true ->
  exact_bin o lt a b = Some e ->
  (in_range I64 e \/ (sgn (arith_op_type lt rt a b lu ru) = false /\ 0 <= e /\ in_range U64 e)) ->
  exists t', fold_bin o lt rt a b lu ru = Fval t' e /\ in_range t' e /\ baked t' e = e.
Proof.
  intros Hl Hr Ho He Hfit.
  pose proof (arith_op_type_wf lt rt a b lu ru Hl Hr) as Hw.
  set (t0 := arith_op_type lt rt a b lu ru) in *.
  destruct (promote_fits t0 e Hw Hfit) as [Hin Hwf].
  exists (promote_type_for_value t0 e).
  assert (Hf : fold_bin o lt rt a b lu ru = Fval (promote_type_for_value t0 e) (wrap_value (promote_type_for_value t0 e) e)).
  { unfold fold_bin, op_type. fold t0.
    destruct o; try discriminate Ho; cbn [is_cmpop is_divop is_shiftop is_bitop negb andb raw_value exact_bin] in *;
      try (injection He as <-; reflexivity);
      destruct (b =? 0); try discriminate He; injection He as <-; reflexivity. }
  rewrite Hf, wrap_value_id by exact Hin. split; [reflexivity|]. split; [exact Hin|]. apply baked_id; assumption.
Qed.

Example ex_untyped : fold_bin Badd I8 I64 5 300 false true = Fval I16 305 /\ fold_bin Badd I64 U8 (-1) 200 true false = Fval I16 199.
Proof. split; reflexivity. Qed.

(* ---------------------------------------------------------------- statements used by Properties.v *)

(* full strength for the shift operators: every count of the right operand's type *)
Definition rt_shifts_modular : Prop := forall lt rt a b, wf_ity lt -> wf_ity rt -> in_range lt a -> in_range rt b ->
  rt_bin Bshl lt rt a b = Rval lt (wrap lt (exact_shl lt a b)) /\
  rt_bin Bshr lt rt a b = Rval lt (wrap lt (exact_shr lt a b)) /\
  rt_bin Basr lt rt a b = Rval lt (wrap lt (exact_asr lt a b)).

Lemma rt_shifts_modular_refuted : ~ rt_shifts_modular.
Proof.
  intros H. destruct (H U64 U64 82 18446744073709551615) as [H1 _]; try reflexivity; try (vm_compute; split; congruence).
  vm_compute in H1. discriminate.
Qed.

Lemma rt_shifts_modular_partial lt rt a b : wf_ity lt -> in_range lt a -> in_range I64 b ->
  rt_bin Bshl lt rt a b = Rval lt (wrap lt (exact_shl lt a b)) /\
  rt_bin Bshr lt rt a b = Rval lt (wrap lt (exact_shr lt a b)) /\
  rt_bin Basr lt rt a b = Rval lt (wrap lt (exact_asr lt a b)).
Proof.
  intros. repeat split; [apply rt_shl_partial | apply rt_shr_partial | apply rt_asr_partial]; assumption.
Qed.

Lemma shift_helpers_correct t f a b : in_range t a -> in_range I64 b ->
  (In (t, f) shl_table -> ccall Gnu f [a; b] = Oval (wrap t (exact_shl t a b))) /\
  (In (t, f) shr_table -> wf_ity t -> ccall Gnu f [a; b] = Oval (wrap t (exact_shr t a b))) /\
  (In (t, f) asr_table -> ccall Gnu f [a; b] = Oval (wrap t (exact_asr t a b))).
Proof.
  intros Ha Hb. repeat split; intros.
  - apply shl_helper_correct; assumption.
  - apply shr_helper_correct; assumption.
  - apply asr_helper_correct; assumption.
Qed.

Lemma comparisons_agree o lt rt a b : wf_ity lt -> wf_ity rt -> is_cmpop o = true ->
  in_range lt a -> in_range rt b ->
  rt_bin o lt rt a b = Rbool (cmp_value o a b) /\ fold_bin o lt rt a b false false = Fbool (cmp_value o a b).
Proof. intros. split; [apply rt_cmp_exact | apply fold_cmp_exact]; assumption. Qed.

Lemma wrap_value_correct_range t v : wf_ity t -> wrap_value t v = wrap t v /\ in_range t (wrap_value t v).
Proof. intros Ht. split; [apply wrap_value_correct | apply wrap_value_range]; exact Ht. Qed.

