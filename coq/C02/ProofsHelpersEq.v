(* nelua_eq_<S>_<U> (split from ProofsHelpersCmp.v to keep every file short) *)
From Base Require Import CInt.
From C02 Require Import Gen Model Tactics.
Local Open Scope Z_scope.

Ltac table_cases H :=
  cbv [shl_table shr_table asr_table lt_table eq_table idiv_table imod_table] in H; cbn [In] in H;
  repeat (destruct H as [H | H]); try contradiction.

Lemma eq_helper_correct l r f a b : In (l, r, f) eq_table -> in_range l a -> in_range r b ->
  ccall Gnu f [a; b] = Oval (zb (a =? b)).
Proof.
  intros H Ha Hb. apply in_rangeb_spec in Ha, Hb.
  table_cases H; injection H as <- <- <-.
  all: csolve.
  all: cfinish.
Qed.


