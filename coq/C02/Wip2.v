From Base Require Import CInt.
From C02 Require Import Gen Model Tactics.
Local Open Scope Z_scope.

Lemma lookup1_in t l f : lookup1 t l = Some f -> In (t, f) l.
Proof.
  induction l as [|[t' f'] l IH]; cbn [lookup1]; [discriminate|].
  destruct (ity_eqb t t') eqn:E.
  - intros [= <-]. apply ity_eqb_eq in E. subst. left. reflexivity.
  - intros H. right. auto.
Qed.
Lemma lookup2_in a b l f : lookup2 a b l = Some f -> In (a, b, f) l.
Proof.
  induction l as [|[[a' b'] f'] l IH]; cbn [lookup2]; [discriminate|].
  destruct (ity_eqb a a' && ity_eqb b b') eqn:E.
  - intros [= <-]. apply andb_prop in E. destruct E as [E1 E2].
    apply ity_eqb_eq in E1, E2. subst. left. reflexivity.
  - intros H. right. auto.
Qed.

Ltac table_cases H :=
  cbv [shl_table shr_table asr_table lt_table eq_table idiv_table imod_table] in H; cbn [In] in H;
  repeat (destruct H as [H | H]); try contradiction.

(* nelua_shl_<T>(T a, signed(T) b): logical shift of the representation of a, the other way for
   negative counts, 0 for |b| >= bits *)
Lemma shl_helper_correct t f a b : In (t, f) shl_table -> in_range t a -> in_range (to_signed t) b ->
  ccall Gnu f [a; b] = Oval (wrap t (exact_shl t a b)).
Proof.
  intros H Ha Hb. apply in_rangeb_spec in Ha, Hb. unfold exact_shl.
  table_cases H; injection H as <- <-.
  all: csolve.
  all: cfinish.
Time Qed.
