(* Property C02: compile-time evaluation yields the same values as run-time evaluation
   (integer operators; floats are covered by correspondence only - see checks/C02.py).
   Fold side = Model.fold_bin / fold_un / baked / conv_accepts (mirror of types.lua, cemitter.lua),
   run-time side = Model.rt_bin / rt_un: the C the generator emits, under Base.CInt (Gnu mode),
   with the helper functions taken verbatim from the generated C (Gen.v). *)
From Base Require Import CInt.
From C02 Require Import Gen Model ProofsHelpers ProofsHelpersAsr ProofsHelpersCmp ProofsHelpersEq ProofsDiv Proofs ProofsNested.
Local Open Scope Z_scope.

(* rt_is_modular, + - * and unary minus: for every pair of operand types and ALL integer operand
   values the run time yields the exact result reduced into the result type *)
Theorem C02_rt_is_modular_add : forall lt rt a b, wf_ity lt -> wf_ity rt ->
  rt_bin Badd lt rt a b = Rval (rt_type Badd lt rt) (wrap (rt_type Badd lt rt) (a + b)).
Proof. exact rt_add_modular. Qed.
Print Assumptions C02_rt_is_modular_add.
Theorem C02_rt_is_modular_sub : forall lt rt a b, wf_ity lt -> wf_ity rt ->
  rt_bin Bsub lt rt a b = Rval (rt_type Bsub lt rt) (wrap (rt_type Bsub lt rt) (a - b)).
Proof. exact rt_sub_modular. Qed.
Print Assumptions C02_rt_is_modular_sub.
Theorem C02_rt_is_modular_mul : forall lt rt a b, wf_ity lt -> wf_ity rt ->
  rt_bin Bmul lt rt a b = Rval (rt_type Bmul lt rt) (wrap (rt_type Bmul lt rt) (a * b)).
Proof. exact rt_mul_modular. Qed.
Print Assumptions C02_rt_is_modular_mul.
Theorem C02_rt_is_modular_unm : forall t a, wf_ity t -> rt_un Uunm t a = Rval t (wrap t (- a)).
Proof. exact rt_unm_modular. Qed.
Print Assumptions C02_rt_is_modular_unm.

(* rt_is_modular, | ~ &: for every pair of operand types and ALL integer operand values *)
Theorem C02_rt_is_modular_bitwise : forall lt rt a b, wf_ity lt -> wf_ity rt ->
  rt_bin Bbor lt rt a b = Rval (rt_type Bbor lt rt) (wrap (rt_type Bbor lt rt) (Z.lor a b)) /\
  rt_bin Bbxor lt rt a b = Rval (rt_type Bbxor lt rt) (wrap (rt_type Bbxor lt rt) (Z.lxor a b)) /\
  rt_bin Bband lt rt a b = Rval (rt_type Bband lt rt) (wrap (rt_type Bband lt rt) (Z.land a b)).
Proof. exact rt_bitops_modular. Qed.
Print Assumptions C02_rt_is_modular_bitwise.

(* rt_is_modular, // and % when an operand type is signed (the checked helpers scraped from the
   generated C), operands representable in the result type: stopped with "division by zero" iff
   b = 0, Lua's floor division (reduced into the type: only min // -1 wraps) / modulo otherwise *)
Theorem C02_rt_is_modular_idiv_mod : forall lt rt a b, wf_ity lt -> wf_ity rt -> sgn lt || sgn rt = true ->
  in_range (promote_type lt rt) a -> in_range (promote_type lt rt) b ->
  rt_bin Bidiv lt rt a b = (if b =? 0 then Rstop 4 else Rval (promote_type lt rt) (wrap (promote_type lt rt) (a / b))) /\
  rt_bin Bmod lt rt a b = (if b =? 0 then Rstop 4 else Rval (promote_type lt rt) (a mod b)).
Proof. exact rt_idiv_modular. Qed.
Print Assumptions C02_rt_is_modular_idiv_mod.

(* rt_is_modular, shifts: every emitted helper computes Nelua's documented shift on the
   representation of its first parameter, for every value of its two parameters ... *)
Theorem C02_rt_shift_helpers : forall t f a b, in_range t a -> in_range I64 b ->
  (In (t, f) shl_table -> ccall Gnu f [a; b] = Oval (wrap t (exact_shl t a b))) /\
  (In (t, f) shr_table -> wf_ity t -> ccall Gnu f [a; b] = Oval (wrap t (exact_shr t a b))) /\
  (In (t, f) asr_table -> ccall Gnu f [a; b] = Oval (wrap t (exact_asr t a b))).
Proof. exact shift_helpers_correct. Qed.
Print Assumptions C02_rt_shift_helpers.

(* the full statement for << >> >>> (Proofs.rt_shifts_modular: every count of the right operand's
   type) is FALSE: a uint64/usize count >= 2^63 is negative once converted to the helper's int64
   parameter: uint64(82) << uint64(2^64-1) gives 41 *)
Theorem C02_rt_is_modular_shifts_refuted : ~ rt_shifts_modular.
Proof. exact rt_shifts_modular_refuted. Qed.
Print Assumptions C02_rt_is_modular_shifts_refuted.

(* ... true for every count representable in int64 (every count type except uint64/usize >= 2^63) *)
Theorem C02_rt_is_modular_shifts_partial : forall lt rt a b,
  wf_ity lt -> in_range lt a -> in_range I64 b ->
  rt_bin Bshl lt rt a b = Rval lt (wrap lt (exact_shl lt a b)) /\
  rt_bin Bshr lt rt a b = Rval lt (wrap lt (exact_shr lt a b)) /\
  rt_bin Basr lt rt a b = Rval lt (wrap lt (exact_asr lt a b)).
Proof. exact rt_shifts_modular_partial. Qed.
Print Assumptions C02_rt_is_modular_shifts_partial.

(* rt_bin / rt_bin_k is the value of an operator result once STORED (or passed); rt_nested_l is its
   value when consumed directly by another operator; k1 says that the inner right operand is a
   compile-time constant and is considered for the shifts only (the only operators whose emitted
   form depends on it).  Since 1d3f0fa / 8eb30df / 3d9c769 every result narrower than C int is cast
   to its type and the two coincide: every non-comparison inner operator, every outer operator, all
   types, ALL values (ProofsNested.rt_context_independent = rt_context_independent_p gen_policy,
   full strength for the model).  gen_policy is read from the emitter on every run: each condition
   together with the cast it guards (checks/C02.py:scrape_cast_rules). *)
Theorem C02_rt_context_independent : rt_context_independent.
Proof. exact rt_context_independent_holds. Qed.
Print Assumptions C02_rt_context_independent.

(* the statement depends on that policy for real: under any other policy (one of the three casts
   missing) it is FALSE - witnesses: the inputs of the three repaired defects - and under this one true *)
Theorem C02_rt_context_independent_iff_policy : forall p,
  rt_context_independent_p p <-> (p_binop p = true /\ p_tdiv p = true /\ p_shl p = true).
Proof. exact rt_context_independent_iff_policy. Qed.
Print Assumptions C02_rt_context_independent_iff_policy.

(* a compile-time count takes the emitter's fast path (rt_bin_k); it computes what the helper computes:
   checked exhaustively for int8 and uint8 (all values, counts -2 .. 9, << >> >>>); wider types: probes *)
Theorem C02_const_count_shift_eq_helper_8bit : fast_eq_helper_on I8 = true /\ fast_eq_helper_on U8 = true.
Proof. exact fast_eq_helper_8. Qed.
Print Assumptions C02_const_count_shift_eq_helper_8bit.

(* comparisons: exact on both sides, for all types (mixed signedness included) and values *)
Theorem C02_comparisons_agree : forall o lt rt a b, wf_ity lt -> wf_ity rt -> is_cmpop o = true ->
  in_range lt a -> in_range rt b ->
  rt_bin o lt rt a b = Rbool (cmp_value o a b) /\ fold_bin o lt rt a b false false = Fbool (cmp_value o a b).
Proof. exact comparisons_agree. Qed.
Print Assumptions C02_comparisons_agree.

(* fold_agrees (Proofs.fold_agrees_at, full strength) for + - *: for typed constant operands
   of ANY types and values representable in the run-time result type T, the constant expression
   is never rejected, the folded value lies inside its type, it is the exact result whenever T
   can represent it, and otherwise it is the exact result carried by a wider/signed type or
   bakes exactly what the run time computes.  (For the other operators the same statement is
   checked by the oracle on every run; proved pieces: C02_fold_agrees_partial for // %,
   C02_comparisons_agree.) *)
Theorem C02_fold_agrees_partial_arith : forall o lt rt a b, wf_ity lt -> wf_ity rt ->
  (o = Badd \/ o = Bsub \/ o = Bmul) -> fold_agrees_at o lt rt a b.
Proof. exact fold_agrees_arith. Qed.
Print Assumptions C02_fold_agrees_partial_arith.

(* fold exactness for + - * // %, typed operands AND untyped literals on either side (lu / ru:
   types.promote_type_for_attrs): the fold is the exact result carried by a type that holds it
   whenever int64 (or uint64 for an unsigned operation type and a non-negative result) can hold it *)
Theorem C02_fold_exact_partial : forall o lt rt a b lu ru e, wf_ity lt -> wf_ity rt -> exact_arith o = true ->
  exact_bin o lt a b = Some e ->
  (in_range I64 e \/ (sgn (arith_op_type lt rt a b lu ru) = false /\ 0 <= e /\ in_range U64 e)) ->
  exists t', fold_bin o lt rt a b lu ru = Fval t' e /\ in_range t' e /\ baked t' e = e.
Proof. exact fold_exact_any_flags. Qed.
Print Assumptions C02_fold_exact_partial.

(* wrap_value (59c538f) is the two's complement reduction of every integer *)
Theorem C02_wrap_value_correct : forall t v, wf_ity t -> wrap_value t v = wrap t v /\ in_range t (wrap_value t v).
Proof. exact wrap_value_correct_range. Qed.
Print Assumptions C02_wrap_value_correct.

(* add_scalar_literal: what is printed for a constant is its reduction into the type *)
Theorem C02_baked_literal : forall t v, wf_ity t -> baked t v = wrap t v.
Proof. exact baked_correct. Qed.
Print Assumptions C02_baked_literal.

(* conv_rejected_iff: an implicit constant conversion is rejected exactly when the destination
   cannot represent the value - the condition under which C04_narrow_fires_iff shows the
   run-time check fires *)
Theorem C02_conv_rejected_iff : forall d v, conv_accepts d v = false <-> ~ in_range d v.
Proof. exact conv_rejected_iff. Qed.
Print Assumptions C02_conv_rejected_iff.
