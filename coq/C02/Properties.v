From Base Require Import CInt.
From C02 Require Import Gen Model Proofs.
Local Open Scope Z_scope.
