(* The run-time helpers scraped from the generated C (Gen.v) compute the documented operation:
   proved entry by entry by symbolic evaluation under Base.CInt (Gnu mode), for all operand values. *)
From Base Require Import CInt.
From C02 Require Import Gen Model Tactics.
Local Open Scope Z_scope.

Lemma lookup1_in t l f : lookup1 t l = Some f -> In (t, f) l.
Proof.
  induction l as [|[t' f'] l IH]; cbn [lookup1]; [discriminate|].
  destruct (ity_eqb t t') eqn:E.
  - intros [= <-]. apply ity_eqb_eq in E. subst. left. reflexivity.
  - intros H. right. auto.
Qed.

Ltac table_cases H :=
  cbv [shl_table shr_table asr_table lt_table eq_table idiv_table imod_table] in H; cbn [In] in H;
  repeat (destruct H as [H | H]); try contradiction.

(* nelua_shl_<T>(T a, signed(T) b): logical shift of the representation of a, the other way for
   negative counts, 0 for |b| >= bits *)
Lemma shl_helper_correct t f a b : In (t, f) shl_table -> in_range t a -> in_range I64 b ->
  ccall Gnu f [a; b] = Oval (wrap t (exact_shl t a b)).
Proof.
  intros H Ha Hb. apply in_rangeb_spec in Ha, Hb. unfold exact_shl.
  table_cases H; injection H as <- <-.
  all: csolve.
  all: cfinish.
Qed.

Lemma shr_helper_correct t f a b : In (t, f) shr_table -> wf_ity t -> in_range t a -> in_range I64 b ->
  ccall Gnu f [a; b] = Oval (wrap t (exact_shr t a b)).
Proof.
  intros H Ht Ha Hb. apply in_rangeb_spec in Ha, Hb. unfold exact_shr.
  table_cases H; injection H as <- <-.
  all: csolve.
  all: cfinish.
Qed.

(* every well-formed type has its helpers in the tables (the driver uses every type) *)
Lemma shift_tables_complete t : wf_ity t ->
  (exists f, lookup1 t shl_table = Some f) /\ (exists f, lookup1 t shr_table = Some f) /\
  (exists f, lookup1 t asr_table = Some f).
Proof. intros Ht. ity_cases t Ht; repeat split; eexists; vm_compute; reflexivity. Qed.

