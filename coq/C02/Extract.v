From C02 Require Import Model.
From Base Require Import CInt.
Require Extraction.
Require Import ExtrOcamlBasic.
Extraction "model.ml" fold_bin fold_un baked conv_accepts lit_ctype rt_bin rt_un rt_nested_l rt_stored_l rt_type exact_bin wrap mkity.
