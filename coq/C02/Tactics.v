(* Staged symbolic evaluation of Base.CInt mini-C terms with concrete types and symbolic values.
   csolve: unfold everything except integer arithmetic / range tests / wrap, replace the closed
   instances by numerals, use range hypotheses; cfinish: case analysis on the remaining tests,
   leaves closed by reflexivity or lia. *)
From Base Require Import CInt.
Local Open Scope Z_scope.

Ltac zblack :=
  cbv -[Z.add Z.sub Z.mul Z.opp Z.div Z.modulo Z.quot Z.rem Z.ltb Z.leb Z.eqb Z.pow Z.land Z.lor Z.lxor
        Z.lnot andb orb negb Z.lt Z.le in_rangeb wrap].

Ltac zblack_in H :=
  cbv -[Z.add Z.sub Z.mul Z.opp Z.div Z.modulo Z.quot Z.rem Z.ltb Z.leb Z.eqb Z.pow Z.land Z.lor Z.lxor
        Z.lnot andb orb negb Z.lt Z.le in_rangeb wrap] in H.

(* numerals for the closed instances of wrap / in_rangeb, then arithmetic on numerals *)
Ltac eval_closed :=
  repeat first
  [ match goal with
    | |- context [wrap ?t ?v] =>
        is_num v; let r := eval vm_compute in (wrap t v) in is_num r; change (wrap t v) with r
    | |- context [in_rangeb ?t ?v] =>
        is_num v; let r := eval vm_compute in (in_rangeb t v) in is_bool r; change (in_rangeb t v) with r
    end
  | z_eval_closed_step ].

Ltac expose_ranges :=
  cbv [in_rangeb wrap tmin tmax tmod thalf pow2 pow2h bits sgn] in *.

Lemma wrap_id_b t x : wf_ityb t = true -> in_rangeb t x = true -> wrap t x = x.
Proof. intros H1 H2. apply wrap_id; [exact H1 | apply in_rangeb_spec; exact H2]. Qed.

(* wrap T v = v when the hypotheses put v in the range of T *)
Ltac drop_wraps :=
  repeat match goal with
  | |- context [wrap ?t ?v] =>
      rewrite (wrap_id_b t v) by (first [reflexivity | assumption | (expose_ranges; lia)])
  end.

Ltac use_ranges :=
  repeat match goal with
  | H : in_rangeb ?t ?v = true |- context [in_rangeb ?t ?v] => rewrite H
  | H : Z.eqb ?a ?b = _ |- context [Z.eqb ?a ?b] => rewrite H
  | H : Z.ltb ?a ?b = _ |- context [Z.ltb ?a ?b] => rewrite H
  | H : Z.leb ?a ?b = _ |- context [Z.leb ?a ?b] => rewrite H
  end.

Ltac split_ifs :=
  repeat match goal with
  | |- context [if ?c then _ else _] =>
      lazymatch c with
      | context [if _ then _ else _] => fail
      | _ => let E := fresh "E" in destruct c eqn:E
      end
  end.

Ltac bool_simpl :=
  rewrite ?Bool.andb_true_l, ?Bool.andb_false_l, ?Bool.andb_true_r, ?Bool.andb_false_r,
          ?Bool.orb_true_l, ?Bool.orb_false_l, ?Bool.orb_true_r, ?Bool.orb_false_r.
Ltac cstage := repeat (zblack; progress use_ranges); zblack; eval_closed; bool_simpl; drop_wraps.
Ltac csolve :=
  unfold I8, I16, I32, I64, U8, U16, U32, U64 in *;
  do 6 (try progress cstage).

Ltac split_one :=
  match goal with
  | |- context [if ?c then _ else _] =>
      lazymatch c with
      | context [if _ then _ else _] => fail
      | context [match _ with _ => _ end] => fail
      | _ => let E := fresh "E" in destruct c eqn:E
      end
  | |- context [match ?m with Strict => _ | Wrapv => _ | Gnu => _ end] => is_var m; destruct m
  end.

Ltac cleaf := first [reflexivity | (exfalso; expose_ranges; lia) | (expose_ranges; f_equal; lia)
                    | (expose_ranges; rewrite ?Z.mod_mod by lia; f_equal; lia)
                    | (expose_ranges;
                       repeat match goal with |- context [?x mod ?m] => rewrite (Z.mod_small x m) by lia end;
                       f_equal; lia) ].
Ltac prune := try (exfalso; expose_ranges; lia).
Ltac cfinish := repeat (split_one; prune; zblack; eval_closed; bool_simpl; drop_wraps); cleaf.

