(* comparison helpers nelua_lt_/nelua_eq_ (split from ProofsHelpers.v so that make can build both in parallel) *)
From Base Require Import CInt.
From C02 Require Import Gen Model Tactics.
Local Open Scope Z_scope.

Lemma lookup2_in a b l f : lookup2 a b l = Some f -> In (a, b, f) l.
Proof.
  induction l as [|[[a' b'] f'] l IH]; cbn [lookup2]; [discriminate|].
  destruct (ity_eqb a a' && ity_eqb b b') eqn:E.
  - intros [= <-]. apply andb_prop in E. destruct E as [E1 E2].
    apply ity_eqb_eq in E1, E2. subst. left. reflexivity.
  - intros H. right. auto.
Qed.

Ltac table_cases H :=
  cbv [shl_table shr_table asr_table lt_table eq_table idiv_table imod_table] in H; cbn [In] in H;
  repeat (destruct H as [H | H]); try contradiction.

(* mixed-signedness comparison helpers are exact *)
Lemma lt_helper_correct l r f a b : In (l, r, f) lt_table -> in_range l a -> in_range r b ->
  ccall Gnu f [a; b] = Oval (zb (a <? b)).
Proof.
  intros H Ha Hb. apply in_rangeb_spec in Ha, Hb.
  table_cases H; injection H as <- <- <-.
  all: csolve.
  all: cfinish.
Qed.

Lemma cmp_tables_complete l r : wf_ity l -> wf_ity r -> mixed l r = true ->
  (exists f, lookup2 l r lt_table = Some f) /\
  (sgn l = true -> exists f, lookup2 l r eq_table = Some f).
Proof.
  intros Hl Hr. ity_cases l Hl; ity_cases r Hr; vm_compute; intros H; try discriminate H;
    split; try (intros; discriminate); try (intros; eexists; reflexivity); eexists; reflexivity.
Qed.
