(* nelua_asr_<T> (split from ProofsHelpers.v to keep every file short) *)
From Base Require Import CInt.
From C02 Require Import Gen Model Tactics.
Local Open Scope Z_scope.

Ltac table_cases H :=
  cbv [shl_table shr_table asr_table lt_table eq_table idiv_table imod_table] in H; cbn [In] in H;
  repeat (destruct H as [H | H]); try contradiction.

Lemma asr_helper_correct t f a b : In (t, f) asr_table -> in_range t a -> in_range I64 b ->
  ccall Gnu f [a; b] = Oval (wrap t (exact_asr t a b)).
Proof.
  intros H Ha Hb. apply in_rangeb_spec in Ha, Hb. unfold exact_asr.
  table_cases H; injection H as <- <-.
  all: csolve.
  all: cfinish.
Qed.

