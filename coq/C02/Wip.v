From Base Require Import CInt.
From C02 Require Import Gen Model Tactics.
Local Open Scope Z_scope.
Definition result_bound (T : ity) (X : Z) : Prop :=
  if sgn T then - (thalf T * thalf T) <= X <= thalf T * thalf T
  else - tmod T < X < tmod T * tmod T.

(* decide every comparison of the goal that the (linear) hypotheses settle *)
Ltac decide_cmps :=
  repeat match goal with
  | |- context [Z.leb ?a ?b] =>
      first [ replace (Z.leb a b) with true by (symmetry; apply Z.leb_le; lia)
            | replace (Z.leb a b) with false by (symmetry; apply Z.leb_gt; lia) ]
  | |- context [Z.ltb ?a ?b] =>
      first [ replace (Z.ltb a b) with true by (symmetry; apply Z.ltb_lt; lia)
            | replace (Z.ltb a b) with false by (symmetry; apply Z.ltb_ge; lia) ]
  end; cbn [andb orb negb].

Lemma regions X :
  X < -18446744073709551616 \/ -18446744073709551616 <= X < -9223372036854775808 \/
  -9223372036854775808 <= X < -2147483648 \/ -2147483648 <= X < -32768 \/ -32768 <= X < -128 \/
  -128 <= X < 0 \/ 0 <= X < 128 \/ 128 <= X < 256 \/ 256 <= X < 32768 \/ 32768 <= X < 65536 \/
  65536 <= X < 2147483648 \/ 2147483648 <= X < 4294967296 \/ 4294967296 <= X < 9223372036854775808 \/
  9223372036854775808 <= X < 18446744073709551616 \/ 18446744073709551616 <= X.
Proof. lia. Qed.

Lemma fold_value_agrees T X : wf_ity T -> result_bound T X ->
  let t' := promote_type_for_value T X in
  let v := wrap_value t' X in
  wf_ity t' /\ in_range t' v /\ (in_range T X -> v = X) /\ (~ in_range T X -> v = X \/ wrap T X = v).
Proof.
  intros HT. unfold result_bound, promote_type_for_value, wrap_value, bwrap.
  ity_cases T HT; cbv [promote_signed_types promote_unsigned_types first_fit]; ity_norm; intros HX;
    destruct (regions X) as [R|[R|[R|[R|[R|[R|[R|[R|[R|[R|[R|[R|[R|[R|R]]]]]]]]]]]]]];
    try (exfalso; lia); decide_cmps;
    repeat (match goal with |- context [if ?c then _ else _] => destruct c eqn:? end);
    ity_norm; repeat split; intros; first [reflexivity | lia | (left; lia) | (right; lia)].
Time Qed.
