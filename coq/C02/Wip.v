From Base Require Import CInt.
From C02 Require Import Gen Model Tactics.
Local Open Scope Z_scope.
Definition result_bound (T : ity) (X : Z) : Prop :=
  if sgn T then - (thalf T * thalf T) <= X <= thalf T * thalf T
  else - tmod T < X < tmod T * tmod T.

Lemma wrap_value_correct t v : wf_ity t -> wrap_value t v = wrap t v.
Proof.
  intros Ht. unfold wrap_value, bwrap.
  ity_cases t Ht; ity_norm;
    repeat match goal with |- context [if ?c then _ else _] => destruct c eqn:? end; lia.
Qed.

Lemma promote_fits t v : wf_ity t ->
  (in_range I64 v \/ (sgn t = false /\ 0 <= v /\ in_range U64 v)) ->
  in_range (promote_type_for_value t v) v /\ wf_ity (promote_type_for_value t v).
Proof.
  intros Ht. unfold promote_type_for_value.
  ity_cases t Ht; cbv [promote_signed_types promote_unsigned_types first_fit]; ity_norm; intros Hv;
    repeat match goal with |- context [if ?c then _ else _] => destruct c eqn:? end;
    ity_norm; split; try reflexivity; try lia; try (destruct Hv as [Hv | (Hs & Hv)]; try discriminate Hs; lia).
Qed.

Lemma pfv_wf t v : wf_ity t -> wf_ity (promote_type_for_value t v).
Proof.
  intros Ht. unfold promote_type_for_value.
  ity_cases t Ht; cbv [promote_signed_types promote_unsigned_types first_fit];
    repeat match goal with |- context [if ?c then _ else _] => destruct c end; reflexivity.
Qed.

Lemma in_rangeb_sub a b x : wf_ity a -> wf_ity b -> tmin b <= tmin a -> tmax a <= tmax b ->
  in_rangeb b x = false -> in_rangeb a x = false.
Proof. unfold in_rangeb. intros _ _ H1 H2. lia. Qed.

(* when neither int64 nor (for a non-negative value of an unsigned type) uint64 holds the value,
   the fallback type is returned *)
Lemma pfv_fallback t v : wf_ity t -> in_rangeb t v = false ->
  in_rangeb (if negb (sgn t) && (0 <=? v) then U64 else I64) v = false ->
  promote_type_for_value t v = if negb (sgn t) && (0 <=? v) then U64 else I64.
Proof.
  intros Ht Hr Hf. unfold promote_type_for_value. rewrite Hr.
  destruct (negb (sgn t) && (0 <=? v)); cbv [promote_signed_types promote_unsigned_types first_fit].
  - assert (E8 : in_rangeb U8 v = false) by (apply (in_rangeb_sub U8 U64); [reflexivity | reflexivity | vm_compute; congruence | vm_compute; congruence | exact Hf]).
    assert (E16 : in_rangeb U16 v = false) by (apply (in_rangeb_sub U16 U64); [reflexivity | reflexivity | vm_compute; congruence | vm_compute; congruence | exact Hf]).
    assert (E32 : in_rangeb U32 v = false) by (apply (in_rangeb_sub U32 U64); [reflexivity | reflexivity | vm_compute; congruence | vm_compute; congruence | exact Hf]).
    rewrite E8, E16, E32, Hf, !Bool.andb_false_r. reflexivity.
  - assert (E8 : in_rangeb I8 v = false) by (apply (in_rangeb_sub I8 I64); [reflexivity | reflexivity | vm_compute; congruence | vm_compute; congruence | exact Hf]).
    assert (E16 : in_rangeb I16 v = false) by (apply (in_rangeb_sub I16 I64); [reflexivity | reflexivity | vm_compute; congruence | vm_compute; congruence | exact Hf]).
    assert (E32 : in_rangeb I32 v = false) by (apply (in_rangeb_sub I32 I64); [reflexivity | reflexivity | vm_compute; congruence | vm_compute; congruence | exact Hf]).
    rewrite E8, E16, E32, Hf, !Bool.andb_false_r. reflexivity.
Qed.

Lemma fold_value_agrees T X : wf_ity T -> result_bound T X ->
  let t' := promote_type_for_value T X in
  let v := wrap_value t' X in
  wf_ity t' /\ in_range t' v /\ (in_range T X -> v = X) /\ (~ in_range T X -> v = X \/ wrap T X = v).
Proof.
  intros HT HB. cbv zeta. pose proof (pfv_wf T X HT) as Hw.
  rewrite wrap_value_correct by exact Hw.
  split; [exact Hw|]. split; [apply wrap_range; exact Hw|]. split.
  - intros Hin. unfold promote_type_for_value. apply in_rangeb_spec in Hin. rewrite Hin.
    apply wrap_id; [exact HT | apply in_rangeb_spec; exact Hin].
  - intros Hn. apply in_rangeb_false in Hn.
    destruct (in_rangeb (if negb (sgn T) && (0 <=? X) then U64 else I64) X) eqn:F.
    + (* some 64 bit type holds X: the ladder finds a type that does *)
      left. apply wrap_id; [exact Hw|]. apply promote_fits; [exact HT|].
      destruct (sgn T) eqn:S; cbn [negb andb] in F.
      * left. apply in_rangeb_spec. exact F.
      * destruct (0 <=? X) eqn:P; cbn [andb] in F.
        -- right. repeat split; try lia. apply in_rangeb_spec. exact F.
        -- left. apply in_rangeb_spec. exact F.
    + right. rewrite (pfv_fallback T X HT Hn F).
      (* X is beyond 64 bits: only possible for a 64 bit T, and then both reductions coincide *)
      revert HB Hn F. unfold result_bound.
      ity_cases T HT; ity_norm; intros HB Hn F;
        repeat match goal with |- context [if ?c then _ else _] => destruct c eqn:? end; ity_norm; lia.
Qed.
