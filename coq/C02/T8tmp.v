From Coq Require Import ZArith List Bool Lia.
From Base Require Import CInt.
From C02 Require Import Gen Model.
Import ListNotations.
Open Scope Z_scope.
Definition rres_eqb (x y : rres) : bool :=
  match x, y with
  | Rval t v, Rval t' v' => ity_eqb t t' && (v =? v')
  | Rbool b, Rbool b' => Bool.eqb b b'
  | Rstop m, Rstop m' => m =? m'
  | Rundef, Rundef => true
  | _, _ => false
  end.
Definition zrange (lo n : Z) : list Z := map (fun i => lo + Z.of_nat i) (seq 0 (Z.to_nat n)).
Definition fast_eq_helper_on (t : ity) : bool :=
  forallb (fun o => forallb (fun a => forallb (fun b =>
     rres_eqb (rt_bin_k o t I64 a b true) (rt_bin o t I64 a b)) (zrange (-2) (bits t + 4))) (zrange (tmin t) (tmod t)))
    [Bshl; Bshr; Basr].
Time Lemma fast_eq_helper_8 : fast_eq_helper_on I8 = true /\ fast_eq_helper_on U8 = true.
Proof. split; vm_compute; reflexivity. Qed.
Time Lemma fast_eq_helper_16 : fast_eq_helper_on I16 = true /\ fast_eq_helper_on U16 = true.
Proof. split; vm_compute; reflexivity. Qed.
