(* C02 - compile-time evaluation vs run-time evaluation of the integer operators.

   FOLD SIDE mirrors lualib/nelua/types.lua on exact integers (bint(160) values are modelled by
   Z with the 160-bit reduction made explicit where it is observable - C17 proves that bint
   computes exactly that):
     IntegralType:promote_type            -> promote_type
     IntegralType:promote_type_for_value  -> promote_type_for_value  (ladders scraped into Gen.v)
     types.promote_type_for_attrs         -> the untyped-literal rule in arith_op_type / bitwise_op_type
     IntegralType:wrap_value              -> wrap_value   (including its `-bwrap(-v)` branch)
     make_integral_binary_op + the opvalfuncs, unary unm / bnot -> fold_bin / fold_un
     IntegralType:get_convertible_from_attr -> conv_accepts
     cemitter.add_scalar_literal (re-wrap of out-of-range values) -> baked
   RUN-TIME SIDE: the C expression cbuiltins.operators.* emit for operands the compiler cannot
   see through, evaluated with Base.CInt in Gnu mode; the helpers nelua_shl_/shr_/asr_/lt_/eq_/
   assert_idiv_/assert_imod_ are the functions scraped from the generated C (Gen.v), called with
   C's argument conversions. *)
From Base Require Import CInt.
From C02 Require Import Gen.
Local Open Scope Z_scope.

(* ---------------------------------------------------------------- bint(160) operations *)

Definition B160 : Z := 2 ^ 160.
Definition s160 (x : Z) : Z := (x + 2 ^ 159) mod B160 - 2 ^ 159.
(* bint_assert_tointeger: the low 64 bits, signed *)
Definition tointeger (y : Z) : Z := wrap I64 y.
Definition lshr160 (x k : Z) : Z := s160 ((x mod B160) / 2 ^ k).
Definition bshl (x y : Z) : Z :=
  let y := tointeger y in
  if (y =? - 2 ^ 63) || (160 <=? Z.abs y) then 0
  else if y <? 0 then lshr160 x (- y) else s160 (x * 2 ^ y).
Definition bshr (x y : Z) : Z :=
  let y := tointeger y in
  if (y =? - 2 ^ 63) || (160 <=? Z.abs y) then 0
  else if y <? 0 then s160 (x * 2 ^ (- y)) else lshr160 x y.
Definition bwrap (x n : Z) : Z := x mod 2 ^ n.

(* ---------------------------------------------------------------- types.lua *)

(* IntegralType:wrap_value on an integral value (as repaired by 59c538f: reduce modulo 2^bits,
   then move the upper half down for signed types) *)
Definition wrap_value (t : ity) (v : Z) : Z :=
  if in_rangeb t v then v
  else
    let w := bwrap v (bits t) in
    if sgn t && (tmax t <? w) then w - 2 ^ bits t else w.

Fixpoint first_fit (l : list ity) (minbits v : Z) : option ity :=
  match l with
  | [] => None
  | t :: l' => if (minbits <=? bits t) && in_rangeb t v then Some t else first_fit l' minbits v
  end.

Definition promote_type_for_value (t : ity) (v : Z) : ity :=
  if in_rangeb t v then t
  else
    let uns := negb (sgn t) && (0 <=? v) in
    match first_fit (if uns then promote_unsigned_types else promote_signed_types) (bits t) v with
    | Some t' => t'
    | None => if uns then U64 else I64
    end.

Definition promote_type (a b : ity) : ity :=
  if Bool.eqb (sgn a) (sgn b) then (if bits a <=? bits b then b else a)
  else mkity (Z.max (bits a) (bits b)) true.

(* an operand: type, value, and whether it is an untyped literal *)
Definition attrs_type (lt rt : ity) (a b : Z) (lu ru : bool) : option ity :=
  if negb lu && ru then Some (promote_type_for_value lt b)
  else if negb ru && lu then Some (promote_type_for_value rt a)
  else None.

Definition arith_op_type lt rt a b lu ru : ity :=
  match attrs_type lt rt a b lu ru with Some t => t | None => promote_type lt rt end.
Definition bitwise_op_type lt rt a b lu ru : ity :=
  match attrs_type lt rt a b lu ru with Some t => t | None => if bits lt <? bits rt then rt else lt end.

Inductive binop : Type :=
  Badd | Bsub | Bmul | Bidiv | Btdiv | Bmod | Btmod | Bbor | Bbxor | Bband | Bshl | Bshr | Basr
| Blt | Ble | Bgt | Bge | Beq | Bne.
Inductive unop : Type := Uunm | Ubnot.

Definition is_cmpop (o : binop) : bool :=
  match o with Blt | Ble | Bgt | Bge | Beq | Bne => true | _ => false end.
Definition is_shiftop (o : binop) : bool := match o with Bshl | Bshr | Basr => true | _ => false end.
Definition is_bitop (o : binop) : bool := match o with Bbor | Bbxor | Bband => true | _ => false end.
Definition is_divop (o : binop) : bool := match o with Bidiv | Btdiv | Bmod | Btmod => true | _ => false end.

(* result type of the operation before looking at the value *)
Definition op_type (o : binop) lt rt a b lu ru : ity :=
  if is_shiftop o then lt
  else if is_bitop o then bitwise_op_type lt rt a b lu ru
  else arith_op_type lt rt a b lu ru.

Definition ERR_DIVZERO : Z := 1.    (* "attempt to divide by zero" *)
Definition ERR_DIVOVERFLOW : Z := 2.  (* "divide overflow" *)

Inductive fres : Type := Fval (t : ity) (v : Z) | Fbool (b : bool) | Ferr (code : Z).

(* the opvalfuncs of types.lua; None = the error constructor given *)
Definition raw_value (o : binop) (t0 : ity) (a b : Z) : Z + Z :=
  match o with
  | Badd => inl (a + b) | Bsub => inl (a - b) | Bmul => inl (a * b)
  | Bidiv => inl (a / b) | Bmod => inl (a mod b)
  (* 19ab3fb: 'divide overflow' only when no wider type exists (type.size >= int64.size) *)
  | Btdiv => if (a =? tmin t0) && (b =? -1) && (64 <=? bits t0) then inr ERR_DIVOVERFLOW else inl (Z.quot a b)
  | Btmod => if (a =? tmin t0) && (b =? -1) && (64 <=? bits t0) then inr ERR_DIVOVERFLOW else inl (Z.rem a b)
  | Bbor => inl (wrap_value t0 (Z.lor a b))
  | Bbxor => inl (wrap_value t0 (Z.lxor a b))
  | Bband => inl (wrap_value t0 (Z.land a b))
  (* 8e71f3c: |b| >= bitsize gives 0; a negative count shifts the representation of the type *)
  | Bshl =>
      if (bits t0 <=? b) || (b <=? - bits t0) then inl 0
      else let a' := if b <? 0 then bwrap a (bits t0) else a in inl (wrap_value t0 (bshl a' b))
  | Bshr =>
      let a' := if (a <? 0) && (0 <? b) then bwrap (Z.lor a (2 ^ (bits t0 - 1))) (bits t0) else a in
      inl (wrap_value t0 (bshr a' b))
  | Basr =>
      if (a <? 0) && (bits t0 <? b) then inl (wrap_value t0 (-1)) else inl (wrap_value t0 (bshr a b))
  | _ => inl 0
  end.

Definition cmp_value (o : binop) (a b : Z) : bool :=
  match o with
  | Blt => a <? b | Ble => a <=? b | Bgt => b <? a | Bge => b <=? a | Beq => a =? b | Bne => negb (a =? b)
  | _ => false
  end.

(* make_integral_binary_op *)
Definition fold_bin (o : binop) (lt rt : ity) (a b : Z) (lu ru : bool) : fres :=
  if is_cmpop o then Fbool (cmp_value o a b)
  else if is_divop o && (b =? 0) then Ferr ERR_DIVZERO
  else
    let t0 := op_type o lt rt a b lu ru in
    match raw_value o t0 a b with
    | inr e => Ferr e
    | inl r => let t' := promote_type_for_value t0 r in Fval t' (wrap_value t' r)
    end.

Definition fold_un (o : unop) (t : ity) (a : Z) : fres :=
  match o with
  | Uunm => let t' := promote_type_for_value t (- a) in Fval t' (wrap_value t' (- a))  (* a0670f6 *)
  | Ubnot => Fval t (wrap_value t (Z.lnot a))
  end.

(* cemitter.add_scalar_literal: out-of-range values are wrapped (again) before printing *)
Definition baked (t : ity) (v : Z) : Z :=
  if (negb (sgn t) && (v <? 0)) || negb (in_rangeb t v) then wrap_value t v else v.

(* C type of the literal token add_scalar_literal prints for the (already re-wrapped) value:
   suffix U for an unsigned numtype, LL when the value is outside cint or equals cint.min *)
Definition lit_ctype (numtype : ity) (num : Z) : ity :=
  let n := if sgn numtype && (num =? tmin numtype) then num + 1 else num in
  if in_rangeb I32 n && negb (n =? tmin I32)
  then (if sgn numtype then I32 else U32)
  else (if sgn numtype then I64 else U64).

(* implicit conversion of an integral constant *)
Definition conv_accepts (d : ity) (v : Z) : bool := in_rangeb d v.

(* ---------------------------------------------------------------- exact semantics (oracle) *)

(* Lua 5.4 meaning of the operator on mathematical integers; shifts are on the two's
   complement representation of the left operand's type (Nelua's documented semantics) *)
Definition exact_shl (t : ity) (a b : Z) : Z :=
  if b <? 0 then (if - bits t <? b then (a mod tmod t) / 2 ^ (- b) else 0)
  else if b <? bits t then (a mod tmod t) * 2 ^ b else 0.
Definition exact_shr (t : ity) (a b : Z) : Z :=
  if b <? 0 then (if - bits t <? b then (a mod tmod t) * 2 ^ (- b) else 0)
  else if b <? bits t then (a mod tmod t) / 2 ^ b else 0.
Definition exact_asr (t : ity) (a b : Z) : Z :=
  if b <? 0 then (if - bits t <? b then a * 2 ^ (- b) else 0)
  else if b <? bits t then a / 2 ^ b else (if a <? 0 then -1 else 0).

Definition exact_bin (o : binop) (t : ity) (a b : Z) : option Z :=
  match o with
  | Badd => Some (a + b) | Bsub => Some (a - b) | Bmul => Some (a * b)
  | Bidiv => if b =? 0 then None else Some (a / b)
  | Bmod => if b =? 0 then None else Some (a mod b)
  | Btdiv => if b =? 0 then None else Some (Z.quot a b)
  | Btmod => if b =? 0 then None else Some (Z.rem a b)
  | Bbor => Some (Z.lor a b) | Bbxor => Some (Z.lxor a b) | Bband => Some (Z.land a b)
  | Bshl => Some (exact_shl t a b) | Bshr => Some (exact_shr t a b) | Basr => Some (exact_asr t a b)
  | _ => None
  end.

(* ---------------------------------------------------------------- run-time side *)

Inductive rres : Type := Rval (t : ity) (v : Z) | Rbool (b : bool) | Rstop (msg : Z) | Rundef.

Fixpoint lookup1 (t : ity) (l : list (ity * cfun)) : option cfun :=
  match l with
  | [] => None
  | (t', f) :: l' => if ity_eqb t t' then Some f else lookup1 t l'
  end.
Fixpoint lookup2 (a b : ity) (l : list (ity * ity * cfun)) : option cfun :=
  match l with
  | [] => None
  | (a', b', f) :: l' => if ity_eqb a a' && ity_eqb b b' then Some f else lookup2 a b l'
  end.

(* result type when nothing is known about the operands *)
Definition rt_type (o : binop) (lt rt : ity) : ity :=
  if is_shiftop o then lt
  else if is_bitop o then (if bits lt <? bits rt then rt else lt)
  else promote_type lt rt.

Definition of_val (t : ity) (o : option Z) : rres :=
  match obind o (c_conv Gnu t) with Some v => Rval t v | None => Rundef end.
Definition of_call (t : ity) (f : option cfun) (args : list Z) : rres :=
  match f with
  | None => Rundef
  | Some f => match ccall Gnu f args with Oval v => Rval t v | Opanic m => Rstop m | Oub => Rundef end
  end.
Definition of_bool (f : option cfun) (args : list Z) (neg : bool) : rres :=
  match f with
  | None => Rundef
  | Some f => match ccall Gnu f args with
              | Oval v => Rbool (xorb neg (negb (v =? 0))) | Opanic m => Rstop m | Oub => Rundef end
  end.
Definition of_cmp (o : option Z) : rres :=
  match o with Some v => Rbool (negb (v =? 0)) | None => Rundef end.

Definition mixed (lt rt : ity) : bool := negb (Bool.eqb (sgn lt) (sgn rt)).

(* cbuiltins.operators.* on two non-constant operands *)
Definition rt_bin (o : binop) (lt rt : ity) (a b : Z) : rres :=
  let t := rt_type o lt rt in
  match o with
  | Badd => of_val t (c_add Gnu lt rt a b)
  | Bsub => of_val t (c_sub Gnu lt rt a b)
  | Bmul => of_val t (c_mul Gnu lt rt a b)
  | Bbor => of_val t (c_or Gnu lt rt a b)
  | Bbxor => of_val t (c_xor Gnu lt rt a b)
  | Bband => of_val t (c_and Gnu lt rt a b)
  (* 03b0ae0: mixed signedness is done in the result type: ((T)a / (T)b) *)
  | Btdiv => if mixed lt rt then of_val t (obind (c_conv Gnu t a) (fun a' => obind (c_conv Gnu t b) (c_div Gnu t t a')))
             else of_val t (c_div Gnu lt rt a b)
  | Btmod => if mixed lt rt then of_val t (obind (c_conv Gnu t a) (fun a' => obind (c_conv Gnu t b) (c_mod Gnu t t a')))
             else of_val t (c_mod Gnu lt rt a b)
  | Bidiv => if sgn lt || sgn rt then of_call t (lookup1 t idiv_table) [a; b] else of_val t (c_div Gnu lt rt a b)
  | Bmod => if sgn lt || sgn rt then of_call t (lookup1 t imod_table) [a; b] else of_val t (c_mod Gnu lt rt a b)
  | Bshl => of_call t (lookup1 t shl_table) [a; b]
  | Bshr => of_call t (lookup1 t shr_table) [a; b]
  | Basr => of_call t (lookup1 t asr_table) [a; b]
  | Blt => if mixed lt rt then of_bool (lookup2 lt rt lt_table) [a; b] false else of_cmp (c_lt Gnu lt rt a b)
  | Bgt => if mixed lt rt then of_bool (lookup2 rt lt lt_table) [b; a] false else of_cmp (c_gt Gnu lt rt a b)
  | Ble => if mixed lt rt then of_bool (lookup2 rt lt lt_table) [b; a] true else of_cmp (c_le Gnu lt rt a b)
  | Bge => if mixed lt rt then of_bool (lookup2 lt rt lt_table) [a; b] true else of_cmp (c_ge Gnu lt rt a b)
  | Beq => if mixed lt rt
           then (if sgn lt then of_bool (lookup2 lt rt eq_table) [a; b] false
                 else of_bool (lookup2 rt lt eq_table) [b; a] false)
           else of_cmp (c_eq Gnu lt rt a b)
  | Bne => if mixed lt rt
           then (if sgn lt then of_bool (lookup2 lt rt eq_table) [a; b] true
                 else of_bool (lookup2 rt lt eq_table) [b; a] true)
           else of_cmp (c_ne Gnu lt rt a b)
  end.

Definition rt_un (o : unop) (t : ity) (a : Z) : rres :=
  match o with
  | Uunm => of_val t (c_neg Gnu t a)
  | Ubnot => of_val t (c_not Gnu t a)
  end.

(* ---------------------------------------------------------------- nested expressions *)

(* rt_bin above is the value of `l o r` once it has been STORED in a variable of its Nelua type
   (or passed as an argument).  When the result is consumed directly by another operator, what
   counts is the C type and value of the emitted expression: operator_binary_op emits
   `(T)(l op r)` for two run-time operands of different signedness and (since 1d3f0fa) whenever
   the result type T is narrower than C int; mixed `///` `%%%` are `(T)((T)l / (T)r)` (8eb30df);
   helpers return T; otherwise the bare C expression,
   whose C type is the usual arithmetic conversion of the operand C types.  rt_bin_c gives the C
   type and value for operands of Nelua types lt rt, C types cl cr, values a b. *)
Definition plain_c (o : binop) (cl cr : ity) (a b : Z) : option Z :=
  match o with
  | Badd => c_add Gnu cl cr a b | Bsub => c_sub Gnu cl cr a b | Bmul => c_mul Gnu cl cr a b
  | Bbor => c_or Gnu cl cr a b | Bbxor => c_xor Gnu cl cr a b | Bband => c_and Gnu cl cr a b
  | Btdiv | Bidiv => c_div Gnu cl cr a b | Btmod | Bmod => c_mod Gnu cl cr a b
  | Blt => c_lt Gnu cl cr a b | Ble => c_le Gnu cl cr a b | Bgt => c_gt Gnu cl cr a b
  | Bge => c_ge Gnu cl cr a b | Beq => c_eq Gnu cl cr a b | Bne => c_ne Gnu cl cr a b
  | _ => None
  end.

(* a boolean has the C type bool/int: both promote to int *)
Definition of_stored (r : rres) : option (ity * Z) :=
  match r with Rval t v => Some (t, v) | Rbool b => Some (I32, zb b) | _ => None end.

Definition uses_helper (o : binop) (lt rt : ity) : bool :=
  is_shiftop o || (match o with Bidiv | Bmod => sgn lt || sgn rt | _ => false end) ||
  (is_cmpop o && mixed lt rt).

(* the constant-count fast paths of operators.shl / shr / asr: the count is a compile-time value
   with 0 <= b < bitsize (shr: unsigned left operand only) *)
Definition fast_count (o : binop) (lt : ity) (kc : bool) (b : Z) : bool :=
  kc && (0 <=? b) && (b <? bits lt) &&
  (match o with Bshl | Basr => true | Bshr => negb (sgn lt) | _ => false end).

(* which results the emitter casts to their own type: the three repairs 1d3f0fa (binary operators on
   a result type narrower than int), 8eb30df (mixed-signedness /// %%%), 3d9c769 (constant-count <<
   of an unsigned operand narrower than int).  The nested model is written for ANY policy; the policy
   of the code under test is read from the emitter on every run (Gen, condition + emitted statement) *)
Record cast_policy : Type := { p_binop : bool; p_tdiv : bool; p_shl : bool }.
Definition gen_policy : cast_policy :=
  {| p_binop := binop_casts_subint; p_tdiv := tdiv_mixed_casts_back; p_shl := shl_fast_casts_unsigned_subint |}.

(* shl signed: ((T)((uT)l << k)); shl unsigned: (l << k), cast to T for T narrower than int only if
   the policy says so (p_shl); shr / asr: (l >> k) *)
Definition rt_shift_fast_p (p : cast_policy) (o : binop) (lt cl : ity) (a b : Z) : option (ity * Z) :=
  match o with
  | Bshl =>
      if sgn lt then
        omap (fun v => (lt, v))
             (obind (obind (c_conv Gnu (to_unsigned lt) a) (fun a' => c_shl Gnu (to_unsigned lt) I32 a' b)) (c_conv Gnu lt))
      else if p_shl p && (bits lt <? 32) then
        omap (fun v => (lt, v)) (obind (c_shl Gnu cl I32 a b) (c_conv Gnu lt))
      else omap (fun v => (c_shift_type cl, v)) (c_shl Gnu cl I32 a b)
  | Bshr | Basr => omap (fun v => (c_shift_type cl, v)) (c_shr Gnu cl I32 a b)
  | _ => None
  end.

(* kc: the right operand is a compile-time constant (only the shift fast paths look at it here) *)
Definition rt_bin_c_p (p : cast_policy) (o : binop) (lt rt cl cr : ity) (a b : Z) (kc : bool) : option (ity * Z) :=
  let t := rt_type o lt rt in
  if fast_count o lt kc b then rt_shift_fast_p p o lt cl a b
  else if uses_helper o lt rt then
    (* the arguments are converted to the helper's parameter types by the C call *)
    of_stored (rt_bin o lt rt a b)
  else if is_cmpop o then omap (fun v => (I32, v)) (plain_c o cl cr a b)
  else if mixed lt rt && (match o with Btdiv | Btmod => true | _ => false end) then
    (* ((T)l / (T)r), cast back to T iff p_tdiv (8eb30df) *)
    let raw := obind (c_conv Gnu t a) (fun a' => obind (c_conv Gnu t b) (plain_c o t t a')) in
    if p_tdiv p then omap (fun v => (t, v)) (obind raw (c_conv Gnu t))
    else omap (fun v => (c_arith_type t t, v)) raw
  else if mixed lt rt || (p_binop p && (bits t <? 32)) then
    omap (fun v => (t, v)) (obind (plain_c o cl cr a b) (c_conv Gnu t))   (* (T)(l op r) *)
  else omap (fun v => (c_arith_type cl cr, v)) (plain_c o cl cr a b).

(* the value of `l o r` stored in a variable of its type, the count possibly a constant *)
Definition rt_bin_k_p (p : cast_policy) (o : binop) (lt rt : ity) (a b : Z) (kc : bool) : rres :=
  if fast_count o lt kc b then
    match rt_shift_fast_p p o lt lt a b with
    | Some (_, v) => of_val lt (Some v)
    | None => Rundef
    end
  else rt_bin o lt rt a b.

(* the outer operator applied to a left operand of Nelua type ti, C type ci, value v; result stored *)
Definition rt_outer_p (p : cast_policy) (o2 : binop) (ti t3 ci : ity) (v c : Z) : rres :=
  match rt_bin_c_p p o2 ti t3 ci t3 v c false with
  | None => Rundef
  | Some (_, w) =>
      if is_cmpop o2 then Rbool (negb (w =? 0))
      else match c_conv Gnu (rt_type o2 ti t3) w with Some w' => Rval (rt_type o2 ti t3) w' | None => Rundef end
  end.

(* `(x o1 y) o2 z`; k1: y is a compile-time constant *)
Definition rt_nested_l_p (p : cast_policy) (o1 o2 : binop) (t1 t2 t3 : ity) (a b c : Z) (k1 : bool) : rres :=
  match rt_bin_c_p p o1 t1 t2 t1 t2 a b k1 with
  | None => Rundef
  | Some (c1, v1) => rt_outer_p p o2 (rt_type o1 t1 t2) t3 c1 v1 c
  end.

(* the same with the inner result stored first: `local t = x o1 y; t o2 z` *)
Definition rt_stored_l_p (p : cast_policy) (o1 o2 : binop) (t1 t2 t3 : ity) (a b c : Z) (k1 : bool) : rres :=
  match rt_bin_k_p p o1 t1 t2 a b k1 with
  | Rval ti v1 => rt_outer_p p o2 ti t3 ti v1 c
  | _ => Rundef
  end.

(* the code under test *)
Definition rt_bin_c := rt_bin_c_p gen_policy.
Definition rt_bin_k := rt_bin_k_p gen_policy.
Definition rt_outer := rt_outer_p gen_policy.
Definition rt_nested_l := rt_nested_l_p gen_policy.
Definition rt_stored_l := rt_stored_l_p gen_policy.
