(* Model driver for C02: one case per line (numbers hex, types as <bits> <0|1 signed>):
     fold <op> <lb> <ls> <rb> <rs> <a> <b> <lu> <ru>  -> T <bits> <sgn> <hex> | B <0|1> | E <code>
     foldun <op> <b> <s> <a>                            -> T ... | E
     baked <b> <s> <v>                                  -> V <hex>
     conv <b> <s> <v>                                   -> OK | E
     rt <op> <lb> <ls> <rb> <rs> <a> <b>                -> V <bits> <sgn> <hex> | B <0|1> | P <code> | UB
     rtun <op> <b> <s> <a>                              -> V ... | UB *)
open Model
open Zutil

let ity b s = { bits = z_of_int (int_of_string b); sgn = (s = "1") }
let binop_of = function
  | "add" -> Badd | "sub" -> Bsub | "mul" -> Bmul | "idiv" -> Bidiv | "tdiv" -> Btdiv | "mod" -> Bmod
  | "tmod" -> Btmod | "bor" -> Bbor | "bxor" -> Bbxor | "band" -> Bband | "shl" -> Bshl | "shr" -> Bshr
  | "asr" -> Basr | "lt" -> Blt | "le" -> Ble | "gt" -> Bgt | "ge" -> Bge | "eq" -> Beq | "ne" -> Bne
  | s -> failwith ("op " ^ s)
let unop_of = function "unm" -> Uunm | "bnot" -> Ubnot | s -> failwith ("unop " ^ s)

let show_ity t = Printf.sprintf "%d %d" (int_of_z t.bits) (if t.sgn then 1 else 0)
let show_f = function
  | Fval (t, v) -> "T " ^ show_ity t ^ " " ^ hex_of_z v
  | Fbool b -> if b then "B 1" else "B 0"
  | Ferr c -> "E " ^ hex_of_z c
let show_r = function
  | Rval (t, v) -> "V " ^ show_ity t ^ " " ^ hex_of_z v
  | Rbool b -> if b then "B 1" else "B 0"
  | Rstop c -> "P " ^ hex_of_z c
  | Rundef -> "UB"

let () =
  iter_lines (fun line ->
    let out =
      try
        (match split_ws line with
         | [] -> ""
         | ["fold"; op; lb; ls; rb; rs; a; b; lu; ru] ->
             show_f (fold_bin (binop_of op) (ity lb ls) (ity rb rs) (z_of_hex a) (z_of_hex b) (lu = "1") (ru = "1"))
         | ["foldun"; op; b; s; a] -> show_f (fold_un (unop_of op) (ity b s) (z_of_hex a))
         | ["baked"; b; s; v] ->
             let t = ity b s in let r = baked t (z_of_hex v) in
             "V " ^ hex_of_z r ^ " " ^ show_ity (lit_ctype t r)
         | ["conv"; b; s; v] -> if conv_accepts (ity b s) (z_of_hex v) then "OK" else "E"
         | ["rt"; op; lb; ls; rb; rs; a; b] ->
             show_r (rt_bin (binop_of op) (ity lb ls) (ity rb rs) (z_of_hex a) (z_of_hex b))
         | ["rtnest"; o1; o2; b1; s1; b2; s2; b3; s3; a; b; c; k1] ->
             show_r (rt_nested_l (binop_of o1) (binop_of o2) (ity b1 s1) (ity b2 s2) (ity b3 s3) (z_of_hex a) (z_of_hex b) (z_of_hex c) (k1 = "1"))
             ^ " | " ^
             show_r (rt_stored_l (binop_of o1) (binop_of o2) (ity b1 s1) (ity b2 s2) (ity b3 s3) (z_of_hex a) (z_of_hex b) (z_of_hex c) (k1 = "1"))
         | ["rtun"; op; b; s; a] -> show_r (rt_un (unop_of op) (ity b s) (z_of_hex a))
         | _ -> "?bad-case")
      with e -> "!exn " ^ Printexc.to_string e
    in
    print_string out; print_newline ())
