(* Nested expressions: the value of an operator result consumed directly by another operator
   (rt_nested_l) equals its value stored first (rt_stored_l).  Split from Proofs.v. *)
From Base Require Import CInt.
From C02 Require Import Gen Model Tactics ProofsHelpers ProofsHelpersAsr ProofsHelpersCmp ProofsHelpersEq ProofsDiv Proofs.
Local Open Scope Z_scope.

(* ---------------------------------------------------------------- nested expressions *)

(* nested = stored under a cast policy p: every non-comparison inner operator, every outer operator,
   all types and ALL values, the inner right operand a run-time value or - for the shifts, the only
   operators whose emitted form looks at it - a compile-time constant (k1) *)
Definition rt_context_independent_p (p : cast_policy) : Prop :=
  forall o1 o2 t1 t2 t3 a b c k1, wf_ity t1 -> wf_ity t2 -> wf_ity t3 -> is_cmpop o1 = false ->
    (k1 = true -> is_shiftop o1 = true) ->
    in_range t1 a -> in_range t2 b -> in_range t3 c ->
    rt_nested_l_p p o1 o2 t1 t2 t3 a b c k1 = rt_stored_l_p p o1 o2 t1 t2 t3 a b c k1.

(* the statement for the code under test: the policy read from the emitter on this run *)
Definition rt_context_independent : Prop := rt_context_independent_p gen_policy.

(* the policy scraped on this run (condition + emitted cast of 1d3f0fa, 8eb30df, 3d9c769) *)
Lemma gen_policy_casts : p_binop gen_policy = true /\ p_tdiv gen_policy = true /\ p_shl gen_policy = true.
Proof. repeat split. Qed.

(* witnesses of the defects repaired by 1d3f0fa / 8eb30df / 3d9c769 *)
Lemma nested_repaired_witnesses :
  rt_nested_l Bshl Bgt U8 I64 U8 200 1 255 true = Rbool false /\ rt_stored_l Bshl Bgt U8 I64 U8 200 1 255 true = Rbool false /\
  rt_nested_l Bshl Bidiv U8 I64 U8 200 1 2 true = Rval U8 72 /\ rt_stored_l Bshl Bidiv U8 I64 U8 200 1 2 true = Rval U8 72 /\
  rt_nested_l Btdiv Bgt I8 U8 I8 (-128) 255 0 false = Rbool false /\ rt_stored_l Btdiv Bgt I8 U8 I8 (-128) 255 0 false = Rbool false /\
  rt_nested_l Badd Bgt I8 I8 I8 127 1 0 false = Rbool false /\ rt_stored_l Badd Bgt I8 I8 I8 127 1 0 false = Rbool false /\
  rt_nested_l Badd Bidiv U8 U8 U8 200 100 2 false = Rval U8 22 /\ rt_stored_l Badd Bidiv U8 U8 U8 200 100 2 false = Rval U8 22.
Proof. repeat split. Qed.

Lemma rt_bin_type o lt rt a b ti v : rt_bin o lt rt a b = Rval ti v -> ti = rt_type o lt rt.
Proof.
  unfold rt_bin, of_val, of_call, of_bool, of_cmp. destruct o;
    repeat match goal with
    | |- context [match ?x with _ => _ end] => destruct x
    end; try discriminate; intros [= <- _]; reflexivity.
Qed.

Lemma rt_bin_not_bool o lt rt a b r : is_cmpop o = false -> rt_bin o lt rt a b <> Rbool r.
Proof.
  intros Ho. unfold rt_bin, of_val, of_call. destruct o; try discriminate Ho;
    repeat match goal with
    | |- context [match ?x with _ => _ end] => destruct x
    end; discriminate.
Qed.

(* the value of a plain C operator lies in the range of its C type *)
Lemma quot_in_range ct x y : wf_ity ct -> in_range ct x -> in_range ct y -> y <> 0 ->
  ~ (sgn ct = true /\ x = tmin ct /\ y = -1) -> in_range ct (Z.quot x y).
Proof.
  intros Hc Hx Hy Hy0 Hm.
  pose proof (quot_bounds x y Hy0) as [Q1 _].
  destruct (Z.eq_dec y (-1)) as [-> | Hy1].
  - assert (E : Z.quot x (-1) = - x)
      by (change (-1) with (Z.opp 1); rewrite Z.quot_opp_r by lia; rewrite Z.quot_1_r; reflexivity).
    rewrite E. destruct (sgn ct) eqn:S.
    + destruct (Z.eq_dec x (tmin ct)) as [Ex | Ex]; [exfalso; apply Hm; auto|].
      revert Hx Ex S. ity_cases ct Hc; ity_norm; intros; try discriminate; lia.
    + revert Hy S. ity_cases ct Hc; ity_norm; intros; try discriminate; lia.
  - pose proof (quot_upper x y Hy0 Hy1) as Q3.
    assert (Q4 : 0 <= x -> 0 < y -> 0 <= Z.quot x y) by (intros; apply Z.quot_pos; lia).
    revert Hx Hy. ity_cases ct Hc; ity_norm; intros; lia.
Qed.

Lemma rem_in_range ct x y : wf_ity ct -> in_range ct x -> y <> 0 -> in_range ct (Z.rem x y).
Proof.
  intros Hc Hx Hy0. pose proof (rem_bounds x y Hy0) as [_ R2].
  pose proof (Z.rem_sign_mul x y Hy0) as S.
  assert (x < 0 -> Z.rem x y <= 0) by (intros; nia). assert (0 < x -> 0 <= Z.rem x y) by (intros; nia).
  assert (x = 0 -> Z.rem x y = 0) by (intros ->; apply Z.rem_0_l; exact Hy0).
  revert Hx. ity_cases ct Hc; ity_norm; intros; lia.
Qed.

Lemma plain_c_range o t1 t2 x y v : wf_ity t1 -> wf_ity t2 -> is_cmpop o = false ->
  plain_c o t1 t2 x y = Some v -> in_range (c_arith_type t1 t2) v.
Proof.
  intros H1 H2 Ho. pose proof (wf_arith_type t1 t2 H1 H2) as Hc.
  destruct o; try discriminate Ho; cbn [plain_c]; try discriminate.
  - rewrite c_add_modular by (try assumption; reflexivity). intros [= <-]. apply wrap_range; exact Hc.
  - rewrite c_sub_modular by (try assumption; reflexivity). intros [= <-]. apply wrap_range; exact Hc.
  - rewrite c_mul_modular by (try assumption; reflexivity). intros [= <-]. apply wrap_range; exact Hc.
  - unfold c_div, c_operands. set (ct := c_arith_type t1 t2) in *.
    destruct (wrap ct y =? 0) eqn:E0; [discriminate|].
    destruct (sgn ct && (wrap ct x =? tmin ct) && (wrap ct y =? -1)) eqn:E1; [discriminate|]. intros [= <-].
    apply quot_in_range; try apply wrap_range; try assumption; try lia.
    intros (S & A & B). rewrite S, A, B in E1. rewrite !Z.eqb_refl in E1. discriminate.
  - unfold c_div, c_operands. set (ct := c_arith_type t1 t2) in *.
    destruct (wrap ct y =? 0) eqn:E0; [discriminate|].
    destruct (sgn ct && (wrap ct x =? tmin ct) && (wrap ct y =? -1)) eqn:E1; [discriminate|]. intros [= <-].
    apply quot_in_range; try apply wrap_range; try assumption; try lia.
    intros (S & A & B). rewrite S, A, B in E1. rewrite !Z.eqb_refl in E1. discriminate.
  - unfold c_mod, c_operands. set (ct := c_arith_type t1 t2) in *.
    destruct (wrap ct y =? 0) eqn:E0; [discriminate|].
    destruct (sgn ct && (wrap ct x =? tmin ct) && (wrap ct y =? -1)); [discriminate|]. intros [= <-].
    apply rem_in_range; try apply wrap_range; try assumption; lia.
  - unfold c_mod, c_operands. set (ct := c_arith_type t1 t2) in *.
    destruct (wrap ct y =? 0) eqn:E0; [discriminate|].
    destruct (sgn ct && (wrap ct x =? tmin ct) && (wrap ct y =? -1)); [discriminate|]. intros [= <-].
    apply rem_in_range; try apply wrap_range; try assumption; lia.
  - unfold c_or, c_operands. intros [= <-]. apply wrap_range; exact Hc.
  - unfold c_xor, c_operands. intros [= <-]. apply wrap_range; exact Hc.
  - unfold c_and, c_operands. intros [= <-]. apply wrap_range; exact Hc.
Qed.

(* the C type of an unconverted wide expression is its Nelua type *)
Lemma wide_type_eq o t1 t2 : wf_ity t1 -> wf_ity t2 -> is_cmpop o = false -> is_shiftop o = false ->
  mixed t1 t2 = false -> (bits (rt_type o t1 t2) <? 32) = false -> c_arith_type t1 t2 = rt_type o t1 t2.
Proof.
  intros H1 H2 Hc Hs. unfold rt_type. rewrite Hs.
  destruct (is_bitop o); ity_cases t1 H1; ity_cases t2 H2; vm_compute; intros; try reflexivity; try congruence.
Qed.

Lemma wide_self_type t : wf_ity t -> (bits t <? 32) = false -> c_arith_type t t = t.
Proof. intros Ht. ity_cases t Ht; vm_compute; intros; try reflexivity; congruence. Qed.

Lemma rt_type_wf o t1 t2 : wf_ity t1 -> wf_ity t2 -> wf_ity (rt_type o t1 t2).
Proof. intros H1 H2. unfold rt_type. destruct (is_shiftop o); [exact H1|]. destruct (is_bitop o); ity_cases t1 H1; ity_cases t2 H2; reflexivity. Qed.

(* operators emitted as a plain C operator: what rt_bin is for them *)
Definition plain_op (o : binop) (t1 t2 : ity) : bool :=
  negb (uses_helper o t1 t2) && negb (is_cmpop o) &&
  negb (mixed t1 t2 && (match o with Btdiv | Btmod => true | _ => false end)).

Lemma rt_bin_plain o t1 t2 a b : plain_op o t1 t2 = true ->
  rt_bin o t1 t2 a b = of_val (rt_type o t1 t2) (plain_c o t1 t2 a b).
Proof.
  unfold plain_op, uses_helper, rt_bin. intros H.
  destruct o; cbn [is_shiftop is_cmpop orb andb negb plain_c] in *; try discriminate H; try reflexivity;
    repeat match goal with
    | |- context [if ?c then _ else _] => destruct c; cbn [orb andb negb] in H; try discriminate H
    end; reflexivity.
Qed.

Section Policy.
Variable p : cast_policy.

(* ---- the outer operator sees the C type of its left operand only through its promotion *)

Lemma promote_idem t : wf_ity t -> promote (promote t) = promote t.
Proof. intros Ht. ity_cases t Ht; reflexivity. Qed.

Lemma plain_c_ctype o ci ci' cr x y : c_arith_type ci cr = c_arith_type ci' cr ->
  plain_c o ci cr x y = plain_c o ci' cr x y.
Proof.
  intros E. destruct o; cbn [plain_c]; try reflexivity;
    unfold c_add, c_sub, c_mul, c_div, c_mod, c_and, c_or, c_xor, c_lt, c_le, c_gt, c_ge, c_eq, c_ne, c_operands;
    rewrite E; reflexivity.
Qed.

Lemma rt_outer_promote o2 ti t3 ci ci' v c : promote ci = promote ci' ->
  rt_outer_p p o2 ti t3 ci v c = rt_outer_p p o2 ti t3 ci' v c.
Proof.
  intros P. assert (E : c_arith_type ci t3 = c_arith_type ci' t3) by (unfold c_arith_type; rewrite P; reflexivity).
  unfold rt_outer_p, rt_bin_c_p. cbn [fast_count andb].
  rewrite (plain_c_ctype o2 ci ci' t3 v c E), E. reflexivity.
Qed.

(* ---- the fast paths *)

Lemma shr_in_range t a k : wf_ity t -> in_range t a -> 0 <= k -> in_range t (a / 2 ^ k).
Proof.
  intros Ht Ha Hk. assert (HP : 1 <= 2 ^ k) by (pose proof (Z.pow_pos_nonneg 2 k ltac:(lia) Hk); lia).
  generalize dependent (2 ^ k). intros P HP.
  pose proof (Z.mul_div_le a P ltac:(lia)). pose proof (Z.mul_succ_div_gt a P ltac:(lia)).
  assert (0 <= a -> 0 <= a / P <= a) by (intros; split; [apply Z.div_pos; lia | nia]).
  assert (a < 0 -> a <= a / P < 0) by (intros; nia).
  revert Ha. ity_cases t Ht; ity_norm; intros; lia.
Qed.

Lemma conv_gnu_range t x v : wf_ity t -> c_conv Gnu t x = Some v -> in_range t v.
Proof. intros Ht. rewrite c_conv_gnu by exact Ht. intros [= <-]. apply wrap_range; exact Ht. Qed.

(* value and C type of a fast-path shift: the value is in the range of the left type and the C type
   promotes like it - provided the unsigned sub-int `<<` is cast *)
Lemma shift_fast_ok o t a b c1 v1 : wf_ity t -> in_range t a -> fast_count o t true b = true ->
  (o = Bshl -> sgn t = false -> (bits t <? 32) = true -> p_shl p = true) ->
  rt_shift_fast_p p o t t a b = Some (c1, v1) -> in_range t v1 /\ promote c1 = promote t.
Proof.
  intros Ht Ha Hf Hcast. unfold fast_count in Hf. cbn [andb] in Hf.
  apply andb_prop in Hf. destruct Hf as [Hf Ho]. apply andb_prop in Hf. destruct Hf as [Hb0 Hb1].
  assert (B0 : 0 <= b) by lia. assert (B1 : b < bits t) by lia.
  destruct o; try discriminate Ho; cbn [rt_shift_fast_p].
  - (* shl *)
    destruct (sgn t) eqn:S.
    + destruct (obind (obind (c_conv Gnu (to_unsigned t) a) (fun a' => c_shl Gnu (to_unsigned t) I32 a' b)) (c_conv Gnu t)) as [v|] eqn:E;
        cbn [omap]; [|discriminate]. intros [= <- <-]. split; [|reflexivity].
      destruct (obind (c_conv Gnu (to_unsigned t) a) (fun a' => c_shl Gnu (to_unsigned t) I32 a' b)) as [w|]; cbn [obind] in E; [|discriminate].
      eapply conv_gnu_range; eassumption.
    + destruct (p_shl p && (bits t <? 32)) eqn:C.
      * destruct (obind (c_shl Gnu t I32 a b) (c_conv Gnu t)) as [v|] eqn:E; cbn [omap]; [|discriminate]. intros [= <- <-].
        split; [|reflexivity]. destruct (c_shl Gnu t I32 a b) as [w|]; cbn [obind] in E; [|discriminate].
        eapply conv_gnu_range; eassumption.
      * (* uncast: only for types at least as wide as int *)
        assert (W : (bits t <? 32) = false).
        { destruct (bits t <? 32) eqn:W; [|reflexivity]. rewrite (Hcast eq_refl eq_refl eq_refl) in C. discriminate C. }
        assert (Pt : promote t = t) by (revert W; ity_cases t Ht; vm_compute; intros; try reflexivity; congruence).
        unfold c_shift_type. rewrite Pt. unfold c_shl, c_shift_type. rewrite Pt, S.
        destruct ((b <? 0) || (bits t <=? b)); cbn [omap]; [discriminate|]. intros [= <- <-]. split; [|congruence].
        pose proof (tmod_pos t Ht). revert S. ity_cases t Ht; ity_norm; intros; try discriminate; lia.
  - (* shr (unsigned left operand) *)
    unfold c_shr, c_shift_type.
    assert (Bp : bits t <= bits (promote t)) by (ity_cases t Ht; vm_compute; congruence).
    destruct ((b <? 0) || (bits (promote t) <=? b)) eqn:G; [lia|].
    assert (S : sgn t = false) by (destruct (sgn t); [discriminate Ho | reflexivity]).
    assert (A0 : 0 <= a) by (revert Ha S; ity_cases t Ht; ity_norm; intros; try discriminate; lia).
    assert (N : (a <? 0) = false) by lia. rewrite N, Bool.andb_false_r. cbn [omap]. intros [= <- <-].
    split; [apply shr_in_range; assumption | apply promote_idem; exact Ht].
  - (* asr *)
    unfold c_shr, c_shift_type.
    assert (Bp : bits t <= bits (promote t)) by (ity_cases t Ht; vm_compute; congruence).
    destruct ((b <? 0) || (bits (promote t) <=? b)) eqn:G; [lia|].
    cbn [is_gnu]. destruct (sgn (promote t) && (a <? 0)); cbn [omap]; intros [= <- <-];
      (split; [apply shr_in_range; assumption | apply promote_idem; exact Ht]).
Qed.

(* ---- the general statement, under the condition on the unsigned sub-int `<<` fast path *)
Lemma nested_eq_gen o1 o2 t1 t2 t3 a b c k1 : p_binop p = true -> p_tdiv p = true ->
  wf_ity t1 -> wf_ity t2 -> is_cmpop o1 = false -> in_range t1 a ->
  (fast_count o1 t1 k1 b = true -> o1 = Bshl -> sgn t1 = false -> (bits t1 <? 32) = true ->
   p_shl p = true) ->
  rt_nested_l_p p o1 o2 t1 t2 t3 a b c k1 = rt_stored_l_p p o1 o2 t1 t2 t3 a b c k1.
Proof.
  intros Hb Ht H1 H2 Hc Ha Hcast. unfold rt_nested_l_p, rt_stored_l_p, rt_bin_k_p, rt_bin_c_p.
  destruct (fast_count o1 t1 k1 b) eqn:F.
  { assert (K : k1 = true) by (unfold fast_count in F; destruct k1; [reflexivity | discriminate F]). subst k1.
    assert (T : rt_type o1 t1 t2 = t1).
    { unfold fast_count in F. unfold rt_type. destruct o1; cbn [is_shiftop]; try reflexivity;
        rewrite !Bool.andb_false_r in F; discriminate F. }
    rewrite T.
    destruct (rt_shift_fast_p p o1 t1 t1 a b) as [[c1 v1]|] eqn:E; [|reflexivity].
    destruct (shift_fast_ok o1 t1 a b c1 v1 H1 Ha F (Hcast eq_refl) E) as [Hv Hp].
    unfold of_val. cbn [obind]. rewrite c_conv_inrange by assumption.
    apply rt_outer_promote. exact Hp. }
  pose proof (rt_type_wf o1 t1 t2 H1 H2) as Hwt. set (t := rt_type o1 t1 t2) in *.
  destruct (uses_helper o1 t1 t2) eqn:U.
  { destruct (rt_bin o1 t1 t2 a b) as [ti v | r | m |] eqn:R; cbn [of_stored]; try reflexivity.
    - apply rt_bin_type in R. subst ti. reflexivity.
    - exfalso. exact (rt_bin_not_bool _ _ _ _ _ _ Hc R). }
  rewrite Hc, Hb, Ht. cbn [andb].
  destruct (mixed t1 t2 && match o1 with Btdiv | Btmod => true | _ => false end) eqn:MD.
  { (* (T)((T)l / (T)r) *)
    apply andb_prop in MD. destruct MD as [M D].
    assert (R : rt_bin o1 t1 t2 a b = of_val t (obind (c_conv Gnu t a) (fun a' => obind (c_conv Gnu t b) (plain_c o1 t t a')))).
    { unfold rt_bin. fold t. destruct o1; try discriminate D; rewrite M; reflexivity. }
    rewrite R. unfold of_val.
    destruct (obind (obind (c_conv Gnu t a) (fun a' => obind (c_conv Gnu t b) (plain_c o1 t t a'))) (c_conv Gnu t));
      cbn [omap]; reflexivity. }
  assert (PO : plain_op o1 t1 t2 = true) by (unfold plain_op; rewrite U, Hc, MD; reflexivity).
  rewrite (rt_bin_plain o1 t1 t2 a b PO). fold t. unfold of_val.
  destruct (mixed t1 t2 || (bits t <? 32)) eqn:C.
  { destruct (plain_c o1 t1 t2 a b) as [raw|]; cbn [obind omap]; [|reflexivity].
    destruct (c_conv Gnu t raw); cbn [omap]; reflexivity. }
  apply orb_false_elim in C. destruct C as [M W].
  assert (Hs : is_shiftop o1 = false).
  { unfold uses_helper in U. destruct (is_shiftop o1); [discriminate U | reflexivity]. }
  pose proof (wide_type_eq o1 t1 t2 H1 H2 Hc Hs M W) as E. fold t in E.
  destruct (plain_c o1 t1 t2 a b) as [raw|] eqn:P; cbn [obind omap]; [|reflexivity].
  pose proof (plain_c_range o1 t1 t2 a b raw H1 H2 Hc P) as Hr. rewrite E in Hr |- *.
  rewrite c_conv_inrange by assumption. reflexivity.
Qed.

End Policy.

(* nested = stored holds EXACTLY under the policy that casts in all three places: each cast is needed
   (witnesses: the inputs of the three repaired defects) and together they suffice *)
Lemma rt_context_independent_if_cast p :
  p_binop p = true -> p_tdiv p = true -> p_shl p = true -> rt_context_independent_p p.
Proof.
  intros Hb Ht Hs o1 o2 t1 t2 t3 a b c k1 H1 H2 _ Hc _ Ha _ _. apply nested_eq_gen; try assumption. intros; exact Hs.
Qed.

Ltac use_witness H o1 o2 t1 t2 t3 a b c k1 :=
  let E := fresh "E" in
  assert (E : rt_nested_l_p _ o1 o2 t1 t2 t3 a b c k1 = rt_stored_l_p _ o1 o2 t1 t2 t3 a b c k1)
    by (apply H; first [reflexivity | (intros; discriminate) | (vm_compute; split; intros; discriminate)]);
  vm_compute in E; discriminate E.

Lemma rt_context_independent_casts_needed p :
  rt_context_independent_p p -> p_binop p = true /\ p_tdiv p = true /\ p_shl p = true.
Proof.
  intros H. destruct p as [pb pt ps]. cbn [p_binop p_tdiv p_shl]. repeat split.
  - destruct pb; [reflexivity | exfalso]. destruct pt, ps; use_witness H Badd Bgt I8 I8 I8 127 1 0 false.
  - destruct pt; [reflexivity | exfalso]. destruct pb, ps; use_witness H Btdiv Bgt I8 U8 I8 (-128) 255 0 false.
  - destruct ps; [reflexivity | exfalso]. destruct pb, pt; use_witness H Bshl Bgt U8 I64 U8 200 1 255 true.
Qed.

Lemma rt_context_independent_iff_policy p :
  rt_context_independent_p p <-> (p_binop p = true /\ p_tdiv p = true /\ p_shl p = true).
Proof.
  split; [apply rt_context_independent_casts_needed | intros (Hb & Ht & Hs); apply rt_context_independent_if_cast; assumption].
Qed.

(* ... and the emitter read on this run has that policy: FULL strength for the code under test *)
Lemma rt_context_independent_holds : rt_context_independent.
Proof. apply rt_context_independent_iff_policy. exact gen_policy_casts. Qed.

(* ---- the fast path of a compile-time count computes what the helper computes (so the theorems about
   rt_bin - modularity, fold = run time - speak about constant counts as well): exhaustively for the
   8-bit types, all three shifts, every value and every count from -2 to bits + 1 *)
Definition rres_eqb (x y : rres) : bool :=
  match x, y with
  | Rval t v, Rval t' v' => ity_eqb t t' && (v =? v')
  | Rbool b, Rbool b' => Bool.eqb b b'
  | Rstop m, Rstop m' => m =? m'
  | Rundef, Rundef => true
  | _, _ => false
  end.
Definition zrange (lo n : Z) : list Z := map (fun i => lo + Z.of_nat i) (seq 0 (Z.to_nat n)).
Definition fast_eq_helper_on (t : ity) : bool :=
  forallb (fun o => forallb (fun a => forallb (fun b =>
     rres_eqb (rt_bin_k o t I64 a b true) (rt_bin o t I64 a b)) (zrange (-2) (bits t + 4))) (zrange (tmin t) (tmod t)))
    [Bshl; Bshr; Basr].
Lemma fast_eq_helper_8 : fast_eq_helper_on I8 = true /\ fast_eq_helper_on U8 = true.
Proof. split; vm_compute; reflexivity. Qed.
