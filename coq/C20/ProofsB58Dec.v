(* base58_decode of hasher.c (model) computes the positional specification for every string within
   the decode limit: it rejects exactly the strings containing a non-alphabet byte, never overflows
   its 90 limbs, and the "result at the end of the buffer" convention yields the canonical bytes. *)
From Coq Require Import ZArith List Bool Lia.
From C20 Require Import Spec Model ProofsCompress ProofsBuffer ProofsDigits ProofsB58Spec ProofsB58Enc.
Import ListNotations.
Local Open Scope Z_scope.
Ltac Zify.zify_post_hook ::= Z.div_mod_to_equations.

Definition B32 : Z := 4294967296.

(* ---------- (T) facts about the scraped decode parameters ---------- *)

Lemma dec_base_eq : B58_DEC_BASE = 58. Proof. apply b58_tables_are_bitcoin. Qed.
Lemma carrymask_eq : B58_DEC_CARRYMASK = 0x3f00000000. Proof. apply b58_tables_are_bitcoin. Qed.
Lemma carryshift_eq : B58_DEC_CARRYSHIFT = 32. Proof. apply b58_tables_are_bitcoin. Qed.
Lemma limbmask_eq : B58_DEC_LIMBMASK = 0xffffffff. Proof. apply b58_tables_are_bitcoin. Qed.

Lemma bytesleft_zero : b58_bytesleft = 0. Proof. vm_compute. reflexivity. Qed.
Lemma zeromask_zero : b58_zeromask = 0. Proof. vm_compute. reflexivity. Qed.
Lemma dec_maxlen_pos : 0 < B58_DECODE_MAXLEN. Proof. vm_compute. reflexivity. Qed.
Lemma dec_maxlen_mult : B58_DECODE_MAXLEN = 4 * (B58_DECODE_MAXLEN / 4). Proof. vm_compute. reflexivity. Qed.
(* 58^360 < 2^(32*90): the limb array cannot overflow within the decode limit *)
Lemma dec_no_overflow : 58 ^ B58_DECODE_MAXLEN <= B32 ^ (B58_DECODE_MAXLEN / 4).
Proof. vm_compute. discriminate. Qed.

(* map table = inverse of the alphabet on 0..127; bytes with the high bit set are not in the alphabet *)
Lemma map_table c : 0 <= c < 256 ->
  (Z.land c 128 =? 0) = false /\ index_of c BITCOIN_ALPHABET 0 = None \/
  (Z.land c 128 =? 0) = true /\ nth (Z.to_nat c) B58_MAP_C (-1) = match index_of c BITCOIN_ALPHABET 0 with Some d => d | None => -1 end.
Proof.
  intros Hc.
  pose proof (forallb_zrange
    (fun c => if Z.land c 128 =? 0
              then nth (Z.to_nat c) B58_MAP_C (-1) =? match index_of c BITCOIN_ALPHABET 0 with Some d => d | None => -1 end
              else match index_of c BITCOIN_ALPHABET 0 with Some _ => false | None => true end) 256
    ltac:(vm_compute; reflexivity) c Hc) as H.
  cbv beta in H. destruct (Z.land c 128 =? 0).
  - right. split; [reflexivity|]. apply Z.eqb_eq. exact H.
  - left. split; [reflexivity|]. destruct (index_of c BITCOIN_ALPHABET 0); [discriminate|reflexivity].
Qed.

(* ---------- one multiply-add pass over the limbs ---------- *)

Lemma carry_bits t : 0 <= t -> Z.shiftr (Z.land t 0x3f00000000) 32 = (t / B32) mod 64.
Proof.
  intros Ht. rewrite Z.shiftr_land. change (Z.shiftr 0x3f00000000 32) with (Z.ones 6).
  rewrite Z.land_ones, Z.shiftr_div_pow2 by lia. reflexivity.
Qed.

Lemma limb_bits t : Z.land t 0xffffffff = t mod B32.
Proof. change 0xffffffff with (Z.ones 32). rewrite Z.land_ones by lia. reflexivity. Qed.

Lemma mul_add_ok l : forall c, Forall (digit B32) l -> 0 <= c < 58 ->
  exists l' c', b58_mul_add l c = (l', c') /\
    le_val B32 l' + c' * B32 ^ Z.of_nat (length l) = 58 * le_val B32 l + c /\
    Forall (digit B32) l' /\ length l' = length l /\ 0 <= c' < 58.
Proof.
  induction l as [|x r IH]; intros c Hl Hc; cbn [b58_mul_add].
  - exists [], c. cbn [le_val length]. change (B32 ^ Z.of_nat 0) with 1. splits; try reflexivity; try lia. constructor.
  - inversion Hl as [|? ? Hx Hr]; subst. unfold digit, B32 in Hx.
    rewrite dec_base_eq, carrymask_eq, carryshift_eq, limbmask_eq.
    rewrite w64_small by (rewrite W64_val; lia).
    rewrite carry_bits, limb_bits by lia.
    assert (Hq : 0 <= (x * 58 + c) / B32 < 58) by (unfold B32; lia).
    rewrite (Z.mod_small _ 64) by lia.
    destruct (IH ((x * 58 + c) / B32) Hr Hq) as (r' & c' & E & Hv & Hd & Hlen & Hc').
    rewrite E. exists ((x * 58 + c) mod B32 :: r'), c'.
    splits; try reflexivity; try assumption; try lia.
    + cbn [le_val length]. rewrite Nat2Z.inj_succ, Z.pow_succ_r by lia.
      set (P := B32 ^ Z.of_nat (length r)) in *. unfold B32 in *. nia.
    + constructor; [unfold digit, B32; lia|exact Hd].
    + cbn [length]. rewrite Hlen. reflexivity.
Qed.

(* ---------- the digit loop ---------- *)

Definition valid_char (c d : Z) : Prop := index_of c BITCOIN_ALPHABET 0 = Some d.

Lemma be_value_digits_range b ds : 2 <= b -> Forall (digit b) ds -> 0 <= be_value b ds < b ^ Z.of_nat (length ds).
Proof.
  intros Hb H. rewrite be_value_rev. rewrite <- rev_length. apply le_val_range; [lia|]. apply Forall_rev. exact H.
Qed.

Lemma valid_char_digit c d : valid_char c d -> digit 58 d.
Proof. intros H. apply char_of_index in H. exact (proj1 H). Qed.

Lemma Forall2_valid_digits s ds : Forall2 valid_char s ds -> Forall (digit 58) ds.
Proof. induction 1 as [|c d s ds H _ IH]; constructor; [eapply valid_char_digit; exact H|exact IH]. Qed.

Lemma Forall2_len {A B} (R : A -> B -> Prop) l1 l2 : Forall2 R l1 l2 -> length l1 = length l2.
Proof. induction 1; cbn [length]; congruence. Qed.

Lemma dec_loop_ok s : forall ds l,
  Forall is_byte s -> Forall2 valid_char s ds -> Forall (digit B32) l ->
  le_val B32 l * 58 ^ Z.of_nat (length s) + be_value 58 ds < B32 ^ Z.of_nat (length l) ->
  exists l', b58_dec_loop s l = Some l' /\
    le_val B32 l' = le_val B32 l * 58 ^ Z.of_nat (length s) + be_value 58 ds /\
    Forall (digit B32) l' /\ length l' = length l.
Proof.
  induction s as [|ch s IH]; intros ds l Hs Hv Hl Hlt; inversion Hv as [|? d ? ds' Hc Hv']; subst; cbn [b58_dec_loop]; rewrite ?highbit_eq.
  - exists l. cbn [length]. change (58 ^ Z.of_nat 0) with 1. change (be_value 58 []) with 0.
    splits; try reflexivity; try assumption. lia.
  - inversion Hs as [|? ? Hb Hs']; subst.
    pose proof (valid_char_digit _ _ Hc) as Hd. unfold digit in Hd.
    destruct (map_table ch Hb) as [[_ Hn]|[Hhi Hm]]; [unfold valid_char in Hc; congruence|].
    rewrite Hhi. cbn [negb]. rewrite Hm. unfold valid_char in Hc. rewrite Hc.
    destruct (Z.eqb_spec d (-1)); [lia|].
    rewrite (Z.mod_small d 4294967296) by lia.
    destruct (mul_add_ok l d Hl Hd) as (l1 & c1 & E & Hval & Hl1 & Hlen1 & Hc1).
    rewrite E.
    pose proof (Forall2_valid_digits _ _ Hv') as Hds'.
    pose proof (be_value_digits_range 58 ds' ltac:(lia) Hds') as Hr.
    pose proof (Forall2_len _ _ _ Hv') as Hlen.
    rewrite be_value_cons in Hlt |- *. cbn [length] in Hlt |- *. rewrite Nat2Z.inj_succ, Z.pow_succ_r in Hlt |- * by lia.
    rewrite <- Hlen in *.
    set (P := 58 ^ Z.of_nat (length s)) in *. assert (HP : 0 < P) by (apply Z.pow_pos_nonneg; lia).
    set (Q := B32 ^ Z.of_nat (length l)) in *.
    pose proof (le_val_range B32 ltac:(unfold B32; lia) l Hl) as Hlr. fold Q in Hlr.
    pose proof (le_val_range B32 ltac:(unfold B32; lia) l1 Hl1) as Hl1r. rewrite Hlen1 in Hl1r. fold Q in Hl1r.
    assert (Hc0 : c1 = 0) by nia. subst c1.
    cbn [negb Z.eqb]. rewrite zeromask_zero, Z.land_0_r. cbn [negb Z.eqb].
    destruct (IH ds' l1 Hs' Hv' Hl1) as (l' & E' & Hval' & Hl' & Hlen').
    { rewrite Hlen1. fold Q. fold P. nia. }
    exists l'. rewrite E'. splits; try reflexivity; try assumption; [|lia].
    rewrite Hval'. fold P. nia.
Qed.

Lemma dec_loop_invalid s : forall l, Forall is_byte s ->
  (exists c, In c s /\ index_of c BITCOIN_ALPHABET 0 = None) -> b58_dec_loop s l = None.
Proof.
  induction s as [|ch s IH]; intros l Hs (c & Hin & Hc); [destruct Hin|].
  inversion Hs as [|? ? Hb Hs']; subst. cbn [b58_dec_loop]. rewrite highbit_eq.
  destruct (map_table ch Hb) as [[Hhi Hn]|[Hhi Hm]]; rewrite Hhi; cbn [negb]; [reflexivity|].
  rewrite Hm.
  destruct (index_of ch BITCOIN_ALPHABET 0) as [d|] eqn:E; [|reflexivity].
  destruct (d =? -1); [reflexivity|].
  destruct (b58_mul_add l (d mod 4294967296)) as [l' c'].
  destruct (negb (c' =? 0)); [reflexivity|].
  destruct (negb (Z.land (last l' 0) b58_zeromask =? 0)); [reflexivity|].
  apply IH; [exact Hs'|]. destruct Hin as [->|Hin]; [congruence|]. exists c. auto.
Qed.

(* ---------- byte emission ---------- *)

Lemma be_bytes4_value x : 0 <= x < B32 ->
  be_value 256 (be_bytes4 x) = x /\ Forall (digit 256) (be_bytes4 x).
Proof.
  intros Hx. unfold be_bytes4, B32 in *.
  change 255 with (Z.ones 8). rewrite !Z.land_ones, !Z.shiftr_div_pow2 by lia.
  change (2 ^ 24) with (256 * 256 * 256). change (2 ^ 16) with (256 * 256). change (2 ^ 8) with 256.
  rewrite <- !Z.div_div by lia.
  split.
  - unfold be_value. cbn [fold_left]. lia.
  - repeat constructor; unfold digit; lia.
Qed.

Lemma be_bytes_limbs l : Forall (digit B32) l ->
  be_value 256 (flat_map be_bytes4 (rev l)) = le_val B32 l /\
  Forall (digit 256) (flat_map be_bytes4 (rev l)) /\
  length (flat_map be_bytes4 (rev l)) = (4 * length l)%nat.
Proof.
  induction 1 as [|x l Hx Hl (IH1 & IH2 & IH3)]; [repeat split; constructor|].
  cbn [rev]. rewrite flat_map_app. cbn [flat_map]. rewrite app_nil_r.
  destruct (be_bytes4_value x Hx) as [Hv Hd].
  splits.
  - rewrite be_value_app, IH1, Hv. cbn [le_val]. change (length (be_bytes4 x)) with 4%nat.
    change (256 ^ Z.of_nat 4) with B32. ring.
  - apply Forall_app. split; assumption.
  - rewrite app_length, IH3. change (length (be_bytes4 x)) with 4%nat. cbn [length]. lia.
Qed.

Lemma be_digits_length_le v k : 0 <= v < 256 ^ Z.of_nat k -> (length (be_digits 256 v) <= k)%nat.
Proof.
  intros Hv. destruct (be_digits_props 256 ltac:(lia) v ltac:(lia)) as (Hd & Hc & Hval).
  destruct (be_digits 256 v) as [|x D] eqn:E; [cbn [length]; lia|].
  destruct Hc as [|Hc]; [discriminate|]. cbn [hd] in Hc.
  pose proof (Forall_inv Hd) as Hx. pose proof (Forall_inv_tail Hd) as HD. unfold digit in Hx.
  rewrite be_value_cons in Hval.
  pose proof (be_value_digits_range 256 D ltac:(lia) HD) as Hr.
  destruct (Nat.le_gt_cases (length (x :: D)) k) as [|Hgt]; [assumption|exfalso].
  cbn [length] in Hgt.
  assert (256 ^ Z.of_nat k <= 256 ^ Z.of_nat (length D)) by (apply Z.pow_le_mono_r; lia).
  nia.
Qed.

Lemma skipn_zeros_app k n (l : list Z) : (k <= n)%nat -> skipn k (repeat 0 n ++ l) = repeat 0 (n - k) ++ l.
Proof.
  revert n. induction k as [|k IH]; intros n Hk; [rewrite Nat.sub_0_r; reflexivity|].
  destruct n as [|n]; [lia|]. cbn [repeat app skipn Nat.sub]. apply IH. lia.
Qed.

Lemma lead_char_eq x l : lead_char x l = lead_count x l.
Proof. induction l as [|y l IH]; [reflexivity|]. cbn [lead_char lead_count]. rewrite IH. reflexivity. Qed.

Lemma valid_lead s ds : Forall2 valid_char s ds -> lead_count 49 s = lead_count 0 ds.
Proof.
  induction 1 as [|c d s ds Hc _ IH]; [reflexivity|]. cbn [lead_count].
  pose proof (char_of_index _ _ Hc) as [_ Hch].
  destruct (Z.eqb_spec c 49) as [->|Hne]; destruct (Z.eqb_spec d 0) as [->|Hd].
  - rewrite IH. reflexivity.
  - unfold valid_char in Hc. change (index_of 49 BITCOIN_ALPHABET 0) with (Some 0) in Hc. congruence.
  - rewrite b58_char_0 in Hch. congruence.
  - reflexivity.
Qed.

Lemma Forall2_skipn {A B} (R : A -> B -> Prop) n : forall l1 l2, Forall2 R l1 l2 -> Forall2 R (skipn n l1) (skipn n l2).
Proof. induction n as [|n IH]; intros l1 l2 H; [exact H|]. destruct H; [constructor|]. cbn [skipn]. apply IH. assumption. Qed.

Lemma In_skipn {A} (x : A) n l : In x (skipn n l) -> In x l.
Proof. intros H. rewrite <- (firstn_skipn n l). apply in_or_app. right. exact H. Qed.

(* ---------- base58_decode / lbase58_decode ---------- *)

Lemma lbase58_decode_ok s : Forall is_byte s -> Z.of_nat (length s) <= B58_DECODE_MAXLEN ->
  lbase58_decode s = match base58_spec_decode s with Some r => LOk r | None => LErrDecode end.
Proof.
  intros Hs Hlen. unfold lbase58_decode.
  destruct (Z.eqb_spec (Z.of_nat (length s)) 0) as [He|Hne].
  { destruct s; [reflexivity|cbn [length] in He; lia]. }
  destruct (Z.ltb_spec B58_DECODE_MAXLEN (Z.of_nat (length s))); [lia|].
  unfold base58_decode. rewrite pad_dec_eq, lead_char_eq.
  set (zc := lead_count 49 s). set (rest := skipn zc s).
  set (outisz := Z.to_nat (B58_DECODE_MAXLEN / 4)).
  assert (Hrest : Forall is_byte rest) by (subst rest; apply Forall_skipn; exact Hs).
  pose proof (lead_count_le 49 s) as Hzc. fold zc in Hzc.
  assert (Hrl : length rest = (length s - zc)%nat) by (subst rest; apply skipn_length).
  destruct (base58_spec_decode s) as [r|] eqn:Espec.
  - unfold base58_spec_decode in Espec.
    destruct (all_some (map (fun c => index_of c BITCOIN_ALPHABET 0) s)) as [ds|] eqn:Eall; [|discriminate].
    apply all_some_Forall2 in Eall. fold valid_char in Eall.
    pose proof (valid_lead s ds Eall) as Hz. fold zc in Hz. rewrite <- Hz in Espec.
    pose proof (Forall2_skipn valid_char zc s ds Eall) as Hv. fold rest in Hv.
    set (dr := skipn zc ds) in *.
    pose proof (Forall2_valid_digits _ _ Hv) as Hdr.
    pose proof (be_value_digits_range 58 dr ltac:(lia) Hdr) as HV.
    pose proof (Forall2_len _ _ _ Hv) as Hlen2. rewrite <- Hlen2 in HV.
    pose proof dec_no_overflow as Hno. pose proof dec_maxlen_pos as Hpos. pose proof dec_maxlen_mult as Hmult.
    assert (Hp1 : 58 ^ Z.of_nat (length rest) <= 58 ^ B58_DECODE_MAXLEN) by (apply Z.pow_le_mono_r; lia).
    destruct (dec_loop_ok rest dr (repeat 0 outisz) Hrest Hv (Forall_repeat0 B32 outisz ltac:(reflexivity))) as (l & E & Hval & Hl & Hll).
    { rewrite le_val_zeros, repeat_length. subst outisz. rewrite Z2Nat.id by lia. lia. }
    rewrite E. rewrite le_val_zeros in Hval. rewrite repeat_length in Hll.
    rewrite bytesleft_zero. cbn [Z.eqb app].
    destruct (be_bytes_limbs l Hl) as (Hbv & Hbd & Hbl).
    set (bin := flat_map be_bytes4 (rev l)) in *.
    assert (Hbinlen : Z.of_nat (length bin) = B58_DECODE_MAXLEN) by (rewrite Hbl, Hll; subst outisz; lia).
    rewrite firstn_all2 by lia.
    rewrite lead_zeros_eq.
    pose proof (strip_zeros_split bin) as Hsplit. rewrite lead_zeros_eq in Hsplit.
    set (lz := lead_count 0 bin) in *.
    assert (Hstrip : strip_zeros bin = be_digits 256 (be_value 58 dr)).
    { rewrite (strip_be_digits 256 ltac:(lia) bin Hbd), Hbv, Hval. f_equal; lia. }
    assert (Hsl : (length (strip_zeros bin) <= length rest)%nat).
    { rewrite Hstrip. apply be_digits_length_le. split; [lia|].
      apply Z.lt_le_trans with (58 ^ Z.of_nat (length rest)); [lia|].
      apply Z.pow_le_mono_l. lia. }
    assert (Hlz : Z.of_nat lz + Z.of_nat (length (strip_zeros bin)) = B58_DECODE_MAXLEN).
    { pose proof (f_equal (@length Z) Hsplit) as HL. rewrite app_length, repeat_length in HL. lia. }
    destruct (Z.ltb_spec B58_DECODE_MAXLEN (B58_DECODE_MAXLEN - Z.of_nat lz + Z.of_nat zc)) as [Hbad|_]; [lia|].
    rewrite Hbinlen, Z.eqb_refl. cbn [negb orb].
    replace (Z.to_nat (B58_DECODE_MAXLEN - (B58_DECODE_MAXLEN - Z.of_nat lz + Z.of_nat zc))) with (lz - zc)%nat by lia.
    rewrite Hsplit. rewrite skipn_zeros_app by lia.
    replace (lz - (lz - zc))%nat with zc by lia.
    rewrite Hstrip. inversion Espec. reflexivity.
  - apply spec_decode_None in Espec. destruct Espec as (c & Hin & Hc).
    assert (Hin' : In c rest).
    { subst rest. rewrite (lead_count_split 49 s) in Hin. fold zc in Hin. apply in_app_or in Hin.
      destruct Hin as [Hin|Hin]; [|exact Hin]. apply repeat_spec in Hin. subst c.
      change (index_of 49 BITCOIN_ALPHABET 0) with (Some 0) in Hc. discriminate. }
    rewrite (dec_loop_invalid rest _ Hrest); [reflexivity|]. exists c. auto.
Qed.

Lemma lbase58_decode_toolong s : B58_DECODE_MAXLEN < Z.of_nat (length s) -> lbase58_decode s = LErrTooLong.
Proof.
  intros Hlen. unfold lbase58_decode. pose proof dec_maxlen_pos.
  destruct (Z.eqb_spec (Z.of_nat (length s)) 0); [lia|].
  destruct (Z.ltb_spec B58_DECODE_MAXLEN (Z.of_nat (length s))); [reflexivity|lia].
Qed.
