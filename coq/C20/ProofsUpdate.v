(* Part 3 of the BLAKE2b proofs: blake2b_init / blake2b_update (alignment loop, word loop with
   the lazy end_block, remainder loop) refine a byte-at-a-time machine with a byte buffer and an
   unbounded counter:   feed (h,t,buf) b = append b to (flush (h,t,buf)),
   flush compresses (not last) only when the buffer is full AND another byte arrives. *)
From Coq Require Import ZArith List Bool Lia.
From C20 Require Import Spec Model ProofsCompress ProofsBuffer.
Import ListNotations.
Local Open Scope Z_scope.
Ltac Zify.zify_post_hook ::= Z.div_mod_to_equations.

Ltac splits := repeat match goal with |- _ /\ _ => split end.

Definition astate : Type := list Z * Z * list Z.

Definition aflush (A : astate) : astate :=
  let '(h, t, buf) := A in
  if Z.of_nat (length buf) =? 128 then (rfc_F h (block_words buf) (t + 128) false, t + 128, []) else A.

Definition afeed (A : astate) (b : Z) : astate :=
  let '(h, t, buf) := aflush A in (h, t, buf ++ [b]).

Definition afinal (A : astate) : list Z :=
  let '(h, t, buf) := A in rfc_F h (block_words buf) (t + Z.of_nat (length buf)) true.

Record Rel (c : bctx) (h : list Z) (t : Z) (buf : list Z) : Prop := mkRel {
  r_hash : c_hash c = h;
  r_hlen : length h = 8%nat;
  r_tpos : 0 <= t;
  r_t0 : c_t0 c = t mod W64;
  r_t1 : c_t1 c = (t / W64) mod W64;
  r_input : c_input c = block_words buf;
  r_idx : c_idx c = Z.of_nat (length buf);
  r_len : (length buf <= 128)%nat;
  r_bytes : Forall is_byte buf;
  r_oob : c_oob c = false
}.

Definition RelA (c : bctx) (A : astate) : Prop := let '(h, t, buf) := A in Rel c h t buf.

(* ---------- single steps ---------- *)

Lemma rel_set_input c h t buf b :
  Rel c h t buf -> (length buf < 128)%nat -> is_byte b -> Rel (blake2b_set_input c b) h t (buf ++ [b]).
Proof.
  intros [] Hlt Hb.
  set (q := Z.to_nat (c_idx c / 8)). set (r := Z.to_nat (c_idx c mod 8)).
  assert (Hqr : length buf = (8 * q + r)%nat) by (subst q r; lia).
  assert (Hr : (r < 8)%nat) by (subst r; lia).
  assert (Hq : (q < 16)%nat) by (subst q; lia).
  constructor; cbn [blake2b_set_input c_hash c_t0 c_t1 c_input c_idx c_oob]; try assumption.
  - fold q. rewrite r_input0. change block_words with (Wv 16).
    rewrite (Wv_set_byte q 16 buf r b Hqr Hr Hq r_bytes0 Hb).
    subst r. rewrite Z2Nat.id by lia. reflexivity.
  - rewrite app_length. cbn [length]. lia.
  - rewrite app_length. cbn [length]. lia.
  - apply Forall_app. split; [assumption|]. constructor; [assumption|constructor].
  - rewrite r_oob0. cbn [orb]. fold q. rewrite r_input0, block_words_Wv, Wv_length.
    apply Nat.leb_gt. exact Hq.
Qed.

Lemma rel_set_inputs w : forall c h t buf,
  Rel c h t buf -> (length buf + length w <= 128)%nat -> Forall is_byte w ->
  Rel (fold_left blake2b_set_input w c) h t (buf ++ w).
Proof.
  induction w as [|b w IH]; intros c h t buf HR Hlen Hw; cbn [fold_left].
  - rewrite app_nil_r. exact HR.
  - inversion Hw; subst. cbn [length] in Hlen.
    replace (buf ++ b :: w) with ((buf ++ [b]) ++ w) by (rewrite <- app_assoc; reflexivity).
    apply IH; [apply rel_set_input; [assumption|lia|assumption] | rewrite app_length; cbn [length]; lia | assumption].
Qed.

Lemma incr_counter t y t0 t1 :
  0 <= t -> 0 <= y <= 128 -> t0 = t mod W64 -> t1 = (t / W64) mod W64 ->
  let x0 := add64 t0 y in
  x0 = (t + y) mod W64 /\ (if x0 <? y then add64 t1 1 else t1) = ((t + y) / W64) mod W64.
Proof.
  intros Ht Hy -> ->. cbv zeta. rewrite !add64_2. rewrite W64_val.
  split; [lia|].
  destruct (Z.ltb_spec ((t mod 18446744073709551616 + y) mod 18446744073709551616) y); lia.
Qed.

Lemma rel_end_block c h t buf :
  Rel c h t buf -> RelA (blake2b_end_block c) (aflush (h, t, buf)).
Proof.
  intros HR. pose proof HR as []. unfold blake2b_end_block, aflush. rewrite blockbytes_eq, r_idx0.
  destruct (Z.eqb_spec (Z.of_nat (length buf)) 128) as [He|Hne]; [|exact HR].
  cbn [RelA].
  destruct (incr_counter t (c_idx c) (c_t0 c) (c_t1 c) r_tpos0 ltac:(lia) r_t2 r_t3) as [H0 H1].
  cbv zeta in H0, H1. rewrite r_idx0, He in H0, H1.
  constructor; cbn [blake2b_reset_input blake2b_compress blake2b_incr c_hash c_t0 c_t1 c_input c_idx c_oob].
  - rewrite r_idx0, He, H1, H0, r_hash0, r_input0. apply compress_eq. assumption.
  - apply rfc_F_length. assumption.
  - lia.
  - rewrite r_idx0, He. exact H0.
  - rewrite r_idx0, He. exact H1.
  - rewrite inputwords_eq. reflexivity.
  - reflexivity.
  - cbn [length]. lia.
  - constructor.
  - assumption.
Qed.

Lemma rel_store_word c h t buf w :
  Rel c h t buf -> Z.of_nat (length buf) mod 8 = 0 -> (length buf < 128)%nat ->
  length w = 8%nat -> Forall is_byte w ->
  Rel (mkctx (c_hash c) (c_t0 c) (c_t1 c)
             (setw (c_input c) (Z.to_nat (c_idx c / 8)) (load64_le w))
             (c_idx c + 8) (c_hsize c)
             (c_oob c || (length (c_input c) <=? Z.to_nat (c_idx c / 8))%nat)) h t (buf ++ w).
Proof.
  intros [] Hmod Hlt Hw Hb.
  set (q := Z.to_nat (c_idx c / 8)).
  assert (Hq8 : length buf = (8 * q)%nat) by (subst q; lia).
  assert (Hq : (q < 16)%nat) by (subst q; lia).
  constructor; cbn [c_hash c_t0 c_t1 c_input c_idx c_oob]; try assumption.
  - rewrite r_input0. change block_words with (Wv 16). symmetry. apply Wv_set_word; assumption.
  - rewrite app_length. lia.
  - rewrite app_length. lia.
  - apply Forall_app. split; assumption.
  - rewrite r_oob0. cbn [orb]. rewrite r_input0, block_words_Wv, Wv_length.
    apply Nat.leb_gt. exact Hq.
Qed.

(* ---------- the abstract machine ---------- *)

Lemma afeed_many_noflush w : forall h t buf,
  (length buf + length w <= 128)%nat -> fold_left afeed w (h, t, buf) = (h, t, buf ++ w).
Proof.
  induction w as [|b w IH]; intros h t buf Hlen; cbn [fold_left].
  - rewrite app_nil_r. reflexivity.
  - cbn [length] in Hlen. unfold afeed at 2. unfold aflush.
    destruct (Z.eqb_spec (Z.of_nat (length buf)) 128) as [He|Hne]; [lia|].
    rewrite IH by (rewrite app_length; cbn [length]; lia).
    rewrite <- app_assoc. reflexivity.
Qed.

Lemma afeed_many_flush w A :
  w <> [] ->
  (let '(h1, t1, buf1) := aflush A in
   (length buf1 + length w <= 128)%nat -> fold_left afeed w A = (h1, t1, buf1 ++ w)).
Proof.
  intros Hne. destruct w as [|b w]; [congruence|].
  destruct (aflush A) as [[h1 t1] buf1] eqn:HA. intros Hlen.
  cbn [fold_left]. unfold afeed at 2. rewrite HA.
  cbn [length] in Hlen. rewrite afeed_many_noflush by (rewrite app_length; cbn [length]; lia).
  rewrite <- app_assoc. reflexivity.
Qed.

Lemma aflush_buf A : let '(_, _, buf) := A in (length buf <= 128)%nat ->
  let '(_, _, buf1) := aflush A in (length buf1 < 128)%nat /\ (Z.of_nat (length buf) mod 8 = 0 -> Z.of_nat (length buf1) mod 8 = 0).
Proof.
  destruct A as [[h t] buf]. intros Hle. unfold aflush.
  destruct (Z.eqb_spec (Z.of_nat (length buf)) 128) as [He|Hne]; cbn [length]; split; intros; lia.
Qed.

(* ---------- blake2b_update ---------- *)

Lemma upd_align_rel m : forall c h t buf,
  Rel c h t buf -> Forall is_byte m ->
  exists c' m2 buf', upd_align c m = (c', m2) /\ Rel c' h t buf' /\
     fold_left afeed m (h, t, buf) = fold_left afeed m2 (h, t, buf') /\ Forall is_byte m2 /\
     (m2 = [] \/ Z.of_nat (length buf') mod 8 = 0).
Proof.
  induction m as [|b m IH]; intros c h t buf HR Hm; cbn [upd_align].
  - exists c, [], buf. splits; auto.
  - destruct (Z.eqb_spec (c_idx c mod 8) 0) as [He|Hne].
    + exists c, (b :: m), buf. splits; auto. right. rewrite <- (r_idx _ _ _ _ HR). exact He.
    + inversion Hm; subst. pose proof HR as [].
      assert (Hlt : (length buf < 128)%nat) by lia.
      destruct (IH (blake2b_set_input c b) h t (buf ++ [b])) as (c' & m2 & buf' & E & HR' & Hf & Hb2 & Hal);
        [apply rel_set_input; auto | auto |].
      exists c', m2, buf'. splits; auto.
      cbn [fold_left]. rewrite <- Hf. f_equal. unfold afeed, aflush.
      destruct (Z.eqb_spec (Z.of_nat (length buf)) 128); [lia|reflexivity].
Qed.

Lemma upd_words_rel n : forall c m h t buf,
  Rel c h t buf -> Z.of_nat (length buf) mod 8 = 0 -> (8 * n <= length m)%nat -> Forall is_byte m ->
  exists c' h' t' buf', upd_words n c m = (c', skipn (8 * n) m) /\ Rel c' h' t' buf' /\
    fold_left afeed m (h, t, buf) = fold_left afeed (skipn (8 * n) m) (h', t', buf') /\
    Z.of_nat (length buf') mod 8 = 0.
Proof.
  induction n as [|n IH]; intros c m h t buf HR Hal Hlen Hm.
  - exists c, h, t, buf. cbn [upd_words]. replace (8 * 0)%nat with 0%nat by lia. cbn [skipn]. auto.
  - cbn [upd_words].
    pose proof (rel_end_block c h t buf HR) as HR1.
    pose proof (aflush_buf (h, t, buf)) as Hfl. cbn beta iota in Hfl. specialize (Hfl (r_len _ _ _ _ HR)).
    pose proof (afeed_many_flush (firstn 8 m) (h, t, buf)) as Hff.
    destruct (aflush (h, t, buf)) as [[h1 t1] buf1] eqn:HA. cbn [RelA] in HR1.
    destruct Hfl as [Hlt1 Hal1]. specialize (Hal1 Hal).
    assert (Hw : length (firstn 8 m) = 8%nat) by (rewrite firstn_length; lia).
    pose proof (rel_store_word _ h1 t1 buf1 (firstn 8 m) HR1 Hal1 Hlt1 Hw (Forall_firstn _ _ _ Hm)) as HR2.
    destruct (IH _ (skipn 8 m) h1 t1 (buf1 ++ firstn 8 m) HR2) as (c' & h' & t' & buf' & E & HR' & Hf & Hal');
      [rewrite app_length; lia | rewrite skipn_length; lia | apply Forall_skipn; assumption |].
    exists c', h', t', buf'.
    assert (Hsk : skipn (8 * n) (skipn 8 m) = skipn (8 * S n) m).
    { rewrite skipn_skipn'. f_equal. lia. }
    rewrite Hsk in E, Hf.
    splits; auto.
    rewrite <- Hf. rewrite <- (firstn_skipn 8 m) at 1. rewrite fold_left_app. f_equal.
    apply Hff; [|lia].
    intros Hnil. rewrite Hnil in Hw. discriminate.
Qed.

Lemma rel_update c h t buf m :
  Rel c h t buf -> Forall is_byte m -> RelA (blake2b_update c m) (fold_left afeed m (h, t, buf)).
Proof.
  intros HR Hm. unfold blake2b_update.
  destruct (upd_align_rel m c h t buf HR Hm) as (c1 & m1 & buf1 & E1 & HR1 & Hf1 & Hb1 & Hal1).
  rewrite E1, Hf1. clear E1 Hf1.
  destruct Hal1 as [-> | Hal1].
  - cbn. exact HR1.
  - set (size := Z.of_nat (length m1)).
    destruct (upd_words_rel (Z.to_nat (size / 8)) c1 m1 h t buf1 HR1 Hal1 ltac:(subst size; lia) Hb1)
      as (c2 & h2 & t2 & buf2 & E2 & HR2 & Hf2 & Hal2).
    rewrite E2, Hf2. clear E2 Hf2.
    set (m2 := skipn (8 * Z.to_nat (size / 8)) m1).
    assert (Hl2 : Z.of_nat (length m2) = size mod 8) by (subst m2 size; rewrite skipn_length; lia).
    assert (Hb2 : Forall is_byte m2) by (apply Forall_skipn; assumption).
    rewrite (firstn_all2 m2) by lia.
    destruct (Z.eqb_spec (size mod 8) 0) as [He|Hne].
    + destruct m2; [|cbn [length] in Hl2; lia]. cbn [fold_left RelA]. exact HR2.
    + assert (Hnil : m2 <> []) by (intros Hn; rewrite Hn in Hl2; cbn [length] in Hl2; lia).
      pose proof (rel_end_block c2 h2 t2 buf2 HR2) as HR3.
      pose proof (afeed_many_flush m2 (h2, t2, buf2) Hnil) as Hff.
      pose proof (aflush_buf (h2, t2, buf2)) as Hfl. cbn beta iota in Hfl. specialize (Hfl (r_len _ _ _ _ HR2)).
      destruct (aflush (h2, t2, buf2)) as [[h3 t3] buf3]. cbn [RelA] in HR3.
      destruct Hfl as [Hlt3 Hal3]. specialize (Hal3 Hal2).
      assert (Hsum : (length buf3 + length m2 <= 128)%nat) by lia.
      rewrite (Hff Hsum). cbn [RelA]. apply rel_set_inputs; assumption.
Qed.
