(* Base58 corollaries: the two C functions are mutual inverses within their documented limits;
   stringer.hash = base58(blake2b). *)
From Coq Require Import ZArith List Bool Lia.
From C20 Require Import Spec Model ProofsCompress ProofsBuffer ProofsBlake ProofsDigits ProofsB58Spec ProofsB58Enc ProofsB58Dec.
Import ListNotations.
Local Open Scope Z_scope.

Lemma b58_char_byte d : is_byte (b58_char d).
Proof.
  unfold b58_char. destruct (nth_in_or_default (Z.to_nat d) BITCOIN_ALPHABET 0) as [Hin|Hdef]; [|rewrite Hdef; unfold is_byte; lia].
  assert (HA : Forall is_byte BITCOIN_ALPHABET) by (unfold is_byte; repeat constructor; lia).
  rewrite Forall_forall in HA. apply HA. exact Hin.
Qed.

Lemma spec_encode_bytes x : Forall is_byte (base58_spec_encode x).
Proof.
  unfold base58_spec_encode. apply Forall_app. split.
  - apply Forall_forall. intros a Ha. apply repeat_spec in Ha. subst a. unfold is_byte. lia.
  - apply Forall_forall. intros a Ha. apply in_map_iff in Ha. destruct Ha as (d & <- & _). apply b58_char_byte.
Qed.

(* decode (encode x) = x within the documented encode limit *)
Lemma decode_encode x : Forall is_byte x -> Z.of_nat (length x) <= B58_ENCODE_MAXLEN ->
  exists s, lbase58_encode x = LOk s /\ lbase58_decode s = LOk x.
Proof.
  intros Hx Hlen. exists (base58_spec_encode x). split; [apply lbase58_encode_ok; assumption|].
  rewrite lbase58_decode_ok; [|apply spec_encode_bytes|pose proof (spec_encode_length x Hx Hlen); lia].
  rewrite spec_decode_encode by exact Hx. reflexivity.
Qed.

(* encode (decode s) = s for every string the decoder accepts whose decoding is within the encode limit *)
Lemma encode_decode s r : Forall is_byte s -> Z.of_nat (length s) <= B58_DECODE_MAXLEN ->
  lbase58_decode s = LOk r -> Z.of_nat (length r) <= B58_ENCODE_MAXLEN -> lbase58_encode r = LOk s.
Proof.
  intros Hs Hlen Hdec Hr. rewrite lbase58_decode_ok in Hdec by assumption.
  destruct (base58_spec_decode s) as [r'|] eqn:E; [|discriminate]. inversion Hdec; subst r'.
  apply spec_encode_decode in E. destruct E as [Henc Hb].
  rewrite lbase58_encode_ok by assumption. rewrite Henc. reflexivity.
Qed.

(* decode rejects exactly the strings containing a byte outside the alphabet *)
Lemma decode_rejects s : Forall is_byte s -> Z.of_nat (length s) <= B58_DECODE_MAXLEN ->
  (lbase58_decode s = LErrDecode <-> exists c, In c s /\ ~ In c BITCOIN_ALPHABET).
Proof.
  intros Hs Hlen. rewrite lbase58_decode_ok by assumption.
  assert (Hidx : forall c, index_of c BITCOIN_ALPHABET 0 = None <-> ~ In c BITCOIN_ALPHABET).
  { intros c. generalize 0. induction BITCOIN_ALPHABET as [|y l IH]; intros i; cbn [index_of In]; [tauto|].
    destruct (Z.eqb_spec y c) as [->|Hne]; [split; [discriminate|tauto]|]. rewrite IH. tauto. }
  destruct (base58_spec_decode s) as [r|] eqn:E.
  - split; [discriminate|]. intros (c & Hin & Hn). exfalso.
    assert (base58_spec_decode s = None) by (apply spec_decode_None; exists c; split; [exact Hin|apply Hidx; exact Hn]).
    congruence.
  - split; [|reflexivity]. intros _. apply spec_decode_None in E. destruct E as (c & Hin & Hc).
    exists c. split; [exact Hin|apply Hidx; exact Hc].
Qed.

(* ---------- stringer.hash ---------- *)

Lemma le_bytes8_bytes w : Forall is_byte (le_bytes8 w).
Proof.
  unfold le_bytes8. apply Forall_forall. intros a Ha. apply in_map_iff in Ha. destruct Ha as (k & <- & _).
  unfold is_byte. apply Z.mod_pos_bound. lia.
Qed.

Lemma blake2b_rfc_bytes nn key msg : Forall is_byte (blake2b_rfc nn key msg).
Proof.
  unfold blake2b_rfc. apply Forall_firstn.
  apply Forall_forall. intros a Ha. apply in_flat_map in Ha. destruct Ha as (w & _ & Ha).
  pose proof (le_bytes8_bytes w) as H. rewrite Forall_forall in H. apply H. exact Ha.
Qed.

Lemma enc_maxlen_ge64 : 64 <= B58_ENCODE_MAXLEN. Proof. vm_compute. discriminate. Qed.

Lemma stringer_hash_ok s len key :
  1 <= len <= 64 -> (length key <= 64)%nat -> Forall is_byte key -> Forall is_byte s ->
  stringer_hash s len key = LOk (base58_spec_encode (blake2b_rfc len key s)).
Proof.
  intros Hn Hk Hbk Hbs. unfold stringer_hash. rewrite lblake2b_correct by assumption.
  apply lbase58_encode_ok; [apply blake2b_rfc_bytes|].
  rewrite blake2b_rfc_length by lia. pose proof enc_maxlen_ge64. lia.
Qed.

(* the digest lengths used by the compiler (default of stringer.hash and the literal lengths at its
   call sites in lualib/nelua, regenerated into Gen.v) are all valid digest lengths *)
Lemma callsite_lens_valid : forallb (fun l => (1 <=? l) && (l <=? 64)) (STRINGER_DEFAULT_LEN :: STRINGER_CALLSITE_LENS) = true.
Proof. vm_compute. reflexivity. Qed.

Lemma stringer_hash_callsites len s : In len (STRINGER_DEFAULT_LEN :: STRINGER_CALLSITE_LENS) -> Forall is_byte s ->
  stringer_hash s len [] = LOk (base58_spec_encode (blake2b_rfc len [] s)).
Proof.
  intros Hin Hs. pose proof callsite_lens_valid as H. rewrite forallb_forall in H. specialize (H len Hin).
  apply andb_true_iff in H. destruct H as [H1 H2]. apply Z.leb_le in H1. apply Z.leb_le in H2.
  apply stringer_hash_ok; [lia|cbn [length]; lia|constructor|exact Hs].
Qed.

Lemma stringer_hash_default_ok s : Forall is_byte s ->
  stringer_hash_default s = LOk (base58_spec_encode (blake2b_rfc STRINGER_DEFAULT_LEN [] s)).
Proof. intros Hs. apply stringer_hash_callsites; [left; reflexivity|exact Hs]. Qed.

(* satisfiable hypotheses / non-vacuity *)
Example decode_encode_instance :
  lbase58_encode [0; 0; 1; 2; 3; 255] = LOk [49; 49; 50; 86; 102; 89; 114] /\
  lbase58_decode [49; 49; 50; 86; 102; 89; 114] = LOk [0; 0; 1; 2; 3; 255] /\
  lbase58_decode [49; 48] = LErrDecode /\
  lbase58_decode (repeat 122 360) <> LErrDecode.
Proof. vm_compute. repeat split; try reflexivity. discriminate. Qed.
