(* Part 1 of the BLAKE2b proofs: the scraped tables are the RFC's, and the C-style compression
   function (wrapping adds, ~, rotr64) is the RFC's F. *)
From Coq Require Import ZArith List Bool Lia.
From C20 Require Import Spec Model.
Import ListNotations.
Local Open Scope Z_scope.

(* ---------- the regenerated tables are the RFC's ---------- *)

Definition tables_are_rfc_stmt : Prop :=
  IV_C = RFC_IV /\
  firstn ROUNDS_C SIGMA_C = map (fun i => nth (i mod 10) RFC_SIGMA []) (seq 0 RFC_ROUNDS) /\
  ROT_C = (RFC_R1, RFC_R2, RFC_R3, RFC_R4) /\
  GSCHED_C = [ (0, 4, 8, 12, 0, 1); (1, 5, 9, 13, 2, 3); (2, 6, 10, 14, 4, 5); (3, 7, 11, 15, 6, 7);
               (0, 5, 10, 15, 8, 9); (1, 6, 11, 12, 10, 11); (2, 7, 8, 13, 12, 13); (3, 4, 9, 14, 14, 15) ]%nat /\
  PARAM_C = 0x01010000 /\ KEYSHIFT_C = 8 /\
  BLOCKBYTES_C = RFC_BB /\ KEYBLOCK_C = RFC_BB /\ INPUTWORDS_C = 16%nat /\
  MAXKEY_C = 64 /\ MINDIG_C = 1 /\ MAXDIG_C = 64 /\
  (* byte/word plumbing of load64_le, store64_le, rotr64 (kept literal in the model) *)
  LOAD64_SHIFTS_C = [0; 8; 16; 24; 32; 40; 48; 56] /\ STORE64_SHIFTS_C = [0; 8; 16; 24; 32; 40; 48; 56] /\
  STORE64_MASKS_C = [255] /\ ROTR_WIDTH_C = 64.

Lemma tables_are_rfc : tables_are_rfc_stmt.
Proof. vm_compute. repeat split. Qed.

Lemma iv_eq : IV_C = RFC_IV. Proof. apply tables_are_rfc. Qed.
Lemma sigma_eq : firstn ROUNDS_C SIGMA_C = map (fun i => nth (i mod 10) RFC_SIGMA []) (seq 0 RFC_ROUNDS).
Proof. apply tables_are_rfc. Qed.
Lemma rot_eq : ROT_C = (RFC_R1, RFC_R2, RFC_R3, RFC_R4). Proof. apply tables_are_rfc. Qed.
Lemma gsched_eq : GSCHED_C = [ (0, 4, 8, 12, 0, 1); (1, 5, 9, 13, 2, 3); (2, 6, 10, 14, 4, 5); (3, 7, 11, 15, 6, 7);
               (0, 5, 10, 15, 8, 9); (1, 6, 11, 12, 10, 11); (2, 7, 8, 13, 12, 13); (3, 4, 9, 14, 14, 15) ]%nat.
Proof. apply tables_are_rfc. Qed.
Lemma blockbytes_eq : BLOCKBYTES_C = 128. Proof. apply tables_are_rfc. Qed.
Lemma keyblock_eq : KEYBLOCK_C = 128. Proof. apply tables_are_rfc. Qed.
Lemma inputwords_eq : INPUTWORDS_C = 16%nat. Proof. apply tables_are_rfc. Qed.
Lemma param_eq : PARAM_C = 0x01010000. Proof. apply tables_are_rfc. Qed.
Lemma keyshift_eq : KEYSHIFT_C = 8. Proof. apply tables_are_rfc. Qed.
Lemma maxkey_eq : MAXKEY_C = 64. Proof. apply tables_are_rfc. Qed.
Lemma mindig_eq : MINDIG_C = 1. Proof. apply tables_are_rfc. Qed.
Lemma maxdig_eq : MAXDIG_C = 64. Proof. apply tables_are_rfc. Qed.

(* ---------- 64-bit words ---------- *)

Lemma W64_val : W64 = 18446744073709551616. Proof. reflexivity. Qed.

Lemma w64_mod x : w64 x = x mod W64.
Proof.
  unfold w64, MASK64. change 18446744073709551615 with (Z.ones 64).
  rewrite Z.land_ones by lia. reflexivity.
Qed.

Lemma w64_range x : 0 <= w64 x < W64.
Proof. rewrite w64_mod. apply Z.mod_pos_bound. reflexivity. Qed.

Lemma w64_small x : 0 <= x < W64 -> w64 x = x.
Proof. intros. rewrite w64_mod. apply Z.mod_small; assumption. Qed.

Lemma add64_3 a b x : add64 a (add64 b x) = (a + b + x) mod W64.
Proof.
  unfold add64. rewrite !w64_mod. rewrite Z.add_mod_idemp_r by (rewrite W64_val; lia).
  f_equal. lia.
Qed.

Lemma add64_2 a b : add64 a b = (a + b) mod W64.
Proof. unfold add64. apply w64_mod. Qed.

Lemma rotr64_rfc x n : rotr64 x n = rfc_rotr x n.
Proof. unfold rotr64, rfc_rotr. rewrite w64_mod. reflexivity. Qed.

Lemma land_lxor_distr_l a b c : Z.land (Z.lxor a b) c = Z.lxor (Z.land a c) (Z.land b c).
Proof.
  apply Z.bits_inj'. intros n Hn. rewrite !Z.land_spec, !Z.lxor_spec, !Z.land_spec.
  destruct (Z.testbit a n), (Z.testbit b n), (Z.testbit c n); reflexivity.
Qed.

Lemma not64_xor x : 0 <= x < W64 -> not64 x = Z.lxor x 0xFFFFFFFFFFFFFFFF.
Proof.
  intros Hx. unfold not64, w64, MASK64.
  rewrite <- Z.lxor_m1_r. rewrite land_lxor_distr_l.
  change (Z.land (-1) 18446744073709551615) with 18446744073709551615.
  f_equal. change 18446744073709551615 with (Z.ones 64). rewrite Z.land_ones by lia.
  apply Z.mod_small. exact Hx.
Qed.

(* ---------- vectors ---------- *)

Lemma setw_vset l i x : setw l i x = vset l i x.
Proof. reflexivity. Qed.

Lemma getw_vget l i : getw l i = vget l i.
Proof. reflexivity. Qed.

Lemma vset_length l i x : length (vset l i x) = length l.
Proof. revert i; induction l; intros [|i]; simpl; auto. Qed.

Definition rg_add3 (v : list Z) (a b : nat) (x : Z) := vset v a ((vget v a + vget v b + x) mod W64).
Definition rg_add2 (v : list Z) (c d : nat) := vset v c ((vget v c + vget v d) mod W64).
Definition rg_rot (v : list Z) (d a : nat) (r : Z) := vset v d (rfc_rotr (Z.lxor (vget v d) (vget v a)) r).

Lemma g_add3_eq v a b x : g_add3 v a b x = rg_add3 v a b x.
Proof. unfold g_add3, rg_add3. rewrite add64_3. reflexivity. Qed.
Lemma g_add2_eq v c d : g_add2 v c d = rg_add2 v c d.
Proof. unfold g_add2, rg_add2. rewrite add64_2. reflexivity. Qed.
Lemma g_rot_eq v d a r : g_rot v d a r = rg_rot v d a r.
Proof. unfold g_rot, rg_rot. rewrite rotr64_rfc. reflexivity. Qed.

Lemma rfc_G_nested v a b c d x y :
  rfc_G v a b c d x y =
  rg_rot (rg_add2 (rg_rot (rg_add3 (rg_rot (rg_add2 (rg_rot (rg_add3 v a b x) d a RFC_R1) c d) b c RFC_R2) a b y) d a RFC_R3) c d) b c RFC_R4.
Proof. reflexivity. Qed.

Lemma G_eq v a b c d x y : G_c v a b c d x y = rfc_G v a b c d x y.
Proof.
  rewrite rfc_G_nested. unfold G_c. rewrite rot_eq. cbv zeta beta iota.
  rewrite !g_add3_eq, !g_rot_eq, !g_add2_eq. reflexivity.
Qed.

Lemma rfc_G_length v a b c d x y : length (rfc_G v a b c d x y) = length v.
Proof. rewrite rfc_G_nested. unfold rg_rot, rg_add2, rg_add3. rewrite !vset_length. reflexivity. Qed.

Lemma round_eq m v i : round_c m v (nth (i mod 10) RFC_SIGMA []) = rfc_round m v i.
Proof.
  unfold round_c. rewrite gsched_eq. cbn [fold_left]. rewrite !G_eq.
  unfold rfc_round. cbv beta iota zeta. unfold getw, vget. reflexivity.
Qed.

Lemma rfc_round_length m v i : length (rfc_round m v i) = length v.
Proof. unfold rfc_round. rewrite !rfc_G_length. reflexivity. Qed.

Lemma fold_left_map_ext {A B C : Type} (f : A -> C -> A) (g : A -> B -> A) (h : B -> C) l a :
  (forall a x, f a (h x) = g a x) -> fold_left f (map h l) a = fold_left g l a.
Proof. intros H. revert a. induction l as [|x l IH]; intros a; simpl; [reflexivity|]. rewrite H. apply IH. Qed.

Lemma fold_rounds_eq m l v :
  fold_left (round_c m) (map (fun i => nth (i mod 10) RFC_SIGMA []) l) v = fold_left (rfc_round m) l v.
Proof. apply fold_left_map_ext. intros a x. apply round_eq. Qed.

Lemma fold_left_length_inv {A B : Type} (g : A -> B -> A) (len : A -> nat) l a :
  (forall a x, len (g a x) = len a) -> len (fold_left g l a) = len a.
Proof. intros H. revert a. induction l as [|x l IH]; intros a; simpl; [reflexivity|]. rewrite IH. apply H. Qed.

Lemma fold_rounds_length m l v : length (fold_left (rfc_round m) l v) = length v.
Proof. apply (fold_left_length_inv (rfc_round m) (@length Z)). intros. apply rfc_round_length. Qed.

Lemma xor3_eq h a b : xor3_c h a b = xor3 h a b.
Proof.
  revert a b. induction h as [|x h IH]; intros [|y a] [|z b]; cbn [xor3_c xor3]; try reflexivity.
  rewrite IH. f_equal. symmetry. apply Z.lxor_assoc.
Qed.

Lemma xor3_length h a b : length h = 8%nat -> length a = 8%nat -> length b = 8%nat -> length (xor3 h a b) = 8%nat.
Proof.
  intros.
  do 8 (destruct h as [|? h]; [discriminate|]). destruct h; [|discriminate].
  do 8 (destruct a as [|? a]; [discriminate|]). destruct a; [|discriminate].
  do 8 (destruct b as [|? b]; [discriminate|]). destruct b; [|discriminate].
  reflexivity.
Qed.

Lemma rfc_F_length h m t f : length h = 8%nat -> length (rfc_F h m t f) = 8%nat.
Proof.
  intros Hh. unfold rfc_F.
  match goal with |- context [fold_left ?f ?l ?v] => set (vv := fold_left f l v) end.
  assert (Hl : length vv = 16%nat).
  { subst vv. rewrite fold_rounds_length. destruct f; rewrite ?vset_length, app_length, Hh; reflexivity. }
  apply xor3_length; [assumption| |].
  - rewrite firstn_length, Hl. reflexivity.
  - rewrite skipn_length, Hl. reflexivity.
Qed.

(* the C compression function is the RFC's F (t0/t1 = low/high word of the counter) *)
Lemma compress_eq h t m last : length h = 8%nat ->
  compress_c h (t mod W64) ((t / W64) mod W64) m last = rfc_F h m t last.
Proof.
  intros Hh. unfold compress_c, rfc_F.
  rewrite sigma_eq, fold_rounds_eq, iv_eq, xor3_eq.
  change setw with vset. change getw with vget.
  destruct last; [|reflexivity].
  assert (Hv : forall a b, vget (vset (vset (h ++ RFC_IV) 12 a) 13 b) 14 = 0x1f83d9abfb41bd6b).
  { intros. do 8 (destruct h as [|? h]; [discriminate|]). destruct h; [|discriminate]. reflexivity. }
  rewrite !Hv. rewrite not64_xor by (rewrite W64_val; lia). reflexivity.
Qed.
