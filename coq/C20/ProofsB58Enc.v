(* base58_encode of hasher.c (model) computes the positional specification for every input within
   the documented limit, never leaves its buffers, and never reports "encode error". *)
From Coq Require Import ZArith List Bool Lia.
From C20 Require Import Spec Model ProofsBuffer ProofsDigits ProofsB58Spec.
Import ListNotations.
Local Open Scope Z_scope.
Ltac Zify.zify_post_hook ::= Z.div_mod_to_equations.
Ltac splits := repeat match goal with |- _ /\ _ => split end.

(* ---------- (T) facts about the scraped Base58 tables and limits ---------- *)

Definition b58_tables_stmt : Prop :=
  B58_ALPHABET_C = BITCOIN_ALPHABET /\
  length B58_MAP_C = 128%nat /\
  forallb (fun c => nth (Z.to_nat c) B58_MAP_C (-1) =? match index_of c BITCOIN_ALPHABET 0 with Some d => d | None => -1 end)
          (map Z.of_nat (seq 0 128)) = true /\
  B58_ENC_MUL = 256 /\ B58_ENC_BASE = 58 /\ B58_DEC_BASE = 58 /\
  B58_DEC_CARRYMASK = 0x3f00000000 /\ B58_DEC_CARRYSHIFT = 32 /\ B58_DEC_LIMBMASK = 0xffffffff /\
  (* the pad character written/recognised for a leading zero byte is the alphabet's digit 0, and the
     "high bit" test covers exactly the bytes beyond the 128-entry map table *)
  B58_PAD_ENC_C = b58_char 0 /\ B58_PAD_DEC_C = b58_char 0 /\ B58_HIGHBIT_C = 128.

Lemma b58_tables_are_bitcoin : b58_tables_stmt.
Proof. vm_compute. repeat split. Qed.

Lemma alphabet_eq : B58_ALPHABET_C = BITCOIN_ALPHABET. Proof. apply b58_tables_are_bitcoin. Qed.
Lemma enc_mul_eq : B58_ENC_MUL = 256. Proof. apply b58_tables_are_bitcoin. Qed.
Lemma enc_base_eq : B58_ENC_BASE = 58. Proof. apply b58_tables_are_bitcoin. Qed.
Lemma pad_enc_eq : B58_PAD_ENC_C = 49. Proof. reflexivity. Qed.
Lemma pad_dec_eq : B58_PAD_DEC_C = 49. Proof. reflexivity. Qed.
Lemma highbit_eq : B58_HIGHBIT_C = 128. Proof. apply b58_tables_are_bitcoin. Qed.

(* the size estimate (binsz - zcount) * NUM / DEN + 1 is enough digits for every length within the
   documented limit, and the encoded string fits the 360-byte buffers with room for the NUL *)
Definition size_of (n : Z) : Z := n * B58_SIZE_NUM / B58_SIZE_DEN + 1.

Lemma size_enough n : 0 <= n <= B58_ENCODE_MAXLEN -> 256 ^ n <= 58 ^ size_of n.
Proof.
  intros Hn.
  pose proof (forallb_zrange (fun n => 256 ^ n <=? 58 ^ size_of n) (S (Z.to_nat B58_ENCODE_MAXLEN))
                ltac:(vm_compute; reflexivity) n ltac:(lia)) as H.
  apply Z.leb_le in H. exact H.
Qed.

Lemma size_fits n : 0 <= n <= B58_ENCODE_MAXLEN ->
  1 <= size_of n /\ (B58_ENCODE_MAXLEN - n) + size_of n < B58_DECODE_MAXLEN.
Proof.
  intros Hn.
  pose proof (forallb_zrange (fun n => (1 <=? size_of n) && ((B58_ENCODE_MAXLEN - n) + size_of n <? B58_DECODE_MAXLEN))
                (S (Z.to_nat B58_ENCODE_MAXLEN)) ltac:(vm_compute; reflexivity) n ltac:(lia)) as H.
  apply andb_true_iff in H. destruct H as [H1 H2]. apply Z.leb_le in H1. apply Z.ltb_lt in H2. lia.
Qed.

(* ---------- the carry loops ---------- *)

Definition zeros_from (j : Z) (d : list Z) : Prop := forall i : nat, j <= Z.of_nat i -> nth i d 0 = 0.

Lemma zeros_from_tail j x r : zeros_from j (x :: r) -> zeros_from (j - 1) r.
Proof. intros H i Hi. apply (H (S i)). lia. Qed.


Lemma zeros_from_all j d : zeros_from j d -> j <= 0 -> le_val 58 d = 0.
Proof.
  revert j. induction d as [|x r IH]; intros j H Hj; [reflexivity|].
  cbn [le_val]. rewrite (IH (j - 1)); [|apply (zeros_from_tail j x); exact H|lia].
  pose proof (H 0%nat ltac:(lia)) as H0. cbn [nth] in H0. lia.
Qed.

Lemma div_eucl_eq a b : Z.div_eucl a b = (a / b, a mod b).
Proof. unfold Z.div, Z.modulo. destruct (Z.div_eucl a b). reflexivity. Qed.

Lemma enc_inner_ok d : forall k high carry,
  Forall (digit 58) d -> 0 <= carry -> zeros_from (high - k) d -> high - k <= Z.of_nat (length d) ->
  256 * le_val 58 d + carry < 58 ^ Z.of_nat (length d) ->
  exists d' k', b58_enc_inner d k high carry = Some (d', k') /\
    le_val 58 d' = 256 * le_val 58 d + carry /\ length d' = length d /\ Forall (digit 58) d' /\
    zeros_from (k' - k) d' /\ k <= k' <= k + Z.of_nat (length d).
Proof.
  induction d as [|x r IH]; intros k high carry Hd Hc Hz Hh Hlt; cbn [b58_enc_inner].
  - cbn [le_val length] in *. change (58 ^ Z.of_nat 0) with 1 in Hlt.
    destruct (Z.ltb_spec k high); [lia|]. destruct (Z.eqb_spec carry 0); [|lia]. cbn [orb negb].
    exists [], k. cbn [le_val]. splits; try lia; try reflexivity; try constructor. intros i _. destruct i; reflexivity.
  - inversion Hd as [|? ? Hx Hr]; subst. unfold digit in Hx.
    cbn [length] in Hh, Hlt. rewrite Nat2Z.inj_succ in Hh, Hlt. rewrite Z.pow_succ_r in Hlt by lia.
    cbn [le_val] in Hlt.
    pose proof (le_val_range 58 ltac:(lia) r Hr) as Hrr.
    destruct ((k <? high) || negb (carry =? 0)) eqn:Hcont.
    + rewrite enc_mul_eq, enc_base_eq, div_eucl_eq.
      set (c := carry + 256 * x).
      destruct (IH (k + 1) high (c / 58)) as (r' & k' & E & Hv & Hl & Hd' & Hz' & Hk');
        [exact Hr | apply Z.div_pos; lia | replace (high - (k + 1)) with (high - k - 1) by lia; apply (zeros_from_tail _ x); exact Hz | lia | subst c; lia |].
      rewrite E. exists (c mod 58 :: r'), k'. splits; try lia; try reflexivity.
      * cbn [le_val]. rewrite Hv. subst c. lia.
      * cbn [length]. rewrite Hl. reflexivity.
      * constructor; [unfold digit; lia|exact Hd'].
      * intros i Hi. destruct i as [|i]; [lia|]. cbn [nth]. apply Hz'. lia.
      * cbn [length]. lia.
    + apply orb_false_iff in Hcont. destruct Hcont as [H1 H2].
      apply Z.ltb_ge in H1. apply negb_false_iff in H2. apply Z.eqb_eq in H2. subst carry.
      pose proof (zeros_from_all _ _ Hz ltac:(lia)) as Hzero. cbn [le_val] in Hzero.
      exists (x :: r), k. splits; try lia; try reflexivity.
      * cbn [le_val]. lia.
      * exact Hd.
      * intros i Hi. apply Hz. lia.
Qed.

Lemma pow256_pos n : 0 < 256 ^ Z.of_nat n.
Proof. apply Z.pow_pos_nonneg; lia. Qed.

Lemma enc_outer_ok bs : forall d high,
  Forall is_byte bs -> Forall (digit 58) d -> zeros_from high d -> 0 <= high <= Z.of_nat (length d) ->
  le_val 58 d * 256 ^ Z.of_nat (length bs) + be_value 256 bs < 58 ^ Z.of_nat (length d) ->
  exists d', b58_enc_outer bs d high = Some d' /\
    le_val 58 d' = le_val 58 d * 256 ^ Z.of_nat (length bs) + be_value 256 bs /\
    length d' = length d /\ Forall (digit 58) d'.
Proof.
  induction bs as [|b bs IH]; intros d high Hbs Hd Hz Hh Hlt; cbn [b58_enc_outer].
  - exists d. cbn [length] in *. change (256 ^ Z.of_nat 0) with 1 in *. change (be_value 256 []) with 0 in *.
    splits; try lia; try reflexivity; assumption.
  - inversion Hbs as [|? ? Hb Hbs']; subst. unfold is_byte in Hb.
    rewrite (be_value_cons 256) in Hlt |- *. cbn [length] in Hlt |- *. rewrite Nat2Z.inj_succ, Z.pow_succ_r in Hlt |- * by lia.
    pose proof (pow256_pos (length bs)) as Hp.
    assert (HV : 0 <= be_value 256 bs).
    { rewrite be_value_rev by lia. apply le_val_range; [lia|]. apply Forall_rev. apply is_byte_digit. exact Hbs'. }
    pose proof (le_val_range 58 ltac:(lia) d Hd) as Hdr.
    destruct (enc_inner_ok d 0 high b Hd ltac:(lia)) as (d1 & k1 & E & Hv & Hl & Hd1 & Hz1 & Hk1);
      [replace (high - 0) with high by lia; exact Hz | lia | nia |].
    rewrite E.
    destruct (IH d1 k1 Hbs' Hd1) as (d' & E' & Hv' & Hl' & Hd');
      [replace k1 with (k1 - 0) by lia; exact Hz1 | lia | rewrite Hv, Hl; nia |].
    exists d'. rewrite E'. splits; try assumption; try reflexivity; [|lia].
    rewrite Hv', Hv. ring.
Qed.

(* ---------- base58_encode / lbase58_encode ---------- *)

Lemma lead_zeros_eq l : lead_zeros l = lead_count 0 l.
Proof. induction l as [|x l IH]; [reflexivity|]. cbn [lead_zeros lead_count]. rewrite IH. reflexivity. Qed.

Lemma lead_count_le x l : (lead_count x l <= length l)%nat.
Proof. induction l as [|y l IH]; cbn [lead_count length]; [lia|]. destruct (y =? x); lia. Qed.

Lemma nth_repeat0 i n : nth i (repeat 0 n) 0 = 0.
Proof. revert i. induction n; intros [|i]; cbn [repeat nth]; try reflexivity. apply IHn. Qed.

Lemma Forall_repeat0 b n : 0 < b -> Forall (digit b) (repeat 0 n).
Proof. intros Hb. apply Forall_forall. intros a Ha. apply repeat_spec in Ha. subst a. unfold digit. lia. Qed.

Lemma strip_zeros_length l : (length (strip_zeros l) <= length l)%nat.
Proof. induction l as [|x l IH]; cbn [strip_zeros length]; [lia|]. destruct (x =? 0); cbn [length]; lia. Qed.

Lemma be_value_bytes_range bs : Forall is_byte bs -> 0 <= be_value 256 bs < 256 ^ Z.of_nat (length bs).
Proof.
  intros H. rewrite be_value_rev. rewrite <- rev_length. apply le_val_range; [lia|].
  apply Forall_rev. apply is_byte_digit. exact H.
Qed.

Lemma base58_encode_ok x : Forall is_byte x -> Z.of_nat (length x) <= B58_ENCODE_MAXLEN ->
  base58_encode B58_DECODE_MAXLEN x = LOk (base58_spec_encode x).
Proof.
  intros Hx Hlen. unfold base58_encode, base58_spec_encode. rewrite lead_zeros_eq, pad_enc_eq.
  set (z := lead_count 0 x). set (bs := skipn z x).
  pose proof (lead_count_le 0 x) as Hz. fold z in Hz.
  assert (Hn : Z.of_nat (length bs) = Z.of_nat (length x) - Z.of_nat z) by (subst bs; rewrite skipn_length; lia).
  rewrite <- Hn. fold (size_of (Z.of_nat (length bs))).
  set (n := Z.of_nat (length bs)) in *.
  destruct (size_fits n ltac:(lia)) as [Hs1 Hs2].
  pose proof (size_enough n ltac:(lia)) as Hs3.
  destruct (Z.ltb_spec B58_DECODE_MAXLEN (size_of n)) as [Hbad|_]; [lia|].
  assert (Hbs : Forall is_byte bs) by (subst bs; apply Forall_skipn; exact Hx).
  pose proof (be_value_bytes_range bs Hbs) as HV. fold n in HV.
  set (size := Z.to_nat (size_of n)).
  destruct (enc_outer_ok bs (repeat 0 size) 0 Hbs (Forall_repeat0 58 size ltac:(lia))) as (d & E & Hv & Hl & Hd).
  - intros i _. apply nth_repeat0.
  - rewrite repeat_length. lia.
  - rewrite le_val_zeros, repeat_length. fold n. subst size. rewrite Z2Nat.id by lia. lia.
  - rewrite E. rewrite le_val_zeros in Hv. rewrite repeat_length in Hl.
    assert (Hdig : strip_zeros (rev d) = be_digits 58 (be_value 256 bs)).
    { rewrite (strip_be_digits 58 ltac:(lia) (rev d) (Forall_rev Hd)).
      rewrite be_value_rev, rev_involutive, Hv. f_equal; lia. }
    rewrite Hdig.
    assert (Hdl : (length (be_digits 58 (be_value 256 bs)) <= size)%nat).
    { rewrite <- Hdig. pose proof (strip_zeros_length (rev d)) as H. rewrite rev_length, Hl in H. exact H. }
    destruct (Z.leb_spec B58_DECODE_MAXLEN (Z.of_nat z + Z.of_nat (length (be_digits 58 (be_value 256 bs))))) as [Hbad|_].
    + exfalso. subst size. lia.
    + rewrite alphabet_eq. reflexivity.
Qed.

Lemma lbase58_encode_ok x : Forall is_byte x -> Z.of_nat (length x) <= B58_ENCODE_MAXLEN ->
  lbase58_encode x = LOk (base58_spec_encode x).
Proof.
  intros Hx Hlen. unfold lbase58_encode.
  destruct (Z.eqb_spec (Z.of_nat (length x)) 0) as [He|Hne].
  - destruct x; [reflexivity|cbn [length] in He; lia].
  - destruct (Z.ltb_spec B58_ENCODE_MAXLEN (Z.of_nat (length x))); [lia|].
    apply base58_encode_ok; assumption.
Qed.

Lemma lbase58_encode_toolong x : B58_ENCODE_MAXLEN < Z.of_nat (length x) -> lbase58_encode x = LErrTooLong.
Proof.
  intros Hlen. unfold lbase58_encode.
  destruct (Z.eqb_spec (Z.of_nat (length x)) 0) as [He|Hne]; [rewrite He in Hlen; vm_compute in Hlen; discriminate|].
  destruct (Z.ltb_spec B58_ENCODE_MAXLEN (Z.of_nat (length x))); [reflexivity|lia].
Qed.

(* the encoded string fits the decoder's limit *)
Lemma spec_encode_length x : Forall is_byte x -> Z.of_nat (length x) <= B58_ENCODE_MAXLEN ->
  Z.of_nat (length (base58_spec_encode x)) < B58_DECODE_MAXLEN.
Proof.
  intros Hx Hlen.
  pose proof (base58_encode_ok x Hx Hlen) as H. unfold base58_encode in H.
  destruct (_ <? _) in H; [discriminate|].
  destruct (b58_enc_outer _ _ _) in H; [|discriminate].
  match type of H with context [if ?c then _ else _] => destruct c eqn:Hc end; [discriminate|].
  apply Z.leb_gt in Hc. injection H as Heq. try rewrite <- Heq.
  rewrite app_length, repeat_length, map_length. lia.
Qed.
