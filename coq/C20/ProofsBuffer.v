(* Part 2 of the BLAKE2b proofs: the word buffer input[16] filled by set_input (|= of a shifted
   byte) and by load64_le is the little-endian word view of the bytes received so far. *)
From Coq Require Import ZArith List Bool Lia.
From C20 Require Import Spec Model ProofsCompress.
Import ListNotations.
Local Open Scope Z_scope.
Ltac Zify.zify_post_hook ::= Z.div_mod_to_equations.

Ltac calc_pows :=
  repeat match goal with
         | |- context [2 ^ ?n] => let v := eval vm_compute in (2 ^ n) in change (2 ^ n) with v
         end.

(* ---------- bit facts ---------- *)

Lemma testbit_small x n m : 0 <= x < 2 ^ n -> n <= m -> Z.testbit x m = false.
Proof.
  intros [H0 H1] Hm. destruct (Z.eq_dec x 0) as [->|Hne]; [apply Z.bits_0|].
  assert (0 <= n). { destruct (Z_lt_le_dec n 0) as [Hn|]; [|assumption]. rewrite Z.pow_neg_r in H1 by assumption. lia. }
  apply Z.bits_above_log2; [lia|]. apply Z.lt_le_trans with n; [|lia].
  apply Z.log2_lt_pow2; lia.
Qed.

Lemma lor_disjoint x y k : 0 <= k -> 0 <= x < 2 ^ k -> Z.lor x (y * 2 ^ k) = x + y * 2 ^ k.
Proof.
  intros Hk Hx.
  assert (Hl : Z.land x (y * 2 ^ k) = 0).
  { apply Z.bits_inj'. intros n Hn. rewrite Z.land_spec, Z.bits_0.
    destruct (Z_lt_le_dec n k).
    - rewrite Z.mul_pow2_bits_low by lia. apply andb_false_r.
    - rewrite (testbit_small x k n) by lia. reflexivity. }
  rewrite <- Z.lxor_lor by exact Hl. symmetry. apply Z.add_nocarry_lxor. exact Hl.
Qed.

(* ---------- little-endian words ---------- *)

Lemma le_word_range l : Forall is_byte l -> 0 <= le_word l < 256 ^ Z.of_nat (length l).
Proof.
  induction 1 as [|b l Hb Hl IH]; [simpl; lia|].
  cbn [le_word length]. rewrite Nat2Z.inj_succ, Z.pow_succ_r by lia. unfold is_byte in Hb. lia.
Qed.

Lemma le_word_app l r : le_word (l ++ r) = le_word l + 256 ^ Z.of_nat (length l) * le_word r.
Proof.
  induction l as [|b l IH]; [cbn [app le_word length]; change (256 ^ Z.of_nat 0) with 1; lia|].
  cbn [app le_word length]. rewrite IH, Nat2Z.inj_succ, Z.pow_succ_r by lia. ring.
Qed.

Lemma pow256 n : 0 <= n -> 256 ^ n = 2 ^ (8 * n).
Proof. intros. rewrite Z.pow_mul_r by lia. reflexivity. Qed.

Lemma word_set_byte l b : Forall is_byte l -> is_byte b -> (length l < 8)%nat ->
  Z.lor (le_word l) (w64 (Z.shiftl b (Z.of_nat (length l) * 8))) = le_word (l ++ [b]).
Proof.
  intros Hl Hb Hlen. pose proof (le_word_range l Hl) as Hr.
  set (r := Z.of_nat (length l)) in *. assert (Hr8 : 0 <= r < 8) by lia.
  rewrite Z.shiftl_mul_pow2 by lia. unfold is_byte in Hb.
  assert (Hp : 0 < 2 ^ (r * 8) <= 2 ^ 56).
  { split; [apply Z.pow_pos_nonneg; lia|apply Z.pow_le_mono_r; lia]. }
  rewrite w64_small.
  2:{ rewrite W64_val. change (2 ^ 56) with 72057594037927936 in Hp. nia. }
  rewrite lor_disjoint; [| lia |].
  2:{ rewrite pow256 in Hr by lia. replace (r * 8) with (8 * r) by lia. exact Hr. }
  rewrite le_word_app. cbn [le_word]. fold r. rewrite pow256 by lia.
  replace (8 * r) with (r * 8) by lia. ring.
Qed.

Lemma lor_disjoint' x z k : 0 <= k -> 0 <= x < 2 ^ k -> z mod 2 ^ k = 0 -> Z.lor x z = x + z.
Proof.
  intros Hk Hx Hz. assert (0 < 2 ^ k) by (apply Z.pow_pos_nonneg; lia).
  replace z with ((z / 2 ^ k) * 2 ^ k) at 1 2.
  - apply lor_disjoint; assumption.
  - pose proof (Z.div_mod z (2 ^ k)). lia.
Qed.

Lemma load64_eq w : length w = 8%nat -> Forall is_byte w -> load64_le w = le_word w.
Proof.
  intros Hlen Hb.
  do 8 (destruct w as [|? w]; [discriminate|]). destruct w; [|discriminate].
  repeat match goal with H : Forall _ (_ :: _) |- _ => inversion H; clear H; subst end.
  unfold is_byte in *.
  unfold load64_le, getw. cbn [nth le_word]. rewrite !Z.shiftl_mul_pow2 by lia.
  rewrite (lor_disjoint' (z5 * 2 ^ 48) _ 56); [| lia | calc_pows; lia | calc_pows; lia].
  rewrite (lor_disjoint' (z4 * 2 ^ 40) _ 48); [| lia | calc_pows; lia | calc_pows; lia].
  rewrite (lor_disjoint' (z3 * 2 ^ 32) _ 40); [| lia | calc_pows; lia | calc_pows; lia].
  rewrite (lor_disjoint' (z2 * 2 ^ 24) _ 32); [| lia | calc_pows; lia | calc_pows; lia].
  rewrite (lor_disjoint' (z1 * 2 ^ 16) _ 24); [| lia | calc_pows; lia | calc_pows; lia].
  rewrite (lor_disjoint' (z0 * 2 ^ 8) _ 16); [| lia | calc_pows; lia | calc_pows; lia].
  rewrite (lor_disjoint' z _ 8); [| lia | calc_pows; lia | calc_pows; lia].
  calc_pows. lia.
Qed.

(* ---------- the word view of a byte buffer ---------- *)

Definition Wv (n : nat) (l : list Z) : list Z := map le_word (chunks 8 n l).

Lemma block_words_Wv b : block_words b = Wv 16 b. Proof. reflexivity. Qed.

Lemma Wv_length n l : length (Wv n l) = n.
Proof. unfold Wv. rewrite map_length. revert l. induction n; intros l; cbn [chunks length]; [reflexivity|]. rewrite IHn. reflexivity. Qed.

Lemma Forall_skipn {A} (P : A -> Prop) n l : Forall P l -> Forall P (skipn n l).
Proof. intros H. rewrite <- (firstn_skipn n l) in H. apply Forall_app in H. apply H. Qed.

Lemma Forall_firstn {A} (P : A -> Prop) n l : Forall P l -> Forall P (firstn n l).
Proof. intros H. rewrite <- (firstn_skipn n l) in H. apply Forall_app in H. apply H. Qed.

Lemma Wv_set_byte q : forall n l r b,
  length l = (8 * q + r)%nat -> (r < 8)%nat -> (q < n)%nat -> Forall is_byte l -> is_byte b ->
  Wv n (l ++ [b]) = setw (Wv n l) q (Z.lor (getw (Wv n l) q) (w64 (Z.shiftl b (Z.of_nat r * 8)))).
Proof.
  induction q as [|q IH]; intros n l r b Hlen Hr Hq Hl Hb; (destruct n as [|n]; [lia|]); unfold Wv; cbn [chunks map].
  - assert (Hlr : length l = r) by lia.
    rewrite (firstn_all2 (l ++ [b])) by (rewrite app_length; cbn [length]; lia).
    rewrite (firstn_all2 l) by lia.
    rewrite (skipn_all2 (l ++ [b])) by (rewrite app_length; cbn [length]; lia).
    rewrite (skipn_all2 l) by lia.
    cbn [setw getw nth]. f_equal. rewrite <- Hlr. symmetry. apply word_set_byte; [assumption|assumption|lia].
  - rewrite firstn_app, skipn_app. replace (8 - length l)%nat with 0%nat by lia.
    cbn [firstn skipn]. rewrite app_nil_r.
    cbn [setw getw nth]. f_equal.
    apply (IH n (skipn 8 l) r b); try assumption; try lia.
    + rewrite skipn_length. lia.
    + apply Forall_skipn. assumption.
Qed.

Lemma Wv_set_word q : forall n l w,
  length l = (8 * q)%nat -> (q < n)%nat -> length w = 8%nat -> Forall is_byte w ->
  Wv n (l ++ w) = setw (Wv n l) q (load64_le w).
Proof.
  induction q as [|q IH]; intros n l w Hlen Hq Hw Hb; (destruct n as [|n]; [lia|]); unfold Wv; cbn [chunks map].
  - destruct l; [|discriminate]. cbn [app].
    rewrite (firstn_all2 w) by lia. rewrite (skipn_all2 w) by lia.
    cbn [firstn skipn setw]. f_equal. symmetry. apply load64_eq; assumption.
  - rewrite firstn_app, skipn_app. replace (8 - length l)%nat with 0%nat by lia.
    cbn [firstn skipn]. rewrite app_nil_r.
    cbn [setw]. f_equal.
    apply (IH n (skipn 8 l) w); try assumption; try lia.
    rewrite skipn_length. lia.
Qed.

Lemma Wv_nil n : Wv n [] = repeat 0 n.
Proof.
  unfold Wv. induction n; cbn [chunks map repeat]; [reflexivity|].
  cbn [firstn skipn le_word]. f_equal. exact IHn.
Qed.

(* zero padding does not change the word view *)
Lemma le_word_zeros n : le_word (repeat 0 n) = 0.
Proof. induction n; cbn [repeat le_word]; lia. Qed.

Lemma le_word_pad l n : le_word (l ++ repeat 0 n) = le_word l.
Proof. rewrite le_word_app, le_word_zeros. lia. Qed.

Lemma firstn_repeat {A} (x : A) k n : firstn k (repeat x n) = repeat x (Nat.min k n).
Proof. revert n. induction k; intros [|n]; cbn [firstn repeat Nat.min]; try reflexivity. f_equal. apply IHk. Qed.

Lemma skipn_repeat {A} (x : A) k n : skipn k (repeat x n) = repeat x (n - k).
Proof. revert n. induction k; intros [|n]; cbn [skipn repeat Nat.sub]; try reflexivity. apply IHk. Qed.

Lemma Wv_pad n : forall l k, Wv n (l ++ repeat 0 k) = Wv n l.
Proof.
  unfold Wv. induction n as [|n IH]; intros l k; cbn [chunks map]; [reflexivity|].
  rewrite firstn_app, skipn_app, firstn_repeat, skipn_repeat, le_word_pad.
  f_equal. destruct (Nat.le_gt_cases (length l) 8) as [Hle|Hgt].
  - rewrite (skipn_all2 l) by assumption. cbn [app].
    change (repeat 0 (k - (8 - length l))) with ([] ++ repeat 0 (k - (8 - length l))).
    rewrite IH. reflexivity.
  - apply IH.
Qed.

Lemma block_words_pad l : block_words (pad_to 128 l) = block_words l.
Proof. unfold pad_to. rewrite !block_words_Wv. apply Wv_pad. Qed.

Lemma skipn_skipn' {A} (x y : nat) (l : list A) : skipn x (skipn y l) = skipn (y + x) l.
Proof. revert l. induction y as [|y IH]; intros l; [reflexivity|]. destruct l; [destruct x; reflexivity|]. cbn [skipn Nat.add]. apply IH. Qed.
