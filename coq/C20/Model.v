(* Executable model of /repo/src/hasher.c, one C function at a time.

   Conventions
   * uint64_t values are Z in [0, 2^64); every C operation that can wrap is followed by [w64]
     (Z.land with 2^64-1: same as mod 2^64, and fast once extracted).
   * byte strings are [list Z] with entries in 0..255.
   * C arrays indexed by constants or by table entries are lists read with [getw] (default 0) and
     written with [setw] (no-op when out of range); the blake2b context carries an explicit
     [c_oob] flag that is raised whenever the C code would index input[] outside 0..15, and
     [blake2b_impl] returns None in that case (theorems prove it never happens).
   * Base58: the working arrays buf[] (digits) and outi[] (uint32 limbs) are kept
     LEAST-significant first, i.e. model index k corresponds to C index size-1-k; C's downward
     loops `for (j = size-1; ...; --j)` become structural recursion over the list.  The
     out-of-bounds index j = -1 of base58_encode's inner loop is an explicit error (B58OOB).
   All tables/constants come from Gen.v (regenerated from the source on every run). *)
From Coq Require Import ZArith List Bool.
From C20 Require Export Gen.
Import ListNotations.
Local Open Scope Z_scope.

(* ---------------------------------------------------------------------------------------- *)
(* 64-bit words                                                                               *)
(* ---------------------------------------------------------------------------------------- *)

Definition MASK64 : Z := 18446744073709551615.
Definition w64 (x : Z) : Z := Z.land x MASK64.
Definition add64 (a b : Z) : Z := w64 (a + b).
(* static uint64_t rotr64(uint64_t x, uint64_t n) { return (x >> n) ^ (x << (64 - n)); } *)
Definition rotr64 (x n : Z) : Z := Z.lxor (Z.shiftr x n) (w64 (Z.shiftl x (64 - n))).
Definition not64 (x : Z) : Z := w64 (Z.lnot x).

Definition getw (l : list Z) (i : nat) : Z := nth i l 0.
Fixpoint setw (l : list Z) (i : nat) (x : Z) : list Z :=
  match l, i with
  | [], _ => []
  | _ :: r, O => x :: r
  | y :: r, S i' => y :: setw r i' x
  end.

(* ---------------------------------------------------------------------------------------- *)
(* blake2b_compress                                                                           *)
(* ---------------------------------------------------------------------------------------- *)

(* #define BLAKE2_G(v, a, b, c, d, x, y)
     v[a] += v[b] + x;  v[d] = rotr64(v[d] ^ v[a], R1);
     v[c] += v[d];      v[b] = rotr64(v[b] ^ v[c], R2);
     v[a] += v[b] + y;  v[d] = rotr64(v[d] ^ v[a], R3);
     v[c] += v[d];      v[b] = rotr64(v[b] ^ v[c], R4);   *)
Definition g_add3 (v : list Z) (a b : nat) (x : Z) : list Z :=      (* v[a] += v[b] + x; *)
  setw v a (add64 (getw v a) (add64 (getw v b) x)).
Definition g_add2 (v : list Z) (c d : nat) : list Z :=               (* v[c] += v[d]; *)
  setw v c (add64 (getw v c) (getw v d)).
Definition g_rot (v : list Z) (d a : nat) (r : Z) : list Z :=        (* v[d] = rotr64(v[d] ^ v[a], r); *)
  setw v d (rotr64 (Z.lxor (getw v d) (getw v a)) r).

Definition G_c (v : list Z) (a b c d : nat) (x y : Z) : list Z :=
  let '(r1, r2, r3, r4) := ROT_C in
  let v := g_rot (g_add3 v a b x) d a r1 in
  let v := g_rot (g_add2 v c d) b c r2 in
  let v := g_rot (g_add3 v a b y) d a r3 in
  g_rot (g_add2 v c d) b c r4.

(* the eight BLAKE2_G(v, a, b, c, d, input[sigma[i][xi]], input[sigma[i][yi]]) of one round *)
Definition round_c (m : list Z) (v : list Z) (row : list nat) : list Z :=
  fold_left (fun v (e : nat * nat * nat * nat * nat * nat) =>
               let '(a, b, c, d, xi, yi) := e in
               G_c v a b c d (getw m (nth xi row 0%nat)) (getw m (nth yi row 0%nat)))
            GSCHED_C v.

Fixpoint xor3_c (h a b : list Z) : list Z :=
  match h, a, b with
  | x :: h', y :: a', z :: b' => Z.lxor x (Z.lxor y z) :: xor3_c h' a' b'   (* hash[i] ^= v[i] ^ v[i+8] *)
  | _, _, _ => []
  end.

Definition compress_c (h : list Z) (t0 t1 : Z) (m : list Z) (is_last : bool) : list Z :=
  let v := h ++ IV_C in                                   (* v[i] = hash[i]; v[i+8] = iv[i] *)
  let v := setw v 12 (Z.lxor (getw v 12) t0) in
  let v := setw v 13 (Z.lxor (getw v 13) t1) in
  let v := if is_last then setw v 14 (not64 (getw v 14)) else v in
  let v := fold_left (round_c m) (firstn ROUNDS_C SIGMA_C) v in
  xor3_c h (firstn 8 v) (skipn 8 v).

(* ---------------------------------------------------------------------------------------- *)
(* blake2b context and init / update / final                                                  *)
(* ---------------------------------------------------------------------------------------- *)

Record bctx : Type := mkctx {
  c_hash : list Z;      (* uint64_t hash[8] *)
  c_t0 : Z;             (* input_offset[0] *)
  c_t1 : Z;             (* input_offset[1] *)
  c_input : list Z;     (* uint64_t input[16] *)
  c_idx : Z;            (* size_t input_idx *)
  c_hsize : Z;          (* size_t hash_size *)
  c_oob : bool          (* raised when input[] would be indexed outside its bounds *)
}.

(* x[0] += y; if (x[0] < y) x[1]++; *)
Definition blake2b_incr (c : bctx) : bctx :=
  let y := c_idx c in
  let x0 := add64 (c_t0 c) y in
  let x1 := if x0 <? y then add64 (c_t1 c) 1 else c_t1 c in
  mkctx (c_hash c) x0 x1 (c_input c) (c_idx c) (c_hsize c) (c_oob c).

(* ctx->input[word] |= (uint64_t)input << (byte * 8); ctx->input_idx++; *)
Definition blake2b_set_input (c : bctx) (b : Z) : bctx :=
  let word := Z.to_nat (c_idx c / 8) in
  let byte := c_idx c mod 8 in
  mkctx (c_hash c) (c_t0 c) (c_t1 c)
        (setw (c_input c) word (Z.lor (getw (c_input c) word) (w64 (Z.shiftl b (byte * 8)))))
        (c_idx c + 1) (c_hsize c)
        (c_oob c || (length (c_input c) <=? word)%nat).

Definition blake2b_compress (c : bctx) (is_last : bool) : bctx :=
  mkctx (compress_c (c_hash c) (c_t0 c) (c_t1 c) (c_input c) is_last)
        (c_t0 c) (c_t1 c) (c_input c) (c_idx c) (c_hsize c) (c_oob c).

Definition blake2b_reset_input (c : bctx) : bctx :=
  mkctx (c_hash c) (c_t0 c) (c_t1 c) (repeat 0 INPUTWORDS_C) 0 (c_hsize c) (c_oob c).

Definition blake2b_end_block (c : bctx) : bctx :=
  if c_idx c =? BLOCKBYTES_C
  then blake2b_reset_input (blake2b_compress (blake2b_incr c) false)
  else c.

Definition load64_le (s : list Z) : Z :=
  Z.lor (getw s 0)
  (Z.lor (Z.shiftl (getw s 1) 8)
  (Z.lor (Z.shiftl (getw s 2) 16)
  (Z.lor (Z.shiftl (getw s 3) 24)
  (Z.lor (Z.shiftl (getw s 4) 32)
  (Z.lor (Z.shiftl (getw s 5) 40)
  (Z.lor (Z.shiftl (getw s 6) 48)
         (Z.shiftl (getw s 7) 56))))))).

(* while (ctx->input_idx % 8 != 0 && message_size > 0) { set_input(ctx, *message); message++; message_size--; } *)
Fixpoint upd_align (c : bctx) (m : list Z) : bctx * list Z :=
  match m with
  | [] => (c, [])
  | b :: r => if c_idx c mod 8 =? 0 then (c, m) else upd_align (blake2b_set_input c b) r
  end.

(* for (i = 0; i < nb_words; i++) { end_block(ctx); ctx->input[ctx->input_idx / 8] = load64_le(message);
                                     message += 8; ctx->input_idx += 8; } *)
Fixpoint upd_words (n : nat) (c : bctx) (m : list Z) : bctx * list Z :=
  match n with
  | O => (c, m)
  | S n' =>
    let c1 := blake2b_end_block c in
    let word := Z.to_nat (c_idx c1 / 8) in
    let c2 := mkctx (c_hash c1) (c_t0 c1) (c_t1 c1)
                    (setw (c_input c1) word (load64_le (firstn 8 m)))
                    (c_idx c1 + 8) (c_hsize c1)
                    (c_oob c1 || (length (c_input c1) <=? word)%nat) in
    upd_words n' c2 (skipn 8 m)
  end.

Definition blake2b_update (c : bctx) (m : list Z) : bctx :=
  let '(c1, m1) := upd_align c m in
  let size := Z.of_nat (length m1) in
  let nb_words := size / 8 in
  let remainder := size mod 8 in
  let '(c2, m2) := upd_words (Z.to_nat nb_words) c1 m1 in
  let c3 := if remainder =? 0 then c2 else blake2b_end_block c2 in
  fold_left blake2b_set_input (firstn (Z.to_nat remainder) m2) c3.

Definition blake2b_init (hash_size : Z) (key : list Z) : bctx :=
  let key_size := Z.of_nat (length key) in
  let h := setw IV_C 0 (Z.lxor (getw IV_C 0)
                               (Z.lxor (Z.lxor PARAM_C (w64 (Z.shiftl key_size KEYSHIFT_C))) hash_size)) in
  let c := blake2b_reset_input (mkctx h 0 0 [] 0 hash_size false) in
  if 0 <? key_size then
    let c := blake2b_update c key in
    mkctx (c_hash c) (c_t0 c) (c_t1 c) (c_input c) KEYBLOCK_C (c_hsize c) (c_oob c)
  else c.

(* static void store64_le(uint8_t out[8], uint64_t in) *)
Definition store64_le (w : Z) : list Z :=
  [ Z.land w 255; Z.land (Z.shiftr w 8) 255; Z.land (Z.shiftr w 16) 255; Z.land (Z.shiftr w 24) 255;
    Z.land (Z.shiftr w 32) 255; Z.land (Z.shiftr w 40) 255; Z.land (Z.shiftr w 48) 255;
    Z.land (Z.shiftr w 56) 255 ].

Fixpoint zrange (from : Z) (n : nat) : list Z :=
  match n with O => [] | S n' => from :: zrange (from + 1) n' end.

(* blake2b_final: incr; compress(last); nb_words full words, then the tail bytes one by one *)
Definition blake2b_final (c : bctx) : bctx * list Z :=
  let c := blake2b_compress (blake2b_incr c) true in
  let nb_words := c_hsize c / 8 in
  let full := flat_map store64_le (firstn (Z.to_nat nb_words) (c_hash c)) in
  let tail := map (fun i => Z.land (Z.shiftr (getw (c_hash c) (Z.to_nat (i / 8))) (8 * (i mod 8))) 255)
                  (zrange (nb_words * 8) (Z.to_nat (c_hsize c - nb_words * 8))) in
  (c, full ++ tail).

(* static void blake2b(hash, hash_size, key, key_size, message, message_size) *)
Definition blake2b_impl (hash_size : Z) (key msg : list Z) : option (list Z) :=
  let c := blake2b_init hash_size key in
  let c := blake2b_update c msg in
  let '(c, out) := blake2b_final c in
  if c_oob c then None else Some out.

(* lblake2b: the Lua entry point (argument checks; digln is read into the C type scraped into DIGLN_IS_C_INT:
   a lua_Integer since ede4fb9, a C int - hence truncated before the range test - before) *)
Inductive lres : Type :=
| LOk (s : list Z)
| LErrKeySize        (* "bad key size" *)
| LErrDigestSize     (* "bad digest size" *)
| LErrTooLong        (* "string too long" *)
| LErrEncode         (* "base58 encode error" *)
| LErrDecode         (* "b58decode error" *)
| LUndefined.        (* the C code would index outside an array *)

Definition to_int32 (x : Z) : Z :=
  let y := x mod 4294967296 in if y <? 2147483648 then y else y - 4294967296.

Definition lblake2b (msg : list Z) (digln : Z) (key : list Z) : lres :=
  let digln := if DIGLN_IS_C_INT then to_int32 digln else digln in   (* `int digln = luaL_optinteger(...)` truncates *)
  if MAXKEY_C <? Z.of_nat (length key) then LErrKeySize
  else if (digln <? MINDIG_C) || (MAXDIG_C <? digln) then LErrDigestSize
  else match blake2b_impl digln key msg with Some d => LOk d | None => LUndefined end.

(* ---------------------------------------------------------------------------------------- *)
(* Base58                                                                                     *)
(* ---------------------------------------------------------------------------------------- *)

Fixpoint lead_zeros (l : list Z) : nat :=
  match l with
  | b :: r => if b =? 0 then S (lead_zeros r) else O
  | [] => O
  end.

(* for (carry = bin[i], j = size - 1; (j > high) || carry; --j)
     { carry += 256 * buf[j]; buf[j] = carry % 58; carry /= 58; }
   d = buf mirrored, k = size-1-j, high' = size-1-high.  None: j reached -1 (write before buf). *)
Fixpoint b58_enc_inner (d : list Z) (k high : Z) (carry : Z) : option (list Z * Z) :=
  match d with
  | [] => if (k <? high) || negb (carry =? 0) then None else Some ([], k)
  | x :: r =>
    if (k <? high) || negb (carry =? 0) then
      let '(q, m) := Z.div_eucl (carry + B58_ENC_MUL * x) B58_ENC_BASE in   (* q = c / 58, m = c % 58 *)
      match b58_enc_inner r (k + 1) high q with
      | Some (r', k') => Some (m :: r', k')
      | None => None
      end
    else Some (d, k)
  end.

(* for (i = zcount, high = size - 1; i < binsz; ++i, high = j) *)
Fixpoint b58_enc_outer (bin : list Z) (d : list Z) (high : Z) : option (list Z) :=
  match bin with
  | [] => Some d
  | b :: r => match b58_enc_inner d 0 high b with
              | Some (d', k') => b58_enc_outer r d' k'
              | None => None
              end
  end.

Fixpoint strip_zeros (l : list Z) : list Z :=
  match l with
  | b :: r => if b =? 0 then strip_zeros r else l
  | [] => []
  end.

(* static bool base58_encode(char *b58, size_t *b58sz, const char *data, size_t binsz), *b58sz = b58sz on entry *)
Definition base58_encode (b58sz : Z) (bin : list Z) : lres :=
  let binsz := Z.of_nat (length bin) in
  let zcount := lead_zeros bin in
  let size := (binsz - Z.of_nat zcount) * B58_SIZE_NUM / B58_SIZE_DEN + 1 in
  if B58_DECODE_MAXLEN <? size then LUndefined          (* uint8_t buf[BASE58_DECODE_MAXLEN]; memset(buf, 0, size) *)
  else
  match b58_enc_outer (skipn zcount bin) (repeat 0 (Z.to_nat size)) 0 with
  | None => LUndefined
  | Some d =>
    let digits := strip_zeros (rev d) in                (* for (j = 0; j < size && !buf[j]; ++j); *)
    let outlen := Z.of_nat zcount + Z.of_nat (length digits) in   (* zcount + size - j *)
    if b58sz <=? outlen then LErrEncode
    else LOk (repeat B58_PAD_ENC_C zcount ++ map (fun x => nth (Z.to_nat x) B58_ALPHABET_C 0) digits)
  end.

(* lbase58_encode *)
Definition lbase58_encode (b : list Z) : lres :=
  let bln := Z.of_nat (length b) in
  if bln =? 0 then LOk []
  else if B58_ENCODE_MAXLEN <? bln then LErrTooLong
  else base58_encode B58_DECODE_MAXLEN b.

(* for (j = outisz; j--; ) { t = ((uint64_t)outi[j]) * 58 + c; c = (t & 0x3f00000000) >> 32; outi[j] = t & 0xffffffff; }
   l = outi mirrored (least significant limb first) *)
Fixpoint b58_mul_add (l : list Z) (c : Z) : list Z * Z :=
  match l with
  | [] => ([], c)
  | x :: r =>
    let t := w64 (x * B58_DEC_BASE + c) in
    let '(r', c') := b58_mul_add r (Z.shiftr (Z.land t B58_DEC_CARRYMASK) B58_DEC_CARRYSHIFT) in
    (Z.land t B58_DEC_LIMBMASK :: r', c')
  end.

Definition b58_bytesleft : Z := B58_DECODE_MAXLEN mod 4.
Definition b58_zeromask : Z :=
  if b58_bytesleft =? 0 then 0 else Z.land (Z.shiftl 4294967295 (b58_bytesleft * 8)) 4294967295.

Fixpoint b58_dec_loop (s : list Z) (l : list Z) : option (list Z) :=
  match s with
  | [] => Some l
  | ch :: r =>
    if negb (Z.land ch B58_HIGHBIT_C =? 0) then None                        (* high bit set *)
    else let dg := nth (Z.to_nat ch) B58_MAP_C (-1) in
    if dg =? -1 then None                                         (* invalid base58 digit *)
    else let '(l', c) := b58_mul_add l (dg mod 4294967296) in     (* c = (unsigned)map[...] *)
    if negb (c =? 0) then None                                    (* carry to the next int32 *)
    else if negb (Z.land (last l' 0) b58_zeromask =? 0) then None (* outi[0] & zeromask *)
    else b58_dec_loop r l'
  end.

Definition be_bytes4 (w : Z) : list Z :=
  [ Z.land (Z.shiftr w 24) 255; Z.land (Z.shiftr w 16) 255; Z.land (Z.shiftr w 8) 255; Z.land w 255 ].

Fixpoint lead_char (x : Z) (l : list Z) : nat :=
  match l with
  | b :: r => if b =? x then S (lead_char x r) else O
  | [] => O
  end.

(* static bool base58_decode(char *bin, size_t *binszp, const char *b58, size_t b58sz) with *binszp = binsz on
   entry (BASE58_DECODE_MAXLEN from lbase58_decode); returns the bin buffer and the new *binszp *)
Definition base58_decode (binsz : Z) (b58 : list Z) : option (list Z * Z) :=
  let outisz := Z.to_nat (B58_DECODE_MAXLEN / 4) in
  let zerocount := lead_char B58_PAD_DEC_C b58 in
  match b58_dec_loop (skipn zerocount b58) (repeat 0 outisz) with
  | None => None
  | Some l =>
    let outi := rev l in                                   (* outi[0] first *)
    let o0 := hd 0 outi in
    let head := if b58_bytesleft =? 3 then [Z.land (Z.shiftr o0 16) 255; Z.land (Z.shiftr o0 8) 255; Z.land o0 255]
                else if b58_bytesleft =? 2 then [Z.land (Z.shiftr o0 8) 255; Z.land o0 255]
                else if b58_bytesleft =? 1 then [Z.land o0 255] else [] in
    let rest := if b58_bytesleft =? 0 then outi else tl outi in
    let bin := head ++ flat_map be_bytes4 rest in
    let lz := lead_zeros (firstn (Z.to_nat binsz) bin) in
    Some (bin, binsz - Z.of_nat lz + Z.of_nat zerocount)
  end.

(* lbase58_decode: the result is the last bln bytes of buf[BASE58_DECODE_MAXLEN] *)
Definition lbase58_decode (e : list Z) : lres :=
  let eln := Z.of_nat (length e) in
  if eln =? 0 then LOk []
  else if B58_DECODE_MAXLEN <? eln then LErrTooLong
  else match base58_decode B58_DECODE_MAXLEN e with
       | None => LErrDecode
       | Some (buf, bln) =>
         if (B58_DECODE_MAXLEN <? bln) || negb (Z.of_nat (length buf) =? B58_DECODE_MAXLEN) then LUndefined
         else LOk (skipn (Z.to_nat (B58_DECODE_MAXLEN - bln)) buf)
       end.

(* stringer.hash(s, len, key) = base58encode(blake2b(s, len or 20, key)) *)
Definition stringer_hash (s : list Z) (len : Z) (key : list Z) : lres :=
  match lblake2b s len key with
  | LOk h => lbase58_encode h
  | e => e
  end.

(* stringer.hash(s): `len = len or 20`, no key *)
Definition stringer_hash_default (s : list Z) : lres := stringer_hash s STRINGER_DEFAULT_LEN [].

(* hasher.blake2b(m): digln defaults to luaL_optinteger's default, no key *)
Definition lblake2b_default (msg : list Z) : lres := lblake2b msg DEFAULT_DIG_C [].

(* incremental use with a given counter (harness/C20/stream.c): blake2b_init; input_offset := {t0, t1};
   one blake2b_update per chunk; blake2b_final *)
Definition blake2b_stream (hash_size : Z) (key : list Z) (t0 t1 : Z) (chunks : list (list Z)) : option (list Z) :=
  let c := blake2b_init hash_size key in
  let c := mkctx (c_hash c) t0 t1 (c_input c) (c_idx c) (c_hsize c) (c_oob c) in
  let c := fold_left blake2b_update chunks c in
  let '(c, out) := blake2b_final c in
  if c_oob c then None else Some out.
