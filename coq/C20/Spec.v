(* Hand-written specification for property C20.  Nothing here depends on /repo.

   Part 1: BLAKE2b exactly as defined by RFC 7693 (sections 2.1-2.7, 3.1-3.3): constants written by
           hand from the RFC text, arithmetic as plain Z arithmetic with explicit "mod 2^64".
   Part 2: Base58 with the Bitcoin alphabet as a positional numeral system (independent of any
           buffer-based algorithm): value of a byte string, its base-58 digits, one '1' per leading
           zero byte. *)
From Coq Require Import ZArith List Bool.
Import ListNotations.
Local Open Scope Z_scope.

(* ------------------------------------------------------------------------------------------ *)
(* Part 1: RFC 7693, BLAKE2b  (w = 64, r = 12, bb = 128, rotations 32 24 16 63)                 *)
(* ------------------------------------------------------------------------------------------ *)

Definition W64 : Z := 2 ^ 64.
Definition RFC_ROUNDS : nat := 12.
Definition RFC_BB : Z := 128.
Definition RFC_R1 : Z := 32.
Definition RFC_R2 : Z := 24.
Definition RFC_R3 : Z := 16.
Definition RFC_R4 : Z := 63.

(* 2.6 initialisation vector *)
Definition RFC_IV : list Z :=
  [ 0x6a09e667f3bcc908; 0xbb67ae8584caa73b; 0x3c6ef372fe94f82b; 0xa54ff53a5f1d36f1;
    0x510e527fade682d1; 0x9b05688c2b3e6c1f; 0x1f83d9abfb41bd6b; 0x5be0cd19137e2179 ].

(* 2.7 message schedule SIGMA[0..9] *)
Definition RFC_SIGMA : list (list nat) :=
  [ [ 0; 1; 2; 3; 4; 5; 6; 7; 8; 9;10;11;12;13;14;15];
    [14;10; 4; 8; 9;15;13; 6; 1;12; 0; 2;11; 7; 5; 3];
    [11; 8;12; 0; 5; 2;15;13;10;14; 3; 6; 7; 1; 9; 4];
    [ 7; 9; 3; 1;13;12;11;14; 2; 6; 5;10; 4; 0;15; 8];
    [ 9; 0; 5; 7; 2; 4;10;15;14; 1;11;12; 6; 8; 3;13];
    [ 2;12; 6;10; 0;11; 8; 3; 4;13; 7; 5;15;14; 1; 9];
    [12; 5; 1;15;14;13; 4;10; 0; 7; 6; 3; 9; 2; 8;11];
    [13;11; 7;14;12; 1; 3; 9; 5; 0;15; 4; 8; 6; 2;10];
    [ 6;15;14; 9;11; 3; 0; 8;12; 2;13; 7; 1; 4;10; 5];
    [10; 2; 8; 4; 7; 6; 1; 5;15;11; 9;14; 3;12;13; 0] ]%nat.

Definition vget (l : list Z) (i : nat) : Z := nth i l 0.
Fixpoint vset (l : list Z) (i : nat) (x : Z) : list Z :=
  match l, i with
  | [], _ => []
  | _ :: r, O => x :: r
  | y :: r, S i' => y :: vset r i' x
  end.

(* 2.3: (x >>> n) = (x >> n) ^ (x << (w - n)) mod 2^w *)
Definition rfc_rotr (x n : Z) : Z := Z.lxor (Z.shiftr x n) ((Z.shiftl x (64 - n)) mod W64).

(* 3.1 mixing function G *)
Definition rfc_G (v : list Z) (a b c d : nat) (x y : Z) : list Z :=
  let v := vset v a ((vget v a + vget v b + x) mod W64) in
  let v := vset v d (rfc_rotr (Z.lxor (vget v d) (vget v a)) RFC_R1) in
  let v := vset v c ((vget v c + vget v d) mod W64) in
  let v := vset v b (rfc_rotr (Z.lxor (vget v b) (vget v c)) RFC_R2) in
  let v := vset v a ((vget v a + vget v b + y) mod W64) in
  let v := vset v d (rfc_rotr (Z.lxor (vget v d) (vget v a)) RFC_R3) in
  let v := vset v c ((vget v c + vget v d) mod W64) in
  vset v b (rfc_rotr (Z.lxor (vget v b) (vget v c)) RFC_R4).

(* 3.2: one round i of F: s := SIGMA[i mod 10], then the eight G applications *)
Definition rfc_round (m : list Z) (v : list Z) (i : nat) : list Z :=
  let s := nth (i mod 10) RFC_SIGMA [] in
  let mm (k : nat) := vget m (nth k s 0%nat) in
  let v := rfc_G v 0 4  8 12 (mm 0%nat) (mm 1%nat) in
  let v := rfc_G v 1 5  9 13 (mm 2%nat) (mm 3%nat) in
  let v := rfc_G v 2 6 10 14 (mm 4%nat) (mm 5%nat) in
  let v := rfc_G v 3 7 11 15 (mm 6%nat) (mm 7%nat) in
  let v := rfc_G v 0 5 10 15 (mm 8%nat) (mm 9%nat) in
  let v := rfc_G v 1 6 11 12 (mm 10%nat) (mm 11%nat) in
  let v := rfc_G v 2 7  8 13 (mm 12%nat) (mm 13%nat) in
  rfc_G v 3 4  9 14 (mm 14%nat) (mm 15%nat).

Fixpoint xor3 (h a b : list Z) : list Z :=
  match h, a, b with
  | x :: h', y :: a', z :: b' => Z.lxor (Z.lxor x y) z :: xor3 h' a' b'
  | _, _, _ => []
  end.

(* 3.2 compression function F(h, m, t, f).  The RFC requires 0 <= t < 2^(2w); the high word is
   reduced mod 2^w here so that F is total (identical on the RFC's domain). *)
Definition rfc_F (h m : list Z) (t : Z) (f : bool) : list Z :=
  let v := h ++ RFC_IV in
  let v := vset v 12 (Z.lxor (vget v 12) (t mod W64)) in
  let v := vset v 13 (Z.lxor (vget v 13) ((t / W64) mod W64)) in
  let v := if f then vset v 14 (Z.lxor (vget v 14) 0xFFFFFFFFFFFFFFFF) else v in
  let v := fold_left (rfc_round m) (seq 0 RFC_ROUNDS) v in
  xor3 h (firstn 8 v) (skipn 8 v).

(* little-endian interpretation of bytes as a word (2.1/3.3 "little-endian") *)
Fixpoint le_word (bs : list Z) : Z :=
  match bs with [] => 0 | b :: r => b + 256 * le_word r end.

Fixpoint chunks (k n : nat) (l : list Z) : list (list Z) :=
  match n with O => [] | S n' => firstn k l :: chunks k n' (skipn k l) end.

(* a 128-byte block as 16 little-endian words *)
Definition block_words (b : list Z) : list Z := map le_word (chunks 8 16 b).

Definition pad_to (n : nat) (l : list Z) : list Z := l ++ repeat 0 (n - length l).

(* little-endian bytes of a 64-bit word *)
Definition le_bytes8 (w : Z) : list Z :=
  map (fun k => (w / 256 ^ k) mod 256) [0; 1; 2; 3; 4; 5; 6; 7].

Definition ceil_div (a b : Z) : Z := (a + b - 1) / b.

(* 3.3: d[0..dd-1]: the (key-prefixed) data split into bb-byte blocks, the final one zero padded *)
Definition rfc_data (key msg : list Z) : list Z :=
  (if (Z.of_nat (length key) =? 0) then [] else pad_to 128 key) ++ msg.

Definition rfc_dd (key msg : list Z) : nat :=
  let kk := Z.of_nat (length key) in
  let ll := Z.of_nat (length msg) in
  if (kk =? 0) && (ll =? 0) then 1%nat
  else Z.to_nat (ceil_div kk RFC_BB + ceil_div ll RFC_BB).

Definition rfc_blocks (key msg : list Z) : list (list Z) :=
  map (pad_to 128) (chunks 128 (rfc_dd key msg) (rfc_data key msg)).

(* FOR i = 0 TO dd-2: h := F(h, d[i], (i+1)*bb, FALSE);  then the final block with t = tlast, f = TRUE *)
Fixpoint rfc_loop (h : list Z) (i : Z) (bs : list (list Z)) (tlast : Z) : list Z :=
  match bs with
  | [] => h                                           (* not reachable: dd >= 1 *)
  | [b] => rfc_F h (block_words b) tlast true
  | b :: rest => rfc_loop (rfc_F h (block_words b) ((i + 1) * RFC_BB) false) (i + 1) rest tlast
  end.

(* BLAKE2b(d, ll, kk, nn) *)
Definition blake2b_rfc (nn : Z) (key msg : list Z) : list Z :=
  let kk := Z.of_nat (length key) in
  let ll := Z.of_nat (length msg) in
  let h0 := vset RFC_IV 0 (Z.lxor (Z.lxor (Z.lxor (vget RFC_IV 0) 0x01010000) (Z.shiftl kk 8)) nn) in
  let tlast := if kk =? 0 then ll else ll + RFC_BB in
  let h := rfc_loop h0 0 (rfc_blocks key msg) tlast in
  firstn (Z.to_nat nn) (flat_map le_bytes8 h).

(* the same loop entered with block index i (i.e. with the 2w-bit counter at i*bb, as after i compressed
   blocks); blake2b_rfc is the instance i = 0.  Used to state the behaviour of the counter beyond 2^64. *)
Definition blake2b_rfc_from (i : Z) (nn : Z) (key msg : list Z) : list Z :=
  let kk := Z.of_nat (length key) in
  let ll := Z.of_nat (length msg) in
  let h0 := vset RFC_IV 0 (Z.lxor (Z.lxor (Z.lxor (vget RFC_IV 0) 0x01010000) (Z.shiftl kk 8)) nn) in
  let tlast := i * RFC_BB + (if kk =? 0 then ll else ll + RFC_BB) in
  let h := rfc_loop h0 i (rfc_blocks key msg) tlast in
  firstn (Z.to_nat nn) (flat_map le_bytes8 h).

Definition is_byte (b : Z) : Prop := 0 <= b < 256.
Definition is_byteb (b : Z) : bool := (0 <=? b) && (b <? 256).

(* ------------------------------------------------------------------------------------------ *)
(* Part 2: Base58 (Bitcoin alphabet) as a positional system                                      *)
(* ------------------------------------------------------------------------------------------ *)

(* "123456789ABCDEFGHJKLMNPQRSTUVWXYZabcdefghijkmnopqrstuvwxyz" (no 0 O I l) *)
Definition BITCOIN_ALPHABET : list Z :=
  [ 49;50;51;52;53;54;55;56;57;                                 (* 1-9 *)
    65;66;67;68;69;70;71;72;  74;75;76;77;78;  80;81;82;83;84;85;86;87;88;89;90;   (* A-H J-N P-Z *)
    97;98;99;100;101;102;103;104;105;106;107;  109;110;111;112;113;114;115;116;117;118;119;120;121;122 ]. (* a-k m-z *)

(* big-endian value of a digit string in base b *)
Definition be_value (b : Z) (l : list Z) : Z := fold_left (fun acc d => acc * b + d) l 0.

(* minimal little-endian digits of v in base b (empty for 0); fuel = bit length is enough for b >= 2 *)
Fixpoint le_digits_fuel (fuel : nat) (b v : Z) : list Z :=
  match fuel with
  | O => []
  | S f => if v <=? 0 then [] else v mod b :: le_digits_fuel f b (v / b)
  end.
Definition be_digits (b v : Z) : list Z := rev (le_digits_fuel (S (Z.to_nat (Z.log2 v))) b v).

Fixpoint lead_count (x : Z) (l : list Z) : nat :=
  match l with
  | y :: r => if y =? x then S (lead_count x r) else O
  | [] => O
  end.

(* index of a character in the alphabet *)
Fixpoint index_of (c : Z) (l : list Z) (i : Z) : option Z :=
  match l with
  | [] => None
  | y :: r => if y =? c then Some i else index_of c r (i + 1)
  end.

Definition b58_char (d : Z) : Z := nth (Z.to_nat d) BITCOIN_ALPHABET 0.

(* encoding: one '1' per leading zero byte, then the base-58 digits of the big-endian value *)
Definition base58_spec_encode (x : list Z) : list Z :=
  let z := lead_count 0 x in
  repeat 49 z ++ map b58_char (be_digits 58 (be_value 256 (skipn z x))).

Fixpoint all_some (l : list (option Z)) : option (list Z) :=
  match l with
  | [] => Some []
  | None :: _ => None
  | Some x :: r => match all_some r with Some r' => Some (x :: r') | None => None end
  end.

(* decoding: None if some character is not in the alphabet; otherwise one zero byte per leading '1'
   followed by the minimal big-endian bytes of the base-58 value of the rest *)
Definition base58_spec_decode (s : list Z) : option (list Z) :=
  match all_some (map (fun c => index_of c BITCOIN_ALPHABET 0) s) with
  | None => None
  | Some ds => let z := lead_count 0 ds in
               Some (repeat 0 z ++ be_digits 256 (be_value 58 (skipn z ds)))
  end.
