(* Positional numerals in a base b >= 2: little-endian value, canonical digits (no most
   significant zero), uniqueness, and the two functions of Spec.v (be_value, be_digits). *)
From Coq Require Import ZArith List Bool Lia.
From C20 Require Import Spec Model.
Import ListNotations.
Local Open Scope Z_scope.
Ltac Zify.zify_post_hook ::= Z.div_mod_to_equations.

Fixpoint le_val (b : Z) (d : list Z) : Z :=
  match d with [] => 0 | x :: r => x + b * le_val b r end.

Definition digit (b x : Z) : Prop := 0 <= x < b.

Section Base.
Variable b : Z.
Hypothesis Hb : 2 <= b.

Lemma le_val_range d : Forall (digit b) d -> 0 <= le_val b d < b ^ Z.of_nat (length d).
Proof.
  induction 1 as [|x d Hx Hd IH]; [cbn; lia|].
  cbn [le_val length]. rewrite Nat2Z.inj_succ, Z.pow_succ_r by lia. unfold digit in Hx. nia.
Qed.

Lemma le_val_app d e : le_val b (d ++ e) = le_val b d + b ^ Z.of_nat (length d) * le_val b e.
Proof.
  induction d as [|x d IH]; [cbn [app le_val length]; change (b ^ Z.of_nat 0) with 1; lia|].
  cbn [app le_val length]. rewrite IH, Nat2Z.inj_succ, Z.pow_succ_r by lia. ring.
Qed.

Lemma le_val_zeros n : le_val b (repeat 0 n) = 0.
Proof. induction n; cbn [repeat le_val]; lia. Qed.

Lemma le_val_zero_all d : Forall (digit b) d -> le_val b d = 0 -> d = repeat 0 (length d).
Proof.
  induction 1 as [|x d Hx Hd IH]; intros Hv; [reflexivity|].
  cbn [le_val] in Hv. pose proof (le_val_range d Hd) as Hr. unfold digit in Hx.
  assert (x = 0 /\ le_val b d = 0) as [-> Hz] by nia.
  cbn [length repeat]. f_equal. apply IH. exact Hz.
Qed.

(* no most-significant zero digit *)
Definition canon (d : list Z) : Prop := d = [] \/ last d 0 <> 0.

Lemma canon_tail x r : canon (x :: r) -> canon r.
Proof. intros [H|H]; [discriminate|]. destruct r; [left; reflexivity|right; exact H]. Qed.

Lemma canon_unique d : forall e, Forall (digit b) d -> Forall (digit b) e ->
  canon d -> canon e -> le_val b d = le_val b e -> d = e.
Proof.
  induction d as [|x d IH]; intros e Hd He Cd Ce Hv.
  - destruct e as [|y e]; [reflexivity|]. exfalso.
    symmetry in Hv. change (le_val b []) with 0 in Hv.
    pose proof (le_val_zero_all (y :: e) He Hv) as Hz.
    destruct Ce as [C|C]; [discriminate|]. apply C. rewrite Hz.
    clear. generalize (length (y :: e)). intros n. induction n as [|n IHn]; [reflexivity|].
    cbn [repeat]. destruct n; [reflexivity|exact IHn].
  - destruct e as [|y e].
    + exfalso. change (le_val b []) with 0 in Hv.
      pose proof (le_val_zero_all (x :: d) Hd Hv) as Hz.
      destruct Cd as [C|C]; [discriminate|]. apply C. rewrite Hz.
      clear. generalize (length (x :: d)). intros n. induction n as [|n IHn]; [reflexivity|].
      cbn [repeat]. destruct n; [reflexivity|exact IHn].
    + inversion Hd as [|? ? Hx Hd']; inversion He as [|? ? Hy He']; subst.
      cbn [le_val] in Hv. unfold digit in Hx, Hy.
      assert (Hv' : le_val b d = le_val b e).
      { set (A := le_val b d) in *. set (B := le_val b e) in *.
        destruct (Z_lt_le_dec A B); [exfalso; assert (b * B >= b * A + b) by nia; lia|].
        destruct (Z_lt_le_dec B A); [exfalso; assert (b * A >= b * B + b) by nia; lia|lia]. }
      assert (x = y) by (rewrite Hv' in Hv; lia). subst y.
      f_equal. apply IH; try assumption; eapply canon_tail; eassumption.
Qed.

(* the canonical digits computed by Spec.le_digits_fuel *)
Lemma le_digits_fuel_spec f : forall v, 0 <= v < 2 ^ Z.of_nat f ->
  Forall (digit b) (le_digits_fuel f b v) /\ canon (le_digits_fuel f b v) /\ le_val b (le_digits_fuel f b v) = v.
Proof.
  induction f as [|f IH]; intros v Hv.
  - change (2 ^ Z.of_nat 0) with 1 in Hv. assert (v = 0) by lia. subst. cbn. repeat split; [constructor|left; reflexivity].
  - cbn [le_digits_fuel]. destruct (Z.leb_spec v 0) as [Hle|Hgt].
    + assert (v = 0) by lia. subst. cbn. repeat split; [constructor|left; reflexivity].
    + rewrite Nat2Z.inj_succ, Z.pow_succ_r in Hv by lia.
      assert (Hq : 0 <= v / b < 2 ^ Z.of_nat f) by (split; [apply Z.div_pos; lia|]; apply Z.div_lt_upper_bound; nia).
      destruct (IH (v / b) Hq) as (Hd & Hc & Hval).
      split; [|split].
      * constructor; [unfold digit; apply Z.mod_pos_bound; lia|exact Hd].
      * right. destruct (le_digits_fuel f b (v / b)) as [|y r] eqn:E.
        -- cbn [last]. cbn [le_val] in Hval.
           pose proof (Z.div_mod v b ltac:(lia)). lia.
        -- destruct Hc as [C|C]; [discriminate|]. exact C.
      * cbn [le_val]. rewrite Hval. pose proof (Z.div_mod v b ltac:(lia)). lia.
Qed.

Definition le_digits (v : Z) : list Z := le_digits_fuel (S (Z.to_nat (Z.log2 v))) b v.

Lemma le_digits_spec v : 0 <= v ->
  Forall (digit b) (le_digits v) /\ canon (le_digits v) /\ le_val b (le_digits v) = v.
Proof.
  intros Hv. apply le_digits_fuel_spec. split; [assumption|].
  destruct (Z.eq_dec v 0) as [->|Hne]; [cbn; lia|].
  rewrite Nat2Z.inj_succ, Z2Nat.id by apply Z.log2_nonneg.
  apply Z.log2_spec. lia.
Qed.

Lemma be_digits_rev v : be_digits b v = rev (le_digits v).
Proof. reflexivity. Qed.

(* big-endian value = little-endian value of the reversed list *)
Lemma be_value_acc l : forall acc, fold_left (fun a d => a * b + d) l acc = acc * b ^ Z.of_nat (length l) + le_val b (rev l).
Proof.
  induction l as [|x l IH]; intros acc; [cbn; lia|].
  cbn [fold_left rev length]. rewrite IH, le_val_app, rev_length. cbn [le_val].
  rewrite Nat2Z.inj_succ, Z.pow_succ_r by lia. ring.
Qed.

Lemma be_value_rev l : be_value b l = le_val b (rev l).
Proof. unfold be_value. rewrite be_value_acc. lia. Qed.

Lemma be_value_cons x l : be_value b (x :: l) = x * b ^ Z.of_nat (length l) + be_value b l.
Proof. unfold be_value. cbn [fold_left]. rewrite !be_value_acc. lia. Qed.

Lemma be_value_app l r : be_value b (l ++ r) = be_value b l * b ^ Z.of_nat (length r) + be_value b r.
Proof. unfold be_value. rewrite fold_left_app, !be_value_acc. ring. Qed.

(* stripping most-significant zeros of a big-endian digit string gives the canonical digits *)
Lemma strip_zeros_split l : l = repeat 0 (lead_zeros l) ++ strip_zeros l.
Proof.
  induction l as [|x l IH]; [reflexivity|]. cbn [lead_zeros strip_zeros].
  destruct (Z.eqb_spec x 0) as [->|Hne]; [|reflexivity]. cbn [repeat app]. f_equal. exact IH.
Qed.

Lemma strip_zeros_hd l : strip_zeros l = [] \/ hd 0 (strip_zeros l) <> 0.
Proof.
  induction l as [|x l IH]; [left; reflexivity|]. cbn [strip_zeros].
  destruct (Z.eqb_spec x 0) as [->|Hne]; [exact IH|right; exact Hne].
Qed.

Lemma strip_zeros_Forall (P : Z -> Prop) l : Forall P l -> Forall P (strip_zeros l).
Proof. induction 1 as [|x l Hx Hl IH]; [constructor|]. cbn [strip_zeros]. destruct (x =? 0); [exact IH|constructor; assumption]. Qed.

Lemma be_value_zeros n : be_value b (repeat 0 n) = 0.
Proof.
  unfold be_value. induction n as [|n IH]; [reflexivity|]. cbn [repeat fold_left].
  replace (0 * b + 0) with 0 by lia. exact IH.
Qed.

Lemma last_rev (l : list Z) : last (rev l) 0 = hd 0 l.
Proof. destruct l as [|x l]; [reflexivity|]. cbn [rev hd]. apply last_last. Qed.

Lemma canon_rev_strip l : canon (rev (strip_zeros l)).
Proof.
  destruct (strip_zeros_hd l) as [H|H]; [left; rewrite H; reflexivity|].
  right. rewrite last_rev. exact H.
Qed.

Lemma strip_be_digits l : Forall (digit b) l -> strip_zeros l = be_digits b (be_value b l).
Proof.
  intros Hl.
  assert (Hv : 0 <= be_value b l).
  { rewrite be_value_rev. apply le_val_range. apply Forall_rev. exact Hl. }
  destruct (le_digits_spec (be_value b l) Hv) as (Hd & Hc & Hval).
  rewrite be_digits_rev. rewrite <- (rev_involutive (strip_zeros l)). f_equal.
  apply canon_unique; try assumption.
  - apply Forall_rev. apply strip_zeros_Forall. exact Hl.
  - apply canon_rev_strip.
  - rewrite Hval. rewrite <- be_value_rev.
    rewrite (strip_zeros_split l) at 2. rewrite be_value_app, be_value_zeros. lia.
Qed.

(* a canonical big-endian string is the be_digits of its value *)
Lemma be_digits_of_canonical l : Forall (digit b) l -> (l = [] \/ hd 0 l <> 0) -> be_digits b (be_value b l) = l.
Proof.
  intros Hl Hc. rewrite <- strip_be_digits by exact Hl.
  destruct l as [|x l]; [reflexivity|]. destruct Hc as [|Hc]; [discriminate|]. cbn [hd] in Hc.
  cbn [strip_zeros]. destruct (Z.eqb_spec x 0); [contradiction|reflexivity].
Qed.

Lemma be_digits_props v : 0 <= v ->
  Forall (digit b) (be_digits b v) /\ (be_digits b v = [] \/ hd 0 (be_digits b v) <> 0) /\ be_value b (be_digits b v) = v.
Proof.
  intros Hv. destruct (le_digits_spec v Hv) as (Hd & Hc & Hval). rewrite be_digits_rev.
  split; [apply Forall_rev; exact Hd|]. split.
  - destruct Hc as [->|Hc]; [left; reflexivity|]. right. rewrite <- last_rev, rev_involutive. exact Hc.
  - rewrite be_value_rev, rev_involutive. exact Hval.
Qed.
End Base.
