(* Part 4 of the BLAKE2b proofs: init, final, the byte machine equals the RFC block loop, and the
   main theorem blake2b_impl = blake2b_rfc. *)
From Coq Require Import ZArith List Bool Lia.
From C20 Require Import Spec Model ProofsCompress ProofsBuffer ProofsUpdate.
Import ListNotations.
Local Open Scope Z_scope.
Ltac Zify.zify_post_hook ::= Z.div_mod_to_equations.

(* ---------- hash_size is never modified ---------- *)

Lemma hsize_set_input c b : c_hsize (blake2b_set_input c b) = c_hsize c. Proof. reflexivity. Qed.
Lemma hsize_end_block c : c_hsize (blake2b_end_block c) = c_hsize c.
Proof. unfold blake2b_end_block. destruct (c_idx c =? BLOCKBYTES_C); reflexivity. Qed.
Lemma hsize_set_inputs w : forall c, c_hsize (fold_left blake2b_set_input w c) = c_hsize c.
Proof. induction w as [|b w IH]; intros c; cbn [fold_left]; [reflexivity|]. rewrite IH. reflexivity. Qed.
Lemma hsize_upd_align m : forall c, c_hsize (fst (upd_align c m)) = c_hsize c.
Proof.
  induction m as [|b m IH]; intros c; cbn [upd_align]; [reflexivity|].
  destruct (c_idx c mod 8 =? 0); [reflexivity|]. rewrite IH. reflexivity.
Qed.
Lemma hsize_upd_words n : forall c m, c_hsize (fst (upd_words n c m)) = c_hsize c.
Proof.
  induction n as [|n IH]; intros c m; cbn [upd_words]; [reflexivity|].
  rewrite IH. cbn [c_hsize]. apply hsize_end_block.
Qed.
Lemma hsize_update c m : c_hsize (blake2b_update c m) = c_hsize c.
Proof.
  unfold blake2b_update.
  pose proof (hsize_upd_align m c) as H1. destruct (upd_align c m) as [c1 m1]. cbn [fst] in H1.
  match goal with |- context [upd_words ?n c1 m1] => pose proof (hsize_upd_words n c1 m1) as H2; destruct (upd_words n c1 m1) as [c2 m2] end.
  cbn [fst] in H2. rewrite hsize_set_inputs.
  destruct (_ =? 0); [|rewrite hsize_end_block]; congruence.
Qed.

Lemma hsize_init nn key : c_hsize (blake2b_init nn key) = nn.
Proof.
  unfold blake2b_init. destruct (0 <? Z.of_nat (length key)); [|reflexivity].
  cbn [c_hsize]. rewrite hsize_update. reflexivity.
Qed.

(* ---------- init ---------- *)

Definition rfc_h0 (nn kk : Z) : list Z :=
  vset RFC_IV 0 (Z.lxor (Z.lxor (Z.lxor (vget RFC_IV 0) 0x01010000) (Z.shiftl kk 8)) nn).

Lemma init_h_eq nn kk : 0 <= kk <= 64 ->
  setw IV_C 0 (Z.lxor (getw IV_C 0) (Z.lxor (Z.lxor PARAM_C (w64 (Z.shiftl kk KEYSHIFT_C))) nn)) = rfc_h0 nn kk.
Proof.
  intros Hk. unfold rfc_h0. rewrite iv_eq, param_eq, keyshift_eq.
  rewrite w64_small by (rewrite Z.shiftl_mul_pow2, W64_val by lia; change (2 ^ 8) with 256; lia).
  change setw with vset. change getw with vget. f_equal.
  rewrite !Z.lxor_assoc. reflexivity.
Qed.

Definition key_block (key : list Z) : list Z :=
  if Z.of_nat (length key) =? 0 then [] else pad_to 128 key.

Lemma rel_init nn key : Forall is_byte key -> (length key <= 64)%nat ->
  Rel (blake2b_init nn key) (rfc_h0 nn (Z.of_nat (length key))) 0 (key_block key).
Proof.
  intros Hb Hlen. unfold blake2b_init. rewrite init_h_eq by lia.
  set (h0 := rfc_h0 nn (Z.of_nat (length key))).
  assert (Hh0 : length h0 = 8%nat) by (subst h0; unfold rfc_h0; rewrite vset_length; reflexivity).
  assert (HR0 : Rel (blake2b_reset_input (mkctx h0 0 0 [] 0 nn false)) h0 0 []).
  { constructor; cbn [blake2b_reset_input c_hash c_t0 c_t1 c_input c_idx c_oob length]; try (rewrite inputwords_eq; reflexivity); try reflexivity; try lia; try assumption.
    constructor. }
  unfold key_block.
  destruct (Z.ltb_spec 0 (Z.of_nat (length key))) as [Hpos|Hz].
  - destruct (Z.eqb_spec (Z.of_nat (length key)) 0) as [He|_]; [lia|].
    pose proof (rel_update _ h0 0 [] key HR0 Hb) as HR1.
    rewrite afeed_many_noflush in HR1 by (cbn [length]; lia). cbn [app RelA] in HR1.
    destruct HR1 as [Hh Hhl Htp Ht0 Ht1 Hin Hidx Hlen' Hby Hoob].
    constructor; cbn [c_hash c_t0 c_t1 c_input c_idx c_oob]; try assumption.
    + rewrite Hin. symmetry. apply block_words_pad.
    + rewrite keyblock_eq. unfold pad_to. rewrite app_length, repeat_length. lia.
    + unfold pad_to. rewrite app_length, repeat_length. lia.
    + unfold pad_to. apply Forall_app. split; [assumption|]. apply Forall_forall. intros x Hx.
      apply repeat_spec in Hx. subst x. unfold is_byte. lia.
  - destruct (Z.eqb_spec (Z.of_nat (length key)) 0) as [_|Hne]; [|lia]. exact HR0.
Qed.

(* ---------- final: the output bytes ---------- *)

Lemma le_bytes8_store w : le_bytes8 w = store64_le w.
Proof.
  unfold le_bytes8, store64_le. cbn [map].
  change 255 with (Z.ones 8). rewrite !Z.land_ones, !Z.shiftr_div_pow2 by lia.
  change (2 ^ 8) with 256. change (256 ^ 0) with 1. rewrite Z.div_1_r.
  repeat (f_equal; [reflexivity|]). reflexivity.
Qed.

Lemma flat_map_ext' {A B} (f g : A -> list B) l : (forall x, f x = g x) -> flat_map f l = flat_map g l.
Proof. intros H. induction l; cbn [flat_map]; [reflexivity|]. rewrite H, IHl. reflexivity. Qed.

Lemma final_bytes hl nn : length hl = 8%nat -> 1 <= nn <= 64 ->
  flat_map store64_le (firstn (Z.to_nat (nn / 8)) hl) ++
  map (fun i => Z.land (Z.shiftr (getw hl (Z.to_nat (i / 8))) (8 * (i mod 8))) 255)
      (zrange (nn / 8 * 8) (Z.to_nat (nn - nn / 8 * 8)))
  = firstn (Z.to_nat nn) (flat_map le_bytes8 hl).
Proof.
  intros Hl Hn. rewrite (flat_map_ext' le_bytes8 store64_le) by apply le_bytes8_store.
  do 8 (destruct hl as [|? hl]; [discriminate|]). destruct hl; [|discriminate].
  assert (Hk : exists k, nn = Z.of_nat k /\ (1 <= k <= 64)%nat) by (exists (Z.to_nat nn); lia).
  destruct Hk as (k & -> & Hk).
  destruct k as [|k]; [lia|].
  do 64 (destruct k as [|k]; [reflexivity|]). lia.
Qed.

Lemma rel_final c h t buf nn : Rel c h t buf -> c_hsize c = nn -> 1 <= nn <= 64 ->
  let '(c', out) := blake2b_final c in
  c_oob c' = false /\ out = firstn (Z.to_nat nn) (flat_map le_bytes8 (afinal (h, t, buf))).
Proof.
  intros [r_hash0 r_hlen0 r_tpos0 r_t2 r_t3 r_input0 r_idx0 r_len0 r_bytes0 r_oob0] Hs Hn. unfold blake2b_final.
  destruct (incr_counter t (c_idx c) (c_t0 c) (c_t1 c) r_tpos0 ltac:(lia) r_t2 r_t3) as [H0 H1].
  cbv zeta in H0, H1.
  cbn [blake2b_compress blake2b_incr c_hash c_t0 c_t1 c_input c_idx c_oob c_hsize].
  split; [assumption|].
  rewrite H1, H0, r_hash0, r_input0, r_idx0, Hs.
  rewrite compress_eq by assumption. cbn [afinal].
  apply final_bytes; [apply rfc_F_length; assumption | assumption].
Qed.

(* ---------- the byte machine computes the RFC block loop ---------- *)

Lemma rfc_loop_cons h i b rest tl : rest <> [] ->
  rfc_loop h i (b :: rest) tl = rfc_loop (rfc_F h (block_words b) ((i + 1) * RFC_BB) false) (i + 1) rest tl.
Proof. destruct rest; [congruence|reflexivity]. Qed.

Lemma afinal_rfc_loop k : forall d h t i,
  t = i * 128 ->
  (Z.of_nat k * 128 < Z.of_nat (length d) <= (Z.of_nat k + 1) * 128 \/ (k = 0%nat /\ d = [])) ->
  afinal (fold_left afeed d (h, t, [])) =
  rfc_loop h i (map (pad_to 128) (chunks 128 (S k) d)) (t + Z.of_nat (length d)).
Proof.
  induction k as [|k IH]; intros d h t i Ht Hd.
  - assert (Hlen : (length d <= 128)%nat) by (destruct Hd as [Hd|[_ ->]]; [lia|cbn [length]; lia]).
    rewrite afeed_many_noflush by (cbn [length]; lia). cbn [app afinal chunks map rfc_loop].
    rewrite firstn_all2 by lia. rewrite block_words_pad. reflexivity.
  - destruct Hd as [Hd|[Hk _]]; [|discriminate].
    rewrite Nat2Z.inj_succ in Hd.
    rewrite <- (firstn_skipn 128 d) at 1. rewrite fold_left_app.
    assert (Hl1 : length (firstn 128 d) = 128%nat) by (rewrite firstn_length; lia).
    assert (Hl2 : Z.of_nat (length (skipn 128 d)) = Z.of_nat (length d) - 128) by (rewrite skipn_length; lia).
    rewrite afeed_many_noflush by (cbn [length]; lia). cbn [app].
    set (d1 := firstn 128 d) in *. set (d2 := skipn 128 d) in *.
    set (h' := rfc_F h (block_words d1) (t + 128) false).
    assert (Hstep : fold_left afeed d2 (h, t, d1) = fold_left afeed d2 (h', t + 128, [])).
    { destruct d2 as [|b d2']; [cbn [length] in Hl2; lia|]. cbn [fold_left]. f_equal.
      unfold afeed, aflush. rewrite Hl1. cbn [length]. reflexivity. }
    rewrite Hstep. rewrite (IH d2 h' (t + 128) (i + 1)); [ | lia | left; lia ].
    change (chunks 128 (S (S k)) d) with (d1 :: chunks 128 (S k) d2).
    cbn [map]. rewrite rfc_loop_cons by (cbn [chunks map]; discriminate).
    rewrite block_words_pad.
    unfold RFC_BB. subst h'. replace ((i + 1) * 128) with (t + 128) by lia.
    f_equal. lia.
Qed.

Lemma rfc_dd_succ key msg : (length key <= 64)%nat ->
  exists k, rfc_dd key msg = S k /\
    (Z.of_nat k * 128 < Z.of_nat (length (rfc_data key msg)) <= (Z.of_nat k + 1) * 128 \/ (k = 0%nat /\ rfc_data key msg = [])).
Proof.
  intros Hk. unfold rfc_dd, rfc_data, ceil_div, RFC_BB.
  destruct (Z.eqb_spec (Z.of_nat (length key)) 0) as [Hz|Hnz].
  - cbn [andb app]. destruct (Z.eqb_spec (Z.of_nat (length msg)) 0) as [Hm|Hm].
    + exists 0%nat. split; [reflexivity|]. right. split; [reflexivity|]. destruct msg; [reflexivity|cbn [length] in Hm; lia].
    + exists (Z.to_nat ((Z.of_nat (length msg) - 1) / 128)). split; [lia|]. left. lia.
  - cbn [andb]. exists (Z.to_nat ((Z.of_nat (length msg) + 127) / 128)). split; [lia|]. left.
    unfold pad_to. rewrite !app_length, repeat_length. lia.
Qed.

Lemma blake2b_impl_correct nn key msg :
  1 <= nn <= 64 -> (length key <= 64)%nat -> Forall is_byte key -> Forall is_byte msg ->
  blake2b_impl nn key msg = Some (blake2b_rfc nn key msg).
Proof.
  intros Hn Hk Hbk Hbm. unfold blake2b_impl.
  pose proof (rel_init nn key Hbk Hk) as HR0.
  pose proof (rel_update _ _ _ _ msg HR0 Hbm) as HR1.
  pose proof (hsize_update (blake2b_init nn key) msg) as Hs. rewrite hsize_init in Hs.
  set (h0 := rfc_h0 nn (Z.of_nat (length key))) in *.
  assert (Hfold : fold_left afeed msg (h0, 0, key_block key) = fold_left afeed (rfc_data key msg) (h0, 0, [])).
  { unfold rfc_data. fold (key_block key). rewrite fold_left_app. f_equal.
    rewrite afeed_many_noflush; [reflexivity|].
    unfold key_block, pad_to. destruct (_ =? 0); cbn [length]; [lia|]. rewrite app_length, repeat_length. lia. }
  rewrite Hfold in HR1.
  destruct (fold_left afeed (rfc_data key msg) (h0, 0, [])) as [[h t] buf] eqn:HA. cbn [RelA] in HR1.
  pose proof (rel_final _ h t buf nn HR1 Hs Hn) as HF.
  destruct (blake2b_final (blake2b_update (blake2b_init nn key) msg)) as [c' out].
  destruct HF as [Hoob ->]. rewrite Hoob. f_equal.
  unfold blake2b_rfc. f_equal. f_equal. rewrite <- HA.
  destruct (rfc_dd_succ key msg Hk) as (k & Hdd & Hrange).
  rewrite (afinal_rfc_loop k (rfc_data key msg) h0 0 0 ltac:(lia) Hrange).
  unfold rfc_blocks. rewrite Hdd. fold h0. f_equal.
  unfold rfc_data, RFC_BB, pad_to.
  destruct (Z.eqb_spec (Z.of_nat (length key)) 0); rewrite ?app_length, ?repeat_length; cbn [app length]; lia.
Qed.

(* ---------- the specification evaluates to the published vectors ---------- *)

(* RFC 7693 appendix A: BLAKE2b-512("abc") = BA 80 A5 3F 98 1C 4D 0D ... D4 00 99 23 *)
Definition vec_abc : list Z := [186; 128; 165; 63; 152; 28; 77; 13; 106; 39; 151; 182; 159; 18; 246; 233; 76; 33; 47; 20; 104; 90; 196; 183; 75; 18; 187; 111; 219; 255; 162; 209; 125; 135; 197; 57; 42; 171; 121; 45; 194; 82; 213; 222; 69; 51; 204; 149; 24; 211; 138; 168; 219; 241; 146; 90; 185; 35; 134; 237; 212; 0; 153; 35].
Example rfc_appendix_A : blake2b_rfc 64 [] [97; 98; 99] = vec_abc.
Proof. vm_compute. reflexivity. Qed.
Example impl_appendix_A : blake2b_impl 64 [] [97; 98; 99] = Some vec_abc.
Proof. vm_compute. reflexivity. Qed.

(* reference KAT (blake2b-kat.txt, keyed): key = 00 01 .. 3f, input = "" -> 10 EB B6 77 ...;
   input = 00 01 .. fe (255 bytes) -> 14 27 09 D6 ... *)
Definition kat_key : list Z := map Z.of_nat (seq 0 64).
Definition vec_keyed_empty : list Z := [16; 235; 182; 119; 0; 177; 134; 142; 251; 68; 23; 152; 122; 207; 70; 144; 174; 157; 151; 47; 183; 165; 144; 194; 240; 40; 113; 121; 154; 170; 71; 134; 181; 233; 150; 232; 240; 244; 235; 152; 31; 194; 20; 176; 5; 244; 45; 47; 244; 35; 52; 153; 57; 22; 83; 223; 122; 239; 203; 193; 63; 197; 21; 104].
Definition vec_keyed_255 : list Z := [20; 39; 9; 214; 46; 40; 252; 204; 208; 175; 151; 250; 208; 248; 70; 91; 151; 30; 130; 32; 29; 197; 16; 112; 250; 160; 55; 42; 164; 62; 146; 72; 75; 225; 193; 231; 59; 161; 9; 6; 213; 209; 133; 61; 182; 164; 16; 110; 10; 123; 249; 128; 13; 55; 61; 109; 238; 45; 70; 214; 46; 242; 164; 97].
Example rfc_keyed_empty : blake2b_rfc 64 kat_key [] = vec_keyed_empty.
Proof. vm_compute. reflexivity. Qed.
Example rfc_keyed_255 : blake2b_rfc 64 kat_key (map Z.of_nat (seq 0 255)) = vec_keyed_255.
Proof. vm_compute. reflexivity. Qed.

(* the hypotheses of blake2b_impl_correct are satisfiable, and its conclusion is not vacuous *)
Example impl_correct_instance :
  blake2b_impl 20 [1; 2; 3] [97; 98; 99] = Some (blake2b_rfc 20 [1; 2; 3] [97; 98; 99]) /\
  length (blake2b_rfc 20 [1; 2; 3] [97; 98; 99]) = 20%nat.
Proof. vm_compute. split; reflexivity. Qed.

(* ---------- the Lua entry point ---------- *)

Lemma to_int32_small x : -2147483648 <= x < 2147483648 -> to_int32 x = x.
Proof. intros. unfold to_int32. destruct (Z.ltb_spec (x mod 4294967296) 2147483648); lia. Qed.

Lemma lblake2b_correct msg digln key :
  1 <= digln <= 64 -> (length key <= 64)%nat -> Forall is_byte key -> Forall is_byte msg ->
  lblake2b msg digln key = LOk (blake2b_rfc digln key msg).
Proof.
  intros Hn Hk Hbk Hbm. unfold lblake2b.
  replace (if DIGLN_IS_C_INT then to_int32 digln else digln) with digln by (destruct DIGLN_IS_C_INT; [rewrite to_int32_small by lia|]; reflexivity).
  rewrite maxkey_eq, mindig_eq, maxdig_eq.
  destruct (Z.ltb_spec 64 (Z.of_nat (length key))); [lia|].
  destruct (Z.ltb_spec digln 1); [lia|]. destruct (Z.ltb_spec 64 digln); [lia|]. cbn [orb].
  rewrite blake2b_impl_correct by assumption. reflexivity.
Qed.

Lemma lblake2b_rejects msg digln key :
  -2147483648 <= digln < 2147483648 ->
  (64 < length key)%nat \/ digln < 1 \/ 64 < digln ->
  lblake2b msg digln key = LErrKeySize \/ lblake2b msg digln key = LErrDigestSize.
Proof.
  intros Hr Hbad. unfold lblake2b.
  replace (if DIGLN_IS_C_INT then to_int32 digln else digln) with digln by (destruct DIGLN_IS_C_INT; [rewrite to_int32_small by lia|]; reflexivity).
  rewrite maxkey_eq, mindig_eq, maxdig_eq.
  destruct (Z.ltb_spec 64 (Z.of_nat (length key))); [left; reflexivity|].
  destruct (Z.ltb_spec digln 1); [right; reflexivity|]. destruct (Z.ltb_spec 64 digln); [right; reflexivity|]. lia.
Qed.

Lemma blake2b_rfc_length nn key msg : 0 <= nn <= 64 -> length (blake2b_rfc nn key msg) = Z.to_nat nn.
Proof.
  intros Hn. unfold blake2b_rfc. rewrite firstn_length.
  assert (Hlen : forall h, length h = 8%nat -> length (flat_map le_bytes8 h) = 64%nat).
  { intros h Hh. do 8 (destruct h as [|? h]; [discriminate|]). destruct h; [|discriminate]. reflexivity. }
  rewrite Hlen; [lia|].
  unfold rfc_blocks.
  generalize (map (pad_to 128) (chunks 128 (rfc_dd key msg) (rfc_data key msg))).
  generalize (if Z.of_nat (length key) =? 0 then Z.of_nat (length msg) else Z.of_nat (length msg) + RFC_BB).
  assert (H0 : length (vset RFC_IV 0 (Z.lxor (Z.lxor (Z.lxor (vget RFC_IV 0) 16842752) (Z.shiftl (Z.of_nat (length key)) 8)) nn)) = 8%nat)
    by (rewrite vset_length; reflexivity).
  revert H0. generalize (vset RFC_IV 0 (Z.lxor (Z.lxor (Z.lxor (vget RFC_IV 0) 16842752) (Z.shiftl (Z.of_nat (length key)) 8)) nn)).
  generalize 0.
  intros i h Hh tl bs. revert i h Hh. induction bs as [|b bs IH]; intros i h Hh; [exact Hh|].
  destruct bs as [|b2 bs]; [apply rfc_F_length; exact Hh|].
  rewrite rfc_loop_cons by discriminate. apply IH. apply rfc_F_length. exact Hh.
Qed.

(* ---------- incremental hashing does not depend on how the message is cut into chunks ---------- *)

Lemma rel_determines c c' h t buf : Rel c h t buf -> Rel c' h t buf -> c_hsize c = c_hsize c' -> c = c'.
Proof.
  intros [H1 _ _ H2 H3 H4 H5 _ _ H6] [H1' _ _ H2' H3' H4' H5' _ _ H6'] Hs.
  destruct c, c'. cbn in *. congruence.
Qed.

Lemma update_app c h t buf a b : Rel c h t buf -> Forall is_byte a -> Forall is_byte b ->
  blake2b_update (blake2b_update c a) b = blake2b_update c (a ++ b).
Proof.
  intros HR Ha Hb.
  pose proof (rel_update c h t buf a HR Ha) as H1.
  pose proof (rel_update c h t buf (a ++ b) HR (proj2 (Forall_app _ _ _) (conj Ha Hb))) as H2.
  rewrite fold_left_app in H2.
  destruct (fold_left afeed a (h, t, buf)) as [[h1 t1] buf1]. cbn [RelA] in H1.
  pose proof (rel_update _ h1 t1 buf1 b H1 Hb) as H3.
  destruct (fold_left afeed b (h1, t1, buf1)) as [[h2 t2] buf2]. cbn [RelA] in H2, H3.
  apply (rel_determines _ _ h2 t2 buf2 H3 H2). rewrite !hsize_update. reflexivity.
Qed.

Lemma update_chunks chunks : forall c h t buf, Rel c h t buf -> Forall (Forall is_byte) chunks ->
  fold_left blake2b_update chunks c = blake2b_update c (concat chunks).
Proof.
  induction chunks as [|a rest IH]; intros c h t buf HR Hc; cbn [fold_left concat].
  - pose proof (rel_update c h t buf [] HR ltac:(constructor)) as H. cbn [fold_left RelA] in H.
    apply (rel_determines _ _ h t buf HR H). rewrite hsize_update. reflexivity.
  - inversion Hc as [|? ? Ha Hrest]; subst.
    pose proof (rel_update c h t buf a HR Ha) as H1.
    destruct (fold_left afeed a (h, t, buf)) as [[h1 t1] buf1] eqn:E. cbn [RelA] in H1.
    rewrite (IH _ h1 t1 buf1 H1 Hrest).
    apply (update_app c h t buf); [exact HR|exact Ha|].
    clear -Hrest. induction Hrest as [|x l Hx _ IHl]; cbn [concat]; [constructor|]. apply Forall_app. split; assumption.
Qed.

Lemma streaming_from_init nn key chunks :
  (length key <= 64)%nat -> Forall is_byte key -> Forall (Forall is_byte) chunks ->
  fold_left blake2b_update chunks (blake2b_init nn key) = blake2b_update (blake2b_init nn key) (concat chunks).
Proof.
  intros Hk Hbk Hc. eapply update_chunks; [apply rel_init; assumption|exact Hc].
Qed.

(* ---------- the Lua entry point: every argument outside the documented domain is refused ---------- *)

(* documented: "digln: between 1 and 64", "key length between 1 and 64" - every other argument is an error *)
Definition lblake2b_rejects_full : Prop := forall msg digln key,
  (64 < length key)%nat \/ digln < 1 \/ 64 < digln ->
  lblake2b msg digln key = LErrKeySize \/ lblake2b msg digln key = LErrDigestSize.

(* holds since ede4fb9 (`lua_Integer digln`): depends on the scraped fact that digln is not a C int any more; with
   `int digln` the statement is false (2^32 + 5 is truncated to 5 before the range test) and this proof breaks *)
Lemma digln_not_truncated : DIGLN_IS_C_INT = false. Proof. reflexivity. Qed.

Lemma lblake2b_rejects_full_holds : lblake2b_rejects_full.
Proof.
  intros msg digln key Hbad. unfold lblake2b. rewrite digln_not_truncated.
  rewrite maxkey_eq, mindig_eq, maxdig_eq.
  destruct (Z.ltb_spec 64 (Z.of_nat (length key))); [left; reflexivity|].
  destruct (Z.ltb_spec digln 1); [right; reflexivity|]. destruct (Z.ltb_spec 64 digln); [right; reflexivity|]. lia.
Qed.

Lemma lblake2b_default_ok msg : Forall is_byte msg ->
  lblake2b_default msg = LOk (blake2b_rfc 64 [] msg).
Proof.
  intros Hm. unfold lblake2b_default. change DEFAULT_DIG_C with 64.
  apply lblake2b_correct; [lia|cbn [length]; lia|constructor|exact Hm].
Qed.

(* ---------- the 128-bit counter: hashing continued from block index i ---------- *)

Lemma blake2b_rfc_from_0 nn key msg : blake2b_rfc_from 0 nn key msg = blake2b_rfc nn key msg.
Proof. reflexivity. Qed.

Lemma Forall_concat_bytes chunks : Forall (Forall is_byte) chunks -> Forall is_byte (concat chunks).
Proof. induction 1 as [|x l Hx _ IH]; cbn [concat]; [constructor|]. apply Forall_app. split; assumption. Qed.

Lemma blake2b_stream_correct nn key i chunks :
  1 <= nn <= 64 -> (length key <= 64)%nat -> Forall is_byte key -> Forall (Forall is_byte) chunks -> 0 <= i ->
  blake2b_stream nn key ((i * 128) mod W64) ((i * 128 / W64) mod W64) chunks
  = Some (blake2b_rfc_from i nn key (concat chunks)).
Proof.
  intros Hn Hk Hbk Hbc Hi. unfold blake2b_stream.
  pose proof (rel_init nn key Hbk Hk) as [r_hash0 r_hlen0 r_tpos0 r_t2 r_t3 r_input0 r_idx0 r_len0 r_bytes0 r_oob0].
  set (c0 := blake2b_init nn key) in *.
  set (h0 := rfc_h0 nn (Z.of_nat (length key))) in *.
  set (c1 := mkctx (c_hash c0) ((i * 128) mod W64) ((i * 128 / W64) mod W64) (c_input c0) (c_idx c0) (c_hsize c0) (c_oob c0)).
  assert (HR0 : Rel c1 h0 (i * 128) (key_block key)).
  { constructor; cbn [c1 c_hash c_t0 c_t1 c_input c_idx c_oob]; try assumption; try reflexivity. lia. }
  set (msg := concat chunks).
  assert (Hbm : Forall is_byte msg) by (apply Forall_concat_bytes; exact Hbc).
  rewrite (update_chunks chunks c1 h0 (i * 128) (key_block key) HR0 Hbc). fold msg.
  pose proof (rel_update _ _ _ _ msg HR0 Hbm) as HR1.
  assert (Hs : c_hsize (blake2b_update c1 msg) = nn).
  { rewrite hsize_update. cbn [c1 c_hsize]. subst c0. apply hsize_init. }
  assert (Hfold : fold_left afeed msg (h0, i * 128, key_block key) = fold_left afeed (rfc_data key msg) (h0, i * 128, [])).
  { unfold rfc_data. fold (key_block key). rewrite fold_left_app. f_equal.
    rewrite afeed_many_noflush; [reflexivity|].
    unfold key_block, pad_to. destruct (_ =? 0); cbn [length]; [lia|]. rewrite app_length, repeat_length. lia. }
  rewrite Hfold in HR1.
  destruct (fold_left afeed (rfc_data key msg) (h0, i * 128, [])) as [[h t] buf] eqn:HA. cbn [RelA] in HR1.
  pose proof (rel_final _ h t buf nn HR1 Hs Hn) as HF.
  destruct (blake2b_final (blake2b_update c1 msg)) as [c' out].
  destruct HF as [Hoob ->]. rewrite Hoob. f_equal.
  unfold blake2b_rfc_from. f_equal. f_equal. rewrite <- HA.
  destruct (rfc_dd_succ key msg Hk) as (k & Hdd & Hrange).
  rewrite (afinal_rfc_loop k (rfc_data key msg) h0 (i * 128) i ltac:(lia) Hrange).
  unfold rfc_blocks. rewrite Hdd. fold h0. f_equal.
  unfold rfc_data, RFC_BB, pad_to.
  destruct (Z.eqb_spec (Z.of_nat (length key)) 0); rewrite ?app_length, ?repeat_length; cbn [app length]; lia.
Qed.

(* an instance whose counter crosses 2^64 while hashing: i = 2^57 - 1, i.e. t0 = 2^64 - 128, t1 = 0, two blocks fed *)
Example counter_carry_instance :
  let i := 2 ^ 57 - 1 in
  (i * 128) mod W64 = 2 ^ 64 - 128 /\ (i * 128 / W64) mod W64 = 0 /\
  blake2b_stream 32 [] (2 ^ 64 - 128) 0 [repeat 7 100; repeat 9 101] = Some (blake2b_rfc_from i 32 [] (repeat 7 100 ++ repeat 9 101)) /\
  blake2b_rfc_from i 32 [] (repeat 7 100 ++ repeat 9 101) <> blake2b_rfc 32 [] (repeat 7 100 ++ repeat 9 101).
Proof. vm_compute. repeat split; try reflexivity. discriminate. Qed.
