(* One case per line:
     B <digln> <keyhex|-> <msghex|->     lblake2b (model of hasher.c)           -> ok <hex> | err <message>
     R <digln> <keyhex|-> <msghex|->     blake2b_rfc (the hand-written RFC spec) -> ok <hex>
     E <hex|->                           lbase58_encode                         -> ok <hex> | err <message>
     D <hex|->                           lbase58_decode                         -> ok <hex> | err <message>
     e <hex|->                           base58_spec_encode (positional spec)   -> ok <hex>
     d <hex|->                           base58_spec_decode                     -> ok <hex> | err invalid
     b <msghex|->                        lblake2b_default: hasher.blake2b(m)    -> ok <hex>
     K <digln> <msghex|->                lblake2b with key = "" (empty string)  -> ok <hex> | err <message>
     S <outlen> <keyhex|-> <t0hex> <t1hex> <chunkhex|->...   blake2b_stream (harness/C20/stream.c)  -> ok <hex>
     F <ihex> <outlen> <keyhex|-> <msghex|->                 blake2b_rfc_from i (spec)             -> ok <hex>
     H <len> <keyhex|-> <msghex|->       stringer_hash                          -> ok <hex> | err <message>
     h <msghex|->                        stringer_hash_default (len = 20)       -> ok <hex> | err <message>
   Byte strings travel as hex ("-" = empty). *)
open Model
open Zutil

let bytes_of s = if s = "-" then [] else zlist_of_hexbytes s
let hex_of l = match l with [] -> "-" | _ -> hexbytes_of_zlist l
let z_of_dec s = let i = int_of_string s in z_of_int i

let show (r : lres) : string =
  match r with
  | LOk s -> "ok " ^ hex_of s
  | LErrKeySize -> "err bad key size"
  | LErrDigestSize -> "err bad digest size"
  | LErrTooLong -> "err string too long"
  | LErrEncode -> "err base58 encode error"
  | LErrDecode -> "err b58decode error"
  | LUndefined -> "err UNDEFINED-BEHAVIOUR"

let () =
  iter_lines (fun line ->
    match split_ws line with
    | [] -> ()
    | op :: args ->
      let a i = List.nth args i in
      let out =
        try
          (match op with
           | "B" -> show (lblake2b (bytes_of (a 2)) (z_of_dec (a 0)) (bytes_of (a 1)))
           | "b" -> show (lblake2b_default (bytes_of (a 0)))
           | "K" -> show (lblake2b (bytes_of (a 1)) (z_of_dec (a 0)) [])
           | "S" -> (match blake2b_stream (z_of_dec (a 0)) (bytes_of (a 1)) (z_of_hex (a 2)) (z_of_hex (a 3))
                             (List.map bytes_of (List.filteri (fun i _ -> i >= 4) args)) with
                     | Some d -> "ok " ^ hex_of d | None -> "err UNDEFINED-BEHAVIOUR")
           | "F" -> "ok " ^ hex_of (blake2b_rfc_from (z_of_hex (a 0)) (z_of_dec (a 1)) (bytes_of (a 2)) (bytes_of (a 3)))
           | "R" -> "ok " ^ hex_of (blake2b_rfc (z_of_dec (a 0)) (bytes_of (a 1)) (bytes_of (a 2)))
           | "E" -> show (lbase58_encode (bytes_of (a 0)))
           | "D" -> show (lbase58_decode (bytes_of (a 0)))
           | "e" -> "ok " ^ hex_of (base58_spec_encode (bytes_of (a 0)))
           | "d" -> (match base58_spec_decode (bytes_of (a 0)) with Some l -> "ok " ^ hex_of l | None -> "err invalid")
           | "h" -> show (stringer_hash_default (bytes_of (a 0)))
           | "H" -> show (stringer_hash (bytes_of (a 2)) (z_of_dec (a 0)) (bytes_of (a 1)))
           | _ -> "?unknown-op")
        with e -> "!exn " ^ Printexc.to_string e
      in
      print_string out; print_newline ())
