From C20 Require Import Spec Model.
Require Extraction.
Require Import ExtrOcamlBasic.
Extraction "model.ml" blake2b_impl blake2b_rfc lblake2b lbase58_encode lbase58_decode stringer_hash stringer_hash_default lblake2b_default blake2b_stream blake2b_rfc_from
  base58_spec_encode base58_spec_decode compress_c rfc_F.
