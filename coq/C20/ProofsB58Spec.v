(* The positional Base58 specification of Spec.v: encode and decode are mutual inverses (for
   byte strings of any length). *)
From Coq Require Import ZArith List Bool Lia.
From C20 Require Import Spec Model ProofsBuffer ProofsDigits.
Import ListNotations.
Local Open Scope Z_scope.

(* ---------- finite checks lifted to Z ranges ---------- *)

Lemma forallb_zrange (P : Z -> bool) (n : nat) :
  forallb P (map Z.of_nat (seq 0 n)) = true -> forall z, 0 <= z < Z.of_nat n -> P z = true.
Proof.
  intros H z Hz. rewrite forallb_forall in H. apply H.
  apply in_map_iff. exists (Z.to_nat z). split; [lia|]. apply in_seq. lia.
Qed.

(* ---------- the alphabet ---------- *)

Lemma alphabet_length : length BITCOIN_ALPHABET = 58%nat. Proof. reflexivity. Qed.

Lemma index_of_char d : 0 <= d < 58 -> index_of (b58_char d) BITCOIN_ALPHABET 0 = Some d.
Proof.
  intros Hd.
  pose proof (forallb_zrange (fun d => match index_of (b58_char d) BITCOIN_ALPHABET 0 with Some e => e =? d | None => false end) 58
                ltac:(vm_compute; reflexivity) d Hd) as H.
  cbv beta in H. destruct (index_of (b58_char d) BITCOIN_ALPHABET 0); [|discriminate].
  apply Z.eqb_eq in H. subst. reflexivity.
Qed.

Lemma index_of_sound c l : forall i d, index_of c l i = Some d -> i <= d < i + Z.of_nat (length l) /\ nth (Z.to_nat (d - i)) l 0 = c.
Proof.
  induction l as [|y l IH]; intros i d H; [discriminate|]. cbn [index_of] in H.
  destruct (Z.eqb_spec y c) as [->|Hne].
  - inversion H; subst. cbn [length]. split; [lia|]. replace (d - d) with 0 by lia. reflexivity.
  - apply IH in H. destruct H as [Hr Hn]. cbn [length]. split; [lia|].
    replace (Z.to_nat (d - i)) with (S (Z.to_nat (d - (i + 1)))) by lia. exact Hn.
Qed.

Lemma char_of_index c d : index_of c BITCOIN_ALPHABET 0 = Some d -> 0 <= d < 58 /\ b58_char d = c.
Proof.
  intros H. apply index_of_sound in H. rewrite alphabet_length in H. destruct H as [Hr Hn].
  split; [lia|]. unfold b58_char. rewrite Z.sub_0_r in Hn. exact Hn.
Qed.

Lemma b58_char_0 : b58_char 0 = 49. Proof. reflexivity. Qed.

(* ---------- list helpers ---------- *)

Lemma lead_count_split x l : l = repeat x (lead_count x l) ++ skipn (lead_count x l) l.
Proof.
  induction l as [|y l IH]; [reflexivity|]. cbn [lead_count].
  destruct (Z.eqb_spec y x) as [->|Hne]; [|reflexivity]. cbn [repeat skipn app]. f_equal. exact IH.
Qed.

Lemma lead_count_rest x l : skipn (lead_count x l) l = [] \/ hd 0 (skipn (lead_count x l) l) <> x \/ (hd 0 (skipn (lead_count x l) l) = x /\ False).
Proof.
  induction l as [|y l IH]; [left; reflexivity|]. cbn [lead_count].
  destruct (Z.eqb_spec y x) as [->|Hne]; [exact IH|]. right. left. exact Hne.
Qed.

Lemma lead_count_rest' x l : skipn (lead_count x l) l = [] \/ hd 0 (skipn (lead_count x l) l) <> x.
Proof. destruct (lead_count_rest x l) as [H|[H|[_ []]]]; auto. Qed.

Lemma lead_count_repeat_app x n l : (l = [] \/ hd 0 l <> x) -> lead_count x (repeat x n ++ l) = n.
Proof.
  intros Hl. induction n as [|n IH]; cbn [repeat app lead_count].
  - destruct l as [|y l]; [reflexivity|]. cbn [lead_count]. destruct Hl as [|Hl]; [discriminate|]. cbn [hd] in Hl.
    destruct (Z.eqb_spec y x); [contradiction|reflexivity].
  - rewrite Z.eqb_refl. f_equal. exact IH.
Qed.

Lemma skipn_repeat_app {A} (x : A) n l : skipn n (repeat x n ++ l) = l.
Proof. induction n; [reflexivity|]. cbn [repeat app skipn]. exact IHn. Qed.

Lemma map_repeat' {A B} (f : A -> B) x n : map f (repeat x n) = repeat (f x) n.
Proof. induction n; [reflexivity|]. cbn [repeat map]. f_equal. exact IHn. Qed.

Lemma all_some_app l1 l2 :
  all_some (l1 ++ l2) = match all_some l1, all_some l2 with Some a, Some b => Some (a ++ b) | _, _ => None end.
Proof.
  induction l1 as [|[x|] l1 IH]; cbn [app all_some].
  - destruct (all_some l2); reflexivity.
  - rewrite IH. destruct (all_some l1), (all_some l2); reflexivity.
  - reflexivity.
Qed.

Lemma all_some_map_Some l : all_some (map Some l) = Some l.
Proof. induction l as [|x l IH]; [reflexivity|]. cbn [map all_some]. rewrite IH. reflexivity. Qed.

Lemma all_some_Forall2 (f : Z -> option Z) s : forall ds, all_some (map f s) = Some ds -> Forall2 (fun c d => f c = Some d) s ds.
Proof.
  induction s as [|c s IH]; intros ds H; cbn [map all_some] in H.
  - inversion H. constructor.
  - destruct (f c) as [d|] eqn:E; [|discriminate]. destruct (all_some (map f s)) as [ds'|]; [|discriminate].
    inversion H; subst. constructor; [exact E|]. apply IH. reflexivity.
Qed.

Lemma Forall2_all_some (f : Z -> option Z) s ds : Forall2 (fun c d => f c = Some d) s ds -> all_some (map f s) = Some ds.
Proof. induction 1 as [|c d s ds E H IH]; [reflexivity|]. cbn [map all_some]. rewrite E, IH. reflexivity. Qed.

Lemma all_some_None (f : Z -> option Z) s : all_some (map f s) = None <-> exists c, In c s /\ f c = None.
Proof.
  induction s as [|c s IH]; cbn [map all_some]; [split; [discriminate|intros (c & [] & _)]|].
  destruct (f c) as [d|] eqn:E.
  - destruct (all_some (map f s)) as [ds|].
    + split; [discriminate|]. intros (c' & [->|Hin] & Hn); [congruence|].
      assert (Hx : Some ds = None) by (apply IH; exists c'; auto). discriminate.
    + split; [|reflexivity]. intros _. destruct IH as [IH _]. destruct (IH eq_refl) as (c' & Hin & Hn). exists c'. split; [right; exact Hin|exact Hn].
  - split; [|reflexivity]. intros _. exists c. split; [left; reflexivity|exact E].
Qed.

Lemma is_byte_digit l : Forall is_byte l -> Forall (digit 256) l.
Proof. intros H. eapply Forall_impl; [|exact H]. intros a Ha. exact Ha. Qed.

(* ---------- round trips of the specification ---------- *)

Lemma spec_decode_encode x : Forall is_byte x -> base58_spec_decode (base58_spec_encode x) = Some x.
Proof.
  intros Hx. unfold base58_spec_encode.
  set (z := lead_count 0 x). set (bs := skipn z x).
  assert (Hsplit : x = repeat 0 z ++ bs) by apply lead_count_split.
  assert (Hbs : Forall (digit 256) bs) by (apply is_byte_digit; subst bs; apply Forall_skipn; exact Hx).
  assert (Hhd : bs = [] \/ hd 0 bs <> 0) by apply lead_count_rest'.
  assert (HV : 0 <= be_value 256 bs).
  { rewrite be_value_rev by lia. apply le_val_range; [lia|]. apply Forall_rev. exact Hbs. }
  destruct (be_digits_props 58 ltac:(lia) (be_value 256 bs) HV) as (HD & HDc & HDv).
  set (D := be_digits 58 (be_value 256 bs)) in *.
  unfold base58_spec_decode.
  assert (Hall : all_some (map (fun c => index_of c BITCOIN_ALPHABET 0) (repeat 49 z ++ map b58_char D)) = Some (repeat 0 z ++ D)).
  { rewrite map_app, all_some_app.
    assert (H1 : map (fun c => index_of c BITCOIN_ALPHABET 0) (repeat 49 z) = map Some (repeat 0 z)).
    { rewrite !map_repeat'. reflexivity. }
    assert (H2 : map (fun c => index_of c BITCOIN_ALPHABET 0) (map b58_char D) = map Some D).
    { rewrite map_map. apply map_ext_in. intros d Hd. apply index_of_char.
      rewrite Forall_forall in HD. apply HD. exact Hd. }
    rewrite H1, H2, !all_some_map_Some. reflexivity. }
  rewrite Hall. rewrite (lead_count_repeat_app 0 z D HDc), skipn_repeat_app, HDv.
  rewrite (be_digits_of_canonical 256 ltac:(lia) bs Hbs Hhd). rewrite <- Hsplit. reflexivity.
Qed.

Lemma spec_encode_decode s r : base58_spec_decode s = Some r -> base58_spec_encode r = s /\ Forall is_byte r.
Proof.
  unfold base58_spec_decode. intros H.
  destruct (all_some (map (fun c => index_of c BITCOIN_ALPHABET 0) s)) as [ds|] eqn:E; [|discriminate].
  inversion H; subst r; clear H.
  apply all_some_Forall2 in E.
  assert (Hds : Forall (digit 58) ds /\ map b58_char ds = s).
  { clear -E. induction E as [|c d s ds Hc HE [IH1 IH2]]; [split; [constructor|reflexivity]|].
    apply char_of_index in Hc. destruct Hc as [Hr Hc]. split; [constructor; [exact Hr|exact IH1]|].
    cbn [map]. rewrite Hc, IH2. reflexivity. }
  destruct Hds as [Hdig Hmap].
  set (z := lead_count 0 ds) in *. set (rest := skipn z ds) in *.
  assert (Hsplit : ds = repeat 0 z ++ rest) by apply lead_count_split.
  assert (Hrest : Forall (digit 58) rest) by (subst rest; apply Forall_skipn; exact Hdig).
  assert (Hhd : rest = [] \/ hd 0 rest <> 0) by apply lead_count_rest'.
  assert (HV : 0 <= be_value 58 rest).
  { rewrite be_value_rev by lia. apply le_val_range; [lia|]. apply Forall_rev. exact Hrest. }
  destruct (be_digits_props 256 ltac:(lia) (be_value 58 rest) HV) as (HB & HBc & HBv).
  set (B := be_digits 256 (be_value 58 rest)) in *.
  split.
  - unfold base58_spec_encode. rewrite (lead_count_repeat_app 0 z B HBc), skipn_repeat_app, HBv.
    rewrite (be_digits_of_canonical 58 ltac:(lia) rest Hrest Hhd).
    rewrite <- Hmap, Hsplit, map_app. f_equal.
    rewrite map_repeat'. reflexivity.
  - apply Forall_app. split; [|eapply Forall_impl; [|exact HB]; intros a Ha; exact Ha].
    apply Forall_forall. intros a Ha. apply repeat_spec in Ha. subst a. unfold is_byte. lia.
Qed.

Lemma spec_decode_None s : base58_spec_decode s = None <-> exists c, In c s /\ index_of c BITCOIN_ALPHABET 0 = None.
Proof.
  unfold base58_spec_decode.
  destruct (all_some (map (fun c => index_of c BITCOIN_ALPHABET 0) s)) as [ds|] eqn:E.
  - split; [discriminate|]. intros Hex. apply (all_some_None (fun c => index_of c BITCOIN_ALPHABET 0)) in Hex. congruence.
  - split; [|reflexivity]. intros _. apply (all_some_None (fun c => index_of c BITCOIN_ALPHABET 0)). exact E.
Qed.

(* the published example of the Bitcoin wiki style: leading zero bytes become '1's *)
Example spec_encode_example : base58_spec_encode [0; 0; 1; 2; 3; 255] = [49; 49; 50; 86; 102; 89; 114].
Proof. vm_compute. reflexivity. Qed.
(* "Hello World!" -> "2NEpo7TZRRrLZSi2U" (the test vector of the IETF Base58 draft) *)
Example spec_encode_hello :
  base58_spec_encode [72;101;108;108;111;32;87;111;114;108;100;33]
  = [50;78;69;112;111;55;84;90;82;82;114;76;90;83;105;50;85].
Proof. vm_compute. reflexivity. Qed.
