(* Property C20: the bundled hash module conforms to its specification.
   Only the property theorems, each closed by [exact] of a lemma of Proofs*.v and followed by
   Print Assumptions.  Spec.v is the hand-written RFC 7693 / Bitcoin-Base58 specification,
   Model.v the model of src/hasher.c, Gen.v the tables regenerated from the source. *)
From Coq Require Import ZArith List.
From C20 Require Import Spec Model ProofsCompress ProofsBlake ProofsB58Spec ProofsB58Enc ProofsB58Dec ProofsB58.
Import ListNotations.
Local Open Scope Z_scope.

(* (T) the tables and constants scraped from hasher.c are those of RFC 7693 *)
Theorem C20_tables_are_rfc :
  IV_C = RFC_IV /\
  firstn ROUNDS_C SIGMA_C = map (fun i => nth (i mod 10) RFC_SIGMA []) (seq 0 RFC_ROUNDS) /\
  ROT_C = (RFC_R1, RFC_R2, RFC_R3, RFC_R4) /\
  GSCHED_C = [ (0, 4, 8, 12, 0, 1); (1, 5, 9, 13, 2, 3); (2, 6, 10, 14, 4, 5); (3, 7, 11, 15, 6, 7);
               (0, 5, 10, 15, 8, 9); (1, 6, 11, 12, 10, 11); (2, 7, 8, 13, 12, 13); (3, 4, 9, 14, 14, 15) ]%nat /\
  PARAM_C = 0x01010000 /\ KEYSHIFT_C = 8 /\
  BLOCKBYTES_C = RFC_BB /\ KEYBLOCK_C = RFC_BB /\ INPUTWORDS_C = 16%nat /\
  MAXKEY_C = 64 /\ MINDIG_C = 1 /\ MAXDIG_C = 64 /\
  LOAD64_SHIFTS_C = [0; 8; 16; 24; 32; 40; 48; 56] /\ STORE64_SHIFTS_C = [0; 8; 16; 24; 32; 40; 48; 56] /\
  STORE64_MASKS_C = [255] /\ ROTR_WIDTH_C = 64.
Proof. exact tables_are_rfc. Qed.
Print Assumptions C20_tables_are_rfc.

(* the C compression function (wrapping +=, ~, rotr64, sigma[12][16]) is the RFC's F for every
   chaining value, block, counter and flag.  [m] is not required to have 16 words: both sides read a missing
   word as 0; blake2b_impl only ever passes 16 words (input[] has INPUTWORDS_C = 16 entries and c_oob is proved false). *)
Theorem C20_compress_is_rfc_F : forall h t m last, length h = 8%nat ->
  compress_c h (t mod W64) ((t / W64) mod W64) m last = rfc_F h m t last.
Proof. exact compress_eq. Qed.
Print Assumptions C20_compress_is_rfc_F.

(* main theorem: init/update/final of hasher.c (word buffering, lazy end-of-block compression,
   t0/t1 counter carry, key block trick, partial-word output) compute exactly RFC 7693 BLAKE2b,
   for every message (no length bound), every digest length 1..64 and every key of 0..64 bytes;
   and the C code never indexes input[] out of bounds (the result is Some). *)
Theorem C20_blake2b_conforms : forall nn key msg,
  1 <= nn <= 64 -> (length key <= 64)%nat -> Forall is_byte key -> Forall is_byte msg ->
  blake2b_impl nn key msg = Some (blake2b_rfc nn key msg).
Proof. exact blake2b_impl_correct. Qed.
Print Assumptions C20_blake2b_conforms.

(* the Lua entry point hasher.blake2b(m, digln, key) *)
Theorem C20_lblake2b_conforms : forall msg digln key,
  1 <= digln <= 64 -> (length key <= 64)%nat -> Forall is_byte key -> Forall is_byte msg ->
  lblake2b msg digln key = LOk (blake2b_rfc digln key msg).
Proof. exact lblake2b_correct. Qed.
Print Assumptions C20_lblake2b_conforms.

(* argument checks, full statement (the documented domain: digest length 1..64, key up to 64 bytes; every other
   argument - any Lua integer, not only those that fit a C int - is an error).  True since the repair ede4fb9
   (`lua_Integer digln`); the proof depends on the scraped declaration of digln, so a revert to `int digln` breaks it. *)
Theorem C20_lblake2b_rejects : forall msg digln key,
  (64 < length key)%nat \/ digln < 1 \/ 64 < digln ->
  lblake2b msg digln key = LErrKeySize \/ lblake2b msg digln key = LErrDigestSize.
Proof. exact lblake2b_rejects_full_holds. Qed.
Print Assumptions C20_lblake2b_rejects.

(* hasher.blake2b(m) with the default digest length (scraped from luaL_optinteger's default) *)
Theorem C20_lblake2b_default : forall msg, Forall is_byte msg ->
  lblake2b_default msg = LOk (blake2b_rfc 64 [] msg).
Proof. exact lblake2b_default_ok. Qed.
Print Assumptions C20_lblake2b_default.

Theorem C20_digest_length : forall nn key msg, 0 <= nn <= 64 ->
  length (blake2b_rfc nn key msg) = Z.to_nat nn.
Proof. exact blake2b_rfc_length. Qed.
Print Assumptions C20_digest_length.

(* incremental use of the context: feeding the message in arbitrary chunks (which exercises the
   byte-alignment loop of blake2b_update that the one-shot entry point never reaches) yields the
   same context as feeding the concatenation *)
Theorem C20_blake2b_streaming : forall nn key chunks,
  (length key <= 64)%nat -> Forall is_byte key -> Forall (Forall is_byte) chunks ->
  fold_left blake2b_update chunks (blake2b_init nn key) = blake2b_update (blake2b_init nn key) (concat chunks).
Proof. exact streaming_from_init. Qed.
Print Assumptions C20_blake2b_streaming.

(* the 128-bit counter: a context whose counter words hold i*128 (as after i compressed blocks; t0 = low word,
   t1 = high word) continues exactly as the RFC's loop entered at block index i, whatever the chunking - in
   particular when t0 wraps and the carry goes into t1 (Example counter_carry_instance: i = 2^57 - 1).
   [blake2b_rfc_from 0 = blake2b_rfc] by definition. *)
Theorem C20_blake2b_counter_carry : forall nn key i chunks,
  1 <= nn <= 64 -> (length key <= 64)%nat -> Forall is_byte key -> Forall (Forall is_byte) chunks -> 0 <= i ->
  blake2b_stream nn key ((i * 128) mod W64) ((i * 128 / W64) mod W64) chunks
  = Some (blake2b_rfc_from i nn key (concat chunks)).
Proof. exact blake2b_stream_correct. Qed.
Print Assumptions C20_blake2b_counter_carry.

(* ------------------------------------------------------------------------------------------ *)
(* Base58                                                                                       *)
(* ------------------------------------------------------------------------------------------ *)

(* (T) the scraped alphabet is the Bitcoin alphabet, the map table is its inverse on 0..127, the
   loop constants are 256/58 and the 0x3f00000000 / 0xffffffff masks *)
Theorem C20_b58_tables_are_bitcoin :
  B58_ALPHABET_C = BITCOIN_ALPHABET /\
  length B58_MAP_C = 128%nat /\
  forallb (fun c => nth (Z.to_nat c) B58_MAP_C (-1) =? match index_of c BITCOIN_ALPHABET 0 with Some d => d | None => -1 end)
          (map Z.of_nat (seq 0 128)) = true /\
  B58_ENC_MUL = 256 /\ B58_ENC_BASE = 58 /\ B58_DEC_BASE = 58 /\
  B58_DEC_CARRYMASK = 0x3f00000000 /\ B58_DEC_CARRYSHIFT = 32 /\ B58_DEC_LIMBMASK = 0xffffffff /\
  B58_PAD_ENC_C = b58_char 0 /\ B58_PAD_DEC_C = b58_char 0 /\ B58_HIGHBIT_C = 128.
Proof. exact b58_tables_are_bitcoin. Qed.
Print Assumptions C20_b58_tables_are_bitcoin.

(* the size estimate (n * 138 / 100 + 1 digits) suffices for every length within the documented
   limit and the result fits the 360-byte buffers (so j never reaches -1 and buf[] never overflows) *)
Theorem C20_b58_size_estimate : forall n, 0 <= n <= B58_ENCODE_MAXLEN ->
  256 ^ n <= 58 ^ size_of n /\ 1 <= size_of n /\ (B58_ENCODE_MAXLEN - n) + size_of n < B58_DECODE_MAXLEN.
Proof. intros n Hn. split; [apply size_enough; exact Hn|apply size_fits; exact Hn]. Qed.
Print Assumptions C20_b58_size_estimate.

(* base58encode: for every byte string within the documented limit the C loops (zcount, carry/high
   inner loop, skipping of leading zero digits, alphabet lookup) produce one '1' per leading zero byte
   followed by the base-58 digits of the big-endian value, in the Bitcoin alphabet; no error, no
   out-of-bounds index *)
Theorem C20_base58_encode_conforms : forall x, Forall is_byte x -> Z.of_nat (length x) <= B58_ENCODE_MAXLEN ->
  lbase58_encode x = LOk (base58_spec_encode x).
Proof. exact lbase58_encode_ok. Qed.
Print Assumptions C20_base58_encode_conforms.

Theorem C20_base58_encode_toolong : forall x, B58_ENCODE_MAXLEN < Z.of_nat (length x) -> lbase58_encode x = LErrTooLong.
Proof. exact lbase58_encode_toolong. Qed.
Print Assumptions C20_base58_encode_toolong.

(* base58decode: for every byte string within the decode limit the C code (90 uint32 limbs, carry
   mask, overflow tests, big-endian emission, result at the end of the buffer) returns exactly the
   positional decoding, and "b58decode error" exactly when a byte is outside the alphabet *)
Theorem C20_base58_decode_conforms : forall s, Forall is_byte s -> Z.of_nat (length s) <= B58_DECODE_MAXLEN ->
  lbase58_decode s = match base58_spec_decode s with Some r => LOk r | None => LErrDecode end.
Proof. exact lbase58_decode_ok. Qed.
Print Assumptions C20_base58_decode_conforms.

Theorem C20_base58_decode_rejects : forall s, Forall is_byte s -> Z.of_nat (length s) <= B58_DECODE_MAXLEN ->
  (lbase58_decode s = LErrDecode <-> exists c, In c s /\ ~ In c BITCOIN_ALPHABET).
Proof. exact decode_rejects. Qed.
Print Assumptions C20_base58_decode_rejects.

Theorem C20_base58_decode_toolong : forall s, B58_DECODE_MAXLEN < Z.of_nat (length s) -> lbase58_decode s = LErrTooLong.
Proof. exact lbase58_decode_toolong. Qed.
Print Assumptions C20_base58_decode_toolong.

(* exact inverses within the documented limits *)
Theorem C20_base58_decode_encode : forall x, Forall is_byte x -> Z.of_nat (length x) <= B58_ENCODE_MAXLEN ->
  exists s, lbase58_encode x = LOk s /\ lbase58_decode s = LOk x.
Proof. exact decode_encode. Qed.
Print Assumptions C20_base58_decode_encode.

Theorem C20_base58_encode_decode : forall s r, Forall is_byte s -> Z.of_nat (length s) <= B58_DECODE_MAXLEN ->
  lbase58_decode s = LOk r -> Z.of_nat (length r) <= B58_ENCODE_MAXLEN -> lbase58_encode r = LOk s.
Proof. exact encode_decode. Qed.
Print Assumptions C20_base58_encode_decode.

(* the positional specification itself is a bijection between byte strings and alphabet strings
   (no length bound) *)
Theorem C20_base58_spec_inverse :
  (forall x, Forall is_byte x -> base58_spec_decode (base58_spec_encode x) = Some x) /\
  (forall s r, base58_spec_decode s = Some r -> base58_spec_encode r = s /\ Forall is_byte r).
Proof. split; [exact spec_decode_encode|exact spec_encode_decode]. Qed.
Print Assumptions C20_base58_spec_inverse.

(* stringer.hash(s, len, key) = Base58(BLAKE2b(s, len, key)): a function of its arguments only *)
Theorem C20_stringer_hash : forall s len key,
  1 <= len <= 64 -> (length key <= 64)%nat -> Forall is_byte key -> Forall is_byte s ->
  stringer_hash s len key = LOk (base58_spec_encode (blake2b_rfc len key s)).
Proof. exact stringer_hash_ok. Qed.
Print Assumptions C20_stringer_hash.

(* every digest length the compiler actually passes (default 20 and the literal lengths at the call
   sites of stringer.hash, regenerated from lualib/nelua on every run) is within the theorem's domain *)
Theorem C20_stringer_hash_callsites : forall len s,
  In len (STRINGER_DEFAULT_LEN :: STRINGER_CALLSITE_LENS) -> Forall is_byte s ->
  stringer_hash s len [] = LOk (base58_spec_encode (blake2b_rfc len [] s)).
Proof. exact stringer_hash_callsites. Qed.
Print Assumptions C20_stringer_hash_callsites.
