(* C19 - combined machine, small/medium requests: the heap model of Model.v runs on top of the span
   layer of ProofsSpans.v.  A request that needs a new span takes it from the span layer (a fresh
   mapping, the reserve, or a cached span) - no oracle; a span a class gives up goes back to the span
   layer's cache.  Over every history of allocations and frees: the coupling invariant holds and the
   heap model never answers CErrOracle. *)
From C19 Require Import Model Proofs ProofsMachine ProofsHeap ProofsSpans ProofsOwn.
Local Open Scope Z_scope.
Ltac Zify.zify_post_hook ::= Z.div_mod_to_equations.

(* ---- how a span is obtained from the span layer ---- *)
Inductive supply := FromMap (base : Z) | FromReserve | FromCache (start : Z).
Definition acquire (mc : Z) (ss : sstate) (w : supply) : option sstate :=
  match w with
  | FromMap base => op_map mc ss 1 base
  | FromReserve => op_from_reserve ss 1
  | FromCache s => op_set_status ss s Cached InUse
  end.
(* the span object the acquisition put in use *)
Definition acquired (ss' : sstate) (w : supply) : option sobj :=
  match w with
  | FromCache s => find_first (p_start s) (objs ss')
  | _ => match objs ss' with o :: _ => Some o | [] => None end
  end.

(* ---- small/medium allocation and free of the heap model, exposing whether the span was consumed ---- *)
Definition sm_allocate (psh : Z) (h : heap) (size es : Z) : cres (heap * Z * Z * Z * bool) :=
  let c := selected_class size in
  match class_alloc (class_bc c) (chunk_of psh (class_bs c) (class_bc c)) (cl_lookup c (h_classes h)) es with
  | COk (cs', (s, i), uf) =>
    if uf && range_in_use psh h es 1 then CErrOracle
    else COk (mk_heap (cl_update c cs' (h_classes h)) (h_big h), s, block_offset (class_bs c) i, class_bs c, uf)
  | CErrOracle => CErrOracle | CErrCorrupt => CErrCorrupt
  | CErrBadFree => CErrBadFree | CErrUnmodelled => CErrUnmodelled | CNull => CNull
  end.

Lemma sm_allocate_is_heap_allocate : forall psh h size es ec,
  size <= medium_limit ->
  heap_allocate psh h size es ec =
    match sm_allocate psh h size es with
    | COk (h', s, off, us, _) => COk (h', s, off, us)
    | CErrOracle => CErrOracle | CErrCorrupt => CErrCorrupt
    | CErrBadFree => CErrBadFree | CErrUnmodelled => CErrUnmodelled | CNull => CNull
    end.
Proof.
  intros psh h size es ec H. unfold heap_allocate, sm_allocate, selected_class.
  assert (R : regime_of size = Small \/ regime_of size = Medium).
  { unfold regime_of. destruct (size <=? SMALL_SIZE_LIMIT); [left; reflexivity|].
    destruct (size <=? medium_limit) eqn:E; [right; reflexivity | apply Z.leb_gt in E; lia]. }
  destruct R as [R | R]; rewrite R;
    destruct (class_alloc _ _ _ es) as [[[cs' [s i]] uf]| | | | |]; try reflexivity;
    destruct (uf && range_in_use psh h es 1); reflexivity.
Qed.

(* ---- combined state and steps ---- *)
Record cstate := mk_cstate { cs_heap : heap; cs_spans : sstate }.
Inductive cop := CAllocSM (size : Z) (w : supply) | CFreeSM (span off : Z).

Definition owns_raw (h : heap) (s : Z) : bool :=
  existsb (fun kv => existsb (fun sv => fst sv =? s) (c_spans (snd kv))) (h_classes h).

Inductive cstep_result := CDone (st : cstate) (ret : option (Z * Z * Z)) | CRefusedByHeap | CSupplyFailed | CBadCall.

Definition cstep (psh mc : Z) (st : cstate) (op : cop) : cstep_result :=
  match op with
  | CAllocSM size w =>
    match acquire mc (cs_spans st) w with
    | None => CSupplyFailed
    | Some ss1 =>
      match acquired ss1 w with
      | None => CSupplyFailed
      | Some o =>
        if negb (so_count o =? 1) then CSupplyFailed else
        match sm_allocate psh (cs_heap st) size (so_start o) with
        | COk (h', s, off, us, consumed) =>
          (* a span that was not needed stays where it was: the acquisition is not performed *)
          CDone (mk_cstate h' (if consumed then ss1 else cs_spans st)) (Some (s, off, us))
        | CErrOracle => CRefusedByHeap
        | _ => CBadCall
        end
      end
    end
  | CFreeSM span off =>
    match heap_free (cs_heap st) span off with
    | COk h' =>
      if owns_raw (cs_heap st) span && negb (owns_raw h' span)
      then match op_set_status (cs_spans st) span InUse Cached with
           | Some ss' => CDone (mk_cstate h' ss') None
           | None => CSupplyFailed
           end
      else CDone (mk_cstate h' (cs_spans st)) None
    | _ => CBadCall
    end
  end.

(* ---- the coupling invariant ---- *)
Definition raw_owned (h : heap) (c s : Z) : Prop :=
  exists cs v, In (c, cs) (h_classes h) /\ In (s, v) (c_spans cs).
Definition cinv (st : cstate) : Prop :=
  let h := cs_heap st in let ss := cs_spans st in
  sinv ss /\ h_big h = [] /\ NoDup (map fst (h_classes h)) /\
  (forall c1 c2 s, raw_owned h c1 s -> raw_owned h c2 s -> c1 = c2) /\
  (forall c s, raw_owned h c s -> exists x, In x (objs ss) /\ so_start x = s /\ so_count x = 1 /\ so_status x = InUse).

(* ---- list lemmas ---- *)
Lemma remove_first_keep : forall p (l : list sobj) x, In x l -> p x = false -> In x (remove_first p l).
Proof.
  induction l as [|y r IH]; simpl; intros x I P; [contradiction|]. destruct I as [I | I].
  - subst y. rewrite P. left. reflexivity.
  - destruct (p y); [assumption | right; auto].
Qed.
Lemma find_first_split : forall p (l : list sobj) o, find_first p l = Some o ->
  exists a b, l = a ++ o :: b /\ (forall y, In y a -> p y = false) /\ p o = true.
Proof.
  induction l as [|x r IH]; simpl; intros o H; [discriminate|]. destruct (p x) eqn:E.
  - inversion H; subst. exists [], r. simpl. split; [reflexivity|]. split; [intros y []| exact E].
  - destruct (IH o H) as (a & b & A & B & C). exists (x :: a), b. simpl. split; [f_equal; exact A|]. split; [|exact C].
    intros y [Y | Y]; [subst; exact E | auto].
Qed.
Lemma find_first_app_skip : forall p (a b : list sobj), (forall y, In y a -> p y = false) -> find_first p (a ++ b) = find_first p b.
Proof. induction a; simpl; intros b H; [reflexivity|]. rewrite (H a ltac:(auto)). apply IHa. auto. Qed.
Lemma obj_start_unique : forall l x y, pairwise obj_disjoint l -> (forall z, In z l -> 1 <= so_count z) ->
  In x l -> In y l -> so_start x = so_start y -> x = y.
Proof.
  induction l as [|z r IH]; simpl; intros x y P C Ix Iy E; [contradiction|]. destruct P as [P1 P2].
  destruct Ix as [Ix | Ix]; destruct Iy as [Iy | Iy]; subst; auto.
  - specialize (P1 y Iy). pose proof (C x ltac:(auto)). pose proof (C y ltac:(auto)). unfold obj_disjoint in P1. lia.
  - specialize (P1 x Ix). pose proof (C x ltac:(auto)). pose proof (C y ltac:(auto)). unfold obj_disjoint in P1. lia.
Qed.

(* ---- acquisition ---- *)
Definition carried (ss : sstate) (l : list sobj) : Prop :=
  forall x, In x (objs ss) -> so_status x = InUse ->
    exists x', In x' l /\ so_start x' = so_start x /\ so_count x' = so_count x /\ so_status x' = InUse.

Lemma acquire_spec : forall mc ss w ss1 o, sinv ss -> acquire mc ss w = Some ss1 -> acquired ss1 w = Some o ->
  sinv ss1 /\ exists l1 l2, objs ss1 = l1 ++ o :: l2 /\ so_status o = InUse /\ carried ss (l1 ++ l2).
Proof.
  intros mc ss w ss1 o I A Q. destruct w as [base | | s]; simpl in A, Q.
  - split; [eapply sinv_map; eassumption|]. unfold op_map in A.
    destruct ((1 <? 1) || existsb _ (regions ss)); [discriminate|]. inversion A; subst ss1; clear A. simpl in Q.
    inversion Q; subst o; clear Q. exists [], ((if 1 <? Z.max 1 mc then [mk_sobj (base + 1) (Z.max 1 mc - 1) base Reserved] else []) ++
       map (fun o => match so_status o with Reserved => set_status Cached o | _ => o end) (objs ss)).
    split; [reflexivity|]. split; [reflexivity|]. intros x Hx Sx. exists x. simpl. split.
    + apply in_or_app. right. apply in_map_iff. exists x. rewrite Sx. auto.
    + auto.
  - split; [eapply sinv_from_reserve; eassumption|]. unfold op_from_reserve, reserve_of in A.
    destruct (find_first p_reserved (objs ss)) as [r|] eqn:F; [|discriminate].
    destruct ((1 <? 1) || (so_count r <? 1)); [discriminate|]. inversion A; subst ss1; clear A. simpl in Q.
    inversion Q; subst o; clear Q. eexists [], _. split; [reflexivity|]. split; [reflexivity|].
    intros x Hx Sx. exists x. simpl. split; [|auto]. apply in_or_app. right. apply remove_first_keep; [assumption|].
    unfold p_reserved. rewrite Sx. reflexivity.
  - split; [eapply sinv_set_status; eassumption|]. unfold op_set_status in A.
    destruct (find_first (p_start s) (objs ss)) as [o0|] eqn:F; [|discriminate].
    destruct (status_eqb (so_status o0) Cached && _) eqn:G; [|discriminate]. apply andb_prop in G. destruct G as [G _].
    inversion A; subst ss1; clear A. simpl in Q.
    destruct (find_first_split _ _ _ F) as (a & b & E & Na & Po).
    set (g := fun x => if p_start s x then set_status InUse x else x) in *.
    assert (Gs : forall x, so_start (g x) = so_start x /\ so_count (g x) = so_count x).
    { intros x. unfold g. destruct (p_start s x); simpl; auto. }
    rewrite E, map_app in Q. simpl in Q.
    rewrite find_first_app_skip in Q.
    2: { intros y Hy. apply in_map_iff in Hy. destruct Hy as (z & Ez & Hz). subst y. unfold p_start in *.
         destruct (Gs z) as [S1 _]. rewrite S1. apply Na. assumption. }
    simpl in Q. assert (Pg : p_start s (g o0) = true) by (unfold p_start in *; destruct (Gs o0) as [S1 _]; rewrite S1; exact Po).
    rewrite Pg in Q. inversion Q; subst o; clear Q.
    exists (map g a), (map g b). split; [rewrite E, map_app; reflexivity|]. split.
    + unfold g. rewrite Po. reflexivity.
    + intros x Hx Sx. rewrite E in Hx. exists (g x). split.
      * apply in_app_or in Hx. apply in_or_app. destruct Hx as [Hx | [Hx | Hx]].
        -- left. apply in_map. assumption.
        -- subst x. destruct (so_status o0); simpl in G; discriminate.
        -- right. apply in_map. assumption.
      * destruct (Gs x) as [S1 S2]. split; [assumption|]. split; [assumption|]. unfold g. destruct (p_start s x); simpl; [reflexivity | assumption].
Qed.

(* ---- association lists with unique keys ---- *)
Lemma cl_update_in : forall c v l c' x, NoDup (map fst l) ->
  (In (c', x) (cl_update c v l) <-> (c' = c /\ x = v) \/ (c' <> c /\ In (c', x) l)).
Proof.
  induction l as [|[k w] r IH]; simpl; intros c' x N.
  - split; [intros [H | []]; inversion H; auto | intros [[A B] | [_ []]]; subst; auto].
  - inversion N as [|? ? Nk Nr]; subst. destruct (k =? c) eqn:E.
    + apply Z.eqb_eq in E. subst k. simpl. split.
      * intros [H | H]; [inversion H; auto|]. right. split; [|auto]. intro; subst c'. apply Nk. apply in_map_iff. exists (c, x). auto.
      * intros [[A B] | [A [B | B]]]; subst; auto. inversion B. congruence.
    + apply Z.eqb_neq in E. simpl. rewrite (IH c' x Nr). split.
      * intros [H | [H | H]]; [inversion H; subst; right; auto | auto | right; tauto].
      * intros [H | [A [B | B]]]; [right; left; exact H | left; exact B | right; right; auto].
Qed.
Lemma cl_update_nodup : forall c v l, NoDup (map fst l) -> NoDup (map fst (cl_update c v l)).
Proof.
  induction l as [|[k w] r IH]; simpl; intros N; [constructor; [intros [] | constructor]|].
  inversion N as [|? ? Nk Nr]; subst. destruct (k =? c) eqn:E; simpl; [constructor; assumption|].
  apply Z.eqb_neq in E. constructor; [|auto]. intros F. apply in_map_iff in F. destruct F as ([k' x] & Ek & Fx). simpl in Ek. subst k'.
  apply cl_update_in in Fx; [|assumption]. destruct Fx as [[A _] | [_ B]]; [congruence|].
  apply Nk. apply in_map_iff. exists (k, x). auto.
Qed.
Lemma cl_lookup_unique : forall c l x, NoDup (map fst l) -> In (c, x) l -> cl_lookup c l = x.
Proof.
  induction l as [|[k w] r IH]; simpl; intros x N I; [contradiction|]. inversion N as [|? ? Nk Nr]; subst.
  destruct I as [I | I].
  - inversion I; subst. rewrite Z.eqb_refl. reflexivity.
  - destruct (k =? c) eqn:E; [|auto]. apply Z.eqb_eq in E. subst k. exfalso. apply Nk. apply in_map_iff. exists (c, x). auto.
Qed.
Lemma cl_lookup_spans_in : forall c l s v, In (s, v) (c_spans (cl_lookup c l)) -> In (c, cl_lookup c l) l.
Proof.
  induction l as [|[k w] r IH]; simpl; intros s v H; [contradiction|].
  destruct (k =? c) eqn:E; [apply Z.eqb_eq in E; subst; left; reflexivity | right; eapply IH; eassumption].
Qed.
Lemma sp_update_in : forall s st l s' v', In (s', v') (sp_update s st l) -> exists v, In (s', v) l.
Proof.
  induction l as [|[k w] r IH]; simpl; intros s' v' H; [contradiction|]. destruct (k =? s) eqn:E; simpl in H.
  - destruct H as [H | H]; [inversion H; subst; eexists; left; reflexivity | eexists; right; eassumption].
  - destruct H as [H | H]; [inversion H; subst; eexists; left; reflexivity|]. destruct (IH _ _ H) as [v Hv]. eexists. right. eassumption.
Qed.
Lemma sp_remove_in : forall s l s' v', In (s', v') (sp_remove s l) -> In (s', v') l /\ s' <> s.
Proof.
  induction l as [|[k w] r IH]; simpl; intros s' v' H; [contradiction|]. destruct (k =? s) eqn:E.
  - destruct (IH _ _ H). auto.
  - apply Z.eqb_neq in E. destruct H as [H | H]; [inversion H; subst; auto | destruct (IH _ _ H); auto].
Qed.
Lemma sp_lookup_none_notin : forall s l v, sp_lookup s l = None -> ~ In (s, v) l.
Proof.
  induction l as [|[k w] r IH]; simpl; intros v H F; [contradiction|]. destruct (k =? s) eqn:E; [discriminate|].
  apply Z.eqb_neq in E. destruct F as [F | F]; [inversion F; congruence | eapply IH; eassumption].
Qed.

(* spans of a class after an allocation, as raw entries *)
Lemma class_alloc_raw : forall bc chunk cs fresh cs' b uf, class_alloc bc chunk cs fresh = COk (cs', b, uf) ->
  (forall s v', In (s, v') (c_spans cs') -> (exists v, In (s, v) (c_spans cs)) \/ (uf = true /\ s = fresh)) /\
  (uf = true -> forall v, ~ In (fresh, v) (c_spans cs)).
Proof.
  intros bc chunk cs fresh cs' b uf H. unfold class_alloc in H.
  destruct (c_hfl cs) as [|x r]; [|inversion H; subst; split; [intros; left; eauto | discriminate]].
  destruct (c_partial cs) as [|p pr].
  - destruct (sp_lookup fresh (c_spans cs)) eqn:L; [discriminate|]. inversion H; subst; clear H. simpl. split.
    + intros s v' [I | I]; [inversion I; subst; right; auto | left; eauto].
    + intros _ v. apply sp_lookup_none_notin. assumption.
  - destruct (sp_lookup p (c_spans cs)) as [st|]; [|discriminate].
    destruct (sp_free st) as [|i fr]; inversion H; subst; clear H; simpl; (split; [intros s v' I; left; eapply sp_update_in; eassumption | discriminate]).
Qed.
Lemma class_free_raw : forall bc cs b cs', class_free bc cs b = COk cs' ->
  forall s v', In (s, v') (c_spans cs') -> exists v, In (s, v) (c_spans cs).
Proof.
  intros bc cs [s0 i] cs' H s v' I. unfold class_free in H.
  destruct (sp_lookup s0 (c_spans cs)) as [st|]; [|discriminate].
  destruct (u32 _ =? 0); inversion H; subst; clear H; simpl in I.
  - apply sp_remove_in in I. destruct I. eauto.
  - eapply sp_update_in; eassumption.
Qed.

Lemma owns_raw_iff : forall h s, owns_raw h s = true <-> exists c, raw_owned h c s.
Proof.
  intros h s. unfold owns_raw, raw_owned. rewrite existsb_exists. split.
  - intros ([c cs] & I & E). simpl in E. apply existsb_exists in E. destruct E as ([s' v] & I2 & E). simpl in E.
    apply Z.eqb_eq in E. subst s'. exists c, cs, v. auto.
  - intros (c & cs & v & I & I2). exists (c, cs). split; [assumption|]. simpl. apply existsb_exists. exists (s, v). split; [assumption|].
    simpl. apply Z.eqb_refl.
Qed.

Lemma tuple5_inj : forall A B C D E (a a' : A) (b b' : B) (c c' : C) (d d' : D) (e e' : E),
  (a, b, c, d, e) = (a', b', c', d', e') -> a = a' /\ b = b' /\ c = c' /\ d = d' /\ e = e'.
Proof. intros. inversion H. auto 6. Qed.

(* ---- allocation step ---- *)
Theorem cstep_alloc : forall psh mc st size w, cinv st -> size <= medium_limit ->
  cstep psh mc st (CAllocSM size w) <> CRefusedByHeap /\
  forall st' ret, cstep psh mc st (CAllocSM size w) = CDone st' ret -> cinv st'.
Proof.
  intros psh mc [h ss] size w (I1 & I2 & I3 & I4 & I5) Hs. simpl in *. unfold cstep; simpl.
  destruct (acquire mc ss w) as [ss1|] eqn:A; [|split; [discriminate | intros; discriminate]].
  destruct (acquired ss1 w) as [o|] eqn:Q; [|split; [discriminate | intros; discriminate]].
  destruct (so_count o =? 1) eqn:C1; simpl; [|split; [discriminate | intros; discriminate]]. apply Z.eqb_eq in C1.
  destruct (acquire_spec mc ss w ss1 o I1 A Q) as (S1 & l1 & l2 & E & Uo & Car).
  assert (Cp : coupled psh h (l1 ++ l2)).
  { split.
    - intros c cs s v Ic Is. destruct (I5 c s) as (x & Ix & X1 & X2 & X3); [exists cs, v; auto|].
      destruct (Car x Ix X3) as (x' & Ix' & Y1 & Y2 & _). exists x'. split; [assumption|]. split; lia.
    - rewrite I2. intros kb []. }
  assert (Pw : pairwise obj_disjoint (objs ss1)) by apply S1.
  assert (Shape : match regime_of size with
                  | Small | Medium => so_count o = 1
                  | Large => large_span_count size <= so_count o <= LARGE_CLASS_COUNT
                  | Huge => match huge_request psh size with Some np => so_count o = big_units psh (BHuge np) | None => True end
                  end).
  { unfold regime_of. destruct (size <=? SMALL_SIZE_LIMIT); [assumption|].
    destruct (size <=? medium_limit) eqn:G; [assumption | apply Z.leb_gt in G; lia]. }
  pose proof (heap_allocate_not_refused psh h ss1 l1 o l2 size Pw E Cp Shape) as NR.
  rewrite (sm_allocate_is_heap_allocate psh h size (so_start o) (so_count o) Hs) in NR.
  destruct (sm_allocate psh h size (so_start o)) as [[[[[h' s] off] us] uf]| | | | |] eqn:SA;
    try (split; [discriminate | intros; discriminate]); [|exfalso; apply NR; reflexivity].
  split; [discriminate|]. intros st' ret D. inversion D; subst st' ret; clear D.
  unfold sm_allocate in SA. set (c := selected_class size) in *.
  destruct (class_alloc (class_bc c) (chunk_of psh (class_bs c) (class_bc c)) (cl_lookup c (h_classes h)) (so_start o))
    as [[[cs' [s0 i]] uf0]| | | | |] eqn:CA; try discriminate.
  destruct (uf0 && range_in_use psh h (so_start o) 1) eqn:U; [discriminate|].
  apply COk_inj in SA. apply tuple5_inj in SA. destruct SA as (T1 & T2 & T3 & T4 & T5). subst h' s off us uf0.
  destruct (class_alloc_raw _ _ _ _ _ _ _ CA) as [Raw1 Raw2].
  assert (New : forall c1 s1, raw_owned (mk_heap (cl_update c cs' (h_classes h)) (h_big h)) c1 s1 ->
            raw_owned h c1 s1 \/ (uf = true /\ c1 = c /\ s1 = so_start o)).
  { intros c1 s1 (cs1 & v & Ic & Is). simpl in Ic. apply cl_update_in in Ic; [|assumption].
    destruct Ic as [[Ec Ecs] | [Nc Ic]].
    - subst c1 cs1. destruct (Raw1 _ _ Is) as [[v0 I0] | [Uf Ef]]; [left | right; auto].
      exists (cl_lookup c (h_classes h)), v0. split; [eapply cl_lookup_spans_in; eassumption | assumption].
    - left. exists cs1, v. auto. }
  assert (NotOwned : forall c2, raw_owned h c2 (so_start o) -> False).
  { intros c2 R. destruct (I5 c2 _ R) as (x & Ix & X1 & X2 & X3). destruct (Car x Ix X3) as (x' & Ix' & Y1 & Y2 & _).
    rewrite E in Pw. pose proof (pairwise_mid _ _ _ _ Pw Ix') as Dj. unfold obj_disjoint in Dj. lia. }
  unfold cinv; simpl. split; [destruct uf; assumption|]. split; [assumption|]. split; [apply cl_update_nodup; assumption|]. split.
  - intros c1 c2 s1 R1 R2. destruct (New _ _ R1) as [O1 | (U1 & E1 & F1)]; destruct (New _ _ R2) as [O2 | (U2 & E2 & F2)].
    + eapply I4; eassumption.
    + subst. exfalso. eapply NotOwned; eassumption.
    + subst. exfalso. eapply NotOwned; eassumption.
    + congruence.
  - intros c1 s1 R1. destruct (New _ _ R1) as [O1 | (U1 & E1 & F1)].
    + destruct (I5 _ _ O1) as (x & Ix & X1 & X2 & X3). destruct uf.
      * destruct (Car x Ix X3) as (x' & Ix' & Y1 & Y2 & Y3). exists x'. split.
        -- rewrite E. apply in_app_or in Ix'. apply in_or_app. destruct Ix'; [left | right; right]; assumption.
        -- split; [lia|]. split; [lia | assumption].
      * exists x. auto.
    + subst. exists o. split; [rewrite E; apply in_or_app; right; left; reflexivity|]. auto.
Qed.

(* ---- free step ---- *)
Theorem cstep_free : forall psh mc st span off, cinv st ->
  cstep psh mc st (CFreeSM span off) <> CSupplyFailed /\
  forall st' ret, cstep psh mc st (CFreeSM span off) = CDone st' ret -> cinv st'.
Proof.
  intros psh mc [h ss] span off (I1 & I2 & I3 & I4 & I5). simpl in *. unfold cstep; simpl.
  destruct (heap_free h span off) as [h'| | | | |] eqn:HF; try (split; [discriminate | intros; discriminate]).
  (* what heap_free does to the raw ownership: only removes *)
  assert (Sub : (forall c1 s1, raw_owned h' c1 s1 -> raw_owned h c1 s1) /\ h_big h' = [] /\ NoDup (map fst (h_classes h'))).
  { unfold heap_free in HF. unfold block_info_of in HF. rewrite I2 in HF. cbn [big_lookup] in HF.
    destruct (find_class span (h_classes h)) as [c|]; [|discriminate].
    destruct ((off <? SPAN_HEADER_SIZE) || negb ((off - SPAN_HEADER_SIZE) mod class_bs c =? 0)); [discriminate|].
    destruct (class_free (class_bc c) (cl_lookup c (h_classes h)) (span, (off - SPAN_HEADER_SIZE) / class_bs c)) as [cs'| | | | |] eqn:CF;
      try discriminate. apply COk_inj in HF. subst h'. simpl. split; [|split; [reflexivity | apply cl_update_nodup; assumption]].
    intros c1 s1 (cs1 & v & Ic & Is). simpl in Ic. apply cl_update_in in Ic; [|assumption].
    destruct Ic as [[Ec Ecs] | [Nc Ic]].
    - subst c1 cs1. destruct (class_free_raw _ _ _ _ CF _ _ Is) as [v0 I0].
      exists (cl_lookup c (h_classes h)), v0. split; [eapply cl_lookup_spans_in; eassumption | assumption].
    - exists cs1, v. auto. }
  destruct Sub as (Sub & B' & N').
  assert (Common : forall ss', sinv ss' ->
            (forall c s, raw_owned h' c s -> exists x, In x (objs ss') /\ so_start x = s /\ so_count x = 1 /\ so_status x = InUse) ->
            cinv (mk_cstate h' ss')).
  { intros ss' S' C'. unfold cinv; simpl. split; [assumption|]. split; [assumption|]. split; [assumption|]. split; [|assumption].
    intros c1 c2 s R1 R2. eapply I4; apply Sub; eassumption. }
  destruct (owns_raw h span && negb (owns_raw h' span)) eqn:T.
  - apply andb_prop in T. destruct T as [T1 T2]. apply negb_true_iff in T2.
    apply owns_raw_iff in T1. destruct T1 as (c0 & R0).
    destruct (I5 c0 span R0) as (x & Ix & X1 & X2 & X3).
    (* the span's object is the one op_set_status finds, and it is in use *)
    assert (F : find_first (p_start span) (objs ss) = Some x).
    { destruct (find_first (p_start span) (objs ss)) as [y|] eqn:Fy.
      - destruct (find_first_in _ _ _ Fy) as [Iy Py]. unfold p_start in Py. apply Z.eqb_eq in Py.
        f_equal. apply (obj_start_unique (objs ss)); [apply I1 | intros z Hz; apply I1; assumption | assumption | assumption | lia].
      - exfalso. clear - Fy Ix X1. induction (objs ss) as [|z r IH]; simpl in *; [contradiction|].
        destruct (p_start span z) eqn:P; [discriminate|]. destruct Ix as [Ix | Ix]; [subst z; unfold p_start in P; rewrite X1, Z.eqb_refl in P; discriminate | auto]. }
    unfold op_set_status. rewrite F, X3. simpl.
    split; [discriminate|]. intros st' ret D. inversion D; subst st' ret; clear D.
    apply Common.
    + eapply (sinv_set_status ss span InUse Cached); [assumption|]. unfold op_set_status. rewrite F, X3. reflexivity.
    + intros c s R. destruct (I5 c s (Sub _ _ R)) as (y & Iy & Y1 & Y2 & Y3). exists y. simpl. split; [|auto].
      apply in_map_iff. exists y. split; [|assumption].
      assert (s <> span).
      { intro Es. rewrite Es in R. assert (owns_raw h' span = true) by (apply owns_raw_iff; exists c; exact R). congruence. }
      unfold p_start. destruct (so_start y =? span) eqn:Q; [apply Z.eqb_eq in Q; lia | reflexivity].
  - split; [discriminate|]. intros st' ret D. inversion D; subst st' ret; clear D. apply Common; [assumption|].
    intros c s R. apply (I5 c s). apply Sub. assumption.
Qed.

Lemma cstep_free_not_refused : forall psh mc st span off, cstep psh mc st (CFreeSM span off) <> CRefusedByHeap.
Proof.
  intros. unfold cstep. destruct (heap_free (cs_heap st) span off); try discriminate.
  destruct (owns_raw (cs_heap st) span && negb (owns_raw a span)); [|discriminate].
  destruct (op_set_status (cs_spans st) span InUse Cached); discriminate.
Qed.

(* ---- histories ---- *)
Definition op_ok (op : cop) : Prop := match op with CAllocSM size _ => size <= medium_limit | CFreeSM _ _ => True end.
Fixpoint crun (psh mc : Z) (st : cstate) (ops : list cop) : cstep_result :=
  match ops with
  | [] => CDone st None
  | op :: r => match cstep psh mc st op with
               | CDone st' _ => crun psh mc st' r
               | e => e
               end
  end.

Lemma cinv_empty : cinv (mk_cstate heap_empty sempty).
Proof.
  unfold cinv; simpl. split; [apply sinv_empty|]. split; [reflexivity|]. split; [constructor|].
  split; intros; destruct H as (cs & v & [] & _).
Qed.

(* over every history of small/medium allocations (spans served by the span layer: a fresh mapping, the
   reserve or a cached span, whichever the history names) and frees: the heap model never refuses a span
   (no CErrOracle), releasing a span to the span layer never fails, and the coupling invariant holds *)
Theorem combined_history : forall psh mc ops st, cinv st -> Forall op_ok ops ->
  crun psh mc st ops <> CRefusedByHeap /\
  (forall st' ret, crun psh mc st ops = CDone st' ret -> cinv st').
Proof.
  intros psh mc ops. induction ops as [|op r IH]; intros st I F; simpl.
  - split; [discriminate|]. intros st' ret D. inversion D; subst. assumption.
  - inversion F as [|? ? Ok Fr]; subst.
    destruct op as [size w | span off].
    + destruct (cstep_alloc psh mc st size w I Ok) as [NR Pres].
      destruct (cstep psh mc st (CAllocSM size w)) as [st1 ret1| | |] eqn:S; try (split; [discriminate | intros; discriminate]).
      * apply IH; [eapply Pres; reflexivity | assumption].
      * exfalso. apply NR. reflexivity.
    + destruct (cstep_free psh mc st span off I) as [NF Pres].
      pose proof (cstep_free_not_refused psh mc st span off) as NR.
      destruct (cstep psh mc st (CFreeSM span off)) as [st1 ret1| | |] eqn:S; try (split; [discriminate | intros; discriminate]).
      * apply IH; [eapply Pres; reflexivity | assumption].
      * exfalso. apply NR. reflexivity.
Qed.

(* non-vacuity: a fresh mapping serves the first request; the second request of the same class needs no span
   (the offered reserve span stays reserved); a medium request takes a span from the reserve; frees *)
Example ex_combined :
  match crun 12 64 (mk_cstate heap_empty sempty)
          [CAllocSM 100 (FromMap 1000); CAllocSM 100 FromReserve; CAllocSM 5000 FromReserve;
           CFreeSM 1001 128; CFreeSM 1000 128] with
  | CDone st _ => map (fun o => (so_start o, so_count o, match so_status o with InUse => 1 | Cached => 2 | Reserved => 3 end)) (objs (cs_spans st))
                  = [(1001, 1, 1); (1002, 62, 3); (1000, 1, 1)]
  | _ => False
  end.
Proof. vm_compute. reflexivity. Qed.

(* ------------------------------------------------------------------ *)
(* the open outcomes of cstep, characterised *)

(* CSupplyFailed on an allocation is about the HISTORY, not the allocator: the history named a supply the span layer
   does not have.  A supply is available when ... *)
Definition supply_ok (mc : Z) (ss : sstate) (w : supply) : Prop :=
  match w with
  | FromMap base =>      (* the OS returns a mapping that overlaps no live mapping (out of memory = no such base) *)
      existsb (fun g => overlaps base (Z.max 1 mc) (rg_base g) (rg_total g)) (regions ss) = false
  | FromReserve => exists r, find_first p_reserved (objs ss) = Some r /\ 1 <= so_count r
  | FromCache s => exists o, find_first (p_start s) (objs ss) = Some o /\ so_status o = Cached /\ so_count o = 1
  end.

Lemma supply_ok_acquires : forall mc ss w, supply_ok mc ss w ->
  exists ss1 o, acquire mc ss w = Some ss1 /\ acquired ss1 w = Some o /\ so_count o = 1.
Proof.
  intros mc ss w H. destruct w as [base | | s]; simpl in *.
  - unfold op_map. replace (1 <? 1) with false by reflexivity. rewrite H. simpl. eexists. eexists. split; [reflexivity|]. simpl. auto.
  - destruct H as (r & F & C). unfold op_from_reserve, reserve_of. rewrite F.
    replace (1 <? 1) with false by reflexivity. replace (so_count r <? 1) with false by (symmetry; apply Z.ltb_ge; lia).
    simpl. eexists. eexists. split; [reflexivity|]. simpl. auto.
  - destruct H as (o & F & S & C). unfold op_set_status. rewrite F, S. simpl.
    eexists. eexists. split; [reflexivity|]. simpl.
    destruct (find_first_split _ _ _ F) as (a & b & E & Na & Po).
    rewrite E, map_app. simpl. rewrite find_first_app_skip.
    + simpl. unfold p_start in *. rewrite Po. simpl. rewrite Po. split; [reflexivity|]. simpl. assumption.
    + intros y Hy. apply in_map_iff in Hy. destruct Hy as (z & Ez & Hz). subst y. specialize (Na z Hz).
      unfold p_start in *. rewrite Na. assumption.
Qed.

(* ... and with an available supply an allocation step never answers CSupplyFailed *)
Theorem cstep_alloc_supply : forall psh mc st size w, supply_ok mc (cs_spans st) w ->
  cstep psh mc st (CAllocSM size w) <> CSupplyFailed.
Proof.
  intros psh mc st size w H. destruct (supply_ok_acquires mc (cs_spans st) w H) as (ss1 & o & A & Q & C).
  unfold cstep. rewrite A, Q, C. simpl.
  destruct (sm_allocate psh (cs_heap st) size (so_start o)) as [[[[[h' s] off] us] uf]| | | | |]; discriminate.
Qed.
(* a fresh mapping is always an available supply as long as the OS finds room: some base is free *)
Lemma fresh_base_is_supply : forall mc ss, exists base, supply_ok mc ss (FromMap base).
Proof.
  intros mc ss. simpl.
  (* a base beyond every live mapping *)
  set (top := fold_right (fun g acc => Z.max acc (rg_base g + rg_total g)) 0 (regions ss)).
  exists top. destruct (existsb _ (regions ss)) eqn:E; [|reflexivity]. exfalso.
  apply existsb_exists in E. destruct E as (g & I & O). unfold overlaps in O. apply andb_prop in O. destruct O as [O _].
  apply Z.ltb_lt in O.
  assert (rg_base g + rg_total g <= top).
  { unfold top. clear O. induction (regions ss) as [|x r IH]; simpl in *; [contradiction|].
    destruct I as [I | I]; [subst; lia | specialize (IH I); lia]. }
  lia.
Qed.

(* CBadCall on an allocation is the heap model finding ITS OWN state inconsistent (class_alloc's CErrCorrupt: the
   head of the partial list is not in the span table); under the class machine's invariant for the serving class
   (C19_span_machine_history maintains it along any history of that class) it cannot happen *)
Theorem cstep_alloc_not_bad : forall psh mc st size w live, 0 <= size <= medium_limit ->
  class_inv (class_bc (selected_class size)) (cl_lookup (selected_class size) (h_classes (cs_heap st))) live ->
  cstep psh mc st (CAllocSM size w) <> CBadCall.
Proof.
  intros psh mc st size w live Hs CI. unfold cstep.
  destruct (acquire mc (cs_spans st) w) as [ss1|]; [|discriminate].
  destruct (acquired ss1 w) as [o|]; [|discriminate]. destruct (negb (so_count o =? 1)); [discriminate|].
  unfold sm_allocate. set (c := selected_class size) in *.
  assert (V : valid_class c).
  { unfold c, selected_class. pose proof (regime_cases size ltac:(lia)) as RC. destruct (regime_of size) eqn:R.
    - apply small_class_fits. assumption.
    - apply medium_class_fits. assumption.
    - lia.
    - pose proof fact_limits as (_ & _ & _ & _ & _ & L6 & _). lia. }
  assert (R : 1 <= class_bc c < 2 ^ 32) by (destruct V as (_ & _ & _ & _ & B); lia).
  pose proof (class_alloc_safe (class_bc c) (chunk_of psh (class_bs c) (class_bc c)) R (chunk_of_ok psh c V)
                (cl_lookup c (h_classes (cs_heap st))) live (so_start o) CI) as S.
  destruct (class_alloc (class_bc c) (chunk_of psh (class_bs c) (class_bc c)) (cl_lookup c (h_classes (cs_heap st))) (so_start o))
    as [[[cs' [s0 i]] uf]| | | | |]; try contradiction; try discriminate.
  destruct (uf && range_in_use psh (cs_heap st) (so_start o) 1); discriminate.
Qed.

(* ------------------------------------------------------------------ *)
(* the combined machine projects onto the L_alloc history machine: forgetting the span layer, every combined step
   that succeeds IS the L_alloc call with the same arguments (the span oracle answering with the span the span
   layer supplied), so everything C19_lalloc_history_ownership proves about lrun holds for the heap component of
   every combined history *)
Definition supplied_start (mc : Z) (ss : sstate) (w : supply) : Z :=
  match acquire mc ss w with
  | Some ss1 => match acquired ss1 w with Some o => so_start o | None => 0 end
  | None => 0
  end.
Definition call_of (mc : Z) (ss : sstate) (op : cop) : lcall :=
  match op with
  | CAllocSM size w => mk_lcall None 0 size (supplied_start mc ss w) 1
  | CFreeSM span off => mk_lcall (Some (span, off)) 0 0 0 0
  end.
Fixpoint calls_of (psh mc : Z) (st : cstate) (ops : list cop) : list lcall :=
  match ops with
  | [] => []
  | op :: r => call_of mc (cs_spans st) op ::
               match cstep psh mc st op with CDone st' _ => calls_of psh mc st' r | _ => [] end
  end.
Definition op_ok1 (op : cop) : Prop :=
  match op with CAllocSM size _ => 1 <= size <= medium_limit | CFreeSM _ _ => True end.

Lemma realloc_new_size_fresh : forall size, 1 <= size -> realloc_new_size size 0 = size.
Proof.
  intros size H. unfold realloc_new_size. replace (u64 (0 + Z.shiftr 0 2 + Z.shiftr 0 3)) with 0 by reflexivity.
  replace (0 <? size) with true by (symmetry; apply Z.ltb_lt; lia). reflexivity.
Qed.

Lemma cstep_projects : forall psh mc st op st' ret, op_ok1 op -> cstep psh mc st op = CDone st' ret ->
  exists p us f, let c := call_of mc (cs_spans st) op in
    l_alloc psh (cs_heap st) (lc_ptr c) (lc_osize c) (lc_nsize c) (lc_span c) (lc_count c) = COk (cs_heap st', p, us, f).
Proof.
  intros psh mc st op st' ret Hok H. destruct op as [size w | span off]; simpl in *.
  - unfold supplied_start. destruct (acquire mc (cs_spans st) w) as [ss1|]; [|discriminate].
    destruct (acquired ss1 w) as [o|]; [|discriminate]. destruct (negb (so_count o =? 1)); [discriminate|].
    unfold l_alloc. replace (size =? 0) with false by (symmetry; apply Z.eqb_neq; lia).
    pose proof fact_lalloc as (_ & A2 & A3 & _). rewrite A2, A3. cbn [negb orb].
    rewrite realloc_new_size_fresh by lia.
    rewrite (sm_allocate_is_heap_allocate psh (cs_heap st) size (so_start o) 1) by lia.
    destruct (sm_allocate psh (cs_heap st) size (so_start o)) as [[[[[h' s] off] us] uf]| | | | |]; try discriminate.
    inversion H; subst; clear H. simpl. eexists. eexists. eexists. reflexivity.
  - unfold l_alloc. simpl. destruct (heap_free (cs_heap st) span off) as [h'| | | | |]; try discriminate.
    destruct (owns_raw (cs_heap st) span && negb (owns_raw h' span)).
    + destruct (op_set_status (cs_spans st) span InUse Cached); [|discriminate].
      inversion H; subst; clear H. simpl. eexists. eexists. eexists. reflexivity.
    + inversion H; subst; clear H. simpl. eexists. eexists. eexists. reflexivity.
Qed.

Theorem crun_projects : forall psh mc ops st st' ret, Forall op_ok1 ops -> crun psh mc st ops = CDone st' ret ->
  lrun psh (cs_heap st) (calls_of psh mc st ops) = Some (cs_heap st').
Proof.
  intros psh mc ops. induction ops as [|op r IH]; intros st st' ret F H; simpl in *.
  - inversion H; subst. reflexivity.
  - inversion F as [|? ? Hop Fr]; subst. destruct (cstep psh mc st op) as [st1 ret1| | |] eqn:E; try discriminate.
    destruct (cstep_projects psh mc st op st1 ret1 Hop E) as (p & us & f & L). simpl in L. rewrite L.
    apply (IH st1 st' ret Fr H).
Qed.

(* so the ownership invariant of the L_alloc history machine holds for the heap of every state the combined machine
   reaches from the empty state *)
Theorem combined_history_ownership : forall psh mc ops st' ret, Forall op_ok1 ops ->
  crun psh mc (mk_cstate heap_empty sempty) ops = CDone st' ret -> own_ok psh (cs_heap st').
Proof.
  intros psh mc ops st' ret F H. apply (lalloc_history_ownership psh (calls_of psh mc (mk_cstate heap_empty sempty) ops)).
  apply (crun_projects psh mc ops _ st' ret F H).
Qed.

(* ------------------------------------------------------------------ *)
(* CBadCall along whole histories.  The class machine's invariant needs the ghost list of live blocks of each class;
   it is carried next to the combined state.  A free is a VALID call when it names a live block (the caller's
   obligation: no double free, no foreign pointer); valid histories never reach CBadCall. *)
Definition ghost := Z -> list (Z * Z).
Definition lv_add (lv : ghost) (c : Z) (b : Z * Z) : ghost := fun c' => if c' =? c then b :: lv c' else lv c'.
Definition lv_del (lv : ghost) (c : Z) (b : Z * Z) : ghost :=
  fun c' => if c' =? c then match remove_one b (lv c') with Some l => l | None => lv c' end else lv c'.
Definition linv (st : cstate) (lv : ghost) : Prop :=
  forall c, valid_class c -> class_inv (class_bc c) (cl_lookup c (h_classes (cs_heap st))) (lv c).
Definition block_index (c off : Z) : Z := (off - SPAN_HEADER_SIZE) / class_bs c.

Lemma selected_class_valid : forall size, 0 <= size <= medium_limit -> valid_class (selected_class size).
Proof.
  intros size Hs. unfold selected_class. pose proof (regime_cases size ltac:(lia)) as RC. destruct (regime_of size) eqn:R.
  - apply small_class_fits. assumption.
  - apply medium_class_fits. assumption.
  - lia.
  - pose proof fact_limits as (_ & _ & _ & _ & _ & L6 & _). lia.
Qed.

Lemma linv_empty : linv (mk_cstate heap_empty sempty) (fun _ => []).
Proof.
  intros c V. simpl. assert (R : 1 <= class_bc c < 2 ^ 32) by (destruct V as (_ & _ & _ & _ & B); lia).
  apply class_inv_empty; assumption.
Qed.

Theorem cstep_alloc_linv : forall psh mc st size w lv, 0 <= size <= medium_limit -> linv st lv ->
  cstep psh mc st (CAllocSM size w) <> CBadCall /\
  forall st' ret, cstep psh mc st (CAllocSM size w) = CDone st' ret ->
    exists s off us, ret = Some (s, off, us) /\
      linv st' (lv_add lv (selected_class size) (s, block_index (selected_class size) off)).
Proof.
  intros psh mc st size w lv Hs LI.
  pose proof (selected_class_valid size Hs) as V. set (c := selected_class size) in *.
  split; [apply (cstep_alloc_not_bad psh mc st size w (lv c) Hs); apply LI; exact V|].
  intros st' ret H. unfold cstep in H.
  destruct (acquire mc (cs_spans st) w) as [ss1|]; [|discriminate].
  destruct (acquired ss1 w) as [o|]; [|discriminate]. destruct (negb (so_count o =? 1)); [discriminate|].
  unfold sm_allocate in H. fold c in H.
  assert (R : 1 <= class_bc c < 2 ^ 32) by (destruct V as (_ & _ & _ & _ & B); lia).
  pose proof (class_alloc_safe (class_bc c) (chunk_of psh (class_bs c) (class_bc c)) R (chunk_of_ok psh c V)
                (cl_lookup c (h_classes (cs_heap st))) (lv c) (so_start o) (LI c V)) as S.
  destruct (class_alloc (class_bc c) (chunk_of psh (class_bs c) (class_bc c)) (cl_lookup c (h_classes (cs_heap st))) (so_start o))
    as [[[cs' [s0 i]] uf]| | | | |]; try contradiction; try discriminate.
  destruct (uf && range_in_use psh (cs_heap st) (so_start o) 1); [discriminate|].
  inversion H; subst; clear H. exists s0, (block_offset (class_bs c) i), (class_bs c). split; [reflexivity|].
  assert (BI : block_index c (block_offset (class_bs c) i) = i).
  { unfold block_index, block_offset. destruct V as (_ & P & _).
    replace (SPAN_HEADER_SIZE + i * class_bs c - SPAN_HEADER_SIZE) with (i * class_bs c) by lia.
    apply Z.div_mul. lia. }
  rewrite BI. intros c' V'. unfold lv_add. cbn [cs_heap h_classes]. rewrite cl_lookup_update.
  destruct (c' =? c) eqn:E.
  - apply Z.eqb_eq in E. subst c'. apply S.
  - apply LI. exact V'.
Qed.

(* a valid free names a live block of the class that owns its span *)
Definition live_block (st : cstate) (lv : ghost) (span off c : Z) : Prop :=
  block_info_of (cs_heap st) span = Some (BSmall c) /\ valid_class c /\
  SPAN_HEADER_SIZE <= off /\ (off - SPAN_HEADER_SIZE) mod class_bs c = 0 /\
  exists live', remove_one (span, block_index c off) (lv c) = Some live'.

Theorem cstep_free_linv : forall psh mc st span off lv c, linv st lv -> live_block st lv span off c ->
  cstep psh mc st (CFreeSM span off) <> CBadCall /\
  forall st' ret, cstep psh mc st (CFreeSM span off) = CDone st' ret -> linv st' (lv_del lv c (span, block_index c off)).
Proof.
  intros psh mc st span off lv c LI (BI & V & Ho & Hm & live' & Ro).
  assert (R : 1 <= class_bc c < 2 ^ 32) by (destruct V as (_ & _ & _ & _ & B); lia).
  destruct (class_free_safe_nochunk (class_bc c) R (cl_lookup c (h_classes (cs_heap st))) (lv c) live'
              (span, block_index c off) (LI c V) (remove_one_perm _ _ _ Ro)) as (cs' & CF & CI').
  assert (HF : heap_free (cs_heap st) span off = COk (mk_heap (cl_update c cs' (h_classes (cs_heap st))) (h_big (cs_heap st)))).
  { unfold heap_free. rewrite BI.
    replace (off <? SPAN_HEADER_SIZE) with false by (symmetry; apply Z.ltb_ge; lia).
    rewrite Hm. cbn [Z.eqb negb orb]. unfold block_index in CF. rewrite CF. reflexivity. }
  assert (G : linv (mk_cstate (mk_heap (cl_update c cs' (h_classes (cs_heap st))) (h_big (cs_heap st))) (cs_spans st))
                   (lv_del lv c (span, block_index c off)) /\ True).
  { split; [|exact I]. intros c' V'. unfold lv_del. cbn [cs_heap h_classes]. rewrite cl_lookup_update.
    destruct (c' =? c) eqn:E.
    - apply Z.eqb_eq in E. subst c'. rewrite Ro. exact CI'.
    - apply LI. exact V'. }
  destruct G as [G _]. unfold cstep. rewrite HF.
  destruct (owns_raw (cs_heap st) span && negb (owns_raw _ span)).
  - destruct (op_set_status (cs_spans st) span InUse Cached) as [ss'|]; split; try discriminate.
    intros st' ret H. inversion H; subst. intros c' V'. apply (G c' V').
  - split; [discriminate|]. intros st' ret H. inversion H; subst. exact G.
Qed.

(* valid histories: sizes in the small/medium range, every free names a block that is live at that point *)
Fixpoint hist_ok (psh mc : Z) (st : cstate) (lv : ghost) (ops : list cop) : Prop :=
  match ops with
  | [] => True
  | CAllocSM size w :: r =>
      0 <= size <= medium_limit /\
      forall st' s off us, cstep psh mc st (CAllocSM size w) = CDone st' (Some (s, off, us)) ->
        hist_ok psh mc st' (lv_add lv (selected_class size) (s, block_index (selected_class size) off)) r
  | CFreeSM span off :: r =>
      exists c, live_block st lv span off c /\
      forall st' ret, cstep psh mc st (CFreeSM span off) = CDone st' ret ->
        hist_ok psh mc st' (lv_del lv c (span, block_index c off)) r
  end.

Theorem combined_history_no_bad_call : forall psh mc ops st lv, linv st lv -> hist_ok psh mc st lv ops ->
  crun psh mc st ops <> CBadCall.
Proof.
  intros psh mc ops. induction ops as [|op r IH]; intros st lv LI HO; [simpl; discriminate|].
  destruct op as [size w | span off]; cbn [crun hist_ok] in *.
  - destruct HO as [Hs HO]. destruct (cstep_alloc_linv psh mc st size w lv Hs LI) as [NB Pres].
    destruct (cstep psh mc st (CAllocSM size w)) as [st1 ret1| | |] eqn:S; try discriminate; [|exfalso; apply NB; reflexivity].
    destruct (Pres st1 ret1 eq_refl) as (s & off & us & Er & LI'). subst ret1.
    apply (IH st1 _ LI'). apply (HO st1 s off us eq_refl).
  - destruct HO as (c & LB & HO). destruct (cstep_free_linv psh mc st span off lv c LI LB) as [NB Pres].
    destruct (cstep psh mc st (CFreeSM span off)) as [st1 ret1| | |] eqn:S; try discriminate; [|exfalso; apply NB; reflexivity].
    apply (IH st1 _ (Pres st1 ret1 eq_refl)). apply (HO st1 ret1 eq_refl).
Qed.

(* a double free is not a valid history: the second free of the same block finds it not live *)
Lemma remove_one_not_in : forall b l, remove_one b l = None <-> ~ In b l.
Proof.
  intros [s i] l. induction l as [|[s' i'] r IH]; simpl; [intuition|].
  destruct ((s' =? s) && (i' =? i)) eqn:E.
  - apply andb_prop in E. destruct E as [E1 E2]. apply Z.eqb_eq in E1, E2. subst. split; [discriminate|]. intros N. exfalso. apply N. left. reflexivity.
  - destruct (remove_one (s, i) r) eqn:Ro.
    + split; [discriminate|]. intros N. exfalso. destruct IH as [_ IH].
      assert (~ In (s, i) r) by (intros X; apply N; right; exact X). specialize (IH H). discriminate.
    + split; [|reflexivity]. intros _ [X | X].
      * inversion X; subst. rewrite !Z.eqb_refl in E. discriminate.
      * destruct IH as [IH _]. apply (IH eq_refl X).
Qed.

(* non-vacuity of hist_ok: allocate, free that block (valid); the same free again is NOT a valid call *)
Example ex_hist_ok : hist_ok 12 64 (mk_cstate heap_empty sempty) (fun _ => []) [CAllocSM 100 (FromMap 1000); CFreeSM 1000 128].
Proof.
  cbn [hist_ok]. split; [pose proof fact_limits; vm_compute; split; discriminate|].
  intros st' s off us H. vm_compute in H. inversion H; subst; clear H.
  exists (selected_class 100). split.
  - unfold live_block. split; [vm_compute; reflexivity|]. split; [apply selected_class_valid; vm_compute; split; discriminate|].
    split; [vm_compute; discriminate|]. split; [vm_compute; reflexivity|]. eexists. vm_compute. reflexivity.
  - intros; exact I.
Qed.
Example ex_double_free_invalid : forall st' s off us,
  cstep 12 64 (mk_cstate heap_empty sempty) (CAllocSM 100 (FromMap 1000)) = CDone st' (Some (s, off, us)) ->
  forall st'' ret, cstep 12 64 st' (CFreeSM 1000 128) = CDone st'' ret ->
  let c := selected_class 100 in let lv := lv_del (lv_add (fun _ => []) c (s, block_index c off)) c (1000, block_index c 128) in
  ~ hist_ok 12 64 st'' lv [CFreeSM 1000 128].
Proof.
  intros st' s off us H. vm_compute in H. inversion H; subst; clear H.
  intros st'' ret H. vm_compute in H. inversion H; subst; clear H.
  intros c lv (c' & (BI & _ & _ & _ & live' & Ro) & _).
  vm_compute in BI. inversion BI; subst c'. vm_compute in Ro. discriminate.
Qed.

(* a free step never fails: from a state satisfying both invariants, freeing a live block is answered CDone - not
   CSupplyFailed (the span model accepts the release InUse -> Cached), not CBadCall, not CRefusedByHeap - and both
   invariants hold afterwards *)
Theorem cstep_free_never_fails : forall psh mc st span off lv c, cinv st -> linv st lv -> live_block st lv span off c ->
  exists st' ret, cstep psh mc st (CFreeSM span off) = CDone st' ret /\ cinv st' /\
    linv st' (lv_del lv c (span, block_index c off)).
Proof.
  intros psh mc st span off lv c CI LI LB.
  destruct (cstep_free psh mc st span off CI) as [NS PresC].
  destruct (cstep_free_linv psh mc st span off lv c LI LB) as [NB PresL].
  pose proof (cstep_free_not_refused psh mc st span off) as NR.
  destruct (cstep psh mc st (CFreeSM span off)) as [st1 ret1| | |] eqn:S.
  - exists st1, ret1. split; [reflexivity|]. split; [apply (PresC st1 ret1 eq_refl) | apply (PresL st1 ret1 eq_refl)].
  - exfalso. apply NR. reflexivity.
  - exfalso. apply NS. reflexivity.
  - exfalso. apply NB. reflexivity.
Qed.
