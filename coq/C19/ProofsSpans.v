(* C19 - span layer of srpmalloc.c: superspans (mapped regions), master/sub spans, the heap's span
   reserve, the span caches (with reuse of a larger cached span for a smaller request), unmapping
   with the master's remaining_spans counter, and finalization.

   Executable model + invariant.  One list holds every span object the allocator knows (in use by a
   size class / large block / heap control block, cached, or reserved); a region is a mapping
   returned by the OS (master span at its base).  Outside the model: the global reserve (unused
   when span_map_count <= heap_reserve_count and page size <= span size, as on this platform),
   cache size limits (they only decide WHEN a cached span is unmapped), the OS. *)
From Coq Require Import ZArith List Lia Bool.
Import ListNotations.
Local Open Scope Z_scope.

Inductive status := InUse | Cached | Reserved.
Record sobj := mk_sobj { so_start : Z; so_count : Z; so_master : Z; so_status : status }.
Record region := mk_region { rg_base : Z; rg_total : Z; rg_remaining : Z }.
Record sstate := mk_sstate { regions : list region; objs : list sobj }.
Definition sempty : sstate := mk_sstate [] [].

Fixpoint find_first (p : sobj -> bool) (l : list sobj) : option sobj :=
  match l with [] => None | x :: r => if p x then Some x else find_first p r end.
Fixpoint remove_first (p : sobj -> bool) (l : list sobj) : list sobj :=
  match l with [] => [] | x :: r => if p x then r else x :: remove_first p r end.
Definition p_start (s : Z) (o : sobj) : bool := so_start o =? s.
Definition p_reserved (o : sobj) : bool := match so_status o with Reserved => true | _ => false end.
Definition set_status (s : status) (o : sobj) : sobj := mk_sobj (so_start o) (so_count o) (so_master o) s.
Fixpoint find_region (base : Z) (l : list region) : option region :=
  match l with [] => None | x :: r => if rg_base x =? base then Some x else find_region base r end.
Definition remove_region (base : Z) (l : list region) : list region := filter (fun x => negb (rg_base x =? base)) l.
Definition set_remaining (base rem : Z) (l : list region) : list region :=
  map (fun x => if rg_base x =? base then mk_region (rg_base x) (rg_total x) rem else x) l.

Definition overlaps (a1 n1 a2 n2 : Z) : bool := (a1 <? a2 + n2) && (a2 <? a1 + n1).
Definition reserve_of (st : sstate) : option sobj := find_first p_reserved (objs st).

(* _rpmalloc_span_map_aligned_count: a fresh mapping of max(n, map_count) spans at `base` (the OS's
   choice; refused when it overlaps a live mapping).  The first n spans are the master span, handed
   out; the rest becomes the heap reserve, the previous reserve (if any) goes to the cache. *)
Definition op_map (map_count : Z) (st : sstate) (n base : Z) : option sstate :=
  let total := Z.max n map_count in
  if (n <? 1) || existsb (fun g => overlaps base total (rg_base g) (rg_total g)) (regions st) then None else
  let old := map (fun o => match so_status o with Reserved => set_status Cached o | _ => o end) (objs st) in
  let rest := if n <? total then [mk_sobj (base + n) (total - n) base Reserved] else [] in
  Some (mk_sstate (mk_region base total total :: regions st) (mk_sobj base n base InUse :: rest ++ old)).

(* _rpmalloc_span_map_from_reserve: carve n spans off the reserve (span_count is set to n for sub
   spans and for a master alike: _rpmalloc_span_mark_as_subspan_unless_master) *)
Definition op_from_reserve (st : sstate) (n : Z) : option sstate :=
  match reserve_of st with
  | None => None
  | Some r =>
    if (n <? 1) || (so_count r <? n) then None else
    let used := mk_sobj (so_start r) n (so_master r) InUse in
    let others := remove_first p_reserved (objs st) in
    let rest := if n <? so_count r then [mk_sobj (so_start r + n) (so_count r - n) (so_master r) Reserved] else [] in
    Some (mk_sstate (regions st) (used :: rest ++ others))
  end.

(* a span changes hands without changing shape: released to a cache, kept as the heap reserve
   (_rpmalloc_deallocate_large, only when there is no reserve), or taken from a cache - possibly
   for a request of FEWER spans, in which case span_count keeps the larger value *)
Definition status_eqb (a b : status) : bool :=
  match a, b with InUse, InUse | Cached, Cached | Reserved, Reserved => true | _, _ => false end.
Definition op_set_status (st : sstate) (start : Z) (from to : status) : option sstate :=
  match find_first (p_start start) (objs st) with
  | Some o =>
    if status_eqb (so_status o) from && (match to, reserve_of st with Reserved, Some _ => false | _, _ => true end)
    then Some (mk_sstate (regions st) (map (fun x => if p_start start x then set_status to x else x) (objs st))) else None
  | None => None
  end.

(* _rpmalloc_span_unmap of a span that is not in use: the master's remaining_spans drops by the span's
   span_count; at zero the whole region is released to the OS *)
Definition op_unmap (st : sstate) (start : Z) : option sstate :=
  match find_first (p_start start) (objs st) with
  | Some o =>
    match so_status o, find_region (so_master o) (regions st) with
    | InUse, _ => None
    | _, None => None
    | _, Some g =>
      let rem := rg_remaining g - so_count o in
      let regs := if rem <=? 0 then remove_region (rg_base g) (regions st)
                  else set_remaining (rg_base g) rem (regions st) in
      Some (mk_sstate regs (remove_first (p_start start) (objs st)))
    end
  | None => None
  end.

(* rpmalloc_finalize, once every block is freed: all spans in use are released (the heap control
   span included), then everything cached or reserved is unmapped *)
Fixpoint unmap_all (fuel : nat) (st : sstate) : option sstate :=
  match fuel with
  | O => Some st
  | S f => match objs st with
           | [] => Some st
           | o :: _ => match op_unmap st (so_start o) with Some st' => unmap_all f st' | None => None end
           end
  end.
Definition op_finalize (st : sstate) : option sstate :=
  let st1 := mk_sstate (regions st) (map (fun o => match so_status o with InUse => set_status Cached o | _ => o end) (objs st)) in
  unmap_all (length (objs st1)) st1.

(* ---------------- invariant ---------------- *)
Fixpoint owned (m : Z) (l : list sobj) : Z :=
  match l with [] => 0 | o :: r => (if so_master o =? m then so_count o else 0) + owned m r end.

Definition inside (o : sobj) (g : region) : Prop :=
  so_master o = rg_base g /\ rg_base g <= so_start o /\ so_start o + so_count o <= rg_base g + rg_total g.
Fixpoint pairwise {A} (P : A -> A -> Prop) (l : list A) : Prop :=
  match l with [] => True | x :: r => (forall y, In y r -> P x y) /\ pairwise P r end.
Definition obj_disjoint (a b : sobj) : Prop :=
  so_start a + so_count a <= so_start b \/ so_start b + so_count b <= so_start a.
Definition reg_disjoint (a b : region) : Prop :=
  rg_base a + rg_total a <= rg_base b \/ rg_base b + rg_total b <= rg_base a.

Definition sinv (st : sstate) : Prop :=
  pairwise reg_disjoint (regions st) /\
  pairwise obj_disjoint (objs st) /\
  (forall o, In o (objs st) -> 1 <= so_count o /\ exists g, In g (regions st) /\ inside o g) /\
  (forall g, In g (regions st) -> rg_remaining g = owned (rg_base g) (objs st) /\ 1 <= rg_remaining g /\ 1 <= rg_total g).

(* ---------------- lemmas ---------------- *)
Lemma obj_disjoint_sym : forall a b, obj_disjoint a b -> obj_disjoint b a.
Proof. unfold obj_disjoint. intros. lia. Qed.

Lemma pairwise_app_cons : forall (l : list sobj) x, pairwise obj_disjoint l -> (forall y, In y l -> obj_disjoint x y) ->
  pairwise obj_disjoint (x :: l).
Proof. intros. simpl. auto. Qed.

Lemma find_first_in : forall p l o, find_first p l = Some o -> In o l /\ p o = true.
Proof.
  induction l as [|x r IH]; simpl; intros o H; [discriminate|].
  destruct (p x) eqn:E; [inversion H; subst; auto | destruct (IH o H); auto].
Qed.
Lemma remove_first_in : forall p l x, In x (remove_first p l) -> In x l.
Proof. induction l as [|y r IH]; simpl; intros x H; [auto|]. destruct (p y); simpl in *; intuition. Qed.
Lemma remove_first_pairwise : forall p l, pairwise obj_disjoint l -> pairwise obj_disjoint (remove_first p l).
Proof.
  induction l as [|y r IH]; simpl; intros H; [auto|]. destruct H as [H1 H2]. destruct (p y); [assumption|].
  simpl. split; [intros z Hz; apply H1; eapply remove_first_in; eassumption | auto].
Qed.
Lemma remove_first_disjoint : forall p l o, pairwise obj_disjoint l -> find_first p l = Some o ->
  forall y, In y (remove_first p l) -> obj_disjoint o y.
Proof.
  induction l as [|x r IH]; simpl; intros o H F y Hy; [discriminate|]. destruct H as [H1 H2].
  destruct (p x) eqn:E.
  - inversion F; subst. auto.
  - destruct Hy as [Hy | Hy].
    + subst y. apply obj_disjoint_sym. apply H1. apply (find_first_in _ _ _ F).
    + eapply IH; eassumption.
Qed.
Lemma remove_first_owned : forall p l o m, find_first p l = Some o ->
  owned m (remove_first p l) = owned m l - (if so_master o =? m then so_count o else 0).
Proof.
  induction l as [|x r IH]; simpl; intros o m F; [discriminate|].
  destruct (p x) eqn:E; [inversion F; subst; lia | simpl; rewrite (IH o m F); lia].
Qed.
Lemma remove_first_length : forall p l o, find_first p l = Some o -> length l = S (length (remove_first p l)).
Proof.
  induction l as [|x r IH]; simpl; intros o F; [discriminate|].
  destruct (p x); [reflexivity | simpl; f_equal; eapply IH; eassumption].
Qed.

Lemma owned_app : forall m a b, owned m (a ++ b) = owned m a + owned m b.
Proof. induction a; simpl; intros; [lia|]. rewrite IHa. lia. Qed.
Lemma owned_map_same : forall m f l, (forall o, so_master (f o) = so_master o /\ so_count (f o) = so_count o) ->
  owned m (map f l) = owned m l.
Proof.
  induction l; simpl; intros H; [reflexivity|]. destruct (H a) as [A B]. rewrite A, B, IHl by assumption. reflexivity.
Qed.
Lemma owned_zero : forall m l, (forall o, In o l -> so_master o <> m) -> owned m l = 0.
Proof.
  induction l; simpl; intros H; [reflexivity|]. rewrite IHl by auto.
  destruct (so_master a =? m) eqn:E; [apply Z.eqb_eq in E; exfalso; apply (H a); auto | reflexivity].
Qed.
Lemma owned_nonneg : forall m l, (forall o, In o l -> 1 <= so_count o) -> 0 <= owned m l.
Proof.
  induction l; simpl; intros H; [lia|]. pose proof (IHl ltac:(auto)). pose proof (H a ltac:(auto)).
  destruct (so_master a =? m); lia.
Qed.
Lemma owned_in_le : forall m l o, (forall x, In x l -> 1 <= so_count x) -> In o l -> so_master o = m -> so_count o <= owned m l.
Proof.
  induction l; simpl; intros o H I E; [contradiction|]. destruct I as [I | I].
  - subst a. rewrite E, Z.eqb_refl. pose proof (owned_nonneg m l ltac:(auto)). lia.
  - pose proof (IHl o ltac:(auto) I E). pose proof (H a ltac:(auto)). destruct (so_master a =? m); lia.
Qed.

Lemma pairwise_map_shape : forall f l, (forall o, so_start (f o) = so_start o /\ so_count (f o) = so_count o) ->
  pairwise obj_disjoint l -> pairwise obj_disjoint (map f l).
Proof.
  induction l; simpl; intros H P; [auto|]. destruct P as [P1 P2]. split; [|auto].
  intros y Hy. apply in_map_iff in Hy. destruct Hy as (x & E & Hx). subst y.
  specialize (P1 x Hx). unfold obj_disjoint in *. destruct (H a) as [A1 A2]. destruct (H x) as [B1 B2]. lia.
Qed.

Lemma find_region_in : forall b l g, find_region b l = Some g -> In g l /\ rg_base g = b.
Proof.
  induction l as [|x r IH]; simpl; intros g H; [discriminate|].
  destruct (rg_base x =? b) eqn:E; [inversion H; subst; apply Z.eqb_eq in E; auto | destruct (IH g H); auto].
Qed.
Lemma in_find_region : forall l g, pairwise reg_disjoint l -> (forall x, In x l -> 1 <= rg_total x) -> In g l ->
  find_region (rg_base g) l = Some g.
Proof.
  induction l as [|x r IH]; simpl; intros g P T I; [contradiction|]. destruct P as [P1 P2].
  destruct I as [I | I].
  - subst x. rewrite Z.eqb_refl. reflexivity.
  - destruct (rg_base x =? rg_base g) eqn:E.
    + apply Z.eqb_eq in E. specialize (P1 g I). pose proof (T x ltac:(auto)). pose proof (T g ltac:(auto)).
      unfold reg_disjoint in P1. lia.
    + apply IH; auto.
Qed.
Lemma remove_region_in : forall b l x, In x (remove_region b l) -> In x l /\ rg_base x <> b.
Proof.
  intros b l x H. unfold remove_region in H. apply filter_In in H. destruct H as [H1 H2].
  split; [assumption|]. apply negb_true_iff in H2. apply Z.eqb_neq in H2. assumption.
Qed.
Lemma filter_pairwise_reg : forall (f : region -> bool) l, pairwise reg_disjoint l -> pairwise reg_disjoint (filter f l).
Proof.
  induction l as [|y r IH]; simpl; intros H; [auto|]. destruct H as [H1 H2]. destruct (f y); [|auto].
  simpl. split; [intros z Hz; apply H1; apply filter_In in Hz; tauto | auto].
Qed.
Lemma set_remaining_pairwise : forall b rem l, pairwise reg_disjoint l -> pairwise reg_disjoint (set_remaining b rem l).
Proof.
  unfold set_remaining. induction l as [|y r IH]; simpl; intros H; [auto|]. destruct H as [H1 H2]. split; [|auto].
  intros z Hz. apply in_map_iff in Hz. destruct Hz as (x & E & Hx). subst z. specialize (H1 x Hx).
  unfold reg_disjoint in *. destruct (rg_base y =? b), (rg_base x =? b); simpl; lia.
Qed.
Lemma set_remaining_in : forall b rem l z, In z (set_remaining b rem l) ->
  exists x, In x l /\ rg_base z = rg_base x /\ rg_total z = rg_total x /\
            rg_remaining z = (if rg_base x =? b then rem else rg_remaining x).
Proof.
  unfold set_remaining. intros b rem l z H. apply in_map_iff in H. destruct H as (x & E & Hx). subst z.
  exists x. split; [assumption|]. destruct (rg_base x =? b); simpl; auto.
Qed.

(* ---------------- preservation ---------------- *)
Lemma sinv_set_status : forall st start from to st', sinv st -> op_set_status st start from to = Some st' -> sinv st'.
Proof.
  intros st start from to st' (I1 & I2 & I3 & I4) H. unfold op_set_status in H.
  destruct (find_first (p_start start) (objs st)) as [o|]; [|discriminate].
  destruct (_ && _); [|discriminate]. inversion H; subst st'; clear H.
  set (f := fun x => if p_start start x then set_status to x else x).
  assert (Fs : forall o, so_start (f o) = so_start o /\ so_count (f o) = so_count o /\ so_master (f o) = so_master o).
  { intros x. unfold f. destruct (p_start start x); simpl; auto. }
  unfold sinv; simpl. split; [assumption|]. split.
  - apply pairwise_map_shape; [intros x; destruct (Fs x) as (A & B & _); auto | assumption].
  - split.
    + intros x Hx. apply in_map_iff in Hx. destruct Hx as (y & E & Hy). subst x.
      destruct (Fs y) as (A & B & C). destruct (I3 y Hy) as (C1 & g & G1 & G2). rewrite B. split; [assumption|].
      exists g. split; [assumption|]. unfold inside in *. rewrite A, B, C. assumption.
    + intros g Hg. rewrite owned_map_same; [auto|]. intros x. destruct (Fs x) as (A & B & C). auto.
Qed.

Lemma sinv_from_reserve : forall st n st', sinv st -> op_from_reserve st n = Some st' -> sinv st'.
Proof.
  intros st n st' (I1 & I2 & I3 & I4) H. unfold op_from_reserve, reserve_of in H.
  destruct (find_first p_reserved (objs st)) as [r|] eqn:F; [|discriminate].
  destruct ((n <? 1) || (so_count r <? n)) eqn:G; [discriminate|]. apply orb_false_elim in G. destruct G as [G1 G2].
  apply Z.ltb_ge in G1, G2. inversion H; subst st'; clear H.
  destruct (find_first_in _ _ _ F) as [Rin _]. destruct (I3 r Rin) as (Rc & g & Gin & Ginside).
  pose proof (remove_first_disjoint _ _ _ I2 F) as RD.
  set (others := remove_first p_reserved (objs st)) in *.
  set (used := mk_sobj (so_start r) n (so_master r) InUse).
  set (rest := if n <? so_count r then [mk_sobj (so_start r + n) (so_count r - n) (so_master r) Reserved] else []).
  assert (Rest : forall x, In x rest -> so_master x = so_master r /\ so_start r + n <= so_start x /\
                                         so_start x + so_count x <= so_start r + so_count r /\ 1 <= so_count x).
  { intros x Hx. unfold rest in Hx. destruct (n <? so_count r) eqn:E; [|destruct Hx]. apply Z.ltb_lt in E.
    destruct Hx as [Hx|[]]. subst x. simpl. lia. }
  unfold sinv; simpl. split; [assumption|]. split; [|split].
  - split.
    + intros y Hy. apply in_app_or in Hy. destruct Hy as [Hy | Hy].
      * destruct (Rest y Hy) as (_ & A & _). unfold obj_disjoint, used. simpl. lia.
      * specialize (RD y Hy). unfold obj_disjoint in *. unfold used; simpl. lia.
    + assert (PR : pairwise obj_disjoint others) by (apply remove_first_pairwise; assumption).
      unfold rest. destruct (n <? so_count r) eqn:E; [|exact PR]. apply Z.ltb_lt in E. simpl. split; [|exact PR].
      intros y Hy. specialize (RD y Hy). unfold obj_disjoint in *. simpl. lia.
  - intros x [Hx | Hx].
    + subst x. unfold used; simpl. split; [lia|]. exists g. split; [assumption|]. unfold inside in *. simpl. lia.
    + apply in_app_or in Hx. destruct Hx as [Hx | Hx].
      * destruct (Rest x Hx) as (A & B & C & D). split; [assumption|]. exists g. split; [assumption|].
        unfold inside in *. lia.
      * apply I3. eapply remove_first_in; eassumption.
  - intros g' Hg'. destruct (I4 g' Hg') as (A & B & C). split; [|auto].
    rewrite A. rewrite owned_app. unfold others. rewrite (remove_first_owned _ _ _ (rg_base g') F).
    unfold rest. destruct (n <? so_count r) eqn:E; simpl; destruct (so_master r =? rg_base g'); try lia.
Qed.

Lemma region_base_unique : forall l g1 g2, pairwise reg_disjoint l -> (forall x, In x l -> 1 <= rg_total x) ->
  In g1 l -> In g2 l -> rg_base g1 = rg_base g2 -> g1 = g2.
Proof.
  induction l as [|x r IH]; simpl; intros g1 g2 P T I1 I2 E; [contradiction|]. destruct P as [P1 P2].
  destruct I1 as [I1 | I1]; destruct I2 as [I2 | I2]; subst; auto.
  - specialize (P1 g2 I2). pose proof (T g1 ltac:(auto)). pose proof (T g2 ltac:(auto)). unfold reg_disjoint in P1. lia.
  - specialize (P1 g1 I1). pose proof (T g1 ltac:(auto)). pose proof (T g2 ltac:(auto)). unfold reg_disjoint in P1. lia.
Qed.

Lemma sinv_unmap : forall st start st', sinv st -> op_unmap st start = Some st' -> sinv st'.
Proof.
  intros st start st' (I1 & I2 & I3 & I4) H. unfold op_unmap in H.
  destruct (find_first (p_start start) (objs st)) as [o|] eqn:F; [|discriminate].
  destruct (find_first_in _ _ _ F) as [Oin _]. destruct (I3 o Oin) as (Oc & g0 & G0in & G0inside).
  assert (T : forall x, In x (regions st) -> 1 <= rg_total x) by (intros x Hx; apply I4; assumption).
  destruct (find_region (so_master o) (regions st)) as [g|] eqn:FR.
  2: { destruct (so_status o); discriminate. }
  destruct (find_region_in _ _ _ FR) as [Gin Gb].
  assert (g = g0) by (apply (region_base_unique (regions st)); auto; destruct G0inside as (A & _); congruence). subst g0.
  assert (H' : Some (mk_sstate (if rg_remaining g - so_count o <=? 0 then remove_region (rg_base g) (regions st)
                                 else set_remaining (rg_base g) (rg_remaining g - so_count o) (regions st))
                                (remove_first (p_start start) (objs st))) = Some st').
  { destruct (so_status o); [discriminate | exact H | exact H]. }
  clear H. inversion H'; subst st'; clear H'.
  set (others := remove_first (p_start start) (objs st)).
  assert (OW : forall m, owned m others = owned m (objs st) - (if so_master o =? m then so_count o else 0))
    by (intros m; apply remove_first_owned; assumption).
  assert (Oth3 : forall x, In x others -> In x (objs st)) by (intros x Hx; eapply remove_first_in; eassumption).
  destruct (I4 g Gin) as (Rg & Rg1 & Rg2).
  unfold sinv; simpl. destruct (rg_remaining g - so_count o <=? 0) eqn:E.
  - apply Z.leb_le in E. split; [apply filter_pairwise_reg; assumption|]. split; [apply remove_first_pairwise; assumption|]. split.
    + intros x Hx. destruct (I3 x (Oth3 x Hx)) as (Xc & gx & GXin & GXinside). split; [assumption|].
      exists gx. split; [|assumption]. unfold remove_region. apply filter_In. split; [assumption|].
      apply negb_true_iff. apply Z.eqb_neq. intros Eb.
      (* an object of the released region would still be owned by it *)
      assert (so_master x = rg_base g) by (destruct GXinside as (A & _); congruence).
      pose proof (owned_in_le (rg_base g) others x ltac:(intros y Hy; apply I3; auto) Hx H) as L.
      rewrite OW in L. rewrite <- Gb in L. rewrite Z.eqb_refl in L. lia.
    + intros g' Hg'. apply remove_region_in in Hg'. destruct Hg' as [Hg' Nb]. destruct (I4 g' Hg') as (A & B & C).
      split; [|auto]. rewrite OW. rewrite <- Gb. destruct (rg_base g =? rg_base g') eqn:Q; [apply Z.eqb_eq in Q; congruence | lia].
  - apply Z.leb_gt in E. split; [apply set_remaining_pairwise; assumption|]. split; [apply remove_first_pairwise; assumption|]. split.
    + intros x Hx. destruct (I3 x (Oth3 x Hx)) as (Xc & gx & GXin & GXinside). split; [assumption|].
      exists (if rg_base gx =? rg_base g then mk_region (rg_base gx) (rg_total gx) (rg_remaining g - so_count o) else gx).
      split.
      * unfold set_remaining. apply in_map_iff. exists gx. split; [reflexivity | assumption].
      * unfold inside in *. destruct (rg_base gx =? rg_base g); simpl; assumption.
    + intros g' Hg'. apply set_remaining_in in Hg'. destruct Hg' as (x & Xin & B1 & B2 & B3).
      destruct (I4 x Xin) as (A & B & C). rewrite B1, B2, B3, OW. rewrite <- Gb.
      destruct (rg_base x =? rg_base g) eqn:Q.
      * apply Z.eqb_eq in Q. assert (x = g) by (apply (region_base_unique (regions st)); auto). subst x.
        rewrite Z.eqb_refl. lia.
      * rewrite Z.eqb_sym, Q. lia.
Qed.

Lemma sinv_map : forall mc st n base st', sinv st -> op_map mc st n base = Some st' -> sinv st'.
Proof.
  intros mc st n base st' (I1 & I2 & I3 & I4) H. unfold op_map in H.
  set (total := Z.max n mc) in *.
  destruct ((n <? 1) || existsb (fun g => overlaps base total (rg_base g) (rg_total g)) (regions st)) eqn:G; [discriminate|].
  apply orb_false_elim in G. destruct G as [G1 G2]. apply Z.ltb_ge in G1.
  inversion H; subst st'; clear H.
  assert (Tn : n <= total) by (unfold total; lia).
  assert (ND : forall g, In g (regions st) -> reg_disjoint (mk_region base total total) g).
  { intros g Hg. assert (overlaps base total (rg_base g) (rg_total g) = false).
    { destruct (overlaps base total (rg_base g) (rg_total g)) eqn:O; [|reflexivity].
      assert (existsb (fun g => overlaps base total (rg_base g) (rg_total g)) (regions st) = true)
        by (apply existsb_exists; exists g; auto). congruence. }
    unfold overlaps in H. apply andb_false_iff in H. unfold reg_disjoint; simpl.
    destruct H as [H | H]; apply Z.ltb_ge in H; lia. }
  set (f := fun o => match so_status o with Reserved => set_status Cached o | _ => o end).
  assert (Fs : forall o, so_start (f o) = so_start o /\ so_count (f o) = so_count o /\ so_master (f o) = so_master o).
  { intros x. unfold f. destruct (so_status x); simpl; auto. }
  set (old := map f (objs st)).
  set (rest := if n <? total then [mk_sobj (base + n) (total - n) base Reserved] else []).
  assert (Old : forall x, In x old -> 1 <= so_count x /\ exists g, In g (regions st) /\ inside x g).
  { intros x Hx. apply in_map_iff in Hx. destruct Hx as (y & E & Hy). subst x. destruct (Fs y) as (A & B & C).
    destruct (I3 y Hy) as (C1 & g & Gi & Gs). rewrite B. split; [assumption|]. exists g. split; [assumption|].
    unfold inside in *. rewrite A, B, C. assumption. }
  assert (OldOut : forall x, In x old -> so_start x + so_count x <= base \/ base + total <= so_start x).
  { intros x Hx. destruct (Old x Hx) as (_ & g & Gi & (A & B & C)). specialize (ND g Gi). unfold reg_disjoint in ND; simpl in ND. lia. }
  assert (OldM : forall x, In x old -> so_master x <> base).
  { intros x Hx E. destruct (Old x Hx) as (C1 & g & Gi & (A & B & C)). specialize (ND g Gi). destruct (I4 g Gi) as (_ & _ & T).
    unfold reg_disjoint in ND; simpl in ND. lia. }
  assert (Rest : forall x, In x rest -> so_master x = base /\ base + n <= so_start x /\ so_start x + so_count x <= base + total /\ 1 <= so_count x).
  { intros x Hx. unfold rest in Hx. destruct (n <? total) eqn:E; [|destruct Hx]. apply Z.ltb_lt in E.
    destruct Hx as [Hx|[]]. subst x. simpl. lia. }
  unfold sinv; simpl. split; [split; [exact ND | assumption]|]. split; [|split].
  - split.
    + intros y Hy. apply in_app_or in Hy. unfold obj_disjoint; simpl. destruct Hy as [Hy | Hy].
      * destruct (Rest y Hy) as (_ & A & _). lia.
      * specialize (OldOut y Hy). lia.
    + assert (PO : pairwise obj_disjoint old).
      { apply pairwise_map_shape; [intros x; destruct (Fs x) as (A & B & _); auto | assumption]. }
      unfold rest. destruct (n <? total) eqn:E; [|exact PO]. apply Z.ltb_lt in E. simpl. split; [|exact PO].
      intros y Hy. specialize (OldOut y Hy). unfold obj_disjoint; simpl. lia.
  - intros x [Hx | Hx].
    + subst x. simpl. split; [lia|]. exists (mk_region base total total). split; [left; reflexivity|]. unfold inside; simpl. lia.
    + apply in_app_or in Hx. destruct Hx as [Hx | Hx].
      * destruct (Rest x Hx) as (A & B & C & D). split; [assumption|]. exists (mk_region base total total).
        split; [left; reflexivity|]. unfold inside; simpl. lia.
      * destruct (Old x Hx) as (C1 & g & Gi & Gs). split; [assumption|]. exists g. split; [right; assumption | assumption].
  - intros g [Hg | Hg].
    + subst g. simpl. rewrite Z.eqb_refl. rewrite owned_app. rewrite (owned_zero base old OldM).
      unfold rest. destruct (n <? total) eqn:E; simpl; [rewrite Z.eqb_refl; lia | apply Z.ltb_ge in E; lia].
    + destruct (I4 g Hg) as (A & B & C). specialize (ND g Hg). unfold reg_disjoint in ND; simpl in ND.
      assert (Nb : base <> rg_base g) by lia. split; [|auto]. simpl.
      destruct (base =? rg_base g) eqn:Q; [apply Z.eqb_eq in Q; contradiction|].
      rewrite owned_app. unfold old. rewrite owned_map_same by (intros x; destruct (Fs x) as (X1 & X2 & X3); auto).
      rewrite (owned_zero (rg_base g) rest); [lia|]. intros x Hx. destruct (Rest x Hx) as (X & _). lia.
Qed.

(* ---------------- histories ---------------- *)
Inductive sop :=
| SMap (n base : Z) | SFromReserve (n : Z) | SStatus (start : Z) (from to : status) | SUnmap (start : Z).
Definition sstep (mc : Z) (st : sstate) (op : sop) : option sstate :=
  match op with
  | SMap n base => op_map mc st n base
  | SFromReserve n => op_from_reserve st n
  | SStatus s a b => op_set_status st s a b
  | SUnmap s => op_unmap st s
  end.
Fixpoint srun (mc : Z) (st : sstate) (ops : list sop) : option sstate :=
  match ops with [] => Some st | op :: r => match sstep mc st op with Some st' => srun mc st' r | None => None end end.

Lemma sinv_empty : sinv sempty.
Proof. unfold sinv, sempty; simpl. repeat split; auto; intros; contradiction. Qed.

Theorem srun_inv : forall mc ops st st', sinv st -> srun mc st ops = Some st' -> sinv st'.
Proof.
  induction ops as [|op r IH]; simpl; intros st st' I H; [inversion H; subst; assumption|].
  destruct (sstep mc st op) as [st1|] eqn:S; [|discriminate]. apply (IH st1); [|assumption].
  destruct op; simpl in S.
  - eapply sinv_map; eassumption.
  - eapply sinv_from_reserve; eassumption.
  - eapply sinv_set_status; eassumption.
  - eapply sinv_unmap; eassumption.
Qed.

(* clause 1: whatever the history of mapping, carving, caching, reuse and unmapping, the spans the
   allocator knows never overlap, each lies in a region that is still mapped, and a region's
   remaining_spans is exactly the number of spans of it that are still known (so a region holding
   a span in use is never released) *)
Theorem spans_disjoint_across_reuse : forall mc ops st, srun mc sempty ops = Some st ->
  pairwise obj_disjoint (objs st) /\
  (forall o, In o (objs st) -> exists g, In g (regions st) /\ inside o g /\ so_count o <= rg_remaining g).
Proof.
  intros mc ops st H. pose proof (srun_inv mc ops sempty st sinv_empty H) as (I1 & I2 & I3 & I4).
  split; [assumption|]. intros o Ho. destruct (I3 o Ho) as (C & g & Gi & Gs). exists g. split; [assumption|]. split; [assumption|].
  destruct (I4 g Gi) as (A & _). rewrite A. apply owned_in_le; [intros x Hx; apply I3; assumption | assumption | apply Gs].
Qed.

(* clause 2: finalization (every span released, then everything cached or reserved unmapped) always
   succeeds and leaves no mapped region: every region is released exactly when its last span goes *)
Lemma unmap_all_spec : forall fuel st, sinv st -> (length (objs st) <= fuel)%nat ->
  (forall o, In o (objs st) -> so_status o <> InUse) ->
  exists st', unmap_all fuel st = Some st' /\ sinv st' /\ objs st' = [].
Proof.
  induction fuel; intros st I L NU.
  - exists st. simpl. destruct (objs st) eqn:E; [auto | simpl in L; lia].
  - simpl. destruct (objs st) as [|o r] eqn:E; [exists st; auto|].
    assert (F : find_first (p_start (so_start o)) (objs st) = Some o).
    { rewrite E. simpl. unfold p_start. rewrite Z.eqb_refl. reflexivity. }
    destruct I as (I1 & I2 & I3 & I4).
    assert (Oin : In o (objs st)) by (rewrite E; left; reflexivity).
    destruct (I3 o Oin) as (Oc & g & Gi & Gs).
    assert (FR : find_region (so_master o) (regions st) = Some g).
    { destruct Gs as (A & _). rewrite A. apply in_find_region; [assumption | intros x Hx; apply I4; assumption | assumption]. }
    assert (exists st1, op_unmap st (so_start o) = Some st1 /\ objs st1 = r) as (st1 & U & Or).
    { unfold op_unmap. rewrite F, FR. pose proof (NU o ltac:(left; reflexivity)) as N.
      destruct (so_status o); [contradiction | |]; eexists; (split; [reflexivity|]); simpl; rewrite E; simpl;
        unfold p_start; rewrite Z.eqb_refl; reflexivity. }
    rewrite U. assert (I' : sinv st1) by (eapply sinv_unmap; [split; [|split; [|split]]; eassumption | eassumption]).
    apply IHfuel; [assumption | rewrite Or; simpl in L; lia |].
    intros x Hx. apply NU. right. rewrite <- Or. assumption.
Qed.

Theorem finalize_unmaps_everything : forall mc ops st, srun mc sempty ops = Some st ->
  exists st', op_finalize st = Some st' /\ regions st' = [] /\ objs st' = [].
Proof.
  intros mc ops st H. pose proof (srun_inv mc ops sempty st sinv_empty H) as I.
  unfold op_finalize.
  set (st1 := mk_sstate (regions st) (map (fun o => match so_status o with InUse => set_status Cached o | _ => o end) (objs st))).
  assert (I1 : sinv st1).
  { destruct I as (J1 & J2 & J3 & J4).
    set (f := fun o => match so_status o with InUse => set_status Cached o | _ => o end).
    assert (Fs : forall o, so_start (f o) = so_start o /\ so_count (f o) = so_count o /\ so_master (f o) = so_master o).
    { intros x. unfold f. destruct (so_status x); simpl; auto. }
    unfold sinv, st1; simpl. split; [assumption|]. split.
    - apply pairwise_map_shape; [intros x; destruct (Fs x) as (A & B & _); auto | assumption].
    - split.
      + intros x Hx. apply in_map_iff in Hx. destruct Hx as (y & E & Hy). subst x.
        destruct (Fs y) as (A & B & C). unfold f in A, B, C. destruct (J3 y Hy) as (C1 & g & G1 & G2). rewrite B. split; [assumption|].
        exists g. split; [assumption|]. unfold inside in *. rewrite A, B, C. assumption.
      + intros g Hg. change (map (fun o => match so_status o with InUse => set_status Cached o | _ => o end) (objs st)) with (map f (objs st)). rewrite owned_map_same; [auto|]. intros x. destruct (Fs x) as (A & B & C). auto. }
  destruct (unmap_all_spec (length (objs st1)) st1 I1 (le_n _)) as (st' & U & I' & O').
  { intros o Ho. unfold st1 in Ho; simpl in Ho. apply in_map_iff in Ho. destruct Ho as (y & E & _). subst o.
    destruct (so_status y) eqn:S; simpl; try rewrite S; discriminate. }
  exists st'. split; [exact U|]. split; [|exact O'].
  destruct I' as (_ & _ & _ & J4). destruct (regions st') as [|g r] eqn:E; [reflexivity|].
  destruct (J4 g ltac:(left; reflexivity)) as (A & B & _). rewrite O' in A. simpl in A. lia.
Qed.

(* non-vacuity: map 64 spans for a 1-span request, carve 6 from the reserve, cache them, reuse them
   for a 4-span request (span_count stays 6), map again, finalize *)
Example ex_spans :
  match srun 64 sempty [SMap 1 1000; SFromReserve 6; SStatus 1001 InUse Cached; SStatus 1001 Cached InUse;
                        SFromReserve 57; SMap 70 5000; SStatus 1001 InUse Cached; SUnmap 1001] with
  | Some st => length (regions st) = 2%nat /\ length (objs st) = 3%nat /\
               match op_finalize st with Some st' => regions st' = [] | None => False end
  | None => False
  end.
Proof. vm_compute. auto. Qed.
