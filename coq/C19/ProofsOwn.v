(* C19 - whole heap, over histories of L_alloc calls: span ownership.  Every span is owned by at most
   one size class or one large/huge block, for ANY sequence of l_alloc calls that the model accepts
   (the environment's span is refused with CErrOracle when it is in use: that check is part of the
   model, and coq/C19/ProofsSpans.v shows the span layer always has a span that passes it). *)
From C19 Require Import Model Proofs ProofsMachine ProofsHeap ProofsSpans.
Local Open Scope Z_scope.
Ltac Zify.zify_post_hook ::= Z.div_mod_to_equations.

Definition class_owns (h : heap) (c s : Z) : Prop := sp_lookup s (c_spans (cl_lookup c (h_classes h))) <> None.
Definition big_disjoint (psh : Z) (a b : Z * blockinfo) : Prop :=
  fst a + big_units psh (snd a) <= fst b \/ fst b + big_units psh (snd b) <= fst a.
Fixpoint pairwise_big (psh : Z) (l : list (Z * blockinfo)) : Prop :=
  match l with [] => True | x :: r => (forall y, In y r -> big_disjoint psh x y) /\ pairwise_big psh r end.

Definition own_ok (psh : Z) (h : heap) : Prop :=
  (forall c1 c2 s, class_owns h c1 s -> class_owns h c2 s -> c1 = c2) /\
  (forall c s kb, class_owns h c s -> In kb (h_big h) -> s + 1 <= fst kb \/ fst kb + big_units psh (snd kb) <= s) /\
  pairwise_big psh (h_big h).

Lemma own_ok_empty : forall psh, own_ok psh heap_empty.
Proof.
  intros psh. unfold own_ok, class_owns, heap_empty; simpl. split; [|split]; intros; try contradiction; auto.
Qed.

(* ---- association lists ---- *)
Lemma cl_lookup_update : forall c v l c', cl_lookup c' (cl_update c v l) = if c' =? c then v else cl_lookup c' l.
Proof.
  induction l as [|[k w] r IH]; intros c'; cbn [cl_update cl_lookup].
  - rewrite (Z.eqb_sym c c'). reflexivity.
  - destruct (k =? c) eqn:E; cbn [cl_lookup]; [|rewrite IH];
      destruct (k =? c') eqn:F; destruct (c' =? c) eqn:G; try reflexivity;
      rewrite ?Z.eqb_eq, ?Z.eqb_neq in *; try lia.
Qed.
Lemma cl_lookup_in : forall c l s, sp_lookup s (c_spans (cl_lookup c l)) <> None -> In (c, cl_lookup c l) l.
Proof.
  induction l as [|[k w] r IH]; simpl; intros s H; [exfalso; apply H; reflexivity|].
  destruct (k =? c) eqn:E; [apply Z.eqb_eq in E; subst; left; reflexivity | right; eapply IH; eassumption].
Qed.
Lemma sp_lookup_in : forall s l v, sp_lookup s l = Some v -> In (s, v) l.
Proof.
  induction l as [|[k w] r IH]; simpl; intros v H; [discriminate|].
  destruct (k =? s) eqn:E; [apply Z.eqb_eq in E; inversion H; subst; left; reflexivity | right; auto].
Qed.
Lemma sp_lookup_update_none : forall s s' st l, sp_lookup s' (sp_update s st l) <> None -> sp_lookup s' l <> None.
Proof.
  induction l as [|[k w] r IH]; simpl; intros H; [assumption|].
  destruct (k =? s) eqn:E; simpl in H.
  - apply Z.eqb_eq in E. subst k. destruct (s =? s'); [discriminate | assumption].
  - destruct (k =? s'); [discriminate | auto].
Qed.
Lemma sp_lookup_remove_none : forall s s' l, sp_lookup s' (sp_remove s l) <> None -> sp_lookup s' l <> None.
Proof.
  induction l as [|[k w] r IH]; simpl; intros H; [assumption|].
  destruct (k =? s) eqn:E.
  - destruct (k =? s'); [discriminate | auto].
  - simpl in H. destruct (k =? s'); [discriminate | auto].
Qed.

(* ---- what the class machine does to the set of spans a class owns ---- *)
Lemma class_alloc_owns : forall bc chunk cs fresh cs' b uf, class_alloc bc chunk cs fresh = COk (cs', b, uf) ->
  forall s, sp_lookup s (c_spans cs') <> None -> sp_lookup s (c_spans cs) <> None \/ (uf = true /\ s = fresh).
Proof.
  intros bc chunk cs fresh cs' b uf H s L. unfold class_alloc in H.
  destruct (c_hfl cs) as [|x r]; [|inversion H; subst; left; exact L].
  destruct (c_partial cs) as [|p pr].
  - destruct (sp_lookup fresh (c_spans cs)); [discriminate|]. inversion H; subst; clear H. simpl in L.
    destruct (fresh =? s) eqn:E; [apply Z.eqb_eq in E; right; auto | left; exact L].
  - destruct (sp_lookup p (c_spans cs)) as [st|]; [|discriminate].
    destruct (sp_free st) as [|i fr]; inversion H; subst; clear H; simpl in L; left; eapply sp_lookup_update_none; eassumption.
Qed.
Lemma class_free_owns : forall bc cs b cs', class_free bc cs b = COk cs' ->
  forall s, sp_lookup s (c_spans cs') <> None -> sp_lookup s (c_spans cs) <> None.
Proof.
  intros bc cs [s0 i] cs' H s L. unfold class_free in H.
  destruct (sp_lookup s0 (c_spans cs)) as [st|]; [|discriminate].
  destruct (u32 _ =? 0); inversion H; subst; clear H; simpl in L;
    [eapply sp_lookup_remove_none | eapply sp_lookup_update_none]; eassumption.
Qed.

(* ---- the in-use check of the model ---- *)
Lemma range_free_class : forall psh h s n c s', range_in_use psh h s n = false -> class_owns h c s' -> s' < s \/ s + n <= s'.
Proof.
  intros psh h s n c s' R O. unfold range_in_use in R. apply orb_false_elim in R. destruct R as [R _].
  unfold class_owns in O. pose proof (cl_lookup_in c (h_classes h) s' O) as I.
  destruct (sp_lookup s' (c_spans (cl_lookup c (h_classes h)))) as [v|] eqn:L; [|congruence].
  apply sp_lookup_in in L.
  destruct (Z_lt_dec s' s) as [A|A]; [left; exact A|]. destruct (Z_le_dec (s + n) s') as [B|B]; [right; exact B|]. exfalso.
  assert (existsb (fun kv => existsb (fun sv => (s <=? fst sv) && (fst sv <? s + n)) (c_spans (snd kv))) (h_classes h) = true).
  { apply existsb_exists. exists (c, cl_lookup c (h_classes h)). split; [exact I|]. simpl.
    apply existsb_exists. exists (s', v). split; [exact L|]. simpl. apply andb_true_intro. split; [apply Z.leb_le | apply Z.ltb_lt]; lia. }
  congruence.
Qed.
Lemma range_free_big : forall psh h s n kb, range_in_use psh h s n = false -> In kb (h_big h) ->
  s + n <= fst kb \/ fst kb + big_units psh (snd kb) <= s.
Proof.
  intros psh h s n kb R I. unfold range_in_use in R. apply orb_false_elim in R. destruct R as [_ R].
  destruct (Z_le_dec (s + n) (fst kb)) as [A|A]; [left; exact A|].
  destruct (Z_le_dec (fst kb + big_units psh (snd kb)) s) as [B|B]; [right; exact B|]. exfalso.
  assert (existsb (fun kb => (fst kb <? s + n) && (s <? fst kb + big_units psh (snd kb))) (h_big h) = true).
  { apply existsb_exists. exists kb. split; [exact I|]. apply andb_true_intro. split; apply Z.ltb_lt; lia. }
  congruence.
Qed.

Lemma big_remove_in : forall s l x, In x (big_remove s l) -> In x l.
Proof. induction l as [|[k v] r IH]; simpl; intros x H; [auto|]. destruct (k =? s); simpl in *; intuition. Qed.
Lemma big_remove_pairwise : forall psh s l, pairwise_big psh l -> pairwise_big psh (big_remove s l).
Proof.
  induction l as [|[k v] r IH]; simpl; intros H; [auto|]. destruct H as [H1 H2]. destruct (k =? s); [assumption|].
  simpl. split; [intros y Hy; apply H1; eapply big_remove_in; eassumption | auto].
Qed.

(* a heap whose classes own subsets of the spans they owned before, and whose big list is a sub-list *)
Lemma own_ok_shrink : forall psh h h', own_ok psh h ->
  (forall c s, class_owns h' c s -> class_owns h c s) ->
  (forall kb, In kb (h_big h') -> In kb (h_big h)) -> pairwise_big psh (h_big h') -> own_ok psh h'.
Proof.
  intros psh h h' (O1 & O2 & O3) C B P. split; [|split; [|assumption]].
  - intros c1 c2 s A1 A2. eapply O1; eauto.
  - intros c s kb A I. eapply O2; eauto.
Qed.

Lemma own_ok_heap_free : forall psh h span off h', own_ok psh h -> heap_free h span off = COk h' -> own_ok psh h'.
Proof.
  intros psh h span off h' O H. unfold heap_free in H.
  destruct (block_info_of h span) as [[c | n | n]|]; try discriminate.
  - destruct ((off <? SPAN_HEADER_SIZE) || negb ((off - SPAN_HEADER_SIZE) mod class_bs c =? 0)); [discriminate|].
    destruct (class_free (class_bc c) (cl_lookup c (h_classes h)) (span, (off - SPAN_HEADER_SIZE) / class_bs c)) as [cs'| | | | |] eqn:F;
      try discriminate. inversion H; subst h'; clear H.
    apply (own_ok_shrink psh h); [assumption | | simpl; auto | simpl; apply O].
    intros c' s A. unfold class_owns in *. simpl in A. rewrite cl_lookup_update in A.
    destruct (c' =? c) eqn:E; [|exact A]. apply Z.eqb_eq in E. subst c'. eapply class_free_owns; eassumption.
  - inversion H; subst h'; clear H. apply (own_ok_shrink psh h); [assumption | simpl; auto | simpl; intros; eapply big_remove_in; eassumption |].
    simpl. apply big_remove_pairwise. apply O.
  - inversion H; subst h'; clear H. apply (own_ok_shrink psh h); [assumption | simpl; auto | simpl; intros; eapply big_remove_in; eassumption |].
    simpl. apply big_remove_pairwise. apply O.
Qed.

Lemma own_ok_add_big : forall psh h s b, own_ok psh h -> range_in_use psh h s (big_units psh b) = false ->
  own_ok psh (mk_heap (h_classes h) ((s, b) :: h_big h)).
Proof.
  intros psh h s b (O1 & O2 & O3) R. split; [|split].
  - intros c1 c2 s' A1 A2. eapply O1; eauto.
  - intros c s' kb A [I | I].
    + subst kb. simpl. pose proof (range_free_class psh h s _ c s' R A). lia.
    + eapply O2; eauto.
  - simpl. split; [|assumption]. intros y Hy. pose proof (range_free_big psh h s _ y R Hy). unfold big_disjoint. simpl. lia.
Qed.

Lemma own_ok_heap_allocate : forall psh h size es ec h' s off us, own_ok psh h ->
  heap_allocate psh h size es ec = COk (h', s, off, us) -> own_ok psh h'.
Proof.
  intros psh h size es ec h' s off us O H. unfold heap_allocate in H.
  assert (SM : forall c,
    match class_alloc (class_bc c) (chunk_of psh (class_bs c) (class_bc c)) (cl_lookup c (h_classes h)) es with
    | COk (cs', (s0, i), usedfresh) =>
        if usedfresh && range_in_use psh h es 1 then CErrOracle
        else COk (mk_heap (cl_update c cs' (h_classes h)) (h_big h), s0, block_offset (class_bs c) i, class_bs c)
    | CErrOracle => CErrOracle | CErrCorrupt => CErrCorrupt
    | CErrBadFree => CErrBadFree | CErrUnmodelled => CErrUnmodelled | CNull => CNull
    end = COk (h', s, off, us) -> own_ok psh h').
  { intros c E.
    destruct (class_alloc (class_bc c) (chunk_of psh (class_bs c) (class_bc c)) (cl_lookup c (h_classes h)) es)
      as [[[cs' [s0 i]] uf]| | | | |] eqn:A; try discriminate.
    destruct (uf && range_in_use psh h es 1) eqn:U; [discriminate|].
    apply COk_inj in E. apply tuple4_inj in E. destruct E as (E1 & _). subst h'.
    destruct O as (O1 & O2 & O3).
    assert (New : forall c' x, class_owns (mk_heap (cl_update c cs' (h_classes h)) (h_big h)) c' x ->
              class_owns h c' x \/ (c' = c /\ x = es /\ range_in_use psh h es 1 = false)).
    { intros c' x Hx. unfold class_owns in *. simpl in Hx. rewrite cl_lookup_update in Hx.
      destruct (c' =? c) eqn:Q; [|left; exact Hx]. apply Z.eqb_eq in Q. subst c'.
      destruct (class_alloc_owns _ _ _ _ _ _ _ A x Hx) as [P | [P1 P2]]; [left; exact P|].
      right. subst uf x. simpl in U. auto. }
    split; [|split; [|assumption]].
    - intros c1 c2 x A1 A2. destruct (New c1 x A1) as [B1 | (B1 & B1' & R1)]; destruct (New c2 x A2) as [B2 | (B2 & B2' & R2)].
      + eapply O1; eauto.
      + subst. pose proof (range_free_class psh h es 1 c1 es R2 B1). lia.
      + subst. pose proof (range_free_class psh h es 1 c2 es R1 B2). lia.
      + congruence.
    - intros c' x kb A1 I. destruct (New c' x A1) as [B1 | (B1 & B1' & R1)]; [eapply O2; eauto|].
      subst. simpl in I. pose proof (range_free_big psh h es 1 kb R1 I). lia. }
  destruct (regime_of size).
  - apply (SM _ H).
  - apply (SM _ H).
  - destruct ((ec <? large_span_count size) || (LARGE_CLASS_COUNT <? ec) || range_in_use psh h es ec) eqn:Q; [discriminate|].
    apply orb_false_elim in Q. destruct Q as [_ Q]. apply COk_inj in H. apply tuple4_inj in H. destruct H as (E1 & _). subst h'.
    apply own_ok_add_big; assumption.
  - destruct (huge_request psh size) as [np|]; [|discriminate].
    destruct (range_in_use psh h es (big_units psh (BHuge np))) eqn:Q; [discriminate|].
    apply COk_inj in H. apply tuple4_inj in H. destruct H as (E1 & _). subst h'. apply own_ok_add_big; assumption.
Qed.

Lemma own_ok_l_alloc : forall psh h ptr osize nsize es ec h' p us mv, own_ok psh h ->
  l_alloc psh h ptr osize nsize es ec = COk (h', p, us, mv) -> own_ok psh h'.
Proof.
  intros psh h ptr osize nsize es ec h' p us mv O H. unfold l_alloc in H.
  destruct (nsize =? 0).
  { destruct ptr as [[s o]|]; [|inversion H; subst; assumption].
    destruct (heap_free h s o) as [h1| | | | |] eqn:F; try discriminate. inversion H; subst. eapply own_ok_heap_free; eassumption. }
  destruct (negb (LALLOC_ALIGN <=? SMALL_GRANULARITY) || negb (LALLOC_FLAGS =? 0)); [discriminate|].
  assert (FA : forall oldsize,
    match heap_allocate psh h (realloc_new_size nsize oldsize) es ec with
    | COk (h1, s, o, us0) =>
        match ptr with
        | None => COk (h1, Some (s, o), us0, true)
        | Some (ps, po) => match heap_free h1 ps po with
                           | COk h2 => COk (h2, Some (s, o), us0, true)
                           | CErrOracle => CErrOracle | CErrCorrupt => CErrCorrupt
                           | CErrBadFree => CErrBadFree | CErrUnmodelled => CErrUnmodelled | CNull => CNull
                           end
        end
    | CErrOracle => CErrOracle | CErrCorrupt => CErrCorrupt
    | CErrBadFree => CErrBadFree | CErrUnmodelled => CErrUnmodelled
    | CNull => COk (h, None, 0, true)
    end = COk (h', p, us, mv) -> own_ok psh h').
  { intros oldsize E.
    destruct (heap_allocate psh h (realloc_new_size nsize oldsize) es ec) as [[[[h1 s] o] us0]| | | | |] eqn:A; try discriminate.
    - pose proof (own_ok_heap_allocate _ _ _ _ _ _ _ _ _ O A) as O1.
      destruct ptr as [[ps po]|]; [|inversion E; subst; assumption].
      destruct (heap_free h1 ps po) as [h2| | | | |] eqn:F; try discriminate. inversion E; subst. eapply own_ok_heap_free; eassumption.
    - inversion E; subst. assumption. }
  destruct ptr as [[ps po]|]; [|apply (FA _ H)].
  destruct (block_info_of h ps) as [b|]; [|discriminate].
  destruct (realloc_inplace psh b nsize (effective_oldsize psh b osize)); [inversion H; subst; assumption | apply (FA _ H)].
Qed.

(* ---- histories of L_alloc calls ---- *)
Record lcall := mk_lcall { lc_ptr : option (Z * Z); lc_osize : Z; lc_nsize : Z; lc_span : Z; lc_count : Z }.
Fixpoint lrun (psh : Z) (h : heap) (calls : list lcall) : option heap :=
  match calls with
  | [] => Some h
  | c :: r => match l_alloc psh h (lc_ptr c) (lc_osize c) (lc_nsize c) (lc_span c) (lc_count c) with
              | COk (h', _, _, _) => lrun psh h' r
              | _ => None
              end
  end.

Theorem lalloc_history_ownership : forall psh calls h, lrun psh heap_empty calls = Some h -> own_ok psh h.
Proof.
  intros psh calls. assert (G : forall h0 h, own_ok psh h0 -> lrun psh h0 calls = Some h -> own_ok psh h).
  { induction calls as [|c r IH]; simpl; intros h0 h O H; [inversion H; subst; assumption|].
    destruct (l_alloc psh h0 (lc_ptr c) (lc_osize c) (lc_nsize c) (lc_span c) (lc_count c)) as [[[[h1 p] us] mv]| | | | |] eqn:L;
      try discriminate.
    eapply IH; [|eassumption]. eapply own_ok_l_alloc; eassumption. }
  intros h H. apply (G heap_empty h); [apply own_ok_empty | assumption].
Qed.

(* ---- consequences for live blocks ---- *)
(* blocks of two different size classes never overlap: their spans differ *)
Theorem blocks_of_different_classes_disjoint : forall psh h c1 c2 s1 i1 s2 i2, own_ok psh h ->
  class_owns h c1 s1 -> class_owns h c2 s2 -> c1 <> c2 -> valid_class c1 -> valid_class c2 ->
  0 <= i1 < class_bc c1 -> 0 <= i2 < class_bc c2 ->
  let a1 := address s1 (block_offset (class_bs c1) i1) in let a2 := address s2 (block_offset (class_bs c2) i2) in
  a1 + class_bs c1 <= a2 \/ a2 + class_bs c2 <= a1.
Proof.
  intros psh h c1 c2 s1 i1 s2 i2 (O1 & _) A1 A2 N V1 V2 R1 R2.
  apply blocks_of_different_spans_disjoint; try assumption.
  intro E. subst s2. apply N. eapply O1; eassumption.
Qed.

(* a block of a size class never overlaps a large/huge block: the class's span is outside the big block's spans *)
Theorem small_block_disjoint_from_big : forall psh h c s i sb b, own_ok psh h ->
  class_owns h c s -> In (sb, b) (h_big h) -> valid_class c -> 0 <= i < class_bc c -> 0 <= big_units psh b ->
  let a := address s (block_offset (class_bs c) i) in
  a + class_bs c <= address sb 0 \/ address (sb + big_units psh b) 0 <= a.
Proof.
  intros psh h c s i sb b (_ & O2 & _) A I V R U a.
  destruct (block_geometry c s i V R) as (_ & G2 & G3 & _).
  pose proof (O2 c s (sb, b) A I) as D. simpl in D. pose proof fact_header as (H1 & _).
  pose proof bounds as (_ & _ & _ & _ & _ & _ & _ & B8).
  unfold a, address in *. destruct D as [D | D].
  - left. assert ((s + 1) * SPAN_SIZE <= sb * SPAN_SIZE) by (apply Z.mul_le_mono_nonneg_r; lia). lia.
  - right. assert ((sb + big_units psh b) * SPAN_SIZE <= s * SPAN_SIZE) by (apply Z.mul_le_mono_nonneg_r; lia). lia.
Qed.

(* two different large/huge blocks occupy disjoint runs of spans *)
Theorem big_blocks_disjoint : forall psh h x y l1 l2, own_ok psh h -> h_big h = l1 ++ x :: l2 -> In y (l1 ++ l2) ->
  big_disjoint psh x y.
Proof.
  intros psh h x y l1 l2 (_ & _ & O3) E I. rewrite E in O3. clear E.
  induction l1 as [|z r IH]; simpl in *.
  - destruct O3 as [P _]. apply P. assumption.
  - destruct O3 as [P Q]. destruct I as [I | I].
    + subst z. specialize (P x ltac:(apply in_or_app; right; left; reflexivity)). unfold big_disjoint in *. lia.
    + apply IH; assumption.
Qed.

(* ---- contents across a moving reallocation ---- *)
Definition mem := Z -> Z.
(* memcpy(block, p, oldsize < new_size ? oldsize : new_size) *)
Definition mem_copy (dst src n : Z) (m : mem) : mem :=
  fun a => if (dst <=? a) && (a <? dst + n) then m (src + (a - dst)) else m a.

Theorem contents_preserved : forall m old new osize nsize usable_new,
  let n := realloc_new_size nsize osize in
  0 <= osize -> 0 <= nsize -> n <= usable_new ->
  (* the new block [new, new+usable_new) does not overlap the old one [old, old+osize) *)
  (new + usable_new <= old \/ old + osize <= new) ->
  let m' := mem_copy new old (copy_len osize n) m in
  (forall i, 0 <= i < Z.min osize nsize -> m' (new + i) = m (old + i)) /\
  (forall a, a < new \/ new + usable_new <= a -> m' a = m a).
Proof.
  intros m old new osize nsize usable_new n H0 H1 Hu D m'.
  destruct (copy_len_spec nsize osize) as (C1 & C2 & C3). fold n in C1, C2, C3.
  split.
  - intros i Hi. unfold m', mem_copy.
    replace ((new <=? new + i) && (new + i <? new + copy_len osize n)) with true.
    + f_equal. lia.
    + symmetry. apply andb_true_intro. split; [apply Z.leb_le | apply Z.ltb_lt]; lia.
  - intros a Ha. unfold m', mem_copy.
    destruct ((new <=? a) && (a <? new + copy_len osize n)) eqn:E; [|reflexivity].
    apply andb_prop in E. destruct E as [E1 E2]. apply Z.leb_le in E1. apply Z.ltb_lt in E2. lia.
Qed.

(* ---- the span layer supplies spans the heap accepts ----
   If every span the heap owns is one of the OTHER span objects of a span-layer state (coupling), then
   a span object of that state is never refused: the model's in-use check (CErrOracle) cannot fire
   for spans that come out of the span layer of ProofsSpans.v, whatever the history of mapping,
   carving, caching and reuse was. *)
Lemma pairwise_mid : forall l1 o l2 x, pairwise obj_disjoint (l1 ++ o :: l2) -> In x (l1 ++ l2) -> obj_disjoint o x.
Proof.
  induction l1 as [|z r IH]; simpl; intros o l2 x P I.
  - destruct P as [P _]. apply P. assumption.
  - destruct P as [P Q]. destruct I as [I | I].
    + subst z. apply obj_disjoint_sym. apply P. apply in_or_app. right. left. reflexivity.
    + eapply IH; eassumption.
Qed.

Theorem span_layer_supplies_accepted_span : forall psh h ss l1 o l2,
  pairwise obj_disjoint (objs ss) -> objs ss = l1 ++ o :: l2 ->
  (forall c cs s v, In (c, cs) (h_classes h) -> In (s, v) (c_spans cs) ->
     exists x, In x (l1 ++ l2) /\ so_start x = s /\ so_count x = 1) ->
  (forall kb, In kb (h_big h) -> exists x, In x (l1 ++ l2) /\ so_start x = fst kb /\ so_count x = big_units psh (snd kb)) ->
  range_in_use psh h (so_start o) (so_count o) = false.
Proof.
  intros psh h ss l1 o l2 P E C B. rewrite E in P. unfold range_in_use. apply orb_false_intro.
  - destruct (existsb _ (h_classes h)) eqn:X; [|reflexivity]. exfalso.
    apply existsb_exists in X. destruct X as ([c cs] & I & X). simpl in X.
    apply existsb_exists in X. destruct X as ([s' v] & I2 & X). simpl in X.
    apply andb_prop in X. destruct X as [X1 X2]. apply Z.leb_le in X1. apply Z.ltb_lt in X2.
    destruct (C c cs s' v I I2) as (x & Ix & S1 & S2). pose proof (pairwise_mid _ _ _ _ P Ix) as D.
    unfold obj_disjoint in D. lia.
  - destruct (existsb _ (h_big h)) eqn:X; [|reflexivity]. exfalso.
    apply existsb_exists in X. destruct X as (kb & I & X). apply andb_prop in X. destruct X as [X1 X2].
    apply Z.ltb_lt in X1, X2. destruct (B kb I) as (x & Ix & S1 & S2). pose proof (pairwise_mid _ _ _ _ P Ix) as D.
    unfold obj_disjoint in D. lia.
Qed.

(* ---- one step of the combined machine: a span taken from the span layer is never refused ----
   coupling: every span the heap owns is one of the OTHER span objects (1 span for a class span, big_units
   for a large/huge block).  Under it, and when the span object has the shape the request needs, the
   model's heap_allocate does not answer CErrOracle: the environment assumption of the heap-level
   theorems is discharged for spans that come out of ProofsSpans.v's machine. *)
Definition coupled (psh : Z) (h : heap) (others : list sobj) : Prop :=
  (forall c cs s v, In (c, cs) (h_classes h) -> In (s, v) (c_spans cs) ->
     exists x, In x others /\ so_start x = s /\ so_count x = 1) /\
  (forall kb, In kb (h_big h) -> exists x, In x others /\ so_start x = fst kb /\ so_count x = big_units psh (snd kb)).

Theorem heap_allocate_not_refused : forall psh h ss l1 o l2 size,
  pairwise obj_disjoint (objs ss) -> objs ss = l1 ++ o :: l2 -> coupled psh h (l1 ++ l2) ->
  (* the span object fits the request: one span for a class, at least the needed count for a large block,
     exactly the mapped units for a huge block *)
  match regime_of size with
  | Small | Medium => so_count o = 1
  | Large => large_span_count size <= so_count o <= LARGE_CLASS_COUNT
  | Huge => match huge_request psh size with Some np => so_count o = big_units psh (BHuge np) | None => True end
  end ->
  heap_allocate psh h size (so_start o) (so_count o) <> CErrOracle.
Proof.
  intros psh h ss l1 o l2 size P E (C1 & C2) Shape.
  assert (R : range_in_use psh h (so_start o) (so_count o) = false)
    by (eapply span_layer_supplies_accepted_span; eassumption).
  unfold heap_allocate.
  assert (SM : forall c, so_count o = 1 ->
    match class_alloc (class_bc c) (chunk_of psh (class_bs c) (class_bc c)) (cl_lookup c (h_classes h)) (so_start o) with
    | COk (cs', (s0, i), usedfresh) =>
        if usedfresh && range_in_use psh h (so_start o) 1 then CErrOracle
        else COk (mk_heap (cl_update c cs' (h_classes h)) (h_big h), s0, block_offset (class_bs c) i, class_bs c)
    | CErrOracle => CErrOracle | CErrCorrupt => CErrCorrupt
    | CErrBadFree => CErrBadFree | CErrUnmodelled => CErrUnmodelled | CNull => CNull
    end <> CErrOracle).
  { intros c One. rewrite One in R.
    destruct (class_alloc (class_bc c) (chunk_of psh (class_bs c) (class_bc c)) (cl_lookup c (h_classes h)) (so_start o))
      as [[[cs' [s0 i]] uf]| | | | |] eqn:A; try discriminate.
    - rewrite R. rewrite andb_false_r. discriminate.
    - (* the class machine itself refuses only a span it already owns: impossible under the coupling *)
      exfalso. unfold class_alloc in A.
      destruct (c_hfl (cl_lookup c (h_classes h))); [|discriminate].
      destruct (c_partial (cl_lookup c (h_classes h))) as [|p pr].
      + destruct (sp_lookup (so_start o) (c_spans (cl_lookup c (h_classes h)))) as [v|] eqn:L; [|discriminate].
        assert (In (c, cl_lookup c (h_classes h)) (h_classes h)) by (eapply cl_lookup_in; rewrite L; discriminate).
        apply sp_lookup_in in L. destruct (C1 _ _ _ _ H L) as (x & Ix & S1 & S2).
        rewrite E in P. pose proof (pairwise_mid _ _ _ _ P Ix) as D. unfold obj_disjoint in D. lia.
      + destruct (sp_lookup p (c_spans (cl_lookup c (h_classes h)))) as [st|]; [|discriminate].
        destruct (sp_free st); discriminate. }
  destruct (regime_of size).
  - apply SM. assumption.
  - apply SM. assumption.
  - destruct Shape as [S1 S2].
    replace (so_count o <? large_span_count size) with false by (symmetry; apply Z.ltb_ge; lia).
    replace (LARGE_CLASS_COUNT <? so_count o) with false by (symmetry; apply Z.ltb_ge; lia).
    rewrite R. simpl. discriminate.
  - destruct (huge_request psh size) as [np|]; [|discriminate]. rewrite <- Shape. rewrite R. discriminate.
Qed.
