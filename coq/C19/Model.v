(* Executable model of src/srpmalloc/srpmalloc.c as the bundled Lua state uses it
   (src/lua/lua.c L_alloc: nsize = 0 -> rpfree(ptr); else rpaligned_realloc(ptr,16,nsize,osize,0)).

   Mirrored one function at a time (names in comments).  size_t arithmetic is [mod 2^64]
   explicitly ([u64]); the uint32_t/uint16_t fields are cut with [u32]/[u16] where the C code
   stores into them.  Addresses are (span number, offset in span): address = span * SPAN_SIZE +
   offset, which is what "spans are SPAN_SIZE-aligned" means.

   Outside the model (named in DESIGN.md C19): which span the caches / reserve / OS hand out when a
   new span is needed.  That choice is an input of the model ([e_span], [e_count]); the model
   refuses it with [ErrOracle] when the span is still in use. *)
From Coq Require Export ZArith List Lia Bool.
Export ListNotations.
From C19 Require Export Gen.
Local Open Scope Z_scope.

Definition W64 : Z := 2 ^ 64.
Definition u64 (x : Z) : Z := x mod W64.
Definition u32 (x : Z) : Z := x mod 2 ^ 32.
Definition u16 (x : Z) : Z := x mod 2 ^ 16.

Definition zrange (lo : Z) (n : nat) : list Z := map (fun k => lo + Z.of_nat k) (seq 0 n).

(* ------------------------------------------------------------------ *)
(* size class table: rpmalloc_initialize_config + _rpmalloc_adjust_size_class *)

Record sclass := mk_sclass { sc_bs : Z; sc_bc : Z; sc_idx : Z }.
Definition sc_zero := mk_sclass 0 0 0.

(* an out-of-range read yields block size 0, which no theorem about a positive request can
   accept: the in-range facts are proved, not assumed *)
Definition tbl_get (t : list sclass) (i : Z) : sclass := nth (Z.to_nat i) t sc_zero.
Fixpoint tbl_set_nat (t : list sclass) (n : nat) (e : sclass) : list sclass :=
  match t, n with
  | [], _ => []
  | _ :: r, O => e :: r
  | x :: r, S n' => x :: tbl_set_nat r n' e
  end.
Definition tbl_set (t : list sclass) (i : Z) (e : sclass) := tbl_set_nat t (Z.to_nat i) e.

(* while (prevclass > 0) { --prevclass; if (count equal) memcpy(prev, iclass) else break; }
   fuel = iclass is exact: prevclass starts at iclass and decreases by one per turn *)
Fixpoint merge_prev (fuel : nat) (t : list sclass) (prev : Z) (e : sclass) : list sclass :=
  match fuel with
  | O => t
  | S f =>
    if 0 <? prev then
      let p := prev - 1 in
      if sc_bc (tbl_get t p) =? sc_bc e then merge_prev f (tbl_set t p e) p e else t
    else t
  end.

Definition adjust (t : list sclass) (iclass : Z) : list sclass :=
  let bs := sc_bs (tbl_get t iclass) in
  let e := mk_sclass bs (u16 ((SPAN_SIZE - SPAN_HEADER_SIZE) / bs)) (u16 iclass) in
  let t1 := tbl_set t iclass e in
  if SMALL_CLASS_COUNT <=? iclass then merge_prev (Z.to_nat iclass) t1 iclass e else t1.

Definition set_bs (t : list sclass) (i bs : Z) : list sclass :=
  let o := tbl_get t i in tbl_set t i (mk_sclass (u32 bs) (sc_bc o) (sc_idx o)).

Definition init_small_step (t : list sclass) (i : Z) : list sclass :=
  adjust (set_bs t i (if i =? 0 then SMALL_GRANULARITY else i * SMALL_GRANULARITY)) i.

(* _memory_medium_size_limit *)
Definition medium_limit : Z := Z.min (Z.shiftr (SPAN_SIZE - SPAN_HEADER_SIZE) 1) MEDIUM_SIZE_LIMIT.

Definition init_medium_step (st : list sclass * bool) (i : Z) : list sclass * bool :=
  let (t, stop) := st in
  if stop then st else
  let size := SMALL_SIZE_LIMIT + (i + 1) * MEDIUM_GRANULARITY in
  if medium_limit <? size then (t, true)
  else (adjust (set_bs t (SMALL_CLASS_COUNT + i) size) (SMALL_CLASS_COUNT + i), false).

Definition size_table : list sclass :=
  let t0 := repeat sc_zero (Z.to_nat SIZE_CLASS_COUNT) in
  let t1 := fold_left init_small_step (zrange 0 (Z.to_nat SMALL_CLASS_COUNT)) t0 in
  fst (fold_left init_medium_step (zrange 0 (Z.to_nat MEDIUM_CLASS_COUNT)) (t1, false)).

Definition class_bs (c : Z) : Z := sc_bs (tbl_get size_table c).
Definition class_bc (c : Z) : Z := sc_bc (tbl_get size_table c).

(* ------------------------------------------------------------------ *)
(* class selection: _rpmalloc_allocate, _rpmalloc_allocate_small/medium/large/huge *)

Inductive regime := Small | Medium | Large | Huge.
Definition regime_of (size : Z) : regime :=
  if size <=? SMALL_SIZE_LIMIT then Small
  else if size <=? medium_limit then Medium
  else if size <=? LARGE_SIZE_LIMIT then Large else Huge.

Definition small_class (size : Z) : Z :=
  u32 (Z.shiftr (u64 (size + (SMALL_GRANULARITY - 1))) SMALL_GRANULARITY_SHIFT).
Definition medium_base (size : Z) : Z :=
  u32 (SMALL_CLASS_COUNT + Z.shiftr (u64 (size - (SMALL_SIZE_LIMIT + 1))) MEDIUM_GRANULARITY_SHIFT).
Definition medium_class (size : Z) : Z := sc_idx (tbl_get size_table (medium_base size)).

Definition round_up_count (total shift : Z) : Z :=
  Z.shiftr total shift + (if Z.land total (2 ^ shift - 1) =? 0 then 0 else 1).
(* size += SPAN_HEADER_SIZE; span_count = size >> shift; if (size & (span_size-1)) ++span_count *)
Definition large_span_count (size : Z) : Z := round_up_count (u64 (size + SPAN_HEADER_SIZE)) SPAN_SIZE_SHIFT.
Definition huge_pages (psh size : Z) : Z := round_up_count (u64 (size + SPAN_HEADER_SIZE)) psh.

(* _rpmalloc_allocate_huge: a request whose size + header, rounded up to a page, does not fit in
   size_t is refused (returns 0) when the guard is present in the source *)
Definition huge_request (psh size : Z) : option Z :=
  if HUGE_OVERFLOW_GUARD && (W64 - 1 - SPAN_HEADER_SIZE - 2 ^ psh <? size) then None
  else Some (huge_pages psh size).

(* block geometry inside a span *)
Definition block_offset (bs idx : Z) : Z := SPAN_HEADER_SIZE + idx * bs.
Definition address (span off : Z) : Z := span * SPAN_SIZE + off.

(* _rpmalloc_usable_size for a pointer at the start of its block *)
Inductive blockinfo := BSmall (cls : Z) | BLarge (spans : Z) | BHuge (pages : Z).
Definition usable_size (psh : Z) (b : blockinfo) : Z :=
  match b with
  | BSmall c => class_bs c
  | BLarge n => n * SPAN_SIZE - SPAN_HEADER_SIZE
  | BHuge n => n * 2 ^ psh - SPAN_HEADER_SIZE
  end.

(* ------------------------------------------------------------------ *)
(* _rpmalloc_reallocate with flags = 0 and p at the start of its block *)

Definition span_mask : Z := u64 (Z.lnot (SPAN_SIZE - 1)).

Definition realloc_inplace (psh : Z) (b : blockinfo) (size oldsize : Z) : bool :=
  match b with
  | BSmall c => size <=? class_bs c
  | BLarge cur =>
    let total := u64 (size + SPAN_HEADER_SIZE) in
    (* sic: total_size & (_memory_span_mask - 1), not & (span_size - 1) *)
    let ns := Z.shiftr total SPAN_SIZE_SHIFT + (if Z.land total (u64 (span_mask - 1)) =? 0 then 0 else 1) in
    (ns <=? cur) && (oldsize / 2 <=? total)
  | BHuge cur =>
    let np := round_up_count (u64 (size + SPAN_HEADER_SIZE)) psh in
    (np <=? cur) && (cur / 2 <=? np)
  end.

(* if (!oldsize) oldsize = usable (p == block) *)
Definition effective_oldsize (psh : Z) (b : blockinfo) (oldsize : Z) : Z :=
  if oldsize =? 0 then
    match b with
    | BSmall c => class_bs c
    | BLarge n => u64 (n * SPAN_SIZE - SPAN_HEADER_SIZE)
    | BHuge n => u64 (n * 2 ^ psh - SPAN_HEADER_SIZE)
    end
  else oldsize.

Definition realloc_new_size (size oldsize : Z) : Z :=
  let lb := u64 (oldsize + Z.shiftr oldsize 2 + Z.shiftr oldsize 3) in
  if lb <? size then size else if oldsize <? size then lb else size.
Definition copy_len (oldsize new_size : Z) : Z := if oldsize <? new_size then oldsize else new_size.

(* ------------------------------------------------------------------ *)
(* one size class of the heap: heap_size_class_t.free_list, .partial_span, and the spans that
   currently belong to the class (span_t.free_list, free_list_limit, used_count).
   The deferred list is always empty (single thread), list_size = 0. *)

Record span_st := mk_span { sp_free : list Z; sp_limit : Z; sp_used : Z }.
Record class_st := mk_class { c_hfl : list (Z * Z); c_partial : list Z; c_spans : list (Z * span_st) }.
Definition class_empty : class_st := mk_class [] [] [].

Fixpoint sp_lookup (s : Z) (l : list (Z * span_st)) : option span_st :=
  match l with
  | [] => None
  | (k, v) :: r => if k =? s then Some v else sp_lookup s r
  end.
Fixpoint sp_update (s : Z) (st : span_st) (l : list (Z * span_st)) : list (Z * span_st) :=
  match l with
  | [] => []
  | (k, v) :: r => if k =? s then (k, st) :: r else (k, v) :: sp_update s st r
  end.
Fixpoint sp_remove (s : Z) (l : list (Z * span_st)) : list (Z * span_st) :=
  match l with
  | [] => []
  | (k, v) :: r => if k =? s then sp_remove s r else (k, v) :: sp_remove s r
  end.
(* _rpmalloc_span_double_link_list_remove *)
Fixpoint zremove (s : Z) (l : list Z) : list Z :=
  match l with
  | [] => []
  | x :: r => if x =? s then r else x :: zremove s r
  end.

(* _rpmalloc_span_is_fully_utilized *)
Definition fully (bc : Z) (st : span_st) : bool :=
  match sp_free st with [] => bc <=? sp_limit st | _ :: _ => false end.

Inductive cres (A : Type) : Type :=
| COk (a : A) | CErrOracle | CErrCorrupt | CErrBadFree | CErrUnmodelled
| CNull.   (* the allocator returns NULL (request refused); nothing changed *)
Arguments COk {A} a.
Arguments CErrOracle {A}.
Arguments CErrCorrupt {A}.
Arguments CErrBadFree {A}.
Arguments CErrUnmodelled {A}.
Arguments CNull {A}.

(* free_list_partial_init: number of blocks put in play (first one returned, rest linked),
   in closed form: the while loop counts the j >= 2 with start + j*bs < block_end *)
Definition cdiv (a b : Z) : Z := (a + b - 1) / b.
Definition pinit_count (psz bs start page_start count : Z) : Z :=
  if 1 <? count then
    let be0 := start + bs * count in
    let be := if bs <? Z.shiftr psz 1
              then (if page_start + psz <? be0 then page_start + psz else be0) else be0 in
    Z.max 2 (cdiv (be - start) bs)
  else count.
(* block_start = span + HEADER + limit*bs; page_start = block_start & ~(page_size-1)
   (for a new span: page_start = span, which is the same thing since HEADER < MIN_PAGE_SIZE) *)
Definition chunk_of (psh bs bc limit : Z) : Z :=
  let psz := 2 ^ psh in
  let start := SPAN_HEADER_SIZE + limit * bs in
  pinit_count psz bs start (start - start mod psz) (bc - limit).

Section ClassMachine.
  Variable bc : Z.                 (* size_class->block_count *)
  Variable chunk : Z -> Z.         (* blocks initialised when the limit stands at the argument *)

  (* _rpmalloc_allocate_small/medium + _rpmalloc_allocate_from_heap_fallback +
     _rpmalloc_span_initialize_new.  [fresh] = the span the cache layers would supply.
     Result: new state, (span, index), whether [fresh] was consumed. *)
  Definition class_alloc (cs : class_st) (fresh : Z) : cres (class_st * (Z * Z) * bool) :=
    match c_hfl cs with
    | b :: r => COk (mk_class r (c_partial cs) (c_spans cs), b, false)
    | [] =>
      match c_partial cs with
      | s :: pr =>
        match sp_lookup s (c_spans cs) with
        | None => CErrCorrupt
        | Some st =>
          let '(idx, hfl', limit') :=
            match sp_free st with
            | i :: fr => (i, map (pair s) fr, sp_limit st)
            | [] => let k := chunk (sp_limit st) in
                    (sp_limit st, map (pair s) (zrange (sp_limit st + 1) (Z.to_nat (k - 1))),
                     u32 (sp_limit st + k))
            end in
          let st' := mk_span [] limit' limit' in
          let part' := if fully bc st' then pr else c_partial cs in
          COk (mk_class hfl' part' (sp_update s st' (c_spans cs)), (s, idx), false)
        end
      | [] =>
        match sp_lookup fresh (c_spans cs) with
        | Some _ => CErrOracle
        | None =>
          let k := chunk 0 in
          let st' := if k <? bc then mk_span [] k k else mk_span [] k bc in
          let part' := if k <? bc then [fresh] else [] in
          COk (mk_class (map (pair fresh) (zrange 1 (Z.to_nat (k - 1)))) part'
                        ((fresh, st') :: c_spans cs), (fresh, 0), true)
        end
      end
    end.

  (* _rpmalloc_deallocate_direct_small_or_medium (+ release to cache when used_count reaches 0) *)
  Definition class_free (cs : class_st) (b : Z * Z) : cres class_st :=
    let (s, i) := b in
    match sp_lookup s (c_spans cs) with
    | None => CErrBadFree
    | Some st =>
      let wasfull := fully bc st in
      let used0 := if wasfull then bc else sp_used st in
      let part1 := if wasfull then s :: c_partial cs else c_partial cs in
      let used1 := u32 (used0 - 1) in
      if used1 =? 0
      then COk (mk_class (c_hfl cs) (zremove s part1) (sp_remove s (c_spans cs)))
      else COk (mk_class (c_hfl cs) part1
                  (sp_update s (mk_span (i :: sp_free st) (sp_limit st) used1) (c_spans cs)))
    end.
End ClassMachine.

(* ------------------------------------------------------------------ *)
(* the whole heap as L_alloc sees it *)

Record heap := mk_heap { h_classes : list (Z * class_st); h_big : list (Z * blockinfo) }.
Definition heap_empty : heap := mk_heap [] [].

Fixpoint cl_lookup (c : Z) (l : list (Z * class_st)) : class_st :=
  match l with
  | [] => class_empty
  | (k, v) :: r => if k =? c then v else cl_lookup c r
  end.
Fixpoint cl_update (c : Z) (v : class_st) (l : list (Z * class_st)) : list (Z * class_st) :=
  match l with
  | [] => [(c, v)]
  | (k, w) :: r => if k =? c then (k, v) :: r else (k, w) :: cl_update c v r
  end.
Fixpoint big_lookup (s : Z) (l : list (Z * blockinfo)) : option blockinfo :=
  match l with
  | [] => None
  | (k, v) :: r => if k =? s then Some v else big_lookup s r
  end.
Fixpoint big_remove (s : Z) (l : list (Z * blockinfo)) : list (Z * blockinfo) :=
  match l with
  | [] => []
  | (k, v) :: r => if k =? s then r else (k, v) :: big_remove s r
  end.

(* the class whose span table holds span s (the C code reads span->size_class) *)
Fixpoint find_class (s : Z) (l : list (Z * class_st)) : option Z :=
  match l with
  | [] => None
  | (k, v) :: r => match sp_lookup s (c_spans v) with Some _ => Some k | None => find_class s r end
  end.

(* number of SPAN_SIZE units covered by a large / huge block *)
Definition big_units (psh : Z) (b : blockinfo) : Z :=
  match b with
  | BSmall _ => 1
  | BLarge n => n
  | BHuge n => cdiv (n * 2 ^ psh) SPAN_SIZE
  end.
(* is any span number of [s, s+n) in use by a class or by a large/huge block? *)
Definition range_in_use (psh : Z) (h : heap) (s n : Z) : bool :=
  existsb (fun kv => existsb (fun sv => (s <=? fst sv) && (fst sv <? s + n)) (c_spans (snd kv))) (h_classes h)
  || existsb (fun kb => (fst kb <? s + n) && (s <? fst kb + big_units psh (snd kb))) (h_big h).

Definition class_of (size : Z) : option Z :=
  match regime_of size with
  | Small => Some (small_class size)
  | Medium => Some (medium_class size)
  | _ => None
  end.

(* result of an allocation: heap, span, offset, usable size *)
Definition heap_allocate (psh : Z) (h : heap) (size e_span e_count : Z) : cres (heap * Z * Z * Z) :=
  match regime_of size with
  | Small | Medium =>
    let c := match regime_of size with Small => small_class size | _ => medium_class size end in
    let bs := class_bs c in let bc := class_bc c in
    match class_alloc bc (chunk_of psh bs bc) (cl_lookup c (h_classes h)) e_span with
    | COk (cs', (s, i), usedfresh) =>
      if usedfresh && range_in_use psh h e_span 1 then CErrOracle
      else COk (mk_heap (cl_update c cs' (h_classes h)) (h_big h), s, block_offset bs i, bs)
    | CErrOracle => CErrOracle
    | CErrCorrupt => CErrCorrupt
    | CErrBadFree => CErrBadFree
    | CErrUnmodelled => CErrUnmodelled
    | CNull => CNull
    end
  | Large =>
    let need := large_span_count size in
    if (e_count <? need) || (LARGE_CLASS_COUNT <? e_count) || range_in_use psh h e_span e_count then CErrOracle
    else COk (mk_heap (h_classes h) ((e_span, BLarge e_count) :: h_big h), e_span, SPAN_HEADER_SIZE,
              usable_size psh (BLarge e_count))
  | Huge =>
    match huge_request psh size with
    | None => CNull
    | Some np =>
      if range_in_use psh h e_span (big_units psh (BHuge np)) then CErrOracle
      else COk (mk_heap (h_classes h) ((e_span, BHuge np) :: h_big h), e_span, SPAN_HEADER_SIZE,
                usable_size psh (BHuge np))
    end
  end.

Definition block_info_of (h : heap) (span : Z) : option blockinfo :=
  match big_lookup span (h_big h) with
  | Some b => Some b
  | None => match find_class span (h_classes h) with Some c => Some (BSmall c) | None => None end
  end.

(* _rpmalloc_deallocate for a pointer at the start of its block *)
Definition heap_free (h : heap) (span off : Z) : cres heap :=
  match block_info_of h span with
  | None => CErrBadFree
  | Some (BSmall c) =>
    let bs := class_bs c in
    if (off <? SPAN_HEADER_SIZE) || negb ((off - SPAN_HEADER_SIZE) mod bs =? 0) then CErrBadFree else
    match class_free (class_bc c) (cl_lookup c (h_classes h)) (span, (off - SPAN_HEADER_SIZE) / bs) with
    | COk cs' => COk (mk_heap (cl_update c cs' (h_classes h)) (h_big h))
    | CErrOracle => CErrOracle
    | CErrCorrupt => CErrCorrupt
    | CErrBadFree => CErrBadFree
    | CErrUnmodelled => CErrUnmodelled
    | CNull => CNull
    end
  | Some _ => COk (mk_heap (h_classes h) (big_remove span (h_big h)))
  end.

(* L_alloc.  ptr = None is the NULL pointer.  Result: heap, returned pointer (None after a free, or
   when a new block was refused: then the heap and the old block are unchanged and the flag is true),
   usable size, moved-or-new flag (false = same block returned in place). *)
Definition l_alloc (psh : Z) (h : heap) (ptr : option (Z * Z)) (osize nsize e_span e_count : Z)
  : cres (heap * option (Z * Z) * Z * bool) :=
  if nsize =? 0 then
    match ptr with
    | None => COk (h, None, 0, false)
    | Some (s, o) => match heap_free h s o with
                     | COk h' => COk (h', None, 0, false)
                     | CErrOracle => CErrOracle | CErrCorrupt => CErrCorrupt
                     | CErrBadFree => CErrBadFree | CErrUnmodelled => CErrUnmodelled
                     | CNull => CNull
                     end
    end
  else if negb (LALLOC_ALIGN <=? SMALL_GRANULARITY) || negb (LALLOC_FLAGS =? 0) then CErrUnmodelled
  else
    let fresh_alloc (oldsize : Z) :=
      let new_size := realloc_new_size nsize oldsize in
      match heap_allocate psh h new_size e_span e_count with
      | COk (h1, s, o, us) =>
        match ptr with
        | None => COk (h1, Some (s, o), us, true)
        | Some (ps, po) => match heap_free h1 ps po with
                           | COk h2 => COk (h2, Some (s, o), us, true)
                           | CErrOracle => CErrOracle | CErrCorrupt => CErrCorrupt
                           | CErrBadFree => CErrBadFree | CErrUnmodelled => CErrUnmodelled
                           | CNull => CNull
                           end
        end
      | CErrOracle => CErrOracle | CErrCorrupt => CErrCorrupt
      | CErrBadFree => CErrBadFree | CErrUnmodelled => CErrUnmodelled
      | CNull => COk (h, None, 0, true)       (* if (p && block) ... ; return block (NULL) *)
      end in
    match ptr with
    | None => fresh_alloc 0
    | Some (ps, po) =>
      match block_info_of h ps with
      | None => CErrBadFree
      | Some b =>
        let oldsize := effective_oldsize psh b osize in
        if realloc_inplace psh b nsize oldsize then COk (h, Some (ps, po), usable_size psh b, false)
        else fresh_alloc oldsize
      end
    end.

(* entries of the table for the driver: (block_size, block_count, class_idx) *)
Definition table_row (i : Z) : Z * Z * Z :=
  let e := tbl_get size_table i in (sc_bs e, sc_bc e, sc_idx e).
