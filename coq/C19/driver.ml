(* Replays a trace of harness/C19/harness.c through the extracted model.
   Input lines:
     K page_size_shift <n>        (other K lines are ignored here; Python compares them with Gen.v)
     T                            print the model's size class table: "C i bs bc idx" per class
     O op slot osize nsize spanno_hex off usable sc bs bc spancount inplace
                                  one L_alloc call as the implementation performed it; spanno and
                                  spancount are used ONLY as the environment's answer when the model
                                  needs a new span (e_span / e_count)
     Z                            rpmalloc_finalize happened: restart from the empty heap
     SX | SM n base mc | SF n | ST start from to | SU start | SD   span-layer machine (ProofsSpans.v): reset, map, carve from
                                  the reserve, status change, unmap, dump state; a refused operation prints REFUSED
     Q kind a b c                 point queries: regime/class/large_span_count/... (see below)
   Output per O line:  "P op span_hex off usable inplace"  or  "E op <error>"; after a free "P op 0 0 0 0". *)
open Model
open Zutil

let psh = ref (z_of_int 12)
let heap = ref heap_empty
let slots : (int, z * z) Hashtbl.t = Hashtbl.create 1024
let dead = ref false

let err_name = function
  | CErrOracle -> "ErrOracle" | CErrCorrupt -> "ErrCorrupt" | CErrBadFree -> "ErrBadFree"
  | CErrUnmodelled -> "ErrUnmodelled" | CNull -> "Null" | COk _ -> "ok"

let regime_name = function Small -> "small" | Medium -> "medium" | Large -> "large" | Huge -> "huge"

(* ---- span layer (coq/C19/ProofsSpans.v) ---- *)
let sstate = ref sempty
let st_of = function "U" -> InUse | "C" -> Cached | "R" -> Reserved | s -> failwith ("status " ^ s)
let st_name = function InUse -> "U" | Cached -> "C" | Reserved -> "R"
let span_apply line r = match r with Some s -> sstate := s | None -> Printf.printf "REFUSED %s\n" line
let span_dump_of (ss : sstate) =
  let rs = List.sort compare (List.map (fun g -> Printf.sprintf "R %s %d %d" (hex_of_z g.rg_base) (int_of_z g.rg_total) (int_of_z g.rg_remaining)) ss.regions) in
  let os = List.sort compare (List.map (fun o -> Printf.sprintf "O %s %d %s %s" (hex_of_z o.so_start) (int_of_z o.so_count) (hex_of_z o.so_master) (st_name o.so_status)) ss.objs) in
  print_string ("D " ^ String.concat ";" (rs @ os)); print_newline ()
let span_dump () = span_dump_of !sstate

(* ---- combined machine (ProofsCombined.v: cstep): heap model ON TOP of the span model, small/medium requests ----
   KC mc        start from (empty heap, the span state built so far by SM/SF/ST), map count mc
   CO <fields of an O line>   one L_alloc call of the implementation; the supply the history names is read off the
                implementation's answer e (the span its block lives in): the cached span at e, the reserve when it
                starts at e, a fresh mapping at e when e is unknown to the span model, and - when e is a span the
                model already has in use, so no span should be needed - a fresh mapping beyond every live mapping
   CD           dump the span component *)
let cst : cstate option ref = ref None
let cmc = ref (z_of_int 64)
let cslots : (int, z * z) Hashtbl.t = Hashtbl.create 1024
let zeq a b = (hex_of_z a = hex_of_z b)
let choose_supply (ss : sstate) (e : z) : supply =
  match List.find_opt (fun o -> zeq o.so_start e) ss.objs with
  | Some o when o.so_status = Cached -> FromCache e
  | Some o when o.so_status = Reserved -> FromReserve
  | Some _ ->
    let top = List.fold_left (fun acc g -> max acc (int_of_z g.rg_base + int_of_z g.rg_total)) 0 ss.regions in
    FromMap (z_of_int top)
  | None -> (match reserve_of ss with
             | Some r when zeq r.so_start e -> FromReserve
             | _ -> FromMap e)
let cres_name = function CDone (_, _) -> "done" | CRefusedByHeap -> "refused-by-heap" | CSupplyFailed -> "supply-failed" | CBadCall -> "bad-call"
let combined_op op slot nsize spanno =
  match !cst with
  | None -> Printf.printf "CE %s stopped\n" op
  | Some st ->
    let slot = int_of_string slot and nsize = int_of_string nsize in
    let ptr = Hashtbl.find_opt cslots slot in
    let step cop ok =
      match cstep !psh !cmc st cop with
      | CDone (st', ret) -> cst := Some st'; ok ret
      | e -> cst := None; Printf.printf "CE %s %s\n" op (cres_name e) in
    match ptr with
    | None when nsize = 0 -> Printf.printf "CP %s 0 0 0\n" op
    | None ->
      if nsize > int_of_z medium_limit then (cst := None; Printf.printf "CE %s out-of-scope\n" op)
      else step (CAllocSM (z_of_int nsize, choose_supply st.cs_spans (z_of_hex spanno)))
             (function Some ((s, o), us) -> Hashtbl.replace cslots slot (s, o); Printf.printf "CP %s %s %d %d\n" op (hex_of_z s) (int_of_z o) (int_of_z us)
                     | None -> Printf.printf "CE %s no-block\n" op)
    | Some (s, o) when nsize = 0 -> step (CFreeSM (s, o)) (fun _ -> Hashtbl.remove cslots slot; Printf.printf "CP %s 0 0 0\n" op)
    | Some _ -> cst := None; Printf.printf "CE %s out-of-scope\n" op

let () =
  iter_lines (fun line ->
    match split_ws line with
    | [ "K"; "page_size_shift"; v ] -> psh := z_of_int (int_of_string v)
    | "K" :: _ -> ()
    | [ "Z" ] -> heap := heap_empty; Hashtbl.reset slots; dead := false
    | [ "T" ] ->
      let n = int_of_z sIZE_CLASS_COUNT in
      for i = 0 to n - 1 do
        let ((bs, bc), idx) = table_row (z_of_int i) in
        Printf.printf "C %d %d %d %d\n" i (int_of_z bs) (int_of_z bc) (int_of_z idx)
      done
    | [ "O"; op; slot; osize; nsize; spanno; _off; _us; _sc; _bs; _bc; spancount; _inpl ] ->
      if !dead then Printf.printf "E %s stopped\n" op
      else begin
        let slot = int_of_string slot in
        let ptr = Hashtbl.find_opt slots slot in
        let r = l_alloc !psh !heap ptr (z_of_int (int_of_string osize)) (z_of_int (int_of_string nsize))
                  (z_of_hex spanno) (z_of_int (int_of_string spancount)) in
        match r with
        | COk (((h, p), us), moved) ->
          heap := h;
          (match p with
           | None ->
             (* after a free the slot is empty; a refused request (nsize > 0) leaves the old block in place *)
             if int_of_string nsize = 0 then Hashtbl.remove slots slot;
             Printf.printf "P %s 0 0 0 0\n" op
           | Some (s, o) ->
             Hashtbl.replace slots slot (s, o);
             Printf.printf "P %s %s %d %d %d\n" op (hex_of_z s) (int_of_z o) (int_of_z us) (if moved then 0 else 1))
        | e -> dead := true; Printf.printf "E %s %s\n" op (err_name e)
      end
    | [ "Q"; "size"; v ] ->
      (* regime, class (or -1), block size (or 0), large span count, huge pages for one request size (hex) *)
      let s = z_of_hex v in
      let cls = match class_of s with Some c -> int_of_z c | None -> -1 in
      let bs = match class_of s with Some c -> int_of_z (class_bs c) | None -> 0 in
      Printf.printf "Q size %s %s %d %d %s %s\n" v (regime_name (regime_of s)) cls bs
        (hex_of_z (large_span_count s)) (hex_of_z (huge_pages !psh s))
    | [ "SX" ] -> sstate := sempty
    | [ "SM"; n; base; mc ] -> span_apply line (op_map (z_of_int (int_of_string mc)) !sstate (z_of_int (int_of_string n)) (z_of_hex base))
    | [ "SF"; n ] -> span_apply line (op_from_reserve !sstate (z_of_int (int_of_string n)))
    | [ "ST"; s; a; b ] -> span_apply line (op_set_status !sstate (z_of_hex s) (st_of a) (st_of b))
    | [ "SU"; s ] -> span_apply line (op_unmap !sstate (z_of_hex s))
    | [ "SD" ] -> span_dump ()
    | [ "KC"; mc ] -> cmc := z_of_int (int_of_string mc); Hashtbl.reset cslots; cst := Some { cs_heap = heap_empty; cs_spans = !sstate }
    | [ "CO"; op; slot; _osize; nsize; spanno; _off; _us; _sc; _bs; _bc; _spancount; _inpl ] -> combined_op op slot nsize spanno
    | [ "CD" ] -> (match !cst with Some st -> span_dump_of st.cs_spans | None -> print_string "D <stopped>"; print_newline ())
    | [ "Q"; "huge"; v ] ->
      (match huge_request !psh (z_of_hex v) with
       | None -> Printf.printf "Q huge %s refused\n" v
       | Some n -> Printf.printf "Q huge %s pages %s\n" v (hex_of_z n))
    | [ "Q"; "consts" ] ->
      Printf.printf "Q consts SMALL_SIZE_LIMIT=%d MEDIUM_SIZE_LIMIT=%d LARGE_SIZE_LIMIT=%d SIZE_CLASS_COUNT=%d medium_size_limit=%d\n"
        (int_of_z sMALL_SIZE_LIMIT) (int_of_z mEDIUM_SIZE_LIMIT) (int_of_z lARGE_SIZE_LIMIT) (int_of_z sIZE_CLASS_COUNT) (int_of_z medium_limit)
    | [ "Q"; "newsize"; a; b ] ->
      Printf.printf "Q newsize %s %s %s\n" a b (hex_of_z (realloc_new_size (z_of_hex a) (z_of_hex b)))
    | [] -> ()
    | _ -> print_string ("?bad-line " ^ line); print_newline ())
