(* C19: the allocation path of L_alloc as a whole: class selection + span machine + geometry. *)
From Coq Require Import Permutation.
From C19 Require Import Model Proofs ProofsMachine.
Local Open Scope Z_scope.
Ltac Zify.zify_post_hook ::= Z.div_mod_to_equations.

Lemma COk_inj : forall A (a b : A), COk a = COk b -> a = b.
Proof. intros A a b H. inversion H. reflexivity. Qed.
Lemma tuple4_inj : forall A B C D (a a' : A) (b b' : B) (c c' : C) (d d' : D),
  (a, b, c, d) = (a', b', c', d') -> a = a' /\ b = b' /\ c = c' /\ d = d'.
Proof. intros. inversion H. auto. Qed.

Lemma regime_cases : forall size, 0 <= size ->
  match regime_of size with
  | Small => 0 <= size <= SMALL_SIZE_LIMIT
  | Medium => SMALL_SIZE_LIMIT < size <= medium_limit
  | Large => medium_limit < size <= LARGE_SIZE_LIMIT
  | Huge => LARGE_SIZE_LIMIT < size
  end.
Proof.
  intros size H. unfold regime_of.
  destruct (size <=? SMALL_SIZE_LIMIT) eqn:A; [apply Z.leb_le in A; lia | apply Z.leb_gt in A].
  destruct (size <=? medium_limit) eqn:B; [apply Z.leb_le in B; lia | apply Z.leb_gt in B].
  destruct (size <=? LARGE_SIZE_LIMIT) eqn:C; [apply Z.leb_le in C; lia | apply Z.leb_gt in C; lia].
Qed.

Lemma header_aligned : forall s, address s SPAN_HEADER_SIZE mod LALLOC_ALIGN = 0.
Proof.
  intros s. pose proof fact_small_gran as [G S]. pose proof (pow2_pos SMALL_GRANULARITY_SHIFT ltac:(lia)) as P.
  rewrite <- G in P. clear G S.
  pose proof fact_header as (H1 & H2 & H3 & _). pose proof fact_lalloc as (A1 & _ & _ & A4).
  apply Z.mod_divide in H2; [|lia]. apply Z.mod_divide in H3; [|lia]. apply Z.mod_divide in A4; [|lia].
  apply Z.mod_divide; [lia|]. apply Z.divide_trans with SMALL_GRANULARITY; [assumption|].
  unfold address. apply Z.divide_add_r; [apply Z.divide_mul_r; assumption | assumption].
Qed.

(* the class the allocator would use for a small/medium request *)
Definition selected_class (size : Z) : Z :=
  match regime_of size with Small => small_class size | _ => medium_class size end.

Theorem heap_allocate_fits : forall psh h size e_span e_count live h' s off us,
  page_shift_ok psh -> 0 <= size -> size + SPAN_HEADER_SIZE < W64 ->
  (* the size class that serves the request satisfies the span-machine invariant *)
  class_inv (class_bc (selected_class size)) (cl_lookup (selected_class size) (h_classes h)) live ->
  heap_allocate psh h size e_span e_count = COk (h', s, off, us) ->
  size <= us /\ address s off mod LALLOC_ALIGN = 0 /\ SPAN_HEADER_SIZE <= off /\
  (match regime_of size with
   | Small | Medium => off + us <= SPAN_SIZE /\ ~ In (s, (off - SPAN_HEADER_SIZE) / us) live
   | _ => off = SPAN_HEADER_SIZE
   end).
Proof.
  intros psh h size e_span e_count live h' s off us Hp H0 Hw Inv HA.
  pose proof (regime_cases size H0) as RC. unfold heap_allocate in HA. unfold selected_class in Inv.
  assert (SM : forall c, valid_class c -> size <= class_bs c ->
    class_inv (class_bc c) (cl_lookup c (h_classes h)) live ->
    match class_alloc (class_bc c) (chunk_of psh (class_bs c) (class_bc c)) (cl_lookup c (h_classes h)) e_span with
    | COk (cs', (s0, i), usedfresh) =>
        if usedfresh && range_in_use psh h e_span 1 then CErrOracle
        else COk (mk_heap (cl_update c cs' (h_classes h)) (h_big h), s0, block_offset (class_bs c) i, class_bs c)
    | CErrOracle => CErrOracle | CErrCorrupt => CErrCorrupt
    | CErrBadFree => CErrBadFree | CErrUnmodelled => CErrUnmodelled | CNull => CNull
    end = COk (h', s, off, us) ->
    size <= us /\ address s off mod LALLOC_ALIGN = 0 /\ SPAN_HEADER_SIZE <= off /\
    off + us <= SPAN_SIZE /\ ~ In (s, (off - SPAN_HEADER_SIZE) / us) live).
  { intros c V Fit CI E.
    assert (R : 1 <= class_bc c < 2 ^ 32) by (destruct V as (_ & _ & _ & _ & B); lia).
    pose proof (class_alloc_safe (class_bc c) (chunk_of psh (class_bs c) (class_bc c)) R (chunk_of_ok psh c V)
                  (cl_lookup c (h_classes h)) live e_span CI) as S.
    destruct (class_alloc (class_bc c) (chunk_of psh (class_bs c) (class_bc c)) (cl_lookup c (h_classes h)) e_span)
      as [[[cs' [s0 i]] uf]| | | | |]; try discriminate.
    destruct S as (_ & Nin & Ri). simpl in Ri.
    destruct (uf && range_in_use psh h e_span 1); [discriminate|].
    cbv beta iota in E. apply COk_inj in E. apply tuple4_inj in E. destruct E as (E1 & E2 & E3 & E4). subst h' s off us.
    destruct (block_geometry c s0 i V Ri) as (G1 & G2 & G3 & _).
    split; [assumption|]. split; [assumption|]. split; [assumption|]. split; [assumption|].
    unfold block_offset. replace (SPAN_HEADER_SIZE + i * class_bs c - SPAN_HEADER_SIZE) with (i * class_bs c) by ring.
    rewrite Z.div_mul by (destruct V as (_ & B & _); lia). assumption. }
  destruct (regime_of size) eqn:Rg.
  - destruct (small_class_fits size RC) as [V F]. destruct (SM _ V F Inv HA) as (A & B & C & D & E). auto.
  - destruct (medium_class_fits size RC) as [V [F _]]. destruct (SM _ V F Inv HA) as (A & B & C & D & E). auto.
  - destruct (large_fits size RC) as [Rn Fit].
    destruct ((e_count <? large_span_count size) || (LARGE_CLASS_COUNT <? e_count) || range_in_use psh h e_span e_count) eqn:Q;
      [discriminate|].
    apply orb_false_elim in Q. destruct Q as [Q _]. apply orb_false_elim in Q. destruct Q as [Q _].
    apply Z.ltb_ge in Q. apply COk_inj in HA. apply tuple4_inj in HA. destruct HA as (E1 & E2 & E3 & E4). subst h' s off us.
    split; [apply Fit; assumption|]. split; [apply header_aligned|]. split; [lia | reflexivity].
  - destruct (huge_request psh size) as [np|] eqn:HR; [|discriminate].
    assert (np = huge_pages psh size).
    { unfold huge_request in HR. destruct (HUGE_OVERFLOW_GUARD && _); [discriminate | inversion HR; reflexivity]. }
    subst np.
    destruct (range_in_use psh h e_span (big_units psh (BHuge (huge_pages psh size)))); [discriminate|].
    apply COk_inj in HA. apply tuple4_inj in HA. destruct HA as (E1 & E2 & E3 & E4). subst h' s off us. destruct (huge_fits psh size Hp H0 Hw) as [F _].
    split; [assumption|]. split; [apply header_aligned|]. split; [lia | reflexivity].
Qed.

(* non-vacuity: a first request on the empty heap *)
Example ex_heap_allocate :
  exists h', heap_allocate 12 heap_empty 100 77 0 = COk (h', 77, 128, 112).
Proof. eexists. vm_compute. reflexivity. Qed.
