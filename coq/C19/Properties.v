(* Property C19: the bundled rpmalloc-derived allocator keeps live blocks intact.
   Only the property theorems, each closed by [exact] of a lemma of Proofs*.v and followed by
   Print Assumptions.  Statements are over the executable model of coq/C19/Model.v, whose
   constants are regenerated from /repo into Gen.v on every run. *)
From Coq Require Import Permutation.
From C19 Require Import Model Proofs ProofsMachine ProofsHeap ProofsSpans ProofsOwn ProofsCombined.
Local Open Scope Z_scope.

(* every small request is served by a class whose blocks are at least as large *)
Theorem C19_small_class_fits : forall size, 0 <= size <= SMALL_SIZE_LIMIT ->
  let c := small_class size in valid_class c /\ size <= class_bs c.
Proof. exact small_class_fits. Qed.
Print Assumptions C19_small_class_fits.

(* same for medium requests, through the merged size-class table *)
Theorem C19_medium_class_fits : forall size, SMALL_SIZE_LIMIT < size <= medium_limit ->
  let c := medium_class size in valid_class c /\ size <= class_bs c /\ SMALL_CLASS_COUNT <= c.
Proof. exact medium_class_fits. Qed.
Print Assumptions C19_medium_class_fits.

(* every block of every class is LALLOC_ALIGN(16)-aligned given SPAN_SIZE-aligned spans, lies
   inside its span after the header, and precedes every later block of the span *)
Theorem C19_block_geometry : forall c span idx, valid_class c -> 0 <= idx < class_bc c ->
  let bs := class_bs c in let off := block_offset bs idx in
  address span off mod LALLOC_ALIGN = 0 /\
  SPAN_HEADER_SIZE <= off /\ off + bs <= SPAN_SIZE /\
  (forall j, idx < j < class_bc c -> off + bs <= block_offset bs j).
Proof. exact block_geometry. Qed.
Print Assumptions C19_block_geometry.

(* two distinct (span, index) blocks of a class occupy disjoint address ranges *)
Theorem C19_blocks_disjoint : forall c s1 i1 s2 i2, valid_class c ->
  0 <= i1 < class_bc c -> 0 <= i2 < class_bc c -> (s1, i1) <> (s2, i2) ->
  let bs := class_bs c in
  let a1 := address s1 (block_offset bs i1) in let a2 := address s2 (block_offset bs i2) in
  a1 + bs <= a2 \/ a2 + bs <= a1.
Proof. exact blocks_disjoint. Qed.
Print Assumptions C19_blocks_disjoint.

Theorem C19_blocks_of_different_spans_disjoint : forall c1 c2 s1 i1 s2 i2, valid_class c1 -> valid_class c2 ->
  0 <= i1 < class_bc c1 -> 0 <= i2 < class_bc c2 -> s1 <> s2 ->
  let a1 := address s1 (block_offset (class_bs c1) i1) in let a2 := address s2 (block_offset (class_bs c2) i2) in
  a1 + class_bs c1 <= a2 \/ a2 + class_bs c2 <= a1.
Proof. exact blocks_of_different_spans_disjoint. Qed.
Print Assumptions C19_blocks_of_different_spans_disjoint.

(* large requests: the span count is within the large classes and any span run at least that
   long holds the request after the header *)
Theorem C19_large_fits : forall size, medium_limit < size <= LARGE_SIZE_LIMIT ->
  let n := large_span_count size in
  1 <= n <= LARGE_CLASS_COUNT /\ forall psh m, n <= m -> size <= usable_size psh (BLarge m).
Proof. exact large_fits. Qed.
Print Assumptions C19_large_fits.

(* huge requests, for every page size rpmalloc accepts (2^8 .. 2^32) and EVERY 64-bit size: the
   request is either refused (NULL, only when size + header + one page overflows size_t) or the
   mapped pages hold it after the header *)
Theorem C19_large_huge_fit : huge_fit_full.
Proof. exact huge_fit. Qed.
Print Assumptions C19_large_huge_fit.

(* the scraped flag HUGE_OVERFLOW_GUARD is needed: in the refused range, huge_request's other branch (no guard) maps fewer
   bytes than requested (psh = 12, size = 2^64-1: one page) *)
Theorem C19_huge_guard_needed : exists psh size, page_shift_ok psh /\ LARGE_SIZE_LIMIT < size < W64 /\
  W64 - 1 - SPAN_HEADER_SIZE - 2 ^ psh < size /\ usable_size psh (BHuge (huge_pages psh size)) < size.
Proof. exact huge_guard_needed. Qed.
Print Assumptions C19_huge_guard_needed.

(* realloc as L_alloc issues it: a block kept in place is large enough *)
Theorem C19_realloc_inplace_fits : forall psh b size oldsize, page_shift_ok psh -> valid_block psh b ->
  0 <= size -> size + SPAN_HEADER_SIZE < W64 ->
  realloc_inplace psh b size oldsize = true -> size <= usable_size psh b.
Proof. exact realloc_inplace_fits. Qed.
Print Assumptions C19_realloc_inplace_fits.

(* ... a moved block is requested with at least the new size, and the bytes copied cover
   min(old,new), stay within the old size and within the new request *)
Theorem C19_realloc_copy : forall size oldsize, let n := realloc_new_size size oldsize in
  size <= n /\ Z.min oldsize size <= copy_len oldsize n /\ copy_len oldsize n <= oldsize /\ copy_len oldsize n <= n.
Proof. exact realloc_copy. Qed.
Print Assumptions C19_realloc_copy.

(* ---- the span machine of one size class ----
   class_inv bc cs live  (ProofsMachine.v) says, for every span s the class owns with state st:
     1 <= free_list_limit <= block_count;
     span free list ++ (heap-class free list entries pointing into s) ++ (live blocks of s)
       is a permutation of the indices [0, free_list_limit)   (partition, no index twice);
     used_count = #(heap-class entries of s) + #(live blocks of s), and >= 1;
   every block in the heap-class list or live belongs to an owned span; the partial list has no
   duplicates and holds only owned, not fully utilised spans. *)

(* an allocation hands out an in-range block that is not live, and keeps the invariant; the only
   refusal is an environment span that the class still owns *)
Theorem C19_class_alloc_safe : forall bc chunk, 1 <= bc < 2 ^ 32 ->
  (forall l, 0 <= l < bc -> 1 <= chunk l <= bc - l) ->
  forall cs live fresh, class_inv bc cs live ->
  match class_alloc bc chunk cs fresh with
  | COk (cs', b, _) => class_inv bc cs' (b :: live) /\ ~ In b live /\ 0 <= snd b < bc
  | CErrOracle => sp_lookup fresh (c_spans cs) <> None
  | _ => False
  end.
Proof. exact class_alloc_safe. Qed.
Print Assumptions C19_class_alloc_safe.

(* freeing a live block always succeeds and keeps the invariant for the remaining live blocks *)
Theorem C19_class_free_safe : forall bc, 1 <= bc < 2 ^ 32 ->
  forall cs live live' b, class_inv bc cs live -> Permutation live (b :: live') ->
  exists cs', class_free bc cs b = COk cs' /\ class_inv bc cs' live'.
Proof. exact class_free_safe_nochunk. Qed.
Print Assumptions C19_class_free_safe.

(* used_count is exact and the three sets partition the initialised indices *)
Theorem C19_used_count_exact : forall bc cs live s st, class_inv bc cs live ->
  sp_lookup s (c_spans cs) = Some st ->
  Permutation (sp_free st ++ proj s (c_hfl cs) ++ proj s live) (zrange 0 (Z.to_nat (sp_limit st))) /\
  sp_used st = Z.of_nat (length (proj s (c_hfl cs)) + length (proj s live)) /\
  sp_used st + Z.of_nat (length (sp_free st)) = sp_limit st /\ 1 <= sp_limit st <= bc.
Proof. exact used_count_exact. Qed.
Print Assumptions C19_used_count_exact.

(* over ANY sequence of allocations and frees of a size class as srpmalloc.c configures it (page
   size 2^psh, any psh), starting from the empty class: the machine never finds its state
   inconsistent, the invariant holds at the end, live blocks are pairwise distinct and in range *)
Theorem C19_span_machine_history : forall psh c, valid_class c -> forall ops,
  match run (class_bc c) (chunk_of psh (class_bs c) (class_bc c)) class_empty [] ops with
  | COk (cs, live) => class_inv (class_bc c) cs live /\ NoDup live /\ (forall b, In b live -> 0 <= snd b < class_bc c)
  | CErrOracle | CErrBadFree => True
  | CErrCorrupt | CErrUnmodelled | CNull => False
  end.
Proof. exact span_machine_history. Qed.
Print Assumptions C19_span_machine_history.

(* the allocation path of L_alloc as a whole (class selection + span machine + geometry): whenever
   the model's _rpmalloc_allocate succeeds on a heap whose serving class satisfies the span-machine
   invariant, the block is at least as large as requested, LALLOC_ALIGN-aligned, after the span
   header, inside its span and (small/medium) not one of the live blocks *)
Theorem C19_allocate_fits : forall psh h size e_span e_count live h' s off us,
  page_shift_ok psh -> 0 <= size -> size + SPAN_HEADER_SIZE < W64 ->
  class_inv (class_bc (selected_class size)) (cl_lookup (selected_class size) (h_classes h)) live ->
  heap_allocate psh h size e_span e_count = COk (h', s, off, us) ->
  size <= us /\ address s off mod LALLOC_ALIGN = 0 /\ SPAN_HEADER_SIZE <= off /\
  (match regime_of size with
   | Small | Medium => off + us <= SPAN_SIZE /\ ~ In (s, (off - SPAN_HEADER_SIZE) / us) live
   | _ => off = SPAN_HEADER_SIZE
   end).
Proof. exact heap_allocate_fits. Qed.
Print Assumptions C19_allocate_fits.

(* ---- span layer (ProofsSpans.v: regions = OS mappings with a master span, span objects in use /
   cached / reserved, carving from the reserve, caches with reuse of a larger span for a smaller
   request, unmapping through the master's remaining_spans, finalization) ----
   over ANY history of these operations from the empty allocator: the spans never overlap, each lies
   inside a region that is still mapped, and the region still counts at least that span in
   remaining_spans - so blocks of different spans stay disjoint across cache reuse *)
Theorem C19_spans_disjoint_across_reuse : forall mc ops st, srun mc sempty ops = Some st ->
  pairwise obj_disjoint (objs st) /\
  (forall o, In o (objs st) -> exists g, In g (regions st) /\ inside o g /\ so_count o <= rg_remaining g).
Proof. exact spans_disjoint_across_reuse. Qed.
Print Assumptions C19_spans_disjoint_across_reuse.

(* ... and finalization after ANY such history succeeds and leaves no mapped region and no span:
   every mapping is returned to the OS (map/unmap balance zero) *)
Theorem C19_finalize_unmaps_everything : forall mc ops st, srun mc sempty ops = Some st ->
  exists st', op_finalize st = Some st' /\ regions st' = [] /\ objs st' = [].
Proof. exact finalize_unmaps_everything. Qed.
Print Assumptions C19_finalize_unmaps_everything.

(* ---- whole heap, histories of L_alloc calls (ProofsOwn.v) ----
   own_ok psh h: a span is owned by at most one size class; a span owned by a class lies outside every
   large/huge block; large/huge blocks occupy pairwise disjoint runs of spans.
   It holds after ANY sequence of l_alloc calls (free, realloc in place, realloc by allocate-copy-free,
   over all four size regimes, any pointers/sizes/environment answers) that the model accepts.
   NOTE: histories in which the environment offers a span that is in use are excluded by construction
   (l_alloc answers CErrOracle, lrun = None); C19_heap_allocate_not_refused_partial shows that spans
   coming out of the span layer are never refused, one step at a time. *)
Theorem C19_lalloc_history_ownership : forall psh calls h, lrun psh heap_empty calls = Some h -> own_ok psh h.
Proof. exact lalloc_history_ownership. Qed.
Print Assumptions C19_lalloc_history_ownership.

(* ... hence blocks of different size classes, and a class block and a large/huge block, never overlap
   (blocks of the same class: C19_span_machine_history + C19_blocks_disjoint) *)
Theorem C19_blocks_of_different_classes_disjoint : forall psh h c1 c2 s1 i1 s2 i2, own_ok psh h ->
  class_owns h c1 s1 -> class_owns h c2 s2 -> c1 <> c2 -> valid_class c1 -> valid_class c2 ->
  0 <= i1 < class_bc c1 -> 0 <= i2 < class_bc c2 ->
  let a1 := address s1 (block_offset (class_bs c1) i1) in let a2 := address s2 (block_offset (class_bs c2) i2) in
  a1 + class_bs c1 <= a2 \/ a2 + class_bs c2 <= a1.
Proof. exact blocks_of_different_classes_disjoint. Qed.
Print Assumptions C19_blocks_of_different_classes_disjoint.

Theorem C19_small_block_disjoint_from_big : forall psh h c s i sb b, own_ok psh h ->
  class_owns h c s -> In (sb, b) (h_big h) -> valid_class c -> 0 <= i < class_bc c -> 0 <= big_units psh b ->
  let a := address s (block_offset (class_bs c) i) in
  a + class_bs c <= address sb 0 \/ address (sb + big_units psh b) 0 <= a.
Proof. exact small_block_disjoint_from_big. Qed.
Print Assumptions C19_small_block_disjoint_from_big.

Theorem C19_big_blocks_disjoint : forall psh h x y l1 l2, own_ok psh h -> h_big h = l1 ++ x :: l2 -> In y (l1 ++ l2) ->
  big_disjoint psh x y.
Proof. exact big_blocks_disjoint. Qed.
Print Assumptions C19_big_blocks_disjoint.

(* the environment assumption of the heap model is discharged by the span layer: a span object of a
   span-layer state (ProofsSpans.v, any history) is accepted by the heap's in-use check whenever the
   spans the heap owns are other objects of that state *)
Theorem C19_span_layer_supplies_accepted_span : forall psh h ss l1 o l2,
  pairwise obj_disjoint (objs ss) -> objs ss = l1 ++ o :: l2 ->
  (forall c cs s v, In (c, cs) (h_classes h) -> In (s, v) (c_spans cs) ->
     exists x, In x (l1 ++ l2) /\ so_start x = s /\ so_count x = 1) ->
  (forall kb, In kb (h_big h) -> exists x, In x (l1 ++ l2) /\ so_start x = fst kb /\ so_count x = big_units psh (snd kb)) ->
  range_in_use psh h (so_start o) (so_count o) = false.
Proof. exact span_layer_supplies_accepted_span. Qed.
Print Assumptions C19_span_layer_supplies_accepted_span.

(* contents across a moving reallocation: memcpy of copy_len bytes into a block that does not overlap
   the old one preserves the first min(old,new) bytes and changes nothing outside the new block *)
Theorem C19_contents_preserved : forall m old new osize nsize usable_new,
  let n := realloc_new_size nsize osize in
  0 <= osize -> 0 <= nsize -> n <= usable_new ->
  (new + usable_new <= old \/ old + osize <= new) ->
  let m' := mem_copy new old (copy_len osize n) m in
  (forall i, 0 <= i < Z.min osize nsize -> m' (new + i) = m (old + i)) /\
  (forall a, a < new \/ new + usable_new <= a -> m' a = m a).
Proof. exact contents_preserved. Qed.
Print Assumptions C19_contents_preserved.

(* one step of the combined machine: when the spans the heap owns are the other span objects of a
   span-layer state (coupling) and the span object has the shape the request needs, the heap model
   never answers CErrOracle: a span cannot be handed out twice, and a cached M-span served for an
   N-span request is accepted with its M spans.  (That the coupling is MAINTAINED along a combined
   history is not proved: see UNPROVED.) *)
Theorem C19_heap_allocate_not_refused_partial : forall psh h ss l1 o l2 size,
  pairwise obj_disjoint (objs ss) -> objs ss = l1 ++ o :: l2 -> coupled psh h (l1 ++ l2) ->
  match regime_of size with
  | Small | Medium => so_count o = 1
  | Large => large_span_count size <= so_count o <= LARGE_CLASS_COUNT
  | Huge => match huge_request psh size with Some np => so_count o = big_units psh (BHuge np) | None => True end
  end ->
  heap_allocate psh h size (so_start o) (so_count o) <> CErrOracle.
Proof. exact heap_allocate_not_refused. Qed.
Print Assumptions C19_heap_allocate_not_refused_partial.

(* ---- combined machine, small/medium requests (ProofsCombined.v) ----
   The heap model runs ON TOP of the span layer: a request that needs a new span takes it from the span
   layer (a fresh mapping, the reserve, or a cached span, as the history names) - no oracle - and a span a
   class gives up goes back to the span layer's cache.  cinv st: the span layer's invariant, unique class
   keys, every span owned by exactly one class, and every span a class owns is a one-span IN-USE object of
   the span layer.  Over EVERY history of small/medium allocations and frees from any state satisfying cinv
   (the empty state does: cinv_empty): the heap model never answers CErrOracle (a span is never handed out
   twice), releasing a span never fails, and cinv is preserved.
   Not covered: large/huge requests and reallocations that move into them (see UNPROVED). *)
Theorem C19_combined_history_small_medium : forall psh mc ops st, cinv st -> Forall op_ok ops ->
  crun psh mc st ops <> CRefusedByHeap /\
  (forall st' ret, crun psh mc st ops = CDone st' ret -> cinv st').
Proof. exact combined_history. Qed.
Print Assumptions C19_combined_history_small_medium.

Theorem C19_combined_empty : cinv (mk_cstate heap_empty sempty).
Proof. exact cinv_empty. Qed.
Print Assumptions C19_combined_empty.

(* ---- the open outcomes of the combined machine (audit 6.3 item 5) ----
   CSupplyFailed on an allocation is a statement about the HISTORY, not the allocator: the history named a supply
   the span layer does not have.  supply_ok: a fresh mapping whose range overlaps no live mapping (the operating
   system's answer; out of memory = no such base), a reserve with at least one span, or a cached one-span object at
   the named start.  With an available supply an allocation never answers CSupplyFailed, and a fresh mapping is
   always available as long as the address space has room (some base is free). *)
Theorem C19_combined_supply_failed_only_without_supply : forall psh mc st size w, supply_ok mc (cs_spans st) w ->
  cstep psh mc st (CAllocSM size w) <> CSupplyFailed.
Proof. exact cstep_alloc_supply. Qed.
Print Assumptions C19_combined_supply_failed_only_without_supply.

Theorem C19_combined_fresh_mapping_is_supply : forall mc ss, exists base, supply_ok mc ss (FromMap base).
Proof. exact fresh_base_is_supply. Qed.
Print Assumptions C19_combined_fresh_mapping_is_supply.

(* CBadCall.  linv st lv: every valid class satisfies the class machine's invariant (class_inv, the invariant of
   C19_span_machine_history) against its ghost list of live blocks lv c.  hist_ok: sizes are small/medium and every
   free names a block that is live at that point of the history (the caller's obligation: no double free, no foreign
   pointer; ex_double_free_invalid shows a repeated free is outside hist_ok).  Valid histories never reach CBadCall -
   neither the heap model's own CErrCorrupt/CNull/CErrUnmodelled nor CErrBadFree - from any state satisfying linv
   (the empty state does). *)
Theorem C19_combined_history_no_bad_call : forall psh mc ops st lv, linv st lv -> hist_ok psh mc st lv ops ->
  crun psh mc st ops <> CBadCall.
Proof. exact combined_history_no_bad_call. Qed.
Print Assumptions C19_combined_history_no_bad_call.

Theorem C19_combined_ghost_empty : linv (mk_cstate heap_empty sempty) (fun _ => []).
Proof. exact linv_empty. Qed.
Print Assumptions C19_combined_ghost_empty.

(* the combined machine projects onto the L_alloc history machine: every successful combined history IS the lrun
   history of the corresponding L_alloc calls (calls_of: ptr = NULL, nsize = size, the span oracle answering with
   the start of the span the span layer supplied; or ptr = block, nsize = 0), so the heap component of every state
   reached from the empty state satisfies the ownership invariant of C19_lalloc_history_ownership *)
Theorem C19_combined_projects_to_lalloc : forall psh mc ops st st' ret, Forall op_ok1 ops ->
  crun psh mc st ops = CDone st' ret -> lrun psh (cs_heap st) (calls_of psh mc st ops) = Some (cs_heap st').
Proof. exact crun_projects. Qed.
Print Assumptions C19_combined_projects_to_lalloc.

Theorem C19_combined_history_ownership : forall psh mc ops st' ret, Forall op_ok1 ops ->
  crun psh mc (mk_cstate heap_empty sempty) ops = CDone st' ret -> own_ok psh (cs_heap st').
Proof. exact combined_history_ownership. Qed.
Print Assumptions C19_combined_history_ownership.

(* a free step of the combined machine never fails: from a state satisfying the coupling invariant cinv and the class
   invariants linv, freeing a block that is live (live_block: its span belongs to class c, the offset is a block start,
   the block is in c's ghost live list) is answered CDone - never CSupplyFailed (the span model accepts the release of
   an emptied span to the cache), never CBadCall, never CRefusedByHeap - and both invariants hold afterwards *)
Theorem C19_combined_free_never_fails : forall psh mc st span off lv c, cinv st -> linv st lv -> live_block st lv span off c ->
  exists st' ret, cstep psh mc st (CFreeSM span off) = CDone st' ret /\ cinv st' /\
    linv st' (lv_del lv c (span, block_index c off)).
Proof. exact cstep_free_never_fails. Qed.
Print Assumptions C19_combined_free_never_fails.
