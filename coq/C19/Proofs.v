(* C19: arithmetic of the size classes, block geometry, large/huge span counts and the
   realloc decision.  Every general lemma below uses the regenerated constants of Gen.v only
   through the [fact_*] lemmas and through [table_ok] (a finite check of the computed
   size-class table); nothing else unfolds a constant. *)
From C19 Require Import Model.
Local Open Scope Z_scope.
Ltac Zify.zify_post_hook ::= Z.div_mod_to_equations.

(* ------------------------------------------------------------------ *)
(* facts about the regenerated constants *)

Lemma fact_small_gran : SMALL_GRANULARITY = 2 ^ SMALL_GRANULARITY_SHIFT /\ 0 <= SMALL_GRANULARITY_SHIFT < 32.
Proof. vm_compute. intuition discriminate. Qed.
Lemma fact_medium_gran : MEDIUM_GRANULARITY = 2 ^ MEDIUM_GRANULARITY_SHIFT /\ 0 <= MEDIUM_GRANULARITY_SHIFT < 32.
Proof. vm_compute. intuition discriminate. Qed.
Lemma fact_span : SPAN_SIZE = 2 ^ SPAN_SIZE_SHIFT /\ 0 < SPAN_SIZE_SHIFT < 32.
Proof. vm_compute. intuition discriminate. Qed.
(* L_alloc's alignment is served by the plain (unaligned) path and the granularity provides it *)
Lemma fact_lalloc : 0 < LALLOC_ALIGN /\ (LALLOC_ALIGN <=? SMALL_GRANULARITY) = true /\
  (LALLOC_FLAGS =? 0) = true /\ SMALL_GRANULARITY mod LALLOC_ALIGN = 0.
Proof. vm_compute. intuition discriminate. Qed.
Lemma fact_header : 0 < SPAN_HEADER_SIZE /\ SPAN_HEADER_SIZE mod SMALL_GRANULARITY = 0 /\
  SPAN_SIZE mod SMALL_GRANULARITY = 0 /\ SPAN_HEADER_SIZE < MIN_PAGE_SIZE /\ 2 * SPAN_HEADER_SIZE < SPAN_SIZE.
Proof. vm_compute. intuition discriminate. Qed.
Lemma fact_counts : 1 <= SMALL_CLASS_COUNT /\ 0 <= MEDIUM_CLASS_COUNT /\
  SIZE_CLASS_COUNT = SMALL_CLASS_COUNT + MEDIUM_CLASS_COUNT /\ SIZE_CLASS_COUNT < 2 ^ 16 /\
  1 <= LARGE_CLASS_COUNT < 2 ^ 16.
Proof. vm_compute. intuition discriminate. Qed.
Lemma fact_limits : SMALL_SIZE_LIMIT = SMALL_GRANULARITY * (SMALL_CLASS_COUNT - 1) /\
  MEDIUM_SIZE_LIMIT = SMALL_SIZE_LIMIT + MEDIUM_GRANULARITY * MEDIUM_CLASS_COUNT /\
  LARGE_SIZE_LIMIT = LARGE_CLASS_COUNT * SPAN_SIZE - SPAN_HEADER_SIZE /\
  0 < SMALL_SIZE_LIMIT <= medium_limit /\ medium_limit <= MEDIUM_SIZE_LIMIT /\
  medium_limit < LARGE_SIZE_LIMIT /\ LARGE_SIZE_LIMIT + SPAN_HEADER_SIZE < 2 ^ 32.
Proof. vm_compute. intuition discriminate. Qed.
Lemma fact_page : MIN_PAGE_SIZE = 2 ^ 8 /\ MAX_PAGE_SIZE = 2 ^ 32.
Proof. vm_compute. intuition discriminate. Qed.

(* ------------------------------------------------------------------ *)
(* finite check of the size-class table as rpmalloc_initialize_config computes it *)

Definition final_class_ok (c : Z) : bool :=
  let e := tbl_get size_table c in
  (0 <? sc_bs e) && (sc_bs e mod SMALL_GRANULARITY =? 0) &&
  (sc_bc e =? (SPAN_SIZE - SPAN_HEADER_SIZE) / sc_bs e) && (1 <=? sc_bc e) && (sc_bc e <? 2 ^ 16) &&
  (sc_idx e =? c).

Definition small_entry_ok (c : Z) : bool :=
  (sc_bs (tbl_get size_table c) =? (if c =? 0 then SMALL_GRANULARITY else c * SMALL_GRANULARITY))
  && final_class_ok c.

(* medium slot k (requests SMALL_SIZE_LIMIT + k*MG + 1 .. SMALL_SIZE_LIMIT + (k+1)*MG), if reachable *)
Definition medium_entry_ok (k : Z) : bool :=
  if medium_limit <? SMALL_SIZE_LIMIT + k * MEDIUM_GRANULARITY + 1 then true else
  let e := tbl_get size_table (SMALL_CLASS_COUNT + k) in
  (SMALL_CLASS_COUNT <=? sc_idx e) && (sc_idx e <? SIZE_CLASS_COUNT) && final_class_ok (sc_idx e) &&
  (SMALL_SIZE_LIMIT + (k + 1) * MEDIUM_GRANULARITY <=? sc_bs (tbl_get size_table (sc_idx e))).

Definition table_ok : bool :=
  (Z.of_nat (length size_table) =? SIZE_CLASS_COUNT) &&
  forallb small_entry_ok (zrange 0 (Z.to_nat SMALL_CLASS_COUNT)) &&
  forallb medium_entry_ok (zrange 0 (Z.to_nat MEDIUM_CLASS_COUNT)).

Lemma table_ok_true : table_ok = true.
Proof. vm_compute. reflexivity. Qed.
(* from here on the table and the constants are only known through table_ok and the facts *)
Global Opaque size_table medium_limit SMALL_GRANULARITY SMALL_GRANULARITY_SHIFT SMALL_CLASS_COUNT
  MEDIUM_GRANULARITY MEDIUM_GRANULARITY_SHIFT MEDIUM_CLASS_COUNT LARGE_CLASS_COUNT SPAN_HEADER_SIZE
  SPAN_SIZE SPAN_SIZE_SHIFT SMALL_SIZE_LIMIT SIZE_CLASS_COUNT MEDIUM_SIZE_LIMIT LARGE_SIZE_LIMIT
  MIN_PAGE_SIZE MAX_PAGE_SIZE LALLOC_ALIGN LALLOC_FLAGS.

Lemma in_zrange : forall lo n x, lo <= x < lo + Z.of_nat n -> In x (zrange lo n).
Proof.
  intros lo n x H. unfold zrange. apply in_map_iff. exists (Z.to_nat (x - lo)). split; [lia|].
  apply in_seq. lia.
Qed.
Lemma zrange_in : forall lo n x, In x (zrange lo n) -> lo <= x < lo + Z.of_nat n.
Proof.
  intros lo n x H. unfold zrange in H. apply in_map_iff in H. destruct H as [k [E Hk]].
  apply in_seq in Hk. lia.
Qed.

Lemma small_entry : forall c, 0 <= c < SMALL_CLASS_COUNT -> small_entry_ok c = true.
Proof.
  intros c Hc. pose proof table_ok_true as T. unfold table_ok in T.
  apply andb_prop in T. destruct T as [T _]. apply andb_prop in T. destruct T as [_ T].
  rewrite forallb_forall in T. apply T. apply in_zrange. lia.
Qed.
Lemma medium_entry : forall k, 0 <= k < MEDIUM_CLASS_COUNT -> medium_entry_ok k = true.
Proof.
  intros k Hk. pose proof table_ok_true as T. unfold table_ok in T.
  apply andb_prop in T. destruct T as [_ T].
  rewrite forallb_forall in T. apply T. apply in_zrange. lia.
Qed.

(* the facts a class index must satisfy for the geometry theorems; every class the allocator
   selects satisfies them (small_class_valid / medium_class_valid) *)
Definition valid_class (c : Z) : Prop :=
  0 <= c < SIZE_CLASS_COUNT /\ 0 < class_bs c /\ class_bs c mod SMALL_GRANULARITY = 0 /\
  class_bc c = (SPAN_SIZE - SPAN_HEADER_SIZE) / class_bs c /\ 1 <= class_bc c < 2 ^ 16.

Lemma final_class_valid : forall c, 0 <= c < SIZE_CLASS_COUNT -> final_class_ok c = true -> valid_class c.
Proof.
  intros c Hc H. unfold final_class_ok in H. unfold valid_class, class_bs, class_bc.
  revert H. generalize (tbl_get size_table c). intros e H.
  rewrite !andb_true_iff in H. destruct H as (((((A & B) & C) & D) & E) & F).
  rewrite ?Z.ltb_lt, ?Z.leb_le, ?Z.eqb_eq in *. repeat split; try lia.
Qed.

(* ------------------------------------------------------------------ *)
(* shifts and masks as arithmetic *)

Lemma u64_small : forall x, 0 <= x < W64 -> u64 x = x.
Proof. intros. unfold u64. apply Z.mod_small. assumption. Qed.
Lemma u32_small : forall x, 0 <= x < 2 ^ 32 -> u32 x = x.
Proof. intros. unfold u32. apply Z.mod_small. assumption. Qed.

Lemma W64_pos : W64 = 18446744073709551616.
Proof. reflexivity. Qed.

Lemma pow2_pos : forall n, 0 <= n -> 0 < 2 ^ n.
Proof. intros. apply Z.pow_pos_nonneg; lia. Qed.

Lemma round_up_count_spec : forall total sh, 0 <= total -> 0 <= sh ->
  let n := round_up_count total sh in
  total <= n * 2 ^ sh /\ n * 2 ^ sh < total + 2 ^ sh /\ 0 <= n.
Proof.
  intros total sh Ht Hs. unfold round_up_count.
  rewrite Z.shiftr_div_pow2 by assumption.
  replace (2 ^ sh - 1) with (Z.ones sh) by (rewrite Z.ones_equiv; lia).
  rewrite Z.land_ones by assumption.
  pose proof (pow2_pos sh Hs) as P.
  pose proof (Z.div_mod total (2 ^ sh)) as D. pose proof (Z.mod_pos_bound total (2 ^ sh) P) as B.
  assert (0 <= total / 2 ^ sh) by (apply Z.div_pos; lia).
  destruct (total mod 2 ^ sh =? 0) eqn:E; [apply Z.eqb_eq in E | apply Z.eqb_neq in E]; nia.
Qed.

Lemma bounds : 0 < SPAN_HEADER_SIZE /\ 0 < SMALL_SIZE_LIMIT /\ SMALL_SIZE_LIMIT <= medium_limit /\
  medium_limit < LARGE_SIZE_LIMIT /\ LARGE_SIZE_LIMIT + SPAN_HEADER_SIZE < 2 ^ 32 /\
  0 < SMALL_GRANULARITY < 2 ^ 32 /\ 0 < MEDIUM_GRANULARITY < 2 ^ 32 /\ 0 < SPAN_SIZE < 2 ^ 32.
Proof.
  pose proof fact_limits as (L1 & L2 & L3 & L4 & L5 & L6 & L7). pose proof fact_header as (H1 & _).
  pose proof fact_small_gran as [G1 S1]. pose proof fact_medium_gran as [G2 S2]. pose proof fact_span as [G3 S3].
  rewrite G1, G2, G3.
  pose proof (pow2_pos SMALL_GRANULARITY_SHIFT ltac:(lia)). pose proof (pow2_pos MEDIUM_GRANULARITY_SHIFT ltac:(lia)).
  pose proof (pow2_pos SPAN_SIZE_SHIFT ltac:(lia)).
  assert (2 ^ SMALL_GRANULARITY_SHIFT < 2 ^ 32) by (apply Z.pow_lt_mono_r; lia).
  assert (2 ^ MEDIUM_GRANULARITY_SHIFT < 2 ^ 32) by (apply Z.pow_lt_mono_r; lia).
  assert (2 ^ SPAN_SIZE_SHIFT < 2 ^ 32) by (apply Z.pow_lt_mono_r; lia).
  lia.
Qed.

(* ------------------------------------------------------------------ *)
(* class selection *)

Lemma small_class_value : forall size, 0 <= size <= SMALL_SIZE_LIMIT ->
  small_class size = (size + (SMALL_GRANULARITY - 1)) / SMALL_GRANULARITY /\
  0 <= small_class size < SMALL_CLASS_COUNT.
Proof.
  intros size H. pose proof fact_small_gran as [G S]. pose proof fact_limits as L.
  pose proof fact_counts as C. pose proof (pow2_pos SMALL_GRANULARITY_SHIFT ltac:(lia)) as P.
  destruct L as (L1 & _ & _ & _ & _ & _ & L7). destruct C as (C1 & C2 & C3 & C4 & C5).
  pose proof bounds as (B1 & B2 & B3 & B4 & B5 & B6 & B7 & B8).
  unfold small_class.
  rewrite u64_small by (rewrite W64_pos; lia).
  rewrite Z.shiftr_div_pow2 by lia. rewrite <- G.
  assert (Q : 0 <= (size + (SMALL_GRANULARITY - 1)) / SMALL_GRANULARITY < SMALL_CLASS_COUNT).
  { split. apply Z.div_pos; lia. apply Z.div_lt_upper_bound; nia. }
  rewrite u32_small by lia. split; [reflexivity | exact Q].
Qed.

Lemma small_class_fits : forall size, 0 <= size <= SMALL_SIZE_LIMIT ->
  let c := small_class size in valid_class c /\ size <= class_bs c.
Proof.
  intros size H c. destruct (small_class_value size H) as [V R]. fold c in V, R.
  pose proof fact_counts as (C1 & C2 & C3 & C4 & C5).
  pose proof (small_entry c R) as E. unfold small_entry_ok in E. apply andb_prop in E. destruct E as [E F].
  apply Z.eqb_eq in E. split. apply final_class_valid; [lia | exact F].
  unfold class_bs. rewrite E. pose proof fact_small_gran as [G S].
  pose proof (pow2_pos SMALL_GRANULARITY_SHIFT ltac:(lia)) as P.
  destruct (c =? 0) eqn:Z0; [apply Z.eqb_eq in Z0 | apply Z.eqb_neq in Z0]; rewrite V in *; nia.
Qed.

Lemma medium_base_value : forall size, SMALL_SIZE_LIMIT < size <= medium_limit ->
  let k := (size - (SMALL_SIZE_LIMIT + 1)) / MEDIUM_GRANULARITY in
  medium_base size = SMALL_CLASS_COUNT + k /\ 0 <= k < MEDIUM_CLASS_COUNT /\
  SMALL_SIZE_LIMIT + k * MEDIUM_GRANULARITY + 1 <= size <= SMALL_SIZE_LIMIT + (k + 1) * MEDIUM_GRANULARITY.
Proof.
  intros size H k. pose proof fact_medium_gran as [G S].
  pose proof fact_limits as (L1 & L2 & L3 & L4 & L5 & L6 & L7).
  pose proof fact_counts as (C1 & C2 & C3 & C4 & C5).
  pose proof (pow2_pos MEDIUM_GRANULARITY_SHIFT ltac:(lia)) as P. rewrite <- G in P.
  pose proof bounds as (B1 & B2 & B3 & B4 & B5 & B6 & B7 & B8).
  assert (K : 0 <= k < MEDIUM_CLASS_COUNT).
  { unfold k. split. apply Z.div_pos; lia. apply Z.div_lt_upper_bound; nia. }
  unfold medium_base. rewrite u64_small by (rewrite W64_pos; lia).
  rewrite Z.shiftr_div_pow2 by lia. rewrite <- G. fold k.
  rewrite u32_small by lia. split; [reflexivity|]. split; [exact K|].
  unfold k. pose proof (Z.div_mod (size - (SMALL_SIZE_LIMIT + 1)) MEDIUM_GRANULARITY ltac:(lia)).
  pose proof (Z.mod_pos_bound (size - (SMALL_SIZE_LIMIT + 1)) MEDIUM_GRANULARITY P). nia.
Qed.

Lemma medium_class_fits : forall size, SMALL_SIZE_LIMIT < size <= medium_limit ->
  let c := medium_class size in valid_class c /\ size <= class_bs c /\ SMALL_CLASS_COUNT <= c.
Proof.
  intros size H c. destruct (medium_base_value size H) as (B & K & R).
  set (k := (size - (SMALL_SIZE_LIMIT + 1)) / MEDIUM_GRANULARITY) in *.
  pose proof (medium_entry k K) as E. unfold medium_entry_ok in E.
  destruct (medium_limit <? SMALL_SIZE_LIMIT + k * MEDIUM_GRANULARITY + 1) eqn:Q.
  { apply Z.ltb_lt in Q. lia. }
  unfold c, medium_class. rewrite B.
  set (e := tbl_get size_table (SMALL_CLASS_COUNT + k)) in *. clearbody e.
  apply andb_prop in E. destruct E as [E E4]. apply andb_prop in E. destruct E as [E E3].
  apply andb_prop in E. destruct E as [E1 E2].
  apply Z.leb_le in E1. apply Z.leb_le in E4. apply Z.ltb_lt in E2.
  pose proof fact_counts as (C1 & C2 & C3 & C4 & C5).
  split. apply final_class_valid; [lia | assumption].
  unfold class_bs. lia.
Qed.

(* ------------------------------------------------------------------ *)
(* block geometry *)

Lemma mod_add_mul : forall a b m, 0 < m -> a mod m = 0 -> b mod m = 0 -> forall i, (a + i * b) mod m = 0.
Proof.
  intros a b m Hm Ha Hb i.
  apply Z.mod_divide in Ha; [|lia]. apply Z.mod_divide in Hb; [|lia].
  apply Z.mod_divide; [lia|]. apply Z.divide_add_r; [assumption|]. apply Z.divide_mul_r. assumption.
Qed.

Lemma block_geometry : forall c span idx, valid_class c -> 0 <= idx < class_bc c ->
  let bs := class_bs c in let off := block_offset bs idx in
  address span off mod LALLOC_ALIGN = 0 /\
  SPAN_HEADER_SIZE <= off /\ off + bs <= SPAN_SIZE /\
  (forall j, idx < j < class_bc c -> off + bs <= block_offset bs j).
Proof.
  pose proof fact_small_gran as [G S]. pose proof (pow2_pos SMALL_GRANULARITY_SHIFT ltac:(lia)) as P.
  rewrite <- G in P. clear G S.
  pose proof fact_header as (H1 & H2 & H3 & H4 & H5). pose proof fact_lalloc as (A1 & _ & _ & A4).
  apply Z.mod_divide in H2; [|lia]. apply Z.mod_divide in H3; [|lia]. apply Z.mod_divide in A4; [|lia].
  intros c span idx (Hc & Hbs & Hmod & Hbc & Hbcr) Hi bs off.
  fold bs in Hbs, Hmod, Hbc.
  apply Z.mod_divide in Hmod; [|clear - P; lia].
  assert (Hfit : class_bc c * bs <= SPAN_SIZE - SPAN_HEADER_SIZE).
  { rewrite Hbc. rewrite Z.mul_comm. apply Z.mul_div_le. exact Hbs. }
  clear Hbc.
  split.
  - (* alignment: everything is a multiple of SMALL_GRANULARITY, which is a multiple of LALLOC_ALIGN *)
    apply Z.mod_divide; [lia|]. apply Z.divide_trans with SMALL_GRANULARITY; [assumption|].
    unfold address, off, block_offset. apply Z.divide_add_r.
    + apply Z.divide_mul_r. assumption.
    + apply Z.divide_add_r; [assumption | apply Z.divide_mul_r; assumption].
  - unfold off, block_offset. clearbody bs. clear Hmod H2 H3 A4.
    assert (0 <= idx * bs) by (apply Z.mul_nonneg_nonneg; lia).
    assert ((idx + 1) * bs <= class_bc c * bs) by (apply Z.mul_le_mono_nonneg_r; lia).
    split; [lia|]. split; [lia|]. intros j Hj.
    assert ((idx + 1) * bs <= j * bs) by (apply Z.mul_le_mono_nonneg_r; lia). lia.
Qed.

Lemma span_sep : forall s1 s2 o1 o2 len, s1 < s2 -> o1 + len <= SPAN_SIZE -> 0 <= o2 ->
  address s1 o1 + len <= address s2 o2.
Proof.
  intros. unfold address. pose proof bounds as (_ & _ & _ & _ & _ & _ & _ & B8).
  assert ((s1 + 1) * SPAN_SIZE <= s2 * SPAN_SIZE) by (apply Z.mul_le_mono_nonneg_r; lia). lia.
Qed.

Lemma blocks_disjoint : forall c s1 i1 s2 i2, valid_class c ->
  0 <= i1 < class_bc c -> 0 <= i2 < class_bc c -> (s1, i1) <> (s2, i2) ->
  let bs := class_bs c in
  let a1 := address s1 (block_offset bs i1) in let a2 := address s2 (block_offset bs i2) in
  a1 + bs <= a2 \/ a2 + bs <= a1.
Proof.
  intros c s1 i1 s2 i2 V H1 H2 N bs a1 a2.
  destruct (block_geometry c s1 i1 V H1) as (_ & L1 & U1 & D1).
  destruct (block_geometry c s2 i2 V H2) as (_ & L2 & U2 & D2).
  fold bs in L1, U1, D1, L2, U2, D2. unfold a1, a2.
  pose proof fact_header as (F1 & _).
  destruct (Z.lt_trichotomy s1 s2) as [S | [S | S]].
  - left. apply span_sep; lia.
  - unfold address. subst s2. destruct (Z.lt_trichotomy i1 i2) as [I | [I | I]].
    + left. specialize (D1 i2 ltac:(lia)). lia.
    + subst i2. congruence.
    + right. specialize (D2 i1 ltac:(lia)). lia.
  - right. apply span_sep; lia.
Qed.

(* two blocks of different spans never overlap, whatever their classes (spans are aligned) *)
Lemma blocks_of_different_spans_disjoint : forall c1 c2 s1 i1 s2 i2, valid_class c1 -> valid_class c2 ->
  0 <= i1 < class_bc c1 -> 0 <= i2 < class_bc c2 -> s1 <> s2 ->
  let a1 := address s1 (block_offset (class_bs c1) i1) in let a2 := address s2 (block_offset (class_bs c2) i2) in
  a1 + class_bs c1 <= a2 \/ a2 + class_bs c2 <= a1.
Proof.
  intros c1 c2 s1 i1 s2 i2 V1 V2 H1 H2 N a1 a2.
  destruct (block_geometry c1 s1 i1 V1 H1) as (_ & L1 & U1 & _).
  destruct (block_geometry c2 s2 i2 V2 H2) as (_ & L2 & U2 & _).
  unfold a1, a2. pose proof fact_header as (F1 & _).
  destruct (Z.lt_trichotomy s1 s2) as [S | [S | S]]; [left; apply span_sep; lia | congruence | right; apply span_sep; lia].
Qed.

(* ------------------------------------------------------------------ *)
(* large and huge *)

Lemma large_fits : forall size, medium_limit < size <= LARGE_SIZE_LIMIT ->
  let n := large_span_count size in
  1 <= n <= LARGE_CLASS_COUNT /\ forall psh m, n <= m -> size <= usable_size psh (BLarge m).
Proof.
  intros size H n. pose proof fact_span as [G S].
  pose proof fact_limits as (L1 & L2 & L3 & L4 & L5 & L6 & L7).
  pose proof fact_header as (H1 & _). pose proof fact_counts as (_ & _ & _ & _ & C5).
  unfold n, large_span_count. rewrite u64_small by (rewrite W64_pos; lia).
  destruct (round_up_count_spec (size + SPAN_HEADER_SIZE) SPAN_SIZE_SHIFT ltac:(lia) ltac:(lia)) as (R1 & R2 & R3).
  rewrite <- G in R1, R2. pose proof (pow2_pos SPAN_SIZE_SHIFT ltac:(lia)) as P. rewrite <- G in P.
  set (r := round_up_count (size + SPAN_HEADER_SIZE) SPAN_SIZE_SHIFT) in *.
  split. split; nia.
  intros psh m Hm. simpl usable_size. nia.
Qed.

Definition page_shift_ok (psh : Z) : Prop := 8 <= psh <= 32.

Lemma huge_fits : forall psh size, page_shift_ok psh -> 0 <= size -> size + SPAN_HEADER_SIZE < W64 ->
  size <= usable_size psh (BHuge (huge_pages psh size)) /\ 1 <= huge_pages psh size.
Proof.
  intros psh size Hp H0 H. unfold page_shift_ok in Hp. pose proof fact_header as (H1 & _).
  unfold huge_pages. rewrite u64_small by lia.
  destruct (round_up_count_spec (size + SPAN_HEADER_SIZE) psh ltac:(lia) ltac:(lia)) as (R1 & R2 & R3).
  pose proof (pow2_pos psh ltac:(lia)) as P. simpl usable_size. split; nia.
Qed.

(* full strength: for EVERY 64-bit request above the large limit, either the allocator refuses
   (returns NULL) or the pages it maps hold the request after the header *)
Lemma fact_huge_guard : HUGE_OVERFLOW_GUARD = true.
Proof. reflexivity. Qed.

Definition huge_fit_full : Prop := forall psh size, page_shift_ok psh -> LARGE_SIZE_LIMIT < size < W64 ->
  match huge_request psh size with
  | Some pages => size <= usable_size psh (BHuge pages) /\ 1 <= pages /\ pages * 2 ^ psh < W64
  | None => W64 - 1 - SPAN_HEADER_SIZE - 2 ^ psh < size      (* refused only when size + header + page overflows *)
  end.
Lemma huge_fit : huge_fit_full.
Proof.
  intros psh size Hp Hs. unfold huge_request. rewrite fact_huge_guard. cbn [andb].
  pose proof bounds as (B1 & B2 & B3 & B4 & B5 & _).
  destruct (W64 - 1 - SPAN_HEADER_SIZE - 2 ^ psh <? size) eqn:G; [apply Z.ltb_lt in G; exact G|].
  apply Z.ltb_ge in G. unfold page_shift_ok in Hp. pose proof (pow2_pos psh ltac:(lia)) as P.
  destruct (huge_fits psh size Hp ltac:(lia) ltac:(lia)) as [F1 F2]. split; [assumption|]. split; [assumption|].
  unfold huge_pages. rewrite u64_small by lia.
  destruct (round_up_count_spec (size + SPAN_HEADER_SIZE) psh ltac:(lia) ltac:(lia)) as (R1 & R2 & R3). lia.
Qed.

(* the scraped flag HUGE_OVERFLOW_GUARD is needed: huge_request's other branch (no guard: Some (huge_pages psh size))
   violates huge_fit_full's clause - size + header wraps modulo 2^64 and one page is mapped for a request of 2^64-1 bytes *)
Lemma huge_guard_needed : exists psh size, page_shift_ok psh /\ LARGE_SIZE_LIMIT < size < W64 /\
  W64 - 1 - SPAN_HEADER_SIZE - 2 ^ psh < size /\ usable_size psh (BHuge (huge_pages psh size)) < size.
Proof. exists 12, (W64 - 1). vm_compute. intuition discriminate. Qed.

(* ------------------------------------------------------------------ *)
(* realloc *)

Lemma land_mask_low : forall t s, 0 <= s <= 64 -> Z.land t (2 ^ 64 - 2 ^ s - 1) = 0 -> t mod 2 ^ s = 0.
Proof.
  intros t s Hs H.
  assert (Hm : Z.land (2 ^ 64 - 2 ^ s - 1) (Z.ones s) = Z.ones s).
  { rewrite Z.land_ones by lia. rewrite Z.ones_equiv.
    replace (2 ^ 64) with (2 ^ (64 - s) * 2 ^ s) by (rewrite <- Z.pow_add_r by lia; f_equal; lia).
    replace (2 ^ (64 - s) * 2 ^ s - 2 ^ s - 1) with ((2 ^ s - 1) + (2 ^ (64 - s) - 2) * 2 ^ s) by ring.
    pose proof (pow2_pos s ltac:(lia)).
    rewrite Z.mod_add by lia. rewrite Z.mod_small by lia. lia. }
  assert (E : Z.land (Z.land t (2 ^ 64 - 2 ^ s - 1)) (Z.ones s) = Z.land t (Z.ones s)).
  { rewrite <- Z.land_assoc, Hm. reflexivity. }
  rewrite H, Z.land_0_l in E. rewrite Z.land_ones in E by lia. symmetry. exact E.
Qed.

Definition valid_block (psh : Z) (b : blockinfo) : Prop :=
  match b with
  | BSmall c => valid_class c
  | BLarge n => 1 <= n <= LARGE_CLASS_COUNT
  | BHuge n => 1 <= n /\ n * 2 ^ psh < W64
  end.

Lemma realloc_inplace_fits : forall psh b size oldsize, page_shift_ok psh -> valid_block psh b ->
  0 <= size -> size + SPAN_HEADER_SIZE < W64 ->
  realloc_inplace psh b size oldsize = true -> size <= usable_size psh b.
Proof.
  intros psh b size oldsize Hp V H0 H R. unfold page_shift_ok in Hp.
  pose proof fact_header as (H1 & _).
  destruct b as [c | cur | cur]; simpl in R |- *.
  - apply Z.leb_le in R. exact R.
  - apply andb_prop in R. destruct R as [R _]. apply Z.leb_le in R.
    pose proof fact_span as [G S]. rewrite u64_small in R by lia.
    set (total := size + SPAN_HEADER_SIZE) in *.
    pose proof (pow2_pos SPAN_SIZE_SHIFT ltac:(lia)) as P.
    assert (M : span_mask - 1 = 2 ^ 64 - 2 ^ SPAN_SIZE_SHIFT - 1).
    { unfold span_mask, u64, Z.lnot. rewrite G.
      replace (Z.pred (- (2 ^ SPAN_SIZE_SHIFT - 1))) with (- 2 ^ SPAN_SIZE_SHIFT) by lia.
      assert (2 ^ SPAN_SIZE_SHIFT < 2 ^ 32) by (apply Z.pow_lt_mono_r; lia).
      replace (- 2 ^ SPAN_SIZE_SHIFT) with ((W64 - 2 ^ SPAN_SIZE_SHIFT) + (-1) * W64) by ring.
      rewrite Z.mod_add by (rewrite W64_pos; lia). rewrite Z.mod_small; rewrite W64_pos in *; lia. }
    rewrite M in R.
    assert (U : u64 (2 ^ 64 - 2 ^ SPAN_SIZE_SHIFT - 1) = 2 ^ 64 - 2 ^ SPAN_SIZE_SHIFT - 1).
    { assert (2 ^ SPAN_SIZE_SHIFT < 2 ^ 32) by (apply Z.pow_lt_mono_r; lia).
      apply u64_small. rewrite W64_pos. lia. }
    rewrite U in R. rewrite Z.shiftr_div_pow2 in R by lia.
    pose proof (Z.div_mod total (2 ^ SPAN_SIZE_SHIFT) ltac:(lia)) as D.
    pose proof (Z.mod_pos_bound total (2 ^ SPAN_SIZE_SHIFT) P) as B.
    rewrite G.
    destruct (Z.land total (2 ^ 64 - 2 ^ SPAN_SIZE_SHIFT - 1) =? 0) eqn:E.
    + apply Z.eqb_eq in E. apply land_mask_low in E; [|lia]. nia.
    + nia.
  - apply andb_prop in R. destruct R as [R _]. apply Z.leb_le in R.
    rewrite u64_small in R by lia.
    destruct (round_up_count_spec (size + SPAN_HEADER_SIZE) psh ltac:(lia) ltac:(lia)) as (R1 & R2 & R3).
    pose proof (pow2_pos psh ltac:(lia)) as P. nia.
Qed.

Lemma realloc_new_size_ge : forall size oldsize, size <= realloc_new_size size oldsize.
Proof.
  intros. unfold realloc_new_size.
  destruct (_ <? size) eqn:A; [lia|]. apply Z.ltb_ge in A.
  destruct (oldsize <? size) eqn:B; lia.
Qed.

Lemma copy_len_spec : forall size oldsize, let n := realloc_new_size size oldsize in
  Z.min oldsize size <= copy_len oldsize n /\ copy_len oldsize n <= oldsize /\ copy_len oldsize n <= n.
Proof.
  intros size oldsize n. pose proof (realloc_new_size_ge size oldsize). fold n in H.
  unfold copy_len. destruct (oldsize <? n) eqn:E; [apply Z.ltb_lt in E | apply Z.ltb_ge in E]; lia.
Qed.

(* non-vacuity: the hypotheses above are satisfiable by concrete, non-trivial instances *)
Example ex_small : small_class 100 = 7 /\ class_bs 7 = 112 /\ class_bc 7 = 584.
Proof. vm_compute. auto. Qed.
Example ex_medium : medium_class 6500 = 76 /\ class_bs 76 = 7168 /\ class_bc 76 = 9.
Proof. vm_compute. auto. Qed.
Example ex_large : large_span_count 70000 = 2 /\ regime_of 70000 = Large.
Proof. vm_compute. auto. Qed.
Example ex_huge : huge_pages 12 5000000 = 1221 /\ regime_of 5000000 = Huge.
Proof. vm_compute. auto. Qed.
Example ex_valid_block : valid_block 12 (BLarge 3) /\ realloc_inplace 12 (BLarge 3) 100000 196480 = true.
Proof. vm_compute. intuition discriminate. Qed.

Lemma realloc_copy : forall size oldsize, let n := realloc_new_size size oldsize in
  size <= n /\ Z.min oldsize size <= copy_len oldsize n /\ copy_len oldsize n <= oldsize /\ copy_len oldsize n <= n.
Proof. intros size oldsize n. split. apply realloc_new_size_ge. apply copy_len_spec. Qed.
