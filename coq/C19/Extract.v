From C19 Require Import Model ProofsSpans ProofsCombined.
Require Extraction.
Require Import ExtrOcamlBasic.
Extraction "model.ml" l_alloc heap_empty table_row regime_of class_of large_span_count huge_pages
  medium_limit huge_request realloc_inplace realloc_new_size copy_len usable_size chunk_of class_bs class_bc
  SMALL_SIZE_LIMIT MEDIUM_SIZE_LIMIT LARGE_SIZE_LIMIT SIZE_CLASS_COUNT
  sempty op_map op_from_reserve op_set_status op_unmap op_finalize
  cstep mk_cstate reserve_of.
