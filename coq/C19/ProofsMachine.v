(* C19: the per-class span machine (heap_size_class_t free list, partial span list, span free lists,
   free_list_limit, used_count) keeps the block indices of every span partitioned over any history. *)
From Coq Require Import Permutation.
From C19 Require Import Model Proofs.
Local Open Scope Z_scope.
Ltac Zify.zify_post_hook ::= Z.div_mod_to_equations.

(* ------------------------------------------------------------------ *)
(* projections of a list of (span, index) blocks on one span *)

Definition proj (s : Z) (l : list (Z * Z)) : list Z := map snd (filter (fun p => fst p =? s) l).

Lemma proj_cons_same : forall s i l, proj s ((s, i) :: l) = i :: proj s l.
Proof. intros. unfold proj. simpl. rewrite Z.eqb_refl. reflexivity. Qed.
Lemma proj_cons_other : forall s s' i l, s' <> s -> proj s ((s', i) :: l) = proj s l.
Proof. intros. unfold proj. simpl. destruct (s' =? s) eqn:E; [apply Z.eqb_eq in E; congruence | reflexivity]. Qed.
Lemma proj_map_pair_same : forall s l, proj s (map (pair s) l) = l.
Proof. induction l; [reflexivity|]. simpl. rewrite proj_cons_same. f_equal. assumption. Qed.
Lemma proj_map_pair_other : forall s s' l, s' <> s -> proj s (map (pair s') l) = [].
Proof. induction l; intros; [reflexivity|]. simpl. rewrite proj_cons_other by assumption. auto. Qed.
Lemma in_proj : forall s i l, In i (proj s l) <-> In (s, i) l.
Proof.
  intros. unfold proj. rewrite in_map_iff. split.
  - intros [[a b] [E H]]. simpl in E. subst b. apply filter_In in H. destruct H as [H F]. simpl in F.
    apply Z.eqb_eq in F. subst a. assumption.
  - intros H. exists (s, i). split; [reflexivity|]. apply filter_In. split; [assumption|]. simpl. apply Z.eqb_refl.
Qed.
Lemma proj_perm : forall s l l', Permutation l l' -> Permutation (proj s l) (proj s l').
Proof.
  intros s l l' P. unfold proj. apply Permutation_map.
  induction P; simpl.
  - constructor.
  - destruct (fst x =? s); [constructor|]; assumption.
  - destruct (fst x =? s), (fst y =? s); try constructor; apply Permutation_refl.
  - eapply Permutation_trans; eassumption.
Qed.

(* ------------------------------------------------------------------ *)
(* association list of spans *)

Lemma lookup_update_same : forall s st l, sp_lookup s l <> None -> sp_lookup s (sp_update s st l) = Some st.
Proof.
  induction l as [|[k v] r IH]; simpl; intros H; [congruence|].
  destruct (k =? s) eqn:E; simpl; rewrite E; [reflexivity | auto].
Qed.
Lemma lookup_update_other : forall s s' st l, s' <> s -> sp_lookup s' (sp_update s st l) = sp_lookup s' l.
Proof.
  induction l as [|[k v] r IH]; simpl; intros H; [reflexivity|].
  destruct (k =? s) eqn:E; simpl.
  - apply Z.eqb_eq in E. subst k. destruct (s =? s') eqn:F; [apply Z.eqb_eq in F; congruence | reflexivity].
  - destruct (k =? s'); auto.
Qed.
Lemma lookup_remove_same : forall s l, sp_lookup s (sp_remove s l) = None.
Proof.
  induction l as [|[k v] r IH]; simpl; [reflexivity|].
  destruct (k =? s) eqn:E; simpl; [assumption | rewrite E; assumption].
Qed.
Lemma lookup_remove_other : forall s s' l, s' <> s -> sp_lookup s' (sp_remove s l) = sp_lookup s' l.
Proof.
  induction l as [|[k v] r IH]; simpl; intros H; [reflexivity|].
  destruct (k =? s) eqn:E; simpl.
  - apply Z.eqb_eq in E. subst k. destruct (s =? s') eqn:F; [apply Z.eqb_eq in F; congruence | auto].
  - destruct (k =? s'); auto.
Qed.

Lemma zremove_not_in : forall s l, NoDup l -> ~ In s (zremove s l).
Proof.
  induction l as [|x r IH]; simpl; intros N; [auto|]. inversion N; subst.
  destruct (x =? s) eqn:E.
  - apply Z.eqb_eq in E. subst x. assumption.
  - apply Z.eqb_neq in E. simpl. intros [F | F]; [congruence | apply IH; assumption].
Qed.
Lemma zremove_in : forall s x l, In x (zremove s l) -> In x l.
Proof.
  induction l as [|y r IH]; simpl; [auto|]. destruct (y =? s); simpl; intuition.
Qed.
Lemma zremove_nodup : forall s l, NoDup l -> NoDup (zremove s l).
Proof.
  induction l as [|y r IH]; simpl; intros N; [constructor|]. inversion N; subst.
  destruct (y =? s); [assumption|]. constructor; [|auto]. intros F. apply zremove_in in F. contradiction.
Qed.

(* ------------------------------------------------------------------ *)
(* zrange *)

Lemma zrange_length : forall lo n, length (zrange lo n) = n.
Proof. intros. unfold zrange. rewrite map_length, seq_length. reflexivity. Qed.
Lemma zrange_S : forall lo n, zrange lo (S n) = lo :: zrange (lo + 1) n.
Proof.
  intros. unfold zrange. simpl. f_equal. lia. rewrite <- seq_shift, map_map. apply map_ext. intros. lia.
Qed.
Lemma zrange_app : forall n lo m, zrange lo (n + m) = zrange lo n ++ zrange (lo + Z.of_nat n) m.
Proof.
  induction n; intros; simpl plus.
  - replace (lo + Z.of_nat 0) with lo by lia. reflexivity.
  - rewrite !zrange_S. simpl. f_equal. rewrite IHn. f_equal. f_equal. lia.
Qed.
Lemma zrange_nodup : forall n lo, NoDup (zrange lo n).
Proof.
  induction n; intros. constructor. rewrite zrange_S. constructor; [|apply IHn].
  intros F. apply zrange_in in F. lia.
Qed.

Lemma nodup_app_r : forall (a b : list Z), NoDup (a ++ b) -> NoDup b.
Proof. induction a; simpl; intros; [assumption|]. inversion H; auto. Qed.
Lemma nodup_app_disj : forall (a b : list Z) x, NoDup (a ++ b) -> In x a -> ~ In x b.
Proof.
  induction a; simpl; intros b x N H; [contradiction|]. inversion N; subst.
  destruct H as [H | H].
  - subst. intro F. apply H2. apply in_or_app. right. assumption.
  - apply IHa; assumption.
Qed.

(* ------------------------------------------------------------------ *)

Section Machine.
  Variable bc : Z.
  Variable chunk : Z -> Z.
  Hypothesis bc_range : 1 <= bc < 2 ^ 32.
  Hypothesis chunk_ok : forall l, 0 <= l < bc -> 1 <= chunk l <= bc - l.

  (* blocks of span s: its own free list, the part of the heap-class free list that points into
     it, and the live (handed out, not yet freed) blocks partition the initialised indices
     [0, limit); used_count counts exactly the blocks that are live or in the heap-class list *)
  Definition span_inv (hfl live : list (Z * Z)) (s : Z) (st : span_st) : Prop :=
    1 <= sp_limit st <= bc /\
    Permutation (sp_free st ++ proj s hfl ++ proj s live) (zrange 0 (Z.to_nat (sp_limit st))) /\
    sp_used st = Z.of_nat (length (proj s hfl ++ proj s live)) /\
    1 <= sp_used st.

  Definition class_inv (cs : class_st) (live : list (Z * Z)) : Prop :=
    (forall s st, sp_lookup s (c_spans cs) = Some st -> span_inv (c_hfl cs) live s st) /\
    (forall s i, In (s, i) (c_hfl cs) \/ In (s, i) live -> sp_lookup s (c_spans cs) <> None) /\
    NoDup (c_partial cs) /\
    (forall s, In s (c_partial cs) -> exists st, sp_lookup s (c_spans cs) = Some st /\ fully bc st = false).

  Lemma class_inv_empty : class_inv class_empty [].
  Proof.
    unfold class_inv, class_empty; simpl. repeat split; try constructor; intros; try discriminate; intuition.
  Qed.

  Lemma span_inv_used_le : forall hfl live s st, span_inv hfl live s st ->
    sp_used st <= sp_limit st /\ sp_used st + Z.of_nat (length (sp_free st)) = sp_limit st.
  Proof.
    intros hfl live s st (L & P & U & U1). apply Permutation_length in P.
    rewrite app_length, zrange_length in P. lia.
  Qed.

  Lemma span_inv_index : forall hfl live s st i, span_inv hfl live s st ->
    In i (sp_free st ++ proj s hfl ++ proj s live) -> 0 <= i < bc.
  Proof.
    intros hfl live s st i (L & P & _) H. eapply Permutation_in in H; [|exact P].
    apply zrange_in in H. lia.
  Qed.

  Lemma span_inv_disjoint : forall hfl live s st i, span_inv hfl live s st ->
    In i (proj s hfl) -> ~ In i (proj s live).
  Proof.
    intros hfl live s st i (L & P & _) H F.
    assert (N : NoDup (sp_free st ++ proj s hfl ++ proj s live)).
    { eapply Permutation_NoDup; [apply Permutation_sym; exact P | apply zrange_nodup]. }
    apply nodup_app_r in N. eapply nodup_app_disj; eassumption.
  Qed.

  (* ---------------- allocation ---------------- *)

  Theorem class_alloc_safe : forall cs live fresh, class_inv cs live ->
    match class_alloc bc chunk cs fresh with
    | COk (cs', b, _) => class_inv cs' (b :: live) /\ ~ In b live /\ 0 <= snd b < bc
    | CErrOracle => sp_lookup fresh (c_spans cs) <> None
    | _ => False
    end.
  Proof.
    intros cs live fresh (I2 & I3 & I4 & I5). unfold class_alloc.
    destruct (c_hfl cs) as [|[s i] r] eqn:Hh.
    2: { (* pop the heap-class free list *)
      assert (Ls : sp_lookup s (c_spans cs) <> None) by (apply (I3 s i); left; left; reflexivity).
      destruct (sp_lookup s (c_spans cs)) as [st|] eqn:Lk; [|congruence].
      pose proof (I2 s st Lk) as SI.
      assert (Hi : In i (proj s ((s, i) :: r))) by (rewrite proj_cons_same; left; reflexivity).
      split; [|split].
      - unfold class_inv; simpl. split; [|split; [|split]].
        + intros s' st' Lk'. specialize (I2 s' st' Lk'). unfold span_inv in *.
          destruct I2 as (A & B & C & D). split; [assumption|].
          destruct (Z.eq_dec s' s) as [E | E].
          * subst s'. rewrite proj_cons_same in *. split; [|split; [|assumption]].
            -- eapply Permutation_trans; [|exact B].
               apply Permutation_app_head. apply Permutation_sym. apply Permutation_middle.
            -- rewrite C. rewrite !app_length. simpl. lia.
          * rewrite !(proj_cons_other s' s) in * by congruence. auto.
        + intros s' i' [H | [H | H]].
          * apply (I3 s' i'). left. right. assumption.
          * inversion H; subst. congruence.
          * apply (I3 s' i'). right. assumption.
        + assumption.
        + assumption.
      - intros F. apply (span_inv_disjoint _ _ _ _ i SI Hi). apply in_proj. assumption.
      - simpl. eapply span_inv_index; [exact SI|]. apply in_or_app. right. apply in_or_app. left. assumption. }
    destruct (c_partial cs) as [|s pr] eqn:Hp.
    - (* a new span from the environment *)
      destruct (sp_lookup fresh (c_spans cs)) eqn:Lf; [congruence|].
      pose proof (chunk_ok 0 ltac:(lia)) as K. set (k := chunk 0) in *.
      assert (Hlive : proj fresh live = []).
      { destruct (proj fresh live) as [|i t] eqn:E; [reflexivity|].
        assert (In i (proj fresh live)) by (rewrite E; left; reflexivity).
        apply in_proj in H. exfalso. apply (I3 fresh i); [right; assumption | assumption]. }
      set (st' := if k <? bc then mk_span [] k k else mk_span [] k bc).
      assert (Est : sp_free st' = [] /\ sp_limit st' = k /\ sp_used st' = k).
      { unfold st'. destruct (k <? bc) eqn:E; simpl; [auto|]. apply Z.ltb_ge in E. repeat split; lia. }
      destruct Est as (E1 & E2 & E3).
      split; [|split].
      + unfold class_inv; simpl. split; [|split; [|split]].
        * intros s' st'' Lk'. destruct (fresh =? s') eqn:E.
          -- apply Z.eqb_eq in E. subst s'. inversion Lk'; subst st''. unfold span_inv.
             rewrite E1, E2, E3. rewrite proj_map_pair_same, proj_cons_same, Hlive. simpl app.
             split; [lia|]. split; [|split; [|lia]].
             ++ replace (Z.to_nat k) with (S (Z.to_nat (k - 1))) by lia. rewrite zrange_S.
                apply Permutation_sym. apply Permutation_cons_append.
             ++ rewrite app_length, zrange_length. simpl. lia.
          -- apply Z.eqb_neq in E. specialize (I2 s' st'' Lk'). unfold span_inv in *.
             rewrite proj_map_pair_other by assumption. rewrite proj_cons_other by assumption. exact I2.
        * intros s' i' H. destruct (fresh =? s') eqn:E; [discriminate|]. apply Z.eqb_neq in E.
          destruct H as [H | [H | H]].
          -- apply in_map_iff in H. destruct H as (x & Hx & _). inversion Hx. congruence.
          -- inversion H. congruence.
          -- apply (I3 s' i'). right. assumption.
        * destruct (k <? bc); constructor; [intros []| constructor].
        * intros s' H. destruct (k <? bc) eqn:E; [|destruct H]. destruct H as [H|[]]. subst s'.
          rewrite Z.eqb_refl. exists st'. split; [reflexivity|]. unfold fully. rewrite E1, E2.
          apply Z.leb_gt. apply Z.ltb_lt. assumption.
      + intros F. apply (I3 fresh 0); [right; assumption | assumption].
      + simpl. lia.
    - (* head of the partial list *)
      destruct (I5 s ltac:(left; reflexivity)) as (st & Lk & Fu). rewrite Lk.
      pose proof (I2 s st Lk) as SI.
      destruct SI as (SL & SP & SU & SU1). unfold proj at 1 in SP. simpl in SP.
      unfold proj at 1 in SU. simpl in SU.
      inversion I4 as [|? ? Nin Nd]; subst.
      assert (Lne : sp_lookup s (c_spans cs) <> None) by congruence.
      destruct (sp_free st) as [|i fr] eqn:Hf.
      + (* initialise another page worth of blocks *)
        unfold fully in Fu. rewrite Hf in Fu. apply Z.leb_gt in Fu.
        pose proof (chunk_ok (sp_limit st) ltac:(lia)) as K. set (k := chunk (sp_limit st)) in *.
        set (lim := sp_limit st) in *.
        rewrite (u32_small (lim + k)) by lia.
        set (st' := mk_span [] (lim + k) (lim + k)).
        split; [|split].
        * unfold class_inv; simpl. split; [|split; [|split]].
          -- intros s' st'' Lk'. destruct (Z.eq_dec s' s) as [E | E].
             ++ subst s'. rewrite lookup_update_same in Lk' by assumption. inversion Lk'; subst st''.
                unfold span_inv. simpl. rewrite proj_map_pair_same, proj_cons_same.
                split; [lia|]. split; [|split; [|lia]].
                ** replace (Z.to_nat (lim + k)) with (Z.to_nat lim + S (Z.to_nat (k - 1)))%nat by lia.
                   rewrite zrange_app, zrange_S. rewrite Z2Nat.id by lia. simpl.
                   eapply Permutation_trans.
                   2: { apply Permutation_app_comm. }
                   simpl. apply Permutation_sym. eapply Permutation_trans.
                   { apply Permutation_cons; [reflexivity|]. apply Permutation_app_head. apply Permutation_sym. exact SP. }
                   apply Permutation_middle.
                ** rewrite app_length, zrange_length. simpl. apply Permutation_length in SP.
                   rewrite zrange_length in SP. simpl in SP. lia.
             ++ rewrite lookup_update_other in Lk' by assumption. specialize (I2 s' st'' Lk').
                unfold span_inv in *.
                rewrite proj_map_pair_other by congruence. rewrite proj_cons_other by congruence. exact I2.
          -- intros s' i' H. destruct (Z.eq_dec s' s) as [E | E].
             ++ subst s'. rewrite lookup_update_same by assumption. discriminate.
             ++ rewrite lookup_update_other by assumption. destruct H as [H | [H | H]].
                ** apply in_map_iff in H. destruct H as (x & Hx & _). inversion Hx. congruence.
                ** inversion H. congruence.
                ** apply (I3 s' i'). right. assumption.
          -- destruct (fully bc st'); [assumption | constructor; assumption].
          -- intros s' H. destruct (fully bc st') eqn:Fs.
             ++ assert (s' <> s) by (intro; subst; contradiction).
                rewrite lookup_update_other by assumption. apply I5. right. assumption.
             ++ destruct H as [H | H].
                ** subst s'. rewrite lookup_update_same by assumption. exists st'. auto.
                ** assert (s' <> s) by (intro; subst; contradiction).
                   rewrite lookup_update_other by assumption. apply I5. right. assumption.
        * intros F. assert (In lim (proj s live)) by (apply in_proj; assumption).
          eapply Permutation_in in H; [|exact SP]. apply zrange_in in H. lia.
        * simpl. lia.
      + (* swap the span-local free list into the heap class *)
        set (lim := sp_limit st) in *.
        set (st' := mk_span [] lim lim).
        split; [|split].
        * unfold class_inv; simpl. split; [|split; [|split]].
          -- intros s' st'' Lk'. destruct (Z.eq_dec s' s) as [E | E].
             ++ subst s'. rewrite lookup_update_same in Lk' by assumption. inversion Lk'; subst st''.
                unfold span_inv. simpl. rewrite proj_map_pair_same, proj_cons_same.
                split; [lia|]. split; [|split; [|lia]].
                ** eapply Permutation_trans; [|exact SP]. simpl. apply Permutation_sym. apply Permutation_middle.
                ** apply Permutation_length in SP. rewrite zrange_length in SP.
                   rewrite app_length in *. simpl in *. lia.
             ++ rewrite lookup_update_other in Lk' by assumption. specialize (I2 s' st'' Lk').
                unfold span_inv in *.
                rewrite proj_map_pair_other by congruence. rewrite proj_cons_other by congruence. exact I2.
          -- intros s' i' H. destruct (Z.eq_dec s' s) as [E | E].
             ++ subst s'. rewrite lookup_update_same by assumption. discriminate.
             ++ rewrite lookup_update_other by assumption. destruct H as [H | [H | H]].
                ** apply in_map_iff in H. destruct H as (x & Hx & _). inversion Hx. congruence.
                ** inversion H. congruence.
                ** apply (I3 s' i'). right. assumption.
          -- destruct (fully bc st'); [assumption | constructor; assumption].
          -- intros s' H. destruct (fully bc st') eqn:Fs.
             ++ assert (s' <> s) by (intro; subst; contradiction).
                rewrite lookup_update_other by assumption. apply I5. right. assumption.
             ++ destruct H as [H | H].
                ** subst s'. rewrite lookup_update_same by assumption. exists st'. auto.
                ** assert (s' <> s) by (intro; subst; contradiction).
                   rewrite lookup_update_other by assumption. apply I5. right. assumption.
        * intros F. assert (In i (proj s live)) by (apply in_proj; assumption).
          assert (N : NoDup ((i :: fr) ++ proj s live)).
          { eapply Permutation_NoDup; [apply Permutation_sym; exact SP | apply zrange_nodup]. }
          simpl in N. inversion N; subst. apply H2. apply in_or_app. right. assumption.
        * simpl. assert (In i ((i :: fr) ++ proj s live)) by (left; reflexivity).
          eapply Permutation_in in H; [|exact SP]. apply zrange_in in H. lia.
  Qed.
End Machine.

Section Machine2.
  Variable bc : Z.
  Variable chunk : Z -> Z.
  Hypothesis bc_range : 1 <= bc < 2 ^ 32.
  Hypothesis chunk_ok : forall l, 0 <= l < bc -> 1 <= chunk l <= bc - l.

  (* ---------------- deallocation of a live block ---------------- *)
  Theorem class_free_safe : forall cs live live' b, class_inv bc cs live -> Permutation live (b :: live') ->
    exists cs', class_free bc cs b = COk cs' /\ class_inv bc cs' live'.
  Proof.
    intros cs live live' [s i] (I2 & I3 & I4 & I5) PL. unfold class_free.
    assert (Lin : In (s, i) live) by (eapply Permutation_in; [apply Permutation_sym; exact PL | left; reflexivity]).
    assert (Lne : sp_lookup s (c_spans cs) <> None) by (apply (I3 s i); right; assumption).
    destruct (sp_lookup s (c_spans cs)) as [st|] eqn:Lk; [|congruence].
    pose proof (I2 s st Lk) as SI.
    destruct SI as (SL & SP & SU & SU1).
    assert (UF : sp_used st + Z.of_nat (length (sp_free st)) = sp_limit st).
    { pose proof (Permutation_length SP) as PLn. rewrite app_length, zrange_length in PLn. lia. }
    assert (UL : sp_used st <= sp_limit st) by lia.
    pose proof (proj_perm s _ _ PL) as PP. rewrite proj_cons_same in PP.
    (* the used count the C code works with is the stored one, also for a fully utilised span *)
    assert (U0 : (if fully bc st then bc else sp_used st) = sp_used st).
    { unfold fully. destruct (sp_free st) eqn:Hf; [|reflexivity].
      destruct (bc <=? sp_limit st) eqn:E; [|reflexivity]. apply Z.leb_le in E. simpl in UF. lia. }
    rewrite U0. rewrite (u32_small (sp_used st - 1)) by lia.
    (* facts used by both branches *)
    assert (Others : forall s' st'', s' <> s -> sp_lookup s' (c_spans cs) = Some st'' ->
                     span_inv bc (c_hfl cs) live' s' st'').
    { intros s' st'' Ne Lk'. specialize (I2 s' st'' Lk'). unfold span_inv in *.
      pose proof (proj_perm s' _ _ PL) as Q. rewrite proj_cons_other in Q by congruence.
      destruct I2 as (A & B & C & D). split; [assumption|]. split; [|split; [|assumption]].
      - eapply Permutation_trans; [|exact B]. apply Permutation_app_head. apply Permutation_app_head.
        apply Permutation_sym. assumption.
      - rewrite C. rewrite !app_length. apply Permutation_length in Q. lia. }
    assert (Live' : forall s' i', In (s', i') live' -> In (s', i') live).
    { intros. eapply Permutation_in; [apply Permutation_sym; exact PL | right; assumption]. }
    assert (Part1 : NoDup (if fully bc st then s :: c_partial cs else c_partial cs)).
    { destruct (fully bc st) eqn:Fu; [|assumption]. constructor; [|assumption].
      intros F. destruct (I5 s F) as (st2 & L2 & F2). rewrite Lk in L2. inversion L2; subst. congruence. }
    assert (Part1in : forall s', s' <> s -> In s' (if fully bc st then s :: c_partial cs else c_partial cs) -> In s' (c_partial cs)).
    { intros s' Ne H. destruct (fully bc st); [destruct H; [congruence | assumption] | assumption]. }
    destruct (sp_used st - 1 =? 0) eqn:Z0.
    - (* last used block: the span leaves the class *)
      apply Z.eqb_eq in Z0. eexists. split; [reflexivity|].
      assert (Emp : proj s (c_hfl cs) = [] /\ proj s live' = []).
      { apply Permutation_length in PP. rewrite app_length in SU. simpl in PP.
        destruct (proj s (c_hfl cs)); destruct (proj s live'); simpl in *; try lia. auto. }
      destruct Emp as (E1 & E2).
      unfold class_inv; simpl. split; [|split; [|split]].
      + intros s' st'' Lk'. destruct (Z.eq_dec s' s) as [E | E].
        * subst s'. rewrite lookup_remove_same in Lk'. discriminate.
        * rewrite lookup_remove_other in Lk' by assumption. apply Others; assumption.
      + intros s' i' H. destruct (Z.eq_dec s' s) as [E | E].
        * subst s'. exfalso. destruct H as [H | H]; apply in_proj in H.
          -- rewrite E1 in H. destruct H.
          -- rewrite E2 in H. destruct H.
        * rewrite lookup_remove_other by assumption. apply (I3 s' i'). destruct H; [left | right]; auto.
      + apply zremove_nodup. assumption.
      + intros s' H. assert (s' <> s).
        { intro; subst s'. apply (zremove_not_in s _ Part1). assumption. }
        apply zremove_in in H. rewrite lookup_remove_other by assumption. apply I5. apply Part1in; assumption.
    - apply Z.eqb_neq in Z0. eexists. split; [reflexivity|].
      unfold class_inv; simpl. split; [|split; [|split]].
      + intros s' st'' Lk'. destruct (Z.eq_dec s' s) as [E | E].
        * subst s'. rewrite lookup_update_same in Lk' by (rewrite Lk; discriminate). inversion Lk'; subst st''.
          unfold span_inv; simpl. split; [assumption|]. split; [|split; [|lia]].
          -- eapply Permutation_trans; [|exact SP].
             apply Permutation_trans with (sp_free st ++ proj s (c_hfl cs) ++ i :: proj s live').
             ++ rewrite app_assoc. rewrite (app_assoc (sp_free st)). apply Permutation_middle.
             ++ apply Permutation_app_head. apply Permutation_app_head. apply Permutation_sym. assumption.
          -- rewrite SU. rewrite !app_length. apply Permutation_length in PP. simpl in PP. lia.
        * rewrite lookup_update_other in Lk' by assumption. apply Others; assumption.
      + intros s' i' H. destruct (Z.eq_dec s' s) as [E | E].
        * subst s'. rewrite lookup_update_same by (rewrite Lk; discriminate). discriminate.
        * rewrite lookup_update_other by assumption. apply (I3 s' i'). destruct H; [left | right]; auto.
      + assumption.
      + intros s' H. destruct (Z.eq_dec s' s) as [E | E].
        * subst s'. rewrite lookup_update_same by (rewrite Lk; discriminate). eexists. split; [reflexivity|]. reflexivity.
        * rewrite lookup_update_other by assumption. apply I5. apply Part1in; assumption.
  Qed.

  (* freeing a block that is not live in this class is refused or harmless for the invariant only
     when the caller respects the precondition; L_alloc's caller (Lua) only frees live blocks. *)

  (* ---------------- any history ---------------- *)
  Inductive cop := CAlloc (fresh : Z) | CFree (b : Z * Z).

  (* ghost-instrumented run: the list of live blocks is tracked next to the machine state.
     A free of a block that is not live, or an environment span that is still owned, stops the run
     with the corresponding error; CErrCorrupt is the machine finding its own state inconsistent. *)
  Fixpoint remove_one (b : Z * Z) (l : list (Z * Z)) : option (list (Z * Z)) :=
    match l with
    | [] => None
    | x :: r => if (fst x =? fst b) && (snd x =? snd b) then Some r
                else match remove_one b r with Some r' => Some (x :: r') | None => None end
    end.
  Lemma remove_one_perm : forall b l l', remove_one b l = Some l' -> Permutation l (b :: l').
  Proof.
    induction l as [|x r IH]; simpl; intros l' H; [discriminate|].
    destruct ((fst x =? fst b) && (snd x =? snd b)) eqn:E.
    - inversion H; subst. apply andb_prop in E. destruct E as [E1 E2]. apply Z.eqb_eq in E1, E2.
      destruct x, b; simpl in *; subst. apply Permutation_refl.
    - destruct (remove_one b r) eqn:R; [|discriminate]. inversion H; subst.
      eapply Permutation_trans; [apply Permutation_cons; [reflexivity | apply IH; reflexivity]|]. apply perm_swap.
  Qed.

  Fixpoint run (cs : class_st) (live : list (Z * Z)) (ops : list cop) : cres (class_st * list (Z * Z)) :=
    match ops with
    | [] => COk (cs, live)
    | CAlloc fresh :: r =>
      match class_alloc bc chunk cs fresh with
      | COk (cs', b, _) => run cs' (b :: live) r
      | CErrOracle => CErrOracle | CErrCorrupt => CErrCorrupt
      | CErrBadFree => CErrBadFree | CErrUnmodelled => CErrUnmodelled | CNull => CNull
      end
    | CFree b :: r =>
      match remove_one b live with
      | None => CErrBadFree
      | Some live' =>
        match class_free bc cs b with
        | COk cs' => run cs' live' r
        | CErrOracle => CErrOracle | CErrCorrupt => CErrCorrupt
        | CErrBadFree => CErrBadFree | CErrUnmodelled => CErrUnmodelled | CNull => CNull
        end
      end
    end.

  Definition all_good (cs : class_st) (live : list (Z * Z)) : Prop :=
    class_inv bc cs live /\ NoDup live /\ (forall b, In b live -> 0 <= snd b < bc).

  Theorem run_safe : forall ops cs live, all_good cs live ->
    match run cs live ops with
    | COk (cs', live') => all_good cs' live'
    | CErrOracle | CErrBadFree => True      (* the environment / the caller broke a precondition *)
    | CErrCorrupt | CErrUnmodelled | CNull => False
    end.
  Proof.
    induction ops as [|op r IH]; intros cs live (Iv & N & R); simpl.
    - split; [assumption | split; assumption].
    - destruct op as [fresh | b].
      + pose proof (class_alloc_safe bc chunk bc_range chunk_ok cs live fresh Iv) as A.
        destruct (class_alloc bc chunk cs fresh) as [[[cs' b] u]| | | | |]; try contradiction; [|exact I].
        destruct A as (I' & Nin & Rb). apply IH. split; [assumption|]. split.
        * constructor; assumption.
        * intros b' [H | H]; [subst; assumption | auto].
      + destruct (remove_one b live) as [live'|] eqn:Ro; [|exact I].
        pose proof (remove_one_perm _ _ _ Ro) as P.
        destruct (class_free_safe cs live live' b Iv P) as (cs' & E & I'). rewrite E.
        apply IH. split; [assumption|]. split.
        * eapply Permutation_NoDup in N; [|exact P]. inversion N; assumption.
        * intros b' H. apply R. eapply Permutation_in; [apply Permutation_sym; exact P | right; assumption].
  Qed.

  Corollary history_safe : forall ops,
    match run class_empty [] ops with
    | COk (cs', live') => all_good cs' live'
    | CErrOracle | CErrBadFree => True
    | CErrCorrupt | CErrUnmodelled | CNull => False
    end.
  Proof.
    intros. apply run_safe. split; [apply class_inv_empty; lia|]. split; [constructor | intros b H; destruct H].
  Qed.
End Machine2.

(* the page-wise initialisation of srpmalloc.c satisfies what the machine needs from it *)
Lemma cdiv_le : forall x b n, 0 < b -> x <= b * n -> cdiv x b <= n.
Proof.
  intros. unfold cdiv. assert ((x + b - 1) / b < n + 1); [|lia]. apply Z.div_lt_upper_bound; lia.
Qed.

Lemma pinit_count_range : forall psz bs start page_start count, 0 < bs -> 1 <= count ->
  1 <= pinit_count psz bs start page_start count <= count.
Proof.
  intros. unfold pinit_count. destruct (1 <? count) eqn:E; [apply Z.ltb_lt in E | lia].
  set (be0 := start + bs * count).
  set (be := if bs <? Z.shiftr psz 1 then if page_start + psz <? be0 then page_start + psz else be0 else be0).
  assert (be <= be0).
  { unfold be. destruct (bs <? Z.shiftr psz 1); [|lia]. destruct (page_start + psz <? be0) eqn:F; [apply Z.ltb_lt in F|]; lia. }
  assert (cdiv (be - start) bs <= count) by (apply cdiv_le; unfold be0 in *; lia).
  lia.
Qed.

Lemma chunk_of_ok : forall psh c, valid_class c ->
  forall l, 0 <= l < class_bc c -> 1 <= chunk_of psh (class_bs c) (class_bc c) l <= class_bc c - l.
Proof.
  intros psh c (_ & Hbs & _ & _ & _) l Hl. unfold chunk_of. apply pinit_count_range; lia.
Qed.

Lemma class_free_safe_nochunk : forall bc, 1 <= bc < 2 ^ 32 ->
  forall cs live live' b, class_inv bc cs live -> Permutation live (b :: live') ->
  exists cs', class_free bc cs b = COk cs' /\ class_inv bc cs' live'.
Proof. intros bc R. apply (class_free_safe bc (fun l => bc - l) R). intros; lia. Qed.

Lemma used_count_exact : forall bc cs live s st, class_inv bc cs live ->
  sp_lookup s (c_spans cs) = Some st ->
  Permutation (sp_free st ++ proj s (c_hfl cs) ++ proj s live) (zrange 0 (Z.to_nat (sp_limit st))) /\
  sp_used st = Z.of_nat (length (proj s (c_hfl cs)) + length (proj s live)) /\
  sp_used st + Z.of_nat (length (sp_free st)) = sp_limit st /\ 1 <= sp_limit st <= bc.
Proof.
  intros bc cs live s st (I2 & _) Lk. destruct (I2 s st Lk) as (L & P & U & U1).
  split; [assumption|]. rewrite app_length in U. split; [assumption|]. split; [|assumption].
  pose proof (Permutation_length P) as PLn. rewrite !app_length, zrange_length in PLn. lia.
Qed.

Lemma span_machine_history : forall psh c, valid_class c -> forall ops,
  match run (class_bc c) (chunk_of psh (class_bs c) (class_bc c)) class_empty [] ops with
  | COk (cs, live) => class_inv (class_bc c) cs live /\ NoDup live /\ (forall b, In b live -> 0 <= snd b < class_bc c)
  | CErrOracle | CErrBadFree => True
  | CErrCorrupt | CErrUnmodelled | CNull => False
  end.
Proof.
  intros psh c V ops.
  assert (R : 1 <= class_bc c < 2 ^ 32) by (destruct V as (_ & _ & _ & _ & B); lia).
  exact (history_safe (class_bc c) (chunk_of psh (class_bs c) (class_bc c)) R (chunk_of_ok psh c V) ops).
Qed.

(* non-vacuity: a concrete history on the real 112-byte class (block_count 584, 4 KiB pages)
   reaches a state with two spans' worth of activity *)
Example ex_history :
  match run (class_bc 7) (chunk_of 12 (class_bs 7) (class_bc 7)) class_empty []
          [CAlloc 5; CAlloc 5; CAlloc 5; CFree (5, 1); CAlloc 6; CFree (5, 0); CFree (5, 2); CAlloc 9] with
  | COk (cs, live) => live = [(5, 4); (5, 3)]
  | _ => False
  end.
Proof. vm_compute. reflexivity. Qed.
