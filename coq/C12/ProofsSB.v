(* C12 - stringbuilder.nelua refines the byte string (list of bytes); the NUL slot; the commit guard. *)
From Coq Require Import ZArith List Bool Lia Arith.
From C12 Require Import Gen Model ProofsBase ProofsVec ProofsSeq.
Import ListNotations.

Lemma sb_init_pos : 1 <= SB_INIT_CAP_n.
Proof. vm_compute. lia. Qed.
Lemma sb_mul_ge2 : 2 <= SB_GROW_MUL_n.
Proof. vm_compute. lia. Qed.

(* well-formed builder: empty and unallocated, or size < capacity (the NUL slot exists), capacity at least the
   initial one, and every byte from [size] on is zero (in particular the NUL slot) *)

Ltac sb_cases W := unfold sb_wf in W; cbn [sbdata sbsize] in W; destruct W as [[Wd Ws]|(W1 & W2 & W3)]; cbn [sbdata sbsize] in *; [subst|].

Lemma sb_view_len : forall b, sb_wf b -> length (sb_view b) = sbsize b.
Proof.
  intros [d s] W. unfold sb_view; cbn [sbdata sbsize]. rewrite firstn_length.
  unfold sb_wf in W; cbn [sbdata sbsize] in W. destruct W as [[-> ->]|(H & _)]; cbn in *; lia.
Qed.

Lemma sb_cap_loop_ok : forall needed fuel cap, SB_INIT_CAP_n <= cap -> needed - cap < fuel ->
  exists c, sb_cap_loop fuel cap needed = Ok c /\ needed <= c /\ cap <= c.
Proof.
  intros needed. pose proof sb_init_pos. pose proof sb_mul_ge2.
  induction fuel; intros cap Hc Hf; [lia|]. cbn [sb_cap_loop].
  destruct (Nat.ltb_spec cap needed).
  - destruct (Nat.leb_spec (cap * SB_GROW_MUL_n) SB_INIT_CAP_n); [nia|].
    destruct (IHfuel (cap * SB_GROW_MUL_n) ltac:(nia) ltac:(nia)) as (c & -> & A & B).
    exists c. split; [reflexivity|]. split; [assumption|nia].
  - exists cap. split; [reflexivity|lia].
Qed.

(* grow: afterwards newsize < capacity; contents kept; new bytes are zero *)
Lemma sb_grow_ok : forall newsize b, sb_wf b ->
  exists k, sb_grow newsize b = Ok (mksb (sbdata b ++ repeat 0%Z k) (sbsize b)) /\
            newsize < length (sbdata b) + k /\ (k = 0 \/ SB_INIT_CAP_n <= length (sbdata b) + k).
Proof.
  intros newsize [d s] W. unfold sb_grow; cbn [sbdata sbsize]. pose proof sb_init_pos.
  destruct (Nat.leb_spec (newsize + 1) (length d)).
  - exists 0. cbn [repeat]. rewrite app_nil_r. split; [reflexivity|]. split; [lia|left; reflexivity].
  - set (c0 := if length d =? 0 then SB_INIT_CAP_n else length d).
    assert (SB_INIT_CAP_n <= c0 /\ length d <= c0) as [H1 H2].
    { unfold c0. destruct (Nat.eqb_spec (length d) 0); [lia|].
      sb_cases W; cbn in *; lia. }
    destruct (sb_cap_loop_ok (newsize + 1) (S (newsize + 1)) c0 H1 ltac:(lia)) as (c & -> & A & B). cbn [rbind].
    exists (c - length d). rewrite srealloc_grow by lia. split; [reflexivity|]. split; [lia|right; lia].
Qed.


Lemma sb_ext_wf : forall d s k, sb_wf (mksb d s) -> (k = 0 \/ SB_INIT_CAP_n <= length d + k) -> s < length d + k ->
  sb_wf (mksb (d ++ repeat 0%Z k) s) /\ sb_view (mksb (d ++ repeat 0%Z k) s) = sb_view (mksb d s).
Proof.
  intros d s k W Hk Hs. pose proof sb_init_pos. split.
  - right. cbn [sbdata sbsize]. rewrite app_length, repeat_length. split; [assumption|]. split.
    + sb_cases W; cbn [length] in *; lia.
    + intros i Hi Hl. rewrite nthe_app, nthe_repeat. destruct (Nat.ltb_spec i (length d)).
      * sb_cases W; [cbn in *; lia|]. apply W3; assumption.
      * destruct (Nat.ltb_spec (i - length d) k); [reflexivity|lia].
  - unfold sb_view; cbn [sbdata sbsize]. sb_cases W; [reflexivity|]. pw_ext.
Qed.

(* appending the bytes xs after a successful grow *)
Lemma sb_append_ok : forall d s xs, sb_wf (mksb d s) -> s + length xs < length d ->
  sb_wf (mksb (overwrite s xs d) (s + length xs)) /\
  sb_view (mksb (overwrite s xs d) (s + length xs)) = sb_view (mksb d s) ++ xs.
Proof.
  intros d s xs W H. split.
  - right. cbn [sbdata sbsize]. rewrite length_overwrite by lia. sb_cases W; [cbn in *; lia|].
    split; [assumption|]. split; [assumption|]. intros i Hi Hl. rewrite nthe_overwrite_in by lia.
    destruct (Nat.ltb_spec i s); [lia|]. destruct (Nat.ltb_spec i (s + length xs)); [lia|]. apply W3; lia.
  - unfold sb_view; cbn [sbdata sbsize]. apply nth_error_ext; intro i.
    rewrite nthe_firstn, nthe_overwrite_in, nthe_app, nthe_firstn, firstn_length by lia.
    replace (Nat.min s (length d)) with s by lia. ltb_cases; nth_close.
Qed.

Lemma sb_prepare_ok : forall n b, sb_wf b ->
  exists k, sb_prepare n b = Ok (mksb (sbdata b ++ repeat 0%Z k) (sbsize b), length (sbdata b) + k - sbsize b - 1) /\
            sbsize b + n < length (sbdata b) + k /\ (k = 0 \/ SB_INIT_CAP_n <= length (sbdata b) + k).
Proof.
  intros n b W. unfold sb_prepare. destruct (sb_grow_ok (sbsize b + n) b W) as (k & -> & A & B). cbn [rbind sbdata sbsize].
  exists k. rewrite app_length, repeat_length. auto.
Qed.


Lemma sb_write_ok : forall xs b, sb_wf b ->
  exists b', sb_write xs b = Ok b' /\ sb_wf b' /\ sb_view b' = sb_view b ++ xs.
Proof.
  intros xs b W. unfold sb_write. destruct (Nat.eqb_spec (length xs) 0) as [E|E].
  - apply length_zero_iff_nil in E. subst xs. rewrite app_nil_r. eauto.
  - destruct (sb_prepare_ok (length xs) b W) as (k & -> & A & B). cbn [rbind fst].
    unfold sb_poke; cbn [sbdata sbsize]. rewrite app_length, repeat_length.
    destruct (Nat.leb_spec (sbsize b + length xs) (length (sbdata b) + k)); [|lia]. cbn [rbind sbdata sbsize].
    destruct b as [d s]; cbn [sbdata sbsize] in *.
    destruct (sb_ext_wf d s k W B ltac:(lia)) as (W' & V').
    destruct (sb_append_ok (d ++ repeat 0%Z k) s xs W' ltac:(rewrite app_length, repeat_length; lia)) as (W'' & V'').
    eexists; split; [reflexivity|]. split; [assumption|]. rewrite V'', V'. reflexivity.
Qed.

Lemma sb_write_parts_ok : forall parts written b, sb_wf b ->
  exists b', sb_write_parts parts written b = Ok (b', BOkN true (written + length (concat parts))) /\
             sb_wf b' /\ sb_view b' = sb_view b ++ concat parts.
Proof.
  induction parts as [|xs tl IH]; intros written b W; cbn [sb_write_parts concat].
  - rewrite app_nil_r, Nat.add_0_r. eauto.
  - destruct (sb_write_ok xs b W) as (b1 & -> & W1 & V1). cbn [rbind].
    destruct (IH (written + length xs) b1 W1) as (b' & -> & W' & V'). exists b'.
    split; [rewrite app_length; do 3 f_equal; lia|]. split; [assumption|]. rewrite V', V1, app_assoc. reflexivity.
Qed.

(* the protocol of prepare/commit, in the state where it is used: the client writes no more bytes than the span
   that prepare(n) actually returned holds (that span has capacity - size - 1 >= n bytes) *)

Theorem sb_step_refines_at : forall o b, sb_wf b -> sb_op_ok_at b o ->
  match by_step o (sb_view b) with
  | Ok (l', r) => exists b', sb_step o b = Ok (b', r) /\ sb_wf b' /\ sb_view b' = l'
  | Trap t => sb_step o b = Trap t
  end.
Proof.
  intros o b W OK. destruct o; cbn [by_step sb_step]; cbn [sb_op_ok_at] in OK; try contradiction.
  - (* write *)
    unfold sb_write. destruct (Nat.eqb_spec (length xs) 0) as [E|E].
    + cbn [rbind]. apply length_zero_iff_nil in E. subst xs. rewrite app_nil_r. eauto.
    + destruct (sb_prepare_ok (length xs) b W) as (k & -> & A & B). cbn [rbind fst].
      unfold sb_poke; cbn [sbdata sbsize]. rewrite app_length, repeat_length.
      destruct (Nat.leb_spec (sbsize b + length xs) (length (sbdata b) + k)); [|lia]. cbn [rbind sbdata sbsize].
      destruct b as [d s]; cbn [sbdata sbsize] in *.
      destruct (sb_ext_wf d s k W B ltac:(lia)) as (W' & V').
      destruct (sb_append_ok (d ++ repeat 0%Z k) s xs W' ltac:(rewrite app_length, repeat_length; lia)) as (W'' & V'').
      eexists; split; [reflexivity|]. split; [assumption|]. rewrite V'', V'. reflexivity.
  - (* writebyte *)
    unfold sb_writebyte. destruct (Nat.eqb_spec n 0) as [E|E].
    + subst n. cbn [rbind repeat]. rewrite app_nil_r. eauto.
    + destruct (sb_prepare_ok n b W) as (k & -> & A & B). cbn [rbind fst].
      unfold sb_poke; cbn [sbdata sbsize]. rewrite app_length, !repeat_length.
      destruct (Nat.leb_spec (sbsize b + n) (length (sbdata b) + k)); [|lia]. cbn [rbind sbdata sbsize].
      destruct b as [d s]; cbn [sbdata sbsize] in *.
      destruct (sb_ext_wf d s k W B ltac:(lia)) as (W' & V').
      destruct (sb_append_ok (d ++ repeat 0%Z k) s (repeat c n) W' ltac:(rewrite app_length, !repeat_length; lia)) as (W'' & V'').
      rewrite repeat_length in W'', V''.
      eexists; split; [reflexivity|]. split; [assumption|]. rewrite V'', V'. reflexivity.
  - (* prepare / write into the span / commit *)
    unfold sb_prepare_write_commit. destruct (sb_prepare_ok n b W) as (k & E & A & B).
    specialize (OK _ E). cbn [snd] in OK. rewrite E. cbn [rbind fst snd].
    destruct (Nat.ltb_spec (length (sbdata b) + k - sbsize b - 1) (length xs)); [lia|].
    unfold sb_poke; cbn [sbdata sbsize]. rewrite app_length, repeat_length.
    destruct (Nat.leb_spec (sbsize b + length xs) (length (sbdata b) + k)); [|lia]. cbn [rbind].
    unfold sb_commit; cbn [sbdata sbsize]. rewrite length_overwrite by (rewrite app_length, repeat_length; lia).
    rewrite app_length, repeat_length.
    destruct (Nat.ltb_spec (sbsize b + length xs) (length (sbdata b) + k)); [|lia]. rewrite orb_true_r.
    destruct b as [d s]; cbn [sbdata sbsize] in *.
    destruct (sb_ext_wf d s k W B ltac:(lia)) as (W' & V').
    destruct (sb_append_ok (d ++ repeat 0%Z k) s xs W' ltac:(rewrite app_length, repeat_length; lia)) as (W'' & V'').
    eexists; split; [reflexivity|]. split; [assumption|]. rewrite V'', V'. reflexivity.
  - (* rollback *)
    rewrite sb_view_len by assumption. unfold sb_rollback.
    destruct (Nat.eqb_spec n 0) as [E|E].
    + subst n. destruct (Nat.ltb_spec (sbsize b) 0); [lia|]. rewrite Nat.sub_0_r.
      eexists; split; [reflexivity|]. split; [assumption|].
      symmetry. rewrite <- (sb_view_len b W). apply firstn_all.
    + destruct (Nat.ltb_spec (sbsize b) n); [reflexivity|].
      destruct b as [d s]; cbn [sbdata sbsize] in *. sb_cases W; [cbn in *; lia|].
      rewrite sfill_ok by lia. cbn [rbind]. eexists; split; [reflexivity|]. split.
      * right. cbn [sbdata sbsize]. rewrite length_overwrite by (rewrite repeat_length; lia).
        split; [lia|]. split; [assumption|]. intros i Hi Hl. rewrite nthe_overwrite_in by (rewrite repeat_length; lia).
        rewrite repeat_length, nthe_repeat. ltb_cases; try lia; try reflexivity. apply W3; lia.
      * unfold sb_view; cbn [sbdata sbsize]. apply nth_error_ext; intro i.
        rewrite !nthe_firstn, nthe_overwrite_in by (rewrite repeat_length; lia). ltb_cases; nth_close.
  - (* resize *)
    unfold sb_resize. destruct (sb_grow_ok n b W) as (k & -> & A & B). cbn [rbind sbdata sbsize].
    destruct b as [d s]; cbn [sbdata sbsize] in *.
    destruct (sb_ext_wf d s k W B ltac:(sb_cases W; cbn [length] in *; lia)) as (W' & V').
    set (d' := d ++ repeat 0%Z k) in *. assert (n < length d') as Ld by (unfold d'; rewrite app_length, repeat_length; lia).
    assert (forall i, s <= i -> i < length d' -> nth_error d' i = Some 0%Z) as Z'.
    { destruct W' as [[E _]|(_ & _ & Z')]; cbn [sbdata sbsize] in *; [rewrite E in Ld; cbn in Ld; lia|assumption]. }
    assert (s < length d' /\ SB_INIT_CAP_n <= length d') as [Ls Li].
    { destruct W' as [[E _]|(X & Y & _)]; cbn [sbdata sbsize] in *; [rewrite E in Ld; cbn in Ld; lia|auto]. }
    rewrite <- V'. unfold sb_view; cbn [sbdata sbsize]. rewrite firstn_length. replace (Nat.min s (length d')) with s by lia.
    destruct (Nat.ltb_spec n s).
    + rewrite sfill_ok by lia. cbn [rbind]. eexists; split; [reflexivity|]. split.
      * right. cbn [sbdata sbsize]. rewrite length_overwrite by (rewrite repeat_length; lia).
        split; [assumption|]. split; [assumption|]. intros i Hi Hl. rewrite nthe_overwrite_in by (rewrite repeat_length; lia).
        rewrite repeat_length, nthe_repeat. ltb_cases; try lia; try reflexivity. apply Z'; lia.
      * unfold sb_view; cbn [sbdata sbsize]. apply nth_error_ext; intro i.
        rewrite nthe_firstn, nthe_overwrite_in, nthe_app, !nthe_firstn, !firstn_length, nthe_repeat by (rewrite repeat_length; lia).
        replace (Nat.min n (Nat.min s (length d'))) with n by lia. rewrite ?nthe_repeat. ltb_cases; nth_close.
    + cbn [rbind]. eexists; split; [reflexivity|]. split.
      * right. cbn [sbdata sbsize]. split; [assumption|]. split; [assumption|]. intros i Hi Hl. apply Z'; lia.
      * unfold sb_view; cbn [sbdata sbsize]. apply nth_error_ext; intro i.
        rewrite nthe_firstn, nthe_app, !nthe_firstn, !firstn_length, nthe_repeat.
        replace (Nat.min n (Nat.min s (length d'))) with s by lia.
        ltb_cases; nth_close; try (apply Z'; lia).
  - (* clear *)
    unfold sb_clear. destruct b as [d s]; cbn [sbdata sbsize] in *.
    destruct (Nat.ltb_spec 0 s).
    + sb_cases W; [lia|]. rewrite sfill_ok by lia. cbn [rbind]. eexists; split; [reflexivity|]. split; [|reflexivity].
      right. cbn [sbdata sbsize]. rewrite length_overwrite by (rewrite repeat_length; lia).
      split; [lia|]. split; [assumption|]. intros i Hi Hl. rewrite nthe_overwrite_in by (rewrite repeat_length; lia).
      rewrite repeat_length, nthe_repeat. ltb_cases; try lia; try reflexivity. apply W3; lia.
    + cbn [rbind]. assert (s = 0) by lia. subst s. eexists; split; [reflexivity|]. split; [assumption|reflexivity].
  - (* promote *)
    eexists; split; [reflexivity|]. split; [left; auto|reflexivity].
  - (* commit of more than the prepared span: stopped *)
    destruct (sb_prepare_ok n b W) as (k & -> & A & B). cbn [rbind fst snd].
    unfold sb_commit; cbn [sbdata sbsize]. rewrite app_length, repeat_length.
    destruct (Nat.eqb_spec (sbsize b + (length (sbdata b) + k - sbsize b - 1 + 1 + d)) (sbsize b)); [lia|].
    destruct (Nat.ltb_spec (sbsize b + (length (sbdata b) + k - sbsize b - 1 + 1 + d)) (length (sbdata b) + k)); [lia|reflexivity].
  - (* prepare *)
    destruct (sb_prepare_ok n b W) as (k & -> & A & B). cbn [rbind fst].
    destruct b as [d s]; cbn [sbdata sbsize] in *.
    destruct (sb_ext_wf d s k W B ltac:(lia)) as (W' & V'). eauto.
  - (* destroy *)
    eexists; split; [reflexivity|]. split; [left; auto|reflexivity].
  - (* write(a1, a2, ...) *)
    destruct (sb_write_parts_ok parts 0 b W) as (b' & -> & W' & V'). eauto.
Qed.

(* the static sufficient condition: at most the n bytes asked for *)
Lemma sb_op_ok_static : forall o b, sb_wf b -> sb_op_ok o -> sb_op_ok_at b o.
Proof.
  intros o b W OK. destruct o; cbn [sb_op_ok sb_op_ok_at] in *; auto.
  intros p E. destruct (sb_prepare_ok n b W) as (k & E' & A & B). rewrite E' in E. inversion E; subst p. cbn [snd]. lia.
Qed.

Theorem sb_step_refines : forall o b, sb_wf b -> sb_op_ok o ->
  match by_step o (sb_view b) with
  | Ok (l', r) => exists b', sb_step o b = Ok (b', r) /\ sb_wf b' /\ sb_view b' = l'
  | Trap t => sb_step o b = Trap t
  end.
Proof. intros o b W OK. apply sb_step_refines_at; [assumption|apply sb_op_ok_static; assumption]. Qed.



Theorem sb_run_refines : forall ops b, sb_wf b -> Forall sb_op_ok ops ->
  match by_run ops (sb_view b) with
  | Ok (l', rs) => exists b', sb_run ops b = Ok (b', rs) /\ sb_wf b' /\ sb_view b' = l'
  | Trap t => sb_run ops b = Trap t
  end.
Proof.
  induction ops as [|o tl IH]; intros b W OK; cbn [by_run sb_run].
  - eauto.
  - inversion OK; subst. pose proof (sb_step_refines o b W H1) as S.
    destruct (by_step o (sb_view b)) as [[l1 r1]|t]; cbn [rbind fst snd].
    + destruct S as (b1 & -> & W1 & C1). cbn [rbind fst snd]. subst l1.
      specialize (IH b1 W1 H2). destruct (by_run tl (sb_view b1)) as [[l2 rs]|t]; cbn [rbind fst snd].
      * destruct IH as (b2 & -> & W2 & C2). cbn [rbind fst snd]. eauto.
      * rewrite IH. reflexivity.
    + rewrite S. reflexivity.
Qed.

(* the byte after the contents is always the NUL terminator once a buffer exists *)
Theorem sb_nul_slot_zero : forall b, sb_wf b -> sbdata b <> [] -> sb_nul_slot b = Some 0%Z.
Proof.
  intros b W NE. unfold sb_nul_slot. destruct W as [[E _]|(A & _ & Z)]; [contradiction|]. apply Z; lia.
Qed.

(* ---- the commit guard (repaired in /repo 8abaeda).  Documented precondition: "a call to prepare must be preceded
   ..., and its returned span length must have at least n bytes".  Full strength: commit succeeds exactly when it
   leaves the NUL slot in place (or commits nothing), a successful commit keeps the builder well formed, and
   committing more than the prepared span is stopped. *)
Theorem sb_commit_exact : forall n b, sb_wf b ->
  (n = 0 \/ sbsize b + n < length (sbdata b) ->
     exists b', sb_commit n b = Ok b' /\ sb_wf b' /\ sbsize b' = sbsize b + n /\ sbdata b' = sbdata b) /\
  (n <> 0 /\ length (sbdata b) <= sbsize b + n -> sb_commit n b = Trap TrapNoSpace).
Proof.
  intros n [d s] W. unfold sb_commit; cbn [sbdata sbsize]. split.
  - intros H. assert ((s + n =? s) || (s + n <? length d) = true) as ->.
    { destruct H as [->|H]; [rewrite Nat.add_0_r, Nat.eqb_refl; reflexivity|].
      apply orb_true_iff. right. apply Nat.ltb_lt. assumption. }
    eexists; split; [reflexivity|]. split; [|split; reflexivity].
    destruct H as [->|H]; [rewrite Nat.add_0_r; assumption|].
    right. cbn [sbdata sbsize]. sb_cases W; [cbn in H; lia|].
    split; [assumption|]. split; [assumption|]. intros i Hi Hl. apply W3; lia.
  - intros [H1 H2]. destruct (Nat.eqb_spec (s + n) s); [lia|]. destruct (Nat.ltb_spec (s + n) (length d)); [lia|]. reflexivity.
Qed.

Theorem sb_commit_guard : forall n d b, sb_wf b -> sb_step (BCommitOver n d) b = Trap TrapNoSpace.
Proof.
  intros n d b W. cbn [sb_step]. destruct (sb_prepare_ok n b W) as (k & -> & A & B). cbn [rbind fst snd].
  unfold sb_commit; cbn [sbdata sbsize]. rewrite app_length, repeat_length.
  destruct (Nat.eqb_spec (sbsize b + (length (sbdata b) + k - sbsize b - 1 + 1 + d)) (sbsize b)); [lia|].
  destruct (Nat.ltb_spec (sbsize b + (length (sbdata b) + k - sbsize b - 1 + 1 + d)) (length (sbdata b) + k)); [lia|reflexivity].
Qed.

(* rollback guard at full strength *)
Theorem sb_rollback_guard : forall n b, sb_wf b -> sbsize b < n -> sb_rollback n b = Trap TrapNoSpace.
Proof.
  intros n b W H. unfold sb_rollback. destruct (Nat.eqb_spec n 0); [lia|].
  destruct (Nat.ltb_spec (sbsize b) n); [reflexivity|lia].
Qed.

Lemma sb_empty_wf : sb_wf sb_empty /\ sb_view sb_empty = [].
Proof. split; [left; auto|reflexivity]. Qed.

(* ---- span.nelua: the bounds guards *)
Theorem span_at_guard : forall T i (s : list T),
  (i < length s -> exists x, span_at T i s = Ok x /\ nth_error s i = Some x) /\
  (length s <= i -> span_at T i s = Trap TrapIndex).
Proof.
  intros. unfold span_at. split; intros H.
  - destruct (nth_error s i) eqn:E; [eauto|]. apply nth_error_None in E. lia.
  - rewrite (nthe_beyond _ _ _ H). reflexivity.
Qed.

Theorem span_sub_guard : forall T i j (s : list T),
  (i <= j /\ j <= length s -> span_sub T i j s = Ok (firstn (j - i) (skipn i s))) /\
  (~ (i <= j /\ j <= length s) -> span_sub T i j s = Trap TrapIndex).
Proof.
  intros. unfold span_sub. split; intros H.
  - destruct H. destruct (Nat.leb_spec i (length s)); [|lia]. destruct (Nat.leb_spec j (length s)); [|lia].
    destruct (Nat.leb_spec i j); [reflexivity|lia].
  - destruct (Nat.leb_spec i (length s)); destruct (Nat.leb_spec j (length s)); destruct (Nat.leb_spec i j); cbn; try reflexivity; lia.
Qed.

(* ---- span.nelua: the fat-pointer implementation refines the list view.  A span whose window lies inside the
   storage (sp_wf) answers s[i] and s:sub(i,j) exactly as the list of its elements does: the check stops every index
   outside the window with 'index out of range', every accepted access reads a cell INSIDE the window (never
   TrapMem), and the span returned by sub is again inside the storage, inside the parent window, and views the
   expected sub-list - so the statement composes through nested sub-spans. *)

Lemma sp_view_len : forall T (mem : list T) s, sp_wf mem s -> length (sp_view T mem s) = sp_size s.
Proof. intros T mem s W. unfold sp_view, sp_wf in *. rewrite firstn_length, skipn_length. lia. Qed.

Lemma sp_view_nth : forall T (mem : list T) s i, i < sp_size s ->
  nth_error (sp_view T mem s) i = nth_error mem (sp_off s + i).
Proof.
  intros T mem s i H. unfold sp_view. rewrite nthe_firstn. destruct (Nat.ltb_spec i (sp_size s)); [|lia].
  apply nthe_skipn.
Qed.

Theorem span_window_at : forall T (mem : list T) s i, sp_wf mem s ->
  spw_at T i mem s = span_at T i (sp_view T mem s).
Proof.
  intros T mem s i W. unfold spw_at, span_at. destruct (Nat.ltb_spec i (sp_size s)).
  - rewrite (sp_view_nth T mem s i H). unfold sget.
    destruct (nth_error mem (sp_off s + i)) eqn:E; [reflexivity|]. apply nth_error_None in E. unfold sp_wf in W. lia.
  - rewrite (nthe_beyond _ (sp_view T mem s) i); [reflexivity|]. rewrite sp_view_len by assumption. assumption.
Qed.

Theorem span_window_sub : forall T (mem : list T) s i j, sp_wf mem s ->
  match span_sub T i j (sp_view T mem s) with
  | Ok l => exists s', spw_sub i j s = Ok s' /\ sp_wf mem s' /\ sp_view T mem s' = l /\
                       (sp_size s' = 0 \/ (sp_off s <= sp_off s' /\ sp_off s' + sp_size s' <= sp_off s + sp_size s))
  | Trap t => spw_sub i j s = Trap t
  end.
Proof.
  intros T mem s i j W. unfold span_sub, spw_sub. rewrite (sp_view_len T mem s W).
  destruct ((i <=? sp_size s) && (j <=? sp_size s) && (i <=? j)) eqn:G; [|reflexivity].
  apply andb_true_iff in G. destruct G as [G G3]. apply andb_true_iff in G. destruct G as [G1 G2].
  apply Nat.leb_le in G1, G2, G3. unfold sp_wf in *.
  destruct (Nat.eqb_spec (sp_size s) 0) as [Z|NZ].
  - exists (mkspan 0 0). split; [reflexivity|]. cbn [sp_off sp_size]. split; [lia|]. split; [|left; reflexivity].
    unfold sp_view. cbn [sp_off sp_size]. replace (j - i) with 0 by lia. reflexivity.
  - exists (mkspan (sp_off s + i) (j - i)). split; [reflexivity|]. cbn [sp_off sp_size]. split; [lia|]. split; [|right; lia].
    unfold sp_view. cbn [sp_off sp_size]. apply nth_error_ext; intro k. rewrite !nthe_firstn.
    destruct (Nat.ltb_spec k (j - i)); [|reflexivity]. rewrite !nthe_skipn, nthe_firstn.
    destruct (Nat.ltb_spec (i + k) (sp_size s)); [|lia]. rewrite nthe_skipn. f_equal. lia.
Qed.

