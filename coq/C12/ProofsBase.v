(* C12 - list toolkit shared by the container proofs: pointwise ([nth_error]) characterisation of the
   storage primitives of Model.v and an extensionality tactic. *)
From Coq Require Import ZArith List Bool Lia Arith.
From C12 Require Import Gen Model.
Import ListNotations.

Lemma nth_error_ext : forall A (l1 l2 : list A),
  (forall i, nth_error l1 i = nth_error l2 i) -> l1 = l2.
Proof.
  induction l1 as [|a l1 IH]; destruct l2 as [|b l2]; intros H; auto.
  - specialize (H 0); discriminate.
  - specialize (H 0); discriminate.
  - f_equal.
    + specialize (H 0); cbn in H; congruence.
    + apply IH; intro i; exact (H (S i)).
Qed.

Lemma nthe_firstn : forall A n (l : list A) i,
  nth_error (firstn n l) i = if i <? n then nth_error l i else None.
Proof.
  induction n; intros l i; cbn [firstn].
  - destruct i; reflexivity.
  - destruct l as [|a l].
    + destruct i; cbn [nth_error]; match goal with |- context [if ?c then _ else _] => destruct c end; reflexivity.
    + destruct i; cbn [nth_error]; [reflexivity|].
      rewrite IHn. reflexivity.
Qed.

Lemma nthe_skipn : forall A n (l : list A) i,
  nth_error (skipn n l) i = nth_error l (n + i).
Proof.
  induction n; intros l i; cbn [skipn]; [reflexivity|].
  destruct l as [|a l]; [destruct i; reflexivity|]. cbn. apply IHn.
Qed.

Lemma nthe_app : forall A (l1 l2 : list A) i,
  nth_error (l1 ++ l2) i = if i <? length l1 then nth_error l1 i else nth_error l2 (i - length l1).
Proof.
  intros. destruct (Nat.ltb_spec i (length l1)).
  - apply nth_error_app1; assumption.
  - apply nth_error_app2; assumption.
Qed.

Lemma nthe_repeat : forall A (x : A) n i,
  nth_error (repeat x n) i = if i <? n then Some x else None.
Proof.
  induction n; intros i; cbn [repeat].
  - destruct i; reflexivity.
  - destruct i; cbn [nth_error]; [reflexivity|]. rewrite IHn. reflexivity.
Qed.

Lemma nthe_cons : forall A (x : A) l i,
  nth_error (x :: l) i = if i =? 0 then Some x else nth_error l (i - 1).
Proof. intros. destruct i; cbn; [reflexivity|]. rewrite Nat.sub_0_r. reflexivity. Qed.

Lemma nthe_nil : forall A i, nth_error (@nil A) i = None.
Proof. destruct i; reflexivity. Qed.

Lemma nthe_beyond : forall A (l : list A) i, length l <= i -> nth_error l i = None.
Proof. intros. apply nth_error_None. assumption. Qed.

Lemma nthe_overwrite : forall A at_ (xs l : list A) i,
  nth_error (overwrite at_ xs l) i =
    if i <? at_ then (if i <? length l then nth_error l i else
                        if i <? length l + length xs then nth_error xs (i - length l) else nth_error l (at_ + length xs + (i - length l - length xs)))
    else if i <? Nat.min at_ (length l) + length xs then nth_error xs (i - Nat.min at_ (length l))
    else nth_error l (at_ + length xs + (i - Nat.min at_ (length l) - length xs)).
Proof.
  intros. unfold overwrite.
  rewrite nthe_app, firstn_length, nthe_firstn, nthe_app, nthe_skipn.
  destruct (Nat.ltb_spec i at_); destruct (Nat.ltb_spec i (Nat.min at_ (length l)));
    destruct (Nat.ltb_spec i (length l)); try lia; try reflexivity.
  - destruct (Nat.ltb_spec (i - Nat.min at_ (length l)) (length xs));
    destruct (Nat.ltb_spec i (length l + length xs)); try lia.
    + f_equal; lia.
    + f_equal; lia.
  - destruct (Nat.ltb_spec (i - Nat.min at_ (length l)) (length xs));
    destruct (Nat.ltb_spec i (Nat.min at_ (length l) + length xs)); try lia; reflexivity.
  - destruct (Nat.ltb_spec (i - Nat.min at_ (length l)) (length xs));
    destruct (Nat.ltb_spec i (Nat.min at_ (length l) + length xs)); try lia; reflexivity.
Qed.

(* the in-bounds case, which is the only one reachable *)
Lemma nthe_overwrite_in : forall A at_ (xs l : list A) i,
  at_ + length xs <= length l ->
  nth_error (overwrite at_ xs l) i =
    if i <? at_ then nth_error l i
    else if i <? at_ + length xs then nth_error xs (i - at_) else nth_error l i.
Proof.
  intros. rewrite nthe_overwrite.
  replace (Nat.min at_ (length l)) with at_ by lia.
  destruct (Nat.ltb_spec i at_).
  - destruct (Nat.ltb_spec i (length l)); [reflexivity|lia].
  - destruct (Nat.ltb_spec i (at_ + length xs)); [reflexivity|]. f_equal; lia.
Qed.

Lemma length_overwrite : forall A at_ (xs l : list A),
  at_ + length xs <= length l -> length (overwrite at_ xs l) = length l.
Proof.
  intros. unfold overwrite. rewrite !app_length, firstn_length, skipn_length. lia.
Qed.

Lemma length_srealloc : forall A (j : A) n l, length (srealloc j n l) = n.
Proof. intros. unfold srealloc. rewrite app_length, firstn_length, repeat_length. lia. Qed.

Lemma nthe_srealloc : forall A (j : A) n l i,
  nth_error (srealloc j n l) i =
    if i <? n then (if i <? length l then nth_error l i else Some j) else None.
Proof.
  intros. unfold srealloc. rewrite nthe_app, firstn_length, nthe_firstn, nthe_repeat.
  destruct (Nat.ltb_spec i n); destruct (Nat.ltb_spec i (length l));
    destruct (Nat.ltb_spec i (Nat.min n (length l))); try lia; try reflexivity.
  - destruct (Nat.ltb_spec (i - Nat.min n (length l)) (n - length l)); [reflexivity|lia].
  - destruct (Nat.ltb_spec (i - Nat.min n (length l)) (n - length l)); [lia|reflexivity].
  - destruct (Nat.ltb_spec (i - Nat.min n (length l)) (n - length l)); [lia|reflexivity].
Qed.

(* ---- storage primitives: success conditions and pointwise results *)
Lemma sget_ok : forall A i (l : list A), i < length l -> exists x, sget i l = Ok x /\ nth_error l i = Some x.
Proof.
  intros. unfold sget. destruct (nth_error l i) eqn:E.
  - eauto.
  - apply nth_error_None in E. lia.
Qed.

Lemma sget_Some : forall A i (l : list A) x, nth_error l i = Some x -> sget i l = Ok x.
Proof. intros. unfold sget. rewrite H. reflexivity. Qed.

Lemma sset_ok : forall A i (x : A) l, i < length l -> sset i x l = Ok (overwrite i [x] l).
Proof. intros. unfold sset. destruct (Nat.ltb_spec i (length l)); [reflexivity|lia]. Qed.

Lemma nthe_upd1 : forall A i (x : A) l j, i < length l ->
  nth_error (overwrite i [x] l) j = if j =? i then Some x else nth_error l j.
Proof.
  intros. rewrite nthe_overwrite_in by (cbn; lia). cbn [length].
  destruct (Nat.eqb_spec j i).
  - subst. destruct (Nat.ltb_spec i i); [lia|]. destruct (Nat.ltb_spec i (i + 1)); [|lia].
    rewrite Nat.sub_diag. reflexivity.
  - destruct (Nat.ltb_spec j i); [reflexivity|]. destruct (Nat.ltb_spec j (i + 1)); [lia|reflexivity].
Qed.

(* the ascending copy loop of memmove (destination not above the source) *)
Lemma mv_up_ok : forall A n dst src (l : list A), dst <= src -> src + n <= length l ->
  exists l', mv_up n dst src l = Ok l' /\ length l' = length l /\
    forall j, nth_error l' j = if (dst <=? j) && (j <? dst + n) then nth_error l (src + (j - dst)) else nth_error l j.
Proof.
  induction n; intros dst src l Hd Hs; cbn [mv_up].
  - exists l. split; [reflexivity|]. split; [reflexivity|]. intros j.
    destruct (Nat.leb_spec dst j); destruct (Nat.ltb_spec j (dst + 0)); cbn; try reflexivity; lia.
  - destruct (sget_ok A src l ltac:(lia)) as (e & Hg & Hn). rewrite Hg. cbn [rbind].
    rewrite sset_ok by lia. cbn [rbind].
    destruct (IHn (S dst) (S src) (overwrite dst [e] l) ltac:(lia) ltac:(rewrite length_overwrite; cbn [length]; lia)) as (l' & -> & L & P).
    exists l'. split; [reflexivity|]. split; [rewrite L; apply length_overwrite; cbn [length]; lia|].
    intros j. rewrite P, !nthe_upd1 by lia.
    destruct (Nat.leb_spec (S dst) j); destruct (Nat.ltb_spec j (S dst + n)); destruct (Nat.leb_spec dst j);
      destruct (Nat.ltb_spec j (dst + S n)); cbn [andb]; try lia.
    + destruct (Nat.eqb_spec (S src + (j - S dst)) dst); [lia|]. f_equal. lia.
    + destruct (Nat.eqb_spec j dst); [lia|reflexivity].
    + destruct (Nat.eqb_spec j dst); [|lia]. subst j. rewrite Nat.sub_diag, Nat.add_0_r. symmetry; assumption.
    + destruct (Nat.eqb_spec j dst); [lia|reflexivity].
Qed.

(* the descending copy loop (destination above the source) *)
Lemma mv_down_ok : forall A n dst src (l : list A), src < dst -> dst + n <= length l ->
  exists l', mv_down n dst src l = Ok l' /\ length l' = length l /\
    forall j, nth_error l' j = if (dst <=? j) && (j <? dst + n) then nth_error l (src + (j - dst)) else nth_error l j.
Proof.
  induction n; intros dst src l Hd Hs; cbn [mv_down].
  - exists l. split; [reflexivity|]. split; [reflexivity|]. intros j.
    destruct (Nat.leb_spec dst j); destruct (Nat.ltb_spec j (dst + 0)); cbn; try reflexivity; lia.
  - destruct (sget_ok A (src + n) l ltac:(lia)) as (e & Hg & Hn). rewrite Hg. cbn [rbind].
    rewrite sset_ok by lia. cbn [rbind].
    destruct (IHn dst src (overwrite (dst + n) [e] l) Hd ltac:(rewrite length_overwrite; cbn [length]; lia)) as (l' & -> & L & P).
    exists l'. split; [reflexivity|]. split; [rewrite L; apply length_overwrite; cbn [length]; lia|].
    intros j. rewrite P, !nthe_upd1 by lia.
    destruct (Nat.leb_spec dst j); destruct (Nat.ltb_spec j (dst + n)); destruct (Nat.ltb_spec j (dst + S n)); cbn [andb]; try lia.
    + destruct (Nat.eqb_spec (src + (j - dst)) (dst + n)); [lia|reflexivity].
    + destruct (Nat.eqb_spec j (dst + n)); [|lia]. subst j. replace (dst + n - dst) with n by lia. symmetry; assumption.
    + destruct (Nat.eqb_spec j (dst + n)); [lia|reflexivity].
    + destruct (Nat.eqb_spec j (dst + n)); [lia|reflexivity].
Qed.

Lemma smove_ok : forall A dst src n (l : list A),
  dst + n <= length l -> src + n <= length l ->
  smove dst src n l = Ok (overwrite dst (firstn n (skipn src l)) l).
Proof.
  intros. unfold smove.
  destruct (Nat.leb_spec (dst + n) (length l)); [|lia].
  destruct (Nat.leb_spec (src + n) (length l)); [|lia]. cbn [andb].
  assert (forall l', length l' = length l ->
            (forall j, nth_error l' j = if (dst <=? j) && (j <? dst + n) then nth_error l (src + (j - dst)) else nth_error l j) ->
            l' = overwrite dst (firstn n (skipn src l)) l) as E.
  { intros l' L P. apply nth_error_ext; intro j. rewrite P.
    rewrite nthe_overwrite_in by (rewrite firstn_length, skipn_length; lia).
    rewrite firstn_length, skipn_length, nthe_firstn, nthe_skipn.
    replace (Nat.min n (length l - src)) with n by lia.
    destruct (Nat.leb_spec dst j); destruct (Nat.ltb_spec j (dst + n)); destruct (Nat.ltb_spec j dst); cbn [andb]; try lia; try reflexivity.
    destruct (Nat.ltb_spec (j - dst) n); [reflexivity|lia]. }
  destruct (Nat.leb_spec dst src).
  - destruct (mv_up_ok A n dst src l ltac:(lia) ltac:(lia)) as (l' & -> & L & P). f_equal. apply E; assumption.
  - destruct (mv_down_ok A n dst src l ltac:(lia) ltac:(lia)) as (l' & -> & L & P). f_equal. apply E; assumption.
Qed.

Lemma sfill_ok : forall A at_ n (x : A) l, at_ + n <= length l -> sfill at_ n x l = Ok (overwrite at_ (repeat x n) l).
Proof. intros. unfold sfill. destruct (Nat.leb_spec (at_ + n) (length l)); [reflexivity|lia]. Qed.

Lemma length_move_block : forall A n src (l : list A), src + n <= length l -> length (firstn n (skipn src l)) = n.
Proof. intros. rewrite firstn_length, skipn_length. lia. Qed.

(* ---- tactics *)
Ltac ltb_cases :=
  repeat match goal with
  | |- context [?a <? ?b] => destruct (Nat.ltb_spec a b)
  | |- context [?a <=? ?b] => destruct (Nat.leb_spec a b)
  | |- context [?a =? ?b] => destruct (Nat.eqb_spec a b)
  end.

Ltac nth_close :=
  try reflexivity; try lia;
  try (f_equal; lia);
  try (symmetry; apply nthe_beyond; lia);
  try (apply nthe_beyond; lia).

#[export] Hint Rewrite nthe_firstn nthe_skipn nthe_app nthe_repeat nthe_cons nthe_nil nthe_srealloc
  firstn_length skipn_length app_length repeat_length length_srealloc : nthe.

(* abstract list operations, pointwise *)
Lemma bool_eq_true_false : forall b, b = true \/ b = false.
Proof. destruct b; auto. Qed.

Lemma nth_error_Some_lt : forall A (l : list A) i x, nth_error l i = Some x -> i < length l.
Proof. intros. apply nth_error_Some. congruence. Qed.

Lemma firstn_eq_nth : forall A (l1 l2 : list A) n,
  (forall i, i < n -> nth_error l1 i = nth_error l2 i) -> firstn n l1 = firstn n l2.
Proof.
  intros. apply nth_error_ext. intro i. rewrite !nthe_firstn.
  destruct (Nat.ltb_spec i n); [auto|reflexivity].
Qed.
